(* C13: the platform-filter expression written by pfid2_filter_to_str is the
   printed form of an AND-of-ORs tree that evaluates like the filter bytes. *)
From Coq Require Import List Bool NArith ZArith Lia.
From Coq Require Import Init.Byte.
From Bec2 Require Import Base.Result Base.Bytes Base.Sweep Gen.Consts Model.Bf2Str Model.Bf2Import.
Import ListNotations.
Open Scope N_scope.

(* ---------------------------------------------------------------------------- *)
(* specification: the value of the filter entries over a hardware set.
   Entries are 16-bit: bit 15 = "another entry of the same group follows",
   bit 14 = negation, bits 13..0 = hardware id.  The entries of a group are
   OR-ed, the groups AND-ed.  [grp]: value of the open group so far; [pending]:
   a group is open. *)
Fixpoint eval_entries (hw : N -> bool) (es : list N) (grp pending : bool) : bool :=
  match es with
  | [] => if pending then grp else true
  | e :: t =>
    let v := xorb (N.testbit e 14) (hw (N.land e 0x3FFF)) in
    if N.testbit e 15 then eval_entries hw t (grp || v) true
    else (grp || v) && eval_entries hw t false false
  end.

Definition eval_filter_bytes (hw : N -> bool) (f : bytes) : bool :=
  eval_entries hw (entries (dropN 2 f)) false false.

(* the last entry closes its group *)
Definition terminated (es : list N) : Prop :=
  match es with [] => True | _ => N.testbit (last es 0) 15 = false end.

(* ---------------------------------------------------------------------------- *)
(* the rendered string is the printed tree                                       *)

Lemma entry_str_print e : entry_str e = print_atom (entry_atom e).
Proof. unfold entry_str, print_atom, entry_atom. cbn [a_neg a_id]. reflexivity. Qed.

Lemma filter_loop_print : forall es gs cur,
  filter_loop es gs (map print_atom cur) = gs ++ map print_group (filter_groups es cur).
Proof.
  induction es as [|e t IH]; intros gs cur; cbn [filter_loop filter_groups].
  - cbn. rewrite app_nil_r. reflexivity.
  - rewrite entry_str_print.
    replace (map print_atom cur ++ [print_atom (entry_atom e)])
      with (map print_atom (cur ++ [entry_atom e])) by (rewrite map_app; reflexivity).
    destruct (negb (N.testbit e 15)).
    + change (@nil str) with (map print_atom []). rewrite IH.
      cbn [map]. rewrite <- app_assoc. reflexivity.
    + apply IH.
Qed.

Theorem filter_str_is_printed_expr f :
  pfid2_filter_to_str f =
  if filter_header_ok f then Ok (print_expr (filter_expr f)) else Err EBf3.
Proof.
  unfold pfid2_filter_to_str. destruct (filter_header_ok f); cbn [negb]; [|reflexivity].
  change (@nil str) with (map print_atom []) at 2.
  rewrite filter_loop_print. reflexivity.
Qed.

(* ---------------------------------------------------------------------------- *)
(* the tree evaluates like the filter bytes                                      *)

Lemma terminated_cons_more e t : N.testbit e 15 = true -> terminated (e :: t) ->
  t <> [] /\ terminated t.
Proof.
  intros Hb H. destruct t as [|x t'].
  - cbn in H. congruence.
  - split; [discriminate|]. exact H.
Qed.

Lemma terminated_cons_last e t : terminated (e :: t) -> terminated t.
Proof. destruct t as [|x t']; [intros; exact I|]. intro H. exact H. Qed.

Lemma eval_groups hw : forall es cur,
  terminated es -> (es = [] -> cur = []) ->
  eval_expr hw (filter_groups es cur) =
  eval_entries hw es (existsb (eval_atom hw) cur) (nonempty cur).
Proof.
  induction es as [|e t IH]; intros cur Ht Hc.
  - rewrite (Hc eq_refl). reflexivity.
  - cbn [filter_groups eval_entries].
    assert (Hv : existsb (eval_atom hw) (cur ++ [entry_atom e]) =
                 existsb (eval_atom hw) cur || xorb (N.testbit e 14) (hw (N.land e 0x3FFF))).
    { rewrite existsb_app. cbn [existsb]. rewrite orb_false_r. reflexivity. }
    destruct (N.testbit e 15) eqn:B; cbn [negb].
    + destruct (terminated_cons_more e t B Ht) as [Hne Ht'].
      rewrite IH; [|exact Ht'|intro E; contradiction].
      rewrite Hv. f_equal. destruct cur; reflexivity.
    + unfold eval_expr. cbn [forallb]. fold (eval_expr hw (filter_groups t [])).
      rewrite Hv. f_equal.
      rewrite IH; [reflexivity|exact (terminated_cons_last e t Ht)|reflexivity].
Qed.

Theorem filter_expr_equiv f : terminated (entries (dropN 2 f)) ->
  forall hw, eval_expr hw (filter_expr f) = eval_filter_bytes hw f.
Proof.
  intros Ht hw. unfold filter_expr, eval_filter_bytes.
  rewrite eval_groups; [reflexivity|exact Ht|reflexivity].
Qed.

(* an unterminated last group (last entry has bit 15 set) is not rendered at all:
   filter 01 01 80 9B requires hardware 0x9B, the rendered expression is empty (true) *)
Example filter_unterminated_dropped :
  let f := [x01; x01; x80; x9b] in
  pfid2_filter_to_str f = Ok [] /\
  eval_filter_bytes (fun _ => false) f = false /\
  eval_expr (fun _ => false) (filter_expr f) = true.
Proof. vm_compute. repeat split. Qed.

(* ---------------------------------------------------------------------------- *)
(* reading the text back: a small parser for the printed form, and
   parse (print e) = Some e for every tree the renderer can produce              *)

Definition name_char (c : N) : bool :=
  ((48 <=? c) && (c <=? 57)) || ((65 <=? c) && (c <=? 90)) || ((97 <=? c) && (c <=? 122)) || (c =? 95).

(* name -> id: "0xHHHH" or a key of HWCID_MAP *)
Definition parse_name (s : str) : option N :=
  match s with
  | 48 :: 120 :: a :: b :: c :: d :: nil =>
    match hexval a, hexval b, hexval c, hexval d with
    | Some x, Some y, Some z, Some w => Some (((x * 16 + y) * 16 + z) * 16 + w)
    | _, _, _, _ => None
    end
  | _ => dget str_eqb s HWCID_MAP
  end.

Definition parse_atom (s : str) : option atom :=
  match s with
  | [] => None
  | c :: t => if c =? 33 then option_map (mkAtom true) (parse_name t)
              else option_map (mkAtom false) (parse_name s)
  end.

(* every hardware id prints to a name that reads back as that id, consists of
   name characters only and is not empty: finite sweep over all 14-bit ids *)
Definition name_ok (hw : N) : bool :=
  let nm := hwcid_name hw in
  match parse_name nm with Some v => (v =? hw) | None => false end
  && forallb name_char nm && nonempty nm.

Lemma names_ok : forall hw, hw < 16384 -> name_ok hw = true.
Proof. apply (Sweep.sweep name_ok 16384). vm_compute. reflexivity. Qed.

Fixpoint mapO {A B} (f : A -> option B) (l : list A) : option (list B) :=
  match l with
  | [] => Some []
  | x :: t => match f x, mapO f t with Some y, Some r => Some (y :: r) | _, _ => None end
  end.

(* blanks and parentheses carry no information: groups are separated by '&',
   atoms of a group by '|' *)
Definition clean_group (s : str) : str :=
  filter (fun c => negb ((c =? 32) || (c =? 40) || (c =? 41))) s.
Definition parse_group (s : str) : option (list atom) :=
  mapO parse_atom (split_on 124 (clean_group s)).
Definition parse_expr (s : str) : option expr :=
  match s with
  | [] => Some []
  | _ => mapO parse_group (split_on 38 s)
  end.

Definition atom_char (c : N) : bool := name_char c || (c =? 33).
Definition atom_ok (a : atom) : Prop := a_id a < 16384.
Definition expr_ok (e : expr) : Prop := Forall (fun g => g <> [] /\ Forall atom_ok g) e.

Lemma name_char_atom_char c : name_char c = true -> atom_char c = true.
Proof. intro H. unfold atom_char. rewrite H. reflexivity. Qed.

Lemma name_char_not33 c : name_char c = true -> (c =? 33) = false.
Proof.
  unfold name_char. destruct (c =? 33) eqn:E; [|reflexivity].
  apply N.eqb_eq in E. subst. vm_compute. discriminate.
Qed.

Lemma print_atom_facts a : atom_ok a ->
  parse_atom (print_atom a) = Some a /\ forallb atom_char (print_atom a) = true /\ print_atom a <> [].
Proof.
  intro H. pose proof (names_ok (a_id a) H) as Hn. unfold name_ok in Hn.
  apply andb_true_iff in Hn as [Hn Hne]. apply andb_true_iff in Hn as [Hp Hc].
  destruct (parse_name (hwcid_name (a_id a))) as [v|] eqn:P; [|discriminate].
  apply N.eqb_eq in Hp. subst v.
  destruct a as [neg id]. cbn [a_id a_neg] in *. unfold print_atom. cbn [a_neg a_id].
  destruct neg.
  - split; [|split].
    + cbn [parse_atom]. change (33 =? 33) with true. cbv iota. rewrite P. reflexivity.
    + cbn [forallb]. change (atom_char 33) with true. cbn [andb].
      rewrite forallb_forall in *. intros x Hx. apply name_char_atom_char, Hc, Hx.
    + discriminate.
  - destruct (hwcid_name id) as [|c t] eqn:Nm; [discriminate|].
    split; [|split].
    + cbn [parse_atom]. cbn [forallb] in Hc. apply andb_true_iff in Hc as [Hc1 _].
      rewrite (name_char_not33 c Hc1). rewrite P. reflexivity.
    + rewrite forallb_forall in *. intros x Hx. apply name_char_atom_char, Hc, Hx.
    + discriminate.
Qed.

(* splitting at a one-character separator *)
Lemma split_on_acc_nosep c : forall a s acc,
  forallb (fun x => negb (x =? c)) a = true ->
  split_on_acc c (a ++ s) acc = split_on_acc c s (rev a ++ acc).
Proof.
  induction a as [|x t IH]; intros s acc H; [reflexivity|].
  cbn [forallb] in H. apply andb_true_iff in H as [H1 H2].
  cbn [app split_on_acc]. apply negb_true_iff in H1. rewrite H1.
  rewrite IH by exact H2. cbn [rev]. rewrite <- app_assoc. reflexivity.
Qed.

Lemma split_on_acc_join c : forall ps acc,
  Forall (fun p => forallb (fun x => negb (x =? c)) p = true) ps -> ps <> [] ->
  split_on_acc c (join [c] ps) acc = (rev acc ++ hd [] ps) :: tl ps.
Proof.
  induction ps as [|p t IH]; intros acc H Hne; [congruence|].
  inversion H as [|? ? Hp Ht]; subst.
  destruct t as [|q t'].
  - cbn [join hd tl]. rewrite <- (app_nil_r p) at 1. rewrite split_on_acc_nosep by exact Hp.
    cbn [split_on_acc]. rewrite rev_app_distr, rev_involutive. reflexivity.
  - change (join [c] (p :: q :: t')) with (p ++ [c] ++ join [c] (q :: t')).
    rewrite split_on_acc_nosep by exact Hp. cbn [app split_on_acc]. rewrite N.eqb_refl.
    rewrite rev_app_distr, rev_involutive. cbn [hd tl]. f_equal.
    rewrite IH by (try exact Ht; discriminate). reflexivity.
Qed.

Lemma split_join c ps :
  Forall (fun p => forallb (fun x => negb (x =? c)) p = true) ps -> ps <> [] ->
  split_on c (join [c] ps) = ps.
Proof.
  intros H Hne. unfold split_on. rewrite split_on_acc_join by assumption.
  destruct ps; [congruence|reflexivity].
Qed.

Definition str_ok (p : str) : Prop := forallb atom_char p = true.

Lemma atom_char_clean p : str_ok p -> clean_group p = p.
Proof.
  unfold str_ok, clean_group. induction p as [|c t IH]; intro H; [reflexivity|].
  cbn [forallb] in H. apply andb_true_iff in H as [H1 H2]. cbn [filter].
  assert (E : negb ((c =? 32) || (c =? 40) || (c =? 41)) = true).
  { destruct (c =? 32) eqn:A; [apply N.eqb_eq in A; subst; vm_compute in H1; discriminate|].
    destruct (c =? 40) eqn:B; [apply N.eqb_eq in B; subst; vm_compute in H1; discriminate|].
    destruct (c =? 41) eqn:C; [apply N.eqb_eq in C; subst; vm_compute in H1; discriminate|].
    reflexivity. }
  rewrite E, (IH H2). reflexivity.
Qed.

Lemma atom_char_nosep p c : str_ok p -> atom_char c = false ->
  forallb (fun x => negb (x =? c)) p = true.
Proof.
  unfold str_ok. intros H Hc. rewrite forallb_forall in *. intros x Hx.
  apply negb_true_iff. destruct (x =? c) eqn:E; [|reflexivity].
  apply N.eqb_eq in E. subst. rewrite (H c Hx) in Hc. discriminate.
Qed.

Lemma clean_app a b : clean_group (a ++ b) = clean_group a ++ clean_group b.
Proof. unfold clean_group. apply filter_app. Qed.

Lemma clean_join_or ps : Forall str_ok ps -> clean_group (join s_or ps) = join [124] ps.
Proof.
  induction ps as [|p t IH]; intro H; [reflexivity|].
  inversion H as [|? ? Hp Ht]; subst. destruct t as [|q t'].
  - cbn [join]. apply atom_char_clean, Hp.
  - change (join s_or (p :: q :: t')) with (p ++ s_or ++ join s_or (q :: t')).
    change (join [124] (p :: q :: t')) with (p ++ [124] ++ join [124] (q :: t')).
    rewrite !clean_app, (atom_char_clean p Hp), (IH Ht). reflexivity.
Qed.

Lemma clean_group_str ps : Forall str_ok ps -> clean_group (group_str ps) = join [124] ps.
Proof.
  intro H. destruct ps as [|p [|q t]].
  - reflexivity.
  - cbn [group_str join]. inversion H; subst. apply atom_char_clean. assumption.
  - unfold group_str. rewrite !clean_app, clean_join_or by exact H.
    change (clean_group [40]) with (@nil N). change (clean_group [41]) with (@nil N).
    cbn [app]. apply app_nil_r.
Qed.

Lemma mapO_map {A B} (f : A -> option B) (g : B -> A) l :
  Forall (fun y => f (g y) = Some y) l -> mapO f (map g l) = Some l.
Proof.
  induction 1 as [|y t Hy Ht IH]; [reflexivity|]. cbn [map mapO]. rewrite Hy, IH. reflexivity.
Qed.

Lemma parse_print_group g : g <> [] -> Forall atom_ok g -> parse_group (print_group g) = Some g.
Proof.
  intros Hne Hok. unfold parse_group, print_group.
  assert (Hs : Forall str_ok (map print_atom g)).
  { apply Forall_map. eapply Forall_impl; [|exact Hok]. intros a Ha. apply (print_atom_facts a Ha). }
  rewrite clean_group_str by exact Hs.
  rewrite split_join.
  - apply mapO_map. eapply Forall_impl; [|exact Hok]. intros a Ha. apply (print_atom_facts a Ha).
  - eapply Forall_impl; [|exact Hs]. intros p Hp. apply atom_char_nosep; [exact Hp|reflexivity].
  - destruct g; [congruence|discriminate].
Qed.

(* a printed group contains no '&' and is not blank *)
Lemma print_group_no_amp g : Forall atom_ok g ->
  forallb (fun x => negb (x =? 38)) (print_group g) = true.
Proof.
  intro Hok.
  assert (Hs : Forall (fun p => forallb (fun x => negb (x =? 38)) p = true) (map print_atom g)).
  { apply Forall_map. eapply Forall_impl; [|exact Hok]. intros a Ha.
    apply atom_char_nosep; [apply (print_atom_facts a Ha)|reflexivity]. }
  assert (J : forall ps, Forall (fun p => forallb (fun x => negb (x =? 38)) p = true) ps ->
              forallb (fun x => negb (x =? 38)) (join s_or ps) = true).
  { induction ps as [|p t IH]; intro H; [reflexivity|]. inversion H; subst.
    destruct t as [|q t']; [cbn [join]; assumption|].
    change (join s_or (p :: q :: t')) with (p ++ s_or ++ join s_or (q :: t')).
    rewrite !forallb_app. rewrite H2, (IH H3). reflexivity. }
  unfold print_group, group_str. destruct (map print_atom g) as [|p [|q t]] eqn:E.
  - reflexivity.
  - inversion Hs; assumption.
  - rewrite !forallb_app, (J _ Hs). reflexivity.
Qed.

Lemma parse_group_clean s s' : clean_group s = clean_group s' -> parse_group s = parse_group s'.
Proof. unfold parse_group. intros ->. reflexivity. Qed.

Lemma split_and : forall gs acc,
  Forall (fun g => forallb (fun x => negb (x =? 38)) g = true) gs -> gs <> [] ->
  clean_group (rev acc) = [] ->
  Forall2 (fun piece g => clean_group piece = clean_group g)
          (split_on_acc 38 (join s_and gs) acc) gs.
Proof.
  induction gs as [|g t IH]; intros acc H Hne Hacc; [congruence|].
  inversion H as [|? ? Hg Ht]; subst. destruct t as [|g2 t'].
  - cbn [join]. rewrite <- (app_nil_r g) at 1. rewrite split_on_acc_nosep by exact Hg.
    cbn [split_on_acc]. constructor; [|constructor].
    rewrite rev_app_distr, rev_involutive, clean_app, Hacc. reflexivity.
  - change (join s_and (g :: g2 :: t')) with (g ++ [32] ++ 38 :: ([32] ++ join s_and (g2 :: t'))).
    rewrite app_assoc.
    rewrite split_on_acc_nosep by (rewrite forallb_app, Hg; reflexivity).
    cbn [split_on_acc]. rewrite N.eqb_refl. constructor.
    + rewrite rev_app_distr, rev_involutive, !clean_app, Hacc. cbn. rewrite app_nil_r. reflexivity.
    + rewrite split_on_acc_nosep by reflexivity. apply IH; [exact Ht|discriminate|reflexivity].
Qed.

Lemma Forall2_weaken {A B} (P Q : A -> B -> Prop) l l' :
  (forall a b, P a b -> Q a b) -> Forall2 P l l' -> Forall2 Q l l'.
Proof. intros H F. induction F; constructor; auto. Qed.

Lemma mapO_Forall2 {A B} (f : A -> option B) l l' :
  Forall2 (fun x y => f x = f y) l l' -> mapO f l = mapO f l'.
Proof.
  induction 1 as [|x y t t' Hxy _ IH]; [reflexivity|]. cbn [mapO]. rewrite Hxy, IH. reflexivity.
Qed.

Theorem parse_print e : expr_ok e -> parse_expr (print_expr e) = Some e.
Proof.
  intro Hok. destruct e as [|g t]; [reflexivity|].
  unfold parse_expr, print_expr.
  assert (Hne : join s_and (map print_group (g :: t)) <> []).
  { inversion Hok as [|? ? [Hg1 Hg2] _]; subst.
    assert (print_group g <> []).
    { unfold print_group, group_str. destruct g as [|a [|b r]]; [congruence| |discriminate].
      cbn [map]. inversion Hg2; subst. apply (print_atom_facts a). assumption. }
    cbn [map]. destruct (map print_group t); cbn [join].
    - assumption.
    - intro E. apply app_eq_nil in E as [E _]. contradiction. }
  destruct (join s_and (map print_group (g :: t))) as [|c r] eqn:J; [congruence|]. rewrite <- J.
  unfold split_on.
  rewrite (mapO_Forall2 parse_group _ (map print_group (g :: t))).
  - apply mapO_map. eapply Forall_impl; [|exact Hok]. intros x [Hx1 Hx2]. apply parse_print_group; assumption.
  - eapply Forall2_weaken; [|apply split_and].
    + intros a b H. apply parse_group_clean. exact H.
    + apply Forall_map. eapply Forall_impl; [|exact Hok]. intros x [_ Hx]. apply print_group_no_amp, Hx.
    + discriminate.
    + reflexivity.
Qed.

(* the trees the renderer produces are of that kind *)
Lemma entry_atom_ok e : atom_ok (entry_atom e).
Proof.
  unfold atom_ok, entry_atom. cbn [a_id]. change 16383 with (N.ones 14).
  rewrite N.land_ones. apply N.mod_lt. discriminate.
Qed.

Lemma filter_groups_ok : forall es cur, Forall atom_ok cur -> expr_ok (filter_groups es cur).
Proof.
  induction es as [|e t IH]; intros cur Hc; cbn [filter_groups]; [constructor|].
  assert (Hc' : Forall atom_ok (cur ++ [entry_atom e])).
  { apply Forall_app. split; [exact Hc|]. constructor; [apply entry_atom_ok|constructor]. }
  destruct (negb (N.testbit e 15)).
  - constructor; [|apply IH; constructor]. split; [|exact Hc'].
    intro E. apply app_eq_nil in E as [_ E]. discriminate.
  - apply IH. exact Hc'.
Qed.

Theorem parse_print_filter f : parse_expr (print_expr (filter_expr f)) = Some (filter_expr f).
Proof. apply parse_print. unfold filter_expr. apply filter_groups_ok. constructor. Qed.

(* string level: whatever pfid2_filter_to_str returns reads back as a tree that
   evaluates like the filter bytes *)
Theorem filter_string_equiv f s : pfid2_filter_to_str f = Ok s ->
  terminated (entries (dropN 2 f)) ->
  exists e, parse_expr s = Some e /\ forall hw, eval_expr hw e = eval_filter_bytes hw f.
Proof.
  intros H Ht. rewrite filter_str_is_printed_expr in H.
  destruct (filter_header_ok f); [|discriminate]. inversion H; subst s.
  exists (filter_expr f). split; [apply parse_print_filter|]. apply filter_expr_equiv. exact Ht.
Qed.
