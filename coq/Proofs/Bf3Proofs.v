(* C01/C03/C05: proofs about the BF3 binary writer and reader of Model/Bf3.v *)
From Coq Require Import List Bool NArith ZArith Lia.
From Coq Require Import Init.Byte.
From Bec2 Require Import Base.Result Base.Bytes Base.Reader Gen.Consts Model.Bf3.
Import ListNotations.
Open Scope N_scope.

Tactic Notation "bind_inv" hyp(H) "as" ident(x) ident(E) :=
  match type of H with
  | bind ?r _ = Ok _ => destruct r as [x|] eqn:E; cbn [bind] in H; [|discriminate H]
  end.

Lemma to_bytes_be n v b : to_bytes n v = Ok b -> b = be n v /\ v < 256 ^ N.of_nat n.
Proof. apply to_bytes_ok. Qed.

(* ---- dict lemmas ---------------------------------------------------------- *)
Lemma dict_mem_in (d : desc) id : dict_mem N.eqb d id = true <-> In id (map fst d).
Proof.
  induction d as [|[k v] d IH]; simpl; [split; [discriminate|tauto]|].
  rewrite orb_true_iff, IH, N.eqb_eq. tauto.
Qed.

Lemma dict_set_fresh (d : desc) id v :
  dict_mem N.eqb d id = false -> dict_set N.eqb d id v = d ++ [(id, v)].
Proof.
  induction d as [|[k w] d IH]; simpl; [reflexivity|].
  intro H. apply orb_false_iff in H as [H1 H2]. rewrite H1, IH by exact H2. reflexivity.
Qed.

(* ---- tags ------------------------------------------------------------------ *)
Lemma ser_tags_len d tb : ser_tags d = Ok tb -> (2 * length d <= length tb)%nat.
Proof.
  revert tb; induction d as [|[id v] d IH]; intros tb H; simpl in *.
  - inversion H. simpl. lia.
  - bind_inv H as i Ei. bind_inv H as l El. bind_inv H as r Er. inversion H; subst.
    apply to_bytes_be in Ei as [-> _]. apply to_bytes_be in El as [-> _].
    specialize (IH _ eq_refl). rewrite !app_length, !be_length. lia.
Qed.

Lemma parse_tags_ser d : forall tb fuel acc p,
  ser_tags d = Ok tb ->
  NoDup (map fst (acc ++ d)) ->
  (length d < fuel)%nat ->
  parse_tags fuel (mkR tb p) acc = Ok (acc ++ d).
Proof.
  induction d as [|[id v] d IH]; intros tb fuel acc p H ND Hf.
  - simpl in H. inversion H; subst. destruct fuel; [simpl in Hf; lia|].
    simpl. rewrite app_nil_r. reflexivity.
  - simpl in H. bind_inv H as i Ei. bind_inv H as l El. bind_inv H as b1 Er. inversion H; subst. clear H.
    apply to_bytes_be in Ei as [-> Hid]. apply to_bytes_be in El as [-> Hl].
    destruct fuel as [|fuel]; [simpl in Hf; lia|].
    cbn [parse_tags]. unfold rd_eof. cbn [rest].
    destruct (be 1 id ++ be 1 (blen v) ++ v ++ b1) eqn:Eb.
    { apply (f_equal (@length byte)) in Eb. rewrite !app_length, be_length in Eb. simpl in Eb. lia. }
    rewrite <- Eb. clear Eb.
    rewrite (rd_read_int_be 1 id) by exact Hid. cbn [bind].
    rewrite (rd_read_int_be 1 (blen v)) by exact Hl. cbn [bind].
    rewrite rd_read_app. cbn [bind].
    assert (Hm : dict_mem N.eqb acc id = false).
    { destruct (dict_mem N.eqb acc id) eqn:Em; [|reflexivity].
      apply dict_mem_in in Em. rewrite map_app in ND. simpl in ND.
      apply NoDup_remove_2 in ND. exfalso. apply ND. apply in_or_app. left. exact Em. }
    rewrite Hm, dict_set_fresh by exact Hm.
    rewrite (IH b1 fuel (acc ++ [(id, v)])); [rewrite <- app_assoc; reflexivity|reflexivity| |simpl in Hf; lia].
    rewrite <- app_assoc. exact ND.
Qed.

Lemma blen_be n v : blen (be n v) = N.of_nat n.
Proof. apply be_blen. Qed.

Lemma rd_read_exact n a b p : blen a = n -> rd_read n (mkR (a ++ b) p) = Ok (a, mkR b (p + n)).
Proof. intros <-. apply rd_read_app. Qed.
Lemma rd_read_exact_all n a p : blen a = n -> rd_read n (mkR a p) = Ok (a, mkR [] (p + n)).
Proof. intro H. rewrite <- (app_nil_r a) at 1. apply rd_read_exact, H. Qed.

Section WithCipher.
  Variable enc dec mac : bytes -> option bytes -> bytes -> result bytes.
  Hypothesis mac_len : forall k iv d m, d <> [] -> mac k iv d = Ok m -> blen m = 16.

  Definition entry_of (c : comp) (adr : N) (raw pmac : bytes) : dentry :=
    mkDentry adr (blen raw) (c_alen c) pmac (c_desc c).

  Lemma parse_entry_ser c ndx adr k entry raw check :
    ser_entry enc mac c ndx adr k = Ok (entry, raw) ->
    NoDup (map fst (c_desc c)) ->
    c_alen c <= blen raw ->
    raw <> [] ->
    exists pmac er, mac k None raw = Ok pmac /\
      parse_entry mac entry (1 + ndx) check k = Ok (entry_of c adr raw pmac, er) /\
      rest er = [].
  Proof.
    intros H ND Hal Hraw.
    unfold ser_entry in H.
    bind_inv H as raw' Eraw. bind_inv H as pmac Epmac. bind_inv H as a Ea. bind_inv H as tl Etl.
    bind_inv H as al Eal. bind_inv H as tags Etags. bind_inv H as tgl Etgl.
    bind_inv H as iv Eiv. bind_inv H as emac Eemac.
    inversion H; subst entry raw'. clear H.
    apply to_bytes_be in Ea as [-> Ha]. apply to_bytes_be in Etl as [-> Htl].
    apply to_bytes_be in Eal as [-> Hal']. apply to_bytes_be in Etgl as [-> Htgl].
    pose proof (mac_len _ _ _ _ Hraw Epmac) as Lp.
    set (body := be 4 adr ++ be 4 (blen raw) ++ be 4 (c_alen c) ++ pmac ++ be 1 (blen tags) ++ tags) in *.
    assert (Hbody : body <> []).
    { unfold body. intro Hn. apply (f_equal (@length byte)) in Hn.
      rewrite !app_length, !be_length in Hn. simpl in Hn. lia. }
    pose proof (mac_len _ _ _ _ Hbody Eemac) as Le.
    exists pmac. eexists. split; [exact Epmac|].
    assert (Et : takeN (blen (body ++ emac) - 16) (body ++ emac) = body).
    { apply takeN_app_exact'. rewrite blen_app, Le. lia. }
    unfold parse_entry, new_reader. change CMAC_SIZE with 16. rewrite Et.
    assert (Ee : body ++ emac =
      be 4 adr ++ be 4 (blen raw) ++ be 4 (c_alen c) ++ pmac ++ be 1 (blen tags) ++ tags ++ emac).
    { unfold body. rewrite <- !app_assoc. reflexivity. }
    rewrite Ee at 1.
    rewrite (rd_read_int_be 4 adr) by exact Ha. cbn [bind].
    rewrite (rd_read_int_be 4 (blen raw)) by exact Htl. cbn [bind].
    rewrite (rd_read_int_be 4 (c_alen c)) by exact Hal'. cbn [bind].
    destruct (blen raw <? c_alen c) eqn:Elt; [apply N.ltb_lt in Elt; lia|].
    rewrite (rd_read_exact 16 pmac) by exact Lp. cbn [bind].
    rewrite Eiv. cbn [bind].
    rewrite (rd_read_int_be 1 (blen tags)) by exact Htgl. cbn [bind].
    rewrite rd_read_app. cbn [bind].
    rewrite (parse_tags_ser (c_desc c) tags _ [] 0 Etags ND).
    2:{ pose proof (ser_tags_len _ _ Etags). lia. }
    cbn [bind app].
    rewrite (rd_read_exact_all 16 emac) by exact Le. cbn [bind].
    destruct check.
    - rewrite Eemac. cbn [bind]. rewrite bytes_eqb_refl. cbn [bind].
      split; reflexivity.
    - cbn [bind]. split; reflexivity.
  Qed.

  (* facts about the serialised entry *)
  Lemma ser_entry_facts c ndx adr k entry raw :
    ser_entry enc mac c ndx adr k = Ok (entry, raw) -> raw <> [] ->
    raw_data enc c k = Ok raw /\ (exists pmac, mac k None raw = Ok pmac) /\
    (exists tags, ser_tags (c_desc c) = Ok tags /\ blen entry = 45 + blen tags).
  Proof.
    intros H Hraw. unfold ser_entry in H.
    bind_inv H as raw' Eraw. bind_inv H as pmac Epmac. bind_inv H as a Ea. bind_inv H as tl Etl.
    bind_inv H as al Eal. bind_inv H as tags Etags. bind_inv H as tgl Etgl.
    bind_inv H as iv Eiv. bind_inv H as emac Eemac.
    inversion H; subst entry raw'. clear H.
    apply to_bytes_be in Ea as [-> Ha]. apply to_bytes_be in Etl as [-> Htl].
    apply to_bytes_be in Eal as [-> Hal']. apply to_bytes_be in Etgl as [-> Htgl].
    pose proof (mac_len _ _ _ _ Hraw Epmac) as Lp.
    split; [reflexivity|]. split; [exists pmac; exact Epmac|]. exists tags. split; [reflexivity|].
    assert (Hbody : be 4 adr ++ be 4 (blen raw) ++ be 4 (c_alen c) ++ pmac ++ be 1 (blen tags) ++ tags <> []).
    { intro Hn. apply (f_equal (@length byte)) in Hn.
      rewrite !app_length, !be_length in Hn. simpl in Hn. lia. }
    pose proof (mac_len _ _ _ _ Hbody Eemac) as Le.
    rewrite !blen_app, !blen_be, Lp, Le. lia.
  Qed.

  Definition parse_dir' (fuel : nat) (dr : reader) (ndx : N) (check : bool) (k : bytes)
                        (acc : list dentry) : result (list dentry * reader) :=
    let* (len, dr) := rd_read_int 1 dr in parse_dir mac fuel dr len ndx check k acc.

  Fixpoint entries_of (cs : list comp) (adr : N) (k : bytes) : result (list dentry) :=
    match cs with
    | [] => Ok []
    | c :: t =>
      let* raw := raw_data enc c k in
      let* pmac := mac k None raw in
      let* r := entries_of t (adr + blen raw) k in
      Ok (entry_of c adr raw pmac :: r)
    end.

  (* what the entry lemma needs from a component, relative to a key *)
  Definition okc (k : bytes) (c : comp) : Prop :=
    NoDup (map fst (c_desc c)) /\
    forall raw, raw_data enc c k = Ok raw -> raw <> [] /\ c_alen c <= blen raw.

  Lemma parse_dir_ser cs : forall ndx adr db fuel acc tail p check k,
    ser_dir enc mac cs ndx adr k = Ok db ->
    Forall (okc k) cs ->
    (length cs < fuel)%nat ->
    exists es, entries_of cs adr k = Ok es /\
      parse_dir' fuel (mkR (db ++ [x00] ++ tail) p) (1 + ndx) check k acc =
        Ok (rev acc ++ es, mkR tail (p + blen db + 1)).
  Proof.
    induction cs as [|c cs IH]; intros ndx adr db fuel acc tail p check k H Hok Hf.
    - simpl in H. inversion H; subst db. exists []. split; [reflexivity|].
      destruct fuel as [|fuel]; [simpl in Hf; lia|].
      unfold parse_dir'. cbn [app].
      change (x00 :: tail) with (be 1 0 ++ tail).
      rewrite (rd_read_int_be 1 0) by (vm_compute; reflexivity). cbn [bind parse_dir N.eqb].
      rewrite app_nil_r. f_equal. f_equal. f_equal. rewrite blen_nil. change (N.of_nat 1) with 1. lia.
    - cbn [ser_dir] in H.
      destruct (ser_entry enc mac c ndx adr k) as [[entry raw]|] eqn:Ee; cbn [bind] in H; [|discriminate].
      bind_inv H as el Eel. bind_inv H as rdb Erest. inversion H; subst db. clear H.
      apply to_bytes_be in Eel as [-> Hel].
      inversion Hok as [|? ? [ND Hc] Hok']; subst.
      destruct fuel as [|fuel]; [simpl in Hf; lia|].
      assert (Hraw0 : raw_data enc c k = Ok raw).
      { unfold ser_entry in Ee. destruct (raw_data enc c k) eqn:Er; cbn [bind] in Ee; [|discriminate].
        repeat match type of Ee with
               | bind ?r _ = Ok _ => destruct r; cbn [bind] in Ee; [|discriminate]
               end. inversion Ee; subst. reflexivity. }
      destruct (Hc raw Hraw0) as [Hraw Hal].
      destruct (parse_entry_ser c ndx adr k entry raw check Ee ND Hal Hraw) as [pmac [er [Epmac [Epe Her]]]].
      destruct (ser_entry_facts c ndx adr k entry raw Ee Hraw) as [_ [_ [tags [Etags Elen]]]].
      destruct (IH (ndx + 1) (adr + blen raw) rdb fuel (entry_of c adr raw pmac :: acc) tail
                  (p + 1 + blen entry) check k Erest Hok' ltac:(simpl in Hf; lia)) as [es [Ees Epd]].
      exists (entry_of c adr raw pmac :: es). split.
      { cbn [entries_of]. rewrite Hraw0. cbn [bind]. rewrite Epmac. cbn [bind]. rewrite Ees. reflexivity. }
      unfold parse_dir'. rewrite <- !app_assoc.
      rewrite (rd_read_int_be 1 (blen entry)) by exact Hel. cbn [bind parse_dir].
      destruct (blen entry =? 0) eqn:Ez; [apply N.eqb_eq in Ez; lia|].
      rewrite rd_read_app. cbn [bind]. rewrite Epe. cbn [bind].
      unfold rd_ensure_eof, rd_eof. rewrite Her.
      change (N.of_nat 1) with 1.
      unfold parse_dir' in Epd. replace (1 + (ndx + 1)) with (1 + ndx + 1) in Epd by lia.
      destruct (rd_read_int 1 {| rest := rdb ++ [x00] ++ tail; pos := p + 1 + blen entry |})
        as [[len' dr']|] eqn:Er; cbn [bind] in Epd |- *; [|discriminate].
      rewrite Epd. cbn [rev]. rewrite <- app_assoc. cbn [app].
      f_equal. f_equal. f_equal. rewrite !blen_app, blen_be. change (N.of_nat 1) with 1. lia.
  Qed.

  Hypothesis enc_len : forall k d c, blen d mod 16 = 0 -> enc k None d = Ok c -> blen c = blen d.
  Hypothesis dec_enc : forall k d c, blen d mod 16 = 0 -> enc k None d = Ok c -> dec k None c = Ok d.

  Lemma pad_aligned b : blen (pad b) mod 16 = 0 /\ blen b <= blen (pad b).
  Proof.
    unfold pad, pad_length. rewrite blen_app, blen_zeros.
    set (z := Z.of_N (blen b)). assert (Hz : (0 <= z)%Z) by lia.
    set (m := (- z mod 16)%Z).
    assert (Hm : (0 <= m < 16)%Z) by (apply Z.mod_pos_bound; lia).
    replace (N.of_nat (Z.to_nat m)) with (Z.to_N m) by lia.
    split; [|lia].
    apply N2Z.inj. rewrite N2Z.inj_mod, N2Z.inj_add. fold z.
    rewrite Z2N.id by lia.
    subst m. pose proof (Z.div_mod (- z) 16 ltac:(lia)) as E.
    set (q := (- z / 16)%Z) in *. set (r := (- z mod 16)%Z) in *.
    replace (z + r)%Z with ((- q) * 16)%Z by lia. apply Z.mod_mul. lia.
  Qed.

  (* well-formed component objects: what the property quantifies over *)
  Definition wf_comp (c : comp) : Prop :=
    NoDup (map fst (c_desc c)) /\ c_blob c <> [] /\ 1 <= c_alen c <= blen (c_blob c) /\
    (c_enc c = true <-> dict_get N.eqb (c_desc c) BF3TAG_ENC = Some enc_tag_value).

  (* what the reader returns for a component: encrypted ones come back zero-padded *)
  Definition view (c : comp) : comp :=
    if c_enc c then mkComp (c_desc c) (pad (c_blob c)) (c_alen c) true else c.

  Lemma wf_okc k c : wf_comp c -> okc k c.
  Proof.
    intros [ND [Hb [Hal _]]]. split; [exact ND|]. intros raw Hr. unfold raw_data in Hr.
    destruct (c_enc c).
    - destruct (pad_aligned (c_blob c)) as [Hma Hle]. apply (enc_len _ _ _ Hma) in Hr. split; [|lia].
      intro Hn. subst raw. rewrite blen_nil in Hr.
      destruct (c_blob c); [contradiction|]. rewrite blen_cons in Hle. lia.
    - inversion Hr; subst. split; [exact Hb|lia].
  Qed.

  Lemma read_comps_ser cs : forall adr es pb tail check k,
    entries_of cs adr k = Ok es -> payloads enc cs k = Ok pb -> Forall wf_comp cs ->
    read_comps dec mac es (mkR (pb ++ tail) adr) check k = Ok (map view cs, mkR tail (adr + blen pb)).
  Proof.
    induction cs as [|c cs IH]; intros adr es pb tail check k He Hp Hwf.
    - simpl in *. inversion He; inversion Hp; subst. cbn. rewrite N.add_0_r. reflexivity.
    - cbn [entries_of payloads] in *.
      bind_inv He as raw Eraw. bind_inv He as pmac Epmac. bind_inv He as es' Ees. inversion He; subst es. clear He.
      cbn [bind] in Hp. bind_inv Hp as pb' Epb. inversion Hp; subst pb. clear Hp.
      inversion Hwf as [|? ? Hc Hwf']; subst.
      cbn [read_comps entry_of e_adr e_total e_pmac e_desc e_alen pos].
      rewrite N.eqb_refl. cbn [negb]. rewrite <- app_assoc, rd_read_app. cbn [bind].
      assert (Hchk : (if check then let* m := mac k None raw in
                        if bytes_eqb m pmac then Ok tt else Err EBf3 else Ok tt) = Ok tt).
      { destruct check; [|reflexivity]. rewrite Epmac. cbn [bind]. rewrite bytes_eqb_refl. reflexivity. }
      rewrite Hchk. cbn [bind].
      destruct Hc as [ND [Hb [Hal Henc]]].
      assert (Hc' : (match dict_get N.eqb (c_desc c) BF3TAG_ENC with
                 | Some v =>
                   if bytes_eqb v enc_tag_value
                   then let* b := dec k None raw in Ok (mk_comp (c_desc c) b (Some (c_alen c)) true)
                   else Ok (mk_comp (c_desc c) raw (Some (c_alen c)) false)
                 | None => Ok (mk_comp (c_desc c) raw (Some (c_alen c)) false)
                 end) = Ok (view c)).
      { unfold view, raw_data in *. 
        assert (Hmk : forall b e, mk_comp (c_desc c) b (Some (c_alen c)) e = mkComp (c_desc c) b (c_alen c) e).
        { intros b e. unfold mk_comp. destruct (c_alen c) eqn:Ea; [lia|reflexivity]. }
        destruct (c_enc c) eqn:Ef.
        - rewrite (proj1 Henc eq_refl), bytes_eqb_refl.
          destruct (pad_aligned (c_blob c)) as [Hm _].
          rewrite (dec_enc _ _ _ Hm Eraw). cbn [bind]. rewrite Hmk. reflexivity.
        - inversion Eraw; subst raw.
          assert (Hplain : mk_comp (c_desc c) (c_blob c) (Some (c_alen c)) false = c).
          { rewrite Hmk. destruct c; cbn in *. subst. reflexivity. }
          destruct (dict_get N.eqb (c_desc c) BF3TAG_ENC) as [v|] eqn:Eg; [|rewrite Hplain; reflexivity].
          destruct (bytes_eqb v enc_tag_value) eqn:Ev; [|rewrite Hplain; reflexivity].
          apply bytes_eqb_eq in Ev. subst v. discriminate (proj2 Henc eq_refl). }
      rewrite Hc'. cbn [bind].
      rewrite (IH (adr + blen raw) es' pb' tail check k Ees Epb Hwf'). cbn [bind map].
      f_equal. f_equal. f_equal. rewrite blen_app. lia.
  Qed.

  Lemma ser_dir_blen cs : forall n1 a1 k1 n2 a2 k2 d1 d2,
    ser_dir enc mac cs n1 a1 k1 = Ok d1 -> ser_dir enc mac cs n2 a2 k2 = Ok d2 ->
    Forall wf_comp cs -> blen d1 = blen d2 /\ (length cs <= length d1)%nat.
  Proof.
    induction cs as [|c cs IH]; intros n1 a1 k1 n2 a2 k2 d1 d2 H1 H2 Hwf.
    - simpl in *. inversion H1; inversion H2; subst. split; [reflexivity|simpl; lia].
    - cbn [ser_dir] in H1, H2.
      destruct (ser_entry enc mac c n1 a1 k1) as [[e1 r1]|] eqn:E1; cbn [bind] in H1; [|discriminate].
      destruct (ser_entry enc mac c n2 a2 k2) as [[e2 r2]|] eqn:E2; cbn [bind] in H2; [|discriminate].
      bind_inv H1 as el1 El1. bind_inv H1 as t1 Et1. inversion H1; subst d1. clear H1.
      bind_inv H2 as el2 El2. bind_inv H2 as t2 Et2. inversion H2; subst d2. clear H2.
      apply to_bytes_be in El1 as [-> _]. apply to_bytes_be in El2 as [-> _].
      inversion Hwf as [|? ? Hc Hwf']; subst.
      assert (R1 : raw_data enc c k1 = Ok r1).
      { unfold ser_entry in E1. destruct (raw_data enc c k1); cbn [bind] in E1; [|discriminate].
        repeat match type of E1 with
               | bind ?r _ = Ok _ => destruct r; cbn [bind] in E1; [|discriminate]
               end. inversion E1; subst. reflexivity. }
      assert (R2 : raw_data enc c k2 = Ok r2).
      { unfold ser_entry in E2. destruct (raw_data enc c k2); cbn [bind] in E2; [|discriminate].
        repeat match type of E2 with
               | bind ?r _ = Ok _ => destruct r; cbn [bind] in E2; [|discriminate]
               end. inversion E2; subst. reflexivity. }
      destruct (wf_okc k1 c Hc) as [_ O1]. destruct (O1 r1 R1) as [N1 _].
      destruct (wf_okc k2 c Hc) as [_ O2]. destruct (O2 r2 R2) as [N2 _].
      destruct (ser_entry_facts c n1 a1 k1 e1 r1 E1 N1) as [_ [_ [tg1 [T1 L1]]]].
      destruct (ser_entry_facts c n2 a2 k2 e2 r2 E2 N2) as [_ [_ [tg2 [T2 L2]]]].
      rewrite T1 in T2. inversion T2; subst tg2.
      destruct (IH _ _ _ _ _ _ _ _ Et1 Et2 Hwf') as [IHl IHn].
      split.
      + rewrite !blen_app, !blen_be, L1, L2, IHl. reflexivity.
      + rewrite !app_length, be_length. simpl. lia.
  Qed.

  Theorem from_binary_to_binary cs off k b check :
    Forall wf_comp cs -> to_binary enc mac cs off k = Ok b ->
    from_binary dec mac (mkR b off) check k = Ok (map view cs).
  Proof.
    intros Hwf H. unfold to_binary in H.
    bind_inv H as d0 Ed0. bind_inv H as d Ed. bind_inv H as pb Epb. inversion H; subst b. clear H.
    unfold dir_to_binary in Ed0, Ed.
    bind_inv Ed0 as db0 Edb0. bind_inv Ed0 as sz0 Esz0. inversion Ed0; subst d0. clear Ed0.
    bind_inv Ed as db Edb. bind_inv Ed as sz Esz. inversion Ed; subst d. clear Ed.
    apply to_bytes_be in Esz0 as [-> _]. apply to_bytes_be in Esz as [-> Hsz].
    destruct (ser_dir_blen cs _ _ _ _ _ _ _ _ Edb0 Edb Hwf) as [Hl _].
    destruct (ser_dir_blen cs _ _ _ _ _ _ _ _ Edb Edb Hwf) as [_ Hn].
    unfold from_binary, dir_from_binary.
    rewrite <- app_assoc.
    rewrite (rd_read_int_be 4 (blen (db ++ [x00]))) by exact Hsz. cbn [bind].
    rewrite rd_read_app. cbn [bind].
    assert (Hok : Forall (okc k) cs).
    { apply Forall_forall. intros c Hc. apply wf_okc. rewrite Forall_forall in Hwf. apply Hwf, Hc. }
    destruct (parse_dir_ser cs 0 (off + blen (be 4 (blen (db0 ++ [x00])) ++ db0 ++ [x00])) db
                (S (length (db ++ [x00]))) [] [] 0 check k Edb Hok) as [es [Ees Epd]].
    { rewrite app_length. simpl. lia. }
    unfold parse_dir' in Epd. unfold new_reader. cbn [app] in Epd.
    change (1 + 0) with 1 in Epd.
    destruct (rd_read_int 1 {| rest := db ++ [x00]; pos := 0 |}) as [[len dr]|] eqn:Er;
      cbn [bind] in Epd |- *; [|discriminate].
    rewrite Epd. cbn [bind rev app]. unfold rd_ensure_eof, rd_eof. cbn [rest bind].
    assert (Hadr : off + blen (be 4 (blen (db0 ++ [x00])) ++ db0 ++ [x00]) =
                   off + N.of_nat 4 + blen (db ++ [x00])).
    { rewrite !blen_app, blen_be, Hl. lia. }
    rewrite Hadr in Ees.
    rewrite <- (app_nil_r pb).
    rewrite (read_comps_ser cs _ es pb [] check k Ees Epb Hwf). cbn [bind rest]. reflexivity.
  Qed.
End WithCipher.
