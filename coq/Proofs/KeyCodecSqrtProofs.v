(* C19 - compressed points with the modular square root of Model/NumTheory.v in place of the oracle.

   Model/KeyCodec.v takes the square root as a parameter `sqrt_mod`; here it is instantiated with
   sqrt_mod_model (= square_root_mod_prime of the model of numbertheory.py).  For a prime field with
   p = 3 (mod 4) (16 of the 17 shipped curves) the compressed encoding of every valid point decodes
   to the same point; what is left of the oracle is that jacobi does not answer -1 on
   alpha = x^3 + a x + b, which is a quadratic residue because the point is on the curve. *)
From Coq Require Import List Bool NArith ZArith Lia Znumtheory Ring Setoid Morphisms.
From Coq Require Import Init.Byte.
From Bec2 Require Import Base.Result Base.Bytes Base.Modp Gen.KeyOids Model.Der Model.KeyCodec Model.NumTheory
  Proofs.EcFieldZp Proofs.NumTheoryProofs Proofs.KeyCodecProofs.
Import ListNotations.

(* x^3 + a x + b reduced the way _from_compressed does it *)
Definition alpha_of (c : curve) (x : N) : Z :=
  Zmodp (Zmodp (Z.of_N x * Z.of_N x * Z.of_N x) (c_p c) + c_a c * Z.of_N x + c_b c) (c_p c).

Section Roots.
  Variable P : Z.
  Hypothesis HP : prime P.
  Add Ring eqm_ring_kc : (eqm_rt P)
    (setoid (eqm_equiv P) (eqm_ext P), morphism (eqm_morph P), constants [Zcst]).
  Open Scope Z_scope.

  (* the two square roots of y^2 in [0, P) *)
  Lemma two_roots r y : 0 <= r < P -> 0 <= y < P -> eqm P (r * r) (y * y) ->
    r = y \/ (r = P - y /\ y <> 0).
  Proof.
    intros Hr Hy H.
    assert (E : eqm P ((r - y) * (r + y)) 0).
    { transitivity (r * r - y * y); [ring | rewrite H; ring]. }
    destruct (eqm_integral _ _ _ HP E) as [E1|E1].
    - left. apply (eqm_small_eq P); [lia | lia |].
      transitivity ((r - y) + y); [ring | rewrite E1; ring].
    - destruct (Z.eq_dec y 0) as [->|Hy0].
      + left. apply (eqm_small_eq P); [lia | lia |].
        transitivity (r + 0); [ring | exact E1].
      + right. split; [|exact Hy0]. apply (eqm_small_eq P); [lia | lia |].
        transitivity ((r + y) - y); [ring|]. rewrite E1.
        apply eqm_def. replace (P - y) with (0 - y + 1 * P) by lia. now rewrite Z.mod_add by lia.
  Qed.
End Roots.

Section Compressed.
  Variable order_ok : curve -> N -> N -> bool.
  Variable ed_vk : bool -> bytes -> result vkey.
  Open Scope Z_scope.

  Lemma on_curve_alpha c x y : (0 < c_p c)%N -> contains_point c x y = true ->
    eqm (Z.of_N (c_p c)) (Z.of_N y * Z.of_N y) (alpha_of c x).
  Proof.
    intros Hp H. unfold contains_point in H. apply Z.eqb_eq in H. unfold alpha_of, Zmodp in *.
    set (P := Z.of_N (c_p c)) in *.
    assert (E : eqm P (Z.of_N y * Z.of_N y - ((Z.of_N x * Z.of_N x + c_a c) * Z.of_N x + c_b c)) 0)
      by (apply eqm_0_iff; exact H).
    apply eqm_sub_0 in E. rewrite E, !mod_eqm. apply eqm_eq. ring.
  Qed.

  Theorem vk_string_roundtrip_compressed_3mod4 c x y s validate ve :
    prime (Z.of_N (c_p c)) -> (c_p c mod 4 = 3)%N ->
    point_valid order_ok c x y -> enc_allowed Compressed ve = true ->
    (2 <= orderlen (c_p c))%N ->
    jacobi (alpha_of c x) (Z.of_N (c_p c)) <> Ok (-1) ->
    vk_to_string c x y Compressed = Ok s ->
    vk_from_string sqrt_mod_model order_ok ed_vk (CW c) s validate ve = Ok (VkW c x y).
  Proof.
    intros HP H4 PV Hve Hl Hj Hs.
    pose proof PV as [Hx [Hy [Hon _]]].
    set (P := Z.of_N (c_p c)) in *.
    pose proof (prime_ge_2 P HP) as HP2.
    assert (HpN : (0 < c_p c)%N) by lia.
    assert (H4z : P mod 4 = 3).
    { unfold P. change 4 with (Z.of_N 4). rewrite <- N2Z.inj_mod, H4. reflexivity. }
    assert (Hal : 0 <= alpha_of c x < P) by (unfold alpha_of, Zmodp; apply Z.mod_pos_bound; lia).
    assert (Hqr : is_qr P (alpha_of c x)).
    { exists (Z.of_N y). apply on_curve_alpha; assumption. }
    destruct (sqrt_complete_3mod4 P (alpha_of c x) HP H4z Hal Hqr Hj) as [r [Er [Hr2 Hr]]].
    assert (Esq : sqrt_mod_model (alpha_of c x) (c_p c) = Some (Z.to_N r)).
    { unfold sqrt_mod_model. fold P. rewrite Er. reflexivity. }
    assert (Hyz : 0 <= Z.of_N y < P) by (unfold P; lia).
    assert (Hroots : r = Z.of_N y \/ (r = P - Z.of_N y /\ Z.of_N y <> 0)).
    { apply (two_roots P HP); [exact Hr | exact Hyz |].
      rewrite Hr2. symmetry. apply on_curve_alpha; assumption. }
    apply (vk_string_roundtrip_compressed sqrt_mod_model order_ok ed_vk c x y s validate ve (Z.to_N r));
      try assumption.
    - (* p odd *)
      apply N.odd_spec. exists (2 * (c_p c / 4) + 1)%N.
      pose proof (N.div_mod (c_p c) 4 ltac:(lia)) as Ed. rewrite H4 in Ed. lia.
    - destruct Hroots as [E|[E Hy0]]; [left|right].
      + rewrite E. apply N2Z.id.
      + split; [|lia]. unfold P in E. lia.
  Qed.
End Compressed.
