(* C13, text level: every BF2 text of the grammar of Model/Bf2Render.v (header comments,
   instruction lines in both parameter forms, data groups; CRLF or LF; with or without a
   terminator after the last line) parses to exactly the tokens it was rendered from, and
   the chain text -> tokens -> components is stated about the text.

   item_ok is the well-formedness predicate of the grammar; every clause of it is needed
   (see the *_refuted examples at the end: the round trip fails when the clause is dropped). *)
From Coq Require Import List Bool NArith ZArith Lia Permutation.
From Coq Require Import Init.Byte.
From Bec2 Require Import Base.Result Base.Bytes Base.Reader Gen.Consts Model.Bf2Str Model.Bf2Import
  Model.Bf2Render Proofs.Bf2UnpackProofs Proofs.Bf2FilterProofs Proofs.Bf2ImportProofs Proofs.Bf2TextProofs.
Import ListNotations.
Open Scope N_scope.

(* ---------------------------------------------------------------------------- *)
(* the grammar's side conditions                                                  *)

Definition eol_ok (e : str) : Prop := e = CRLF \/ e = LF.

(* does not start / end with a white-space character (str.strip would remove it) *)
Definition no_lead (s : str) : Prop := forall c t, s = c :: t -> is_space c = false.
Definition no_trail (s : str) : Prop := forall c t, s = t ++ [c] -> is_space c = false.

(* "##name: value": the line is split at ':' into exactly two fields, the name is taken as
   it stands, the value is stripped; "load" is reserved *)
Definition header_ok (n v : str) : Prop :=
  ~ In 58 n /\ ~ In 10 n /\ n <> s_load /\
  ~ In 58 v /\ ~ In 10 v /\ no_lead v /\ no_trail v.

(* "k=v" between commas: the piece is stripped as a whole, then split at every '=' *)
Definition param_ok (kv : str * str) : Prop :=
  ~ In 10 (fst kv) /\ ~ In 44 (fst kv) /\ ~ In 61 (fst kv) /\ no_lead (fst kv) /\
  ~ In 10 (snd kv) /\ ~ In 44 (snd kv) /\ ~ In 61 (snd kv) /\ no_trail (snd kv).

(* "#>NAME ...": the name is the first white-space delimited word; "load" is reserved *)
Definition instr_ok (n : str) (ps : list (str * str)) : Prop :=
  n <> [] /\ (forall c, In c n -> is_space c = false) /\ n <> s_load /\ Forall param_ok ps.

Definition item_ok (it : item) : Prop :=
  match it with
  | IHeader n v => header_ok n v
  | IInstr n ps => instr_ok n ps
  | IData ls => ls <> [] /\ Forall text_ok ls
  end.

(* ---------------------------------------------------------------------------- *)
(* item_okb decides item_ok                                                       *)

Lemma lacks_iff c s : lacks c s = true <-> ~ In c s.
Proof.
  unfold lacks. rewrite forallb_forall. split.
  - intros H Hin. specialize (H c Hin). rewrite N.eqb_refl in H. discriminate.
  - intros H x Hx. apply negb_true_iff. apply N.eqb_neq. intros ->. contradiction.
Qed.

Lemma spaceless_iff s : spaceless s = true <-> forall c, In c s -> is_space c = false.
Proof.
  unfold spaceless. rewrite forallb_forall. split; intros H c Hc.
  - apply negb_true_iff. exact (H c Hc).
  - apply negb_true_iff. exact (H c Hc).
Qed.

Lemma head_ok_iff s : head_ok s = true <-> no_lead s.
Proof.
  unfold no_lead. destruct s as [|c t]; cbn [head_ok].
  - split; [intros _ c t H; discriminate|reflexivity].
  - rewrite negb_true_iff. split.
    + intros H c' t' E. inversion E; subst. exact H.
    + intro H. exact (H c t eq_refl).
Qed.

Lemma last_ok_iff s : last_ok s = true <-> no_trail s.
Proof.
  unfold last_ok. rewrite head_ok_iff. unfold no_lead, no_trail. split.
  - intros H c t E. apply (H c (rev t)). rewrite E, rev_app_distr. reflexivity.
  - intros H c t E. apply (H c (rev t)). rewrite <- (rev_involutive s), E. reflexivity.
Qed.

Lemma nonempty_iff {A} (l : list A) : nonempty l = true <-> l <> [].
Proof. destruct l; cbn [nonempty]; split; intro H; try discriminate; try reflexivity. contradiction. Qed.

Lemma not_load_iff n : negb (str_eqb n s_load) = true <-> n <> s_load.
Proof.
  rewrite negb_true_iff. split.
  - intros H E. apply str_eqb_eq in E. rewrite E in H. discriminate.
  - intro H. destruct (str_eqb n s_load) eqn:E; [apply str_eqb_eq in E; contradiction|reflexivity].
Qed.

Lemma bytes_prefixb_iff p b : bytes_prefixb p b = true <-> exists extra, b = p ++ extra.
Proof.
  revert b. induction p as [|x p IH]; intro b; cbn [bytes_prefixb].
  - split; [intros _; exists b; reflexivity|reflexivity].
  - destruct b as [|y b].
    + split; [discriminate|intros [e E]; discriminate].
    + rewrite andb_true_iff, byte_eqb_eq, IH. split.
      * intros [-> [e ->]]. exists e. reflexivity.
      * intros [e E]. inversion E; subst. split; [reflexivity|exists e; reflexivity].
Qed.

Lemma line_okb_iff l : line_okb l = true <-> text_ok l.
Proof.
  unfold line_okb, text_ok, raw_of. rewrite !andb_true_iff, !N.ltb_lt, bytes_prefixb_iff. split.
  - intros [[[H1 H2] H3] [e E]]. exists e. rewrite E, <- !app_assoc. repeat split; assumption.
  - intros [e [E [H1 [H2 H3]]]]. repeat split; try assumption. exists e. rewrite E, <- !app_assoc. reflexivity.
Qed.

Lemma param_okb_iff kv : param_okb kv = true <-> param_ok kv.
Proof.
  unfold param_okb, param_ok. rewrite !andb_true_iff, !lacks_iff, head_ok_iff, last_ok_iff. tauto.
Qed.

Lemma forallb_Forall {A} (f : A -> bool) (P : A -> Prop) (l : list A) :
  (forall x, f x = true <-> P x) -> (forallb f l = true <-> Forall P l).
Proof.
  intro H. rewrite forallb_forall, Forall_forall. split; intros G x Hx; apply H, G, Hx.
Qed.

Theorem item_okb_iff it : item_okb it = true <-> item_ok it.
Proof.
  destruct it as [n v|n ps|ls]; cbn [item_okb item_ok].
  - unfold header_ok. rewrite !andb_true_iff, !lacks_iff, not_load_iff, head_ok_iff, last_ok_iff. tauto.
  - unfold instr_ok. rewrite !andb_true_iff, nonempty_iff, spaceless_iff, not_load_iff,
      (forallb_Forall _ _ ps param_okb_iff). tauto.
  - rewrite andb_true_iff, nonempty_iff, (forallb_Forall _ _ ls line_okb_iff). tauto.
Qed.

Lemma items_okb items : Forall item_ok items -> forallb item_okb items = true.
Proof. intro H. apply (forallb_Forall _ _ items item_okb_iff). exact H. Qed.

(* ---------------------------------------------------------------------------- *)
(* str.strip, str.split on the rendered pieces                                    *)

Lemma drop_while_all p s r : forallb p s = true -> drop_while p (s ++ r) = drop_while p r.
Proof.
  induction s as [|c t IH]; [reflexivity|]. cbn [forallb app drop_while].
  intro H. apply andb_true_iff in H as [H1 H2]. rewrite H1. exact (IH H2).
Qed.

Lemma forallb_rev {A} (p : A -> bool) l : forallb p l = true -> forallb p (rev l) = true.
Proof. rewrite !forallb_forall. intros H x Hx. apply H. apply in_rev. exact Hx. Qed.

Lemma lstrip_head_ok s : head_ok s = true -> lstrip s = s.
Proof.
  destruct s as [|c t]; [reflexivity|]. cbn [head_ok]. intro H. apply negb_true_iff in H.
  unfold lstrip. cbn [drop_while]. rewrite H. reflexivity.
Qed.

Lemma lstrip_blank t : blank t = true -> lstrip t = [].
Proof.
  intro H. unfold lstrip. rewrite <- (app_nil_r t). rewrite (drop_while_all _ _ [] H). reflexivity.
Qed.

Lemma rstrip_tail s t : last_ok s = true -> blank t = true -> rstrip (s ++ t) = s.
Proof.
  intros Hs Ht. unfold rstrip. rewrite rev_app_distr.
  rewrite (drop_while_all _ _ _ (forallb_rev _ _ Ht)).
  fold (lstrip (rev s)). rewrite (lstrip_head_ok _ Hs). apply rev_involutive.
Qed.

Lemma strip_tail s t : head_ok s = true -> last_ok s = true -> blank t = true -> strip (s ++ t) = s.
Proof.
  intros Hh Hl Ht. unfold strip. destruct s as [|c s'].
  - cbn [app]. rewrite (lstrip_blank _ Ht). reflexivity.
  - rewrite lstrip_head_ok by exact Hh. apply rstrip_tail; assumption.
Qed.

Lemma lacks_app c a b : lacks c (a ++ b) = lacks c a && lacks c b.
Proof. apply forallb_app. Qed.

Lemma blank_lacks c t : is_space c = false -> blank t = true -> lacks c t = true.
Proof.
  intros Hc Ht. unfold lacks, blank in *. rewrite forallb_forall in *. intros x Hx.
  apply negb_true_iff, N.eqb_neq. intros ->. rewrite (Ht c Hx) in Hc. discriminate.
Qed.

Lemma spaceless_lacks c n : is_space c = true -> spaceless n = true -> lacks c n = true.
Proof.
  intros Hc Hn. unfold lacks, spaceless in *. rewrite forallb_forall in *. intros x Hx.
  apply negb_true_iff, N.eqb_neq. intros ->. specialize (Hn c Hx). rewrite Hc in Hn. discriminate.
Qed.

Lemma split_on_acc_none c : forall s acc, lacks c s = true -> split_on_acc c s acc = [rev acc ++ s].
Proof.
  induction s as [|x t IH]; intros acc H.
  - cbn [split_on_acc]. rewrite app_nil_r. reflexivity.
  - cbn [lacks forallb] in H. apply andb_true_iff in H as [H1 H2]. apply negb_true_iff in H1.
    cbn [split_on_acc]. rewrite H1. rewrite (IH _ H2). cbn [rev]. rewrite <- app_assoc. reflexivity.
Qed.

Lemma split_on_acc_hit c rest : forall a acc, lacks c a = true ->
  split_on_acc c (a ++ c :: rest) acc = (rev acc ++ a) :: split_on_acc c rest [].
Proof.
  induction a as [|x t IH]; intros acc H.
  - cbn [app split_on_acc]. rewrite N.eqb_refl, app_nil_r. reflexivity.
  - cbn [lacks forallb] in H. apply andb_true_iff in H as [H1 H2]. apply negb_true_iff in H1.
    cbn [app split_on_acc]. rewrite H1. rewrite (IH _ H2). cbn [rev]. rewrite <- app_assoc. reflexivity.
Qed.

(* ---------------------------------------------------------------------------- *)
(* header comment line                                                           *)

Theorem parse_meta_rendered n v t :
  lacks 58 n = true -> str_eqb n s_load = false ->
  lacks 58 v = true -> head_ok v = true -> last_ok v = true -> blank t = true ->
  parse_meta_line (n ++ 58 :: 32 :: v ++ t) = Ok (Instr n (PStr v)).
Proof.
  intros Hn Hl Hv Hh Hla Ht. unfold parse_meta_line, split_on.
  rewrite (split_on_acc_hit 58 _ n [] Hn).
  rewrite split_on_acc_none.
  - cbn [rev app]. rewrite Hl.
    change (strip (32 :: v ++ t)) with (strip (v ++ t)).
    rewrite (strip_tail v t Hh Hla Ht). reflexivity.
  - change (32 :: v ++ t) with ([32] ++ v ++ t). rewrite !lacks_app, Hv.
    rewrite (blank_lacks 58 t eq_refl Ht). reflexivity.
Qed.

(* ---------------------------------------------------------------------------- *)
(* instruction line                                                              *)

Definition nsp (c : N) : bool := negb (is_space c).

Lemma span_word : forall n t, forallb nsp n = true ->
  match t with [] => True | c :: _ => nsp c = false end ->
  take_while nsp (n ++ t) = n /\ drop_while nsp (n ++ t) = t.
Proof.
  induction n as [|c n' IH]; intros t Hn Ht.
  - cbn [app]. destruct t as [|c t']; [split; reflexivity|]. cbn [take_while drop_while]. rewrite Ht. split; reflexivity.
  - cbn [forallb] in Hn. apply andb_true_iff in Hn as [H1 H2].
    cbn [app take_while drop_while]. rewrite H1. destruct (IH t H2 Ht) as [A B]. rewrite A, B. split; reflexivity.
Qed.

Lemma split_ws1_unfold s : s <> [] -> lstrip s = s ->
  split_ws1 s = match lstrip (drop_while nsp s) with
                | [] => [take_while nsp s]
                | r => [take_while nsp s; r]
                end.
Proof. intros Hne Hl. unfold split_ws1. rewrite Hl. destruct s; [contradiction|reflexivity]. Qed.

Lemma blank_head t : blank t = true -> match t with [] => True | c :: _ => nsp c = false end.
Proof.
  destruct t as [|c t']; [exact (fun _ => I)|]. cbn [blank forallb]. intro H. apply andb_true_iff in H as [H _].
  unfold nsp. rewrite H. reflexivity.
Qed.

Lemma word_head n t : n <> [] -> spaceless n = true -> (n ++ t) <> [] /\ lstrip (n ++ t) = n ++ t.
Proof.
  intros Hne Hn. destruct n as [|c n']; [contradiction|]. split; [discriminate|].
  apply lstrip_head_ok. cbn [spaceless forallb] in Hn. apply andb_true_iff in Hn as [H _]. exact H.
Qed.

Lemma split_ws1_one n t : n <> [] -> spaceless n = true -> blank t = true -> split_ws1 (n ++ t) = [n].
Proof.
  intros Hne Hn Ht. destruct (word_head n t Hne Hn) as [A B].
  rewrite (split_ws1_unfold _ A B).
  destruct (span_word n t Hn (blank_head t Ht)) as [T D]. rewrite T, D, (lstrip_blank _ Ht). reflexivity.
Qed.

Lemma split_ws1_two n P : n <> [] -> spaceless n = true -> P <> [] -> head_ok P = true ->
  split_ws1 (n ++ 32 :: P) = [n; P].
Proof.
  intros Hne Hn HP Hh. destruct (word_head n (32 :: P) Hne Hn) as [A B].
  rewrite (split_ws1_unfold _ A B).
  destruct (span_word n (32 :: P) Hn eq_refl) as [T D]. rewrite T, D.
  change (lstrip (32 :: P)) with (lstrip P). rewrite (lstrip_head_ok _ Hh).
  destruct P; [contradiction|reflexivity].
Qed.

(* one "k=v" piece, possibly followed by the line terminator *)
Definition piece (p : str) : result (str * str) :=
  match split_on 61 (strip p) with
  | [k; v] => Ok (k, v)
  | _ => Err EValue
  end.

Lemma param_body_head kv : head_ok (fst kv) = true -> head_ok (param_body kv) = true.
Proof. unfold param_body. destruct (fst kv); [reflexivity|exact (fun H => H)]. Qed.

Lemma param_body_last kv : last_ok (snd kv) = true -> last_ok (param_body kv) = true.
Proof.
  unfold param_body, last_ok. rewrite !rev_app_distr. cbn [rev app].
  destruct (rev (snd kv)); [reflexivity|exact (fun H => H)].
Qed.

Lemma piece_rendered kv t : param_okb kv = true -> blank t = true -> piece (param_body kv ++ t) = Ok kv.
Proof.
  unfold param_okb. rewrite !andb_true_iff.
  intros [[[[[[[K10 K44] K61] Kh] V10] V44] V61] Vl] Ht. unfold piece.
  rewrite (strip_tail _ t (param_body_head kv Kh) (param_body_last kv Vl) Ht).
  unfold param_body, split_on. change ([61] ++ snd kv) with (61 :: snd kv).
  rewrite (split_on_acc_hit 61 _ _ [] K61), (split_on_acc_none 61 _ [] V61).
  cbn [rev app]. destruct kv; reflexivity.
Qed.

Lemma param_body_lacks c kv : (c =? 61) = false -> lacks c (fst kv) = true -> lacks c (snd kv) = true ->
  lacks c (param_body kv) = true.
Proof.
  intros Hc Hk Hv. unfold param_body. rewrite !lacks_app, Hk, Hv. cbn [lacks forallb].
  rewrite N.eqb_sym, Hc. reflexivity.
Qed.

Lemma param_okb_parts kv : param_okb kv = true ->
  lacks 10 (param_body kv) = true /\ lacks 44 (param_body kv) = true /\ nonempty (param_body kv) = true.
Proof.
  unfold param_okb. rewrite !andb_true_iff.
  intros [[[[[[[K10 K44] K61] Kh] V10] V44] V61] Vl].
  split; [apply param_body_lacks; [reflexivity|assumption|assumption]|].
  split; [apply param_body_lacks; [reflexivity|assumption|assumption]|].
  unfold param_body. destruct (fst kv); reflexivity.
Qed.

Lemma nonempty_app {A} (a b : list A) : nonempty a = true -> nonempty (a ++ b) = true.
Proof. destruct a; [discriminate|reflexivity]. Qed.

Lemma join_cons2 sep a (ps : list (str * str)) kv :
  join sep (a :: map param_body (kv :: ps)) = a ++ sep ++ join sep (map param_body (kv :: ps)).
Proof. reflexivity. Qed.

Lemma pieces_rendered : forall ps kv t, forallb param_okb (kv :: ps) = true -> blank t = true ->
  mapM piece (filter (fun p => nonempty p) (split_on 44 (join [44] (map param_body (kv :: ps)) ++ t)))
  = Ok (kv :: ps).
Proof.
  induction ps as [|kv' ps IH]; intros kv t H Ht; cbn [forallb] in H; apply andb_true_iff in H as [Hkv Hps].
  - cbn [map join]. unfold split_on.
    destruct (param_okb_parts kv Hkv) as [_ [C N]].
    rewrite split_on_acc_none by (rewrite lacks_app, C; exact (blank_lacks 44 t eq_refl Ht)).
    cbn [rev app filter]. rewrite (nonempty_app _ t N). cbn [mapM].
    rewrite (piece_rendered kv t Hkv Ht). reflexivity.
  - change (map param_body (kv :: kv' :: ps)) with (param_body kv :: map param_body (kv' :: ps)).
    rewrite (join_cons2 [44] (param_body kv) ps kv'). unfold split_on.
    destruct (param_okb_parts kv Hkv) as [_ [C N]].
    rewrite <- !app_assoc. change ([44] ++ ?x) with (44 :: x).
    rewrite (split_on_acc_hit 44 _ _ [] C).
    cbn [rev app filter]. rewrite N. cbn [mapM].
    rewrite <- (app_nil_r (param_body kv)) at 1. rewrite (piece_rendered kv [] Hkv eq_refl). cbn [bind].
    fold (split_on 44 (join [44] (map param_body (kv' :: ps)) ++ t)).
    rewrite (IH kv' t Hps Ht). reflexivity.
Qed.

Lemma parse_params_piece ps : parse_params ps =
  let* kvs := mapM piece (filter (fun p => nonempty p) (split_on 44 ps)) in Ok (dupdate str_eqb [] kvs).
Proof. reflexivity. Qed.

Theorem parse_cmd_rendered0 n t :
  n <> [] -> spaceless n = true -> str_eqb n s_load = false -> blank t = true ->
  parse_cmd_line (n ++ t) = Ok (Instr n (PDict [])).
Proof.
  intros Hne Hn Hl Ht. unfold parse_cmd_line. rewrite (split_ws1_one n t Hne Hn Ht).
  change (parse_params []) with (@Ok (list (str * str)) []). cbn [bind]. rewrite Hl. reflexivity.
Qed.

Lemma join_params_head kv ps : head_ok (fst kv) = true ->
  join [44] (map param_body (kv :: ps)) <> [] /\ head_ok (join [44] (map param_body (kv :: ps))) = true.
Proof.
  intro H. pose proof (param_body_head kv H) as Hh.
  assert (N : param_body kv <> []) by (unfold param_body; destruct (fst kv); discriminate).
  cbn [map join]. destruct (map param_body ps) as [|b bs].
  - split; assumption.
  - destruct (param_body kv) as [|c r]; [contradiction|]. split; [discriminate|exact Hh].
Qed.

Theorem parse_cmd_rendered n kv ps t :
  n <> [] -> spaceless n = true -> str_eqb n s_load = false ->
  forallb param_okb (kv :: ps) = true -> blank t = true ->
  parse_cmd_line (n ++ 32 :: join [44] (map param_body (kv :: ps)) ++ t)
  = Ok (Instr n (PDict (dupdate str_eqb [] (kv :: ps)))).
Proof.
  intros Hne Hn Hl Hps Ht. unfold parse_cmd_line.
  assert (Hk : head_ok (fst kv) = true).
  { cbn [forallb] in Hps. apply andb_true_iff in Hps as [H _]. unfold param_okb in H.
    rewrite !andb_true_iff in H. tauto. }
  destruct (join_params_head kv ps Hk) as [JN JH].
  set (J := join [44] (map param_body (kv :: ps))) in *.
  assert (PN : J ++ t <> []) by (destruct J; [contradiction|discriminate]).
  assert (PH : head_ok (J ++ t) = true) by (destruct J; [contradiction|exact JH]).
  rewrite (split_ws1_two n (J ++ t) Hne Hn PN PH).
  rewrite parse_params_piece. unfold J. rewrite (pieces_rendered ps kv t Hps Ht).
  cbn [bind]. rewrite Hl. reflexivity.
Qed.

(* ---------------------------------------------------------------------------- *)
(* data lines with any blank terminator                                          *)

Lemma blank_filter_keep t : blank t = true -> filter keep t = [].
Proof.
  induction t as [|c t IH]; [reflexivity|]. cbn [blank forallb filter]. intro H.
  apply andb_true_iff in H as [H1 H2]. unfold keep at 1, hex2bin_skip. rewrite H1. cbn [orb negb]. exact (IH H2).
Qed.

Lemma hex2bin_tailed b t : blank t = true -> hex2bin ([58] ++ hex_upper b ++ t) = Ok b.
Proof.
  intro Ht. unfold hex2bin. fold keep.
  assert (C : filter keep ([58] ++ hex_upper b ++ t) = hex_upper b).
  { rewrite !filter_app, filter_keep_hex, (blank_filter_keep t Ht). cbn. apply app_nil_r. }
  change (fun c : N => negb (hex2bin_skip c)) with keep. rewrite C.
  replace (N.odd (blen (hex_upper b))) with false; [apply unhexlify_hex|].
  unfold blen. rewrite hex_upper_length. rewrite Nat2N.inj_mul. symmetry.
  change (N.of_nat 2) with 2. rewrite N.odd_mul. reflexivity.
Qed.

Theorem parse_data_tailed ndx ty tag extra t :
  ndx < 65536 -> ty < 256 -> blen tag < 256 -> blank t = true ->
  let raw := be 2 ndx ++ [n2b ty] ++ [n2b (blen tag)] ++ tag ++ extra in
  parse_data_line ([58] ++ hex_upper raw ++ t) = Ok (mkLine ty ndx tag raw).
Proof.
  intros Hn Hty Hl Ht raw. unfold parse_data_line.
  rewrite (hex2bin_tailed raw t Ht). cbn [bind]. unfold new_reader, raw.
  change 2 with (N.of_nat 2) at 1.
  rewrite rd_read_int_be by (change (256 ^ N.of_nat 2) with 65536; exact Hn). cbn [bind].
  change [n2b ty] with (be 1 ty). change 1 with (N.of_nat 1) at 1.
  rewrite rd_read_int_be by (change (256 ^ N.of_nat 1) with 256; exact Hty). cbn [bind].
  change [n2b (blen tag)] with (be 1 (blen tag)). change 1 with (N.of_nat 1) at 1.
  rewrite rd_read_int_be by (change (256 ^ N.of_nat 1) with 256; exact Hl). cbn [bind].
  rewrite rd_read_app. cbn [bind]. reflexivity.
Qed.

Lemma parse_line_tailed l t : text_ok l -> blank t = true ->
  parse_data_line (data_body (l_raw l) ++ t) = Ok l.
Proof.
  intros (extra & Hr & Hn & Hty & Hl) Ht. unfold data_body. rewrite Hr. unfold raw_of.
  change ((58 :: hex_upper ?r) ++ t) with ([58] ++ hex_upper r ++ t).
  rewrite parse_data_tailed; [|exact Hn|lia|exact Hl|exact Ht].
  fold (raw_of (l_ndx l) (l_type l) (l_tag l) extra). rewrite <- Hr. destruct l; reflexivity.
Qed.

Lemma parse_marker_tailed (ty : N) t : ty < 256 -> blank t = true ->
  parse_data_line (data_body (marker_raw (n2b ty)) ++ t) = Ok (mkLine ty 0 [] (marker_raw (n2b ty))).
Proof.
  intros Hty Ht. unfold data_body.
  change ((58 :: hex_upper ?r) ++ t) with ([58] ++ hex_upper r ++ t).
  exact (parse_data_tailed 0 ty [] [] t eq_refl Hty eq_refl Ht).
Qed.

(* ---------------------------------------------------------------------------- *)
(* parse_bf2_file over the lines of a file                                        *)

(* a line as the file iterator delivers it: the body and a blank terminator *)
Definition tailed (b l : str) : Prop := exists t, blank t = true /\ l = b ++ t.

Lemma parse_lines_meta rest L acc :
  parse_lines ((35 :: 35 :: rest) :: L) acc =
  let* tk := parse_meta_line rest in let* r := parse_lines L acc in Ok (tk :: r).
Proof. reflexivity. Qed.

Lemma parse_lines_cmd rest L acc :
  parse_lines ((35 :: 62 :: rest) :: L) acc =
  let* tk := parse_cmd_line rest in let* r := parse_lines L acc in Ok (tk :: r).
Proof. reflexivity. Qed.

Lemma parse_lines_colon rest L acc :
  parse_lines ((58 :: rest) :: L) acc =
  let* l := parse_data_line (58 :: rest) in
  if l_type l =? 255 then
    match acc with
    | [] => parse_lines L []
    | _ => let* r := parse_lines L [] in Ok (Load (rev acc) :: r)
    end
  else if l_type l =? 254 then parse_lines L acc
  else parse_lines L (l :: acc).
Proof. reflexivity. Qed.

Lemma parse_lines_datalines : forall ls Ls acc rest, Forall text_ok ls ->
  Forall2 tailed (map (fun l => data_body (l_raw l)) ls) Ls ->
  parse_lines (Ls ++ rest) acc = parse_lines rest (rev ls ++ acc).
Proof.
  induction ls as [|l ls IH]; intros Ls acc rest Hok H2; cbn [map] in H2.
  - inversion H2; subst. reflexivity.
  - inversion H2 as [|b L bs Ls' [t [Ht HL]] H2']; subst.
    inversion Hok as [|? ? Hl Hls]; subst.
    unfold data_body at 1. cbn [app]. rewrite parse_lines_colon.
    change (58 :: hex_upper (l_raw l) ++ t) with (data_body (l_raw l) ++ t).
    rewrite (parse_line_tailed l t Hl Ht). cbn [bind].
    destruct Hl as (_ & _ & _ & Hty & _).
    replace (l_type l =? 255) with false by (symmetry; apply N.eqb_neq; lia).
    replace (l_type l =? 254) with false by (symmetry; apply N.eqb_neq; lia).
    rewrite (IH Ls' (l :: acc) rest Hls H2'). cbn [rev]. rewrite <- app_assoc. reflexivity.
Qed.

Lemma Forall2_single {A B} (R : A -> B -> Prop) a l : Forall2 R [a] l -> exists b, l = [b] /\ R a b.
Proof. intro H. inversion H as [|? b ? l' Hr Hn]; subst. inversion Hn; subst. exists b. split; [reflexivity|exact Hr]. Qed.

Theorem parse_item it Ls rest : item_okb it = true -> Forall2 tailed (item_bodies it) Ls ->
  parse_lines (Ls ++ rest) [] = let* r := parse_lines rest [] in Ok (token_of it :: r).
Proof.
  destruct it as [n v|n ps|ls]; cbn [item_okb item_bodies token_of].
  - rewrite !andb_true_iff. intros [[[[[[N58 N10] NL] V58] V10] Vh] Vl] H2.
    apply negb_true_iff in NL.
    apply Forall2_single in H2 as [L [-> [t [Ht ->]]]].
    rewrite <- !app_assoc. cbn [app]. rewrite parse_lines_meta.
    rewrite (parse_meta_rendered n v t N58 NL V58 Vh Vl Ht). reflexivity.
  - rewrite !andb_true_iff. intros [[[NE NS] NL] PS] H2.
    apply negb_true_iff in NL. apply nonempty_iff in NE.
    destruct ps as [|kv ps].
    + apply Forall2_single in H2 as [L [-> [t [Ht ->]]]].
      rewrite <- !app_assoc. cbn [app]. rewrite parse_lines_cmd.
      rewrite (parse_cmd_rendered0 n t NE NS NL Ht). reflexivity.
    + apply Forall2_single in H2 as [L [-> [t [Ht ->]]]].
      rewrite <- !app_assoc. cbn [app]. rewrite parse_lines_cmd.
      rewrite (parse_cmd_rendered n kv ps t NE NS NL PS Ht). reflexivity.
  - rewrite andb_true_iff. intros [NE OK] H2.
    apply nonempty_iff in NE. apply (forallb_Forall _ _ ls line_okb_iff) in OK.
    inversion H2 as [|b L0 bs Ls1 [t0 [Ht0 HL0]] H2a]; subst.
    apply Forall2_app_inv_l in H2a as (La & Lb & H2d & H2e & ->).
    apply Forall2_single in H2e as [Lf [-> [tf [Htf ->]]]].
    (* start marker *)
    unfold data_body at 1. cbn [app]. rewrite parse_lines_colon.
    change (58 :: hex_upper (marker_raw xfe) ++ t0) with (data_body (marker_raw (n2b 254)) ++ t0).
    rewrite (parse_marker_tailed 254 t0 eq_refl Ht0). cbn [bind l_type].
    change (254 =? 255) with false. change (254 =? 254) with true. cbv iota.
    (* data lines *)
    rewrite <- app_assoc. rewrite (parse_lines_datalines ls La [] _ OK H2d). rewrite app_nil_r.
    (* end marker *)
    unfold data_body at 1. cbn [app]. rewrite parse_lines_colon.
    change (58 :: hex_upper (marker_raw xff) ++ tf) with (data_body (marker_raw (n2b 255)) ++ tf).
    rewrite (parse_marker_tailed 255 tf eq_refl Htf). cbn [bind l_type].
    change (255 =? 255) with true. cbv iota.
    destruct (rev ls) as [|x r] eqn:R.
    + exfalso. apply NE. rewrite <- (rev_involutive ls), R. reflexivity.
    + rewrite <- R, rev_involutive. reflexivity.
Qed.

Theorem parse_items : forall items Ls, forallb item_okb items = true ->
  Forall2 tailed (file_bodies items) Ls -> parse_lines Ls [] = Ok (tokens_of items).
Proof.
  induction items as [|it items IH]; intros Ls Hok H2.
  - inversion H2; subst. reflexivity.
  - cbn [forallb] in Hok. apply andb_true_iff in Hok as [Hit Hok].
    unfold file_bodies in H2. cbn [flat_map] in H2.
    apply Forall2_app_inv_l in H2 as (L1 & L2 & Ha & Hb & ->).
    rewrite (parse_item it L1 L2 Hit Ha). rewrite (IH L2 Hok Hb). reflexivity.
Qed.

(* ---------------------------------------------------------------------------- *)
(* from the text to its lines                                                     *)

(* the lines with their terminators: e after every line but the last, e' after the last *)
Fixpoint with_tails (e e' : str) (bs : list str) : list str :=
  match bs with
  | [] => []
  | b :: t => match t with [] => [b ++ e'] | _ => (b ++ e) :: with_tails e e' t end
  end.

Lemma render_with_tails e bs : flat_map (fun b => b ++ e) bs = concat (with_tails e e bs).
Proof.
  induction bs as [|b t IH]; [reflexivity|]. cbn [flat_map with_tails]. rewrite IH.
  destruct t; reflexivity.
Qed.

Lemma join_with_tails e bs : join e bs = concat (with_tails e [] bs).
Proof.
  induction bs as [|b t IH]; [reflexivity|]. cbn [join with_tails]. destruct t as [|b' t'].
  - cbn [concat]. rewrite !app_nil_r. reflexivity.
  - rewrite IH. cbn [concat]. rewrite <- app_assoc. reflexivity.
Qed.

Lemma with_tails_tailed e e' bs : blank e = true -> blank e' = true -> Forall2 tailed bs (with_tails e e' bs).
Proof.
  intros He He'. induction bs as [|b t IH]; [constructor|]. cbn [with_tails]. destruct t as [|b' t'].
  - constructor; [exists e'; split; [exact He'|reflexivity]|constructor].
  - constructor; [exists e; split; [exact He|reflexivity]|exact IH].
Qed.

Definition nl_free (b : str) : bool := forallb (fun c => negb (c =? 10)) b.

Lemma lines_of_eol b e rest : nl_free b = true -> eol_ok e ->
  lines_of ((b ++ e) ++ rest) [] = (b ++ e) :: lines_of rest [].
Proof.
  intros Hb [-> | ->]; unfold CRLF, LF.
  - replace ((b ++ [13; 10]) ++ rest) with ((b ++ [13]) ++ 10 :: rest) by (rewrite <- !app_assoc; reflexivity).
    rewrite lines_of_body.
    + cbn [rev app]. rewrite <- app_assoc. reflexivity.
    + rewrite forallb_app. fold (nl_free b). rewrite Hb. reflexivity.
  - replace ((b ++ [10]) ++ rest) with (b ++ 10 :: rest) by (rewrite <- app_assoc; reflexivity).
    rewrite lines_of_body by exact Hb. reflexivity.
Qed.

Lemma lines_of_open : forall b acc, nl_free b = true -> (acc <> [] \/ b <> []) ->
  lines_of b acc = [rev acc ++ b].
Proof.
  induction b as [|c t IH]; intros acc Hb Hne.
  - cbn [lines_of]. destruct acc; [destruct Hne; contradiction|]. rewrite app_nil_r. reflexivity.
  - cbn [nl_free forallb] in Hb. apply andb_true_iff in Hb as [H1 H2]. apply negb_true_iff in H1.
    cbn [lines_of]. rewrite H1. rewrite (IH (c :: acc) H2) by (left; discriminate).
    cbn [rev]. rewrite <- app_assoc. reflexivity.
Qed.

Definition final_ok (e : str) : Prop := eol_ok e \/ e = [].

Lemma lines_of_with_tails e e' : eol_ok e -> final_ok e' -> forall bs,
  Forall (fun b => nl_free b = true /\ b <> []) bs ->
  lines_of (concat (with_tails e e' bs)) [] = with_tails e e' bs.
Proof.
  intros He He'. induction bs as [|b t IH]; intro H; [reflexivity|].
  inversion H as [|? ? [Hb Hne] Ht]; subst. cbn [with_tails]. destruct t as [|b' t'].
  - cbn [concat]. destruct He' as [He'| ->].
    + rewrite (lines_of_eol b e' [] Hb He'). reflexivity.
    + rewrite !app_nil_r. rewrite (lines_of_open b [] Hb (or_intror Hne)). reflexivity.
  - cbn [concat]. rewrite (lines_of_eol b e _ Hb He). rewrite (IH Ht). reflexivity.
Qed.

Lemma nl_free_lacks b : nl_free b = lacks 10 b.
Proof. reflexivity. Qed.

Lemma join_params_nl : forall ps, forallb param_okb ps = true -> lacks 10 (join [44] (map param_body ps)) = true.
Proof.
  induction ps as [|kv ps IH]; [reflexivity|]. cbn [forallb]. intro H. apply andb_true_iff in H as [Hkv Hps].
  destruct (param_okb_parts kv Hkv) as [A _]. cbn [map join]. specialize (IH Hps).
  destruct (map param_body ps) as [|b bs]; [exact A|].
  rewrite !lacks_app, A, IH. reflexivity.
Qed.

Lemma data_body_nl raw : nl_free (data_body raw) = true.
Proof.
  unfold data_body, nl_free. cbn [forallb]. change (negb (58 =? 10)) with true. cbn [andb].
  pose proof (hex_upper_keep raw) as K. rewrite forallb_forall in *. intros x Hx.
  rewrite (keep_not_nl x (K x Hx)). reflexivity.
Qed.

Lemma item_bodies_lines it : item_okb it = true ->
  Forall (fun b => nl_free b = true /\ b <> []) (item_bodies it).
Proof.
  destruct it as [n v|n ps|ls]; cbn [item_okb item_bodies].
  - rewrite !andb_true_iff. intros [[[[[[N58 N10] NL] V58] V10] Vh] Vl].
    constructor; [|constructor]. split; [|discriminate].
    rewrite nl_free_lacks, !lacks_app, N10, V10. reflexivity.
  - rewrite !andb_true_iff. intros [[[NE NS] NL] PS].
    pose proof (spaceless_lacks 10 n eq_refl NS) as N10.
    destruct ps as [|kv ps]; (constructor; [|constructor]); (split; [|discriminate]).
    + rewrite nl_free_lacks, !lacks_app, N10. reflexivity.
    + rewrite nl_free_lacks, !lacks_app, N10, (join_params_nl _ PS). reflexivity.
  - intros _. constructor; [split; [apply data_body_nl|discriminate]|].
    apply Forall_app. split.
    + apply Forall_forall. intros b Hb. apply in_map_iff in Hb as [l [<- _]].
      split; [apply data_body_nl|discriminate].
    + constructor; [split; [apply data_body_nl|discriminate]|constructor].
Qed.

Lemma file_bodies_lines : forall items, forallb item_okb items = true ->
  Forall (fun b => nl_free b = true /\ b <> []) (file_bodies items).
Proof.
  induction items as [|it items IH]; [constructor|]. cbn [forallb]. intro H.
  apply andb_true_iff in H as [Hit Hok]. unfold file_bodies. cbn [flat_map].
  apply Forall_app. split; [exact (item_bodies_lines it Hit)|exact (IH Hok)].
Qed.

Lemma eol_blank e : final_ok e -> blank e = true.
Proof. intros [[-> | ->] | ->]; reflexivity. Qed.

Theorem parse_rendered_gen e e' items : eol_ok e -> final_ok e' -> forallb item_okb items = true ->
  parse_text (concat (with_tails e e' (file_bodies items))) = Ok (tokens_of items).
Proof.
  intros He He' Hok. unfold parse_text.
  rewrite (lines_of_with_tails e e' He He' _ (file_bodies_lines items Hok)).
  apply (parse_items items _ Hok).
  apply with_tails_tailed; apply eol_blank; [left; exact He|exact He'].
Qed.

(* whole file, every line terminated *)
Theorem text_file eol items : eol_ok eol -> Forall item_ok items ->
  parse_text (render_file eol items) = Ok (tokens_of items).
Proof.
  intros He Hok. unfold render_file. rewrite render_with_tails.
  exact (parse_rendered_gen eol eol items He (or_introl He) (items_okb items Hok)).
Qed.

(* whole file, no terminator after the last line *)
Theorem text_file_nonl eol items : eol_ok eol -> Forall item_ok items ->
  parse_text (render_file_nonl eol items) = Ok (tokens_of items).
Proof.
  intros He Hok. unfold render_file_nonl. rewrite join_with_tails.
  exact (parse_rendered_gen eol [] items He (or_intror eq_refl) (items_okb items Hok)).
Qed.

(* single lines as whole texts (the grammar's one-line files) *)
Corollary text_header_comment eol n v : eol_ok eol -> header_ok n v ->
  parse_text ([35; 35] ++ n ++ [58; 32] ++ v ++ eol) = Ok [Instr n (PStr v)].
Proof.
  intros He H. pose proof (text_file eol [IHeader n v] He (Forall_cons (P := item_ok) (IHeader n v) H (Forall_nil _))) as T.
  unfold render_file, file_bodies in T. cbn [flat_map item_bodies app] in T.
  rewrite app_nil_r in T. repeat rewrite <- app_assoc in T. exact T.
Qed.

Corollary text_instruction_noparam eol n : eol_ok eol -> instr_ok n [] ->
  parse_text ([35; 62] ++ n ++ eol) = Ok [Instr n (PDict [])].
Proof.
  intros He H. pose proof (text_file eol [IInstr n []] He (Forall_cons (P := item_ok) (IInstr n []) H (Forall_nil _))) as T.
  unfold render_file, file_bodies in T. cbn [flat_map item_bodies app] in T.
  rewrite app_nil_r in T. repeat rewrite <- app_assoc in T. exact T.
Qed.

Corollary text_instruction_params eol n kv ps : eol_ok eol -> instr_ok n (kv :: ps) ->
  parse_text ([35; 62] ++ n ++ [32] ++ join [44] (map param_body (kv :: ps)) ++ eol)
  = Ok [Instr n (PDict (dupdate str_eqb [] (kv :: ps)))].
Proof.
  intros He H. pose proof (text_file eol [IInstr n (kv :: ps)] He (Forall_cons (P := item_ok) (IInstr n (kv :: ps)) H (Forall_nil _))) as T.
  unfold render_file, file_bodies in T. cbn [flat_map item_bodies] in T.
  rewrite app_nil_r in T. cbn [flat_map] in T. rewrite app_nil_r in T. repeat rewrite <- app_assoc in T. exact T.
Qed.

(* when no key is repeated the dictionary is the parameter list as written *)
Lemma dupdate_nodup_aux : forall (ps acc : list (str * str)),
  NoDup (map fst (acc ++ ps)) -> dupdate str_eqb acc ps = acc ++ ps.
Proof.
  induction ps as [|[k v] ps IH]; intros acc H.
  - rewrite app_nil_r. reflexivity.
  - unfold dupdate in *. cbn [fold_left fst snd].
    assert (D : dset str_eqb k v acc = acc ++ [(k, v)]).
    { assert (Hk : ~ In k (map fst acc)).
      { rewrite map_app in H. cbn [map fst] in H. apply NoDup_remove_2 in H.
        intro X. apply H. apply in_or_app. left. exact X. }
      clear -Hk. induction acc as [|[k' v'] acc IH]; [reflexivity|]. cbn [dset].
      destruct (str_eqb k k') eqn:E.
      - apply str_eqb_eq in E. subst. exfalso. apply Hk. left. reflexivity.
      - cbn [app]. rewrite IH; [reflexivity|]. intro X. apply Hk. right. exact X. }
    rewrite D. rewrite IH by (rewrite <- app_assoc; exact H). rewrite <- app_assoc. reflexivity.
Qed.

Lemma dupdate_nodup (ps : list (str * str)) : NoDup (map fst ps) -> dupdate str_eqb [] ps = ps.
Proof. intro H. exact (dupdate_nodup_aux ps [] H). Qed.

(* ---------------------------------------------------------------------------- *)
(* text -> tokens -> components                                                   *)

Theorem import_text_tokens eol items enforce : eol_ok eol -> Forall item_ok items ->
  bf2_import_text (render_file eol items) enforce = bf2_import (tokens_of items) enforce.
Proof. intros He Hok. unfold bf2_import_text. rewrite (text_file eol items He Hok). reflexivity. Qed.

Lemma all_lines_tokens items : all_lines (tokens_of items) = data_lines items.
Proof.
  induction items as [|it items IH]; [reflexivity|].
  unfold all_lines, data_lines in *. cbn [tokens_of map flat_map]. fold (tokens_of items). rewrite IH.
  destruct it; reflexivity.
Qed.

(* every instruction in force when a section is closed is an instruction line or a header
   comment of the text, with the parameters written there *)
Definition instrs_from (toks : list token) (i : idict) : Prop :=
  forall k p, In (k, p) i -> In (Instr k p) toks.

Lemma In_dset {V} k (v : V) d x : In x (dset str_eqb k v d) -> x = (k, v) \/ In x d.
Proof.
  induction d as [|[k' v'] d IH]; cbn [dset].
  - intros [<- | []]. left. reflexivity.
  - destruct (str_eqb k k').
    + intros [<- | H]; [left; reflexivity|right; right; exact H].
    + intros [<- | H]; [right; left; reflexivity|]. destruct (IH H) as [E | E]; [left; exact E|right; right; exact E].
Qed.

Lemma In_ddel {V} k (d : list (str * V)) x : In x (ddel str_eqb k d) -> In x d.
Proof.
  induction d as [|[k' v'] d IH]; cbn [ddel]; [exact (fun H => H)|].
  destruct (str_eqb k k'); [intro H; right; exact H|].
  intros [<- | H]; [left; reflexivity|right; exact (IH H)].
Qed.

Lemma dget_str_In {V} k (v : V) d : dget str_eqb k d = Some v -> In (k, v) d.
Proof.
  induction d as [|[k' v'] d IH]; cbn [dget]; [discriminate|].
  destruct (str_eqb k k') eqn:E.
  - intro H; inversion H; subst. apply str_eqb_eq in E. subst. left. reflexivity.
  - intro H. right. exact (IH H).
Qed.

Lemma emit_result_instrs data i c i' c' oc : emit_result data i c i' c' oc ->
  forall x, In x i' -> In x i.
Proof.
  intros (l0 & rest & oty & hw & ofmt & intf & _ & _ & H) x Hx. destruct oty as [ty|].
  - destruct H as (fmt & od & _ & _ & _ & E & _).
    apply exec_normal_form in E as (? & ? & ? & ? & ? & ? & ? & ? & ? & ? & ? & _ & _ & _ & _ & _ & _ & _ & Ei & _).
    subst i'. apply In_ddel in Hx. apply In_ddel in Hx. apply In_ddel in Hx. exact Hx.
  - destruct H as [-> _]. exact Hx.
Qed.

Definition section_from (toks : list token) (e : option comp * list line) : Prop :=
  exists i c i' c', instrs_from toks i /\ emit_result (snd e) i c i' c' (fst e).

Definition inv (toks : list token) (s : st) : Prop :=
  instrs_from toks (s_instrs s) /\ Forall (section_from toks) (s_log s).

Lemma emit_keep_inv toks s s' : emit_keep s = Ok s' -> inv toks s -> inv toks s'.
Proof.
  unfold emit_keep. destruct (emit (s_data s) (s_instrs s) (s_comments s)) as [[[i c] oc]|e] eqn:E;
    cbn [bind]; [|discriminate].
  apply emit_spec in E. intros H [Hi Hl].
  assert (Hi' : instrs_from toks i).
  { intros k p Hk. apply Hi. exact (emit_result_instrs _ _ _ _ _ _ E _ Hk). }
  destruct oc as [cp|]; inversion H; subst; split; cbn [s_instrs s_log]; try assumption.
  apply Forall_app. split; [exact Hl|]. constructor; [|constructor].
  exists (s_instrs s), (s_comments s), i, c. split; [exact Hi|exact E].
Qed.

Lemma emit_drop_inv toks s s' : emit_drop s = Ok s' -> inv toks s -> inv toks s'.
Proof.
  unfold emit_drop. destruct (emit (s_data s) (s_instrs s) (s_comments s)) as [[[i c] oc]|e] eqn:E;
    cbn [bind]; [|discriminate].
  apply emit_spec in E. intros H [Hi Hl].
  assert (Hi' : instrs_from toks i).
  { intros k p Hk. apply Hi. exact (emit_result_instrs _ _ _ _ _ _ E _ Hk). }
  inversion H; subst; split; cbn [s_instrs s_log]; [exact Hi'|].
  apply Forall_app. split; [exact Hl|]. constructor; [|constructor].
  exists (s_instrs s), (s_comments s), i, c. split; [exact Hi|exact E].
Qed.

Lemma step_inv toks s t s' : In t toks -> step s t = Ok s' -> inv toks s -> inv toks s'.
Proof.
  intro Hin. destruct t as [ls|name p]; cbn [step].
  - destruct ls as [|l0 ls']; [discriminate|].
    destruct (is_known_tagtype (l_type l0)); cbn [negb]; [|discriminate].
    destruct (dmem N.eqb (l_type l0) BF2_TAGTYPE_MAP && nonempty (s_data s)).
    + destruct (emit_drop s) as [s1|e] eqn:E; cbn [bind]; [|discriminate].
      intros H Hv; inversion H; subst. destruct (emit_drop_inv toks _ _ E Hv) as [A B]. split; assumption.
    + intros H Hv; inversion H; subst. exact Hv.
  - destruct (str_eqb name s_load); [destruct p as [[|? ?]|?]; discriminate|].
    assert (G : forall s1, inv toks s1 ->
      inv toks (mkSt (s_data s1) (dset str_eqb name p (s_instrs s1)) (s_log s1) (s_comments s1))).
    { intros s1 [A B]. split; cbn [s_instrs s_log]; [|exact B].
      intros k q Hk. apply In_dset in Hk as [Hk | Hk]; [inversion Hk; subst; exact Hin|exact (A k q Hk)]. }
    destruct (str_eqb name s_CHECK_FWVER && dmem str_eqb s_CHECK_FWVER (s_instrs s)).
    + destruct (emit_keep s) as [s1|e] eqn:E; cbn [bind]; [|discriminate].
      intros H Hv. pose proof (G s1 (emit_keep_inv toks _ _ E Hv)) as Hv2.
      destruct (str_eqb name s_REBOOT); [exact (emit_keep_inv toks _ _ H Hv2)|inversion H; subst; exact Hv2].
    + cbn [bind]. intros H Hv. pose proof (G s Hv) as Hv2.
      destruct (str_eqb name s_REBOOT); [exact (emit_keep_inv toks _ _ H Hv2)|inversion H; subst; exact Hv2].
Qed.

Lemma foldM_inv toks : forall ts s s', incl ts toks -> foldM step ts s = Ok s' -> inv toks s -> inv toks s'.
Proof.
  induction ts as [|t ts IH]; intros s s' Hinc; cbn [foldM].
  - intros H Hv; inversion H; subst. exact Hv.
  - destruct (step s t) as [s1|e] eqn:E; cbn [bind]; [|discriminate].
    intros H Hv. apply (IH s1 s'); [intros x Hx; apply Hinc; right; exact Hx|exact H|].
    apply (step_inv toks s t s1); [apply Hinc; left; reflexivity|exact E|exact Hv].
Qed.

Theorem run_sections_from toks s : run toks = Ok s -> Forall (section_from toks) (s_log s).
Proof.
  unfold run. destruct (foldM step toks (mkSt [] [] [] [])) as [s0|e] eqn:E; cbn [bind]; [|discriminate].
  assert (V0 : inv toks (mkSt [] [] [] [])) by (split; [intros k p []|constructor]).
  pose proof (foldM_inv toks toks _ _ (incl_refl _) E V0) as V.
  destruct (nonempty (s_data s0)).
  - intro H. exact (proj2 (emit_drop_inv toks _ _ H V)).
  - intro H; inversion H; subst. exact (proj2 V).
Qed.

(* the description of a component: the table entry's tags with the tags the instructions in
   force state written over them (the clauses st_... are those of C13_tags) *)
Definition stated_tags (ty : N) (d0 : desc) (i : idict) (d : desc) : Prop :=
  exists vR vC vP vH vK vF cid cver vCr vI,
    st_reboot i vR /\ st_crc i vC /\ st_select i (Some [n2b ty]) vP vH /\
    st_check i vK /\ st_firmware i (Some [n2b ty]) vF cid cver /\
    st_creator i vCr /\ st_select_if i true vI /\
    d = oset BF3TAG_INTF vI (oset BF3TAG_FWVER vF (oset BF3TAG_FWVER vK
          (oset BF3TAG_HWCID vH (oset BF3TAG_PFID2 vP (oset BF3TAG_CRC vC
          (oset BF3TAG_REBOOT vR d0)))))).

(* what the import of a rendered text guarantees for one closed section *)
Definition text_section (items : list item) (e : option comp * list line) : Prop :=
  section_ok e /\
  match fst e with
  | None => True
  | Some cp =>
    let src := snd e in
    (exists i ty fmt hw intf,
       (forall k p, In (k, p) i -> In (Instr k p) (tokens_of items)) /\
       dget N.eqb (Bf2UnpackProofs.first_type src) BF2_TAGTYPE_MAP = Some (Some ty, hw, Some fmt, intf) /\
       stated_tags ty (initial_desc ty fmt hw intf) i (c_desc cp)) /\
    (dget N.eqb BF3TAG_FMT (c_desc cp) = Some [n2b BF3FMT_BLOB] ->
     Forall Bf2UnpackProofs.wf_line src -> Bf2UnpackProofs.ascending (Bf2UnpackProofs.first_type src) src ->
       Bf2UnpackProofs.contig (Bf2UnpackProofs.first_type src) 0 src /\
       c_blob cp = concat (map Bf2UnpackProofs.line_data src) /\
       forall a, Bf2UnpackProofs.image_of (Bf2UnpackProofs.first_type src) src a =
                 Bf2UnpackProofs.in_extent (0%Z, c_blob cp) a) /\
    (dget N.eqb BF3TAG_FMT (c_desc cp) = Some [n2b BF3FMT_BF2COMPATIBLE] ->
       c_blob cp = concat (map l_raw src))
  end.

Lemma initial_desc_type ty fmt hw intf :
  dget N.eqb BF3TAG_TYPE (initial_desc ty fmt hw intf) = Some [n2b ty].
Proof. destruct hw, intf; reflexivity. Qed.

Lemma section_from_text items e : section_from (tokens_of items) e -> text_section items e.
Proof.
  intros (i & c & i' & c' & Hi & E).
  assert (Hs : section_ok e) by (exists i, c, i', c'; exact E).
  split; [exact Hs|]. destruct e as [[cp|] src]; cbn [fst snd] in *; [|exact I].
  split; [|split].
  - destruct E as (l0 & rest & oty & hw & ofmt & intf & -> & M & H). destruct oty as [ty|].
    + destruct H as (fmt & od & -> & _ & _ & X & Y).
      apply exec_normal_form in X as (vR & vC & vP & vH & vK & vF & cid & cver & vCr & sup & vI &
        S1 & S2 & S3 & S4 & S5 & S6 & S7 & _ & _ & Eod).
      rewrite initial_desc_type in S3, S5.
      destruct sup.
      * subst od. destruct Y as (blob & _ & Ecp). inversion Ecp; subst cp. cbn [c_desc].
        exists i, ty, fmt, hw, intf. split; [exact Hi|]. split; [exact M|].
        exists vR, vC, vP, vH, vK, vF, cid, cver, vCr, vI. repeat split; assumption.
      * subst od. discriminate.
    + destruct H as (_ & _ & X). discriminate.
  - intros Hf Hwf Ha. exact (section_blob cp src Hs Hwf Ha Hf).
  - intro Hf. exact (section_compat cp src Hs Hf).
Qed.

Lemma text_section_unfold items e : text_section items e <->
  section_ok e /\
  match fst e with
  | None => True
  | Some cp =>
    let src := snd e in
    (exists i ty fmt hw intf,
       (forall k p, In (k, p) i -> In (Instr k p) (tokens_of items)) /\
       dget N.eqb (Bf2UnpackProofs.first_type src) BF2_TAGTYPE_MAP = Some (Some ty, hw, Some fmt, intf) /\
       exists vR vC vP vH vK vF cid cver vCr vI,
         st_reboot i vR /\ st_crc i vC /\ st_select i (Some [n2b ty]) vP vH /\
         st_check i vK /\ st_firmware i (Some [n2b ty]) vF cid cver /\
         st_creator i vCr /\ st_select_if i true vI /\
         c_desc cp = oset BF3TAG_INTF vI (oset BF3TAG_FWVER vF (oset BF3TAG_FWVER vK
                       (oset BF3TAG_HWCID vH (oset BF3TAG_PFID2 vP (oset BF3TAG_CRC vC
                       (oset BF3TAG_REBOOT vR (initial_desc ty fmt hw intf)))))))) /\
    (dget N.eqb BF3TAG_FMT (c_desc cp) = Some [n2b BF3FMT_BLOB] ->
     Forall Bf2UnpackProofs.wf_line src -> Bf2UnpackProofs.ascending (Bf2UnpackProofs.first_type src) src ->
       Bf2UnpackProofs.contig (Bf2UnpackProofs.first_type src) 0 src /\
       c_blob cp = concat (map Bf2UnpackProofs.line_data src) /\
       forall a, Bf2UnpackProofs.image_of (Bf2UnpackProofs.first_type src) src a =
                 Bf2UnpackProofs.in_extent (0%Z, c_blob cp) a) /\
    (dget N.eqb BF3TAG_FMT (c_desc cp) = Some [n2b BF3FMT_BF2COMPATIBLE] ->
       c_blob cp = concat (map l_raw src))
  end.
Proof. split; intro H; exact H. Qed.

Theorem text_import eol items enforce cm cs : eol_ok eol -> Forall item_ok items ->
  bf2_import_text (render_file eol items) enforce = Ok (cm, cs) ->
  exists lg,
    log_lines lg = data_lines items /\
    Forall (text_section items) lg /\
    Permutation cs (comps_of lg) /\
    Forall load_known (tokens_of items) /\
    (enforce = true -> dmem str_eqb s_Bf3Update cm = true).
Proof.
  intros He Hok H. rewrite (import_text_tokens eol items enforce He Hok) in H.
  destruct (import_sections _ _ _ _ H) as (s & R & L & _ & K & P & M).
  exists (s_log s). split; [rewrite L; apply all_lines_tokens|].
  split; [|split; [exact P|split; [exact K|exact M]]].
  pose proof (run_sections_from _ _ R) as F. rewrite Forall_forall in *.
  intros e He'. exact (section_from_text items e (F e He')).
Qed.

(* ---------------------------------------------------------------------------- *)
(* there is no plain-string parameter form: "#>NAME word" is a ValueError           *)

Theorem plain_param_rejected n w t :
  n <> [] -> spaceless n = true -> w <> [] -> lacks 44 w = true -> lacks 61 w = true ->
  head_ok w = true -> last_ok w = true -> blank t = true ->
  parse_cmd_line (n ++ 32 :: w ++ t) = Err EValue.
Proof.
  intros Hne Hn Hw W44 W61 Wh Wl Ht. unfold parse_cmd_line.
  assert (PN : w ++ t <> []) by (destruct w; [contradiction|discriminate]).
  assert (PH : head_ok (w ++ t) = true) by (destruct w; [contradiction|exact Wh]).
  rewrite (split_ws1_two n (w ++ t) Hne Hn PN PH).
  rewrite parse_params_piece. unfold split_on.
  rewrite split_on_acc_none by (rewrite lacks_app, W44; exact (blank_lacks 44 t eq_refl Ht)).
  cbn [rev app filter]. replace (nonempty (w ++ t)) with true by (destruct w; [contradiction|reflexivity]).
  cbn [mapM]. unfold piece at 1. rewrite (strip_tail w t Wh Wl Ht). unfold split_on.
  rewrite (split_on_acc_none 61 w [] W61). reflexivity.
Qed.

(* ---------------------------------------------------------------------------- *)
(* every clause of item_ok is needed: the round trip of a one-item file fails when
   the clause is violated (CRLF; each example violates one clause only)             *)

Definition rt_fails (it : item) : Prop :=
  parse_text (render_file CRLF [it]) <> Ok (tokens_of [it]).

Ltac rt := unfold rt_fails; vm_compute; discriminate.

Definition s_a : str := [97].   Definition s_v : str := [118].   Definition s_X : str := [88].

(* header comments *)
Example header_clauses_needed :
  rt_fails (IHeader [97; 58; 98] s_v)            (* ':' in the name: three fields, ValueError *)
  /\ rt_fails (IHeader [97; 10; 98] s_v)         (* line break in the name *)
  /\ rt_fails (IHeader s_load s_v)               (* reserved name *)
  /\ rt_fails (IHeader s_a [49; 50; 58; 51; 48]) (* ':' in the value ("12:30"): ValueError *)
  /\ rt_fails (IHeader s_a [120; 10; 121])       (* line break in the value: cut *)
  /\ rt_fails (IHeader s_a [32; 118])            (* leading blank of the value: stripped *)
  /\ rt_fails (IHeader s_a [118; 160]).          (* trailing no-break space: stripped *)
Proof. repeat split; rt. Qed.

Example header_value_with_colon_is_an_error :
  parse_text (render_file CRLF [IHeader s_a [49; 50; 58; 51; 48]]) = Err EValue.
Proof. vm_compute. reflexivity. Qed.

(* instruction lines *)
Example instr_clauses_needed :
  rt_fails (IInstr [] [])                               (* no name *)
  /\ rt_fails (IInstr [65; 32; 66] [])                  (* blank in the name: "B" becomes the parameter *)
  /\ rt_fails (IInstr s_load [])                        (* reserved name *)
  /\ rt_fails (IInstr s_X [([97; 10], s_v)])            (* line break in a key *)
  /\ rt_fails (IInstr s_X [([97; 44; 98], s_v)])        (* ',' in a key *)
  /\ rt_fails (IInstr s_X [([97; 61; 98], s_v)])        (* '=' in a key *)
  /\ rt_fails (IInstr s_X [([32; 97], s_v)])            (* key starts with a blank: stripped *)
  /\ rt_fails (IInstr s_X [(s_a, [118; 10; 119])])      (* line break in a value *)
  /\ rt_fails (IInstr s_X [(s_a, [118; 44; 119])])      (* ',' in a value *)
  /\ rt_fails (IInstr s_X [(s_a, [98; 61; 99])])        (* '=' in a value: three fields, ValueError *)
  /\ rt_fails (IInstr s_X [(s_a, [118; 9])]).           (* value ends with a tab: stripped *)
Proof. repeat split; rt. Qed.

Example instr_value_with_equals_is_an_error :
  parse_text (render_file CRLF [IInstr s_X [(s_a, [98; 61; 99])]]) = Err EValue.
Proof. vm_compute. reflexivity. Qed.

(* data groups *)
Example group_clauses_needed :
  rt_fails (IData [])                                                           (* empty group: no token *)
  /\ rt_fails (IData [mkLine 0x35 65536 [] [x00; x00; x35; x00]])               (* index beyond 16 bit *)
  /\ rt_fails (IData [mkLine 254 0 [] [x00; x00; xfe; x00]])                    (* type FE is the start marker *)
  /\ rt_fails (IData [mkLine 255 0 [] [x00; x00; xff; x00]])                    (* type FF is the end marker *)
  /\ rt_fails (IData [mkLine 0x35 0 (repeat x00 256) ([x00; x00; x35; x00] ++ repeat x00 256)])  (* tag beyond 255 bytes *)
  /\ rt_fails (IData [mkLine 0x35 0 [x41] [x00; x00; x36; x01; x41]]).          (* fields differ from the raw bytes *)
Proof. repeat split; rt. Qed.

(* ---------------------------------------------------------------------------- *)
(* non-vacuity: a two-section file                                                 *)

Definition ex_l1 := mkLine 0x35 0 [x05; x00; x00; x41; x42; x43] [x00; x00; x35; x06; x05; x00; x00; x41; x42; x43].
Definition ex_l2 := mkLine 0x35 1 [x04; x00; x03; x44; x45] [x00; x01; x35; x05; x04; x00; x03; x44; x45].
(* main firmware: the last four bytes of page 0 (tag type 84), then page 1 (tag type 85) *)
Definition ex_m1 := mkLine 0x84 2 [x06; xff; xfc; x5a; x5b; x5c; x5d] [x00; x02; x84; x07; x06; xff; xfc; x5a; x5b; x5c; x5d].
Definition ex_m2 := mkLine 0x85 3 [x04; x00; x00; x5e; x5f] [x00; x03; x85; x05; x04; x00; x00; x5e; x5f].

Definition ex_items : list item :=
  [ IHeader s_Firmware (L1 (H 22 0x3131303020494445205a4241202020312e30322e3033))   (* 1100 IDE ZBA   1.02.03 *)
  ; IHeader s_Creator [116; 111; 111; 108]                                            (* tool *)
  ; IHeader s_Bf3Update [49]
  ; IInstr s_SELECT [(s_FILTER, [48; 49; 32; 48; 49; 32; 48; 48; 32; 57; 66])]        (* 01 01 00 9B *)
  ; IInstr s_SELECT_IF [(s_PROTOCOL, [66; 82; 80])]                                   (* BRP *)
  ; IData [ex_l1; ex_l2]
  ; IInstr s_REBOOT []
  ; IData [ex_m1]
  ; IData [ex_m2] ].

Example ex_items_ok : Forall item_ok ex_items.
Proof. apply (forallb_Forall _ _ _ item_okb_iff). vm_compute. reflexivity. Qed.

(* ---------------------------------------------------------------------------- *)
(* the single-line statements with any blank terminator (blanks and tabs before the
   line break are harmless too), in terms of the Prop-level side conditions          *)

Theorem meta_line_tailed n v t : header_ok n v -> blank t = true ->
  parse_meta_line (n ++ [58; 32] ++ v ++ t) = Ok (Instr n (PStr v)).
Proof.
  intros H Ht. apply (item_okb_iff (IHeader n v)) in H. cbn [item_okb] in H.
  rewrite !andb_true_iff in H. destruct H as [[[[[[N58 N10] NL] V58] V10] Vh] Vl].
  apply negb_true_iff in NL. exact (parse_meta_rendered n v t N58 NL V58 Vh Vl Ht).
Qed.

Theorem cmd_line_tailed n ps t : instr_ok n ps -> blank t = true ->
  parse_cmd_line (match ps with
                  | [] => n ++ t
                  | _ => n ++ [32] ++ join [44] (map param_body ps) ++ t
                  end) = Ok (Instr n (PDict (dupdate str_eqb [] ps))).
Proof.
  intros H Ht. apply (item_okb_iff (IInstr n ps)) in H. cbn [item_okb] in H.
  rewrite !andb_true_iff in H. destruct H as [[[NE NS] NL] PS].
  apply negb_true_iff in NL. apply nonempty_iff in NE. destruct ps as [|kv ps].
  - exact (parse_cmd_rendered0 n t NE NS NL Ht).
  - exact (parse_cmd_rendered n kv ps t NE NS NL PS Ht).
Qed.

Theorem plain_param_line_rejected n w t :
  n <> [] -> (forall c, In c n -> is_space c = false) ->
  w <> [] -> ~ In 44 w -> ~ In 61 w -> no_lead w -> no_trail w -> blank t = true ->
  parse_cmd_line (n ++ [32] ++ w ++ t) = Err EValue.
Proof.
  intros Hne Hn Hw W44 W61 Wh Wl Ht.
  apply (plain_param_rejected n w t); try assumption.
  - apply spaceless_iff. exact Hn.
  - apply lacks_iff. exact W44.
  - apply lacks_iff. exact W61.
  - apply head_ok_iff. exact Wh.
  - apply last_ok_iff. exact Wl.
Qed.

(* the whole-file statement on the lines the file iterator delivers, each with its own blank
   terminator: white space before the line ends is harmless *)
Theorem text_lines items Ls : Forall item_ok items -> Forall2 tailed (file_bodies items) Ls ->
  parse_lines Ls [] = Ok (tokens_of items).
Proof. intros H H2. exact (parse_items items Ls (items_okb items H) H2). Qed.

(* the data group of C13_text_group_partial is the one-item file [IData ls] with CRLF *)
Lemma group_is_file ls : render_group ls = render_file CRLF [IData ls].
Proof.
  unfold render_group, render_file, file_bodies. cbn [flat_map item_bodies]. rewrite app_nil_r.
  cbn [flat_map]. rewrite flat_map_app. cbn [flat_map]. rewrite app_nil_r.
  f_equal. f_equal. induction ls as [|l ls IH]; [reflexivity|]. cbn [flat_map map]. rewrite IH. reflexivity.
Qed.
