(* C18: proofs about the signature codecs of Model/Ecdsa.v
   (sigencode/sigdecode string, strings, der, canonisation). *)
From Coq Require Import List Bool NArith ZArith Lia.
From Coq Require Import Init.Byte.
From Bec2 Require Import Base.Result Base.Bytes Base.Sweep Gen.Rfc6979 Gen.EcdsaFrag Model.Ecdsa Proofs.EcdsaProofs.
Import ListNotations.
Open Scope Z_scope.

(* ------------------------------------------------------------------------ *)
(* raw encodings *)

Lemma be_nonempty k v : (1 <= k)%nat -> be k v <> [].
Proof. intros H E. pose proof (be_length k v) as Hl. rewrite E in Hl. cbn in Hl. lia. Qed.

Lemma string_to_number_be k v : (1 <= k)%nat -> (v < 256 ^ N.of_nat k)%N ->
  string_to_number (be k v) = Ok (Z.of_N v).
Proof.
  intros Hk Hv. unfold string_to_number. pose proof (be_nonempty k v Hk) as Hne.
  destruct (be k v) eqn:E; [congruence|]. rewrite <- E, from_be_be_small by exact Hv. reflexivity.
Qed.

Section Raw.
  Variable n : Z.
  Variable r s : Z.
  Hypothesis Hr : 0 <= r < n.
  Hypothesis Hs : 0 <= s < n.

  Let l := Z.to_nat (orderlen n).

  Lemma l_pos : (1 <= l)%nat.
  Proof. unfold l. pose proof (orderlen_ge_1 n ltac:(lia)). lia. Qed.

  Lemma l_Z : Z.of_nat l = orderlen n.
  Proof. unfold l. pose proof (orderlen_ge_1 n ltac:(lia)). lia. Qed.

  Theorem sigencode_strings_ok :
    sigencode_strings r s n = Ok (be l (Z.to_N r), be l (Z.to_N s)).
  Proof.
    unfold sigencode_strings. rewrite (number_to_string_small r n Hr), (number_to_string_small s n Hs).
    reflexivity.
  Qed.

  Theorem sigencode_string_ok :
    sigencode_string r s n = Ok (be l (Z.to_N r) ++ be l (Z.to_N s)).
  Proof. unfold sigencode_string. rewrite sigencode_strings_ok. reflexivity. Qed.

  Theorem sigdecode_strings_encode :
    sigdecode_strings [be l (Z.to_N r); be l (Z.to_N s)] n = SOk (r, s).
  Proof.
    unfold sigdecode_strings. rewrite !be_blen, !nat_N_Z, l_Z, Z.eqb_refl. cbn [negb].
    rewrite !string_to_number_be; try apply l_pos; try (apply lt_order_fits; assumption).
    cbn [lift sbind]. rewrite !Z2N.id by lia. reflexivity.
  Qed.

  Theorem sigdecode_string_encode :
    sigdecode_string (be l (Z.to_N r) ++ be l (Z.to_N s)) n = SOk (r, s).
  Proof.
    unfold sigdecode_string. rewrite blen_app, !be_blen, N2Z.inj_add, !nat_N_Z, l_Z.
    replace (orderlen n + orderlen n =? 2 * orderlen n) with true by (symmetry; apply Z.eqb_eq; lia).
    cbn [negb].
    rewrite takeN_app_exact', dropN_app_exact' by (rewrite be_blen; fold l; lia).
    rewrite !string_to_number_be; try apply l_pos; try (apply lt_order_fits; assumption).
    cbn [lift sbind]. rewrite !Z2N.id by lia. reflexivity.
  Qed.
End Raw.

(* wrong lengths are MalformedSignature *)
Theorem sigdecode_string_length sig n :
  Z.of_N (blen sig) <> 2 * orderlen n -> sigdecode_string sig n = SErr SMalformed.
Proof.
  intro H. unfold sigdecode_string. apply Z.eqb_neq in H. rewrite H. reflexivity.
Qed.

Theorem sigdecode_strings_shape l n :
  (forall a b, l = [a; b] -> Z.of_N (blen a) <> orderlen n \/ Z.of_N (blen b) <> orderlen n) ->
  sigdecode_strings l n = SErr SMalformed.
Proof.
  intro H. unfold sigdecode_strings.
  destruct l as [|a [|b [|c t]]]; try reflexivity.
  destruct (H a b eq_refl) as [E|E]; apply Z.eqb_neq in E.
  - rewrite E. reflexivity.
  - rewrite E. destruct (Z.of_N (blen a) =? orderlen n); reflexivity.
Qed.

(* and accepted raw signatures are exactly the fixed-width encodings *)
Theorem sigdecode_string_exact sig n r s : 0 <= n ->
  sigdecode_string sig n = SOk (r, s) ->
  let l := Z.to_nat (orderlen n) in
  sig = be l (Z.to_N r) ++ be l (Z.to_N s) /\ 0 <= r < 256 ^ orderlen n /\ 0 <= s < 256 ^ orderlen n.
Proof.
  intros Hn. unfold sigdecode_string. pose proof (orderlen_ge_1 n Hn) as Ho.
  destruct (Z.of_N (blen sig) =? 2 * orderlen n) eqn:E; [|discriminate]. cbn [negb].
  apply Z.eqb_eq in E.
  set (a := takeN (Z.to_N (orderlen n)) sig). set (b := dropN (Z.to_N (orderlen n)) sig).
  assert (Hab : a ++ b = sig) by apply takeN_dropN.
  assert (Ha : blen a = Z.to_N (orderlen n)) by (unfold a; rewrite takeN_blen; lia).
  assert (Hb : blen b = Z.to_N (orderlen n)) by (unfold b; rewrite dropN_blen; lia).
  unfold string_to_number.
  destruct a as [|a0 a'] eqn:Ea; [cbn in Ha; lia|]. rewrite <- Ea in *.
  destruct b as [|b0 b'] eqn:Eb; [cbn in Hb; lia|]. rewrite <- Eb in *.
  cbn [lift sbind]. intro H; inversion H; subst r s. cbn zeta.
  assert (La : length a = Z.to_nat (orderlen n)) by (unfold blen in Ha; lia).
  assert (Lb : length b = Z.to_nat (orderlen n)) by (unfold blen in Hb; lia).
  rewrite !N2Z.id. rewrite <- La at 1. rewrite <- Lb. rewrite !be_from_be. split; [symmetry; exact Hab|].
  pose proof (from_be_lt a) as Ua. pose proof (from_be_lt b) as Ub.
  rewrite Ha in Ua. rewrite Hb in Ub.
  assert (P : Z.of_N (256 ^ Z.to_N (orderlen n)) = 256 ^ orderlen n).
  { rewrite N2Z.inj_pow, Z2N.id by lia. reflexivity. }
  lia.
Qed.

(* ------------------------------------------------------------------------ *)
(* DER pieces *)
Open Scope N_scope.

(* bit masks on one byte: finite sweeps *)
Definition mask_small_ok (l : N) : bool := (N.land l 0x80 =? 0) && (N.land l 0x7F =? l).
Lemma mask_small l : l < 128 -> N.land l 0x80 = 0 /\ N.land l 0x7F = l.
Proof.
  intro H. assert (S : forallb mask_small_ok (Nrange 128) = true) by (vm_compute; reflexivity).
  pose proof (sweep mask_small_ok 128 S l H) as E. unfold mask_small_ok in E.
  apply andb_true_iff in E as [E1 E2]. apply N.eqb_eq in E1, E2. auto.
Qed.

Definition mask_long_ok (k : N) : bool :=
  negb (N.land (N.lor 0x80 k) 0x80 =? 0) && (N.land (N.lor 0x80 k) 0x7F =? k) && (N.lor 0x80 k <? 256).
Lemma mask_long k : k < 128 ->
  N.land (N.lor 0x80 k) 0x80 <> 0 /\ N.land (N.lor 0x80 k) 0x7F = k /\ N.lor 0x80 k < 256.
Proof.
  intro H. assert (S : forallb mask_long_ok (Nrange 128) = true) by (vm_compute; reflexivity).
  pose proof (sweep mask_long_ok 128 S k H) as E. unfold mask_long_ok in E.
  apply andb_true_iff in E as [E E3]. apply andb_true_iff in E as [E1 E2].
  apply negb_true_iff, N.eqb_neq in E1. apply N.eqb_eq in E2. apply N.ltb_lt in E3. auto.
Qed.

Definition mask_byte_ok (x : N) : bool :=
  if N.land x 0x80 =? 0 then (N.land x 0x7F =? x) && (x <? 128)
  else (N.lor 0x80 (N.land x 0x7F) =? x) && (N.land x 0x7F <? 128).
Lemma mask_byte x : x < 256 ->
  if N.land x 0x80 =? 0 then N.land x 0x7F = x /\ x < 128
  else N.lor 0x80 (N.land x 0x7F) = x /\ N.land x 0x7F < 128.
Proof.
  intro H. assert (S : forallb mask_byte_ok (Nrange 256) = true) by (vm_compute; reflexivity).
  pose proof (sweep mask_byte_ok 256 S x H) as E. unfold mask_byte_ok in E.
  destruct (N.land x 0x80 =? 0); apply andb_true_iff in E as [E1 E2];
    apply N.eqb_eq in E1; apply N.ltb_lt in E2; auto.
Qed.

(* minimal big-endian byte strings *)
Lemma nbytes_pos v : (1 <= nbytes v)%nat.
Proof. unfold nbytes. destruct v; [apply le_n | apply le_n_S, Nat.le_0_l]. Qed.

Lemma nbytes_bound v : v < 256 ^ N.of_nat (nbytes v).
Proof.
  destruct v as [|p]; [reflexivity|]. unfold nbytes.
  set (v := N.pos p). assert (Hv : 0 < v) by reflexivity.
  pose proof (N.log2_spec v Hv) as [_ Hu].
  replace 256 with (2 ^ 8) by reflexivity. rewrite <- N.pow_mul_r.
  eapply N.lt_le_trans; [exact Hu|]. apply N.pow_le_mono_r; [lia|].
  rewrite Nat2N.inj_succ, N2Nat.id.
  pose proof (N.mul_div_le (N.log2 v) 8 ltac:(lia)).
  pose proof (N.mod_upper_bound (N.log2 v) 8 ltac:(lia)).
  pose proof (N.div_mod (N.log2 v) 8 ltac:(lia)). lia.
Qed.

Lemma nbytes_low v : 0 < v -> 256 ^ (N.of_nat (nbytes v) - 1) <= v.
Proof.
  intro Hv. destruct v as [|p]; [lia|]. unfold nbytes. set (v := N.pos p) in *.
  rewrite Nat2N.inj_succ, N2Nat.id. rewrite <- N.pred_sub, N.pred_succ.
  pose proof (N.log2_spec v Hv) as [Hl _].
  replace 256 with (2 ^ 8) by reflexivity. rewrite <- N.pow_mul_r.
  eapply N.le_trans; [|exact Hl]. apply N.pow_le_mono_r; [lia|].
  apply N.mul_div_le. lia.
Qed.

Lemma min_be_length v : length (min_be v) = nbytes v.
Proof. apply be_length. Qed.
Lemma min_be_blen v : blen (min_be v) = N.of_nat (nbytes v).
Proof. apply be_blen. Qed.
Lemma min_be_from_be v : from_be (min_be v) = v.
Proof. apply from_be_be_small, nbytes_bound. Qed.

Lemma from_be_cons b t : from_be (b :: t) = b2n b * 256 ^ blen t + from_be t.
Proof.
  change (b :: t) with ([b] ++ t). rewrite from_be_app.
  change (from_be [b]) with (0 * 256 + b2n b). lia.
Qed.

Lemma min_be_head v : exists b0 t, min_be v = b0 :: t /\ (0 < v -> b2n b0 <> 0) /\ (v = 0 -> t = [] /\ b0 = x00).
Proof.
  pose proof (min_be_length v) as Hl. pose proof (nbytes_pos v) as Hp.
  destruct (min_be v) as [|b0 t] eqn:E; [cbn in Hl; lia|].
  exists b0, t. split; [reflexivity|]. split.
  - intros Hv H0. pose proof (min_be_from_be v) as Hf. rewrite E, from_be_cons, H0 in Hf.
    pose proof (from_be_lt t) as Ht. pose proof (nbytes_low v Hv) as Hlow.
    cbn [length] in Hl. replace (N.of_nat (nbytes v) - 1) with (blen t) in Hlow by (unfold blen; lia).
    lia.
  - intros ->. cbn in E. inversion E. auto.
Qed.

(* a byte string whose first byte is not zero is the minimal encoding of its value *)
Lemma min_be_canonical b0 t : b2n b0 <> 0 -> min_be (from_be (b0 :: t)) = b0 :: t.
Proof.
  intro H0. set (bs := b0 :: t). set (v := from_be bs).
  assert (Hlow : 256 ^ blen t <= v).
  { unfold v, bs. rewrite from_be_cons. assert (1 <= b2n b0) by lia. nia. }
  assert (Hup : v < 256 ^ blen bs) by apply from_be_lt.
  assert (Hv : 0 < v).
  { eapply N.lt_le_trans; [|exact Hlow]. apply N.neq_0_lt_0, N.pow_nonzero. lia. }
  assert (Hn : nbytes v = length bs).
  { unfold nbytes. destruct v as [|p] eqn:Ev; [lia|]. rewrite <- Ev in *.
    assert (N.log2 v / 8 = blen t); [|unfold bs, blen in *; cbn [length]; lia].
    replace 256 with (2 ^ 8) in Hlow, Hup by reflexivity. rewrite <- N.pow_mul_r in Hlow, Hup.
    apply N.log2_le_pow2 in Hlow; [|exact Hv]. apply N.log2_lt_pow2 in Hup; [|exact Hv].
    unfold bs in Hup. rewrite blen_cons in Hup.
    symmetry. apply (N.div_unique (N.log2 v) 8 (blen t) (N.log2 v - 8 * blen t)); lia. }
  unfold min_be. rewrite Hn. apply be_from_be.
Qed.

Lemma min_be_zero : min_be 0 = [x00].
Proof. reflexivity. Qed.

Lemma nbytes_le v k : (1 <= k)%nat -> v < 256 ^ N.of_nat k -> (nbytes v <= k)%nat.
Proof.
  intros Hk Hv. destruct (N.eq_dec v 0) as [->|Hne]; [cbn; lia|].
  pose proof (nbytes_low v ltac:(lia)) as Hl.
  destruct (le_lt_dec (nbytes v) k) as [|Hgt]; [assumption|].
  assert (256 ^ N.of_nat k <= 256 ^ (N.of_nat (nbytes v) - 1)) by (apply N.pow_le_mono_r; lia).
  lia.
Qed.

(* ---- length octets ---- *)

Lemma Ok_inj {A} (a b : A) : Ok a = Ok b -> a = b.
Proof. intro H. congruence. Qed.

Definition len_ok (l : N) : Prop := l < 256 ^ 127.

Lemma len_ok_nbytes l : len_ok l -> N.of_nat (nbytes l) < 128.
Proof. intro H. pose proof (nbytes_le l 127 ltac:(lia) H). lia. Qed.

Lemma encode_length_total l : len_ok l -> exists e, sd_encode_length l = Ok e.
Proof.
  intro H. unfold sd_encode_length. destruct (l <? 0x80); [eexists; reflexivity|].
  pose proof (len_ok_nbytes l H) as Hk. rewrite min_be_blen.
  destruct (mask_long _ Hk) as (_ & _ & H3).
  unfold to_bytes. change (256 ^ N.of_nat 1) with 256.
  apply N.ltb_lt in H3. rewrite H3. eexists; reflexivity.
Qed.

Lemma read_length_encode l e rest : len_ok l ->
  sd_encode_length l = Ok e -> sd_read_length (e ++ rest) = Ok (l, blen e).
Proof.
  intros Hok. unfold sd_encode_length. destruct (l <? 0x80) eqn:C.
  - intro H; inversion H; subst e. apply N.ltb_lt in C.
    cbn [app]. unfold sd_read_length. cbv beta iota zeta. rewrite b2n_n2b_small by lia.
    destruct (mask_small l C) as [-> ->]. reflexivity.
  - apply N.ltb_ge in C. pose proof (len_ok_nbytes l Hok) as Hk.
    rewrite min_be_blen. destruct (mask_long _ Hk) as (M1 & M2 & M3).
    unfold to_bytes. change (256 ^ N.of_nat 1) with 256.
    assert (M3' := M3). apply N.ltb_lt in M3'. rewrite M3'. cbn [bind]. rewrite be_1.
    intro H; apply Ok_inj in H; subst e.
    cbn [app]. unfold sd_read_length. cbv beta iota zeta. rewrite b2n_n2b_small by exact M3.
    apply N.eqb_neq in M1. rewrite M1, M2.
    pose proof (nbytes_pos l).
    replace (N.of_nat (nbytes l) =? 0) with false by (symmetry; apply N.eqb_neq; lia).
    rewrite blen_app, min_be_blen.
    replace (N.of_nat (nbytes l) + blen rest <? N.of_nat (nbytes l)) with false by (symmetry; apply N.ltb_ge; lia).
    destruct (min_be_head l) as (b0 & t & E & Hnz & _). rewrite E. cbn [app].
    specialize (Hnz ltac:(lia)). apply N.eqb_neq in Hnz. rewrite Hnz. cbn [orb].
    assert (Hmsb : (N.of_nat (nbytes l) =? 1) && (b2n b0 <? 0x80) = false).
    { destruct (N.of_nat (nbytes l) =? 1) eqn:E1; [|reflexivity]. apply N.eqb_eq in E1.
      cbn [andb]. apply N.ltb_ge.
      assert (t = []).
      { pose proof (min_be_length l) as Hl. rewrite E in Hl. cbn [length] in Hl.
        destruct t; [reflexivity | cbn [length] in Hl; lia]. }
      subst t. pose proof (min_be_from_be l) as Hf. rewrite E in Hf.
      change (from_be [b0]) with (0 * 256 + b2n b0) in Hf. lia. }
    rewrite Hmsb.
    change (b0 :: t ++ rest) with ((b0 :: t) ++ rest). rewrite <- E.
    rewrite takeN_app_exact' by apply min_be_blen. rewrite min_be_from_be.
    rewrite blen_cons, min_be_blen. reflexivity.
Qed.

(* exactness: what read_length accepts is the minimal encoding of what it returns *)
Lemma read_length_exact s l k : sd_read_length s = Ok (l, k) ->
  sd_encode_length l = Ok (takeN k s) /\ k <= blen s /\ 1 <= k.
Proof.
  unfold sd_read_length. destruct s as [|b0 t]; [discriminate|].
  pose proof (mask_byte (b2n b0) (b2n_lt b0)) as M.
  destruct (N.land (b2n b0) 0x80 =? 0) eqn:E0.
  - destruct M as [M1 M2]. intro H; inversion H; subst l k. clear H.
    unfold sd_encode_length. rewrite M1. apply N.ltb_lt in M2. rewrite M2.
    rewrite n2b_b2n. rewrite blen_cons. split; [rewrite takeN_firstn; reflexivity | lia].
  - destruct M as [M1 M2]. set (llen := N.land (b2n b0) 0x7F) in *.
    destruct (llen =? 0) eqn:E1; [discriminate|]. apply N.eqb_neq in E1.
    destruct (blen t <? llen) eqn:E2; [discriminate|]. apply N.ltb_ge in E2.
    destruct t as [|msb t']; [discriminate|]. set (t := msb :: t') in *.
    destruct ((b2n msb =? 0) || ((llen =? 1) && (b2n msb <? 0x80))) eqn:E3; [discriminate|].
    apply orb_false_iff in E3 as [E3 E4]. apply N.eqb_neq in E3.
    intro H. assert (Hl : l = from_be (takeN llen t)) by congruence.
    assert (Hk : k = 1 + llen) by congruence. clear H. subst l k.
    (* the value bytes *)
    set (bs := takeN llen t).
    assert (Hbs : blen bs = llen) by (unfold bs; rewrite takeN_blen; lia).
    assert (Hhd : exists u, bs = msb :: u).
    { unfold bs, t. rewrite takeN_firstn. destruct (N.to_nat llen) eqn:En; [lia|]. cbn [firstn]. eexists; reflexivity. }
    destruct Hhd as [u Hu].
    assert (Hmin : min_be (from_be bs) = bs) by (rewrite Hu; apply min_be_canonical; exact E3).
    assert (Hge : 0x80 <= from_be bs).
    { destruct (llen =? 1) eqn:E5.
      - apply N.eqb_eq in E5. cbn [andb] in E4. apply N.ltb_ge in E4.
        rewrite Hu in Hbs |- *. rewrite blen_cons in Hbs. assert (u = []) by (destruct u; [reflexivity | rewrite blen_cons in Hbs; lia]).
        subst u. change (from_be [msb]) with (0 * 256 + b2n msb). lia.
      - apply N.eqb_neq in E5. rewrite Hu, from_be_cons.
        rewrite Hu, blen_cons in Hbs. assert (1 <= blen u) by lia.
        assert (256 ^ 1 <= 256 ^ blen u) by (apply N.pow_le_mono_r; lia).
        change (256 ^ 1) with 256 in *. assert (1 <= b2n msb) by lia. nia. }
    unfold sd_encode_length. replace (from_be bs <? 0x80) with false by (symmetry; apply N.ltb_ge; exact Hge).
    rewrite Hmin, Hbs. fold llen. rewrite M1.
    unfold to_bytes. change (256 ^ N.of_nat 1) with 256.
    pose proof (b2n_lt b0) as Hb. apply N.ltb_lt in Hb. rewrite Hb. cbn [bind]. rewrite be_1.
    rewrite n2b_b2n. rewrite blen_cons. split; [|lia].
    f_equal. rewrite takeN_firstn. replace (N.to_nat (1 + llen)) with (S (N.to_nat llen)) by lia.
    cbn [firstn app]. f_equal. unfold bs. rewrite takeN_firstn. reflexivity.
Qed.

Lemma read_length_error s e : sd_read_length s = Err e -> e = EUnexpectedDER.
Proof.
  unfold sd_read_length. destruct s as [|b0 t]; [intro H; inversion H; reflexivity|].
  destruct (N.land (b2n b0) 0x80 =? 0); [discriminate|].
  destruct (_ =? 0) eqn:E1; [intro H; inversion H; reflexivity|]. apply N.eqb_neq in E1.
  destruct (blen t <? _) eqn:E2; [intro H; inversion H; reflexivity|]. apply N.ltb_ge in E2.
  destruct t as [|msb t']; [cbn in E2; lia|].
  destruct (_ || _); [intro H; inversion H; reflexivity | discriminate].
Qed.

(* ---- INTEGER ---- *)

Lemma skipn_skipn' {A} (a b : nat) (l : list A) : skipn a (skipn b l) = skipn (b + a) l.
Proof.
  revert l; induction b as [|b IH]; intro l; [reflexivity|].
  destruct l as [|x l]; [cbn; apply skipn_nil|]. cbn [skipn Nat.add]. apply IH.
Qed.

(* the content octets of a non-negative INTEGER *)
Definition int_octets (v : N) : bytes :=
  match min_be v with
  | [] => []
  | b0 :: t => if b2n b0 <=? 0x7F then b0 :: t else x00 :: b0 :: t
  end.

Lemma encode_integer_shape r : 0 <= r ->
  sd_encode_integer (Z.of_N r) =
  (let* l := sd_encode_length (blen (int_octets r)) in Ok ([x02] ++ l ++ int_octets r)).
Proof.
  intros _. unfold sd_encode_integer, int_octets.
  destruct (Z.of_N r <? 0)%Z eqn:E; [apply Z.ltb_lt in E; lia|]. rewrite N2Z.id.
  destruct (min_be_head r) as (b0 & t & Eh & _ & _). rewrite Eh.
  destruct (b2n b0 <=? 0x7F).
  - reflexivity.
  - rewrite (blen_cons x00). rewrite N.add_comm. reflexivity.
Qed.

Lemma int_octets_value r : from_be (int_octets r) = r.
Proof.
  unfold int_octets. pose proof (min_be_from_be r) as H.
  destruct (min_be r) as [|b0 t] eqn:E; [exact H|].
  destruct (b2n b0 <=? 0x7F); [exact H|].
  rewrite from_be_cons. change (b2n x00) with 0. lia.
Qed.

Lemma int_octets_blen r : 1 <= blen (int_octets r) <= N.of_nat (nbytes r) + 1.
Proof.
  unfold int_octets. pose proof (min_be_blen r) as H. pose proof (nbytes_pos r).
  destruct (min_be r) as [|b0 t] eqn:E; [cbn in H; lia|].
  destruct (b2n b0 <=? 0x7F); [lia|]. rewrite (blen_cons x00). lia.
Qed.

Lemma remove_integer_octets (nb rest : bytes) l :
  len_ok (blen nb) -> sd_encode_length (blen nb) = Ok l ->
  sd_remove_integer ([x02] ++ l ++ nb ++ rest) =
  match nb with
  | [] => Err EUnexpectedDER
  | msb :: nt =>
    if negb (b2n msb <? 0x80) then Err EUnexpectedDER else
    if (1 <? blen nb) && (b2n msb =? 0) then
      match nt with
      | [] => Err EIndex
      | smsb :: _ => if b2n smsb <? 0x80 then Err EUnexpectedDER else Ok (Z.of_N (from_be nb), rest)
      end
    else Ok (Z.of_N (from_be nb), rest)
  end.
Proof.
  intros Hok Hl. cbn [app]. unfold sd_remove_integer. cbv beta iota zeta.
  change (byte_eqb x02 x02) with true. cbn [negb].
  rewrite (read_length_encode (blen nb) l (nb ++ rest) Hok Hl). cbn [bind].
  rewrite blen_cons, !blen_app.
  replace (1 + (blen l + (blen nb + blen rest)) - 1 - blen l <? blen nb) with false
    by (symmetry; apply N.ltb_ge; lia).
  destruct nb as [|msb nt]; [reflexivity|].
  replace (blen (msb :: nt) =? 0) with false by (symmetry; apply N.eqb_neq; rewrite blen_cons; lia).
  change (x02 :: l ++ (msb :: nt) ++ rest) with ((x02 :: l) ++ ((msb :: nt) ++ rest)).
  rewrite (dropN_app_exact' (1 + blen l)) by (rewrite blen_cons; reflexivity).
  rewrite takeN_app_exact.
  replace (1 + blen l + blen (msb :: nt)) with (blen ((x02 :: l) ++ (msb :: nt))) by (rewrite blen_app, blen_cons; reflexivity).
  rewrite app_assoc, dropN_app_exact. reflexivity.
Qed.

Theorem remove_integer_encode r e rest : len_ok (N.of_nat (nbytes r) + 1) ->
  sd_encode_integer (Z.of_N r) = Ok e -> sd_remove_integer (e ++ rest) = Ok (Z.of_N r, rest).
Proof.
  intros Hok. rewrite encode_integer_shape by lia.
  pose proof (int_octets_blen r) as Hb.
  assert (Hok' : len_ok (blen (int_octets r))) by (unfold len_ok in *; lia).
  destruct (sd_encode_length (blen (int_octets r))) as [l|] eqn:El; [|discriminate]. cbn [bind].
  intro H; apply Ok_inj in H; subst e. rewrite <- !app_assoc.
  rewrite (remove_integer_octets (int_octets r) rest l Hok' El).
  pose proof (int_octets_value r) as Hv. unfold int_octets in *.
  destruct (min_be_head r) as (b0 & t & Eh & Hnz & Hz). rewrite Eh in *.
  destruct (b2n b0 <=? 0x7F) eqn:C.
  - apply N.leb_le in C. replace (b2n b0 <? 0x80) with true by (symmetry; apply N.ltb_lt; lia). cbn [negb].
    rewrite Hv. destruct ((1 <? blen (b0 :: t)) && (b2n b0 =? 0)) eqn:C2; [|reflexivity].
    apply andb_true_iff in C2 as [C3 C4]. apply N.ltb_lt in C3. apply N.eqb_eq in C4.
    destruct (N.eq_dec r 0) as [E0|E0].
    + destruct (Hz E0) as [-> _]. cbn in C3. lia.
    + specialize (Hnz ltac:(lia)). congruence.
  - apply N.leb_gt in C. change (b2n x00 <? 0x80) with true. cbn [negb].
    rewrite (blen_cons x00). replace (1 <? 1 + blen (b0 :: t)) with true by (symmetry; apply N.ltb_lt; rewrite blen_cons; lia).
    change (b2n x00 =? 0) with true. cbn [andb].
    replace (b2n b0 <? 0x80) with false by (symmetry; apply N.ltb_ge; lia). rewrite Hv. reflexivity.
Qed.

Lemma remove_integer_error s e : sd_remove_integer s = Err e -> e = EUnexpectedDER.
Proof.
  unfold sd_remove_integer. destruct s as [|b0 t]; [intro H; inversion H; reflexivity|].
  destruct (negb (byte_eqb b0 x02)); [intro H; inversion H; reflexivity|].
  destruct (sd_read_length t) as [[length ll]|e'] eqn:El; cbn [bind].
  2:{ intro H. assert (e = e') by congruence. subst e'. eapply read_length_error; exact El. }
  destruct (_ <? length) eqn:E1; [intro H; inversion H; reflexivity|]. apply N.ltb_ge in E1.
  destruct (length =? 0) eqn:E2; [intro H; inversion H; reflexivity|]. apply N.eqb_neq in E2.
  apply read_length_exact in El as (_ & Hk & Hk1).
  set (nb := takeN length (dropN (1 + ll) (b0 :: t))).
  assert (Hnb : blen nb = length).
  { unfold nb. rewrite takeN_blen, dropN_blen, blen_cons in *. lia. }
  destruct nb as [|msb nt] eqn:En; [cbn in Hnb; lia|].
  destruct (negb _); [intro H; inversion H; reflexivity|].
  destruct ((1 <? length) && _) eqn:E3; [|discriminate].
  apply andb_true_iff in E3 as [E3 _]. apply N.ltb_lt in E3.
  destruct nt as [|smsb nt']; [rewrite blen_cons in Hnb; cbn in Hnb; lia|].
  destruct (b2n smsb <? 0x80); [intro H; inversion H; reflexivity | discriminate].
Qed.

(* exactness: an accepted INTEGER is the DER encoding of its value *)
Theorem remove_integer_exact s v rest : sd_remove_integer s = Ok (v, rest) ->
  exists e, sd_encode_integer v = Ok e /\ s = e ++ rest /\ (0 <= v)%Z.
Proof.
  unfold sd_remove_integer. destruct s as [|b0 t]; [discriminate|].
  destruct (byte_eqb b0 x02) eqn:Eb; [|discriminate]. apply byte_eqb_eq in Eb. subst b0. cbn [negb].
  destruct (sd_read_length t) as [[length ll]|e'] eqn:El; [|discriminate]. cbn [bind].
  destruct (_ <? length) eqn:E1; [discriminate|]. apply N.ltb_ge in E1.
  destruct (length =? 0) eqn:E2; [discriminate|]. apply N.eqb_neq in E2.
  apply read_length_exact in El as (Henc & Hk & Hk1).
  rewrite blen_cons in E1.
  set (whole := x02 :: t) in *.
  set (nb := takeN length (dropN (1 + ll) whole)).
  set (rst := dropN (1 + ll + length) whole).
  assert (Hnb : blen nb = length) by (unfold nb; rewrite takeN_blen, dropN_blen; unfold whole; rewrite blen_cons; lia).
  (* whole = 02 ++ lenbytes ++ nb ++ rst *)
  assert (Hw : whole = [x02] ++ takeN ll t ++ nb ++ rst).
  { unfold nb, rst, whole. cbn [app]. f_equal.
    rewrite !dropN_skipn, !takeN_firstn.
    replace (N.to_nat (1 + ll)) with (S (N.to_nat ll)) by lia.
    replace (N.to_nat (1 + ll + length)) with (S (N.to_nat ll + N.to_nat length)) by lia.
    cbn [skipn]. rewrite <- (firstn_skipn (N.to_nat ll) t) at 1. f_equal.
    rewrite <- (firstn_skipn (N.to_nat length) (skipn (N.to_nat ll) t)) at 1. f_equal.
    rewrite skipn_skipn'. reflexivity. }
  assert (Hcanon : forall a, nb = int_octets a -> Z.of_N (from_be nb) = v -> rst = rest ->
            exists e, sd_encode_integer v = Ok e /\ whole = e ++ rest /\ (0 <= v)%Z).
  { intros a Ha Hv Hr. subst rest. rewrite <- Hv, Ha, int_octets_value.
    rewrite encode_integer_shape by lia. rewrite <- Ha, Hnb, Henc. cbn [bind].
    eexists. split; [reflexivity|]. split; [|lia]. rewrite Hw, <- !app_assoc. reflexivity. }
  fold nb. fold rst.
  destruct nb as [|msb nt] eqn:En; [cbn in Hnb; lia|].
  destruct (b2n msb <? 0x80) eqn:E3; [|discriminate]. cbn [negb]. apply N.ltb_lt in E3.
  destruct ((1 <? length) && (b2n msb =? 0)) eqn:E4.
  - apply andb_true_iff in E4 as [E4 E5]. apply N.ltb_lt in E4. apply N.eqb_eq in E5.
    destruct nt as [|smsb nt']; [discriminate|].
    destruct (b2n smsb <? 0x80) eqn:E6; [discriminate|]. apply N.ltb_ge in E6.
    intro H. assert (Hv : Z.of_N (from_be (msb :: smsb :: nt')) = v) by congruence.
    assert (Hr : rst = rest) by congruence. clear H.
    apply (Hcanon (from_be (smsb :: nt'))); [|exact Hv|exact Hr].
    unfold int_octets. rewrite min_be_canonical by lia.
    replace (b2n smsb <=? 0x7F) with false by (symmetry; apply N.leb_gt; lia).
    f_equal. apply b2n_inj. exact E5.
  - intro H. assert (Hv : Z.of_N (from_be (msb :: nt)) = v) by congruence.
    assert (Hr : rst = rest) by congruence. clear H.
    apply (Hcanon (from_be (msb :: nt))); [|exact Hv|exact Hr].
    unfold int_octets. apply andb_false_iff in E4 as [E4|E4].
    + apply N.ltb_ge in E4. rewrite blen_cons in Hnb.
      assert (nt = []) by (destruct nt; [reflexivity | rewrite blen_cons in Hnb; lia]). subst nt.
      destruct (N.eq_dec (b2n msb) 0) as [Z0|NZ].
      * replace msb with x00 by (apply b2n_inj; symmetry; exact Z0). reflexivity.
      * rewrite min_be_canonical by exact NZ.
        replace (b2n msb <=? 0x7F) with true by (symmetry; apply N.leb_le; lia). reflexivity.
    + apply N.eqb_neq in E4. rewrite min_be_canonical by exact E4.
      replace (b2n msb <=? 0x7F) with true by (symmetry; apply N.leb_le; lia). reflexivity.
Qed.

(* ---- SEQUENCE ---- *)

Theorem remove_sequence_encode body l rest : len_ok (blen body) ->
  sd_encode_length (blen body) = Ok l ->
  sd_remove_sequence ([x30] ++ l ++ body ++ rest) = Ok (body, rest).
Proof.
  intros Hok Hl. cbn [app]. unfold sd_remove_sequence. cbv beta iota zeta.
  change (byte_eqb x30 x30) with true. cbn [negb].
  rewrite (read_length_encode (blen body) l (body ++ rest) Hok Hl). cbn [bind].
  rewrite blen_cons, !blen_app.
  replace (1 + (blen l + (blen body + blen rest)) - 1 - blen l <? blen body) with false
    by (symmetry; apply N.ltb_ge; lia).
  change (x30 :: l ++ body ++ rest) with ((x30 :: l) ++ (body ++ rest)).
  rewrite (dropN_app_exact' (1 + blen l)) by (rewrite blen_cons; reflexivity).
  rewrite takeN_app_exact.
  replace (1 + blen l + blen body) with (blen ((x30 :: l) ++ body)) by (rewrite blen_app, blen_cons; reflexivity).
  rewrite app_assoc, dropN_app_exact. reflexivity.
Qed.

Lemma remove_sequence_error s e : sd_remove_sequence s = Err e -> e = EUnexpectedDER.
Proof.
  unfold sd_remove_sequence. destruct s as [|b0 t]; [intro H; inversion H; reflexivity|].
  destruct (negb (byte_eqb b0 x30)); [intro H; inversion H; reflexivity|].
  destruct (sd_read_length t) as [[length ll]|e'] eqn:El; cbn [bind].
  2:{ intro H. assert (e = e') by congruence. subst e'. eapply read_length_error; exact El. }
  destruct (_ <? length); [intro H; inversion H; reflexivity | discriminate].
Qed.

Theorem remove_sequence_exact s body rest : sd_remove_sequence s = Ok (body, rest) ->
  exists l, sd_encode_length (blen body) = Ok l /\ s = [x30] ++ l ++ body ++ rest.
Proof.
  unfold sd_remove_sequence. destruct s as [|b0 t]; [discriminate|].
  destruct (byte_eqb b0 x30) eqn:Eb; [|discriminate]. apply byte_eqb_eq in Eb. subst b0. cbn [negb].
  destruct (sd_read_length t) as [[length ll]|e'] eqn:El; [|discriminate]. cbn [bind].
  destruct (_ <? length) eqn:E1; [discriminate|]. apply N.ltb_ge in E1.
  apply read_length_exact in El as (Henc & Hk & Hk1). rewrite blen_cons in E1.
  set (whole := x30 :: t) in *.
  intro H.
  assert (Hb : takeN length (dropN (1 + ll) whole) = body) by congruence.
  assert (Hr : dropN (1 + ll + length) whole = rest) by congruence. clear H.
  assert (Hlen : blen body = length).
  { rewrite <- Hb, takeN_blen, dropN_blen. unfold whole. rewrite blen_cons. lia. }
  exists (takeN ll t). rewrite Hlen. split; [exact Henc|].
  rewrite <- Hb, <- Hr. unfold whole. cbn [app]. f_equal.
  rewrite !dropN_skipn, !takeN_firstn.
  replace (N.to_nat (1 + ll)) with (S (N.to_nat ll)) by lia.
  replace (N.to_nat (1 + ll + length)) with (S (N.to_nat ll + N.to_nat length)) by lia.
  cbn [skipn]. rewrite <- (firstn_skipn (N.to_nat ll) t) at 1. f_equal.
  rewrite <- (firstn_skipn (N.to_nat length) (skipn (N.to_nat ll) t)) at 1. f_equal.
  rewrite skipn_skipn'. reflexivity.
Qed.

(* ---- Ecdsa-Sig-Value ---- *)

Lemma encode_length_blen l e : len_ok l -> sd_encode_length l = Ok e -> blen e <= 128.
Proof.
  intros Hok. unfold sd_encode_length. destruct (l <? 0x80).
  - intro H; apply Ok_inj in H; subst e. cbn. lia.
  - pose proof (len_ok_nbytes l Hok) as Hk. unfold to_bytes.
    destruct (_ <? _); [|discriminate]. cbn [bind]. rewrite be_1.
    intro H; apply Ok_inj in H; subst e. cbn [app]. rewrite blen_cons, min_be_blen. lia.
Qed.

Lemma nonempty_false {A} (l : list A) : nonempty l = false -> l = [].
Proof. destruct l; [reflexivity | discriminate]. Qed.

Definition small (v : N) : Prop := v < 256 ^ 1000.

Lemma small_nbytes v : small v -> N.of_nat (nbytes v) <= 1000.
Proof. intro H. pose proof (nbytes_le v 1000 ltac:(lia) H). lia. Qed.

Lemma encode_integer_blen r e : small r -> sd_encode_integer (Z.of_N r) = Ok e -> blen e <= 1130.
Proof.
  intros Hs. rewrite encode_integer_shape by lia. pose proof (small_nbytes r Hs) as Hn.
  pose proof (int_octets_blen r) as Hb.
  assert (Hok : len_ok (blen (int_octets r))) by (unfold len_ok; assert (1001 < 256 ^ 127) by reflexivity; lia).
  destruct (sd_encode_length _) as [l|] eqn:El; [|discriminate]. cbn [bind].
  intro H; apply Ok_inj in H; subst e. pose proof (encode_length_blen _ _ Hok El).
  rewrite !blen_app. change (blen [x02]) with 1. lia.
Qed.

Section DerSig.
  Variable n : Z.
  Variable r s : N.
  Hypothesis Hr : small r.
  Hypothesis Hs : small s.

  (* decode (encode (r, s)) = (r, s); anything appended is rejected *)
  Theorem sigdecode_der_encode e junk :
    sigencode_der (Z.of_N r) (Z.of_N s) n = Ok e ->
    sigdecode_der (e ++ junk) n =
      match junk with [] => SOk (Z.of_N r, Z.of_N s) | _ => SErr (SBase EUnexpectedDER) end.
  Proof.
    unfold sigencode_der.
    destruct (sd_encode_integer (Z.of_N r)) as [a|] eqn:Ea; [|discriminate]. cbn [bind].
    destruct (sd_encode_integer (Z.of_N s)) as [b|] eqn:Eb; [|discriminate]. cbn [bind].
    unfold sd_encode_sequence. cbn [concat]. rewrite app_nil_r.
    pose proof (encode_integer_blen r a Hr Ea) as La. pose proof (encode_integer_blen s b Hs Eb) as Lb.
    assert (K : 2260 < 256 ^ 127) by reflexivity.
    assert (Hok : len_ok (blen (a ++ b))) by (unfold len_ok; rewrite blen_app; lia).
    destruct (sd_encode_length (blen (a ++ b))) as [l|] eqn:El; [|discriminate]. cbn [bind].
    intro H; apply Ok_inj in H; subst e.
    unfold sigdecode_der.
    replace (([x30] ++ l ++ a ++ b) ++ junk) with ([x30] ++ l ++ (a ++ b) ++ junk)
      by (rewrite <- !app_assoc; reflexivity).
    rewrite (remove_sequence_encode (a ++ b) l junk Hok El). cbn [bind].
    destruct junk as [|j0 junk']; [|reflexivity]. cbn [nonempty].
    pose proof (small_nbytes r Hr). pose proof (small_nbytes s Hs).
    assert (K2 : 1001 < 256 ^ 127) by reflexivity.
    rewrite (remove_integer_encode r a b ltac:(unfold len_ok; lia) Ea). cbn [bind].
    rewrite <- (app_nil_r b).
    rewrite (remove_integer_encode s b [] ltac:(unfold len_ok; lia) Eb). cbn [bind nonempty lift].
    reflexivity.
  Qed.

  Theorem sigencode_der_total : exists e, sigencode_der (Z.of_N r) (Z.of_N s) n = Ok e.
  Proof.
    unfold sigencode_der.
    assert (K2 : 1001 < 256 ^ 127) by reflexivity. assert (K : 2260 < 256 ^ 127) by reflexivity.
    assert (T : forall v, small v -> exists a, sd_encode_integer (Z.of_N v) = Ok a).
    { intros v Hv. rewrite encode_integer_shape by lia. pose proof (small_nbytes v Hv).
      pose proof (int_octets_blen v).
      destruct (encode_length_total (blen (int_octets v)) ltac:(unfold len_ok; lia)) as [l ->].
      cbn [bind]. eexists; reflexivity. }
    destruct (T r Hr) as [a Ea]. destruct (T s Hs) as [b Eb]. rewrite Ea, Eb. cbn [bind].
    unfold sd_encode_sequence. cbn [concat]. rewrite app_nil_r.
    pose proof (encode_integer_blen r a Hr Ea). pose proof (encode_integer_blen s b Hs Eb).
    destruct (encode_length_total (blen (a ++ b)) ltac:(unfold len_ok; rewrite blen_app; lia)) as [l ->].
    cbn [bind]. eexists; reflexivity.
  Qed.
End DerSig.

(* every failure of the DER decoder is UnexpectedDER *)
Theorem sigdecode_der_errors b n e : sigdecode_der b n = SErr e -> e = SBase EUnexpectedDER.
Proof.
  unfold sigdecode_der.
  destruct (sd_remove_sequence b) as [[rs empty]|e1] eqn:E1; cbn [bind lift].
  2:{ intro H. apply remove_sequence_error in E1. subst. inversion H. reflexivity. }
  destruct (nonempty empty); [intro H; inversion H; reflexivity|].
  destruct (sd_remove_integer rs) as [[r rest]|e2] eqn:E2; cbn [bind lift].
  2:{ intro H. apply remove_integer_error in E2. subst. inversion H. reflexivity. }
  destruct (sd_remove_integer rest) as [[s empty2]|e3] eqn:E3; cbn [bind lift].
  2:{ intro H. apply remove_integer_error in E3. subst. inversion H. reflexivity. }
  destruct (nonempty empty2); [intro H; inversion H; reflexivity | discriminate].
Qed.

(* DER is canonical: the decoder accepts b only if b is THE encoding of what it
   returns (so non-minimal lengths, padded integers, negative integers, trailing
   or embedded junk, truncations and extensions are all rejected) *)
Theorem sigdecode_der_exact b n r s : sigdecode_der b n = SOk (r, s) ->
  sigencode_der r s n = Ok b /\ (0 <= r)%Z /\ (0 <= s)%Z.
Proof.
  unfold sigdecode_der.
  destruct (sd_remove_sequence b) as [[rs empty]|e1] eqn:E1; cbn [bind lift]; [|discriminate].
  destruct (nonempty empty) eqn:N1; [discriminate|]. apply nonempty_false in N1. subst empty.
  destruct (sd_remove_integer rs) as [[r' rest]|e2] eqn:E2; cbn [bind lift]; [|discriminate].
  destruct (sd_remove_integer rest) as [[s' empty2]|e3] eqn:E3; cbn [bind lift]; [|discriminate].
  destruct (nonempty empty2) eqn:N2; [discriminate|]. apply nonempty_false in N2. subst empty2.
  cbn [lift]. intro H. assert (r' = r) by congruence. assert (s' = s) by congruence. subst r' s'. clear H.
  apply remove_sequence_exact in E1 as (l & El & Hb).
  apply remove_integer_exact in E2 as (ea & Ea & Hrs & Hr0).
  apply remove_integer_exact in E3 as (eb & Eb & Hrest & Hs0).
  split; [|split; assumption].
  unfold sigencode_der. rewrite Ea, Eb. cbn [bind]. unfold sd_encode_sequence. cbn [concat].
  rewrite app_nil_r in *. subst rest. rewrite <- Hrs, El. cbn [bind]. rewrite Hb. reflexivity.
Qed.

(* ------------------------------------------------------------------------ *)
(* canonisation *)
Open Scope Z_scope.

Theorem canonize_cases s n s' : canonize s n = Ok s' ->
  (s' = s /\ 2 * s <= float_twice_half n) \/ (s' = n - s /\ float_twice_half n < 2 * s).
Proof.
  unfold canonize, gt_half. destruct (_ <=? Z.abs _); [discriminate|]. cbn [bind].
  destruct (float_twice_half n <? 2 * s) eqn:C; intro H; apply Ok_inj in H; subst s'.
  - right. apply Z.ltb_lt in C. auto.
  - left. apply Z.ltb_ge in C. auto.
Qed.

(* the low-s bound actually enforced: n/2 up to the rounding error of the float *)
Theorem canonize_bound s n s' : canonize s n = Ok s' ->
  2 * s' <= n + Z.abs (n - float_twice_half n).
Proof. intro H. apply canonize_cases in H as [[-> H]|[-> H]]; lia. Qed.

Lemma shift_parts x sh : 0 <= x -> 0 <= sh ->
  x = Z.shiftl (Z.shiftr x sh) sh + x mod 2 ^ sh.
Proof.
  intros Hx Hs. rewrite Z.shiftl_mul_pow2, Z.shiftr_div_pow2 by lia.
  pose proof (Z.div_mod x (2 ^ sh) ltac:(apply Z.pow_nonzero; lia)). lia.
Qed.

(* rounding to 53 significant bits moves an integer by at most half an ulp *)
Lemma round53_error x : 0 <= x ->
  (bit_length x <= 53 -> round53 x = x) /\
  (53 < bit_length x -> Z.abs (x - round53 x) <= 2 ^ (bit_length x - 54)).
Proof.
  intro Hx. unfold round53. split; intro Hb.
  - apply Z.leb_le in Hb. rewrite Hb. reflexivity.
  - replace (bit_length x <=? 53) with false by (symmetry; apply Z.leb_gt; lia).
    set (sh := bit_length x - 53). assert (Hsh : 1 <= sh) by (unfold sh; lia).
    pose proof (shift_parts x sh Hx ltac:(lia)) as Hp.
    set (q := Z.shiftr x sh) in *.
    replace (x - Z.shiftl q sh) with (x mod 2 ^ sh) by lia.
    pose proof (Z.mod_pos_bound x (2 ^ sh) ltac:(apply Z.pow_pos_nonneg; lia)) as Hm.
    set (rem := x mod 2 ^ sh) in *.
    rewrite (Z.shiftl_mul_pow2 1) by lia. rewrite Z.mul_1_l.
    replace (bit_length x - 54) with (sh - 1) by (unfold sh; lia).
    assert (H2 : 2 ^ sh = 2 * 2 ^ (sh - 1)).
    { replace sh with (Z.succ (sh - 1)) at 1 by lia. rewrite Z.pow_succ_r by lia. reflexivity. }
    set (half := 2 ^ (sh - 1)) in *.
    rewrite !Z.shiftl_mul_pow2 in * by lia.
    destruct (half <? rem) eqn:C1.
    + apply Z.ltb_lt in C1. lia.
    + apply Z.ltb_ge in C1. destruct (rem =? half) eqn:C2.
      * apply Z.eqb_eq in C2. destruct (Z.odd q); lia.
      * apply Z.eqb_neq in C2. lia.
Qed.

Theorem canonize_low_s s n s' : 0 < n -> canonize s n = Ok s' ->
  (bit_length n <= 53 -> 2 * s' <= n) /\
  (53 < bit_length n -> 2 * s' <= n + 2 ^ (bit_length n - 54)).
Proof.
  intros Hn H. apply canonize_bound in H. unfold float_twice_half in H.
  replace (0 <=? n) with true in H by (symmetry; apply Z.leb_le; lia).
  destruct (round53_error n ltac:(lia)) as [R1 R2]. split; intro Hb.
  - rewrite R1 in H by exact Hb. lia.
  - specialize (R2 Hb). lia.
Qed.

Theorem canonize_total s n : 0 < n -> bit_length n <= 1024 -> exists s', canonize s n = Ok s'.
Proof.
  intros Hn Hb. unfold canonize, gt_half, float_twice_half.
  replace (0 <=? n) with true by (symmetry; apply Z.leb_le; lia).
  assert (Hr : Z.abs (round53 n) < Z.shiftl 1 1025).
  { rewrite Z.shiftl_mul_pow2, Z.mul_1_l by lia.
    pose proof (bit_length_pos n Hn) as Hl. pose proof (Z.log2_spec n Hn) as [_ Hu].
    assert (n < 2 ^ 1024).
    { eapply Z.lt_le_trans; [exact Hu|]. apply Z.pow_le_mono_r; lia. }
    destruct (round53_error n ltac:(lia)) as [R1 R2].
    destruct (Z_le_gt_dec (bit_length n) 53) as [A|A].
    - rewrite R1 by exact A. change (2 ^ 1025) with (2 * 2 ^ 1024). lia.
    - specialize (R2 ltac:(lia)).
      assert (2 ^ (bit_length n - 54) <= 2 ^ 1024) by (apply Z.pow_le_mono_r; lia).
      change (2 ^ 1025) with (2 * 2 ^ 1024). lia. }
  replace (Z.shiftl 1 1025 <=? Z.abs (round53 n)) with false by (symmetry; apply Z.leb_gt; exact Hr).
  cbn [bind]. eexists; reflexivity.
Qed.

(* ------------------------------------------------------------------------ *)
(* each encoder is inverted by its decoder on in-range signatures *)

Definition sigdecode_strings_pair (p : bytes * bytes) (n : Z) : sres (Z * Z) :=
  sigdecode_strings [fst p; snd p] n.     (* the 2-tuple returned by sigencode_strings *)

Lemma codec_string n r s b : 1 <= r <= n - 1 -> 1 <= s <= n - 1 ->
  sigencode_string r s n = Ok b -> sigdecode_string b n = SOk (r, s).
Proof.
  intros Hr Hs. rewrite (sigencode_string_ok n r s ltac:(lia) ltac:(lia)).
  intro H; apply Ok_inj in H; subst b. apply sigdecode_string_encode; lia.
Qed.

Lemma codec_strings n r s b : 1 <= r <= n - 1 -> 1 <= s <= n - 1 ->
  sigencode_strings r s n = Ok b -> sigdecode_strings_pair b n = SOk (r, s).
Proof.
  intros Hr Hs. rewrite (sigencode_strings_ok n r s ltac:(lia) ltac:(lia)).
  intro H; apply Ok_inj in H; subst b. unfold sigdecode_strings_pair. cbn [fst snd].
  apply sigdecode_strings_encode; lia.
Qed.

Lemma small_of_order n v : n <= 256 ^ 1000 -> 0 <= v < n -> small (Z.to_N v).
Proof.
  intros Hn Hv. unfold small. apply N2Z.inj_lt. rewrite Z2N.id by lia.
  change (Z.of_N (256 ^ 1000)) with (256 ^ 1000). lia.
Qed.

Lemma codec_der n r s b : n <= 256 ^ 1000 -> 1 <= r <= n - 1 -> 1 <= s <= n - 1 ->
  sigencode_der r s n = Ok b -> sigdecode_der b n = SOk (r, s).
Proof.
  intros Hn Hr Hs He.
  pose proof (sigdecode_der_encode n (Z.to_N r) (Z.to_N s)
                (small_of_order n r Hn ltac:(lia)) (small_of_order n s Hn ltac:(lia)) b []) as H.
  rewrite !Z2N.id, app_nil_r in H by lia. exact (H He).
Qed.

Lemma codec_canon {S} (enc : Z -> Z -> Z -> result S) (dec : S -> Z -> sres (Z * Z)) n :
  (forall r s b, 1 <= r <= n - 1 -> 1 <= s <= n - 1 -> enc r s n = Ok b -> dec b n = SOk (r, s)) ->
  forall r s b, 1 <= r <= n - 1 -> 1 <= s <= n - 1 ->
    (let* s' := canonize s n in enc r s' n) = Ok b ->
    dec b n = SOk (r, s) \/ dec b n = SOk (r, n - s).
Proof.
  intros Hc r s b Hr Hs. destruct (canonize s n) as [s'|] eqn:E; [|discriminate]. cbn [bind].
  intro He. apply canonize_cases in E as [[-> _]|[-> _]].
  - left. apply Hc; assumption.
  - right. apply Hc; try assumption. lia.
Qed.

Section Encoded.
  Variable point : Type.
  Variable padd : point -> point -> point.
  Variable smul : Z -> point -> point.
  Variable xcoord : point -> option Z.
  Variable G : point.
  Variable n : Z.
  Variable infinity : point.
  Hypothesis GL : group_laws point padd smul xcoord G n infinity.

  Let complete {S} := @verify_sign_digest point padd smul xcoord G n infinity
    (gl_prime _ _ _ _ _ _ _ GL) (gl_smul_add _ _ _ _ _ _ _ GL) (gl_smul_mul _ _ _ _ _ _ _ GL)
    (gl_order _ _ _ _ _ _ _ GL) (gl_smul_inf _ _ _ _ _ _ _ GL) (gl_padd_inf _ _ _ _ _ _ _ GL) S.
  Let complete_canon {S} := @verify_sign_digest_canon point padd smul xcoord G n infinity
    (gl_prime _ _ _ _ _ _ _ GL) (gl_smul_add _ _ _ _ _ _ _ GL) (gl_smul_mul _ _ _ _ _ _ _ GL)
    (gl_order _ _ _ _ _ _ _ GL) (gl_smul_inf _ _ _ _ _ _ _ GL) (gl_padd_inf _ _ _ _ _ _ _ GL)
    (gl_x_neg _ _ _ _ _ _ _ GL) S.

  Notation SIGN enc := (sign_digest point smul xcoord G n enc).
  Notation VERIFY dec := (verify_digest point padd smul xcoord G n dec).

  Theorem complete_string d digest k allow sig :
    SIGN sigencode_string d digest k allow = SOk sig ->
    VERIFY sigdecode_string (smul d G) sig digest allow = SOk true.
  Proof. apply complete. intros r s b. apply codec_string. Qed.

  Theorem complete_strings d digest k allow sig :
    SIGN sigencode_strings d digest k allow = SOk sig ->
    VERIFY sigdecode_strings_pair (smul d G) sig digest allow = SOk true.
  Proof. apply complete. intros r s b. apply codec_strings. Qed.

  Theorem complete_der d digest k allow sig : n <= 256 ^ 1000 ->
    SIGN sigencode_der d digest k allow = SOk sig ->
    VERIFY sigdecode_der (smul d G) sig digest allow = SOk true.
  Proof. intro Hn. apply complete. intros r s b. apply codec_der. exact Hn. Qed.

  Theorem complete_string_canonize d digest k allow sig :
    SIGN sigencode_string_canonize d digest k allow = SOk sig ->
    VERIFY sigdecode_string (smul d G) sig digest allow = SOk true.
  Proof. apply complete_canon. apply (codec_canon sigencode_string). intros r s b. apply codec_string. Qed.

  Theorem complete_strings_canonize d digest k allow sig :
    SIGN sigencode_strings_canonize d digest k allow = SOk sig ->
    VERIFY sigdecode_strings_pair (smul d G) sig digest allow = SOk true.
  Proof. apply complete_canon. apply (codec_canon sigencode_strings). intros r s b. apply codec_strings. Qed.

  Theorem complete_der_canonize d digest k allow sig : n <= 256 ^ 1000 ->
    SIGN sigencode_der_canonize d digest k allow = SOk sig ->
    VERIFY sigdecode_der (smul d G) sig digest allow = SOk true.
  Proof.
    intro Hn. apply complete_canon. apply (codec_canon sigencode_der). intros r s b. apply codec_der. exact Hn.
  Qed.
End Encoded.

(* a changed encoding never decodes to the same signature *)
Theorem sigdecode_der_inj b b' n p : sigdecode_der b n = SOk p -> sigdecode_der b' n = SOk p -> b = b'.
Proof.
  destruct p as [r s]. intros H1 H2.
  apply sigdecode_der_exact in H1 as [H1 _]. apply sigdecode_der_exact in H2 as [H2 _]. congruence.
Qed.

Theorem sigdecode_string_inj b b' n p : 0 <= n ->
  sigdecode_string b n = SOk p -> sigdecode_string b' n = SOk p -> b = b'.
Proof.
  destruct p as [r s]. intros Hn H1 H2.
  apply sigdecode_string_exact in H1 as [H1 _]; [|exact Hn].
  apply sigdecode_string_exact in H2 as [H2 _]; [|exact Hn]. congruence.
Qed.
