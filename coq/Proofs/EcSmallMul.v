(* C17 - small prime-order curves, continued (separate file so that the enumerations
   compile in parallel): __mul__ on every point x scaling x scalar 0..3n *)
From Coq Require Import List Bool ZArith Lia.
From Bec2 Require Import Base.Result Base.Modp Gen.EcFormulas Model.Ec Proofs.EcSmall.
Import ListNotations.
Open Scope Z_scope.

(* every point x scaling x scalar 0..3n: __mul__ with/without order, generator table or NAF *)
Definition enum_mul (c : small_curve) : bool :=
  let p := s_p c in let a := s_a c in let n := s_n c in let pts := s_pts c in
  forallb (fun P => forallb (fun J =>
    forallb (fun k =>
      let want := nmul (aff_add p a) (Z.to_nat k) P in
      res_pt_eqb p (opt_to_aff p (pj_mul p a 0 false J k)) want &&
      res_pt_eqb p (opt_to_aff p (pj_mul p a n false J k)) want &&
      match P with
      | Some _ => res_pt_eqb p (opt_to_aff p (pj_mul p a n true J k)) want
      | None => true
      end) (Zrange 0 (3 * n + 1))) (scalings p P)) pts.

Lemma small_enum_mul : forallb enum_mul enum_curves = true.
Proof. vm_cast_no_check (eq_refl true). Qed.
