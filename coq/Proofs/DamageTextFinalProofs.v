(* C04: the text cut short at ANY point - full strength.  The one case left open by
   DamageTextProofs.text_prefix (cut through the last hex pair) is a replacement of the last
   payload byte x by x / 16 <> x, which the payload MAC always detects when one replaced
   byte changes the tag (DamageByteProofs / DamageCbcProofs). *)
From Coq Require Import List Bool NArith ZArith Lia.
From Coq Require Import Init.Byte.
From Bec2 Require Import Base.Result Base.Bytes Base.Reader Gen.Consts Model.Bf3 Model.Damage
  Proofs.Bf3Proofs Proofs.Bf3TextProofs Proofs.DamageProofs Proofs.DamageStructProofs
  Proofs.DamageReductionProofs Proofs.DamageTextProofs Proofs.DamageByteProofs.
Import ListNotations.
Open Scope N_scope.

Lemma high_nibble_differs x : x <> x00 -> n2b (b2n x / 16) <> x.
Proof.
  intros Hx H. apply Hx. apply b2n_inj. change (b2n x00) with 0.
  apply (f_equal b2n) in H. pose proof (b2n_lt x) as Hlt.
  rewrite b2n_n2b_small in H.
  - destruct (N.eq_dec (b2n x) 0) as [E|E]; [exact E|].
    pose proof (N.div_lt (b2n x) 16 ltac:(lia) ltac:(lia)). lia.
  - apply N.le_lt_trans with (b2n x); [|exact Hlt]. apply N.div_le_upper_bound; lia.
Qed.

Section TextFinal.
  Variable enc dec mac : bytes -> option bytes -> bytes -> result bytes.
  Hypothesis mac_len : forall k iv d m, d <> [] -> mac k iv d = Ok m -> blen m = 16.
  Hypothesis enc_len : forall k d c, blen d mod 16 = 0 -> enc k None d = Ok c -> blen c = blen d.
  Hypothesis dec_enc : forall k d c, blen d mod 16 = 0 -> enc k None d = Ok c -> dec k None c = Ok d.
  Hypothesis mac_byte : forall k iv u x y v t,
    mac k iv (u ++ x :: v) = Ok t -> mac k iv (u ++ y :: v) = Ok t -> x = y.

  (* the last byte of an authentic binary replaced by anything else *)
  Lemma last_byte_rejected cs off k b b1 x y :
    Forall wf_comp cs -> to_binary enc mac cs off k = Ok b -> b = b1 ++ [x] -> x <> x00 -> y <> x ->
    exists e, from_binary dec mac (mkR (b1 ++ [y]) off) true k = Err e.
  Proof.
    intros Hwf Hw Hb Hx Hy.
    destruct cs as [|c0 cs0].
    - (* no component: the binary ends with the sentinel *)
      exfalso. destruct (to_binary_layout enc mac mac_len enc_len _ _ _ _ Hwf Hw) as [db [pb [Hd [Hp [_ Hb']]]]].
      cbn in Hd, Hp. inversion Hd; inversion Hp; subst db pb. rewrite Hb' in Hb.
      change (be 4 (blen (@nil byte) + 1) ++ ([] ++ [x00]) ++ []) with ((be 4 1) ++ [x00]) in Hb.
      apply app_inj_tail in Hb as [_ Hx0]. apply Hx. symmetry. exact Hx0.
    - destruct (exists_last (l := c0 :: cs0) ltac:(discriminate)) as [cs1 [c Hcs]]. rewrite Hcs in *.
      destruct (to_binary_at enc mac mac_len enc_len cs1 c [] off k b Hwf Hw)
        as [d1 [d2 [p1 [p2 [raw [pmac [tags [emac [adr0 [L Hb']]]]]]]]]].
      pose proof (cl_p2 _ _ _ _ _ _ _ _ _ _ _ _ _ _ _ _ L) as Hp2. cbn in Hp2. inversion Hp2; subst p2.
      destruct (exists_last (cl_rawne _ _ _ _ _ _ _ _ _ _ _ _ _ _ _ _ L)) as [u [x' Hraw]].
      rewrite Hb' in Hb. rewrite Hraw in Hb at 2.
      unfold file_of in Hb. rewrite app_nil_r in Hb. rewrite !app_assoc in Hb.
      apply app_inj_tail in Hb as [Hb1 Hxx]. subst x'.
      destruct (payload_byte_rejected enc dec mac mac_len enc_len dec_enc mac_byte
                  _ _ _ _ _ _ _ _ _ _ _ _ _ _ u x [] y L Hraw Hy) as [e He].
      exists e. rewrite <- He. f_equal. f_equal. rewrite <- Hb1. unfold file_of.
      rewrite app_nil_r, <- !app_assoc. reflexivity.
  Qed.

  (* every proper prefix of the written text is rejected or yields exactly the original content
     (the latter only when nothing but line breaks - or the second "0" of a final "00" - is lost) *)
  Theorem text_prefix_full f k t p s :
    wf_file f -> write_file enc mac f k = Ok t -> t = p ++ s -> s <> [] ->
    (exists e, read_file dec mac p true k = Err e) \/ read_file dec mac p true k = Ok (file_view f).
  Proof.
    intros Hwf Hw Ht Hs.
    destruct (text_prefix enc dec mac mac_len enc_len dec_enc f k t p s true Hwf Hw Ht Hs)
      as [H|[H|[b [r1 [x [Hb [Hraw [Hx Hrd]]]]]]]]; [left; exact H|right; exact H|].
    left. rewrite Hrd. clear Hrd. destruct Hwf as [_ Hcs].
    (* r1 starts with the signature: the binary b has at least 5 bytes *)
    destruct (to_binary_layout enc mac mac_len enc_len _ _ _ _ Hcs Hb) as [db [pb [_ [_ [_ Hlay]]]]].
    apply app_eq_app in Hraw as [l [[Hsig Hrest]|[Hr1 Hbb]]].
    - exfalso. destruct l as [|c0 l].
      + cbn [app] in Hrest. rewrite Hlay in Hrest. apply (f_equal (@length byte)) in Hrest.
        rewrite !app_length, be_length in Hrest. simpl in Hrest. lia.
      + cbn [app] in Hrest. injection Hrest as _ Hrest. rewrite Hlay in Hrest.
        apply (f_equal (@length byte)) in Hrest. rewrite !app_length, be_length in Hrest.
        destruct l; simpl in Hrest; lia.
    - subst r1. rewrite <- app_assoc, read_binary_sig.
      destruct (last_byte_rejected (f_comps f) _ k b l x (n2b (b2n x / 16)) Hcs Hb Hbb Hx (high_nibble_differs x Hx))
        as [e He].
      rewrite He. exists e. reflexivity.
  Qed.
End TextFinal.
