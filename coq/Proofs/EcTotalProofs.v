(* C17 - totality of the hand models: under the group-law hypothesis the fuelled loops
   (extended Euclid of inverse_mod, the table construction of _maybe_precompute, _naf) never
   run out of fuel and inverse_mod never fails, so pj_mul / pubkey_of / ecdh_shared return
   `Ok _` (the premise of the partial-correctness theorems of EcMulProofs is satisfiable
   for every input of the property). *)
From Coq Require Import List Bool ZArith Lia Znumtheory.
From Bec2 Require Import Base.Result Base.Modp Gen.EcFormulas Model.Ec
  Proofs.EcFormulaProofs Proofs.EcNafProofs Proofs.EcMulProofs.
Import ListNotations.
Open Scope Z_scope.

(* ---- extended Euclid ---- *)

Lemma egcd_terminates : forall f lm low hm high,
  0 <= low < high -> low * high < 2 ^ Z.of_nat f ->
  exists r, egcd_loop (S f) lm low hm high = Ok r.
Proof.
  induction f as [|f IH]; intros lm low hm high Hlh Hprod.
  - cbn [egcd_loop]. assert (low = 0) by (cbn in Hprod; nia). subst. cbn. eexists; reflexivity.
  - cbn [egcd_loop]. destruct (Z.ltb_spec 1 low) as [H1|H1]; [|eexists; reflexivity].
    assert (E : high - low * (high / low) = high mod low) by (rewrite Z.mod_eq by lia; reflexivity).
    rewrite E. pose proof (Z.mod_pos_bound high low ltac:(lia)) as B.
    apply IH; [lia|].
    pose proof (Z.div_mod high low ltac:(lia)) as D.
    assert (Q : 1 <= high / low) by (apply Z.div_le_lower_bound; lia).
    rewrite Nat2Z.inj_succ, Z.pow_succ_r in Hprod by lia.
    nia.
Qed.

Lemma egcd_gcd1 : forall f lm low hm high r,
  egcd_loop f lm low hm high = Ok r -> 1 <= low < high -> Z.gcd low high = 1 -> snd r = 1.
Proof.
  induction f as [|f IH]; intros lm low hm high r E Hlh Hg; [discriminate E|].
  cbn [egcd_loop] in E. destruct (Z.ltb_spec 1 low) as [H1|H1].
  - assert (Em : high - low * (high / low) = high mod low) by (rewrite Z.mod_eq by lia; reflexivity).
    rewrite Em in E. pose proof (Z.mod_pos_bound high low ltac:(lia)) as B.
    apply IH in E; [exact E| |].
    + assert (high mod low <> 0); [|lia].
      intro K. apply Zmod_divide in K; [|lia].
      assert (G : Z.gcd low high = low).
      { apply Z.divide_gcd_iff; [lia|exact K]. }
      lia.
    + rewrite Z.gcd_mod by lia. exact Hg.
  - injection E as <-. cbn. lia.
Qed.

Lemma pow2_log2_sq m : 0 < m -> m * m < 2 ^ Z.of_nat (2 * Z.to_nat (Z.log2 m) + 3).
Proof.
  intro H. pose proof (Z.log2_nonneg m). pose proof (Z.log2_spec m H) as [_ U].
  replace (Z.of_nat (2 * Z.to_nat (Z.log2 m) + 3)) with (Z.succ (Z.log2 m) + Z.succ (Z.log2 m) + 1) by lia.
  rewrite !Z.pow_add_r by lia. change (2 ^ 1) with 2.
  assert (0 < 2 ^ Z.succ (Z.log2 m)) by (apply Z.pow_pos_nonneg; lia). nia.
Qed.

Theorem inverse_mod_total m z : prime m -> ~ eqm m z 0 -> exists i, inverse_mod z m = Ok i.
Proof.
  intros Hp Hz. pose proof (prime_ge_2 _ Hp) as H2.
  unfold inverse_mod. destruct (Z.eqb_spec z 0) as [->|Hz0]; [eexists; reflexivity|].
  assert (Hl : 1 <= z mod m < m).
  { pose proof (Z.mod_pos_bound z m ltac:(lia)). assert (z mod m <> 0); [|lia].
    intro K. apply Hz. apply eqm_0_iff. exact K. }
  assert (Hg : Z.gcd (z mod m) m = 1).
  { apply Zgcd_1_rel_prime. destruct Hp as [_ Hrel]. apply Hrel. exact Hl. }
  unfold egcd_fuel. replace (2 * Z.to_nat (Z.log2 m) + 4)%nat with (S (2 * Z.to_nat (Z.log2 m) + 3)) by lia.
  destruct (egcd_terminates (2 * Z.to_nat (Z.log2 m) + 3) 1 (z mod m) 0 m ltac:(lia)) as [[lm low] E].
  { pose proof (pow2_log2_sq m ltac:(lia)). nia. }
  rewrite E. cbn [bind].
  pose proof (egcd_gcd1 _ _ _ _ _ _ E Hl Hg) as E1. cbn [snd] in E1. subst low.
  cbn. eexists; reflexivity.
Qed.

(* ---- scale, x(), y() ---- *)

Section Total.
Variables p a : Z.
Variable inG : pt -> Prop.
Variable gadd : pt -> pt -> pt.
Variable gneg : pt -> pt.
Hypothesis GH : ec_group p a inG gadd gneg.
Notation zmul := (zmul gadd gneg).

Let Hp : prime p := g_prime _ _ _ _ _ GH.

Lemma scale_total X Y Zc : (~ eqm p Zc 0 \/ Zc = 0) -> exists J', pj_scale p (X, Y, Zc) = Ok J'.
Proof.
  intro H. unfold pj_scale. destruct (Zc =? 1); [eexists; reflexivity|].
  destruct H as [H| ->].
  - destruct (inverse_mod_total p Zc Hp H) as [i E]. rewrite E. cbn [bind]. eexists; reflexivity.
  - rewrite inverse_mod_0. cbn [bind]. eexists; reflexivity.
Qed.

Lemma scale_total_repr J Q : jrepr p J Q -> (Q = None -> jY J <> 0) -> exists J', pj_scale p J = Ok J'.
Proof.
  destruct J as [[X Y] Zc]. intros HJ HY. apply scale_total.
  destruct Q as [q|].
  - left. destruct HJ as [HZ _]. exact HZ.
  - right. cbn in HJ. specialize (HY eq_refl). unfold jY in HY; cbn [fst snd] in HY. tauto.
Qed.

Lemma x_total X Y Zc : ~ eqm p Zc 0 -> exists v, pj_x p (X, Y, Zc) = Ok v.
Proof.
  intro H. unfold pj_x. destruct (Zc =? 1); [eexists; reflexivity|].
  destruct (inverse_mod_total p Zc Hp H) as [i E]. rewrite E. cbn [bind]. eexists; reflexivity.
Qed.

Lemma y_total X Y Zc : ~ eqm p Zc 0 -> exists v, pj_y p (X, Y, Zc) = Ok v.
Proof.
  intro H. unfold pj_y. destruct (Zc =? 1); [eexists; reflexivity|].
  destruct (inverse_mod_total p Zc Hp H) as [i E]. rewrite E. cbn [bind]. eexists; reflexivity.
Qed.

(* ---- _maybe_precompute ---- *)

Lemma precompute_loop_S f i order doubler acc :
  precompute_loop (S f) p a i order doubler acc =
  if i <? order then
    match pj_double_pt p a doubler with
    | None => Err EType
    | Some d => let* (x, y, z) := pj_scale p d in
                precompute_loop f p a (i * 2) order (x, y, z) (acc ++ [(x, y)])
    end
  else Ok acc.
Proof. reflexivity. Qed.

Lemma precompute_loop_total G : inG G -> (forall j, 0 <= j -> zmul (2 ^ j) G <> None) ->
  forall f i order doubler acc,
  0 < i -> (exists j, 0 <= j /\ i = 2 ^ j) -> order <= i * 2 ^ Z.of_nat f ->
  jrepr p doubler (zmul i G) ->
  exists table, precompute_loop (S f) p a i order doubler acc = Ok table.
Proof.
  intros HG Hfin. induction f as [|f IH]; intros i order doubler acc Hi [j [Hj Ej]] Hb HD.
  - cbn [precompute_loop]. replace (i <? order) with false; [eexists; reflexivity|].
    symmetry. apply Z.ltb_ge. cbn in Hb. lia.
  - rewrite precompute_loop_S. destruct (i <? order); [|eexists; reflexivity].
    destruct doubler as [[X1 Y1] Z1].
    assert (GI : inG (zmul i G)) by (apply (zmul_closed p a inG gadd gneg GH); exact HG).
    assert (Fi : zmul i G <> None) by (rewrite Ej; apply Hfin; exact Hj).
    destruct (zmul i G) as [[xi yi]|] eqn:Ei; [|contradiction].
    destruct (fin_facts p a inG gadd gneg GH _ _ _ _ _ GI HD) as [_ [_ [_ [HY0 _]]]].
    unfold pj_double_pt. apply Z.eqb_neq in HY0. rewrite HY0.
    pose proof (double_correct p a inG gadd gneg GH X1 Y1 Z1 _ GI HD) as HDD.
    rewrite <- Ei in HDD. rewrite (zmul_double p a inG gadd gneg GH) in HDD by exact HG.
    assert (G2 : inG (zmul (2 * i) G)) by (apply (zmul_closed p a inG gadd gneg GH); exact HG).
    assert (F2 : zmul (2 * i) G <> None).
    { rewrite Ej. replace (2 * 2 ^ j) with (2 ^ (Z.succ j)) by (rewrite Z.pow_succ_r by lia; reflexivity).
      apply Hfin. lia. }
    unfold wrap. destruct (is_inf (pj_double X1 Y1 Z1 p a)) eqn:EI.
    { apply (jrepr_is_inf p a inG gadd gneg GH _ _ G2 HDD) in EI. contradiction. }
    destruct (scale_total_repr _ _ HDD ltac:(intro K; contradiction)) as [[[x y] z] ES].
    rewrite ES. unfold bind. cbv beta match.
    destruct (scale_correct p a inG gadd gneg GH _ _ _ HDD ES) as [HS _].
    apply IH.
    + lia.
    + exists (Z.succ j). split; [lia|]. rewrite Ej, Z.pow_succ_r by lia. lia.
    + rewrite Nat2Z.inj_succ, Z.pow_succ_r in Hb by lia. lia.
    + replace (i * 2) with (2 * i) by lia. exact HS.
Qed.

Lemma precompute_total G J ord : inG G -> (forall j, 0 <= j -> zmul (2 ^ j) G <> None) ->
  jrepr p J G -> 0 < ord ->
  exists table, pj_precompute p a ord J = Ok table.
Proof.
  intros HG Hfin HJ Ho. unfold pj_precompute.
  replace (ord =? 0) with false by (symmetry; apply Z.eqb_neq; lia).
  assert (F1 : zmul 1 G <> None) by (apply (Hfin 0); lia).
  rewrite (zmul_1 p a inG gadd gneg GH) in F1.
  destruct G as [[gx gy]|]; [|contradiction].
  destruct J as [[X Y] Zc]. pose proof HJ as [HZ _].
  destruct (x_total X Y Zc HZ) as [x EX]. destruct (y_total X Y Zc HZ) as [y EY].
  rewrite EX, EY. cbn [bind].
  replace (Z.to_nat (Z.log2 (ord * 4)) + 3)%nat with (S (Z.to_nat (Z.log2 (ord * 4)) + 2)) by lia.
  apply (precompute_loop_total (Some (gx, gy)) HG Hfin).
  - lia.
  - exists 0. split; [lia|reflexivity].
  - pose proof (Z.log2_spec (ord * 4) ltac:(lia)) as [_ U]. pose proof (Z.log2_nonneg (ord * 4)).
    rewrite Nat2Z.inj_add, Z2Nat.id by lia. rewrite Z.mul_1_l.
    rewrite Z.pow_add_r by lia. assert (0 < 2 ^ Z.log2 (ord * 4)) by (apply Z.pow_pos_nonneg; lia).
    rewrite Z.pow_succ_r in U by lia. change (2 ^ Z.of_nat 2) with 4. lia.
  - rewrite (zmul_1 p a inG gadd gneg GH). exact HJ.
Qed.

(* ---- __mul__, key derivation, ECDH ---- *)

Theorem mul_total J Q ord gen k :
  inG Q -> jrepr p J Q -> 0 <= k -> 0 <= ord ->
  (gen = true -> 0 < ord /\ forall j, 0 <= j -> zmul (2 ^ j) Q <> None) ->
  exists r, pj_mul p a ord gen J k = Ok r.
Proof.
  intros HG HJ Hk Ho0 Hgen. destruct J as [[X Y] Zc]. unfold pj_mul.
  destruct (Z.eqb_spec Y 0) as [->|HY]; [eexists; reflexivity|]. cbn [orb].
  destruct (k =? 0); [eexists; reflexivity|].
  destruct (k =? 1); [eexists; reflexivity|].
  set (k' := if ord =? 0 then k else k mod (ord * 2)).
  destruct gen.
  - destruct (Hgen eq_refl) as [Ho Hfin].
    destruct (precompute_total Q _ ord HG Hfin HJ Ho) as [table E]. rewrite E. cbn [bind].
    eexists; reflexivity.
  - destruct (scale_total_repr (X, Y, Zc) Q HJ ltac:(intros _; exact HY)) as [[[X2 Y2] Z2] ES].
    rewrite ES. cbn [bind].
    assert (Hk' : 0 <= k').
    { unfold k'. destruct (Z.eqb_spec ord 0); [exact Hk|]. apply Z.mod_pos_bound. lia. }
    destruct (naf_correct k' Hk') as [l [EN _]]. rewrite EN. cbn [bind]. eexists; reflexivity.
Qed.

Lemma mul_result_not_inf J ord gen k R :
  k <> 1 -> pj_mul p a ord gen J k = Ok (Some R) -> is_inf R = false.
Proof.
  intros Hk E. destruct J as [[X Y] Zc]. unfold pj_mul in E.
  destruct ((Y =? 0) || (k =? 0)); [discriminate E|].
  apply Z.eqb_neq in Hk. rewrite Hk in E.
  destruct gen.
  - destruct (pj_precompute p a ord (X, Y, Zc)); [|discriminate E]. cbn [bind] in E.
    unfold wrap in E. destruct (is_inf _) eqn:EI; [discriminate E|]. injection E as <-. exact EI.
  - destruct (pj_scale p (X, Y, Zc)) as [[[X2 Y2] Z2]|]; [|discriminate E]. cbn [bind] in E.
    destruct (naf _); [|discriminate E]. cbn [bind] in E.
    unfold wrap in E. destruct (is_inf _) eqn:EI; [discriminate E|]. injection E as <-. exact EI.
Qed.

(* SigningKey.from_secret_exponent: d*G is finite for 0 < d < n when n is the (prime) order,
   here: whenever d*G <> 0 *)
Theorem pubkey_of_total G JG n d :
  inG G -> jrepr p JG G -> 0 < n -> zmul n G = None -> 0 <= d ->
  (forall j, 0 <= j -> zmul (2 ^ j) G <> None) ->
  exists r, pubkey_of p a n JG d = Ok r.
Proof.
  intros HG HJ Hn Hord Hd Hfin. unfold pubkey_of.
  destruct (mul_total JG G n true d HG HJ Hd ltac:(lia) ltac:(intros _; split; assumption)) as [r E].
  rewrite E. cbn [bind]. destruct r as [J|]; [|eexists; reflexivity].
  assert (Gfin : G <> None).
  { intro K. subst G. apply (Hfin 0); [lia|]. apply (zmul_inf p a inG gadd gneg GH). }
  pose proof (mul_correct p a inG gadd gneg GH JG G n true d (Some J) HG HJ
                (or_intror (conj Hn Hord)) (fun _ => Gfin) Hd E) as HM.
  cbn in HM.
  assert (GS : inG (zmul d G)) by (apply (zmul_closed p a inG gadd gneg GH); exact HG).
  assert (Fin : zmul d G <> None).
  { destruct (Z.eq_dec d 1) as [->|Hd1].
    - rewrite (zmul_1 p a inG gadd gneg GH). exact Gfin.
    - intro K. rewrite K in HM.
      apply (jrepr_is_inf p a inG gadd gneg GH J None (g_inf _ _ _ _ _ GH)) in HM.
      destruct HM as [_ HM]. specialize (HM eq_refl).
      rewrite (mul_result_not_inf _ _ _ _ _ Hd1 E) in HM. discriminate HM. }
  destruct J as [[X Y] Zc].
  destruct (scale_total X Y Zc) as [[[x y] z] ES].
  { left. destruct (zmul d G) as [q|]; [|contradiction]. destruct HM as [HZ _]. exact HZ. }
  rewrite ES. cbn [bind]. eexists; reflexivity.
Qed.

Theorem ecdh_shared_total Q JQ d :
  inG Q -> jrepr p JQ Q -> 0 <= d -> exists r, ecdh_shared p a JQ d = Ok r.
Proof.
  intros HG HJ Hd. unfold ecdh_shared.
  destruct (mul_total JQ Q 0 false d HG HJ Hd ltac:(lia) ltac:(discriminate)) as [r E].
  rewrite E. cbn [bind]. destruct r as [J|]; [|eexists; reflexivity].
  destruct (is_inf J) eqn:EI; [eexists; reflexivity|].
  pose proof (mul_correct p a inG gadd gneg GH JQ Q 0 false d (Some J) HG HJ
                (or_introl eq_refl) ltac:(discriminate) Hd E) as HM.
  cbn in HM.
  assert (GS : inG (zmul d Q)) by (apply (zmul_closed p a inG gadd gneg GH); exact HG).
  destruct (zmul d Q) as [q|] eqn:EQ.
  - destruct J as [[X Y] Zc]. destruct HM as [HZ _].
    destruct (x_total X Y Zc HZ) as [v EX]. rewrite EX. cbn [bind]. eexists; reflexivity.
  - apply (jrepr_is_inf p a inG gadd gneg GH _ _ GS) in HM.
    + rewrite EI in HM. destruct HM as [_ HM]. specialize (HM eq_refl). discriminate HM.
Qed.

(* mul_add.  wf J: the Z coordinate is 0 or invertible (true of every point the library
   produces; a Z that is a non-zero multiple of p makes scale() raise ValueError). *)
Definition wfz (J : jac) : Prop := ~ eqm p (jZ J) 0 \/ jZ J = 0.

Theorem mul_add_total J1 Q1 ord1 gen1 k1 J2 Q2 ord2 gen2 k2 :
  inG Q1 -> inG Q2 -> jrepr p J1 Q1 -> jrepr p J2 Q2 -> wfz J1 -> wfz J2 ->
  0 <= k1 -> 0 <= k2 -> 0 <= ord1 -> 0 <= ord2 ->
  (gen1 = true -> 0 < ord1 /\ forall j, 0 <= j -> zmul (2 ^ j) Q1 <> None) ->
  (gen2 = true -> 0 < ord2 /\ forall j, 0 <= j -> zmul (2 ^ j) Q2 <> None) ->
  exists r, pj_mul_add p a ord1 gen1 J1 k1 ord2 gen2 J2 k2 = Ok r.
Proof.
  intros G1 G2 HJ1 HJ2 W1 W2 Hk1 Hk2 Ho1 Ho2 Hg1 Hg2. unfold pj_mul_add.
  destruct (is_inf J2 || (k2 =? 0)); [apply (mul_total J1 Q1); assumption|].
  destruct (k1 =? 0); [apply (mul_total J2 Q2); assumption|].
  assert (A1 : (if gen1 then if ord1 =? 0 then Err EAssert else Ok tt else Ok tt) = Ok tt).
  { destruct gen1; [|reflexivity]. destruct (Hg1 eq_refl) as [H _].
    replace (ord1 =? 0) with false by (symmetry; apply Z.eqb_neq; lia). reflexivity. }
  assert (A2 : (if gen2 then if ord2 =? 0 then Err EAssert else Ok tt else Ok tt) = Ok tt).
  { destruct gen2; [|reflexivity]. destruct (Hg2 eq_refl) as [H _].
    replace (ord2 =? 0) with false by (symmetry; apply Z.eqb_neq; lia). reflexivity. }
  rewrite A1, A2. cbn [bind].
  destruct (gen1 && gen2).
  { destruct (mul_total J1 Q1 ord1 gen1 k1 G1 HJ1 Hk1 Ho1 Hg1) as [r1 E1].
    destruct (mul_total J2 Q2 ord2 gen2 k2 G2 HJ2 Hk2 Ho2 Hg2) as [r2 E2].
    rewrite E1, E2. cbn [bind]. eexists; reflexivity. }
  set (k1' := if ord1 =? 0 then k1 else k1 mod ord1).
  set (k2' := if ord1 =? 0 then k2 else k2 mod ord1).
  assert (K1 : 0 <= k1') by (unfold k1'; destruct (Z.eqb_spec ord1 0); [assumption | apply Z.mod_pos_bound; lia]).
  assert (K2 : 0 <= k2') by (unfold k2'; destruct (Z.eqb_spec ord1 0); [assumption | apply Z.mod_pos_bound; lia]).
  destruct J1 as [[A1x A1y] A1z], J2 as [[A2x A2y] A2z]. unfold wfz, jZ in W1, W2; cbn [snd] in W1, W2.
  destruct (scale_total A1x A1y A1z W1) as [[[X1 Y1] Z1] ES1].
  destruct (scale_total A2x A2y A2z W2) as [[[X2 Y2] Z2] ES2].
  rewrite ES1, ES2. cbn [bind].
  destruct (scale_correct p a inG gadd gneg GH _ _ _ HJ1 ES1) as [S1 _].
  destruct (scale_correct p a inG gadd gneg GH _ _ _ HJ2 ES2) as [S2 _].
  destruct (is_inf (pj_add X1 Y1 Z1 X2 Y2 Z2 p a)).
  { destruct (mul_total (X1, Y1, Z1) Q1 ord1 gen1 k1' G1 S1 K1 Ho1 Hg1) as [r1 E1].
    destruct (mul_total (X2, Y2, Z2) Q2 ord2 gen2 k2' G2 S2 K2 Ho2 Hg2) as [r2 E2].
    rewrite E1, E2. cbn [bind]. eexists; reflexivity. }
  destruct (naf_correct k1' K1) as [l1 [EN1 _]]. destruct (naf_correct k2' K2) as [l2 [EN2 _]].
  rewrite EN1, EN2. cbn [bind]. eexists; reflexivity.
Qed.

End Total.
