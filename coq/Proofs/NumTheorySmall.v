(* C19 - square_root_mod_prime at full strength for every prime below 300, by closed computation.

   The general theorems (Proofs/NumTheoryProofs.v) keep "jacobi does not answer -1 on a quadratic
   residue" as a hypothesis, because the correctness of the Jacobi-symbol algorithm is quadratic
   reciprocity.  For the small primes the whole function is simply run on every argument (sweep of
   Base/Sweep.v): it returns a root in [0, p) exactly for the quadratic residues and raises
   SquareRootError for every non-residue, in all branches (p = 2, p % 4 = 3, both sub-branches of
   p % 8 = 5, the Lucas/Cipolla loop for p % 8 = 1); and jacobi is the Legendre symbol there. *)
From Coq Require Import List Bool ZArith NArith Lia Znumtheory.
From Bec2 Require Import Base.Result Base.Sweep Base.Modp Model.NumTheory Proofs.Pocklington.
Import ListNotations.
Open Scope Z_scope.

(* the squares b*b mod p, b = 0 .. p-1 *)
Definition squares (p : N) : list Z := map (fun b => (Z.of_N b * Z.of_N b) mod Z.of_N p) (Nrange p).
Definition is_square (sq : list Z) (a : Z) : bool := existsb (Z.eqb a) sq.

Lemma is_square_false p a : is_square (squares p) a = false ->
  forall b, 0 <= b < Z.of_N p -> (b * b) mod Z.of_N p <> a.
Proof.
  intros H b Hb E.
  assert (Hex : is_square (squares p) a = true).
  { apply existsb_exists. exists a. split; [|apply Z.eqb_refl].
    apply in_map_iff. exists (Z.to_N b). split; [rewrite Z2N.id by lia; exact E | apply Nrange_In; lia]. }
  congruence.
Qed.

Lemma nrange_from_lt k : forall s x, In x (nrange_from k s) -> (x < s + N.of_nat k)%N.
Proof.
  induction k as [|k IH]; intros s x Hx; [destruct Hx|]. cbn [nrange_from] in Hx.
  destruct Hx as [<-|Hx]; [lia|]. apply IH in Hx. lia.
Qed.

Lemma is_square_true p a : is_square (squares p) a = true ->
  exists b, 0 <= b < Z.of_N p /\ (b * b) mod Z.of_N p = a.
Proof.
  intro H. apply existsb_exists in H as [v [Hin Hv]]. apply Z.eqb_eq in Hv. subst v.
  apply in_map_iff in Hin as [b [Hb Hin]]. exists (Z.of_N b). split; [|exact Hb].
  unfold Nrange in Hin. apply nrange_from_lt in Hin. lia.
Qed.

Definition sqrt_small_ok (p : N) (sq : list Z) (a : N) : bool :=
  let pz := Z.of_N p in let az := Z.of_N a in
  match square_root_mod_prime az pz with
  | Ok r => ((r * r) mod pz =? az) && (0 <=? r) && (r <? pz) && is_square sq az
  | Err e => err_eqb e ESquareRoot && negb (is_square sq az)
  end.

Definition jacobi_small_ok (p : N) (sq : list Z) (a : N) : bool :=
  (p <=? 2)%N ||
  match jacobi (Z.of_N a) (Z.of_N p) with
  | Ok j => j =? (if (a =? 0)%N then 0 else if is_square sq (Z.of_N a) then 1 else -1)
  | Err _ => false
  end.

Definition small_prime_ok (p : N) : bool :=
  if trial_prime (Z.of_N p) then
    let sq := squares p in
    forallb (fun a => sqrt_small_ok p sq a && jacobi_small_ok p sq a) (Nrange p)
  else true.

Lemma small_primes_sweep : forallb small_prime_ok (Nrange 300) = true.
Proof. vm_compute. reflexivity. Qed.

Lemma small_prime_facts p a : (p < 300)%N -> (a < p)%N -> trial_prime (Z.of_N p) = true ->
  sqrt_small_ok p (squares p) a = true /\ jacobi_small_ok p (squares p) a = true.
Proof.
  intros Hp Ha Ht. pose proof (sweep small_prime_ok 300 small_primes_sweep p Hp) as H.
  unfold small_prime_ok in H. rewrite Ht in H.
  pose proof (sweep _ p H a Ha) as H1. cbv beta in H1. apply andb_true_iff in H1. exact H1.
Qed.

Theorem sqrt_small_primes : forall p a : N, (p < 300)%N -> (a < p)%N ->
  trial_prime (Z.of_N p) = true ->
  match square_root_mod_prime (Z.of_N a) (Z.of_N p) with
  | Ok r => (r * r) mod Z.of_N p = Z.of_N a /\ 0 <= r < Z.of_N p
  | Err e => e = ESquareRoot /\ forall b, 0 <= b < Z.of_N p -> (b * b) mod Z.of_N p <> Z.of_N a
  end.
Proof.
  intros p a Hp Ha Ht. destruct (small_prime_facts p a Hp Ha Ht) as [H _].
  unfold sqrt_small_ok in H.
  destruct (square_root_mod_prime (Z.of_N a) (Z.of_N p)) as [r|e].
  - rewrite !andb_true_iff in H. destruct H as [[[H1 H2] H3] _].
    apply Z.eqb_eq in H1. apply Z.leb_le in H2. apply Z.ltb_lt in H3. auto.
  - apply andb_true_iff in H as [H1 H2]. apply err_eqb_eq in H1. apply negb_true_iff in H2.
    split; [exact H1|]. apply is_square_false, H2.
Qed.

(* on these primes jacobi is the Legendre symbol *)
Theorem jacobi_small_primes : forall p a : N, (2 < p < 300)%N -> (0 < a < p)%N ->
  trial_prime (Z.of_N p) = true ->
  (jacobi (Z.of_N a) (Z.of_N p) = Ok 1 /\ exists b, 0 <= b < Z.of_N p /\ (b * b) mod Z.of_N p = Z.of_N a) \/
  (jacobi (Z.of_N a) (Z.of_N p) = Ok (-1) /\ forall b, 0 <= b < Z.of_N p -> (b * b) mod Z.of_N p <> Z.of_N a).
Proof.
  intros p a Hp Ha Ht. destruct (small_prime_facts p a ltac:(lia) ltac:(lia) Ht) as [_ H].
  unfold jacobi_small_ok in H.
  assert (E1 : (p <=? 2)%N = false) by (apply N.leb_gt; lia).
  assert (E3 : (a =? 0)%N = false) by (apply N.eqb_neq; lia).
  rewrite E1, E3 in H. cbn [orb] in H.
  destruct (jacobi (Z.of_N a) (Z.of_N p)) as [j|e]; [|discriminate].
  destruct (is_square (squares p) (Z.of_N a)) eqn:Er; apply Z.eqb_eq in H; subst j.
  - left. split; [reflexivity | apply is_square_true, Er].
  - right. split; [reflexivity | apply is_square_false, Er].
Qed.

(* the 62 primes below 300 *)
Example small_primes_count : length (filter (fun p => trial_prime (Z.of_N p)) (Nrange 300)) = 62%nat.
Proof. vm_compute. reflexivity. Qed.
