(* C05 with the registered adapter as cipher: a payload the reader is asked to
   decrypt can be decrypted exactly when it is a whole number of cipher blocks. *)
From Coq Require Import List Bool NArith ZArith Lia.
From Coq Require Import Init.Byte.
From Bec2 Require Import Base.Result Base.Bytes Base.Reader Gen.Consts Model.Cbc Model.Bf3 Model.Layout
  Proofs.CbcProofs Proofs.Bf3Proofs Proofs.LayoutProofs Proofs.LayoutReaderProofs.
Import ListNotations.
Open Scope N_scope.

Definition aligned_fields (fs : list field_record) : Prop :=
  Forall (fun f => enc_tagged (ef_tags (fr_entry f)) = true -> blen (fr_payload f) mod 16 = 0) fs.

Section Adapter.
  Variable E D : bytes -> bytes -> bytes.

  Lemma adapter_decrypt_ok_iff k p :
    (exists q, adapter_decrypt D k None p = Ok q) <->
    blen p mod 16 = 0 /\ (p = [] \/ key_ok k = true).
  Proof.
    unfold adapter_decrypt. destruct (blen p mod 16 =? 0) eqn:Em; cbn [negb].
    - apply N.eqb_eq in Em. destruct p as [|x p'] eqn:Ep.
      + split; [intros _; auto|intros _; eexists; reflexivity].
      + destruct (key_ok k); cbn [negb].
        * change (blen (the_iv None) =? 16) with true. cbn [negb].
          split; [intros _; auto|intros _; eexists; reflexivity].
        * split; [intros [q Hq]; discriminate Hq|intros [_ [H|H]]; discriminate H].
    - apply N.eqb_neq in Em. split; [intros [q Hq]; discriminate Hq|intros [H _]; contradiction].
  Qed.

  Lemma adapter_mac_key_ok k iv p m : adapter_mac E k iv p = Ok m -> p <> [] -> key_ok k = true.
  Proof.
    unfold adapter_mac, adapter_encrypt. intros H Hne. destruct p; [contradiction|].
    destruct (key_ok k); [reflexivity|discriminate H].
  Qed.

  Lemma decryptable_aligned_auth k a fs pl :
    payloads_at (adapter_mac E) true k a fs pl ->
    (decryptable (adapter_decrypt D) k fs <-> aligned_fields fs).
  Proof.
    induction 1 as [a|a f fs rest Ha Ht Hc Hm Hr IH].
    - split; constructor.
    - unfold mac_is in Hm. split; intro H; inversion H as [|? ? H1 H2]; subst; constructor.
      + intro Ht'. apply adapter_decrypt_ok_iff in H1; [apply H1|exact Ht'].
      + apply IH, H2.
      + intro Ht'. apply adapter_decrypt_ok_iff. split; [apply H1, Ht'|].
        destruct (fr_payload f) eqn:Ep; [left; reflexivity|right].
        eapply adapter_mac_key_ok; [exact Hm|discriminate].
      + apply IH, H2.
  Qed.

  Lemma decryptable_aligned_key k fs : key_ok k = true ->
    (decryptable (adapter_decrypt D) k fs <-> aligned_fields fs).
  Proof.
    intro Hk. unfold decryptable, aligned_fields. split; intro H; eapply Forall_impl; try exact H;
      cbv beta; intros f Hf Ht.
    - apply adapter_decrypt_ok_iff in Hf; [apply Hf|exact Ht].
    - apply adapter_decrypt_ok_iff. split; [apply Hf, Ht|right; exact Hk].
  Qed.

  Theorem adapter_accept_iff b off k :
    (exists cs, from_binary (adapter_decrypt D) (adapter_mac E) (mkR b off) true k = Ok cs) <->
    (exists fs, is_bf3_body (adapter_mac E) off k fs b /\ aligned_fields fs).
  Proof.
    rewrite from_binary_accept_iff. split; intros [fs [Hb H]]; exists fs; (split; [exact Hb|]);
      destruct Hb as [ents pl He Hs Hp]; apply (decryptable_aligned_auth _ _ _ _ Hp); exact H.
  Qed.

  Theorem adapter_accept_noauth_iff b off k : key_ok k = true ->
    ((exists cs, from_binary (adapter_decrypt D) (adapter_mac E) (mkR b off) false k = Ok cs) <->
     (exists fs, is_bf3_body_noauth (adapter_mac E) off k fs b /\ aligned_fields fs)).
  Proof.
    intro Hk. rewrite from_binary_accept_iff. split; intros [fs [Hb H]]; exists fs; (split; [exact Hb|]);
      apply (decryptable_aligned_key _ _ Hk); exact H.
  Qed.
End Adapter.
