(* Generic CBC facts: for every block function with D k (E k b) = b on 16-byte
   blocks, CBC decryption inverts CBC encryption and lengths are preserved;
   hence the adapter model satisfies what the container layer assumes. *)
From Coq Require Import List Bool NArith ZArith Lia.
From Coq Require Import Init.Byte.
From Bec2 Require Import Base.Result Base.Bytes Model.Cbc Proofs.CrcProofs.
Import ListNotations.
Open Scope N_scope.

Lemma xor_byte_invol x y : xor_byte (xor_byte x y) y = x.
Proof.
  unfold xor_byte.
  assert (H : N.lxor (b2n x) (b2n y) < 256).
  { apply (lxor_lt_pow2 _ _ 8); apply b2n_lt. }
  rewrite b2n_n2b_small by exact H.
  rewrite N.lxor_assoc, N.lxor_nilpotent, N.lxor_0_r. apply n2b_b2n.
Qed.

Lemma xor_bytes_length a : forall b, length a = length b -> length (xor_bytes a b) = length a.
Proof.
  induction a as [|x a IH]; intros [|y b] H; simpl in *; try lia.
  rewrite IH by lia. reflexivity.
Qed.

Lemma xor_bytes_invol a : forall b, length a = length b -> xor_bytes (xor_bytes a b) b = a.
Proof.
  induction a as [|x a IH]; intros [|y b] H; simpl in *; try lia; [reflexivity|].
  rewrite xor_byte_invol, IH by lia. reflexivity.
Qed.

Section Inv.
  Variable E D : bytes -> bytes -> bytes.
  Hypothesis E_len : forall k b, length b = 16%nat -> length (E k b) = 16%nat.
  Hypothesis DE : forall k b, length b = 16%nat -> D k (E k b) = b.

  Lemma cbc_enc_S f k prev d : d <> [] ->
    cbc_enc E (S f) k prev d =
    E k (xor_bytes (firstn 16 d) prev) ++
    cbc_enc E f k (E k (xor_bytes (firstn 16 d) prev)) (skipn 16 d).
  Proof. destruct d; [contradiction|reflexivity]. Qed.

  Lemma cbc_dec_S f k prev d : d <> [] ->
    cbc_dec D (S f) k prev d =
    xor_bytes (D k (firstn 16 d)) prev ++ cbc_dec D f k (firstn 16 d) (skipn 16 d).
  Proof. destruct d; [contradiction|reflexivity]. Qed.

  Lemma cbc_roundtrip k m : forall f1 f2 d prev,
    length d = (16 * m)%nat -> (16 * m <= f1)%nat -> (16 * m <= f2)%nat ->
    length prev = 16%nat ->
    length (cbc_enc E f1 k prev d) = (16 * m)%nat /\
    cbc_dec D f2 k prev (cbc_enc E f1 k prev d) = d.
  Proof.
    induction m as [|m IH]; intros f1 f2 d prev Hd H1 H2 Hp.
    - destruct d; [|simpl in Hd; lia]. destruct f1; simpl; destruct f2; auto.
    - destruct f1 as [|f1]; [lia|]. destruct f2 as [|f2]; [lia|].
      assert (Hne : d <> []) by (intro Hn; subst d; simpl in Hd; lia).
      rewrite (cbc_enc_S f1 k prev d Hne).
      assert (Hb : length (firstn 16 d) = 16%nat) by (rewrite firstn_length; lia).
      assert (Hx : length (xor_bytes (firstn 16 d) prev) = 16%nat)
        by (rewrite xor_bytes_length; lia).
      remember (E k (xor_bytes (firstn 16 d) prev)) as c eqn:Ec.
      assert (Hc : length c = 16%nat) by (subst c; apply E_len, Hx).
      assert (Hs : length (skipn 16 d) = (16 * m)%nat) by (rewrite skipn_length; lia).
      destruct (IH f1 f2 (skipn 16 d) c Hs ltac:(lia) ltac:(lia) Hc) as [IHl IHd].
      split.
      + rewrite app_length, IHl, Hc. lia.
      + assert (Happ : c ++ cbc_enc E f1 k c (skipn 16 d) <> []).
        { intro Hn. apply (f_equal (@length byte)) in Hn. rewrite app_length, Hc in Hn.
          simpl in Hn. lia. }
        rewrite (cbc_dec_S f2 k prev _ Happ).
        assert (F : firstn 16 (c ++ cbc_enc E f1 k c (skipn 16 d)) = c).
        { rewrite firstn_app, Hc. replace (16 - 16)%nat with 0%nat by lia.
          rewrite (firstn_all2 (n:=16) c) by lia. simpl. apply app_nil_r. }
        assert (S' : skipn 16 (c ++ cbc_enc E f1 k c (skipn 16 d)) = cbc_enc E f1 k c (skipn 16 d)).
        { rewrite skipn_app, Hc. replace (16 - 16)%nat with 0%nat by lia.
          rewrite (skipn_all2 (n:=16) c) by lia. reflexivity. }
        rewrite F, S', IHd. subst c. rewrite DE by exact Hx.
        rewrite xor_bytes_invol by lia. apply firstn_skipn.
  Qed.

  Lemma zero_pad_len d : blen (zero_pad d) mod 16 = 0 /\ blen d <= blen (zero_pad d).
  Proof.
    unfold zero_pad. rewrite blen_app, blen_zeros, N2Nat.id.
    pose proof (N.mod_upper_bound (blen d) 16 ltac:(lia)) as Hm.
    pose proof (N.div_mod (blen d) 16 ltac:(lia)) as Hd.
    set (q := blen d / 16) in *. set (r := blen d mod 16) in *.
    split; [|apply N.le_add_r].
    destruct (N.eq_dec r 0) as [Hr|Hr].
    - rewrite Hr. change ((16 - 0) mod 16) with 0. rewrite Hd, Hr.
      replace (16 * q + 0 + 0) with (q * 16) by lia. apply N.mod_mul. lia.
    - rewrite (N.mod_small (16 - r)) by lia. rewrite Hd.
      replace (16 * q + r + (16 - r)) with ((q + 1) * 16) by lia. apply N.mod_mul. lia.
  Qed.

  Lemma mod16_nat (d : bytes) : blen d mod 16 = 0 -> exists m, length d = (16 * m)%nat.
  Proof.
    intro H. exists (N.to_nat (blen d / 16)).
    pose proof (N.div_mod (blen d) 16 ltac:(lia)) as Hd. rewrite H in Hd.
    unfold blen in *. lia.
  Qed.

  Definition aenc k iv d := adapter_encrypt E k iv d.
  Definition adec k iv d := adapter_decrypt D k iv d.

  Lemma adapter_encrypt_ne k iv d : d <> [] ->
    adapter_encrypt E k iv d =
    if negb (key_ok k) then Err EValue
    else if negb (blen (the_iv iv) =? 16) then Err EValue
    else Ok (cbc_enc E (length (zero_pad d)) k (the_iv iv) (zero_pad d)).
  Proof. destruct d; [contradiction|reflexivity]. Qed.

  Lemma adapter_decrypt_ne k iv d : d <> [] ->
    adapter_decrypt D k iv d =
    if negb (blen d mod 16 =? 0) then Err EValue else
    if negb (key_ok k) then Err EValue
    else if negb (blen (the_iv iv) =? 16) then Err EValue
    else Ok (cbc_dec D (length d) k (the_iv iv) d).
  Proof. destruct d; [contradiction|reflexivity]. Qed.

  Lemma zero_pad_aligned d : blen d mod 16 = 0 -> zero_pad d = d.
  Proof.
    intro Hm. unfold zero_pad. rewrite Hm. change ((16 - 0) mod 16) with 0. simpl. apply app_nil_r.
  Qed.

  (* the container layer's assumption, for block-aligned data *)
  Theorem adapter_inverse k iv d c :
    blen d mod 16 = 0 -> aenc k iv d = Ok c -> adec k iv c = Ok d /\ blen c = blen d.
  Proof.
    intros Hm. unfold aenc, adec.
    destruct d as [|x d'] eqn:Ed.
    { cbn. intro H. inversion H; subst. split; reflexivity. }
    rewrite <- Ed in *. assert (Hne : d <> []) by (rewrite Ed; discriminate). clear Ed x d'.
    rewrite (adapter_encrypt_ne k iv d Hne).
    destruct (key_ok k) eqn:Ek; cbn [negb]; [|discriminate].
    destruct (blen (the_iv iv) =? 16) eqn:Ei; cbn [negb]; [|discriminate].
    apply N.eqb_eq in Ei.
    rewrite (zero_pad_aligned d Hm). intro H. inversion H; subst c. clear H.
    destruct (mod16_nat d Hm) as [m Hl].
    assert (Hiv : length (the_iv iv) = 16%nat) by (unfold blen in Ei; lia).
    destruct (cbc_roundtrip k m (length d) (16 * m) d (the_iv iv) Hl ltac:(lia) ltac:(lia) Hiv) as [L R].
    assert (Hbl : blen (cbc_enc E (length d) k (the_iv iv) d) = blen d) by (unfold blen; lia).
    assert (Hne2 : cbc_enc E (length d) k (the_iv iv) d <> []).
    { intro Hn. rewrite Hn in Hbl. unfold blen in Hbl. simpl in Hbl.
      destruct d; [contradiction|simpl in Hbl; lia]. }
    rewrite (adapter_decrypt_ne k iv _ Hne2).
    rewrite Hbl, Hm, Ek, (proj2 (N.eqb_eq _ _) Ei). cbn [N.eqb negb].
    rewrite L, R. split; reflexivity.
  Qed.

  (* general data: decrypt returns exactly the zero-padded plaintext *)
  Theorem adapter_decrypt_encrypt k iv d c :
    aenc k iv d = Ok c -> adec k iv c = Ok (zero_pad d) /\ blen c = blen (zero_pad d).
  Proof.
    intro H. destruct (zero_pad_len d) as [Hm Hle].
    apply adapter_inverse; [exact Hm|].
    unfold aenc in *.
    destruct d as [|x d'] eqn:Ed; [inversion H; reflexivity|].
    rewrite <- Ed in *. assert (Hne : d <> []) by (rewrite Ed; discriminate). clear Ed x d'.
    assert (Hne2 : zero_pad d <> []).
    { unfold zero_pad. destruct d; [contradiction|discriminate]. }
    rewrite (adapter_encrypt_ne k iv _ Hne2), (zero_pad_aligned _ Hm).
    rewrite (adapter_encrypt_ne k iv _ Hne) in H. exact H.
  Qed.

  Theorem adapter_mac_len k iv d m : d <> [] -> adapter_mac E k iv d = Ok m -> blen m = 16.
  Proof.
    intros Hne H. unfold adapter_mac in H.
    destruct (adapter_encrypt E k iv d) as [c|] eqn:Ec; cbn [bind] in H; [|discriminate].
    inversion H; subst m. clear H.
    destruct (adapter_decrypt_encrypt k iv d c Ec) as [_ Hl].
    destruct (zero_pad_len d) as [Hm Hle].
    assert (Hd : 1 <= blen d).
    { destruct d; [contradiction|]. rewrite blen_cons. lia. }
    assert (H16 : 16 <= blen c).
    { rewrite Hl. pose proof (N.div_mod (blen (zero_pad d)) 16 ltac:(lia)) as Hdm.
      rewrite Hm in Hdm. destruct (blen (zero_pad d) / 16) eqn:Eq; lia. }
    unfold lastN. rewrite dropN_blen. lia.
  Qed.
End Inv.

(* the toy cipher satisfies the hypotheses (non-vacuity of the section) *)
Lemma n2b_mod v : n2b (v mod 256) = n2b v.
Proof. unfold n2b. rewrite N.mod_mod by lia. reflexivity. Qed.

Lemma toy_num x y : x < 256 -> y < 256 -> ((x + y + 1) mod 256 + 511 - y) mod 256 = x.
Proof.
  intros Hx Hy.
  destruct (N.ltb_spec (x + y + 1) 256) as [Hs|Hs].
  - rewrite (N.mod_small (x + y + 1)) by lia.
    replace (x + y + 1 + 511 - y) with (x + 2 * 256) by lia.
    rewrite N.mod_add by lia. apply N.mod_small. lia.
  - replace ((x + y + 1) mod 256) with (x + y + 1 - 256).
    2:{ symmetry. replace (x + y + 1) with ((x + y + 1 - 256) + 1 * 256) at 1 by lia.
        rewrite N.mod_add by lia. apply N.mod_small. lia. }
    replace (x + y + 1 - 256 + 511 - y) with (x + 1 * 256) by lia.
    rewrite N.mod_add by lia. apply N.mod_small. lia.
Qed.

Lemma add_sub_bytes a : forall k, length k = length a -> sub_bytes (add_bytes a k) k = a.
Proof.
  induction a as [|x a IH]; intros [|y k] H; simpl in *; try lia; [reflexivity|].
  rewrite IH by lia. f_equal.
  rewrite b2n_n2b, <- n2b_mod, toy_num by apply b2n_lt. apply n2b_b2n.
Qed.

Lemma add_bytes_length a : forall k, length k = length a -> length (add_bytes a k) = length a.
Proof.
  induction a as [|x a IH]; intros [|y k] H; simpl in *; try lia. rewrite IH by lia. reflexivity.
Qed.

Lemma toy_DE k b : (16 <= length k)%nat -> length b = 16%nat -> toyD k (toyE k b) = b.
Proof.
  intros Hk Hb. unfold toyD, toyE. rewrite rev_involutive.
  apply add_sub_bytes. rewrite firstn_length. lia.
Qed.
