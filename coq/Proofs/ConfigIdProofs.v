(* Lemmas about Model/ConfigId.v (property C12). *)
From Coq Require Import List Bool Arith NArith Lia.
From Coq Require Import Init.Byte.
From Bec2 Require Import Base.Result Base.Bytes Gen.ConfigIdConsts Model.ConfigId.
Import ListNotations.
Open Scope N_scope.

(* ------------------------------------------------------------------------- *)
(* tie to the source: the strings the hand-written matcher/printer implement are the
   ones found in bec2format/configid.py *)

Lemma pattern_numeric_tied : CFGID_PATTERN_NUMERIC = model_pattern_numeric.
Proof. reflexivity. Qed.
Lemma pattern_nameonly_tied : CFGID_PATTERN_NAMEONLY = model_pattern_nameonly.
Proof. reflexivity. Qed.
(* the template string constants of cfgid_str are exactly the two format strings the printer
   implements; the one of __str__ is the name-only format *)
Lemma cfgidstr_strings_tied : CFGID_CFGIDSTR_STRINGS = model_cfgidstr_strings.
Proof. reflexivity. Qed.
Lemma str_strings_tied : CFGID_STR_STRINGS = model_str_strings.
Proof. reflexivity. Qed.
Lemma unknown_tied : CFGID_UNKNOWN = 9999.
Proof. reflexivity. Qed.

(* ------------------------------------------------------------------------- *)
(* decimal digits *)

(* code points <= 255: on such text the model's digit class is exactly CPython's \d *)
Definition latin1 (s : str) : Prop := Forall (fun c => c <= 255) s.

Definition all_digits (s : str) : Prop := Forall (fun c => is_digit c = true) s.

Lemma is_digit_spec c : is_digit c = true <-> 48 <= c <= 57.
Proof.
  unfold is_digit. rewrite andb_true_iff, !N.leb_le. tauto.
Qed.

Lemma digit_chr_val c : is_digit c = true -> digit_chr (digit_val c) = c.
Proof. rewrite is_digit_spec. unfold digit_chr, digit_val. lia. Qed.

Lemma digit_val_chr d : digit_val (digit_chr d) = d.
Proof. unfold digit_chr, digit_val. lia. Qed.

Lemma is_digit_chr d : d < 10 -> is_digit (digit_chr d) = true.
Proof. intro H. apply is_digit_spec. unfold digit_chr. lia. Qed.

Lemma digits_le_length w n : length (digits_le w n) = w.
Proof. revert n; induction w; intro n; simpl; [reflexivity| now rewrite IHw]. Qed.

Lemma digits_le_lt w : forall n, Forall (fun d => d < 10) (digits_le w n).
Proof.
  induction w; intro n; simpl; constructor; [|apply IHw].
  apply N.mod_upper_bound. lia.
Qed.

Lemma parse_dec_fold s : forall a,
  fold_left (fun acc c => acc * 10 + digit_val c) s a =
  a * 10 ^ N.of_nat (length s) + parse_dec s.
Proof.
  unfold parse_dec. induction s as [|c s IH]; intro a.
  - cbn [fold_left length]. change (10 ^ N.of_nat 0) with 1. lia.
  - cbn [fold_left]. rewrite (IH (a * 10 + digit_val c)), (IH (0 * 10 + digit_val c)).
    cbn [length]. rewrite Nat2N.inj_succ, N.pow_succ_r by lia. lia.
Qed.

Lemma parse_dec_app a b :
  parse_dec (a ++ b) = parse_dec a * 10 ^ N.of_nat (length b) + parse_dec b.
Proof. unfold parse_dec at 1. rewrite fold_left_app. apply parse_dec_fold. Qed.

Lemma parse_dec_snoc a c : parse_dec (a ++ [c]) = parse_dec a * 10 + digit_val c.
Proof.
  rewrite parse_dec_app. cbn [length]. change (10 ^ N.of_nat 1) with 10.
  unfold parse_dec at 2. cbn [fold_left]. lia.
Qed.

(* reading back the w low digits gives n mod 10^w *)
Lemma parse_digits_le w : forall n,
  parse_dec (map digit_chr (rev (digits_le w n))) = n mod 10 ^ N.of_nat w.
Proof.
  induction w as [|w IH]; intro n.
  - cbn. now rewrite N.mod_1_r.
  - cbn [digits_le rev]. rewrite map_app. cbn [map]. rewrite parse_dec_snoc, IH, digit_val_chr.
    rewrite Nat2N.inj_succ, N.pow_succ_r by lia.
    set (m := 10 ^ N.of_nat w).
    assert (Hm : m <> 0) by (apply N.pow_nonzero; lia).
    rewrite (N.mod_mul_r n 10 m) by lia. lia.
Qed.

Lemma ndigits_fuel_bound f : forall n, n < 2 ^ N.of_nat f -> n < 10 ^ N.of_nat (ndigits_fuel f n).
Proof.
  induction f as [|f IH]; intros n H.
  - cbn in *. lia.
  - cbn [ndigits_fuel]. destruct (n <? 10) eqn:E.
    + apply N.ltb_lt in E. cbn. lia.
    + apply N.ltb_ge in E. rewrite Nat2N.inj_succ, N.pow_succ_r by lia.
      rewrite Nat2N.inj_succ, N.pow_succ_r in H by lia.
      assert (H2 : n / 10 < 2 ^ N.of_nat f).
      { apply N.div_lt_upper_bound; [lia|]. lia. }
      specialize (IH _ H2).
      pose proof (N.div_mod n 10 ltac:(lia)) as Hdm.
      pose proof (N.mod_upper_bound n 10 ltac:(lia)). lia.
Qed.

Lemma pos_size_nat_gt p : N.pos p < 2 ^ N.of_nat (Pos.size_nat p).
Proof.
  induction p as [p IH|p IH|]; cbn [Pos.size_nat]; try rewrite Nat2N.inj_succ, N.pow_succ_r by lia.
  - change (N.pos p~1) with (2 * N.pos p + 1). lia.
  - change (N.pos p~0) with (2 * N.pos p). lia.
  - cbn. lia.
Qed.

Lemma ndigits_bound n : n < 10 ^ N.of_nat (ndigits n).
Proof.
  apply ndigits_fuel_bound. destruct n as [|p]; [cbn; lia|]. apply pos_size_nat_gt.
Qed.

Lemma ndigits_fuel_le f : forall n w, n < 10 ^ N.of_nat w -> (1 <= w)%nat -> (ndigits_fuel f n <= w)%nat.
Proof.
  induction f as [|f IH]; intros n w H Hw; cbn [ndigits_fuel]; [exact Hw|].
  destruct (n <? 10) eqn:E; [exact Hw|].
  apply N.ltb_ge in E.
  destruct w as [|w]; [lia|].
  destruct w as [|w].
  - change (10 ^ N.of_nat 1) with 10 in H. lia.
  - apply le_n_S. apply IH; [|lia].
    rewrite Nat2N.inj_succ, N.pow_succ_r in H by lia.
    apply N.div_lt_upper_bound; lia.
Qed.

Lemma ndigits_le n w : n < 10 ^ N.of_nat w -> (1 <= w)%nat -> (ndigits n <= w)%nat.
Proof. apply ndigits_fuel_le. Qed.

Lemma ndigits_pos n : (1 <= ndigits n)%nat.
Proof.
  unfold ndigits. destruct (N.size_nat n); cbn [ndigits_fuel]; [lia|].
  destruct (n <? 10); lia.
Qed.

(* the printer: digits only, value preserved for EVERY n and width *)
Lemma fmt_dec_digits w n : all_digits (fmt_dec w n).
Proof.
  unfold fmt_dec, all_digits. apply Forall_forall. intros c Hc.
  apply in_map_iff in Hc as [d [<- Hd]]. apply is_digit_chr.
  apply in_rev in Hd. pose proof (digits_le_lt (Nat.max w (ndigits n)) n) as F.
  rewrite Forall_forall in F. apply F, Hd.
Qed.

Lemma fmt_dec_length w n : length (fmt_dec w n) = Nat.max w (ndigits n).
Proof. unfold fmt_dec. now rewrite map_length, rev_length, digits_le_length. Qed.

Lemma parse_fmt_dec_all w n : parse_dec (fmt_dec w n) = n.
Proof.
  unfold fmt_dec. rewrite parse_digits_le. apply N.mod_small.
  eapply N.lt_le_trans; [apply ndigits_bound|].
  apply N.pow_le_mono_r; lia.
Qed.

(* exact width inside the field's range *)
Lemma fmt_dec_width w n : n < 10 ^ N.of_nat w -> (1 <= w)%nat -> length (fmt_dec w n) = w.
Proof.
  intros H Hw. rewrite fmt_dec_length. pose proof (ndigits_le n w H Hw). lia.
Qed.

(* and it GROWS beyond the width outside *)
Lemma fmt_dec_grows w n : 10 ^ N.of_nat w <= n -> (w < length (fmt_dec w n))%nat.
Proof.
  intro H. rewrite fmt_dec_length.
  pose proof (ndigits_bound n) as B.
  assert (w < ndigits n)%nat; [|lia].
  destruct (Nat.lt_ge_cases w (ndigits n)) as [L|L]; [exact L|exfalso].
  assert (10 ^ N.of_nat (ndigits n) <= 10 ^ N.of_nat w) by (apply N.pow_le_mono_r; lia). lia.
Qed.

(* digit strings of the right width print back as themselves *)
Lemma digits_le_parse ds : all_digits ds ->
  digits_le (length ds) (parse_dec ds) = rev (map digit_val ds).
Proof.
  induction ds as [|c ds IH] using rev_ind; intro H; [reflexivity|].
  apply Forall_app in H as [H1 H2]. inversion H2 as [|? ? Hc _]; subst.
  rewrite app_length. cbn [length]. replace (length ds + 1)%nat with (S (length ds)) by lia.
  cbn [digits_le]. rewrite parse_dec_snoc, map_app, rev_app_distr. cbn [map rev app].
  assert (Hd : digit_val c < 10) by (apply is_digit_spec in Hc; unfold digit_val; lia).
  set (dv := digit_val c) in *.
  replace ((parse_dec ds * 10 + dv) mod 10) with dv.
  2:{ rewrite N.add_comm, N.mod_add by lia. symmetry. apply N.mod_small. lia. }
  replace ((parse_dec ds * 10 + dv) / 10) with (parse_dec ds).
  2:{ rewrite N.div_add_l by lia. rewrite (N.div_small dv) by lia. lia. }
  rewrite IH by exact H1. reflexivity.
Qed.

Lemma parse_dec_lt ds : all_digits ds -> parse_dec ds < 10 ^ N.of_nat (length ds).
Proof.
  induction ds as [|c ds IH] using rev_ind; intro H; [cbn; lia|].
  apply Forall_app in H as [H1 H2]. inversion H2 as [|? ? Hc _]; subst.
  rewrite parse_dec_snoc, app_length. cbn [length].
  replace (length ds + 1)%nat with (S (length ds)) by lia.
  rewrite Nat2N.inj_succ, N.pow_succ_r by lia.
  apply is_digit_spec in Hc. unfold digit_val. specialize (IH H1). lia.
Qed.

Lemma fmt_dec_parse_dec ds : all_digits ds -> (1 <= length ds)%nat ->
  fmt_dec (length ds) (parse_dec ds) = ds.
Proof.
  intros H Hl. unfold fmt_dec.
  pose proof (ndigits_le _ _ (parse_dec_lt ds H) Hl) as L.
  rewrite Nat.max_l by exact L.
  rewrite digits_le_parse by exact H. rewrite rev_involutive, map_map.
  rewrite <- (map_id ds) at 2. apply map_ext_in. intros c Hc.
  apply digit_chr_val. unfold all_digits in H. rewrite Forall_forall in H. apply H, Hc.
Qed.

(* ------------------------------------------------------------------------- *)
(* matcher primitives *)

Lemma take_digits_app k ds r : length ds = k -> all_digits ds ->
  take_digits k (ds ++ r) = Some (ds, r).
Proof.
  revert k; induction ds as [|c ds IH]; intros k <- H; [reflexivity|].
  inversion H as [|? ? Hc Hds]; subst. cbn [length take_digits app]. rewrite Hc.
  rewrite (IH _ eq_refl Hds). reflexivity.
Qed.

Lemma take_digits_inv k : forall t ds r, take_digits k t = Some (ds, r) ->
  t = ds ++ r /\ length ds = k /\ all_digits ds.
Proof.
  induction k as [|k IH]; intros t ds r H; cbn [take_digits] in H.
  - inversion H; subst. repeat split. constructor.
  - destruct t as [|c t]; [discriminate|]. destruct (is_digit c) eqn:Hc; [|discriminate].
    destruct (take_digits k t) as [[ds' r']|] eqn:E; [|discriminate].
    inversion H; subst. destruct (IH _ _ _ E) as [-> [<- Hd]].
    repeat split. constructor; assumption.
Qed.

Lemma expect_cons c t : expect c (c :: t) = Some t.
Proof. unfold expect. now rewrite N.eqb_refl. Qed.

Lemma expect_inv c t r : expect c t = Some r -> t = c :: r.
Proof.
  unfold expect. destruct t as [|x t]; [discriminate|]. destruct (x =? c) eqn:E; [|discriminate].
  apply N.eqb_eq in E. intro H; inversion H; subst. reflexivity.
Qed.

Lemma expect_lit_app l t : expect_lit l (l ++ t) = Some t.
Proof.
  induction l as [|c l IH]; [reflexivity|]. cbn [expect_lit app]. rewrite expect_cons. exact IH.
Qed.

Lemma expect_lit_inv l : forall t r, expect_lit l t = Some r -> t = l ++ r.
Proof.
  induction l as [|c l IH]; intros t r H; cbn [expect_lit] in H.
  - inversion H. reflexivity.
  - destruct (expect c t) as [t'|] eqn:E; [|discriminate]. cbn [obind] in H.
    apply expect_inv in E. subst t. rewrite (IH _ _ H). reflexivity.
Qed.

(* single-line strings and the greedy dot-star *)
Definition single_line (s : str) : Prop := ~ In 10 s.

Lemma single_line_cons c s : single_line (c :: s) <-> c <> 10 /\ single_line s.
Proof. unfold single_line. cbn [In]. intuition congruence. Qed.

Definition single_lineb (s : str) : bool := forallb (fun c => negb (c =? 10)) s.

Lemma single_lineb_spec s : single_lineb s = true <-> single_line s.
Proof.
  induction s as [|c s IH]; [cbn; split; [intros _ []|reflexivity]|].
  cbn [single_lineb forallb]. rewrite andb_true_iff, negb_true_iff, N.eqb_neq, single_line_cons.
  fold (single_lineb s). tauto.
Qed.

Lemma first_line_single s : single_line s -> first_line s = s.
Proof.
  induction s as [|c s IH]; intro H; [reflexivity|].
  apply single_line_cons in H as [Hc Hs]. cbn [first_line].
  apply N.eqb_neq in Hc. rewrite Hc, (IH Hs). reflexivity.
Qed.

Lemma first_line_is_single t : single_line (first_line t).
Proof.
  induction t as [|c t IH]; [intros []|]. cbn [first_line].
  destruct (c =? 10) eqn:E; [intros []|]. apply N.eqb_neq in E.
  apply single_line_cons. split; assumption.
Qed.

Lemma first_line_fixed s : first_line s = s -> single_line s.
Proof. intro H. rewrite <- H. apply first_line_is_single. Qed.

(* the 18-character id  ddddd-dddd-dddd-dd *)
Definition id_text (c p d v : str) : str := c ++ [SEP] ++ p ++ [SEP] ++ d ++ [SEP] ++ v.

Definition id_fields_ok (c p d v : str) : Prop :=
  (all_digits c /\ length c = W_CUSTOMER) /\ (all_digits p /\ length p = W_PROJECT) /\
  (all_digits d /\ length d = W_DEVICE) /\ (all_digits v /\ length v = W_VERSION).

(* "t starts like a numeric identifier" = pattern 1 matches *)
Definition id_prefixed (t : str) : Prop :=
  exists c p d v rest, id_fields_ok c p d v /\ t = id_text c p d v ++ rest.

Lemma match_id_text c p d v rest : id_fields_ok c p d v ->
  match_id (id_text c p d v ++ rest) = Some (c, p, d, v, rest).
Proof.
  intros [[Hc Lc] [[Hp Lp] [[Hd Ld] [Hv Lv]]]]. unfold match_id, id_text.
  repeat rewrite <- app_assoc. cbn [app].
  rewrite (take_digits_app _ c _ Lc Hc). cbn [obind]. rewrite expect_cons. cbn [obind].
  rewrite (take_digits_app _ p _ Lp Hp). cbn [obind]. rewrite expect_cons. cbn [obind].
  rewrite (take_digits_app _ d _ Ld Hd). cbn [obind]. rewrite expect_cons. cbn [obind].
  rewrite (take_digits_app _ v _ Lv Hv). reflexivity.
Qed.

Lemma match_id_inv t c p d v rest : match_id t = Some (c, p, d, v, rest) ->
  id_fields_ok c p d v /\ t = id_text c p d v ++ rest.
Proof.
  unfold match_id. intro H.
  destruct (take_digits W_CUSTOMER t) as [[c' t1]|] eqn:E1; [|discriminate]. cbn [obind] in H.
  destruct (expect SEP t1) as [t2|] eqn:E2; [|discriminate]. cbn [obind] in H.
  destruct (take_digits W_PROJECT t2) as [[p' t3]|] eqn:E3; [|discriminate]. cbn [obind] in H.
  destruct (expect SEP t3) as [t4|] eqn:E4; [|discriminate]. cbn [obind] in H.
  destruct (take_digits W_DEVICE t4) as [[d' t5]|] eqn:E5; [|discriminate]. cbn [obind] in H.
  destruct (expect SEP t5) as [t6|] eqn:E6; [|discriminate]. cbn [obind] in H.
  destruct (take_digits W_VERSION t6) as [[v' t7]|] eqn:E7; [|discriminate]. cbn [obind] in H.
  inversion H; subst.
  apply take_digits_inv in E1 as [-> [L1 D1]]. apply expect_inv in E2 as ->.
  apply take_digits_inv in E3 as [-> [L3 D3]]. apply expect_inv in E4 as ->.
  apply take_digits_inv in E5 as [-> [L5 D5]]. apply expect_inv in E6 as ->.
  apply take_digits_inv in E7 as [-> [L7 D7]].
  split; [unfold id_fields_ok; tauto|].
  unfold id_text. repeat rewrite <- app_assoc. reflexivity.
Qed.

Lemma match_id_none_iff t : match_id t = None <-> ~ id_prefixed t.
Proof.
  split.
  - intros H [c [p [d [v [rest [Hok ->]]]]]]. rewrite (match_id_text _ _ _ _ _ Hok) in H. discriminate.
  - intro H. destruct (match_id t) as [[[[[c p] d] v] rest]|] eqn:E; [|reflexivity].
    exfalso. apply H. apply match_id_inv in E as [Hok ->]. now exists c, p, d, v, rest.
Qed.

(* appending something that starts with neither a digit nor '-' cannot create an id prefix *)
Definition stop_char (b : str) : Prop :=
  match b with [] => True | x :: _ => is_digit x = false /\ x <> SEP end.

Lemma take_digits_app_none k : forall a b, take_digits k a = None -> stop_char b ->
  take_digits k (a ++ b) = None.
Proof.
  induction k as [|k IH]; intros a b H Hb; cbn [take_digits] in *; [discriminate|].
  destruct a as [|c a]; cbn [app].
  - destruct b as [|x b]; [reflexivity|]. destruct Hb as [Hx _]. now rewrite Hx.
  - destruct (is_digit c); [|reflexivity].
    destruct (take_digits k a) as [[? ?]|] eqn:E; [discriminate|].
    now rewrite (IH _ _ E Hb).
Qed.

Lemma take_digits_app_some k a b ds r : take_digits k a = Some (ds, r) ->
  take_digits k (a ++ b) = Some (ds, r ++ b).
Proof.
  intro H. apply take_digits_inv in H as [-> [L D]]. rewrite <- app_assoc.
  apply take_digits_app; assumption.
Qed.

Lemma expect_app_none a b : expect SEP a = None -> stop_char b -> expect SEP (a ++ b) = None.
Proof.
  unfold expect. destruct a as [|x a]; cbn [app]; intros H Hb.
  - destruct b as [|y b]; [reflexivity|]. destruct Hb as [_ Hy].
    apply N.eqb_neq in Hy. now rewrite Hy.
  - destruct (x =? SEP); [discriminate|reflexivity].
Qed.

Lemma expect_app_some c a b r : expect c a = Some r -> expect c (a ++ b) = Some (r ++ b).
Proof. intro H. apply expect_inv in H as ->. cbn [app]. apply expect_cons. Qed.

Lemma match_id_app_none a b : match_id a = None -> stop_char b -> match_id (a ++ b) = None.
Proof.
  unfold match_id. intros H Hb.
  destruct (take_digits W_CUSTOMER a) as [[c t1]|] eqn:E1;
    [rewrite (take_digits_app_some _ _ b _ _ E1) | now rewrite (take_digits_app_none _ _ _ E1 Hb)].
  cbn [obind] in *.
  destruct (expect SEP t1) as [t2|] eqn:E2;
    [rewrite (expect_app_some _ _ b _ E2) | now rewrite (expect_app_none _ _ E2 Hb)].
  cbn [obind] in *.
  destruct (take_digits W_PROJECT t2) as [[p t3]|] eqn:E3;
    [rewrite (take_digits_app_some _ _ b _ _ E3) | now rewrite (take_digits_app_none _ _ _ E3 Hb)].
  cbn [obind] in *.
  destruct (expect SEP t3) as [t4|] eqn:E4;
    [rewrite (expect_app_some _ _ b _ E4) | now rewrite (expect_app_none _ _ E4 Hb)].
  cbn [obind] in *.
  destruct (take_digits W_DEVICE t4) as [[d t5]|] eqn:E5;
    [rewrite (take_digits_app_some _ _ b _ _ E5) | now rewrite (take_digits_app_none _ _ _ E5 Hb)].
  cbn [obind] in *.
  destruct (expect SEP t5) as [t6|] eqn:E6;
    [rewrite (expect_app_some _ _ b _ E6) | now rewrite (expect_app_none _ _ E6 Hb)].
  cbn [obind] in *.
  destruct (take_digits W_VERSION t6) as [[v t7]|] eqn:E7;
    [discriminate | now rewrite (take_digits_app_none _ _ _ E7 Hb)].
Qed.

(* the name-only tail  " (version dd)" *)
Definition version_text (v : str) : str := LIT_VERSION_OPEN ++ v ++ [LIT_VERSION_CLOSE].

Lemma version_text_length v : length (version_text v) = (11 + length v)%nat.
Proof. unfold version_text. rewrite !app_length. cbn. lia. Qed.

Lemma version_text_stop v : stop_char (version_text v).
Proof. cbn. split; [reflexivity|discriminate]. Qed.

Lemma match_version_here_text v rest : all_digits v -> length v = W_VERSION ->
  match_version_here (version_text v ++ rest) = Some (parse_dec v).
Proof.
  intros Hv Lv. unfold match_version_here, version_text. rewrite <- !app_assoc.
  rewrite expect_lit_app. cbn [obind]. rewrite (take_digits_app _ v _ Lv Hv). cbn [obind app].
  rewrite expect_cons. reflexivity.
Qed.

Lemma match_version_here_inv t n : match_version_here t = Some n ->
  exists v rest, all_digits v /\ length v = W_VERSION /\ t = version_text v ++ rest /\ n = parse_dec v.
Proof.
  unfold match_version_here. intro H.
  destruct (expect_lit LIT_VERSION_OPEN t) as [t1|] eqn:E1; [|discriminate]. cbn [obind] in H.
  destruct (take_digits W_VERSION t1) as [[v t2]|] eqn:E2; [|discriminate]. cbn [obind] in H.
  destruct (expect LIT_VERSION_CLOSE t2) as [t3|] eqn:E3; [|discriminate]. cbn [obind] in H.
  inversion H; subst. apply expect_lit_inv in E1 as ->.
  apply take_digits_inv in E2 as [-> [L D]]. apply expect_inv in E3 as ->.
  exists v, t3. repeat split; try assumption.
  unfold version_text. rewrite <- !app_assoc. reflexivity.
Qed.

(* soundness: what pattern 2 returns is a decomposition of the text *)
Lemma match_nameonly_sound : forall t nm n, match_nameonly t = Some (nm, n) ->
  single_line nm /\ exists v rest, all_digits v /\ length v = W_VERSION /\
    t = nm ++ version_text v ++ rest /\ n = parse_dec v.
Proof.
  induction t as [|c t IH]; intros nm n H; cbn [match_nameonly] in H; [discriminate|].
  destruct (c =? 10) eqn:Ec; [discriminate|]. apply N.eqb_neq in Ec.
  destruct (match_nameonly t) as [[nm' n']|] eqn:E.
  - inversion H; subst. destruct (IH _ _ eq_refl) as [S [v [rest [Hv [Lv [-> ->]]]]]].
    split; [apply single_line_cons; split; assumption|]. exists v, rest. repeat split; assumption.
  - destruct (match_version_here (c :: t)) as [n'|] eqn:E2; [|discriminate].
    inversion H; subst. split; [intros []|].
    apply match_version_here_inv in E2 as [v [rest [Hv [Lv [-> ->]]]]].
    exists v, rest. repeat split; assumption.
Qed.

(* completeness: if the first line contains " (version dd)" anywhere, pattern 2 matches *)
Lemma match_nameonly_complete : forall a v rest, single_line a -> all_digits v -> length v = W_VERSION ->
  exists nm n, match_nameonly (a ++ version_text v ++ rest) = Some (nm, n).
Proof.
  induction a as [|c a IH]; intros v rest Sa Hv Lv.
  - cbn [app]. pose proof (match_version_here_text v rest Hv Lv) as M.
    remember (version_text v ++ rest) as t eqn:Et.
    destruct t as [|c t]; [discriminate|].
    assert (Hc : c = 32) by (unfold version_text in Et; cbn in Et; congruence).
    cbn [match_nameonly]. subst c. change (32 =? 10) with false. cbv iota.
    destruct (match_nameonly t) as [[nm n]|]; [now exists (32 :: nm), n|].
    rewrite M. now exists [], (parse_dec v).
  - apply single_line_cons in Sa as [Hc Sa]. cbn [app match_nameonly].
    apply N.eqb_neq in Hc. rewrite Hc.
    destruct (IH v rest Sa Hv Lv) as [nm [n ->]]. now exists (c :: nm), n.
Qed.

(* greedy: the match found is the LAST one of the first line *)
Lemma match_nameonly_greedy : forall t nm n a v rest, match_nameonly t = Some (nm, n) ->
  single_line a -> all_digits v -> length v = W_VERSION -> t = a ++ version_text v ++ rest ->
  (length a <= length nm)%nat.
Proof.
  induction t as [|c t IH]; intros nm n a v rest H Sa Hv Lv Et; cbn [match_nameonly] in H; [discriminate|].
  destruct (c =? 10) eqn:Ec; [discriminate|].
  destruct a as [|x a]; [cbn; lia|].
  remember (version_text v ++ rest) as tl eqn:Etl.
  cbn [app] in Et. injection Et as -> ->. apply single_line_cons in Sa as [_ Sa].
  destruct (match_nameonly (a ++ tl)) as [[nm' n']|] eqn:E.
  - inversion H; subst nm n. cbn [length]. apply le_n_S.
    eapply (IH nm' n' a v rest); eauto. now subst tl.
  - destruct (match_nameonly_complete a v rest Sa Hv Lv) as [? [? E']]. subst tl. congruence.
Qed.

Lemma app_eq_len {A} : forall (a a' b b' : list A), a ++ b = a' ++ b' -> length a = length a' ->
  a = a' /\ b = b'.
Proof.
  induction a as [|x a IH]; intros [|y a'] b b' H L; cbn in *; try discriminate; [auto|].
  injection H as -> H. destruct (IH a' b b' H ltac:(lia)) as [-> ->]. auto.
Qed.

(* the printer's name-only text is matched with exactly the printed name *)
Lemma match_nameonly_text nm v : single_line nm -> all_digits v -> length v = W_VERSION ->
  match_nameonly (nm ++ version_text v) = Some (nm, parse_dec v).
Proof.
  intros S Hv Lv.
  destruct (match_nameonly_complete nm v [] S Hv Lv) as [nm' [n E]].
  rewrite app_nil_r in E. rewrite E.
  destruct (match_nameonly_sound _ _ _ E) as [S' [v' [rest' [Hv' [Lv' [Et ->]]]]]].
  pose proof (match_nameonly_greedy _ _ _ nm v [] E S Hv Lv ltac:(now rewrite app_nil_r)) as G.
  (* lengths force nm' = nm, rest' = [] *)
  assert (Ll : length (nm ++ version_text v) = length (nm' ++ version_text v' ++ rest')) by now rewrite Et.
  rewrite !app_length, !version_text_length, Lv, Lv' in Ll.
  assert (length nm' = length nm /\ rest' = []) as [Ln ->].
  { split; [lia|]. destruct rest'; [reflexivity|]. cbn [length] in Ll. lia. }
  rewrite app_nil_r in Et.
  assert (nm = nm' /\ version_text v = version_text v') as [<- Ev].
  { apply app_eq_len; [exact Et|now symmetry]. }
  unfold version_text in Ev. apply app_inv_head in Ev. apply app_inj_tail in Ev as [<- _].
  reflexivity.
Qed.

(* ------------------------------------------------------------------------- *)
(* constructor and printer *)

(* the number printed for an Optional field: UNKNOWN for None *)
Definition unk_default (x : option N) : N :=
  match norm_unknown x with Some y => y | None => CFGID_UNKNOWN end.

Definition opt_le (x : option N) (m : N) : Prop :=
  match x with Some y => y <= m | None => True end.

Lemma norm_some c : c <> 9999 -> norm_unknown (Some c) = Some c.
Proof. intro H. unfold norm_unknown. apply N.eqb_neq in H. unfold CFGID_UNKNOWN. now rewrite H. Qed.

Lemma norm_unknown_default x : norm_unknown (Some (unk_default x)) = norm_unknown x.
Proof.
  unfold unk_default. destruct x as [y|]; cbn [norm_unknown].
  - destruct (y =? CFGID_UNKNOWN) eqn:E; cbn [norm_unknown]; [now rewrite N.eqb_refl| now rewrite E].
  - now rewrite N.eqb_refl.
Qed.

Lemma unk_default_le x : opt_le x 9999 -> unk_default x <= 9999.
Proof.
  unfold unk_default, opt_le. destruct x as [y|]; cbn [norm_unknown]; intro H.
  - destruct (y =? CFGID_UNKNOWN); [unfold CFGID_UNKNOWN; lia | exact H].
  - unfold CFGID_UNKNOWN. lia.
Qed.

(* what __str__ appends after the numeric id *)
Definition name_tail (nm : option str) : str :=
  if name_falsy nm then [] else NAME_SEP ++ match nm with Some n => n | None => [] end.

Lemma cid_str_numeric c p d v nm : c <> 9999 ->
  cid_str (mk_cid (Some c) p d (Some v) nm) =
  Ok (id_text (fmt_dec W_CUSTOMER c) (fmt_dec W_PROJECT (unk_default p))
              (fmt_dec W_DEVICE (unk_default d)) (fmt_dec W_VERSION v) ++ name_tail nm).
Proof.
  intro Hc. unfold cid_str, is_baltech_naming_scheme, cfgid_str, is_device_settings, mk_cid.
  cbn [cid_customer cid_project cid_device cid_version cid_name].
  rewrite (norm_some c Hc). cbn [fmt_opt bind]. unfold unk_default, id_text, name_tail.
  destruct (norm_unknown d) as [d'|] eqn:Ed; [|reflexivity].
  destruct (d' =? 0) eqn:E0; [|reflexivity].
  apply N.eqb_eq in E0. subst d'. reflexivity.
Qed.

Lemma cid_str_nameonly c p d v nm : norm_unknown c = None ->
  cid_str (mk_cid c p d (Some v) (Some nm)) = Ok (nm ++ version_text (fmt_dec W_VERSION v)).
Proof.
  intro Hc. unfold cid_str, is_baltech_naming_scheme, mk_cid.
  cbn [cid_customer cid_version cid_name]. rewrite Hc. reflexivity.
Qed.

(* names that survive the numeric text form *)
Definition name_ok (nm : option str) : Prop :=
  match nm with None => True | Some s => s <> [] /\ single_line s end.

Lemma opt_name_tail nm : name_ok nm -> opt_name (name_tail nm) = nm.
Proof.
  destruct nm as [[|c s]|]; cbn; intro H; [destruct H as [H _]; congruence| |reflexivity].
  destruct H as [_ H]. unfold name_tail, opt_name, NAME_SEP. cbn [name_falsy app].
  f_equal. exact (first_line_single (c :: s) H).
Qed.

Lemma pow_widths : 10 ^ N.of_nat W_CUSTOMER = 100000 /\ 10 ^ N.of_nat W_PROJECT = 10000 /\
  10 ^ N.of_nat W_DEVICE = 10000 /\ 10 ^ N.of_nat W_VERSION = 100.
Proof. repeat split. Qed.

Lemma printed_fields_ok c p d v : c <= 99999 -> p <= 9999 -> d <= 9999 -> v <= 99 ->
  id_fields_ok (fmt_dec W_CUSTOMER c) (fmt_dec W_PROJECT p) (fmt_dec W_DEVICE d) (fmt_dec W_VERSION v).
Proof.
  intros Hc Hp Hd Hv. destruct pow_widths as [E1 [E2 [E3 E4]]].
  unfold id_fields_ok. repeat split; try apply fmt_dec_digits;
    apply fmt_dec_width; try (unfold W_CUSTOMER, W_PROJECT, W_DEVICE, W_VERSION; lia);
    rewrite ?E1, ?E2, ?E3, ?E4; lia.
Qed.

(* ------------------------------------------------------------------------- *)
(* round trips  identifier -> text -> identifier *)

Theorem roundtrip_numeric c p d v nm :
  c <= 99999 -> c <> 9999 -> opt_le p 9999 -> opt_le d 9999 -> v <= 99 -> name_ok nm ->
  exists t, cid_str (mk_cid (Some c) p d (Some v) nm) = Ok t /\
            create_from_str t = Ok (mk_cid (Some c) p d (Some v) nm).
Proof.
  intros Hc Hc' Hp Hd Hv Hn. eexists. split; [apply cid_str_numeric; exact Hc'|].
  unfold create_from_str, match_numeric.
  rewrite match_id_text
    by (apply printed_fields_ok; try assumption; apply unk_default_le; assumption).
  cbn [obind]. rewrite !parse_fmt_dec_all, (opt_name_tail _ Hn).
  unfold mk_cid. rewrite !norm_unknown_default. reflexivity.
Qed.

(* the conditions on the name are necessary *)
Lemma numeric_name_necessary c p d v nm t :
  c <> 9999 ->
  cid_str (mk_cid (Some c) p d (Some v) nm) = Ok t ->
  create_from_str t = Ok (mk_cid (Some c) p d (Some v) nm) ->
  c <= 99999 -> opt_le p 9999 -> opt_le d 9999 -> v <= 99 ->
  name_ok nm.
Proof.
  intros Hc' Hs Hp' Hc Hp Hd Hv. rewrite (cid_str_numeric _ _ _ _ _ Hc') in Hs. inversion Hs; subst t; clear Hs.
  unfold create_from_str, match_numeric in Hp'.
  rewrite match_id_text in Hp'
    by (apply printed_fields_ok; try assumption; apply unk_default_le; assumption).
  cbn [obind] in Hp'.
  apply (f_equal (fun r => match r with Ok i => cid_name i | Err _ => None end)) in Hp'.
  unfold mk_cid in Hp'. cbn [cid_name] in Hp'. rename Hp' into Hn. clear - Hn.
  destruct nm as [[|x s]|]; [discriminate| |exact I].
  unfold name_tail, opt_name, NAME_SEP in Hn. cbn [name_falsy app] in Hn.
  change (32 =? 32) with true in Hn. cbv iota in Hn. injection Hn as Hn.
  split; [discriminate|]. apply first_line_fixed. exact Hn.
Qed.

Theorem roundtrip_nameonly c p d v nm :
  norm_unknown c = None -> norm_unknown p = None -> norm_unknown d = None ->
  v <= 99 -> single_line nm -> ~ id_prefixed nm ->
  exists t, cid_str (mk_cid c p d (Some v) (Some nm)) = Ok t /\
            create_from_str t = Ok (mk_cid c p d (Some v) (Some nm)).
Proof.
  intros Hc Hp Hd Hv Hs Hi. eexists. split; [apply cid_str_nameonly; exact Hc|].
  assert (Hf : all_digits (fmt_dec W_VERSION v) /\ length (fmt_dec W_VERSION v) = W_VERSION).
  { split; [apply fmt_dec_digits|]. apply fmt_dec_width; [|unfold W_VERSION; lia].
    destruct pow_widths as [_ [_ [_ E]]]. rewrite E. lia. }
  destruct Hf as [Hf Lf].
  unfold create_from_str, match_numeric.
  rewrite (match_id_app_none nm _ (proj2 (match_id_none_iff nm) Hi) (version_text_stop _)).
  cbn [obind]. rewrite (match_nameonly_text nm _ Hs Hf Lf), parse_fmt_dec_all.
  unfold mk_cid. rewrite Hc, Hp, Hd. reflexivity.
Qed.

(* what a successful parse returns, declaratively *)
Lemma create_from_str_numeric_spec c p d v rest : id_fields_ok c p d v ->
  create_from_str (id_text c p d v ++ rest) =
  Ok (mk_cid (Some (parse_dec c)) (Some (parse_dec p)) (Some (parse_dec d)) (Some (parse_dec v))
             (match rest with x :: r => if x =? 32 then Some (first_line r) else None | [] => None end)).
Proof.
  intro H. unfold create_from_str, match_numeric. rewrite (match_id_text _ _ _ _ _ H). reflexivity.
Qed.

Lemma first_line_length t : (length (first_line t) <= length t)%nat.
Proof.
  induction t as [|c t IH]; [cbn; lia|]. cbn [first_line]. destruct (c =? 10); cbn [length]; lia.
Qed.

(* the condition "not id-prefixed" is necessary: an id-prefixed name is read by pattern 1,
   and the identifier that comes back never has the same name *)
Lemma nameonly_prefixed_fails c p d v nm t :
  norm_unknown c = None -> v <= 99 -> id_prefixed nm ->
  cid_str (mk_cid c p d (Some v) (Some nm)) = Ok t ->
  exists i, create_from_str t = Ok i /\ cid_name i <> Some nm.
Proof.
  intros Hc Hv [c' [p' [d' [v' [rest [Hok ->]]]]]] Hs.
  rewrite (cid_str_nameonly _ _ _ _ _ Hc) in Hs. injection Hs as <-.
  rewrite <- app_assoc. rewrite (create_from_str_numeric_spec _ _ _ _ _ Hok).
  eexists. split; [reflexivity|]. unfold mk_cid. cbn [cid_name].
  assert (Lv : length (version_text (fmt_dec W_VERSION v)) = 13%nat).
  { rewrite version_text_length, fmt_dec_width; [reflexivity| |unfold W_VERSION; lia].
    destruct pow_widths as [_ [_ [_ E]]]. rewrite E. lia. }
  assert (Lid : length (id_text c' p' d' v') = 18%nat).
  { destruct Hok as [[_ L1] [[_ L2] [[_ L3] [_ L4]]]]. unfold id_text.
    rewrite !app_length, L1, L2, L3, L4. reflexivity. }
  destruct (rest ++ version_text (fmt_dec W_VERSION v)) as [|x r] eqn:E; [discriminate|].
  destruct (x =? 32); [|discriminate].
  intro H. injection H as H. apply (f_equal (@length N)) in H.
  apply (f_equal (@length N)) in E. rewrite app_length, Lv in E. cbn [length] in E.
  rewrite app_length, Lid in H. pose proof (first_line_length r). lia.
Qed.


Lemma id_prefixed_dec t : id_prefixed t \/ ~ id_prefixed t.
Proof.
  destruct (match_id t) eqn:E; [left|right; now apply match_id_none_iff].
  destruct p as [[[[c p] d] v] rest]. apply match_id_inv in E as [Hok ->]. now exists c, p, d, v, rest.
Qed.

(* exactly the single-line names that are not id-prefixed survive the name-only text form *)
Theorem roundtrip_nameonly_iff c p d v nm :
  norm_unknown c = None -> norm_unknown p = None -> norm_unknown d = None -> v <= 99 ->
  ((exists t, cid_str (mk_cid c p d (Some v) (Some nm)) = Ok t /\
              create_from_str t = Ok (mk_cid c p d (Some v) (Some nm)))
   <-> single_line nm /\ ~ id_prefixed nm).
Proof.
  intros Hc Hp Hd Hv. split.
  - intros [t [Hs Hb]].
    destruct (id_prefixed_dec nm) as [Hi|Hi].
    + destruct (nameonly_prefixed_fails _ p d _ _ _ Hc Hv Hi Hs) as [i [Hb' Hn]].
      rewrite Hb in Hb'. injection Hb' as <-. exfalso. apply Hn. reflexivity.
    + split; [|exact Hi].
      rewrite (cid_str_nameonly _ _ _ _ _ Hc) in Hs. injection Hs as <-.
      unfold create_from_str, match_numeric in Hb.
      rewrite (match_id_app_none nm _ (proj2 (match_id_none_iff nm) Hi) (version_text_stop _)) in Hb.
      cbn [obind] in Hb.
      destruct (match_nameonly (nm ++ version_text (fmt_dec W_VERSION v))) as [[nm' n]|] eqn:E; [|discriminate].
      apply match_nameonly_sound in E as [S _].
      apply (f_equal (fun r => match r with Ok i => cid_name i | Err _ => None end)) in Hb.
      unfold mk_cid in Hb. cbn [cid_name] in Hb. injection Hb as <-. exact S.
  - intros [Hs Hi]. now apply roundtrip_nameonly.
Qed.

Theorem roundtrip_numeric_iff c p d v nm :
  c <= 99999 -> c <> 9999 -> opt_le p 9999 -> opt_le d 9999 -> v <= 99 ->
  ((exists t, cid_str (mk_cid (Some c) p d (Some v) nm) = Ok t /\
              create_from_str t = Ok (mk_cid (Some c) p d (Some v) nm))
   <-> name_ok nm).
Proof.
  intros Hc Hc' Hp Hd Hv. split.
  - intros [t [Hs Hb]]. eapply numeric_name_necessary; eauto.
  - now apply roundtrip_numeric.
Qed.

(* ------------------------------------------------------------------------- *)
(* round trip  text -> identifier -> text  for canonical text *)

Definition canonical_numeric (t : str) : Prop :=
  exists c p d v tail, id_fields_ok c p d v /\ parse_dec c <> 9999 /\ t = id_text c p d v ++ tail /\
    (tail = [] \/ exists nm, nm <> [] /\ single_line nm /\ tail = 32 :: nm).

Definition canonical_nameonly (t : str) : Prop :=
  ~ id_prefixed t /\
  exists nm v, single_line nm /\ all_digits v /\ length v = W_VERSION /\ t = nm ++ version_text v.

Definition canonical (t : str) : Prop := canonical_numeric t \/ canonical_nameonly t.

Lemma fmt_zero_device : fmt_dec W_DEVICE 0 = repeat 48 W_DEVICE.
Proof. reflexivity. Qed.

Theorem text_roundtrip t i : create_from_str t = Ok i -> canonical t -> cid_str i = Ok t.
Proof.
  intros Hp [[c [p [d [v [tail [Hok [Hc [-> Ht]]]]]]]] | [Hnp [nm [v [Hs [Hv [Lv ->]]]]]]].
  - unfold create_from_str, match_numeric in Hp. rewrite (match_id_text _ _ _ _ _ Hok) in Hp.
    cbn [obind] in Hp. inversion Hp; subst i; clear Hp.
    rewrite (cid_str_numeric _ _ _ _ _ Hc).
    destruct Hok as [[Dc Lc] [[Dp Lp] [[Dd Ld] [Dv Lv]]]].
    assert (U : forall x, unk_default (Some x) = x).
    { intro x. unfold unk_default. cbn [norm_unknown].
      destruct (x =? CFGID_UNKNOWN) eqn:E; [apply N.eqb_eq in E; now subst|reflexivity]. }
    rewrite !U.
    rewrite <- Lc at 1. rewrite <- Lp at 1. rewrite <- Ld at 1. rewrite <- Lv at 1.
    rewrite !fmt_dec_parse_dec
      by (try assumption; rewrite ?Lc, ?Lp, ?Ld, ?Lv; unfold W_CUSTOMER, W_PROJECT, W_DEVICE, W_VERSION; lia).
    do 2 f_equal.
    destruct Ht as [-> | [nm [Hne [Hs ->]]]]; [reflexivity|].
    unfold opt_name. change (32 =? 32) with true. cbv iota. rewrite (first_line_single _ Hs).
    unfold name_tail. destruct nm; [congruence|reflexivity].
  - unfold create_from_str, match_numeric in Hp.
    rewrite (proj2 (match_id_none_iff _) Hnp) in Hp. cbn [obind] in Hp.
    rewrite (match_nameonly_text nm v Hs Hv Lv) in Hp. inversion Hp; subst i; clear Hp.
    rewrite cid_str_nameonly by reflexivity.
    rewrite <- Lv at 1. rewrite fmt_dec_parse_dec by (try assumption; rewrite Lv; unfold W_VERSION; lia).
    reflexivity.
Qed.

(* the printer's output for identifiers in range is canonical text *)
Lemma printed_numeric_canonical c p d v nm t :
  c <= 99999 -> c <> 9999 -> opt_le p 9999 -> opt_le d 9999 -> v <= 99 -> name_ok nm ->
  cid_str (mk_cid (Some c) p d (Some v) nm) = Ok t -> canonical t.
Proof.
  intros Hc Hc' Hp Hd Hv Hn Hs. rewrite (cid_str_numeric _ _ _ _ _ Hc') in Hs. inversion Hs; subst t.
  left. eexists _, _, _, _, _. split; [|split; [|split; [reflexivity|]]].
  - apply printed_fields_ok; try assumption; apply unk_default_le; assumption.
  - now rewrite parse_fmt_dec_all.
  - destruct nm as [[|x s]|]; [destruct Hn; congruence| |now left].
    right. exists (x :: s). destruct Hn. repeat split; try assumption.
Qed.

(* ------------------------------------------------------------------------- *)
(* errors of create_from_str, and a declarative description of what is parsable *)

Lemma create_from_str_errors t : (exists i, create_from_str t = Ok i) \/ create_from_str t = Err ECfgId.
Proof.
  unfold create_from_str. destruct (match_numeric t) as [[[[[c p] d] v] nm]|]; [left; eauto|].
  destruct (match_nameonly t) as [[nm v]|]; [left; eauto|now right].
Qed.

Definition has_version_tail (t : str) : Prop :=
  exists a v rest, single_line a /\ all_digits v /\ length v = W_VERSION /\ t = a ++ version_text v ++ rest.

Lemma create_from_str_error_iff t :
  create_from_str t = Err ECfgId <-> ~ id_prefixed t /\ ~ has_version_tail t.
Proof.
  unfold create_from_str, match_numeric. split.
  - intro H. destruct (match_id t) as [[[[[c p] d] v] rest]|] eqn:E1; [discriminate|].
    cbn [obind] in H. destruct (match_nameonly t) as [[nm v]|] eqn:E2; [discriminate|].
    split; [now apply match_id_none_iff|].
    intros [a [v [rest [Sa [Hv [Lv ->]]]]]].
    destruct (match_nameonly_complete a v rest Sa Hv Lv) as [? [? E]]. congruence.
  - intros [H1 H2]. rewrite (proj2 (match_id_none_iff t) H1). cbn [obind].
    destruct (match_nameonly t) as [[nm v]|] eqn:E2; [|reflexivity].
    exfalso. apply H2. destruct (match_nameonly_sound _ _ _ E2) as [S [v' [rest [Hv [Lv [-> _]]]]]].
    now exists nm, v', rest.
Qed.


Lemma create_from_str_nameonly_spec t i : ~ id_prefixed t -> create_from_str t = Ok i ->
  exists nm v rest, single_line nm /\ all_digits v /\ length v = W_VERSION /\
    t = nm ++ version_text v ++ rest /\
    i = mk_cid None None None (Some (parse_dec v)) (Some nm) /\
    (* greedy: no later occurrence on the first line *)
    forall a v' rest', single_line a -> all_digits v' -> length v' = W_VERSION ->
      t = a ++ version_text v' ++ rest' -> (length a <= length nm)%nat.
Proof.
  intros H1 H. unfold create_from_str, match_numeric in H.
  rewrite (proj2 (match_id_none_iff t) H1) in H. cbn [obind] in H.
  destruct (match_nameonly t) as [[nm n]|] eqn:E; [|discriminate]. inversion H; subst i.
  destruct (match_nameonly_sound _ _ _ E) as [S [v [rest [Hv [Lv [Et ->]]]]]].
  exists nm, v, rest. repeat split; try assumption.
  intros a v' rest' Sa Hv' Lv' Et'. eapply match_nameonly_greedy; eauto.
Qed.

(* ------------------------------------------------------------------------- *)
(* bytes.decode(): the only error is UnicodeDecodeError; ASCII decodes to itself;
   only the empty byte string decodes to the empty name *)

Ltac utf8_tac IH :=
  repeat match goal with
  | H : Err EUnicode = Err _ |- _ => now inversion H
  | H : rmap _ (utf8_decode_n ?r) = Err _ |- _ =>
      let E := fresh "E" in
      destruct (utf8_decode_n r) eqn:E; cbn [rmap] in H;
      [discriminate | injection H as <-; eapply (IH r); [cbn [length] in *; lia | exact E]]
  | H : (if ?c then _ else _) = Err _ |- _ => destruct c
  | H : match ?r with [] => _ | _ :: _ => _ end = Err _ |- _ => destruct r
  end.

Lemma utf8_decode_n_err_aux n : forall b, (length b <= n)%nat ->
  forall e, utf8_decode_n b = Err e -> e = EUnicode.
Proof.
  induction n as [|n IH]; intros b L e H.
  - destruct b; [discriminate|cbn in L; lia].
  - destruct b as [|b0 r]; [discriminate|]. cbn [utf8_decode_n] in H. cbv zeta in H.
    cbn [length] in L. utf8_tac IH.
Qed.

Lemma utf8_decode_err b e : utf8_decode b = Err e -> e = EUnicode.
Proof. unfold utf8_decode. apply (utf8_decode_n_err_aux _ _ (le_n _)). Qed.

Lemma utf8_decode_n_ascii b : Forall (fun x => x < 128) b -> utf8_decode_n b = Ok b.
Proof.
  induction 1 as [|x b Hx _ IH]; [reflexivity|]. cbn [utf8_decode_n].
  apply N.ltb_lt in Hx. rewrite Hx, IH. reflexivity.
Qed.

Lemma utf8_decode_n_nil b : utf8_decode_n b = Ok [] -> b = [].
Proof.
  destruct b as [|b0 r]; [reflexivity|]. cbn [utf8_decode_n]. cbv zeta. intro H. exfalso.
  repeat match goal with
  | H : Err _ = Ok _ |- _ => discriminate H
  | H : rmap _ ?x = Ok [] |- _ => destruct x; cbn [rmap] in H; discriminate H
  | H : (if ?c then _ else _) = Ok _ |- _ => destruct c
  | H : match ?r with [] => _ | _ :: _ => _ end = Ok _ |- _ => destruct r
  end.
Qed.

Lemma utf8_decode_nil b : utf8_decode b = Ok [] <-> b = [].
Proof.
  split; [|intros ->; reflexivity]. unfold utf8_decode. intro H. apply utf8_decode_n_nil in H.
  destruct b; [reflexivity|discriminate].
Qed.

(* ------------------------------------------------------------------------- *)
(* the factories: complete case table over the naming values that are present *)

Definition decode_opt (o : option bytes) : result (option str) :=
  match o with Some b => rmap Some (utf8_decode b) | None => Ok None end.

Lemma decode_name_eq cfg k : decode_name cfg k = decode_opt (cfg_get cfg k).
Proof.
  unfold decode_name, decode_opt. destruct (cfg_get cfg k) as [b|]; [|reflexivity].
  destruct (utf8_decode b); reflexivity.
Qed.

Lemma decode_opt_err o e : decode_opt o = Err e -> e = EUnicode.
Proof.
  destruct o as [b|]; cbn [decode_opt]; [|discriminate].
  destruct (utf8_decode b) eqn:E; cbn [rmap]; [discriminate|].
  intro H; injection H as <-. eapply utf8_decode_err; eauto.
Qed.

(* config.get((0x620, 0x02), b"\0\0") read as a number *)
Definition device_of (o : option bytes) : N := match o with Some b => from_be b | None => 0 end.

Theorem prj_table cfg :
  match cfg_get cfg (K 0x07) with
  | None => create_from_prj_settings cfg = Err EMissPrj
  | Some vb =>
    match decode_opt (cfg_get cfg (K 0x06)) with
    | Err _ => create_from_prj_settings cfg = Err EUnicode
    | Ok nm =>
      match cfg_get cfg (K 0x01), cfg_get cfg (K 0x05) with
      | Some cb, Some pb =>
        create_from_prj_settings cfg =
        Ok (mk_cid (Some (from_be cb)) (Some (from_be pb)) (Some (device_of (cfg_get cfg (K 0x02))))
                   (Some (from_be vb)) nm)
      | _, _ =>
        create_from_prj_settings cfg =
        if name_falsy nm then Err EMissPrj else Ok (mk_cid None None None (Some (from_be vb)) nm)
      end
    end
  end.
Proof.
  unfold create_from_prj_settings, dict_getitem, dict_get, device_of. rewrite decode_name_eq.
  destruct (cfg_get cfg (K 7)) as [vb|]; [|reflexivity]. cbn [bind catch].
  destruct (decode_opt (cfg_get cfg (K 6))) as [nm|e] eqn:En.
  2:{ cbn [bind]. now rewrite (decode_opt_err _ _ En). }
  cbn [bind].
  destruct (cfg_get cfg (K 1)) as [cb|]; cbn [bind is_key_error err_eqb].
  - destruct (cfg_get cfg (K 5)) as [pb|]; cbn [bind is_key_error err_eqb].
    + destruct (cfg_get cfg (K 2)); reflexivity.
    + destruct (name_falsy nm); reflexivity.
  - destruct (cfg_get cfg (K 5)); destruct (name_falsy nm); reflexivity.
Qed.

Theorem dev_table cfg :
  match cfg_get cfg (K 0x04) with
  | None => create_from_dev_settings cfg = Err EMissDev
  | Some vb =>
    match decode_opt (cfg_get cfg (K 0x03)) with
    | Err _ => create_from_dev_settings cfg = Err EUnicode
    | Ok nm =>
      match cfg_get cfg (K 0x01) with
      | Some cb =>
        create_from_dev_settings cfg =
        Ok (mk_cid (Some (from_be cb)) (Some 0) (Some (device_of (cfg_get cfg (K 0x02))))
                   (Some (from_be vb)) nm)
      | None =>
        create_from_dev_settings cfg =
        if name_falsy nm then Err EMissDev else Ok (mk_cid None (Some 0) None (Some (from_be vb)) nm)
      end
    end
  end.
Proof.
  unfold create_from_dev_settings, dict_getitem, dict_get, device_of. rewrite decode_name_eq.
  destruct (cfg_get cfg (K 4)) as [vb|]; [|reflexivity]. cbn [bind catch].
  destruct (decode_opt (cfg_get cfg (K 3))) as [nm|e] eqn:En.
  2:{ cbn [bind]. now rewrite (decode_opt_err _ _ En). }
  cbn [bind].
  destruct (cfg_get cfg (K 1)) as [cb|]; cbn [bind is_key_error err_eqb].
  - destruct (cfg_get cfg (K 2)); reflexivity.
  - destruct (name_falsy nm); reflexivity.
Qed.

(* the documented error, exactly when the version is absent or (scheme incomplete and no name) *)
Definition no_name (o : option bytes) : Prop := o = None \/ o = Some [].

Lemma decode_opt_falsy o nm : decode_opt o = Ok nm -> (name_falsy nm = true <-> no_name o).
Proof.
  unfold no_name. destruct o as [b|]; cbn [decode_opt].
  - destruct (utf8_decode b) as [s|] eqn:E; cbn [rmap]; [|discriminate].
    intro H; injection H as <-. cbn [name_falsy]. split.
    + destruct s; [|discriminate]. intros _. right. f_equal. now apply utf8_decode_nil.
    + intros [H|H]; [discriminate|]. injection H as ->. cbn in E. now injection E as <-.
  - intro H; injection H as <-. cbn. tauto.
Qed.

Theorem prj_missing_iff cfg :
  create_from_prj_settings cfg = Err EMissPrj <->
  cfg_get cfg (K 0x07) = None \/
  ((cfg_get cfg (K 0x01) = None \/ cfg_get cfg (K 0x05) = None) /\ no_name (cfg_get cfg (K 0x06))).
Proof.
  pose proof (prj_table cfg) as T.
  destruct (cfg_get cfg (K 7)) as [vb|]; [|split; auto].
  destruct (decode_opt (cfg_get cfg (K 6))) as [nm|e] eqn:En.
  - pose proof (decode_opt_falsy _ _ En) as F.
    destruct (cfg_get cfg (K 1)) as [cb|]; [destruct (cfg_get cfg (K 5)) as [pb|]|]; rewrite T.
    + split; [discriminate|]. intros [H|[[H|H] _]]; discriminate.
    + destruct (name_falsy nm); split; try discriminate; try tauto.
      intros [H|[_ H]]; [discriminate|]. apply F in H. discriminate.
    + destruct (name_falsy nm); split; try discriminate; try tauto.
      intros [H|[_ H]]; [discriminate|]. apply F in H. discriminate.
  - rewrite T. split; [discriminate|]. intros [H|[_ [H|H]]]; [discriminate| |];
      rewrite H in En; cbn in En; discriminate.
Qed.

Theorem dev_missing_iff cfg :
  create_from_dev_settings cfg = Err EMissDev <->
  cfg_get cfg (K 0x04) = None \/ (cfg_get cfg (K 0x01) = None /\ no_name (cfg_get cfg (K 0x03))).
Proof.
  pose proof (dev_table cfg) as T.
  destruct (cfg_get cfg (K 4)) as [vb|]; [|split; auto].
  destruct (decode_opt (cfg_get cfg (K 3))) as [nm|e] eqn:En.
  - pose proof (decode_opt_falsy _ _ En) as F.
    destruct (cfg_get cfg (K 1)) as [cb|]; rewrite T.
    + split; [discriminate|]. intros [H|[H _]]; discriminate.
    + destruct (name_falsy nm); split; try discriminate; try tauto.
      intros [H|[_ H]]; [discriminate|]. apply F in H. discriminate.
  - rewrite T. split; [discriminate|]. intros [H|[_ [H|H]]]; [discriminate| |];
      rewrite H in En; cbn in En; discriminate.
Qed.
