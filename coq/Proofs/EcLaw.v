(* C17 - the chord-and-tangent group law of `aff_add` (Proofs/EcSmall.v) for EVERY odd
   prime p and every curve y^2 = x^3 + a x + b over Z_p, proved without enumeration.

   Results (full statements at the end of the file, each with Print Assumptions):
     L1  closure of chord / tangent / negation, reduced results;
     L2  identity, commutativity, inverse;
     L3  generic associativity (four chords), both coordinates;
     L4  associativity with doublings: (P+P)+R, (P+Q)+(P+Q), (P+P)+(P+P);
     L5  associativity on all of E(F_p) including every degenerate configuration
         (non-singular curve), cancellation, and: the multiples of a base point of odd
         order satisfy the record `ec_group` of Model/Ec.v with gadd = aff_add,
         gneg = aff_neg - i.e. the group-law HYPOTHESIS of the C17 theorems is a theorem.

   Method: points in Jacobian form (X, Y, W) ~ (X/W^2, Y/W^3) with polynomial
   coordinates; each computational configuration reduces to a polynomial identity
   G = q2 * R2 + q3 * R3  (R_i = differences of curve equations) whose cofactors were
   computed offline (tools/offline/eclaw_certs.py) and are checked by `ring` over Z in
   Proofs/EcLawCerts.v.  No nsatz, no field: all steps are division free.  The case
   analysis follows L. Thery, "Proving the group law for elliptic curves formally" (2007):
   (P+Q)-Q = P by direct computation, hence cancellation, hence the degenerate cases.

   `aff_add` doubles a point with y == 0 to a garbage value (tangent branch with inverse
   0), so the group law on all of E(F_p) is stated for `ec_add`, which returns infinity
   there and agrees with `aff_add` everywhere else; in a subgroup of odd order there is
   no such point and the two coincide. *)
From Coq Require Import List Bool ZArith Lia Ring Setoid Morphisms Znumtheory PeanoNat.
From Bec2 Require Import Base.Modp Model.Ec Proofs.EcSmall Proofs.EcFieldZp Proofs.EcLawCerts.
Import ListNotations.
Open Scope Z_scope.

(* reduced coordinates *)
Definition redp (p : Z) (q : aff) : Prop := 0 <= fst q < p /\ 0 <= snd q < p.

(* on the curve (or infinity) *)
Definition oc (p a b : Z) (P : pt) : Prop :=
  match P with None => True | Some q => on_curve p a b q end.

(* on the curve with reduced coordinates (or infinity): the elements of E(F_p) *)
Definition ec_wf (p a b : Z) (P : pt) : Prop :=
  match P with None => True | Some q => redp p q /\ on_curve p a b q end.

(* aff_add, except that doubling a point with y == 0 gives infinity *)
Definition ec_add (p a : Z) (P Q : pt) : pt :=
  match P, Q with
  | Some (x1, y1), Some (x2, y2) =>
      if eqmb p x1 x2 && eqmb p y1 y2 && eqmb p y1 0 then None else aff_add p a P Q
  | _, _ => aff_add p a P Q
  end.

(* chord position / tangent position *)
Definition xne (p : Z) (P Q : pt) : Prop :=
  match P, Q with Some (x1, _), Some (x2, _) => ~ eqm p x1 x2 | _, _ => False end.
Definition ynz (p : Z) (P : pt) : Prop :=
  match P with Some (_, y) => ~ eqm p y 0 | None => False end.

Section Law.
Variable p : Z.
Hypothesis Hp : prime p.
Hypothesis Hp2 : 2 < p.
Variables a b : Z.
Notation "x == y" := (eqm p x y) (at level 70, no associativity).
Notation pS q := (@Some aff q) (only parsing).

Add Ring eqm_ring_law : (eqm_rt p)
  (setoid (eqm_equiv p) (eqm_ext p), morphism (eqm_morph p), constants [Zcst]).

Lemma Hp0 : 0 < p.
Proof. lia. Qed.

(* ------------------------------------------------------------------ *)
(* small algebra *)

Lemma nz_mul c d : ~ c == 0 -> ~ d == 0 -> ~ c * d == 0.
Proof. apply eqm_mul_nz, Hp. Qed.

Lemma cancel_r c t : ~ c == 0 -> t * c == 0 -> t == 0.
Proof. intros Hc H. destruct (eqm_integral p t c Hp H); tauto. Qed.

Lemma cancel_eq c s t : ~ c == 0 -> s * c == t * c -> s == t.
Proof.
  intros Hc H. apply eqm_sub_0. apply (cancel_r c); [exact Hc|].
  transitivity (s * c - t * c); [ring|]. rewrite H. ring.
Qed.

Lemma neq_sub u v : ~ u == v -> ~ v - u == 0.
Proof. intros H E. apply H. symmetry. apply eqm_sub_0. exact E. Qed.

Lemma two_nz : ~ 2 == 0.
Proof. apply eqm_2_nz, Hp2. Qed.

Lemma two_y_nz y : ~ y == 0 -> ~ 2 * y == 0.
Proof. intro H. apply nz_mul; [apply two_nz | exact H]. Qed.

Lemma neg_self y : y == - y -> y == 0.
Proof.
  intro H. apply (cancel_r 2); [apply two_nz|].
  transitivity (y - - y); [ring|]. rewrite <- H. ring.
Qed.

Lemma sq_eq u v : u * u == v * v -> u == v \/ u == - v.
Proof.
  intro H. assert (E : (u - v) * (u + v) == 0).
  { transitivity (u * u - v * v); [ring|]. rewrite H. ring. }
  destruct (eqm_integral p _ _ Hp E) as [E1|E1]; [left|right].
  - apply eqm_sub_0. exact E1.
  - apply eqm_sub_0. rewrite <- E1. ring.
Qed.

Lemma redp_eq q q' : redp p q -> redp p q' -> fst q == fst q' -> snd q == snd q' -> q = q'.
Proof.
  destruct q as [x y], q' as [x' y']. unfold redp. cbn [fst snd]. intros [? ?] [? ?] E1 E2.
  f_equal; apply (eqm_small_eq p); assumption.
Qed.

Lemma redp_mod u v : redp p (u mod p, v mod p).
Proof. split; cbn [fst snd]; apply Z.mod_pos_bound; lia. Qed.

Lemma red_eqm_eq u v : 0 <= u < p -> 0 <= v < p -> u == v -> u = v.
Proof. apply eqm_small_eq. Qed.

Ltac fold_aff := change (@Some (prod Z Z)) with (@Some aff) in *.

Ltac eqmb_case x y E :=
  destruct (eqm_dec p x y) as [E|E];
  [rewrite (proj2 (eqmb_spec p x y) E) | rewrite (proj2 (eqmb_false p x y) E)].

(* ------------------------------------------------------------------ *)
(* aff_add branch by branch *)

Lemma aff_add_chord x1 y1 x2 y2 : ~ x1 == x2 ->
  exists q, aff_add p a (pS (x1, y1)) (pS (x2, y2)) = Some q /\ redp p q /\
            add_rel p (x1, y1) (x2, y2) q.
Proof.
  intro Hx. unfold aff_add. rewrite (proj2 (eqmb_false p x1 x2) Hx).
  eexists. split; [reflexivity|]. split; [apply redp_mod|].
  unfold add_rel. exists ((y2 - y1) * aff_inv p (x2 - x1) mod p). repeat split.
  - rewrite mod_eqm.
    transitivity ((y2 - y1) * (aff_inv p (x2 - x1) * (x2 - x1))); [ring|].
    rewrite (aff_inv_l p (x2 - x1) Hp (neq_sub _ _ Hx)). ring.
  - apply mod_eqm.
  - apply mod_eqm.
Qed.

Lemma aff_add_tangent x1 y1 x2 y2 : x1 == x2 -> y1 == y2 -> ~ y1 == 0 ->
  exists q, aff_add p a (pS (x1, y1)) (pS (x2, y2)) = Some q /\ redp p q /\
            dbl_rel p a (x1, y1) q.
Proof.
  intros Hx Hy Hy0. unfold aff_add.
  rewrite (proj2 (eqmb_spec p x1 x2) Hx), (proj2 (eqmb_spec p y1 y2) Hy).
  eexists. split; [reflexivity|]. split; [apply redp_mod|].
  unfold dbl_rel. exists ((3 * x1 * x1 + a) * aff_inv p (2 * y1) mod p). repeat split.
  - rewrite mod_eqm.
    transitivity ((3 * x1 * x1 + a) * (aff_inv p (2 * y1) * (2 * y1))); [ring|].
    rewrite (aff_inv_l p (2 * y1) Hp (two_y_nz _ Hy0)). ring.
  - apply mod_eqm.
  - apply mod_eqm.
Qed.

Lemma aff_add_opposite x1 y1 x2 y2 : x1 == x2 -> ~ y1 == y2 ->
  aff_add p a (pS (x1, y1)) (pS (x2, y2)) = None.
Proof.
  intros Hx Hy. unfold aff_add.
  rewrite (proj2 (eqmb_spec p x1 x2) Hx), (proj2 (eqmb_false p y1 y2) Hy). reflexivity.
Qed.

Lemma aff_add_fin_red x1 y1 x2 y2 q :
  aff_add p a (pS (x1, y1)) (pS (x2, y2)) = Some q -> redp p q.
Proof.
  unfold aff_add. destruct (eqmb p x1 x2); [destruct (eqmb p y1 y2); [|discriminate]|];
    intro H; injection H as <-; apply redp_mod.
Qed.

(* congruent operands give the same (reduced) result *)
Lemma aff_add_proper x1 y1 x2 y2 x1' y1' x2' y2' :
  x1 == x1' -> y1 == y1' -> x2 == x2' -> y2 == y2' ->
  aff_add p a (pS (x1, y1)) (pS (x2, y2)) = aff_add p a (pS (x1', y1')) (pS (x2', y2')).
Proof.
  intros E1 E2 E3 E4. unfold aff_add.
  assert (B1 : eqmb p x1 x2 = eqmb p x1' x2').
  { unfold eqmb. apply eqm_def in E1, E3. rewrite E1, E3. reflexivity. }
  assert (B2 : eqmb p y1 y2 = eqmb p y1' y2').
  { unfold eqmb. apply eqm_def in E2, E4. rewrite E2, E4. reflexivity. }
  rewrite B1, B2. destruct (eqmb p x1' x2'); [destruct (eqmb p y1' y2'); [|reflexivity]|].
  - assert (L : (3 * x1 * x1 + a) * aff_inv p (2 * y1) mod p
                == (3 * x1' * x1' + a) * aff_inv p (2 * y1') mod p).
    { rewrite !mod_eqm. rewrite E1, E2. reflexivity. }
    set (l := (3 * x1 * x1 + a) * aff_inv p (2 * y1) mod p) in *.
    set (l' := (3 * x1' * x1' + a) * aff_inv p (2 * y1') mod p) in *.
    assert (X : (l * l - 2 * x1) mod p = (l' * l' - 2 * x1') mod p).
    { apply eqm_def. rewrite L, E1. reflexivity. }
    rewrite X. f_equal. f_equal. apply eqm_def. rewrite L, E1, E2. reflexivity.
  - assert (L : (y2 - y1) * aff_inv p (x2 - x1) mod p == (y2' - y1') * aff_inv p (x2' - x1') mod p).
    { rewrite !mod_eqm. rewrite E1, E2, E3, E4. reflexivity. }
    set (l := (y2 - y1) * aff_inv p (x2 - x1) mod p) in *.
    set (l' := (y2' - y1') * aff_inv p (x2' - x1') mod p) in *.
    assert (X : (l * l - x1 - x2) mod p = (l' * l' - x1' - x2') mod p).
    { apply eqm_def. rewrite L, E1, E3. reflexivity. }
    rewrite X. f_equal. f_equal. apply eqm_def. rewrite L, E1, E2. reflexivity.
Qed.

(* ------------------------------------------------------------------ *)
(* the relations: symmetry, uniqueness, closure *)

Lemma add_rel_sym' a1 a2 a3 : add_rel p a1 a2 a3 -> add_rel p a2 a1 a3.
Proof.
  destruct a1 as [x1 y1], a2 as [x2 y2], a3 as [x3 y3]. intros [l [H1 [H2 H3]]].
  exists l. split; [|split].
  - transitivity (- (l * (x2 - x1))); [ring|]. rewrite H1. ring.
  - rewrite H2. ring.
  - rewrite H3.
    transitivity (l * (x2 - x3) - y2 + ((y2 - y1) - l * (x2 - x1))); [ring|].
    rewrite <- H1. ring.
Qed.

Lemma add_rel_uniq x1 y1 x2 y2 q q' : ~ x1 == x2 ->
  add_rel p (x1, y1) (x2, y2) q -> add_rel p (x1, y1) (x2, y2) q' ->
  fst q == fst q' /\ snd q == snd q'.
Proof.
  destruct q as [x3 y3], q' as [x3' y3']. cbn [fst snd].
  intros Hx [l [H1 [H2 H3]]] [l' [H1' [H2' H3']]].
  assert (L : l == l').
  { apply (cancel_eq (x2 - x1)); [apply neq_sub, Hx|]. rewrite H1, H1'. reflexivity. }
  assert (X : x3 == x3') by (rewrite H2, H2', L; reflexivity).
  split; [exact X|]. rewrite H3, H3', L, X. reflexivity.
Qed.

Lemma dbl_rel_uniq x1 y1 q q' : ~ y1 == 0 ->
  dbl_rel p a (x1, y1) q -> dbl_rel p a (x1, y1) q' -> fst q == fst q' /\ snd q == snd q'.
Proof.
  destruct q as [x3 y3], q' as [x3' y3']. cbn [fst snd].
  intros Hy [l [H1 [H2 H3]]] [l' [H1' [H2' H3']]].
  assert (L : l == l').
  { apply (cancel_eq (2 * y1)); [apply two_y_nz, Hy|].
    transitivity (2 * y1 * l); [ring|]. rewrite H1, <- H1'. ring. }
  assert (X : x3 == x3') by (rewrite H2, H2', L; reflexivity).
  split; [exact X|]. rewrite H3, H3', L, X. reflexivity.
Qed.

(* the third intersection point of the line of slope l through (x1,y1), when x2 is a
   root of the residual quadratic *)
Lemma line_third l x1 y1 x2 x3 y3 :
  on_curve p a b (x1, y1) ->
  x2 * x2 + (x1 - l * l) * x2 + (x1 * x1 + a + l * l * x1 - 2 * l * y1) == 0 ->
  x3 == l * l - x1 - x2 -> y3 == l * (x1 - x3) - y1 -> on_curve p a b (x3, y3).
Proof.
  unfold on_curve. intros H1 HQ H3 Hy. rewrite Hy, H3. apply eqm_sub_0.
  transitivity ((y1 * y1 - (x1 * x1 * x1 + a * x1 + b))
                - (l * l - x1 - x2 - x1)
                  * (x2 * x2 + (x1 - l * l) * x2 + (x1 * x1 + a + l * l * x1 - 2 * l * y1))); [ring|].
  rewrite HQ, H1. ring.
Qed.

Lemma chord_on_curve x1 y1 x2 y2 q :
  on_curve p a b (x1, y1) -> on_curve p a b (x2, y2) -> ~ x1 == x2 ->
  add_rel p (x1, y1) (x2, y2) q -> on_curve p a b q.
Proof.
  destruct q as [x3 y3]. intros H1 H2 Hx [l [Hl [H3 Hy]]].
  apply (line_third l x1 y1 x2); try assumption.
  apply (cancel_r (x2 - x1)); [apply neq_sub, Hx|].
  unfold on_curve in H1, H2.
  transitivity ((y1 * y1 - (x1 * x1 * x1 + a * x1 + b))
                - ((l * (x2 - x1) + y1) * (l * (x2 - x1) + y1) - (x2 * x2 * x2 + a * x2 + b))); [ring|].
  rewrite Hl, H1. transitivity (- (y2 * y2 - (x2 * x2 * x2 + a * x2 + b))); [ring|].
  rewrite H2. ring.
Qed.

Lemma tangent_on_curve x1 y1 q :
  on_curve p a b (x1, y1) -> dbl_rel p a (x1, y1) q -> on_curve p a b q.
Proof.
  destruct q as [x3 y3]. intros H1 [l [Hl [H3 Hy]]].
  apply (line_third l x1 y1 x1); try assumption.
  - transitivity ((3 * x1 * x1 + a) - 2 * y1 * l); [ring|]. rewrite Hl. ring.
  - rewrite H3. ring.
Qed.

Lemma neg_on_curve x y : on_curve p a b (x, y) -> on_curve p a b (x, (- y) mod p).
Proof. unfold on_curve. intro H. rewrite mod_eqm. rewrite <- H. ring. Qed.

(* equal x on the curve: y equal or opposite *)
Lemma same_x_y x1 y1 x2 y2 :
  on_curve p a b (x1, y1) -> on_curve p a b (x2, y2) -> x1 == x2 -> y1 == y2 \/ y2 == - y1.
Proof.
  unfold on_curve. intros H1 H2 Hx. rewrite Hx, <- H2 in H1.
  destruct (sq_eq _ _ H1) as [E|E]; [left; exact E|right]. rewrite E. ring.
Qed.

(* ------------------------------------------------------------------ *)
(* ec_add branch by branch *)

Lemma ec_add_aff x1 y1 x2 y2 : ~ x1 == x2 \/ ~ y1 == y2 \/ ~ y1 == 0 ->
  ec_add p a (pS (x1, y1)) (pS (x2, y2)) = aff_add p a (pS (x1, y1)) (pS (x2, y2)).
Proof.
  intro H. unfold ec_add.
  eqmb_case x1 x2 E1; cbn [andb]; [|reflexivity].
  eqmb_case y1 y2 E2; cbn [andb]; [|reflexivity].
  eqmb_case y1 0 E3; [tauto|reflexivity].
Qed.

Lemma ec_add_sing x1 y1 x2 y2 : x1 == x2 -> y1 == y2 -> y1 == 0 ->
  ec_add p a (pS (x1, y1)) (pS (x2, y2)) = None.
Proof.
  intros E1 E2 E3. unfold ec_add.
  rewrite (proj2 (eqmb_spec p x1 x2) E1), (proj2 (eqmb_spec p y1 y2) E2), (proj2 (eqmb_spec p y1 0) E3).
  reflexivity.
Qed.

Lemma ec_add_chord x1 y1 x2 y2 : ~ x1 == x2 ->
  exists q, ec_add p a (pS (x1, y1)) (pS (x2, y2)) = Some q /\ redp p q /\
            add_rel p (x1, y1) (x2, y2) q.
Proof. intro H. rewrite ec_add_aff by (left; exact H). apply aff_add_chord, H. Qed.

Lemma ec_add_tangent x1 y1 x2 y2 : x1 == x2 -> y1 == y2 -> ~ y1 == 0 ->
  exists q, ec_add p a (pS (x1, y1)) (pS (x2, y2)) = Some q /\ redp p q /\
            dbl_rel p a (x1, y1) q.
Proof. intros H1 H2 H. rewrite ec_add_aff by (right; right; exact H). apply aff_add_tangent; assumption. Qed.

Lemma ec_add_opp x1 y1 x2 y2 : x1 == x2 -> y2 == - y1 ->
  ec_add p a (pS (x1, y1)) (pS (x2, y2)) = None.
Proof.
  intros Hx Hy. destruct (eqm_dec p y1 y2) as [E|E].
  - apply ec_add_sing; [exact Hx | exact E|]. apply neg_self. rewrite <- Hy. exact E.
  - rewrite ec_add_aff by (right; left; exact E). apply aff_add_opposite; assumption.
Qed.

Lemma ec_add_0_l P : ec_add p a None P = P.
Proof. reflexivity. Qed.

Lemma ec_add_0_r P : ec_add p a P None = P.
Proof. destruct P as [[x y]|]; reflexivity. Qed.

Lemma aff_add_comm P Q : aff_add p a P Q = aff_add p a Q P.
Proof.
  destruct P as [[x1 y1]|], Q as [[x2 y2]|]; try reflexivity.
  destruct (eqm_dec p x1 x2) as [Ex|Ex].
  - destruct (eqm_dec p y1 y2) as [Ey|Ey].
    + apply aff_add_proper; try assumption; symmetry; assumption.
    + rewrite !aff_add_opposite; try reflexivity; try assumption.
      * symmetry; assumption.
      * intro E; apply Ey; symmetry; exact E.
  - destruct (aff_add_chord x1 y1 x2 y2 Ex) as (q & E & R & A).
    assert (Ex' : ~ x2 == x1) by (intro E0; apply Ex; symmetry; exact E0).
    destruct (aff_add_chord x2 y2 x1 y1 Ex') as (q' & E' & R' & A').
    rewrite E, E'. f_equal. apply add_rel_sym' in A'.
    destruct (add_rel_uniq _ _ _ _ _ _ Ex A A'). apply redp_eq; assumption.
Qed.

Lemma ec_add_comm P Q : ec_add p a P Q = ec_add p a Q P.
Proof.
  destruct P as [[x1 y1]|], Q as [[x2 y2]|]; try reflexivity.
  destruct (eqm_dec p x1 x2) as [Ex|Ex]; [destruct (eqm_dec p y1 y2) as [Ey|Ey];
    [destruct (eqm_dec p y1 0) as [E0|E0]|]|].
  - rewrite !ec_add_sing; try reflexivity; try assumption; try (symmetry; assumption).
    rewrite <- Ey. exact E0.
  - rewrite !ec_add_aff; [apply aff_add_comm | right; right | right; right; exact E0].
    rewrite <- Ey. exact E0.
  - rewrite !ec_add_aff; [apply aff_add_comm | right; left | right; left; exact Ey].
    intro E; apply Ey; symmetry; exact E.
  - rewrite !ec_add_aff; [apply aff_add_comm | left | left; exact Ex].
    intro E; apply Ex; symmetry; exact E.
Qed.

(* ---- negation ---- *)

Lemma neg_neg P : ec_wf p a b P -> aff_neg p (aff_neg p P) = P.
Proof.
  destruct P as [[x y]|]; [|reflexivity]. intros [[Rx Ry] _]. cbn [aff_neg fst snd] in *.
  f_equal. f_equal. apply (eqm_small_eq p); [apply Z.mod_pos_bound; lia | exact Ry |].
  rewrite !mod_eqm. ring.
Qed.

Lemma neg_wf P : ec_wf p a b P -> ec_wf p a b (aff_neg p P).
Proof.
  destruct P as [[x y]|]; [|exact (fun H => H)]. intros [[Rx Ry] C]. cbn [aff_neg ec_wf fst snd] in *.
  split; [split; cbn [fst snd]; [exact Rx | apply Z.mod_pos_bound; lia] | apply neg_on_curve, C].
Qed.

Lemma ec_add_neg P : ec_add p a P (aff_neg p P) = None.
Proof.
  destruct P as [[x y]|]; [|reflexivity]. cbn [aff_neg].
  apply ec_add_opp; [reflexivity | apply mod_eqm].
Qed.

Lemma add_rel_neg x1 y1 x2 y2 x3 y3 y1' y2' y3' :
  y1' == - y1 -> y2' == - y2 -> y3' == - y3 ->
  add_rel p (x1, y1) (x2, y2) (x3, y3) -> add_rel p (x1, y1') (x2, y2') (x3, y3').
Proof.
  intros E1 E2 E3 (l & Hl & Hx & Hy). exists (- l). repeat split.
  - rewrite E1, E2. transitivity (- (l * (x2 - x1))); [ring|]. rewrite Hl. ring.
  - rewrite Hx. ring.
  - rewrite E3, E1, Hy. ring.
Qed.

Lemma dbl_rel_neg x1 y1 x3 y3 y1' y3' :
  y1' == - y1 -> y3' == - y3 ->
  dbl_rel p a (x1, y1) (x3, y3) -> dbl_rel p a (x1, y1') (x3, y3').
Proof.
  intros E1 E3 (l & Hl & Hx & Hy). exists (- l). repeat split.
  - rewrite E1. transitivity (2 * y1 * l); [ring|]. exact Hl.
  - rewrite Hx. ring.
  - rewrite E3, E1, Hy. ring.
Qed.

Lemma neg_inj_nz y : ~ y == 0 -> ~ (- y) mod p == 0.
Proof. intros H E. apply H. rewrite mod_eqm in E. transitivity (- - y); [ring|]. rewrite E. ring. Qed.

Lemma ec_add_neg_neg P Q :
  ec_add p a (aff_neg p P) (aff_neg p Q) = aff_neg p (ec_add p a P Q).
Proof.
  destruct P as [[x1 y1]|], Q as [[x2 y2]|]; try reflexivity. cbn [aff_neg]. fold_aff.
  assert (N1 : (- y1) mod p == - y1) by apply mod_eqm.
  assert (N2 : (- y2) mod p == - y2) by apply mod_eqm.
  destruct (eqm_dec p x1 x2) as [Ex|Ex]; [destruct (eqm_dec p y1 y2) as [Ey|Ey];
    [destruct (eqm_dec p y1 0) as [E0|E0]|]|].
  - rewrite !ec_add_sing; try reflexivity; try assumption.
    + rewrite N1, N2, Ey. reflexivity.
    + rewrite N1, E0. ring.
  - destruct (ec_add_tangent x1 y1 x2 y2 Ex Ey E0) as ([x3 y3] & E & R & A).
    assert (Ey' : (- y1) mod p == (- y2) mod p) by (rewrite N1, N2, Ey; reflexivity).
    destruct (ec_add_tangent x1 ((- y1) mod p) x2 ((- y2) mod p) Ex Ey' (neg_inj_nz _ E0))
      as ([x3' y3'] & E' & R' & A').
    rewrite E, E'. cbn [aff_neg]. f_equal.
    pose proof (dbl_rel_neg x1 y1 x3 y3 _ ((- y3) mod p) N1 (mod_eqm p (- y3)) A) as A2.
    destruct (dbl_rel_uniq _ _ _ _ (neg_inj_nz _ E0) A' A2) as [U1 U2].
    apply redp_eq; [exact R' | | exact U1 | exact U2].
    split; cbn [fst snd]; [apply R | apply Z.mod_pos_bound; lia].
  - rewrite (ec_add_aff x1 y1 x2 y2) by (right; left; exact Ey).
    rewrite (aff_add_opposite _ _ _ _ Ex Ey). cbn [aff_neg].
    assert (Ey' : ~ (- y1) mod p == (- y2) mod p).
    { rewrite N1, N2. intro E. apply Ey. transitivity (- - y1); [ring|]. rewrite E. ring. }
    rewrite ec_add_aff by (right; left; exact Ey'). apply aff_add_opposite; assumption.
  - destruct (ec_add_chord x1 y1 x2 y2 Ex) as ([x3 y3] & E & R & A).
    destruct (ec_add_chord x1 ((- y1) mod p) x2 ((- y2) mod p) Ex) as ([x3' y3'] & E' & R' & A').
    rewrite E, E'. cbn [aff_neg]. f_equal.
    pose proof (add_rel_neg _ _ _ _ _ _ _ _ ((- y3) mod p) N1 N2 (mod_eqm p (- y3)) A) as A2.
    destruct (add_rel_uniq _ _ _ _ _ _ Ex A' A2) as [U1 U2].
    apply redp_eq; [exact R' | | exact U1 | exact U2].
    split; cbn [fst snd]; [apply R | apply Z.mod_pos_bound; lia].
Qed.

(* ---- closure ---- *)

Lemma ec_add_fin_spec x1 y1 x2 y2 :
  on_curve p a b (x1, y1) -> on_curve p a b (x2, y2) ->
  match ec_add p a (pS (x1, y1)) (pS (x2, y2)) with
  | None => True | Some q => redp p q /\ on_curve p a b q end.
Proof.
  intros C1 C2.
  destruct (eqm_dec p x1 x2) as [Ex|Ex]; [destruct (eqm_dec p y1 y2) as [Ey|Ey];
    [destruct (eqm_dec p y1 0) as [E0|E0]|]|].
  - rewrite ec_add_sing by assumption. exact I.
  - destruct (ec_add_tangent x1 y1 x2 y2 Ex Ey E0) as (q & E & R & A). rewrite E.
    split; [exact R | exact (tangent_on_curve _ _ _ C1 A)].
  - rewrite ec_add_aff by (right; left; exact Ey). rewrite aff_add_opposite by assumption. exact I.
  - destruct (ec_add_chord x1 y1 x2 y2 Ex) as (q & E & R & A). rewrite E.
    split; [exact R | exact (chord_on_curve _ _ _ _ _ C1 C2 Ex A)].
Qed.

Lemma ec_add_oc P Q : oc p a b P -> oc p a b Q -> oc p a b (ec_add p a P Q).
Proof.
  destruct P as [[x1 y1]|], Q as [[x2 y2]|]; try (intros; assumption).
  intros C1 C2. pose proof (ec_add_fin_spec x1 y1 x2 y2 C1 C2) as H.
  destruct (ec_add p a (pS (x1, y1)) (pS (x2, y2))); [apply H | exact I].
Qed.

Lemma ec_add_wf P Q : ec_wf p a b P -> ec_wf p a b Q -> ec_wf p a b (ec_add p a P Q).
Proof.
  destruct P as [[x1 y1]|], Q as [[x2 y2]|]; try (intros; assumption).
  intros [_ C1] [_ C2]. pose proof (ec_add_fin_spec x1 y1 x2 y2 C1 C2) as H.
  destruct (ec_add p a (pS (x1, y1)) (pS (x2, y2))); [apply H | exact I].
Qed.

(* ---- the three positions of two finite points of E(F_p) ---- *)

Lemma wf_tri P Q : ec_wf p a b P -> ec_wf p a b Q -> P <> None -> Q <> None ->
  Q = aff_neg p P \/ (Q = P /\ ynz p P) \/ xne p P Q.
Proof.
  destruct P as [[x1 y1]|], Q as [[x2 y2]|]; try congruence.
  intros [[Rx1 Ry1] C1] [[Rx2 Ry2] C2] _ _. cbn [fst snd aff_neg xne ynz] in *.
  destruct (eqm_dec p x1 x2) as [Ex|Ex]; [|right; right; exact Ex].
  assert (x1 = x2) by (apply (eqm_small_eq p); assumption). subst x2.
  assert (NEG : y2 == - y1 -> pS (x1, y2) = pS (x1, (- y1) mod p)).
  { intro E. f_equal. f_equal. apply (eqm_small_eq p); [exact Ry2 | apply Z.mod_pos_bound; lia |].
    rewrite mod_eqm. exact E. }
  destruct (same_x_y _ _ _ _ C1 C2 Ex) as [Ey|Ey]; [|left; apply NEG, Ey].
  assert (y1 = y2) by (apply (eqm_small_eq p); assumption). subst y2.
  destruct (eqm_dec p y1 0) as [E0|E0].
  - left. apply NEG. rewrite E0. ring.
  - right; left. split; [reflexivity | exact E0].
Qed.

Lemma xne_sym P Q : xne p P Q -> xne p Q P.
Proof.
  destruct P as [[x1 y1]|], Q as [[x2 y2]|]; cbn [xne]; try tauto.
  intros H E. apply H. symmetry. exact E.
Qed.

Lemma xne_fin P Q : xne p P Q -> exists q, ec_add p a P Q = Some q.
Proof.
  destruct P as [[x1 y1]|], Q as [[x2 y2]|]; cbn [xne]; try tauto.
  intro H. destruct (ec_add_chord x1 y1 x2 y2 H) as (q & E & _). exists q. exact E.
Qed.

Lemma ynz_fin P : ynz p P -> exists q, ec_add p a P P = Some q.
Proof.
  destruct P as [[x1 y1]|]; cbn [ynz]; try tauto.
  intro H. destruct (ec_add_tangent x1 y1 x1 y1 (reflexivity _) (reflexivity _) H) as (q & E & _).
  exists q. exact E.
Qed.

Lemma ec_add_none_inv P Q : ec_wf p a b P -> ec_wf p a b Q ->
  ec_add p a P Q = None -> Q = aff_neg p P.
Proof.
  intros WP WQ H.
  destruct P as [[x1 y1]|]; [|rewrite ec_add_0_l in H; subst Q; reflexivity].
  destruct Q as [[x2 y2]|]; [|rewrite ec_add_0_r in H; discriminate H].
  destruct (wf_tri _ _ WP WQ ltac:(discriminate) ltac:(discriminate)) as [T|[[T1 T2]|T]].
  - exact T.
  - rewrite T1 in H. destruct (ynz_fin _ T2) as (q & E). rewrite E in H. discriminate H.
  - destruct (xne_fin _ _ T) as (q & E). rewrite E in H. discriminate H.
Qed.

(* ------------------------------------------------------------------ *)
(* Jacobian form with polynomial coordinates: (X, Y, W) represents (x, y) *)

Definition jr (X Y W x y : Z) : Prop := ~ W == 0 /\ x * W * W == X /\ y * W * W * W == Y.

Lemma jr_aff x y : jr x y 1 x y.
Proof. split; [apply eqm_1_neq_0, Hp | split; ring]. Qed.

Lemma jchord_ok X Y W xu yu xv yv xw yw :
  jr X Y W xu yu -> ~ xu == xv -> add_rel p (xu, yu) (xv, yv) (xw, yw) ->
  jr (jcX X Y W xv yv) (jcY X Y W xv yv) (jcZ X Y W xv yv) xw yw /\
  yw * jcZ X Y W xv yv == jcN0 X Y W xv yv - jcN1 X Y W xv yv * xw.
Proof.
  intros (HW & HX & HY) Hx (l & Hl & Hxw & Hyw).
  assert (Hyv : yv == yu + l * (xv - xu)) by (rewrite Hl; ring).
  assert (HZ : ~ jcZ X Y W xv yv == 0).
  { unfold jcZ. rewrite <- HX. intro E.
    apply (nz_mul W ((xv - xu) * (W * W)));
      [exact HW | apply nz_mul; [apply neq_sub, Hx | apply nz_mul; exact HW] |].
    rewrite <- E. ring. }
  split; [split; [exact HZ | split]|];
    unfold jcN0, jcN1, jcX, jcY, jcZ; cbv zeta; rewrite <- ?HX, <- ?HY, ?Hyw, ?Hxw, ?Hyv; ring.
Qed.

Lemma jdbl_ok X Y W xu yu xw yw :
  jr X Y W xu yu -> ~ yu == 0 -> dbl_rel p a (xu, yu) (xw, yw) ->
  jr (jdX a X Y W) (jdY a X Y W) (jdZ a X Y W) xw yw /\
  ~ jdD a X Y W == 0 /\
  yw * jdD a X Y W == jdN0 a X Y W - jdN1 a X Y W * xw.
Proof.
  intros (HW & HX & HY) Hy (l & Hl & Hxw & Hyw).
  assert (Ha : a == 2 * yu * l - 3 * xu * xu) by (rewrite Hl; ring).
  assert (HZ : ~ jdZ a X Y W == 0).
  { unfold jdZ. rewrite <- HY. intro E.
    apply (nz_mul (2 * yu) (W * W * (W * W)));
      [apply two_y_nz, Hy | apply nz_mul; apply nz_mul; exact HW |].
    rewrite <- E. ring. }
  assert (HD : ~ jdD a X Y W == 0).
  { unfold jdD. intro E. apply (nz_mul (jdZ a X Y W) (W * (W * W)));
      [exact HZ | apply nz_mul; [|apply nz_mul]; exact HW |].
    rewrite <- E. ring. }
  split; [split; [exact HZ | split] | split; [exact HD|]];
    unfold jdD, jdN0, jdN1, jdY, jdX, jdZ, jdM; rewrite <- ?HX, <- ?HY, ?Hyw, ?Hxw, ?Ha; ring.
Qed.

Lemma fin_x X6 Z6 X7 Z7 x6 x7 :
  ~ Z6 == 0 -> ~ Z7 == 0 -> x6 * Z6 * Z6 == X6 -> x7 * Z7 * Z7 == X7 ->
  xG X6 Z6 X7 Z7 == 0 -> x6 == x7.
Proof.
  intros H6 H7 E6 E7 G. unfold xG in G. rewrite <- E6, <- E7 in G.
  apply eqm_sub_0. apply (cancel_r (Z6 * Z6 * (Z7 * Z7))).
  - apply nz_mul; apply nz_mul; assumption.
  - rewrite <- G. ring.
Qed.

Lemma fin_y N06 N16 D6 N07 N17 D7 X6 Z6 x6 y6 x7 y7 :
  ~ D6 == 0 -> ~ D7 == 0 -> ~ Z6 == 0 -> x6 * Z6 * Z6 == X6 -> x6 == x7 ->
  y6 * D6 == N06 - N16 * x6 -> y7 * D7 == N07 - N17 * x7 ->
  ylG N06 N16 D6 N07 N17 D7 X6 Z6 == 0 -> y6 == y7.
Proof.
  intros H6 H7 HZ E6 EX L6 L7 G. unfold ylG in G.
  assert (M6 : N06 == y6 * D6 + N16 * x6) by (rewrite L6; ring).
  assert (M7 : N07 == y7 * D7 + N17 * x6) by (rewrite L7, EX; ring).
  rewrite <- E6, M6, M7 in G.
  apply eqm_sub_0. apply (cancel_r (D6 * D7 * (Z6 * Z6))).
  - apply nz_mul; apply nz_mul; assumption.
  - rewrite <- G. ring.
Qed.

Lemma lin0 G : G = 0 -> G == 0.
Proof. intros ->. reflexivity. Qed.

Lemma lin1 G q2 r2 : G = q2 * r2 -> r2 == 0 -> G == 0.
Proof. intros -> H2. rewrite H2. ring. Qed.

Lemma lin2 G q2 r2 q3 r3 : G = q2 * r2 + q3 * r3 -> r2 == 0 -> r3 == 0 -> G == 0.
Proof. intros -> H2 H3. rewrite H2, H3. ring. Qed.

Lemma cR_0 x1 y1 x2 y2 :
  on_curve p a b (x1, y1) -> on_curve p a b (x2, y2) -> cR x1 y1 x2 y2 a == 0.
Proof. unfold on_curve, cR. intros H1 H2. rewrite H1, H2. ring. Qed.

Lemma neq_sym u v : ~ u == v -> ~ v == u.
Proof. intros H E. apply H. symmetry. exact E. Qed.

(* ---- the computational cases of associativity, on the relations ---- *)

(* (P1+P2)+P3 = P1+(P2+P3), four chords *)
Lemma spec1_rel x1 y1 x2 y2 x3 y3 x4 y4 x5 y5 x6 y6 x7 y7 :
  on_curve p a b (x1, y1) -> on_curve p a b (x2, y2) -> on_curve p a b (x3, y3) ->
  ~ x1 == x2 -> add_rel p (x1, y1) (x2, y2) (x4, y4) ->
  ~ x2 == x3 -> add_rel p (x2, y2) (x3, y3) (x5, y5) ->
  ~ x4 == x3 -> add_rel p (x4, y4) (x3, y3) (x6, y6) ->
  ~ x1 == x5 -> add_rel p (x1, y1) (x5, y5) (x7, y7) ->
  x6 == x7 /\ y6 == y7.
Proof.
  intros C1 C2 C3 H12 A4 H23 A5 H43 A6 H15 A7.
  destruct (jchord_ok _ _ _ _ _ _ _ _ _ (jr_aff x1 y1) H12 A4) as [J4 _].
  destruct (jchord_ok _ _ _ _ _ _ _ _ _ J4 H43 A6) as [(HZ6 & HX6 & _) L6].
  destruct (jchord_ok _ _ _ _ _ _ _ _ _ (jr_aff x2 y2) H23 A5) as [J5 _].
  apply add_rel_sym' in A7.
  destruct (jchord_ok _ _ _ _ _ _ _ _ _ J5 (neq_sym _ _ H15) A7) as [(HZ7 & HX7 & _) L7].
  pose proof (cR_0 _ _ _ _ C1 C2) as R2. pose proof (cR_0 _ _ _ _ C1 C3) as R3.
  assert (EX : x6 == x7).
  { apply (fin_x _ _ _ _ _ _ HZ6 HZ7 HX6 HX7).
    apply (lin2 _ _ _ _ _ (s1x_cert x1 y1 x2 y2 x3 y3 a) R2 R3). }
  split; [exact EX|].
  apply (fin_y _ _ _ _ _ _ _ _ _ _ _ _ HZ6 HZ7 HZ6 HX6 EX L6 L7).
  apply (lin2 _ _ _ _ _ (s1y_cert x1 y1 x2 y2 x3 y3 a) R2 R3).
Qed.

(* (P1+P1)+P3 = P1+(P1+P3) *)
Lemma spec2_rel x1 y1 x3 y3 x4 y4 x5 y5 x6 y6 x7 y7 :
  on_curve p a b (x1, y1) -> on_curve p a b (x3, y3) ->
  ~ y1 == 0 -> dbl_rel p a (x1, y1) (x4, y4) ->
  ~ x1 == x3 -> add_rel p (x1, y1) (x3, y3) (x5, y5) ->
  ~ x4 == x3 -> add_rel p (x4, y4) (x3, y3) (x6, y6) ->
  ~ x1 == x5 -> add_rel p (x1, y1) (x5, y5) (x7, y7) ->
  x6 == x7 /\ y6 == y7.
Proof.
  intros C1 C3 Hy1 A4 H13 A5 H43 A6 H15 A7.
  destruct (jdbl_ok _ _ _ _ _ _ _ (jr_aff x1 y1) Hy1 A4) as [J4 _].
  destruct (jchord_ok _ _ _ _ _ _ _ _ _ J4 H43 A6) as [(HZ6 & HX6 & _) L6].
  destruct (jchord_ok _ _ _ _ _ _ _ _ _ (jr_aff x1 y1) H13 A5) as [J5 _].
  apply add_rel_sym' in A7.
  destruct (jchord_ok _ _ _ _ _ _ _ _ _ J5 (neq_sym _ _ H15) A7) as [(HZ7 & HX7 & _) L7].
  pose proof (cR_0 _ _ _ _ C1 C3) as R3.
  assert (EX : x6 == x7).
  { apply (fin_x _ _ _ _ _ _ HZ6 HZ7 HX6 HX7).
    apply (lin1 _ _ _ (s2x_cert x1 y1 x3 y3 a) R3). }
  split; [exact EX|].
  apply (fin_y _ _ _ _ _ _ _ _ _ _ _ _ HZ6 HZ7 HZ6 HX6 EX L6 L7).
  apply (lin1 _ _ _ (s2y_cert x1 y1 x3 y3 a) R3).
Qed.

(* (P1+P2)+(P1+P2) = P1+(P2+(P1+P2)) *)
Lemma spec3_rel x1 y1 x2 y2 x4 y4 x5 y5 x6 y6 x7 y7 :
  on_curve p a b (x1, y1) -> on_curve p a b (x2, y2) ->
  ~ x1 == x2 -> add_rel p (x1, y1) (x2, y2) (x4, y4) ->
  ~ y4 == 0 -> dbl_rel p a (x4, y4) (x6, y6) ->
  ~ x2 == x4 -> add_rel p (x2, y2) (x4, y4) (x5, y5) ->
  ~ x1 == x5 -> add_rel p (x1, y1) (x5, y5) (x7, y7) ->
  x6 == x7 /\ y6 == y7.
Proof.
  intros C1 C2 H12 A4 Hy4 A6 H24 A5 H15 A7.
  destruct (jchord_ok _ _ _ _ _ _ _ _ _ (jr_aff x1 y1) H12 A4) as [J4 _].
  destruct (jdbl_ok _ _ _ _ _ _ _ J4 Hy4 A6) as [(HZ6 & HX6 & _) [HD6 L6]].
  apply add_rel_sym' in A5.
  destruct (jchord_ok _ _ _ _ _ _ _ _ _ J4 (neq_sym _ _ H24) A5) as [J5 _].
  apply add_rel_sym' in A7.
  destruct (jchord_ok _ _ _ _ _ _ _ _ _ J5 (neq_sym _ _ H15) A7) as [(HZ7 & HX7 & _) L7].
  pose proof (cR_0 _ _ _ _ C1 C2) as R2.
  assert (EX : x6 == x7).
  { apply (fin_x _ _ _ _ _ _ HZ6 HZ7 HX6 HX7).
    apply (lin1 _ _ _ (s3x_cert x1 y1 x2 y2 a) R2). }
  split; [exact EX|].
  apply (fin_y _ _ _ _ _ _ _ _ _ _ _ _ HD6 HZ7 HZ6 HX6 EX L6 L7).
  apply (lin1 _ _ _ (s3y_cert x1 y1 x2 y2 a) R2).
Qed.

(* (P1+P1)+(P1+P1) = P1+(P1+(P1+P1)) *)
Lemma p4_rel x1 y1 x4 y4 x5 y5 x6 y6 x7 y7 :
  ~ y1 == 0 -> dbl_rel p a (x1, y1) (x4, y4) ->
  ~ y4 == 0 -> dbl_rel p a (x4, y4) (x6, y6) ->
  ~ x1 == x4 -> add_rel p (x1, y1) (x4, y4) (x5, y5) ->
  ~ x1 == x5 -> add_rel p (x1, y1) (x5, y5) (x7, y7) ->
  x6 == x7 /\ y6 == y7.
Proof.
  intros Hy1 A4 Hy4 A6 H14 A5 H15 A7.
  destruct (jdbl_ok _ _ _ _ _ _ _ (jr_aff x1 y1) Hy1 A4) as [J4 _].
  destruct (jdbl_ok _ _ _ _ _ _ _ J4 Hy4 A6) as [(HZ6 & HX6 & _) [HD6 L6]].
  apply add_rel_sym' in A5.
  destruct (jchord_ok _ _ _ _ _ _ _ _ _ J4 (neq_sym _ _ H14) A5) as [J5 _].
  apply add_rel_sym' in A7.
  destruct (jchord_ok _ _ _ _ _ _ _ _ _ J5 (neq_sym _ _ H15) A7) as [(HZ7 & HX7 & _) L7].
  assert (EX : x6 == x7).
  { apply (fin_x _ _ _ _ _ _ HZ6 HZ7 HX6 HX7). apply (lin0 _ (p4x_cert x1 y1 a)). }
  split; [exact EX|].
  apply (fin_y _ _ _ _ _ _ _ _ _ _ _ _ HD6 HZ7 HZ6 HX6 EX L6 L7).
  apply (lin0 _ (p4y_cert x1 y1 a)).
Qed.

(* 2*(P1+Q) = 2*P1 for a point Q = (x2, 0) of order two *)
Lemma k4_rel x1 y1 x2 y2 x4 y4 x6 y6 x7 y7 :
  on_curve p a b (x1, y1) -> on_curve p a b (x2, y2) -> y2 == 0 ->
  ~ x1 == x2 -> add_rel p (x1, y1) (x2, y2) (x4, y4) ->
  ~ y4 == 0 -> dbl_rel p a (x4, y4) (x6, y6) ->
  ~ y1 == 0 -> dbl_rel p a (x1, y1) (x7, y7) ->
  x6 == x7 /\ y6 == y7.
Proof.
  intros C1 C2 Hy2 H12 A4 Hy4 A6 Hy1 A7.
  assert (C2' : on_curve p a b (x2, 0)).
  { unfold on_curve in *. rewrite <- C2, Hy2. reflexivity. }
  assert (A4' : add_rel p (x1, y1) (x2, 0) (x4, y4)).
  { destruct A4 as (l & Hl & Hx & Hy). exists l. repeat split; try assumption.
    rewrite Hl, Hy2. reflexivity. }
  destruct (jchord_ok _ _ _ _ _ _ _ _ _ (jr_aff x1 y1) H12 A4') as [J4 _].
  destruct (jdbl_ok _ _ _ _ _ _ _ J4 Hy4 A6) as [(HZ6 & HX6 & _) [HD6 L6]].
  destruct (jdbl_ok _ _ _ _ _ _ _ (jr_aff x1 y1) Hy1 A7) as [(HZ7 & HX7 & _) [HD7 L7]].
  pose proof (cR_0 _ _ _ _ C1 C2') as R2.
  assert (EX : x6 == x7).
  { apply (fin_x _ _ _ _ _ _ HZ6 HZ7 HX6 HX7).
    apply (lin1 _ _ _ (k4x_cert x1 y1 x2 a) R2). }
  split; [exact EX|].
  apply (fin_y _ _ _ _ _ _ _ _ _ _ _ _ HD6 HD7 HZ6 HX6 EX L6 L7).
  apply (lin1 _ _ _ (k4y_cert x1 y1 x2 a) R2).
Qed.

(* ------------------------------------------------------------------ *)
(* the computational cases on points of E(F_p) *)

Notation "P +' Q" := (ec_add p a P Q) (at level 50, left associativity).
Notation neg := (aff_neg p).
Notation wf := (ec_wf p a b).

Lemma eqm_refl x : x == x.
Proof. reflexivity. Qed.

Lemma wf_oc P : wf P -> oc p a b P.
Proof. destruct P as [q|]; [intros [_ C]; exact C | exact (fun H => H)]. Qed.

Lemma spec1 P1 P2 P3 : oc p a b P1 -> oc p a b P2 -> oc p a b P3 ->
  xne p P1 P2 -> xne p P2 P3 -> xne p (P1 +' P2) P3 -> xne p P1 (P2 +' P3) ->
  (P1 +' P2) +' P3 = P1 +' (P2 +' P3).
Proof.
  destruct P1 as [[x1 y1]|], P2 as [[x2 y2]|], P3 as [[x3 y3]|]; try (cbn [xne]; tauto).
  intros C1 C2 C3 H12 H23. cbn [xne oc] in *.
  destruct (ec_add_chord x1 y1 x2 y2 H12) as ([x4 y4] & E4 & R4 & A4). rewrite E4.
  destruct (ec_add_chord x2 y2 x3 y3 H23) as ([x5 y5] & E5 & R5 & A5). rewrite E5.
  cbn [xne]. intros H43 H15.
  destruct (ec_add_chord x4 y4 x3 y3 H43) as ([x6 y6] & E6 & R6 & A6).
  destruct (ec_add_chord x1 y1 x5 y5 H15) as ([x7 y7] & E7 & R7 & A7).
  rewrite E6, E7. f_equal.
  destruct (spec1_rel _ _ _ _ _ _ _ _ _ _ _ _ _ _ C1 C2 C3 H12 A4 H23 A5 H43 A6 H15 A7).
  apply redp_eq; assumption.
Qed.

Lemma spec2 P R : oc p a b P -> oc p a b R ->
  ynz p P -> xne p P R -> xne p (P +' P) R -> xne p P (P +' R) ->
  (P +' P) +' R = P +' (P +' R).
Proof.
  destruct P as [[x1 y1]|], R as [[x3 y3]|]; try (cbn [xne ynz]; tauto).
  intros C1 C3 Hy1 H13. cbn [xne ynz oc] in *.
  destruct (ec_add_tangent x1 y1 x1 y1 (eqm_refl _) (eqm_refl _) Hy1) as ([x4 y4] & E4 & R4 & A4).
  rewrite E4.
  destruct (ec_add_chord x1 y1 x3 y3 H13) as ([x5 y5] & E5 & R5 & A5). rewrite E5.
  cbn [xne]. intros H43 H15.
  destruct (ec_add_chord x4 y4 x3 y3 H43) as ([x6 y6] & E6 & R6 & A6).
  destruct (ec_add_chord x1 y1 x5 y5 H15) as ([x7 y7] & E7 & R7 & A7).
  rewrite E6, E7. f_equal.
  destruct (spec2_rel _ _ _ _ _ _ _ _ _ _ _ _ C1 C3 Hy1 A4 H13 A5 H43 A6 H15 A7).
  apply redp_eq; assumption.
Qed.

Lemma spec3 P Q : oc p a b P -> oc p a b Q ->
  xne p P Q -> ynz p (P +' Q) -> xne p Q (P +' Q) -> xne p P (Q +' (P +' Q)) ->
  (P +' Q) +' (P +' Q) = P +' (Q +' (P +' Q)).
Proof.
  destruct P as [[x1 y1]|], Q as [[x2 y2]|]; try (cbn [xne]; tauto).
  intros C1 C2 H12. cbn [xne oc] in *.
  destruct (ec_add_chord x1 y1 x2 y2 H12) as ([x4 y4] & E4 & R4 & A4). rewrite E4.
  cbn [xne ynz]. intros Hy4 H24.
  destruct (ec_add_chord x2 y2 x4 y4 H24) as ([x5 y5] & E5 & R5 & A5). rewrite E5.
  cbn [xne]. intro H15.
  destruct (ec_add_tangent x4 y4 x4 y4 (eqm_refl _) (eqm_refl _) Hy4) as ([x6 y6] & E6 & R6 & A6).
  destruct (ec_add_chord x1 y1 x5 y5 H15) as ([x7 y7] & E7 & R7 & A7).
  rewrite E6, E7. f_equal.
  destruct (spec3_rel _ _ _ _ _ _ _ _ _ _ _ _ C1 C2 H12 A4 Hy4 A6 H24 A5 H15 A7).
  apply redp_eq; assumption.
Qed.

Lemma spec4 P : oc p a b P ->
  ynz p P -> ynz p (P +' P) -> xne p P (P +' P) -> xne p P (P +' (P +' P)) ->
  (P +' P) +' (P +' P) = P +' (P +' (P +' P)).
Proof.
  destruct P as [[x1 y1]|]; try (cbn [ynz]; tauto).
  intros _ Hy1. cbn [ynz] in Hy1.
  destruct (ec_add_tangent x1 y1 x1 y1 (eqm_refl _) (eqm_refl _) Hy1) as ([x4 y4] & E4 & R4 & A4).
  rewrite E4. cbn [xne ynz]. intros Hy4 H14.
  destruct (ec_add_chord x1 y1 x4 y4 H14) as ([x5 y5] & E5 & R5 & A5). rewrite E5.
  cbn [xne]. intro H15.
  destruct (ec_add_tangent x4 y4 x4 y4 (eqm_refl _) (eqm_refl _) Hy4) as ([x6 y6] & E6 & R6 & A6).
  destruct (ec_add_chord x1 y1 x5 y5 H15) as ([x7 y7] & E7 & R7 & A7).
  rewrite E6, E7. f_equal.
  destruct (p4_rel _ _ _ _ _ _ _ _ _ _ Hy1 A4 Hy4 A6 H14 A5 H15 A7).
  apply redp_eq; assumption.
Qed.

Lemma spec5 P x2 y2 : oc p a b P -> oc p a b (pS (x2, y2)) -> y2 == 0 ->
  xne p P (pS (x2, y2)) -> ynz p P -> ynz p (P +' pS (x2, y2)) ->
  (P +' pS (x2, y2)) +' (P +' pS (x2, y2)) = P +' P.
Proof.
  destruct P as [[x1 y1]|]; try (cbn [xne]; tauto).
  intros C1 C2 Hy2 H12 Hy1. cbn [xne ynz oc] in *.
  destruct (ec_add_chord x1 y1 x2 y2 H12) as ([x4 y4] & E4 & R4 & A4). rewrite E4.
  cbn [ynz]. intro Hy4.
  destruct (ec_add_tangent x4 y4 x4 y4 (eqm_refl _) (eqm_refl _) Hy4) as ([x6 y6] & E6 & R6 & A6).
  destruct (ec_add_tangent x1 y1 x1 y1 (eqm_refl _) (eqm_refl _) Hy1) as ([x7 y7] & E7 & R7 & A7).
  rewrite E6, E7. f_equal.
  destruct (k4_rel _ _ _ _ _ _ _ _ _ _ C1 C2 Hy2 H12 A4 Hy4 A6 Hy1 A7).
  apply redp_eq; assumption.
Qed.

(* ------------------------------------------------------------------ *)
(* (P + Q) - Q = P *)

Lemma chord_same_x x1 y1 x2 y2 x4 y4 :
  add_rel p (x1, y1) (x2, y2) (x4, y4) -> x4 == x2 -> y4 == - y2.
Proof.
  intros A E. apply add_rel_sym' in A. destruct A as (l & _ & _ & Hy). rewrite Hy, E. ring.
Qed.

Lemma minus_chord x1 y1 x2 y2 x4 y4 y2' x7 y7 :
  add_rel p (x1, y1) (x2, y2) (x4, y4) -> y2' == - y2 -> ~ x4 == x2 ->
  add_rel p (x4, y4) (x2, y2') (x7, y7) -> x7 == x1 /\ y7 == y1.
Proof.
  intros A E2 Hx (l' & Hl' & Hx7 & Hy7).
  pose proof (add_rel_sym' _ _ _ A) as (l0 & _ & _ & Hy4').
  destruct A as (l & Hl & Hx4 & Hy4).
  assert (L : l' == - l).
  { apply (cancel_eq (x2 - x4)); [apply neq_sub, Hx|]. rewrite Hl', E2.
    assert (Hy4s : y4 == l * (x2 - x4) - y2).
    { rewrite Hy4. transitivity (l * (x2 - x4) - y2 + ((y2 - y1) - l * (x2 - x1))); [|rewrite <- Hl; ring].
      ring. }
    rewrite Hy4s. ring. }
  assert (X : x7 == x1).
  { rewrite Hx7, L. transitivity (l * l - x2 - x4); [ring|]. rewrite Hx4. ring. }
  split; [exact X|]. rewrite Hy7, L, X. rewrite Hy4. ring.
Qed.

(* a chord P Q whose third point is Q again is the tangent at Q *)
Lemma chord_is_tangent x1 y1 x2 y2 x4 l :
  on_curve p a b (x1, y1) -> on_curve p a b (x2, y2) -> ~ x1 == x2 ->
  l * (x2 - x1) == y2 - y1 -> x4 == l * l - x1 - x2 -> x4 == x2 ->
  2 * y2 * l == 3 * x2 * x2 + a /\ l * l == x1 + 2 * x2.
Proof.
  intros C1 C2 Hx Hl Hx4 E.
  assert (HK : l * (y2 + y1) == x2 * x2 + x1 * x2 + x1 * x1 + a).
  { apply eqm_sub_0. apply (cancel_r (x2 - x1)); [apply neq_sub, Hx|].
    transitivity ((l * (x2 - x1)) * (y2 + y1) - (x2 - x1) * (x2 * x2 + x1 * x2 + x1 * x1 + a)); [ring|].
    rewrite Hl. transitivity (cR x1 y1 x2 y2 a); [unfold cR; ring | apply cR_0; assumption]. }
  assert (HL2 : l * l == x1 + 2 * x2).
  { transitivity (x4 + x1 + x2); [rewrite Hx4; ring | rewrite E; ring]. }
  split; [|exact HL2].
  transitivity (l * (y2 + y1) + l * (y2 - y1)); [ring|]. rewrite HK, <- Hl.
  transitivity (x2 * x2 + x1 * x2 + x1 * x1 + a + (l * l) * (x2 - x1)); [ring|]. rewrite HL2. ring.
Qed.

Lemma minus_chord_tan x1 y1 x2 y2 x4 y4 x7 y7 :
  on_curve p a b (x1, y1) -> on_curve p a b (x2, y2) -> ~ x1 == x2 ->
  add_rel p (x1, y1) (x2, y2) (x4, y4) -> x4 == x2 -> ~ y2 == 0 ->
  dbl_rel p a (x4, y4) (x7, y7) -> x7 == x1 /\ y7 == y1.
Proof.
  intros C1 C2 Hx A E Hy2 (t & Ht & Hx7 & Hy7).
  pose proof (chord_same_x _ _ _ _ _ _ A E) as Hy4.
  destruct A as (l & Hl & Hx4 & _).
  destruct (chord_is_tangent _ _ _ _ _ _ C1 C2 Hx Hl Hx4 E) as [K HL2].
  assert (L : t == - l).
  { apply (cancel_eq (2 * y2)); [apply two_y_nz, Hy2|].
    transitivity (- (2 * y4 * t)); [rewrite Hy4; ring|]. rewrite Ht, E.
    transitivity (- (2 * y2 * l)); [rewrite K; ring | ring]. }
  assert (X : x7 == x1).
  { rewrite Hx7, L, E. transitivity (l * l - 2 * x2); [ring|]. rewrite HL2. ring. }
  split; [exact X|]. rewrite Hy7, L, X, E, Hy4.
  transitivity (y2 - l * (x2 - x1)); [ring|]. rewrite Hl. ring.
Qed.

Lemma tan_same_x x1 y1 x4 y4 : dbl_rel p a (x1, y1) (x4, y4) -> x4 == x1 -> y4 == - y1.
Proof. intros (t & _ & _ & Hy) E. rewrite Hy, E. ring. Qed.

Lemma minus_tan x1 y1 x4 y4 y1' x7 y7 :
  dbl_rel p a (x1, y1) (x4, y4) -> y1' == - y1 -> ~ x4 == x1 ->
  add_rel p (x4, y4) (x1, y1') (x7, y7) -> x7 == x1 /\ y7 == y1.
Proof.
  intros (t & Ht & Hx4 & Hy4) E1 Hx (l' & Hl' & Hx7 & Hy7).
  assert (L : l' == - t).
  { apply (cancel_eq (x1 - x4)); [apply neq_sub, Hx|]. rewrite Hl', E1, Hy4. ring. }
  assert (X : x7 == x1).
  { rewrite Hx7, L. transitivity (t * t - x1 - x4); [ring|]. rewrite Hx4. ring. }
  split; [exact X|]. rewrite Hy7, L, X, Hy4. ring.
Qed.

Hypothesis Hns : ~ 4 * a * a * a + 27 * b * b == 0.

Lemma nonsing x : x * x * x + a * x + b == 0 -> 3 * x * x + a == 0 -> False.
Proof. intros F F'. apply Hns. rewrite (disc_cert x a b). rewrite F, F'. ring. Qed.

Lemma pt_none_dec (P : pt) : {P = None} + {P <> None}.
Proof. destruct P; [right; discriminate | left; reflexivity]. Qed.

Lemma minus_id P Q : wf P -> wf Q -> (P +' Q) +' neg Q = P.
Proof.
  intros WP WQ.
  destruct P as [[x1 y1]|]; [|rewrite ec_add_0_l; apply ec_add_neg].
  destruct Q as [[x2 y2]|]; [|cbn [aff_neg]; rewrite !ec_add_0_r; reflexivity].
  destruct (wf_tri _ _ WP WQ ltac:(discriminate) ltac:(discriminate)) as [T|[[T1 T2]|T]].
  - rewrite T, ec_add_neg, ec_add_0_l. apply (neg_neg _ WP).
  - injection T1 as -> ->. cbn [ynz] in T2. destruct WP as [RP C1].
    destruct (ec_add_tangent x1 y1 x1 y1 (eqm_refl _) (eqm_refl _) T2) as ([x4 y4] & E4 & R4 & A4).
    rewrite E4. destruct (eqm_dec p x4 x1) as [E|E].
    + pose proof (tan_same_x _ _ _ _ A4 E) as Hy4.
      assert (ES : pS (x4, y4) = neg (pS (x1, y1))).
      { cbn [aff_neg]. f_equal. apply redp_eq; cbn [fst snd];
          [exact R4 | split; cbn [fst snd]; [apply RP | apply Z.mod_pos_bound; lia] | exact E |].
        rewrite mod_eqm. exact Hy4. }
      rewrite ES, ec_add_neg_neg, E4, ES. apply neg_neg. split; assumption.
    + cbn [aff_neg]. fold_aff.
      destruct (ec_add_chord x4 y4 x1 ((- y1) mod p) E) as ([x7 y7] & E7 & R7 & A7).
      rewrite E7. f_equal.
      destruct (minus_tan _ _ _ _ _ _ _ A4 (mod_eqm p (- y1)) E A7).
      apply redp_eq; assumption.
  - cbn [xne] in T. destruct WP as [RP C1]. destruct WQ as [RQ C2].
    destruct (ec_add_chord x1 y1 x2 y2 T) as ([x4 y4] & E4 & R4 & A4). rewrite E4.
    cbn [aff_neg]. fold_aff. destruct (eqm_dec p x4 x2) as [E|E].
    + pose proof (chord_same_x _ _ _ _ _ _ A4 E) as Hy4.
      destruct (eqm_dec p y2 0) as [E0|E0].
      * exfalso. destruct A4 as (l & Hl & Hx4 & _).
        destruct (chord_is_tangent _ _ _ _ _ _ C1 C2 T Hl Hx4 E) as [K _].
        apply (nonsing x2).
        -- unfold on_curve in C2. rewrite <- C2, E0. ring.
        -- rewrite <- K, E0. ring.
      * assert (Hy4' : y4 == (- y2) mod p) by (rewrite mod_eqm; exact Hy4).
        assert (Hy4n : ~ y4 == 0).
        { intro Z0. apply E0. transitivity (- y4); [rewrite Hy4; ring | rewrite Z0; ring]. }
        destruct (ec_add_tangent x4 y4 x2 ((- y2) mod p) E Hy4' Hy4n) as ([x7 y7] & E7 & R7 & A7).
        rewrite E7. f_equal.
        destruct (minus_chord_tan _ _ _ _ _ _ _ _ C1 C2 T A4 E E0 A7).
        apply redp_eq; assumption.
    + destruct (ec_add_chord x4 y4 x2 ((- y2) mod p) E) as ([x7 y7] & E7 & R7 & A7).
      rewrite E7. f_equal.
      destruct (minus_chord _ _ _ _ _ _ _ _ _ A4 (mod_eqm p (- y2)) E A7).
      apply redp_eq; assumption.
Qed.

Lemma ec_add_cancel P Q Q' : wf P -> wf Q -> wf Q' -> P +' Q = P +' Q' -> Q = Q'.
Proof.
  intros WP WQ WQ' H.
  transitivity ((Q +' P) +' neg P); [symmetry; apply minus_id; assumption|].
  rewrite (ec_add_comm Q P), H, (ec_add_comm P Q'). apply minus_id; assumption.
Qed.

Lemma ec_add_unit P Q : wf P -> wf Q -> P +' Q = P -> Q = None.
Proof.
  intros WP WQ H. apply (ec_add_cancel P Q None WP WQ I). rewrite ec_add_0_r. exact H.
Qed.

(* ------------------------------------------------------------------ *)
(* associativity on E(F_p) *)

Lemma pos_fin P Q : (Q = P /\ ynz p P) \/ xne p P Q -> P +' Q <> None.
Proof.
  intros [[-> H]|H].
  - destruct (ynz_fin _ H) as (q & E). rewrite E. discriminate.
  - destruct (xne_fin _ _ H) as (q & E). rewrite E. discriminate.
Qed.

Theorem ec_add_assoc_wf P Q R : wf P -> wf Q -> wf R -> (P +' Q) +' R = P +' (Q +' R).
Proof.
  intros WP WQ WR.
  destruct (pt_none_dec P) as [->|NP]; [rewrite !ec_add_0_l; reflexivity|].
  destruct (pt_none_dec Q) as [->|NQ]; [rewrite ec_add_0_l, ec_add_0_r; reflexivity|].
  destruct (pt_none_dec R) as [->|NR]; [rewrite !ec_add_0_r; reflexivity|].
  pose proof (ec_add_wf _ _ WP WQ) as WS. pose proof (ec_add_wf _ _ WQ WR) as WT.
  (* Q = -P *)
  destruct (wf_tri P Q WP WQ NP NQ) as [D1|PQ].
  { subst Q. rewrite ec_add_neg, ec_add_0_l. symmetry.
    rewrite (ec_add_comm (neg P) R), (ec_add_comm P).
    pose proof (minus_id R (neg P) WR (neg_wf _ WP)) as M. rewrite (neg_neg _ WP) in M. exact M. }
  (* R = -Q *)
  destruct (wf_tri Q R WQ WR NQ NR) as [D2|QR].
  { subst R. rewrite ec_add_neg, ec_add_0_r. apply minus_id; assumption. }
  pose proof (pos_fin _ _ PQ) as NS. pose proof (pos_fin _ _ QR) as NT.
  (* R = -(P+Q) *)
  destruct (wf_tri (P +' Q) R WS WR NS NR) as [D3|SR].
  { rewrite D3, ec_add_neg. symmetry. rewrite <- ec_add_neg_neg.
    rewrite (ec_add_comm Q).
    pose proof (minus_id (neg P) (neg Q) (neg_wf _ WP) (neg_wf _ WQ)) as M.
    rewrite (neg_neg _ WQ) in M. rewrite M. apply ec_add_neg. }
  (* Q+R = -P *)
  destruct (wf_tri P (Q +' R) WP WT NP NT) as [D4|PT].
  { rewrite D4, ec_add_neg.
    assert (EP : P = neg Q +' neg R).
    { rewrite ec_add_neg_neg, D4. symmetry. apply (neg_neg _ WP). }
    rewrite EP, (ec_add_comm (neg Q) (neg R)).
    pose proof (minus_id (neg R) (neg Q) (neg_wf _ WR) (neg_wf _ WQ)) as M.
    rewrite (neg_neg _ WQ) in M. rewrite M. rewrite ec_add_comm. apply ec_add_neg. }
  destruct PQ as [[EQ YP]|XPQ]; destruct QR as [[ER YQ]|XQR].
  - (* P = Q = R *) subst. apply ec_add_comm.
  - (* P = Q, chord Q R *) subst Q.
    destruct PT as [[ET YP']|XPT].
    { exfalso. apply NR. apply (ec_add_unit P R WP WR ET). }
    destruct SR as [[ES YS]|XSR].
    + subst R. apply spec4; try assumption; apply wf_oc; assumption.
    + apply spec2; try assumption; apply wf_oc; assumption.
  - (* chord P Q, Q = R *) subst R.
    destruct SR as [[ES YS]|XSR].
    { exfalso. apply NP. apply (ec_add_unit Q P WQ WP). rewrite ec_add_comm. symmetry. exact ES. }
    destruct PT as [[ET YP']|XPT].
    + subst P. symmetry.
      rewrite (ec_add_comm (Q +' Q +' Q) Q), (ec_add_comm (Q +' Q) Q).
      apply spec4; try assumption; try (apply wf_oc; assumption).
      * apply xne_sym. exact XPQ.
      * apply xne_sym. rewrite (ec_add_comm Q (Q +' Q)). exact XSR.
    + symmetry.
      rewrite (ec_add_comm P (Q +' Q)), (ec_add_comm (P +' Q) Q), (ec_add_comm P Q).
      apply spec2; try assumption; try (apply wf_oc; assumption).
      * apply xne_sym. exact XPQ.
      * apply xne_sym. exact XPT.
      * apply xne_sym. rewrite (ec_add_comm Q P). exact XSR.
  - (* chord P Q, chord Q R *)
    destruct SR as [[ES YS]|XSR]; destruct PT as [[ET YP']|XPT].
    + (* R = P+Q and Q+R = P: Q has order two *)
      subst R.
      assert (EQ2 : neg Q = Q).
      { apply (ec_add_cancel P _ _ WP (neg_wf _ WQ) WQ).
        pose proof (minus_id (P +' Q) Q WS WQ) as M.
        rewrite (ec_add_comm (P +' Q) Q), ET in M. exact M. }
      rewrite ET. destruct Q as [[x2 y2]|]; [|congruence].
      apply spec5; try assumption; try (apply wf_oc; assumption).
      cbn [aff_neg] in EQ2. injection EQ2 as EQ2. apply neg_self.
      rewrite <- EQ2 at 1. apply mod_eqm.
    + subst R. apply spec3; try assumption; apply wf_oc; assumption.
    + subst P. symmetry.
      rewrite (ec_add_comm (Q +' R +' Q) R), (ec_add_comm (Q +' R) Q), (ec_add_comm Q R).
      rewrite (ec_add_comm Q R) in YP', XPQ, XSR.
      apply spec3; try assumption; try (apply wf_oc; assumption).
      * apply xne_sym. exact XQR.
      * apply xne_sym. exact XPQ.
      * apply xne_sym. rewrite (ec_add_comm Q (R +' Q)). exact XSR.
    + apply spec1; try assumption; apply wf_oc; assumption.
Qed.

(* ------------------------------------------------------------------ *)
(* multiples, subgroups without a point of order two, ec_group *)

Notation emul := (nmul (ec_add p a)).

Lemma emul_wf k G : wf G -> wf (emul k G).
Proof. intro W. induction k; cbn [nmul]; [exact I | apply ec_add_wf; assumption]. Qed.

Lemma emul_add k m G : wf G -> emul (k + m) G = emul k G +' emul m G.
Proof.
  intro W. induction m as [|m IH].
  - rewrite Nat.add_0_r. cbn [nmul]. rewrite ec_add_0_r. reflexivity.
  - rewrite Nat.add_succ_r. cbn [nmul]. rewrite IH.
    apply ec_add_assoc_wf; [apply emul_wf | apply emul_wf |]; exact W.
Qed.

Lemma emul_none k : emul k None = None.
Proof. induction k; cbn [nmul]; [reflexivity | rewrite IHk; reflexivity]. Qed.

Lemma emul_mul k m G : wf G -> emul (k * m) G = emul k (emul m G).
Proof.
  intro W. induction k as [|k IH]; [reflexivity|].
  cbn [Nat.mul nmul]. rewrite emul_add by exact W. rewrite IH. apply ec_add_comm.
Qed.

Lemma emul_order2 P m : P +' P = None -> emul (2 * m + 1) P = P.
Proof.
  intro H. rewrite Nat.add_1_r. cbn [nmul].
  assert (E : emul (2 * m) P = None).
  { induction m as [|m IH]; [reflexivity|].
    replace (2 * S m)%nat with (S (S (2 * m))) by lia. cbn [nmul]. rewrite IH, ec_add_0_l. exact H. }
  rewrite E. apply ec_add_0_l.
Qed.

Definition inE (G P : pt) : Prop := exists k, P = emul k G.

Lemma inE_wf G P : wf G -> inE G P -> wf P.
Proof. intros W [k ->]. apply emul_wf, W. Qed.

Lemma inE_add G P Q : wf G -> inE G P -> inE G Q -> inE G (P +' Q).
Proof. intros W [k ->] [m ->]. exists (k + m)%nat. symmetry. apply emul_add, W. Qed.

Lemma inE_neg G n P : wf G -> (0 < n)%nat -> emul n G = None -> inE G P -> inE G (neg P).
Proof.
  intros W Hn HG [k ->]. exists (k * (n - 1))%nat. symmetry.
  apply ec_add_none_inv; [apply emul_wf, W | apply emul_wf, W |].
  rewrite <- emul_add by exact W.
  replace (k + k * (n - 1))%nat with (k * n)%nat by nia.
  rewrite emul_mul by exact W. rewrite HG. apply emul_none.
Qed.

Lemma inE_no2 G n x y : wf G -> Nat.odd n = true -> emul n G = None ->
  inE G (pS (x, y)) -> ~ y == 0.
Proof.
  intros W Hodd HG [k Ek] Hy.
  apply Nat.odd_spec in Hodd. destruct Hodd as [m ->].
  assert (H2 : pS (x, y) +' pS (x, y) = None) by (apply ec_add_sing; [reflexivity | reflexivity | exact Hy]).
  pose proof (emul_order2 _ m H2) as E.
  rewrite Ek in E at 1. rewrite <- emul_mul in E by exact W.
  rewrite Nat.mul_comm, emul_mul, HG, emul_none in E by exact W. discriminate E.
Qed.

(* aff_add against ec_add *)
Lemma ec_add_aff_r P x2 y2 : ~ y2 == 0 -> P +' pS (x2, y2) = aff_add p a P (pS (x2, y2)).
Proof.
  intro H. destruct P as [[x1 y1]|]; [|reflexivity]. apply ec_add_aff.
  destruct (eqm_dec p y1 y2) as [E|E]; [right; right; rewrite E; exact H | right; left; exact E].
Qed.

Lemma xne_aff P Q : xne p P Q -> P +' Q = aff_add p a P Q.
Proof.
  destruct P as [[x1 y1]|], Q as [[x2 y2]|]; cbn [xne]; try tauto.
  intro H. apply ec_add_aff. left. exact H.
Qed.

Lemma ynz_aff P : ynz p P -> P +' P = aff_add p a P P.
Proof.
  destruct P as [[x1 y1]|]; cbn [ynz]; try tauto. intro H. apply ec_add_aff. right; right. exact H.
Qed.

(* any subgroup of E(F_p) without a point with y == 0 satisfies the group-law record of
   Model/Ec.v, with aff_add itself as operation *)
Theorem ec_group_of_subgroup (inG : pt -> Prop) :
  inG None -> (forall P, inG P -> wf P) ->
  (forall P Q, inG P -> inG Q -> inG (P +' Q)) -> (forall P, inG P -> inG (neg P)) ->
  (forall x y, inG (pS (x, y)) -> ~ y == 0) ->
  ec_group p a inG (aff_add p a) (aff_neg p).
Proof.
  intros G0 GW GA GN G2.
  assert (AE : forall P Q, inG Q -> aff_add p a P Q = P +' Q).
  { intros P Q HQ. destruct Q as [[x2 y2]|].
    - symmetry. apply ec_add_aff_r. apply (G2 _ _ HQ).
    - rewrite ec_add_0_r. apply aff_add_id_r. }
  constructor.
  - exact Hp.
  - exact Hp2.
  - exact G0.
  - intros P Q HP HQ. rewrite (AE _ _ HQ). apply GA; assumption.
  - exact GN.
  - exact G2.
  - reflexivity.
  - apply aff_add_id_r.
  - intros [x1 y1] [x2 y2] _ _ Hx. cbn [fst] in Hx.
    destruct (aff_add_chord x1 y1 x2 y2 Hx) as (q & E & _ & A). exists q. split; assumption.
  - intros [x1 y1] [x2 y2] H1 _ Hx Hy. cbn [fst snd] in Hx, Hy.
    destruct (aff_add_tangent x1 y1 x2 y2 Hx Hy (G2 _ _ H1)) as (q & E & _ & A).
    exists q. split; assumption.
  - intros [x1 y1] [x2 y2] _ _ Hx Hy. cbn [fst snd] in Hx, Hy. apply aff_add_opposite; assumption.
  - reflexivity.
  - intros [x y] _. exists (x, (- y) mod p). split; [reflexivity|]. cbn [fst snd].
    split; [reflexivity | apply mod_eqm].
  - intros P Q R HP HQ HR.
    rewrite (AE P Q HQ), (AE _ R HR), (AE Q R HR), (AE P _ (GA _ _ HQ HR)).
    apply ec_add_assoc_wf; apply GW; assumption.
  - intros P Q _ _. apply aff_add_comm.
  - intros P HP. rewrite (AE _ _ (GN _ HP)). apply ec_add_neg.
Qed.

(* multiples of a base point of odd order *)
Lemma aff_inv_0 x : x == 0 -> aff_inv p x = 0.
Proof.
  intro H. unfold aff_inv. apply eqm_0_iff in H. rewrite H.
  rewrite Z.pow_0_l by lia. apply Zmod_0_l.
Qed.

Lemma y0_step x y gx gy : y == 0 -> gy == 0 ->
  exists x' y', aff_add p a (pS (x, y)) (pS (gx, gy)) = pS (x', y') /\ y' == 0.
Proof.
  intros Hy Hg. destruct (eqm_dec p x gx) as [Ex|Ex].
  - unfold aff_add. rewrite (proj2 (eqmb_spec p x gx) Ex).
    assert (Eyg : y == gy) by (rewrite Hy, Hg; reflexivity).
    rewrite (proj2 (eqmb_spec p y gy) Eyg).
    eexists; eexists; split; [reflexivity|].
    rewrite aff_inv_0 by (rewrite Hy; ring). rewrite Z.mul_0_r, Zmod_0_l, mod_eqm, Hy. ring.
  - destruct (aff_add_chord x y gx gy Ex) as ([x3 y3] & E & _ & (l & Hl & _ & Hy3)).
    exists x3, y3. split; [exact E|].
    assert (L : l == 0).
    { apply (cancel_r (gx - x)); [apply neq_sub, Ex|]. rewrite Hl, Hy, Hg. ring. }
    rewrite Hy3, L, Hy. ring.
Qed.

Lemma amul_y0 gx gy k : gy == 0 ->
  exists x y, nmul (aff_add p a) (S k) (pS (gx, gy)) = pS (x, y) /\ y == 0.
Proof.
  intro Hg. induction k as [|k (x & y & E & Hy)].
  - exists gx, gy. split; [reflexivity | exact Hg].
  - cbn [nmul] in *. rewrite E. apply y0_step; assumption.
Qed.

Lemma amul_emul gx gy k : ~ gy == 0 ->
  nmul (aff_add p a) k (pS (gx, gy)) = emul k (pS (gx, gy)).
Proof.
  intro Hg. induction k as [|k IH]; [reflexivity|]. cbn [nmul]. rewrite IH.
  symmetry. apply ec_add_aff_r, Hg.
Qed.

Theorem ec_group_generated_nat gx gy n :
  wf (pS (gx, gy)) -> Nat.odd n = true -> nmul (aff_add p a) n (pS (gx, gy)) = None ->
  ec_group p a (fun P => exists k, P = nmul (aff_add p a) k (pS (gx, gy))) (aff_add p a) (aff_neg p).
Proof.
  intros W Hodd HG.
  assert (Hn : (0 < n)%nat) by (destruct n; [discriminate Hodd | lia]).
  assert (Hg : ~ gy == 0).
  { intro Hg. destruct n as [|n]; [lia|].
    destruct (amul_y0 gx gy n Hg) as (x & y & E & _). rewrite E in HG. discriminate HG. }
  rewrite (amul_emul _ _ _ Hg) in HG.
  assert (EQ : forall P, (exists k, P = nmul (aff_add p a) k (pS (gx, gy))) <-> inE (pS (gx, gy)) P).
  { intro P. split; intros [k E]; exists k; rewrite E; [|symmetry]; apply amul_emul, Hg. }
  apply ec_group_of_subgroup.
  - exists 0%nat. reflexivity.
  - intros P HP. apply EQ in HP. apply (inE_wf _ _ W HP).
  - intros P Q HP HQ. apply EQ. apply EQ in HP, HQ. apply inE_add; assumption.
  - intros P HP. apply EQ. apply EQ in HP. apply (inE_neg _ n); assumption.
  - intros x y HP. apply EQ in HP. apply (inE_no2 _ n x y W Hodd HG HP).
Qed.

(* ------------------------------------------------------------------ *)
(* the same statements for aff_add itself *)

Lemma aff_add_oc P Q : oc p a b P -> oc p a b Q ->
  (forall x1 y1 x2 y2, P = pS (x1, y1) -> Q = pS (x2, y2) -> x1 == x2 -> y1 == y2 -> ~ y1 == 0) ->
  oc p a b (aff_add p a P Q).
Proof.
  intros C1 C2 H. destruct P as [[x1 y1]|], Q as [[x2 y2]|]; try assumption.
  rewrite <- ec_add_aff; [apply ec_add_oc; assumption|].
  destruct (eqm_dec p x1 x2) as [Ex|Ex]; [destruct (eqm_dec p y1 y2) as [Ey|Ey]|].
  - right; right. apply (H x1 y1 x2 y2); auto.
  - right; left; exact Ey.
  - left; exact Ex.
Qed.

Lemma aff_add_neg x y : ~ y == 0 -> aff_add p a (pS (x, y)) (neg (pS (x, y))) = None.
Proof.
  intro H. cbn [aff_neg]. apply aff_add_opposite; [reflexivity|].
  rewrite mod_eqm. intro E. apply H, neg_self, E.
Qed.

Lemma aff_spec1 P1 P2 P3 : oc p a b P1 -> oc p a b P2 -> oc p a b P3 ->
  xne p P1 P2 -> xne p P2 P3 -> xne p (aff_add p a P1 P2) P3 -> xne p P1 (aff_add p a P2 P3) ->
  aff_add p a (aff_add p a P1 P2) P3 = aff_add p a P1 (aff_add p a P2 P3).
Proof.
  intros C1 C2 C3 H12 H23. rewrite <- (xne_aff _ _ H12), <- (xne_aff _ _ H23). intros H43 H15.
  rewrite <- (xne_aff _ _ H43), <- (xne_aff _ _ H15). apply spec1; assumption.
Qed.

Lemma aff_spec2 P R : oc p a b P -> oc p a b R ->
  ynz p P -> xne p P R -> xne p (aff_add p a P P) R -> xne p P (aff_add p a P R) ->
  aff_add p a (aff_add p a P P) R = aff_add p a P (aff_add p a P R).
Proof.
  intros C1 C3 Hy H13. rewrite <- (ynz_aff _ Hy), <- (xne_aff _ _ H13). intros H43 H15.
  rewrite <- (xne_aff _ _ H43), <- (xne_aff _ _ H15). apply spec2; assumption.
Qed.

Lemma aff_spec3 P Q : oc p a b P -> oc p a b Q ->
  xne p P Q -> ynz p (aff_add p a P Q) -> xne p Q (aff_add p a P Q) ->
  xne p P (aff_add p a Q (aff_add p a P Q)) ->
  aff_add p a (aff_add p a P Q) (aff_add p a P Q) = aff_add p a P (aff_add p a Q (aff_add p a P Q)).
Proof.
  intros C1 C2 H12. rewrite <- (xne_aff _ _ H12). intros Hy4 H24.
  rewrite <- (xne_aff _ _ H24). intro H15.
  rewrite <- (ynz_aff _ Hy4), <- (xne_aff _ _ H15). apply spec3; assumption.
Qed.

Lemma aff_spec4 P : oc p a b P ->
  ynz p P -> ynz p (aff_add p a P P) -> xne p P (aff_add p a P P) ->
  xne p P (aff_add p a P (aff_add p a P P)) ->
  aff_add p a (aff_add p a P P) (aff_add p a P P) = aff_add p a P (aff_add p a P (aff_add p a P P)).
Proof.
  intros C1 Hy1. rewrite <- (ynz_aff _ Hy1). intros Hy4 H14.
  rewrite <- (xne_aff _ _ H14). intro H15.
  rewrite <- (ynz_aff _ Hy4), <- (xne_aff _ _ H15). apply spec4; assumption.
Qed.

End Law.

(* ====================================================================== *)
(* Main results, full statements.                                          *)
(*   p is any prime > 2, the curve is y^2 = x^3 + a x + b over Z_p,        *)
(*   coordinates are arbitrary integers unless `ec_wf` (reduced) is asked. *)

(* ---- L1: closure ---- *)

Theorem EcLaw_L1_chord_closed p a b x1 y1 x2 y2 q : prime p ->
  on_curve p a b (x1, y1) -> on_curve p a b (x2, y2) -> ~ eqm p x1 x2 ->
  add_rel p (x1, y1) (x2, y2) q -> on_curve p a b q.
Proof. intros Hp C1 C2 Hx A. exact (chord_on_curve p Hp a b x1 y1 x2 y2 q C1 C2 Hx A). Qed.
Print Assumptions EcLaw_L1_chord_closed.

Theorem EcLaw_L1_tangent_closed p a b x1 y1 q :
  on_curve p a b (x1, y1) -> dbl_rel p a (x1, y1) q -> on_curve p a b q.
Proof. apply tangent_on_curve. Qed.
Print Assumptions EcLaw_L1_tangent_closed.

(* aff_add of on-curve points is on the curve, except for doubling a point with y == 0 *)
Theorem EcLaw_L1_aff_add_closed p a b P Q : prime p -> 2 < p ->
  oc p a b P -> oc p a b Q ->
  (forall x1 y1 x2 y2, P = Some (x1, y1) -> Q = Some (x2, y2) ->
     eqm p x1 x2 -> eqm p y1 y2 -> ~ eqm p y1 0) ->
  oc p a b (aff_add p a P Q).
Proof. intros Hp Hp2 C1 C2 H. apply (aff_add_oc p Hp Hp2 a b P Q C1 C2 H). Qed.
Print Assumptions EcLaw_L1_aff_add_closed.

Theorem EcLaw_L1_ec_add_closed p a b P Q : prime p -> 2 < p ->
  oc p a b P -> oc p a b Q -> oc p a b (ec_add p a P Q).
Proof. intros Hp Hp2. apply (ec_add_oc p Hp Hp2 a b). Qed.
Print Assumptions EcLaw_L1_ec_add_closed.

Theorem EcLaw_L1_ec_add_wf p a b P Q : prime p -> 2 < p ->
  ec_wf p a b P -> ec_wf p a b Q -> ec_wf p a b (ec_add p a P Q).
Proof. intros Hp Hp2. apply (ec_add_wf p Hp Hp2 a b). Qed.
Print Assumptions EcLaw_L1_ec_add_wf.

Theorem EcLaw_L1_neg_closed p a b P : 2 < p ->
  (oc p a b P -> oc p a b (aff_neg p P)) /\ (ec_wf p a b P -> ec_wf p a b (aff_neg p P)).
Proof.
  intro Hp2. split; [|apply neg_wf; exact Hp2].
  destruct P as [[x y]|]; [|exact (fun H => H)]. apply neg_on_curve.
Qed.
Print Assumptions EcLaw_L1_neg_closed.

Theorem EcLaw_L1_reduced p a x1 y1 x2 y2 q : 2 < p ->
  aff_add p a (Some (x1, y1)) (Some (x2, y2)) = Some q -> 0 <= fst q < p /\ 0 <= snd q < p.
Proof. intros Hp2 H. exact (aff_add_fin_red p Hp2 a x1 y1 x2 y2 q H). Qed.
Print Assumptions EcLaw_L1_reduced.

Theorem EcLaw_L1_ec_add_eq_aff_add p a x1 y1 x2 y2 :
  ~ eqm p x1 x2 \/ ~ eqm p y1 y2 \/ ~ eqm p y1 0 ->
  ec_add p a (Some (x1, y1)) (Some (x2, y2)) = aff_add p a (Some (x1, y1)) (Some (x2, y2)).
Proof. apply ec_add_aff. Qed.
Print Assumptions EcLaw_L1_ec_add_eq_aff_add.

(* ---- L2: identity, commutativity, inverse ---- *)

Theorem EcLaw_L2_identity p a P : aff_add p a None P = P /\ aff_add p a P None = P.
Proof. split; [reflexivity | apply aff_add_id_r]. Qed.
Print Assumptions EcLaw_L2_identity.

Theorem EcLaw_L2_comm p a P Q : prime p -> 2 < p -> aff_add p a P Q = aff_add p a Q P.
Proof. intros Hp Hp2. apply (aff_add_comm p Hp Hp2 a). Qed.
Print Assumptions EcLaw_L2_comm.

Theorem EcLaw_L2_inverse p a x y : prime p -> 2 < p -> ~ eqm p y 0 ->
  aff_add p a (Some (x, y)) (aff_neg p (Some (x, y))) = None.
Proof. intros Hp Hp2. apply (aff_add_neg p Hp Hp2 a). Qed.
Print Assumptions EcLaw_L2_inverse.

Theorem EcLaw_L2_ec_add_laws p a P Q : prime p -> 2 < p ->
  ec_add p a None P = P /\ ec_add p a P None = P /\
  ec_add p a P Q = ec_add p a Q P /\ ec_add p a P (aff_neg p P) = None.
Proof.
  intros Hp Hp2. repeat split.
  - apply ec_add_0_r.
  - apply (ec_add_comm p Hp Hp2).
  - apply (ec_add_neg p Hp Hp2).
Qed.
Print Assumptions EcLaw_L2_ec_add_laws.

(* ---- L3: generic associativity (four chords), both coordinates ---- *)

Theorem EcLaw_L3_assoc_generic p a b P1 P2 P3 : prime p -> 2 < p ->
  oc p a b P1 -> oc p a b P2 -> oc p a b P3 ->
  xne p P1 P2 -> xne p P2 P3 -> xne p (aff_add p a P1 P2) P3 -> xne p P1 (aff_add p a P2 P3) ->
  aff_add p a (aff_add p a P1 P2) P3 = aff_add p a P1 (aff_add p a P2 P3).
Proof. intros Hp Hp2. apply (aff_spec1 p Hp Hp2 a b). Qed.
Print Assumptions EcLaw_L3_assoc_generic.

(* the same on the relations: no function, arbitrary representatives *)
Theorem EcLaw_L3_assoc_generic_rel p a b x1 y1 x2 y2 x3 y3 x4 y4 x5 y5 x6 y6 x7 y7 : prime p ->
  on_curve p a b (x1, y1) -> on_curve p a b (x2, y2) -> on_curve p a b (x3, y3) ->
  ~ eqm p x1 x2 -> add_rel p (x1, y1) (x2, y2) (x4, y4) ->
  ~ eqm p x2 x3 -> add_rel p (x2, y2) (x3, y3) (x5, y5) ->
  ~ eqm p x4 x3 -> add_rel p (x4, y4) (x3, y3) (x6, y6) ->
  ~ eqm p x1 x5 -> add_rel p (x1, y1) (x5, y5) (x7, y7) ->
  eqm p x6 x7 /\ eqm p y6 y7.
Proof. intro Hp. apply (spec1_rel p Hp a b). Qed.
Print Assumptions EcLaw_L3_assoc_generic_rel.

(* ---- L4: associativity with doublings ---- *)

Theorem EcLaw_L4_assoc_PP_R p a b P R : prime p -> 2 < p ->
  oc p a b P -> oc p a b R ->
  ynz p P -> xne p P R -> xne p (aff_add p a P P) R -> xne p P (aff_add p a P R) ->
  aff_add p a (aff_add p a P P) R = aff_add p a P (aff_add p a P R).
Proof. intros Hp Hp2. apply (aff_spec2 p Hp Hp2 a b). Qed.
Print Assumptions EcLaw_L4_assoc_PP_R.

Theorem EcLaw_L4_assoc_PQ_PQ p a b P Q : prime p -> 2 < p ->
  oc p a b P -> oc p a b Q ->
  xne p P Q -> ynz p (aff_add p a P Q) -> xne p Q (aff_add p a P Q) ->
  xne p P (aff_add p a Q (aff_add p a P Q)) ->
  aff_add p a (aff_add p a P Q) (aff_add p a P Q) = aff_add p a P (aff_add p a Q (aff_add p a P Q)).
Proof. intros Hp Hp2. apply (aff_spec3 p Hp Hp2 a b). Qed.
Print Assumptions EcLaw_L4_assoc_PQ_PQ.

Theorem EcLaw_L4_assoc_PP_PP p a b P : prime p -> 2 < p ->
  oc p a b P ->
  ynz p P -> ynz p (aff_add p a P P) -> xne p P (aff_add p a P P) ->
  xne p P (aff_add p a P (aff_add p a P P)) ->
  aff_add p a (aff_add p a P P) (aff_add p a P P) = aff_add p a P (aff_add p a P (aff_add p a P P)).
Proof. intros Hp Hp2. apply (aff_spec4 p Hp Hp2 a b). Qed.
Print Assumptions EcLaw_L4_assoc_PP_PP.

(* ---- L5: the full group law ---- *)

(* cancellation *)
Theorem EcLaw_L5_minus_id p a b P Q : prime p -> 2 < p -> ~ eqm p (4 * a * a * a + 27 * b * b) 0 ->
  ec_wf p a b P -> ec_wf p a b Q -> ec_add p a (ec_add p a P Q) (aff_neg p Q) = P.
Proof. intros Hp Hp2 Hns. apply (minus_id p Hp Hp2 a b Hns). Qed.
Print Assumptions EcLaw_L5_minus_id.

(* associativity on all of E(F_p), every degenerate configuration included *)
Theorem EcLaw_L5_assoc p a b P Q R : prime p -> 2 < p -> ~ eqm p (4 * a * a * a + 27 * b * b) 0 ->
  ec_wf p a b P -> ec_wf p a b Q -> ec_wf p a b R ->
  ec_add p a (ec_add p a P Q) R = ec_add p a P (ec_add p a Q R).
Proof. intros Hp Hp2 Hns. apply (ec_add_assoc_wf p Hp Hp2 a b Hns). Qed.
Print Assumptions EcLaw_L5_assoc.

(* a subgroup of E(F_p) without a point with y == 0 satisfies the group-law record
   (with aff_add itself): only closure facts are asked, every law is proved *)
Theorem EcLaw_L5_group_of_subgroup p a b (inG : pt -> Prop) :
  prime p -> 2 < p -> ~ eqm p (4 * a * a * a + 27 * b * b) 0 ->
  inG None -> (forall P, inG P -> ec_wf p a b P) ->
  (forall P Q, inG P -> inG Q -> inG (ec_add p a P Q)) -> (forall P, inG P -> inG (aff_neg p P)) ->
  (forall x y, inG (Some (x, y)) -> ~ eqm p y 0) ->
  ec_group p a inG (aff_add p a) (aff_neg p).
Proof. intros Hp Hp2 Hns. apply (ec_group_of_subgroup p Hp Hp2 a b Hns). Qed.
Print Assumptions EcLaw_L5_group_of_subgroup.

(* the multiples of a base point of odd order form such a group: the group-law
   hypothesis of the C17 theorems, for any non-singular curve over a prime field *)
Theorem EcLaw_L5_group_generated p a b gx gy n :
  prime p -> 2 < p -> ~ eqm p (4 * a * a * a + 27 * b * b) 0 ->
  0 <= gx < p -> 0 <= gy < p -> on_curve p a b (gx, gy) ->
  0 < n -> Z.odd n = true -> zmul (aff_add p a) (aff_neg p) n (Some (gx, gy)) = None ->
  ec_group p a (fun P => exists k : nat, P = nmul (aff_add p a) k (Some (gx, gy)))
           (aff_add p a) (aff_neg p).
Proof.
  intros Hp Hp2 Hns Rx Ry C Hn Hodd HG. destruct n as [|q|q]; try lia. cbn [zmul] in HG.
  apply (ec_group_generated_nat p Hp Hp2 a b Hns gx gy (Pos.to_nat q)).
  - split; [split; assumption | exact C].
  - apply Nat.odd_spec. destruct q as [q|q|].
    + exists (Pos.to_nat q). rewrite Pos2Nat.inj_xI. lia.
    + discriminate Hodd.
    + exists 0%nat. reflexivity.
  - exact HG.
Qed.
Print Assumptions EcLaw_L5_group_generated.

(* the hypotheses are satisfiable: y^2 = x^3 + x + 1 over Z_7, G = (0,1) of order 5 *)
Example EcLaw_L5_group_generated_nonvacuous :
  ec_group 7 1 (fun P => exists k : nat, P = nmul (aff_add 7 1) k (Some (0, 1)))
           (aff_add 7 1) (aff_neg 7).
Proof.
  apply (EcLaw_L5_group_generated 7 1 1 0 1 5); try lia; try reflexivity.
  all: try (apply small_prime_check_sound; vm_compute; reflexivity).
  all: try (apply eqmb_false; vm_compute; reflexivity).
Qed.
Print Assumptions EcLaw_L5_group_generated_nonvacuous.
