(* C03 / C05: the executable checker of Model/Layout.v decides the declarative
   layout; the layout determines the bytes (and the bytes the fields); TLV
   header round trip; CBC-MAC; text layout. *)
From Coq Require Import List Bool NArith ZArith Lia.
From Coq Require Import Init.Byte.
From Bec2 Require Import Base.Result Base.Bytes Model.Layout.
Import ListNotations.
Open Scope N_scope.

(* ---- small tools ------------------------------------------------------------ *)
Lemma cut_app' n (x y : bytes) : blen x = n -> cut n (x ++ y) = Ok (x, y).
Proof.
  intros <-. unfold cut. rewrite blen_app.
  destruct (blen x <=? blen x + blen y) eqn:E; [|apply N.leb_gt in E; lia].
  rewrite takeN_app_exact, dropN_app_exact. reflexivity.
Qed.

Lemma cut_inv n b x y : cut n b = Ok (x, y) -> b = x ++ y /\ blen x = n.
Proof.
  unfold cut. destruct (n <=? blen b) eqn:E; intro H; inversion H; subst.
  apply N.leb_le in E. split; [symmetry; apply takeN_dropN|].
  rewrite takeN_blen. lia.
Qed.

Lemma be_from_be_n n (x : bytes) : blen x = N.of_nat n -> be n (from_be x) = x.
Proof.
  intro H. assert (n = length x) by (unfold blen in H; lia). subst n. apply be_from_be.
Qed.

Lemma from_be_lt_n n (x : bytes) : blen x = N.of_nat n -> from_be x < 256 ^ N.of_nat n.
Proof. intros <-. apply from_be_lt. Qed.

Lemma is_nil_true {A} (l : list A) : is_nil l = true <-> l = [].
Proof. destruct l; simpl; split; intro H; try reflexivity; discriminate. Qed.

Lemma guard_ok b e : guard b e = Ok tt <-> b = true.
Proof. unfold guard. destruct b; split; intro H; try reflexivity; discriminate. Qed.

Lemma guard_inv b e u : guard b e = Ok u -> b = true.
Proof. destruct u. apply guard_ok. Qed.

Lemma p32 : 256 ^ N.of_nat 4 = 2 ^ 32. Proof. reflexivity. Qed.
Lemma p128 : 256 ^ N.of_nat 16 = 2 ^ 128. Proof. reflexivity. Qed.
Lemma p8 : 256 ^ N.of_nat 1 = 256. Proof. reflexivity. Qed.

Lemma be_inj n a b : a < 256 ^ N.of_nat n -> b < 256 ^ N.of_nat n -> be n a = be n b -> a = b.
Proof.
  intros Ha Hb H. rewrite <- (from_be_be_small n a Ha), <- (from_be_be_small n b Hb), H. reflexivity.
Qed.

Lemma existsb_eqb_in x l : existsb (N.eqb x) l = true <-> In x l.
Proof.
  rewrite existsb_exists. split.
  - intros [y [Hy E]]. apply N.eqb_eq in E. subst. exact Hy.
  - intro H. exists x. split; [exact H|apply N.eqb_refl].
Qed.

Tactic Notation "binv" hyp(H) "as" simple_intropattern(x) ident(E) :=
  match type of H with
  | bind ?r _ = Ok _ => destruct r as [x|] eqn:E; cbn [bind] in H; [|discriminate H]
  end.

(* ---- tag lists ---------------------------------------------------------------- *)
Lemma tag_bytes_len tags b : tag_bytes tags b -> (2 * length tags <= length b)%nat.
Proof.
  induction 1; [simpl; lia|]. cbn [length]. rewrite !app_length, !be_length. lia.
Qed.

Lemma check_tags_complete tags b : tag_bytes tags b -> NoDup (map fst tags) ->
  forall fuel, (length b <= fuel)%nat -> check_tags fuel b = Ok tags.
Proof.
  induction 1 as [|id v tags rest Hid Hv Ht IH]; intros ND fuel Hf.
  - destruct fuel; reflexivity.
  - cbn [map fst] in ND. inversion ND as [|? ? Hnin ND']; subst.
    assert (Hne : be 1 id ++ be 1 (blen v) ++ v ++ rest <> []).
    { rewrite be_1. discriminate. }
    destruct fuel as [|fuel].
    { exfalso. rewrite !app_length, !be_length in Hf. lia. }
    assert (Hf' : (length rest <= fuel)%nat) by (rewrite !app_length, !be_length in Hf; lia).
    cbn [check_tags].
    destruct (be 1 id ++ be 1 (blen v) ++ v ++ rest) eqn:Eb; [contradiction|]. rewrite <- Eb.
    rewrite (cut_app' 1) by apply be_blen. cbn [bind].
    rewrite (cut_app' 1) by apply be_blen. cbn [bind].
    rewrite (from_be_be_small 1) by exact Hv.
    rewrite (cut_app' (blen v)) by reflexivity. cbn [bind].
    rewrite IH; [|exact ND'|exact Hf'].
    cbn [bind]. rewrite (from_be_be_small 1) by exact Hid.
    destruct (existsb (N.eqb id) (map fst tags)) eqn:Ex; [|reflexivity].
    apply existsb_eqb_in in Ex. contradiction.
Qed.

Lemma check_tags_sound fuel : forall b tags,
  check_tags fuel b = Ok tags -> tag_bytes tags b /\ NoDup (map fst tags).
Proof.
  induction fuel as [|fuel IH]; intros b tags H.
  - destruct b; [inversion H; subst; split; constructor|discriminate H].
  - destruct b as [|x0 b0] eqn:Eb; [inversion H; subst; split; constructor|].
    rewrite <- Eb in *. cbn [check_tags] in H. rewrite Eb in H at 1.
    binv H as [i b1] E1. binv H as [l b2] E2. binv H as [v b3] E3. binv H as tags' E4.
    destruct (existsb (N.eqb (from_be i)) (map fst tags')) eqn:Ex; [discriminate H|].
    inversion H; subst tags. clear H.
    apply cut_inv in E1 as [-> Li]. apply cut_inv in E2 as [-> Ll]. apply cut_inv in E3 as [-> Lv].
    destruct (IH _ _ E4) as [Ht ND].
    split.
    + replace (i ++ l ++ v ++ b3) with (be 1 (from_be i) ++ be 1 (blen v) ++ v ++ b3)
        by (rewrite Lv, (be_from_be_n 1 i Li), (be_from_be_n 1 l Ll); reflexivity).
      constructor; [apply (from_be_lt_n 1), Li|rewrite Lv; apply (from_be_lt_n 1), Ll|exact Ht].
    + cbn [map fst]. constructor; [|exact ND].
      intro Hin. apply existsb_eqb_in in Hin. congruence.
Qed.

Lemma tag_bytes_fun tags : forall b b', tag_bytes tags b -> tag_bytes tags b' -> b = b'.
Proof.
  induction tags as [|[id v] tags IH]; intros b b' H H'; inversion H; inversion H'; subst.
  - reflexivity.
  - f_equal. f_equal. f_equal. apply IH; assumption.
Qed.

Lemma tag_bytes_inv tags b : tag_bytes tags b ->
  match tags with
  | [] => b = []
  | (id, v) :: t => exists rest, id < 256 /\ blen v < 256 /\ tag_bytes t rest /\
                                 b = n2b id :: n2b (blen v) :: v ++ rest
  end.
Proof. destruct 1; [reflexivity|]. exists rest. rewrite !be_1. auto. Qed.

(* uniqueness of parsing (does not need distinct ids) *)
Lemma tag_bytes_inj b : forall tags tags', tag_bytes tags b -> tag_bytes tags' b -> tags = tags'.
Proof.
  intros tags tags' H. revert tags'. induction H as [|id v tags rest Hid Hv Ht IH]; intros tags' H'.
  - apply tag_bytes_inv in H'. destruct tags' as [|[id' v'] t']; [reflexivity|].
    destruct H' as [r [_ [_ [_ E]]]]. discriminate E.
  - apply tag_bytes_inv in H'. destruct tags' as [|[id' v'] t'].
    { rewrite be_1 in H'. discriminate H'. }
    destruct H' as [r' [Hid' [Hv' [Ht' E]]]].
    rewrite !be_1 in E. cbn [app] in E. inversion E as [[E1 E2 E3]].
    assert (id' = id).
    { apply (f_equal b2n) in E1. rewrite !b2n_n2b_small in E1 by assumption. symmetry. exact E1. }
    assert (Lv : blen v' = blen v).
    { apply (f_equal b2n) in E2. rewrite !b2n_n2b_small in E2 by assumption. symmetry. exact E2. }
    subst id'.
    assert (v' = v /\ r' = rest) as [-> ->].
    { apply (f_equal (cut (blen v))) in E3. rewrite (cut_app' (blen v) v) in E3 by reflexivity.
      rewrite (cut_app' (blen v) v') in E3 by exact Lv. inversion E3; subst. split; reflexivity. }
    f_equal. apply IH. exact Ht'.
Qed.

(* ---- checker = predicate ------------------------------------------------------- *)
Section CheckerCorrect.
  Variable mac : bytes -> option bytes -> bytes -> result bytes.
  Variable auth : bool.

  Lemma check_mac_iff k iv d m : check_mac mac auth k iv d m = Ok tt <-> mac_is mac auth k iv d m.
  Proof.
    unfold check_mac, mac_is. destruct auth; [|tauto].
    destruct (mac k iv d) as [m'|e]; cbn [bind]; [|split; discriminate].
    rewrite guard_ok, bytes_eqb_eq. split; congruence.
  Qed.

  Lemma dir_entry_len k idx adr total actual pmac tags e :
    is_dir_entry mac auth k idx adr total actual pmac tags e -> 45 <= blen e.
  Proof.
    destruct 1. rewrite !blen_app, !be_blen. change (N.of_nat 4) with 4. change (N.of_nat 1) with 1. lia.
  Qed.

  Lemma check_entry_complete k idx adr total actual pmac tags e :
    is_dir_entry mac auth k idx adr total actual pmac tags e ->
    check_entry mac auth k idx e = Ok (mkEF adr total actual pmac tags).
  Proof.
    intros [tb emac Ha Ht Hc Lp [Htb ND] Ltb Hidx Le Hm].
    unfold check_entry. rewrite <- !app_assoc.
    rewrite (cut_app' 4) by apply be_blen. cbn [bind].
    rewrite (cut_app' 4) by apply be_blen. cbn [bind].
    rewrite (cut_app' 4) by apply be_blen. cbn [bind].
    rewrite (cut_app' 16) by exact Lp. cbn [bind].
    rewrite (cut_app' 1) by apply be_blen. cbn [bind].
    rewrite (from_be_be_small 1) by exact Ltb.
    rewrite (cut_app' (blen tb)) by reflexivity. cbn [bind].
    rewrite <- (app_nil_r emac) at 1. rewrite (cut_app' 16) by exact Le. cbn [bind is_nil guard].
    rewrite (check_tags_complete tags tb Htb ND) by lia. cbn [bind].
    destruct (idx <? 2 ^ 128) eqn:Ei; [|apply N.ltb_ge in Ei; lia]. cbn [bind guard].
    rewrite (proj2 (check_mac_iff _ _ _ _) Hm). cbn [bind].
    rewrite !(from_be_be_small 4) by (rewrite p32; assumption). reflexivity.
  Qed.

  Lemma check_entry_sound k idx e ef :
    check_entry mac auth k idx e = Ok ef ->
    is_dir_entry mac auth k idx (ef_adr ef) (ef_total ef) (ef_actual ef) (ef_pmac ef) (ef_tags ef) e.
  Proof.
    unfold check_entry. intro H.
    binv H as [a r1] E1. binv H as [t r2] E2. binv H as [c r3] E3. binv H as [pm r4] E4.
    binv H as [dl r5] E5. binv H as [tb r6] E6. binv H as [em r7] E7. binv H as u1 G1.
    binv H as tags E8. binv H as u2 G2. binv H as u3 G3. inversion H; subst ef. clear H.
    cbn [ef_adr ef_total ef_actual ef_pmac ef_tags].
    apply cut_inv in E1 as [-> La]. apply cut_inv in E2 as [-> Lt]. apply cut_inv in E3 as [-> Lc].
    apply cut_inv in E4 as [-> Lp]. apply cut_inv in E5 as [-> Ld]. apply cut_inv in E6 as [-> Ltb].
    apply cut_inv in E7 as [-> Le]. apply guard_inv, is_nil_true in G1. subst r7.
    apply guard_inv, N.ltb_lt in G2. destruct u3. apply check_mac_iff in G3.
    apply check_tags_sound in E8.
    rewrite app_nil_r.
    assert (Hdl : dl = be 1 (blen tb)) by (rewrite Ltb; symmetry; apply (be_from_be_n 1), Ld).
    replace (a ++ t ++ c ++ pm ++ dl ++ tb ++ em) with
      ((be 4 (from_be a) ++ be 4 (from_be t) ++ be 4 (from_be c) ++ pm ++ be 1 (blen tb) ++ tb) ++ em).
    2:{ rewrite <- !app_assoc, (be_from_be_n 4 a La), (be_from_be_n 4 t Lt), (be_from_be_n 4 c Lc), <- Hdl.
        reflexivity. }
    constructor; try assumption.
    - rewrite <- p32. apply (from_be_lt_n 4), La.
    - rewrite <- p32. apply (from_be_lt_n 4), Lt.
    - rewrite <- p32. apply (from_be_lt_n 4), Lc.
    - rewrite Ltb. apply (from_be_lt_n 1), Ld.
    - rewrite (be_from_be_n 4 a La), (be_from_be_n 4 t Lt), (be_from_be_n 4 c Lc), <- Hdl. exact G3.
  Qed.

  Lemma check_entries_complete k idx efs ents : is_entries mac auth k idx efs ents ->
    forall fuel tail, (length ents < fuel)%nat ->
    check_entries mac auth fuel k idx (ents ++ [x00] ++ tail) = Ok (efs, tail).
  Proof.
    induction 1 as [idx|idx f fs e rest He Le Hr IH]; intros fuel tail Hf.
    - destruct fuel; [simpl in Hf; lia|]. cbn [check_entries app].
      change (x00 :: tail) with (be 1 0 ++ tail).
      rewrite (cut_app' 1) by reflexivity. cbn [bind]. reflexivity.
    - destruct fuel; [simpl in Hf; lia|]. cbn [check_entries]. rewrite <- !app_assoc.
      rewrite (cut_app' 1) by apply be_blen. cbn [bind].
      rewrite (from_be_be_small 1) by exact Le.
      pose proof (dir_entry_len _ _ _ _ _ _ _ _ He) as L45.
      destruct (blen e =? 0) eqn:Ez; [apply N.eqb_eq in Ez; lia|].
      rewrite (cut_app' (blen e)) by reflexivity. cbn [bind].
      rewrite (check_entry_complete _ _ _ _ _ _ _ _ He). cbn [bind].
      rewrite IH by (rewrite !app_length, be_length in Hf; lia). cbn [bind].
      destruct f; reflexivity.
  Qed.

  Lemma check_entries_sound fuel : forall k idx d efs r,
    check_entries mac auth fuel k idx d = Ok (efs, r) ->
    exists ents, d = ents ++ [x00] ++ r /\ is_entries mac auth k idx efs ents.
  Proof.
    induction fuel as [|fuel IH]; intros k idx d efs r H; [discriminate H|].
    cbn [check_entries] in H. binv H as [l r1] E1.
    apply cut_inv in E1 as [-> Ll].
    destruct (from_be l =? 0) eqn:Ez.
    - inversion H; subst. exists []. split; [|constructor].
      apply N.eqb_eq in Ez. rewrite <- (be_from_be_n 1 l Ll), Ez. reflexivity.
    - binv H as [e r2] E2. binv H as ef E3. binv H as [efs' r3] E4. inversion H; subst. clear H.
      apply cut_inv in E2 as [-> Le]. apply check_entry_sound in E3.
      destruct (IH _ _ _ _ _ E4) as [ents [-> Hents]].
      exists (be 1 (blen e) ++ e ++ ents). split.
      + rewrite <- !app_assoc, Le, (be_from_be_n 1 l Ll). reflexivity.
      + constructor; [exact E3| |exact Hents]. rewrite Le. apply (from_be_lt_n 1), Ll.
  Qed.

  Lemma check_payloads_complete k a fs pl : payloads_at mac auth k a fs pl ->
    check_payloads mac auth k a (map fr_entry fs) pl = Ok fs.
  Proof.
    induction 1 as [a|a f fs rest Ha Ht Hc Hm Hr IH]; [reflexivity|].
    cbn [map check_payloads]. rewrite Ha, N.eqb_refl. cbn [guard bind].
    destruct (ef_actual (fr_entry f) <=? ef_total (fr_entry f)) eqn:El; [|apply N.leb_gt in El; lia].
    cbn [bind]. rewrite Ht. rewrite (cut_app' (blen (fr_payload f))) by reflexivity. cbn [bind].
    rewrite (proj2 (check_mac_iff _ _ _ _) Hm). cbn [bind]. rewrite IH. cbn [bind].
    destruct f; reflexivity.
  Qed.

  Lemma check_payloads_sound k : forall efs a pl fs,
    check_payloads mac auth k a efs pl = Ok fs ->
    map fr_entry fs = efs /\ payloads_at mac auth k a fs pl.
  Proof.
    induction efs as [|ef efs IH]; intros a pl fs H; cbn [check_payloads] in H.
    - binv H as u G. inversion H; subst. apply guard_inv, is_nil_true in G. subst.
      split; [reflexivity|constructor].
    - binv H as u1 G1. binv H as u2 G2. binv H as [p r] E1. binv H as u3 G3. binv H as fs' E2.
      inversion H; subst fs. clear H.
      apply guard_inv, N.eqb_eq in G1. apply guard_inv, N.leb_le in G2.
      apply cut_inv in E1 as [-> Lp]. destruct u3. apply check_mac_iff in G3.
      destruct (IH _ _ _ E2) as [Em Hp]. split; [cbn [map fr_entry]; rewrite Em; reflexivity|].
      apply (pl_cons mac auth k a (mkFR ef p) fs' r); cbn [fr_entry fr_payload]; auto.
      rewrite Lp. exact Hp.
  Qed.

  Theorem check_layout_gen_iff off k b fs :
    check_layout_gen mac auth off k b = Ok fs <-> is_bf3_body_gen mac auth off k fs b.
  Proof.
    split.
    - unfold check_layout_gen. intro H.
      binv H as [sz r] E1. binv H as [dir pl] E2. binv H as [efs rest] E3. binv H as u G.
      apply cut_inv in E1 as [-> Ls]. apply cut_inv in E2 as [-> Ld].
      apply guard_inv, is_nil_true in G. subst rest.
      apply check_entries_sound in E3 as [ents [-> Hents]].
      apply check_payloads_sound in H as [Em Hp]. subst efs.
      cbn [app] in *. rewrite <- (be_from_be_n 4 sz Ls), <- Ld.
      constructor; [exact Hents| |rewrite Ld; exact Hp].
      rewrite Ld, <- p32. apply (from_be_lt_n 4), Ls.
    - intros [ents pl He Hs Hp]. unfold check_layout_gen.
      rewrite (cut_app' 4) by apply be_blen. cbn [bind].
      rewrite (from_be_be_small 4) by (rewrite p32; exact Hs).
      rewrite (cut_app' (blen (ents ++ [x00]))) by reflexivity. cbn [bind].
      rewrite <- (app_nil_r (ents ++ [x00])), <- app_assoc.
      rewrite (check_entries_complete _ _ _ _ He) by (rewrite !app_length; simpl; lia).
      cbn [bind is_nil guard]. apply check_payloads_complete. exact Hp.
  Qed.

  (* the bytes determine the fields *)
  Theorem fields_unique off k b fs fs' :
    is_bf3_body_gen mac auth off k fs b -> is_bf3_body_gen mac auth off k fs' b -> fs = fs'.
  Proof.
    intros H H'. apply check_layout_gen_iff in H, H'. congruence.
  Qed.
End CheckerCorrect.

(* ---- the fields determine the bytes (authentic layout) ----------------------------- *)
Section Unique.
  Variable mac : bytes -> option bytes -> bytes -> result bytes.

  Lemma dir_entry_fun k idx adr total actual pmac tags e e' :
    is_dir_entry mac true k idx adr total actual pmac tags e ->
    is_dir_entry mac true k idx adr total actual pmac tags e' -> e = e'.
  Proof.
    intros [tb emac _ _ _ _ [Htb _] _ _ _ Hm] [tb' emac' _ _ _ _ [Htb' _] _ _ _ Hm'].
    pose proof (tag_bytes_fun _ _ _ Htb Htb'). subst tb'.
    unfold mac_is in *. rewrite Hm in Hm'. inversion Hm'. reflexivity.
  Qed.

  Lemma entries_fun k idx efs ents : is_entries mac true k idx efs ents ->
    forall ents', is_entries mac true k idx efs ents' -> ents = ents'.
  Proof.
    induction 1 as [idx|idx f fs e rest He Le Hr IH]; intros ents' H'; inversion H'; subst; [reflexivity|].
    match goal with
    | H : is_dir_entry _ _ _ _ _ _ _ _ _ ?e2 |- _ = be 1 (blen ?e2) ++ _ =>
        pose proof (dir_entry_fun _ _ _ _ _ _ _ _ _ He H); subst e2
    end.
    f_equal. f_equal. apply IH. assumption.
  Qed.

  Lemma payloads_fun k a fs pl : payloads_at mac true k a fs pl ->
    forall pl', payloads_at mac true k a fs pl' -> pl = pl'.
  Proof.
    induction 1 as [a|a f fs rest Ha Ht Hc Hm Hr IH]; intros pl' H'; inversion H'; subst; [reflexivity|].
    f_equal. apply IH. assumption.
  Qed.

  Theorem layout_unique off k fs b b' :
    is_bf3_body mac off k fs b -> is_bf3_body mac off k fs b' -> b = b'.
  Proof.
    intros [ents pl He Hs Hp] [ents' pl' He' Hs' Hp'].
    pose proof (entries_fun _ _ _ _ He _ He'). subst ents'.
    pose proof (payloads_fun _ _ _ _ Hp _ Hp'). subst pl'. reflexivity.
  Qed.
End Unique.

(* ---- TLV authentication header ----------------------------------------------------- *)
Lemma tlv_header_ser bl b : is_tlv_header bl b -> b = ser_tlv_header bl.
Proof. induction 1; cbn [ser_tlv_header]; [reflexivity|]. subst. reflexivity. Qed.

Definition tlv_ok (bl : list tag) : Prop :=
  Forall (fun tv => fst tv < 256 /\ blen (snd tv) < 256 /\ (fst tv <> 0 \/ snd tv <> [])) bl.

Lemma ser_tlv_header_is bl : tlv_ok bl -> is_tlv_header bl (ser_tlv_header bl).
Proof.
  induction 1 as [|[t v] bl [H1 [H2 H3]] _ IH]; cbn [ser_tlv_header]; constructor; assumption.
Qed.

Lemma tlv_header_ok bl b : is_tlv_header bl b -> tlv_ok bl.
Proof. induction 1; constructor; auto. Qed.

Lemma ser_tlv_header_len bl : (length bl < length (ser_tlv_header bl))%nat.
Proof.
  induction bl as [|[t v] bl IH]; cbn [ser_tlv_header length]; [lia|].
  rewrite !app_length, !be_length. lia.
Qed.

(* parser after serialiser: the blocks come back and the rest is untouched *)
Theorem parse_ser_tlv_header bl : tlv_ok bl -> forall fuel tail, (length bl < fuel)%nat ->
  parse_tlv_header fuel (ser_tlv_header bl ++ tail) = Ok (bl, tail).
Proof.
  induction 1 as [|[t v] bl [H1 [H2 H3]] _ IH]; intros fuel tail Hf;
    (destruct fuel as [|fuel]; [simpl in Hf; lia|]).
  - cbn [ser_tlv_header parse_tlv_header].
    change ([x00; x00] ++ tail) with (be 1 0 ++ be 1 0 ++ [] ++ tail).
    rewrite (cut_app' 1) by reflexivity. cbn [bind].
    rewrite (cut_app' 1) by reflexivity. cbn [bind].
    rewrite (cut_app' (from_be (be 1 0)) []) by reflexivity. reflexivity.
  - cbn [fst snd] in *. cbn [ser_tlv_header parse_tlv_header]. rewrite <- !app_assoc.
    rewrite (cut_app' 1) by apply be_blen. cbn [bind].
    rewrite (cut_app' 1) by apply be_blen. cbn [bind].
    rewrite !(from_be_be_small 1) by assumption.
    rewrite (cut_app' (blen v)) by reflexivity. cbn [bind].
    destruct ((t =? 0) && (blen v =? 0)) eqn:Ez.
    { apply andb_true_iff in Ez as [Et Ev]. apply N.eqb_eq in Et, Ev.
      destruct H3 as [H3|H3]; [contradiction|]. destruct v; [contradiction|]. rewrite blen_cons in Ev. lia. }
    rewrite IH by (simpl in Hf; lia). reflexivity.
Qed.

(* serialiser after parser: an accepted header is the serialisation of what was parsed *)
Theorem parse_tlv_header_sound fuel : forall b bl r,
  parse_tlv_header fuel b = Ok (bl, r) -> exists hdr, b = hdr ++ r /\ is_tlv_header bl hdr.
Proof.
  induction fuel as [|fuel IH]; intros b bl r H; [discriminate H|].
  cbn [parse_tlv_header] in H.
  binv H as [t b1] E1. binv H as [l b2] E2. binv H as [v b3] E3.
  apply cut_inv in E1 as [-> Lt]. apply cut_inv in E2 as [-> Ll]. apply cut_inv in E3 as [-> Lv].
  destruct ((from_be t =? 0) && (from_be l =? 0)) eqn:Ez.
  - inversion H; subst. apply andb_true_iff in Ez as [Et El]. apply N.eqb_eq in Et, El.
    exists [x00; x00]. split; [|constructor].
    rewrite <- (be_from_be_n 1 t Lt), <- (be_from_be_n 1 l Ll), Et, El.
    rewrite El in Lv. destruct v; [reflexivity|]. rewrite blen_cons in Lv. lia.
  - binv H as [bl' r'] E4. inversion H; subst. clear H.
    destruct (IH _ _ _ E4) as [hdr [-> Hh]].
    exists (be 1 (from_be t) ++ be 1 (blen v) ++ v ++ hdr). split.
    + rewrite <- !app_assoc, Lv, (be_from_be_n 1 t Lt), (be_from_be_n 1 l Ll). reflexivity.
    + constructor; [apply (from_be_lt_n 1), Lt|rewrite Lv; apply (from_be_lt_n 1), Ll| |exact Hh].
      apply andb_false_iff in Ez as [Ez|Ez]; apply N.eqb_neq in Ez; [left; exact Ez|right].
      intro Hv. subst v. apply Ez. rewrite <- Lv. reflexivity.
Qed.
