(* C09: the ECC auth block against a specification-side ECIES decryptor *)
From Coq Require Import List Bool NArith ZArith Lia.
From Coq Require Import Init.Byte.
From Bec2 Require Import Base.Result Base.Bytes Base.Reader Base.Sweep Gen.Consts Model.Bf3 Model.AesContainer Model.Bec2
  Proofs.Bf3Proofs Proofs.Bec2Proofs Proofs.SessionKeyProofs.
Import ListNotations.
Open Scope N_scope.

Section S.
  Variable enc dec : bytes -> option bytes -> bytes -> result bytes.
  Variable sha256 : bytes -> bytes.
  Variable pub_of : privkey -> bytes.
  Variable valid_pub : bytes -> bool.
  Variable ecdh : privkey -> bytes -> bytes.
  Variable keygen : N -> privkey.

  Hypothesis enc_len : forall k d c, blen d mod 16 = 0 -> enc k None d = Ok c -> blen c = blen d.
  Hypothesis dec_enc : forall k d c, blen d mod 16 = 0 -> enc k None d = Ok c -> dec k None c = Ok d.
  Hypothesis pub_len : forall d, blen (pub_of d) = 64.
  Hypothesis ecdh_comm : forall d e, ecdh d (pub_of e) = ecdh e (pub_of d).

  Notation pack' := (pack enc sha256 pub_of ecdh keygen).

  (* ECIES recipient written from the property text (independent of Model.Bec2's reader):
     block = selector, 0x04, ephemeral point X||Y (64 bytes), AES-128-CBC(zero IV) ciphertext
     under the first 16 bytes of SHA-256 of the ECDH shared x-coordinate *)
  Definition ecies_recipient (d : privkey) (block : bytes) : result (N * bytes) :=
    match block with
    | sel :: m :: rest =>
      if negb (byte_eqb m x04) then Err EValue else
      if blen rest <? 64 + 16 then Err EValue else
      let E := takeN 64 rest in
      let ct := takeN 16 (dropN 64 rest) in
      let k := takeN 16 (sha256 (ecdh d E)) in
      let* key := dec k None ct in Ok (b2n sel, key)
    | _ => Err EValue
    end.

  Theorem ecc_block_layout sel key exts nk raw nk' s pub pr :
    select_encryptor KEcc exts
      (match default_pub sel with Some p => Some (EEcc sel p None) | None => None end) (ecc_sel_is sel)
      = Ok (EEcc s pub pr) ->
    pack' (ABEcc sel) key exts nk = Ok (raw, nk') ->
    sel < 256 /\ nk' = nk + 1 /\
    exists ct, raw = [n2b sel] ++ [x04] ++ pub_of (keygen nk) ++ ct /\
               enc (takeN 16 (sha256 (ecdh (keygen nk) pub))) None key = Ok ct.
  Proof.
    intros Hs Hp. cbn [pack] in Hp. rewrite Hs in Hp. cbn [bind] in Hp.
    destruct (to_bytes 1 sel) as [sb|] eqn:Es; cbn [bind] in Hp; [|discriminate].
    apply to_bytes_ok in Es as [-> Hsel]. change (256 ^ N.of_nat 1) with 256 in Hsel.
    destruct (e_encrypt enc sha256 pub_of ecdh keygen (EEcc s pub pr) key nk) as [[c n2]|] eqn:Ee;
      cbn [bind] in Hp; [|discriminate].
    injection Hp as <- <-.
    destruct (ecc_ephemeral_is_fresh enc sha256 pub_of ecdh keygen _ _ _ _ _ _ _ Ee) as [-> [ct [-> Ec]]].
    split; [exact Hsel|]. split; [reflexivity|]. exists ct. split; [reflexivity|exact Ec].
  Qed.

  Theorem ecies_recovers sel key exts nk raw nk' s d pr :
    blen key = 16 ->
    select_encryptor KEcc exts
      (match default_pub sel with Some p => Some (EEcc sel p None) | None => None end) (ecc_sel_is sel)
      = Ok (EEcc s (pub_of d) pr) ->
    pack' (ABEcc sel) key exts nk = Ok (raw, nk') ->
    ecies_recipient d raw = Ok (sel, key).
  Proof.
    intros Hk Hs Hp.
    destruct (ecc_block_layout sel key exts nk raw nk' s (pub_of d) pr Hs Hp) as [Hsel [_ [ct [-> Ec]]]].
    assert (Hkm : blen key mod 16 = 0) by (rewrite Hk; reflexivity).
    pose proof (enc_len _ _ _ Hkm Ec) as Lc. rewrite Hk in Lc.
    cbn [app ecies_recipient]. change (byte_eqb x04 x04) with true. cbn [negb].
    rewrite blen_app, pub_len, Lc. change (64 + 16 <? 64 + 16) with false. cbv iota.
    rewrite (takeN_app_exact' 64) by apply pub_len.
    rewrite (dropN_app_exact' 64) by apply pub_len.
    rewrite (takeN_all 16 ct) by lia.
    rewrite <- ecdh_comm. rewrite (dec_enc _ _ _ Hkm Ec). cbn [bind].
    rewrite b2n_n2b_small by exact Hsel. reflexivity.
  Qed.

  (* reader side: an ephemeral point the plug-in does not accept is refused, whatever follows *)
  Theorem invalid_point_refused sel s pub d tp ct decs :
    blen tp = 64 -> valid_pub tp = false ->
    select_encryptor KEcc decs None (ecc_sel_is (b2n sel)) = Ok (EEcc s pub (Some d)) ->
    unpack dec sha256 valid_pub ecdh TAG_ECC (sel :: x04 :: tp ++ ct) decs = Err EValue.
  Proof.
    intros Ht Hv Hs. unfold unpack.
    change (TAG_ECC =? TAG_CUSTKEY) with false. change (TAG_ECC =? TAG_ECC) with true. cbv iota.
    rewrite Hs. cbn [bind e_decrypt]. unfold new_reader.
    change (x04 :: tp ++ ct) with ([x04] ++ (tp ++ ct)).
    rewrite (rd_read_exact 1 [x04]) by reflexivity. cbn [bind]. rewrite bytes_eqb_refl. cbn [negb].
    rewrite (rd_read_exact 64 tp) by exact Ht. cbn [bind]. rewrite Hv. reflexivity.
  Qed.
End S.

(* the default recipients: every published DER constant is the 27-byte P-256 header
   followed by a 64-byte raw point, so default_pub strips exactly the header *)
Definition default_ok (p : N * bytes) : bool :=
  bytes_eqb (takeN der_header_len (snd p)) der_header && (blen (snd p) =? 91).
Lemma defaults_well_formed : forallb default_ok DEFAULT_PUBLIC_KEYS = true.
Proof. vm_compute. reflexivity. Qed.

Lemma default_selectors : map fst DEFAULT_PUBLIC_KEYS = [0; 1; 2; 3].
Proof. vm_compute. reflexivity. Qed.

Theorem default_recipient sel :
  sel < 4 ->
  exists der, In (sel, der) DEFAULT_PUBLIC_KEYS /\ der = der_header ++ dropN der_header_len der /\
    default_pub sel = Some (dropN der_header_len der) /\ blen (dropN der_header_len der) = 64 /\
    select_encryptor KEcc [] (match default_pub sel with Some p => Some (EEcc sel p None) | None => None end)
      (ecc_sel_is sel) = Ok (EEcc sel (dropN der_header_len der) None).
Proof.
  intro H.
  assert (Hs : sel = 0 \/ sel = 1 \/ sel = 2 \/ sel = 3) by lia.
  destruct Hs as [-> | [-> | [-> | ->]]]; eexists; (split; [|split; [|split; [|split]]]);
    try (vm_compute; reflexivity); vm_compute; tauto.
Qed.

Lemma header_is_27 : blen der_header = 27 /\ der_header_len = 27.
Proof. split; reflexivity. Qed.
