(* C17 - the affine class Point (Model/EcAffine.v over Gen/EcAffine.v):
   (1) its chord / tangent / negation results satisfy the division-free specification
       relations of Model/Ec.v for EVERY modulus (no primality, no group);
   (2) under the group-law hypothesis ec_group: __add__ = gadd, double = gadd P P,
       __neg__ = gneg, __mul__ k = zmul k for every integer k (loop invariant of the
       double-and-add-or-subtract loop over the bits of 3e and e), the `order` shortcut,
       INFINITY operands; the results denote the same group element as the PointJacobi
       model computes; __eq__ of the two classes;
   (3) which errors can occur: none for group points that lie on the curve. *)
From Coq Require Import List Bool ZArith Lia Ring Setoid Morphisms Znumtheory.
From Bec2 Require Import Base.Result Base.Modp Gen.EcFormulas Gen.EcAffine Model.Ec Model.EcAffine
  Proofs.EcFormulaProofs Proofs.EcNafProofs Proofs.EcMulProofs Proofs.EcMulAddProofs Proofs.EcTotalProofs.
Import ListNotations.
Open Scope Z_scope.

(* ---------------------------------------------------------------------- *)
(* 0. integers: bits against powers of two, leftmost_bit *)

Lemma land_pow2 e j : 0 <= j -> Z.land e (2 ^ j) = Z.b2z (Z.testbit e j) * 2 ^ j.
Proof.
  intro Hj. apply Z.bits_inj'. intros n Hn.
  rewrite Z.land_spec, Z.pow2_bits_eqb by assumption.
  destruct (Z.testbit e j) eqn:E; cbn [Z.b2z].
  - rewrite Z.mul_1_l, Z.pow2_bits_eqb by assumption.
    destruct (Z.eqb_spec j n) as [->|]; [rewrite E; reflexivity | apply andb_false_r].
  - rewrite Z.mul_0_l, Z.bits_0.
    destruct (Z.eqb_spec j n) as [->|]; [rewrite E; reflexivity | apply andb_false_r].
Qed.

Lemma land_pow2_eqb e j : 0 <= j -> (Z.land e (2 ^ j) =? 0) = negb (Z.testbit e j).
Proof.
  intro Hj. rewrite land_pow2 by assumption.
  destruct (Z.testbit e j); cbn [Z.b2z negb].
  - apply Z.eqb_neq. pose proof (Z.pow_pos_nonneg 2 j). lia.
  - reflexivity.
Qed.

Lemma div_pow2_step e j : 0 <= j -> e / 2 ^ j = 2 * (e / 2 ^ (j + 1)) + Z.b2z (Z.testbit e j).
Proof.
  intro Hj. rewrite Z.testbit_spec' by assumption.
  rewrite Z.pow_add_r, Z.pow_1_r by lia.
  rewrite <- Z.div_div by (try lia; apply Z.pow_pos_nonneg; lia).
  apply Z.div_mod. lia.
Qed.

Lemma lb_loop_spec x : 0 < x -> forall fuel j, 0 <= j <= Z.log2 x + 1 ->
  (Z.to_nat (Z.log2 x + 1 - j) < fuel)%nat ->
  lb_loop fuel (2 ^ j) x = Ok (2 ^ Z.log2 x).
Proof.
  intro Hx. induction fuel as [|f IH]; intros j Hj Hf; [lia|].
  cbn [lb_loop]. destruct (Z.leb_spec (2 ^ j) x) as [Hle|Hgt].
  - apply Z.log2_le_pow2 in Hle; [|assumption].
    replace (2 * 2 ^ j) with (2 ^ (j + 1)) by (rewrite Z.pow_add_r, Z.pow_1_r by lia; lia).
    apply IH; lia.
  - assert (j = Z.log2 x + 1) as ->.
    { destruct (Z.eq_dec j (Z.log2 x + 1)); [assumption|].
      assert (j <= Z.log2 x) by lia. apply Z.log2_le_pow2 in H; lia. }
    rewrite Z.pow_add_r, Z.pow_1_r by (pose proof (Z.log2_nonneg x); lia).
    rewrite Z.div_mul by lia. reflexivity.
Qed.

Lemma leftmost_bit_spec x : 0 < x -> leftmost_bit x = Ok (2 ^ Z.log2 x).
Proof.
  intro Hx. unfold leftmost_bit. apply Z.ltb_lt in Hx as Hb. rewrite Hb.
  change 1 with (2 ^ 0). apply lb_loop_spec; [assumption| |]; pose proof (Z.log2_nonneg x); lia.
Qed.

Lemma leftmost_bit_nonpos x : x <= 0 -> leftmost_bit x = Err EAssert.
Proof. intro H. unfold leftmost_bit. apply Z.ltb_ge in H. rewrite H. reflexivity. Qed.

(* ---------------------------------------------------------------------- *)
(* what an affine Point object denotes *)

Definition aff_eqm (p : Z) (q1 q2 : aff) : Prop :=
  eqm p (fst q1) (fst q2) /\ eqm p (snd q1) (snd q2).

(* the object R (None = INFINITY) denotes the group element Q: coordinates congruent *)
Definition arepr (p : Z) (R : apt) (Q : pt) : Prop :=
  match R, Q with
  | None, None => True
  | Some r, Some q => aff_eqm p r q
  | _, _ => False
  end.

(* the x coordinate is reduced (what the integer test `self.__x == other.__x` needs) *)
Definition xcan (p : Z) (R : apt) : Prop :=
  match R with None => True | Some q => fst q mod p = fst q end.

(* both coordinates reduced *)
Definition canon (p : Z) (R : apt) : Prop :=
  match R with None => True | Some q => fst q mod p = fst q /\ snd q mod p = snd q end.

Lemma canon_xcan p R : canon p R -> xcan p R.
Proof. destruct R as [q|]; [intros [H _]; exact H | trivial]. Qed.

(* ---------------------------------------------------------------------- *)
(* 1. every modulus: the specification relations *)

Section Spec.
Variables p a b : Z.
Notation "x == y" := (eqm p x y) (at level 70, no associativity).
Add Ring eqm_ring_aff1 : (eqm_rt p)
  (setoid (eqm_equiv p) (eqm_ext p), morphism (eqm_morph p), constants [Zcst]).

Lemma ap_new_ok q q' : ap_new p a b q = Ok q' -> q' = q /\ on_curve p a b q.
Proof.
  unfold ap_new. destruct (contains_point (fst q) (snd q) p a b) eqn:E; [|discriminate].
  intro H. injection H as <-. split; [reflexivity|].
  destruct q as [x y]. apply contains_point_spec. exact E.
Qed.

Lemma ap_new_err q e : ap_new p a b q = Err e -> e = EAssert /\ ~ on_curve p a b q.
Proof.
  unfold ap_new. destruct (contains_point (fst q) (snd q) p a b) eqn:E; [discriminate|].
  intro H. injection H as <-. split; [reflexivity|].
  destruct q as [x y]. intro K. apply contains_point_spec in K. cbn [fst snd] in E. congruence.
Qed.

Lemma ap_new_on q : on_curve p a b q -> ap_new p a b q = Ok q.
Proof.
  intro H. unfold ap_new. destruct q as [x y]. apply contains_point_spec in H.
  cbn [fst snd]. rewrite H. reflexivity.
Qed.

(* INFINITY is the identity *)
Lemma ap_add_inf_l Q : ap_add p a b None Q = Ok Q.
Proof. destruct Q as [[x y]|]; reflexivity. Qed.

Lemma ap_add_inf_r P : ap_add p a b P None = Ok P.
Proof. reflexivity. Qed.

Lemma ap_double_inf : ap_double p a b None = Ok None.
Proof. reflexivity. Qed.

(* equal x (as integers): opposite points give INFINITY, anything else is doubled *)
Lemma ap_add_opp x y1 y2 : y1 + y2 == 0 -> ap_add p a b (Some (x, y1)) (Some (x, y2)) = Ok None.
Proof.
  intro H. unfold ap_add, ap_add_same_x, ap_add_opposite. rewrite Z.eqb_refl.
  apply eqm_0_iff in H. rewrite H. reflexivity.
Qed.

Lemma ap_add_same x y1 y2 : ~ y1 + y2 == 0 ->
  ap_add p a b (Some (x, y1)) (Some (x, y2)) = ap_double p a b (Some (x, y1)).
Proof.
  intro H. unfold ap_add, ap_add_same_x, ap_add_opposite. rewrite Z.eqb_refl.
  destruct (Z.eqb_spec ((y1 + y2) mod p) 0) as [E|E]; [|reflexivity].
  exfalso. apply H, eqm_0_iff, E.
Qed.

(* different x: the chord relation, result on the curve (Point.__init__ asserted it) and reduced *)
Lemma ap_add_chord x1 y1 x2 y2 R : x1 <> x2 ->
  ap_add p a b (Some (x1, y1)) (Some (x2, y2)) = Ok R ->
  exists a3, R = Some a3 /\ add_rel p (x1, y1) (x2, y2) a3 /\ on_curve p a b a3 /\ canon p R.
Proof.
  intros Hx E. unfold ap_add, ap_add_same_x in E. apply Z.eqb_neq in Hx as Hb. rewrite Hb in E.
  unfold ap_add_den in E. cbv zeta in E.
  destruct (inverse_mod (x2 - x1) p) as [inv|e] eqn:EI; [|discriminate E]. cbn [bind] in E.
  destruct (ap_new p a b (ap_add_xy x1 y1 x2 y2 p inv)) as [q|e] eqn:EN; [|discriminate E].
  cbn [bind] in E. injection E as <-.
  apply ap_new_ok in EN as [-> Hon].
  assert (Hi : inv * (x2 - x1) == 1) by (apply (inverse_mod_spec p _ _ EI); lia).
  exists (ap_add_xy x1 y1 x2 y2 p inv). split; [reflexivity|]. split; [|split; [exact Hon|]].
  - unfold ap_add_xy. cbv zeta. exists ((y2 - y1) * inv mod p). repeat split.
    + rewrite mod_eqm. transitivity ((y2 - y1) * (inv * (x2 - x1))); [ring|]. rewrite Hi. ring.
    + rewrite mod_eqm. reflexivity.
    + rewrite mod_eqm. reflexivity.
  - unfold ap_add_xy, canon. cbv zeta. cbn [fst snd]. split; apply Zmod_mod.
Qed.

(* doubling a point with y <> 0: the tangent relation *)
Lemma ap_double_tangent x y R : y <> 0 ->
  ap_double p a b (Some (x, y)) = Ok R ->
  exists a3, R = Some a3 /\ dbl_rel p a (x, y) a3 /\ on_curve p a b a3 /\ canon p R.
Proof.
  intros Hy E. unfold ap_double in E. unfold ap_double_den in E. cbv zeta in E.
  destruct (inverse_mod (2 * y) p) as [inv|e] eqn:EI; [|discriminate E]. cbn [bind] in E.
  destruct (ap_new p a b (ap_double_xy x y p a inv)) as [q|e] eqn:EN; [|discriminate E].
  cbn [bind] in E. injection E as <-.
  apply ap_new_ok in EN as [-> Hon].
  assert (Hi : inv * (2 * y) == 1) by (apply (inverse_mod_spec p _ _ EI); lia).
  exists (ap_double_xy x y p a inv). split; [reflexivity|]. split; [|split; [exact Hon|]].
  - unfold ap_double_xy. cbv zeta. exists ((3 * x * x + a) * inv mod p). repeat split.
    + rewrite mod_eqm. transitivity ((3 * x * x + a) * (inv * (2 * y))); [ring|]. rewrite Hi. ring.
    + rewrite mod_eqm. reflexivity.
    + rewrite mod_eqm. reflexivity.
  - unfold ap_double_xy, canon. cbv zeta. cbn [fst snd]. split; apply Zmod_mod.
Qed.

(* negation: same x, y |-> p - y; P + (-P) = INFINITY *)
Lemma ap_neg_spec q q' : ap_neg p a b q = Ok q' ->
  fst q' = fst q /\ snd q' = p - snd q /\ snd q' == - snd q /\ on_curve p a b q'.
Proof.
  unfold ap_neg, ap_neg_xy. intro E. apply ap_new_ok in E as [-> Hon]. cbn [fst snd].
  split; [reflexivity|]. split; [reflexivity|]. split; [|exact Hon].
  apply eqm_def. replace (p - snd q) with (- snd q + 1 * p) by lia. apply Z_mod_plus_full.
Qed.

Lemma ap_add_neg q q' : ap_neg p a b q = Ok q' -> ap_add p a b (Some q) (Some q') = Ok None.
Proof.
  intro E. apply ap_neg_spec in E as [Hx [_ [Hy _]]].
  destruct q as [x y], q' as [x' y']. cbn [fst snd] in *. subst x'.
  apply ap_add_opp. rewrite Hy. ring.
Qed.

(* Point.__eq__ is equality of the objects' coordinates *)
Lemma ap_eqb_eq P Q : ap_eqb P Q = true <-> P = Q.
Proof.
  destruct P as [[x1 y1]|], Q as [[x2 y2]|]; cbn; split; intro H; try discriminate; try reflexivity.
  - apply andb_true_iff in H as [H1 H2]. apply Z.eqb_eq in H1, H2. congruence.
  - injection H as -> ->. rewrite !Z.eqb_refl. reflexivity.
Qed.

(* the order assertion of Point.__init__ can never fail: `self * order` returns INFINITY at
   the first test of __mul__, whatever the point and the claimed order are *)
Lemma ap_mul_head_self ord : ord <> 0 -> ap_mul_head ord ord = true.
Proof.
  intro H. unfold ap_mul_head. apply Z.eqb_neq in H as Hb. rewrite Hb. cbn [negb andb].
  rewrite Z_mod_same_full. apply orb_true_r.
Qed.

Lemma ap_init_inner_eq h ord q : ap_init_inner p a b h ord q = ap_new p a b q.
Proof.
  unfold ap_init_inner. destruct (ap_new p a b q) as [q'|e]; [|reflexivity]. cbn [bind].
  destruct (negb (h =? 1)); [|reflexivity]. cbn [andb].
  destruct (Z.eqb_spec ord 0) as [->|Ho]; [reflexivity|]. cbn [negb].
  rewrite ap_mul_head_self by assumption. reflexivity.
Qed.

Theorem ap_init_order_vacuous h ord q : ap_init p a b h ord q = ap_new p a b q.
Proof.
  unfold ap_init. destruct (ap_new p a b q) as [q'|e]; [|reflexivity]. cbn [bind].
  destruct (negb (h =? 1)); [|reflexivity]. cbn [andb].
  destruct (Z.eqb_spec ord 0) as [->|Ho]; [reflexivity|]. cbn [negb].
  unfold ap_mul. rewrite ap_mul_head_self by assumption. reflexivity.
Qed.

(* --- which results are reduced: everything the formulas compute; the only objects __mul__
   can hand back with unreduced coordinates are its operand and `negative_self` --- *)

Lemma double_canon P R : ap_double p a b P = Ok R -> canon p R.
Proof.
  destruct P as [[sx sy]|]; cbn [ap_double]; [|intro E; injection E as <-; exact I].
  destruct (inverse_mod _ p) as [inv|e]; [|discriminate]. cbn [bind].
  destruct (ap_new p a b _) as [q|e] eqn:EN; [|discriminate]. cbn [bind].
  intro E. injection E as <-. apply ap_new_ok in EN as [-> _].
  unfold ap_double_xy. cbv zeta. split; cbn [fst snd]; apply Zmod_mod.
Qed.

Lemma add_canon_fin q1 q2 R : ap_add p a b (Some q1) (Some q2) = Ok R -> canon p R.
Proof.
  destruct q1 as [sx sy], q2 as [ox oy]. cbn [ap_add].
  destruct (ap_add_same_x sx sy ox oy p).
  - destruct (ap_add_opposite sx sy ox oy p); [intro E; injection E as <-; exact I | apply double_canon].
  - destruct (inverse_mod _ p) as [inv|e]; [|discriminate]. cbn [bind].
    destruct (ap_new p a b _) as [q|e] eqn:EN; [|discriminate]. cbn [bind].
    intro E. injection E as <-. apply ap_new_ok in EN as [-> _].
    unfold ap_add_xy. cbv zeta. split; cbn [fst snd]; apply Zmod_mod.
Qed.

Definition mul_shape (self negself : aff) (R : apt) : Prop :=
  canon p R \/ R = Some self \/ R = Some negself.

Lemma add_shape self negself r o R : canon p r -> (o = self \/ o = negself) ->
  ap_add p a b r (Some o) = Ok R -> mul_shape self negself R.
Proof.
  intros Hr Ho E. destruct r as [q|].
  - left. apply (add_canon_fin _ _ _ E).
  - rewrite ap_add_inf_l in E. injection E as <-. destruct Ho as [->| ->]; [right; left|right; right]; reflexivity.
Qed.

Lemma mul_loop_shape self negself e3 e : forall fuel i res R,
  mul_shape self negself res ->
  ap_mul_loop p a b fuel i e3 e self negself res = Ok R -> mul_shape self negself R.
Proof.
  induction fuel as [|f IH]; intros i res R Hs E; [discriminate E|].
  cbn [ap_mul_loop] in E. destruct (1 <? i); [|injection E as <-; exact Hs].
  destruct (ap_double p a b res) as [r1|e1] eqn:ED; [|discriminate E]. cbn [bind] in E.
  apply double_canon in ED.
  destruct (negb (Z.land e3 i =? 0) && (Z.land e i =? 0)).
  - destruct (ap_add p a b r1 (Some self)) as [r2|e2] eqn:EA; [|discriminate E]. cbn [bind] in E.
    apply (add_shape self negself) in EA; [|assumption|left; reflexivity].
    destruct ((Z.land e3 i =? 0) && negb (Z.land e i =? 0)).
    + destruct (ap_add p a b r2 (Some negself)) as [r3|e3'] eqn:EB; [|discriminate E]. cbn [bind] in E.
      destruct r2 as [q2|].
      * apply add_canon_fin in EB. apply (IH (i / 2) r3 R); [left; exact EB | exact E].
      * rewrite ap_add_inf_l in EB. injection EB as <-. apply (IH (i / 2) (Some negself) R); [right; right; reflexivity | exact E].
    + cbn [bind] in E. apply (IH (i / 2) r2 R); assumption.
  - cbn [bind] in E.
    destruct ((Z.land e3 i =? 0) && negb (Z.land e i =? 0)).
    + destruct (ap_add p a b r1 (Some negself)) as [r3|e3'] eqn:EB; [|discriminate E]. cbn [bind] in E.
      apply (add_shape self negself) in EB; [|assumption|right; reflexivity].
      apply (IH (i / 2) r3 R); assumption.
    + cbn [bind] in E. apply (IH (i / 2) r1 R); [left; exact ED | exact E].
Qed.

Theorem mul_shape_pos h ord self e R : ap_mul_pos p a b h ord self e = Ok R ->
  mul_shape self (fst self, - snd self) R.
Proof.
  unfold ap_mul_pos. rewrite ap_init_inner_eq.
  destruct (ap_new p a b (fst self, - snd self)) as [ns|e1] eqn:EN; [|discriminate]. cbn [bind].
  apply ap_new_ok in EN as [-> _].
  destruct (leftmost_bit (3 * e)) as [lb|e1]; [|discriminate]. cbn [bind].
  apply mul_loop_shape. right; left; reflexivity.
Qed.

End Spec.

(* ---------------------------------------------------------------------- *)
(* 2. against the group law *)

Section Group.
Variables p a b : Z.
Variable inG : pt -> Prop.
Variable gadd : pt -> pt -> pt.
Variable gneg : pt -> pt.
Hypothesis GH : ec_group p a inG gadd gneg.
Notation "x == y" := (eqm p x y) (at level 70, no associativity).
Notation zmul := (zmul gadd gneg).
Notation arepr := (arepr p).
Notation xcan := (xcan p).
Notation canon := (canon p).

Add Ring eqm_ring_aff2 : (eqm_rt p)
  (setoid (eqm_equiv p) (eqm_ext p), morphism (eqm_morph p), constants [Zcst]).

Let Hp : prime p := g_prime _ _ _ _ _ GH.
Let Hinf : inG None := g_inf _ _ _ _ _ GH.
Let Hcl := g_closed _ _ _ _ _ GH.
Let Hncl := g_neg_closed _ _ _ _ _ GH.
Let Hidl := g_id_l _ _ _ _ _ GH.
Let Hidr := g_id_r _ _ _ _ _ GH.
Let Hzcl := zmul_closed p a inG gadd gneg GH.
Let two_nz' := two_nz p a inG gadd gneg GH.
Let mul_z_l' := mul_z_l p a inG gadd gneg GH.

Local Hint Resolve Hinf Hcl Hncl Hzcl : agrp.

(* --- group facts the affine code relies on --- *)

Lemma gneg_invol P : inG P -> gneg (gneg P) = P.
Proof.
  intro H. symmetry. apply (inv_unique p a inG gadd gneg GH); auto with agrp.
  apply (inv_l p a inG gadd gneg GH). exact H.
Qed.

Lemma y_not_neg q : inG (Some q) -> ~ snd q == - snd q.
Proof.
  intros HG E. destruct q as [x y]. cbn [snd] in E.
  apply (g_no2 _ _ _ _ _ GH x y HG).
  apply mul_z_l' with (x := 2); [|exact two_nz'].
  transitivity (y - - y); [ring|]. rewrite <- E. ring.
Qed.

(* two group elements with congruent coordinates are the same element *)
Lemma inG_congr_eq a1 a2 : inG (Some a1) -> inG (Some a2) -> aff_eqm p a1 a2 -> a1 = a2.
Proof.
  intros G1 G2 [Ex Ey].
  destruct (g_neg_fin _ _ _ _ _ GH a2 G2) as [n2 [En [Nx Ny]]].
  assert (Gn : inG (Some n2)) by (rewrite <- En; auto with agrp).
  assert (E0 : gadd (Some a1) (Some n2) = None).
  { apply (g_opposite _ _ _ _ _ GH); try assumption.
    - rewrite Nx. exact Ex.
    - rewrite Ny, <- Ey. apply y_not_neg. exact G1. }
  apply (inv_unique p a inG gadd gneg GH) in E0; try assumption.
  rewrite <- En in E0.
  assert (K : gneg (gneg (Some a2)) = gneg (gneg (Some a1))) by (rewrite E0; reflexivity).
  rewrite !gneg_invol in K by assumption. congruence.
Qed.

(* same x in the group: the y are equal or opposite *)
Lemma same_x_cases a1 a2 : inG (Some a1) -> inG (Some a2) -> fst a1 == fst a2 ->
  (snd a1 == snd a2 /\ ~ snd a1 + snd a2 == 0) \/
  (~ snd a1 == snd a2 /\ snd a1 + snd a2 == 0 /\ gadd (Some a1) (Some a2) = None).
Proof.
  intros G1 G2 Ex. destruct (eqm_dec p (snd a1) (snd a2)) as [Ey|Ey].
  - left. split; [exact Ey|]. intro E. apply (y_not_neg a1 G1).
    transitivity (snd a1 + snd a2 - snd a2); [ring|]. rewrite E, Ey. ring.
  - right. split; [exact Ey|].
    pose proof (g_opposite _ _ _ _ _ GH a1 a2 G1 G2 Ex Ey) as E0. split; [|exact E0].
    apply (inv_unique p a inG gadd gneg GH) in E0; try assumption.
    destruct (g_neg_fin _ _ _ _ _ GH a1 G1) as [n1 [En [_ Ny]]].
    rewrite En in E0. injection E0 as ->. rewrite Ny. ring.
Qed.

Lemma on_curve_congr q1 q2 : aff_eqm p q1 q2 -> on_curve p a b q2 -> on_curve p a b q1.
Proof.
  destruct q1 as [x1 y1], q2 as [x2 y2]. intros [Ex Ey]. cbn [fst snd] in *.
  unfold on_curve. intro H. rewrite Ex, Ey. exact H.
Qed.

Lemma arepr_fin r Q : arepr (Some r) Q -> exists q, Q = Some q /\ aff_eqm p r q.
Proof. destruct Q as [q|]; [intro H; exists q; split; [reflexivity|exact H] | intros []]. Qed.

Lemma arepr_inf Q : arepr None Q -> Q = None.
Proof. destruct Q; [intros []|reflexivity]. Qed.

Lemma xcan_eq x1 x2 : x1 mod p = x1 -> x2 mod p = x2 -> x1 == x2 -> x1 = x2.
Proof. intros H1 H2 E. apply eqm_def in E. congruence. Qed.

(* --- the chord and tangent formulas (inv = an inverse of the denominator) --- *)

Lemma chord_formula sx sy ox oy a1 a2 inv :
  inG (Some a1) -> inG (Some a2) -> aff_eqm p (sx, sy) a1 -> aff_eqm p (ox, oy) a2 ->
  ~ sx == ox -> inv * (ox - sx) == 1 ->
  exists a3, gadd (Some a1) (Some a2) = Some a3 /\ aff_eqm p (ap_add_xy sx sy ox oy p inv) a3.
Proof.
  intros G1 G2 [Ex1 Ey1] [Ex2 Ey2] Hx Hi. cbn [fst snd] in *.
  destruct (g_chord _ _ _ _ _ GH a1 a2 G1 G2) as [a3 [E3 R3]].
  { rewrite <- Ex1, <- Ex2. exact Hx. }
  exists a3. split; [exact E3|].
  destruct a1 as [x1 y1], a2 as [x2 y2], a3 as [x3 y3]. cbn [fst snd] in *.
  destruct R3 as [l [L1 [L2 L3]]].
  assert (El : (oy - sy) * inv mod p == l).
  { rewrite mod_eqm. transitivity (l * (inv * (ox - sx))); [|rewrite Hi; ring].
    transitivity (inv * (l * (x2 - x1))); [rewrite L1, Ey1, Ey2; ring | rewrite Ex1, Ex2; ring]. }
  unfold ap_add_xy. cbv zeta. set (l' := (oy - sy) * inv mod p) in *.
  assert (E3x : (l' * l' - sx - ox) mod p == x3) by (rewrite mod_eqm, El, L2, Ex1, Ex2; ring).
  split; cbn [fst snd]; [exact E3x|].
  rewrite mod_eqm, E3x, El, L3, Ex1, Ey1. ring.
Qed.

Lemma tangent_formula sx sy a1 inv :
  inG (Some a1) -> aff_eqm p (sx, sy) a1 -> inv * (2 * sy) == 1 ->
  exists a3, gadd (Some a1) (Some a1) = Some a3 /\ aff_eqm p (ap_double_xy sx sy p a inv) a3.
Proof.
  intros G1 [Ex1 Ey1] Hi. cbn [fst snd] in *.
  destruct (g_tangent _ _ _ _ _ GH a1 a1 G1 G1) as [a3 [E3 R3]]; try reflexivity.
  exists a3. split; [exact E3|].
  destruct a1 as [x1 y1], a3 as [x3 y3]. cbn [fst snd] in *.
  destruct R3 as [l [L1 [L2 L3]]].
  assert (El : (3 * sx * sx + a) * inv mod p == l).
  { rewrite mod_eqm. transitivity (l * (inv * (2 * sy))); [|rewrite Hi; ring].
    transitivity (inv * (2 * y1 * l)); [rewrite L1, Ex1; ring | rewrite Ey1; ring]. }
  unfold ap_double_xy. cbv zeta. set (l' := (3 * sx * sx + a) * inv mod p) in *.
  assert (E3x : (l' * l' - 2 * sx) mod p == x3) by (rewrite mod_eqm, El, L2, Ex1; ring).
  split; cbn [fst snd]; [exact E3x|].
  rewrite mod_eqm, E3x, El, L3, Ex1, Ey1. ring.
Qed.

Lemma sy_nz sx sy a1 : inG (Some a1) -> aff_eqm p (sx, sy) a1 -> ~ 2 * sy == 0 /\ 2 * sy <> 0.
Proof.
  intros G1 [_ Ey]. cbn [snd] in Ey. destruct a1 as [x1 y1]. cbn [snd] in Ey.
  assert (N : ~ 2 * sy == 0).
  { rewrite Ey. apply (nz_mul p a inG gadd gneg GH); [exact two_nz' | exact (g_no2 _ _ _ _ _ GH _ _ G1)]. }
  split; [exact N|]. intro E. apply N. rewrite E. reflexivity.
Qed.

(* --- double --- *)

Theorem double_correct_aff P Q R :
  inG Q -> arepr P Q -> ap_double p a b P = Ok R ->
  arepr R (gadd Q Q) /\ canon R.
Proof.
  intros HG HP E. destruct P as [[sx sy]|].
  2:{ apply arepr_inf in HP. subst Q. injection E as <-. rewrite Hidl. split; exact I. }
  apply arepr_fin in HP as [a1 [-> H1]].
  destruct (sy_nz _ _ _ HG H1) as [_ Hy0].
  unfold ap_double, ap_double_den in E. cbv zeta in E.
  destruct (inverse_mod (2 * sy) p) as [inv|e] eqn:EI; [|discriminate E]. cbn [bind] in E.
  destruct (ap_new p a b (ap_double_xy sx sy p a inv)) as [q|e] eqn:EN; [|discriminate E].
  cbn [bind] in E. injection E as <-. apply ap_new_ok in EN as [-> _].
  pose proof (inverse_mod_spec p _ _ EI Hy0) as Hi.
  destruct (tangent_formula sx sy a1 inv HG H1 Hi) as [a3 [E3 H3]]. rewrite E3.
  split; [exact H3|]. unfold ap_double_xy. cbv zeta. split; cbn [fst snd]; apply Zmod_mod.
Qed.

Theorem double_total_aff P Q :
  (forall q, inG (Some q) -> on_curve p a b q) ->
  inG Q -> arepr P Q -> exists R, ap_double p a b P = Ok R.
Proof.
  intros HC HG HP. destruct P as [[sx sy]|]; [|exists None; reflexivity].
  apply arepr_fin in HP as [a1 [-> H1]].
  destruct (sy_nz _ _ _ HG H1) as [Hy Hy0].
  unfold ap_double, ap_double_den. cbv zeta.
  destruct (inverse_mod_total p (2 * sy) Hp Hy) as [inv EI]. rewrite EI. cbn [bind].
  pose proof (inverse_mod_spec p _ _ EI Hy0) as Hi.
  destruct (tangent_formula sx sy a1 inv HG H1 Hi) as [a3 [E3 H3]].
  rewrite ap_new_on; [eexists; reflexivity|].
  apply (on_curve_congr _ a3 H3). apply HC. rewrite <- E3. auto with agrp.
Qed.

(* --- __add__ --- *)

Theorem add_correct_aff P1 P2 Q1 Q2 R :
  inG Q1 -> inG Q2 -> arepr P1 Q1 -> arepr P2 Q2 -> xcan P1 -> xcan P2 ->
  ap_add p a b P1 P2 = Ok R ->
  arepr R (gadd Q1 Q2) /\ xcan R.
Proof.
  intros G1 G2 H1 H2 C1 C2 E.
  destruct P2 as [[ox oy]|].
  2:{ apply arepr_inf in H2. subst Q2. cbn in E. injection E as <-. rewrite Hidr. split; assumption. }
  destruct P1 as [[sx sy]|].
  2:{ apply arepr_inf in H1. subst Q1. cbn in E. injection E as <-. rewrite Hidl. split; assumption. }
  apply arepr_fin in H1 as [a1 [-> H1]]. apply arepr_fin in H2 as [a2 [-> H2]].
  pose proof H1 as [Ex1 Ey1]. pose proof H2 as [Ex2 Ey2]. cbn [fst snd] in *.
  unfold ap_add, ap_add_same_x, ap_add_opposite in E.
  destruct (Z.eqb_spec sx ox) as [<-|Hne].
  - assert (Ex : fst a1 == fst a2) by (rewrite <- Ex1, <- Ex2; reflexivity).
    destruct (same_x_cases a1 a2 G1 G2 Ex) as [[Ey Hn]|[Ey [Ho E0]]].
    + assert (a2 = a1) as ->.
      { symmetry. apply inG_congr_eq; try assumption. split; assumption. }
      destruct (Z.eqb_spec ((sy + oy) mod p) 0) as [K|K].
      { exfalso. apply Hn. apply eqm_0_iff in K. rewrite Ey1, Ey2 in K. exact K. }
      apply double_correct_aff with (Q := Some a1) in E; try assumption.
      destruct E as [E1 E2]. split; [exact E1 | apply canon_xcan, E2].
    + destruct (Z.eqb_spec ((sy + oy) mod p) 0) as [K|K].
      * injection E as <-. rewrite E0. split; exact I.
      * exfalso. apply K. apply eqm_0_iff. rewrite Ey1, Ey2. exact Ho.
  - assert (Hx : ~ sx == ox).
    { intro K. apply Hne. apply xcan_eq; assumption. }
    unfold ap_add_den in E. cbv zeta in E.
    destruct (inverse_mod (ox - sx) p) as [inv|e] eqn:EI; [|discriminate E]. cbn [bind] in E.
    destruct (ap_new p a b (ap_add_xy sx sy ox oy p inv)) as [q|e] eqn:EN; [|discriminate E].
    cbn [bind] in E. injection E as <-. apply ap_new_ok in EN as [-> _].
    assert (Hi : inv * (ox - sx) == 1) by (apply (inverse_mod_spec p _ _ EI); lia).
    destruct (chord_formula sx sy ox oy a1 a2 inv G1 G2 H1 H2 Hx Hi) as [a3 [E3 H3]]. rewrite E3.
    split; [exact H3|]. unfold ap_add_xy. cbv zeta. cbn [fst snd]. apply Zmod_mod.
Qed.

Theorem add_total_aff P1 P2 Q1 Q2 :
  (forall q, inG (Some q) -> on_curve p a b q) ->
  inG Q1 -> inG Q2 -> arepr P1 Q1 -> arepr P2 Q2 -> xcan P1 -> xcan P2 ->
  exists R, ap_add p a b P1 P2 = Ok R.
Proof.
  intros HC G1 G2 H1 H2 C1 C2.
  destruct P2 as [[ox oy]|]; [|exists P1; reflexivity].
  destruct P1 as [[sx sy]|]; [|eexists; reflexivity].
  pose proof H1 as H1'.
  apply arepr_fin in H1 as [a1 [-> H1]]. apply arepr_fin in H2 as [a2 [-> H2]].
  unfold ap_add, ap_add_same_x, ap_add_opposite.
  destruct (Z.eqb_spec sx ox) as [<-|Hne].
  - destruct (Z.eqb_spec ((sy + oy) mod p) 0) as [K|K]; [eexists; reflexivity|].
    apply (double_total_aff _ (Some a1)); assumption.
  - cbn [fst snd] in *.
    assert (Hx : ~ sx == ox).
    { intro K. apply Hne. apply xcan_eq; assumption. }
    assert (Hd : ~ ox - sx == 0).
    { intro K. apply Hx. symmetry. apply eqm_sub_0. exact K. }
    unfold ap_add_den. cbv zeta.
    destruct (inverse_mod_total p (ox - sx) Hp Hd) as [inv EI]. rewrite EI. cbn [bind].
    assert (Hi : inv * (ox - sx) == 1) by (apply (inverse_mod_spec p _ _ EI); lia).
    destruct (chord_formula sx sy ox oy a1 a2 inv G1 G2 H1 H2 Hx Hi) as [a3 [E3 H3]].
    rewrite ap_new_on; [eexists; reflexivity|].
    apply (on_curve_congr _ a3 H3). apply HC. rewrite <- E3. auto with agrp.
Qed.

(* --- __neg__ --- *)

Theorem neg_correct_aff q q' Q :
  inG Q -> arepr (Some q) Q -> ap_neg p a b q = Ok q' ->
  arepr (Some q') (gneg Q) /\ fst q' = fst q.
Proof.
  intros HG HP E. apply arepr_fin in HP as [a1 [-> [Ex Ey]]].
  apply ap_neg_spec in E as [Fx [_ [Fy _]]].
  destruct (g_neg_fin _ _ _ _ _ GH a1 HG) as [n1 [En [Nx Ny]]]. rewrite En.
  split; [|exact Fx]. split.
  - rewrite Fx, Nx. exact Ex.
  - rewrite Fy, Ny, Ey. reflexivity.
Qed.

Theorem neg_total_aff q Q :
  (forall q, inG (Some q) -> on_curve p a b q) ->
  inG Q -> arepr (Some q) Q -> exists q', ap_neg p a b q = Ok q'.
Proof.
  intros HC HG HP. apply arepr_fin in HP as [a1 [-> [Ex Ey]]].
  destruct (g_neg_fin _ _ _ _ _ GH a1 HG) as [n1 [En [Nx Ny]]].
  unfold ap_neg. rewrite ap_new_on; [eexists; reflexivity|].
  apply (on_curve_congr _ n1).
  - unfold ap_neg_xy. split; cbn [fst snd].
    + rewrite Nx. exact Ex.
    + rewrite Ny, <- Ey. apply eqm_def. replace (p - snd q) with (- snd q + 1 * p) by lia.
      apply Z_mod_plus_full.
  - apply HC. rewrite <- En. auto with agrp.
Qed.

(* the object (x, -y) that __mul__ builds as negative_self denotes -Q as well *)
Lemma negself_repr q Q : inG Q -> arepr (Some q) Q -> arepr (Some (fst q, - snd q)) (gneg Q).
Proof.
  intros HG HP. apply arepr_fin in HP as [a1 [-> [Ex Ey]]].
  destruct (g_neg_fin _ _ _ _ _ GH a1 HG) as [n1 [En [Nx Ny]]]. rewrite En.
  split; cbn [fst snd].
  - rewrite Nx. exact Ex.
  - rewrite Ny, Ey. reflexivity.
Qed.

(* --- __mul__: the double-and-add-or-subtract loop --- *)

(* the multiple held by the accumulator before bit j is processed is dpre (j+1):
   (prefix of 3e above bit j) - (prefix of e above bit j) *)
Definition dpre (e3 e j : Z) : Z := e3 / 2 ^ j - e / 2 ^ j.

Lemma dpre_step e3 e j : 0 <= j ->
  dpre e3 e j = 2 * dpre e3 e (j + 1) + (Z.b2z (Z.testbit e3 j) - Z.b2z (Z.testbit e j)).
Proof. intro H. unfold dpre. rewrite (div_pow2_step e3 j H), (div_pow2_step e j H). lia. Qed.

Lemma pow2_gt1 j : 0 < j -> (1 <? 2 ^ j) = true.
Proof.
  intro H. apply Z.ltb_lt. replace j with (Z.succ (j - 1)) by lia.
  rewrite Z.pow_succ_r by lia. pose proof (Z.pow_pos_nonneg 2 (j - 1)). lia.
Qed.

Lemma pow2_half j : 0 < j -> 2 ^ j / 2 = 2 ^ (j - 1).
Proof.
  intro H. replace j with (Z.succ (j - 1)) at 1 by lia.
  rewrite Z.pow_succ_r by lia. rewrite Z.mul_comm, Z.div_mul by lia. reflexivity.
Qed.

Section Loop.
Variables self negself : aff.
Variable Q : pt.
Hypothesis HQ : inG Q.
Hypothesis Hs : arepr (Some self) Q.
Hypothesis Hn : arepr (Some negself) (gneg Q).
Hypothesis Cs : xcan (Some self).
Hypothesis Cn : xcan (Some negself).
Variables e3 e : Z.

(* LOOP INVARIANT: at the head of the loop with i = 2^j the accumulator denotes
   dpre (j+1) * Q and has a reduced x; on exit (i = 1) that is dpre 1 * Q. *)
Lemma mul_loop_correct : forall fuel j res R, 0 <= j ->
  arepr res (zmul (dpre e3 e (j + 1)) Q) -> xcan res ->
  ap_mul_loop p a b fuel (2 ^ j) e3 e self negself res = Ok R ->
  arepr R (zmul (dpre e3 e 1) Q) /\ xcan R.
Proof.
  induction fuel as [|f IH]; intros j res R Hj Hr Cr E; [discriminate E|].
  cbn [ap_mul_loop] in E.
  destruct (Z.eq_dec j 0) as [->|Hj0].
  { change (1 <? 2 ^ 0) with false in E. injection E as <-. split; assumption. }
  rewrite pow2_gt1, pow2_half in E by lia.
  destruct (ap_double p a b res) as [r1|e1] eqn:ED; [|discriminate E]. cbn [bind] in E.
  destruct (double_correct_aff res _ r1 (Hzcl _ Q HQ) Hr ED) as [D1 D2].
  apply canon_xcan in D2.
  rewrite (zmul_double p a inG gadd gneg GH) in D1 by assumption.
  rewrite !land_pow2_eqb in E by assumption.
  pose proof (dpre_step e3 e j Hj) as Hstep.
  assert (Hnext : forall r, arepr r (zmul (dpre e3 e j) Q) -> xcan r ->
            ap_mul_loop p a b f (2 ^ (j - 1)) e3 e self negself r = Ok R ->
            arepr R (zmul (dpre e3 e 1) Q) /\ xcan R).
  { intros r A1 A2 A3. apply (IH (j - 1) r R); [lia| |exact A2|exact A3].
    replace (j - 1 + 1) with j by lia. exact A1. }
  destruct (Z.testbit e3 j), (Z.testbit e j); cbn [negb andb Z.b2z bind] in *.
  - apply (Hnext r1); [|assumption|assumption].
    replace (dpre e3 e j) with (2 * dpre e3 e (j + 1)) by lia. exact D1.
  - destruct (ap_add p a b r1 (Some self)) as [r2|e2] eqn:EA; [|discriminate E]. cbn [bind] in E.
    destruct (add_correct_aff r1 (Some self) _ Q r2 (Hzcl _ Q HQ) HQ D1 Hs D2 Cs EA) as [A1 A2].
    apply (Hnext r2); [|assumption|assumption].
    replace (dpre e3 e j) with (2 * dpre e3 e (j + 1) + 1) by lia.
    rewrite (zmul_succ p a inG gadd gneg GH) by assumption. exact A1.
  - destruct (ap_add p a b r1 (Some negself)) as [r2|e2] eqn:EA; [|discriminate E]. cbn [bind] in E.
    destruct (add_correct_aff r1 (Some negself) _ (gneg Q) r2 (Hzcl _ Q HQ) (Hncl Q HQ) D1 Hn D2 Cn EA) as [A1 A2].
    apply (Hnext r2); [|assumption|assumption].
    replace (dpre e3 e j) with (2 * dpre e3 e (j + 1) - 1) by lia.
    rewrite (zmul_pred p a inG gadd gneg GH) by assumption. exact A1.
  - apply (Hnext r1); [|assumption|assumption].
    replace (dpre e3 e j) with (2 * dpre e3 e (j + 1)) by lia. exact D1.
Qed.

(* with group points on the curve the loop raises nothing and the fuel suffices *)
Lemma mul_loop_total : (forall q, inG (Some q) -> on_curve p a b q) ->
  forall fuel j res, 0 <= j -> (Z.to_nat j < fuel)%nat ->
  arepr res (zmul (dpre e3 e (j + 1)) Q) -> xcan res ->
  exists R, ap_mul_loop p a b fuel (2 ^ j) e3 e self negself res = Ok R.
Proof.
  intro HC. induction fuel as [|f IH]; intros j res Hj Hf Hr Cr; [lia|].
  cbn [ap_mul_loop].
  destruct (Z.eq_dec j 0) as [->|Hj0].
  { change (1 <? 2 ^ 0) with false. eexists; reflexivity. }
  rewrite pow2_gt1, pow2_half by lia.
  destruct (double_total_aff res _ HC (Hzcl _ Q HQ) Hr) as [r1 ED]. rewrite ED. cbn [bind].
  destruct (double_correct_aff res _ r1 (Hzcl _ Q HQ) Hr ED) as [D1 D2].
  apply canon_xcan in D2.
  rewrite (zmul_double p a inG gadd gneg GH) in D1 by assumption.
  rewrite !land_pow2_eqb by assumption.
  pose proof (dpre_step e3 e j Hj) as Hstep.
  assert (Hnext : forall r, arepr r (zmul (dpre e3 e j) Q) -> xcan r ->
            exists R, ap_mul_loop p a b f (2 ^ (j - 1)) e3 e self negself r = Ok R).
  { intros r A1 A2. apply (IH (j - 1) r); [lia|lia| |exact A2].
    replace (j - 1 + 1) with j by lia. exact A1. }
  destruct (Z.testbit e3 j), (Z.testbit e j); cbn [negb andb Z.b2z bind] in *.
  - apply (Hnext r1); [|assumption].
    replace (dpre e3 e j) with (2 * dpre e3 e (j + 1)) by lia. exact D1.
  - destruct (add_total_aff r1 (Some self) _ Q HC (Hzcl _ Q HQ) HQ D1 Hs D2 Cs) as [r2 EA].
    rewrite EA. cbn [bind].
    destruct (add_correct_aff r1 (Some self) _ Q r2 (Hzcl _ Q HQ) HQ D1 Hs D2 Cs EA) as [A1 A2].
    apply (Hnext r2); [|assumption].
    replace (dpre e3 e j) with (2 * dpre e3 e (j + 1) + 1) by lia.
    rewrite (zmul_succ p a inG gadd gneg GH) by assumption. exact A1.
  - destruct (add_total_aff r1 (Some negself) _ (gneg Q) HC (Hzcl _ Q HQ) (Hncl Q HQ) D1 Hn D2 Cn) as [r2 EA].
    rewrite EA. cbn [bind].
    destruct (add_correct_aff r1 (Some negself) _ (gneg Q) r2 (Hzcl _ Q HQ) (Hncl Q HQ) D1 Hn D2 Cn EA) as [A1 A2].
    apply (Hnext r2); [|assumption].
    replace (dpre e3 e j) with (2 * dpre e3 e (j + 1) - 1) by lia.
    rewrite (zmul_pred p a inG gadd gneg GH) by assumption. exact A1.
  - apply (Hnext r1); [|assumption].
    replace (dpre e3 e j) with (2 * dpre e3 e (j + 1)) by lia. exact D1.
Qed.

End Loop.

(* --- __mul__ --- *)

Lemma log2_3e e : 0 < e -> 1 <= Z.log2 (3 * e) /\ 2 ^ Z.log2 (3 * e) <= 3 * e < 2 * 2 ^ Z.log2 (3 * e).
Proof.
  intro H. split.
  - change 1 with (Z.log2 3). apply Z.log2_le_mono. lia.
  - pose proof (Z.log2_spec (3 * e)) as K. rewrite Z.pow_succ_r in K by apply Z.log2_nonneg. lia.
Qed.

Lemma dpre_top e : 0 < e -> dpre (3 * e) e (Z.log2 (3 * e)) = 1.
Proof.
  intro H. destruct (log2_3e e H) as [_ K]. unfold dpre.
  rewrite (Z.div_small e) by lia.
  rewrite <- (Z.div_unique (3 * e) (2 ^ Z.log2 (3 * e)) 1 (3 * e - 2 ^ Z.log2 (3 * e))) by lia. lia.
Qed.

Lemma dpre_bottom e : dpre (3 * e) e 1 = e.
Proof.
  unfold dpre. change (2 ^ 1) with 2.
  pose proof (Z.div_mod e 2 ltac:(lia)) as D. pose proof (Z.mod_pos_bound e 2 ltac:(lia)) as B.
  rewrite <- (Z.div_unique (3 * e) 2 (3 * (e / 2) + e mod 2) (e mod 2)) by lia. lia.
Qed.

Lemma negself_xcan q : xcan (Some q) -> xcan (Some (fst q, - snd q)).
Proof. exact (fun H => H). Qed.

Lemma arepr_on_curve r Q : (forall q, inG (Some q) -> on_curve p a b q) ->
  inG Q -> arepr (Some r) Q -> on_curve p a b r.
Proof.
  intros HC HG HR. apply arepr_fin in HR as [q [-> HR]]. apply (on_curve_congr _ q HR), HC, HG.
Qed.

Lemma mul_pos_correct h ord self Q e R :
  inG Q -> arepr (Some self) Q -> xcan (Some self) -> 0 < e ->
  ap_mul_pos p a b h ord self e = Ok R ->
  arepr R (zmul e Q) /\ xcan R.
Proof.
  intros HG HS CS He E. unfold ap_mul_pos in E. rewrite ap_init_inner_eq in E.
  destruct (ap_new p a b (fst self, - snd self)) as [ns|e1] eqn:EN; [|discriminate E]. cbn [bind] in E.
  apply ap_new_ok in EN as [-> _].
  rewrite leftmost_bit_spec in E by lia. cbn [bind] in E.
  destruct (log2_3e e He) as [HL _].
  rewrite pow2_half in E by lia.
  apply (mul_loop_correct self (fst self, - snd self) Q HG HS (negself_repr self Q HG HS) CS
           (negself_xcan self CS)) in E; [|lia| |exact CS].
  - rewrite dpre_bottom in E. exact E.
  - replace (Z.log2 (3 * e) - 1 + 1) with (Z.log2 (3 * e)) by lia.
    rewrite dpre_top by assumption. rewrite (zmul_1 p a inG gadd gneg GH). exact HS.
Qed.

Lemma mul_pos_total h ord self Q e :
  (forall q, inG (Some q) -> on_curve p a b q) ->
  inG Q -> arepr (Some self) Q -> xcan (Some self) -> 0 < e ->
  exists R, ap_mul_pos p a b h ord self e = Ok R.
Proof.
  intros HC HG HS CS He. unfold ap_mul_pos. rewrite ap_init_inner_eq.
  rewrite ap_new_on by (apply (arepr_on_curve _ (gneg Q) HC); [auto with agrp | apply negself_repr; assumption]).
  cbn [bind]. rewrite leftmost_bit_spec by lia. cbn [bind].
  destruct (log2_3e e He) as [HL _].
  rewrite pow2_half by lia.
  apply (mul_loop_total self (fst self, - snd self) Q HG HS (negself_repr self Q HG HS) CS
           (negself_xcan self CS) _ _ HC); [lia| | |exact CS].
  - pose proof (Z.log2_nonneg (3 * e)). lia.
  - replace (Z.log2 (3 * e) - 1 + 1) with (Z.log2 (3 * e)) by lia.
    rewrite dpre_top by assumption. rewrite (zmul_1 p a inG gadd gneg GH). exact HS.
Qed.

Lemma head_multiple ord k Q : inG Q -> (ord = 0 \/ zmul ord Q = None) ->
  ap_mul_head ord k = true -> zmul k Q = None.
Proof.
  intros HG Ho H. unfold ap_mul_head in H. apply orb_true_iff in H as [H|H].
  - apply Z.eqb_eq in H. subst k. reflexivity.
  - apply andb_true_iff in H as [H1 H2]. apply negb_true_iff, Z.eqb_neq in H1. apply Z.eqb_eq in H2.
    destruct Ho as [Ho|Ho]; [contradiction|].
    rewrite (Z.div_mod k ord H1), H2, Z.add_0_r, Z.mul_comm.
    rewrite <- (zmul_mul p a inG gadd gneg GH) by assumption. rewrite Ho.
    apply (zmul_inf p a inG gadd gneg GH).
Qed.

(* Point.__mul__ / __rmul__: EVERY integer k (k = 0, multiples of the claimed order,
   INFINITY, negative k through (-self) * (-k)) *)
Theorem mul_correct_aff h ord P Q k R :
  inG Q -> arepr P Q -> xcan P -> (ord = 0 \/ zmul ord Q = None) ->
  ap_mul p a b h ord P k = Ok R ->
  arepr R (zmul k Q) /\ xcan R.
Proof.
  intros HG HP CP Ho E. unfold ap_mul in E.
  destruct (ap_mul_head ord k) eqn:EH.
  { injection E as <-. rewrite (head_multiple ord k Q HG Ho EH). split; exact I. }
  destruct P as [q|].
  2:{ injection E as <-. apply arepr_inf in HP. subst Q. rewrite (zmul_inf p a inG gadd gneg GH). split; exact I. }
  assert (Hk0 : k <> 0).
  { intros ->. unfold ap_mul_head in EH. cbn in EH. discriminate EH. }
  destruct (Z.ltb_spec k 0) as [Hneg|Hpos].
  - destruct (ap_neg p a b q) as [n|e1] eqn:EN; [|discriminate E]. cbn [bind] in E.
    destruct (neg_correct_aff q n Q HG HP EN) as [HN Fx].
    apply (mul_pos_correct h 0 n (gneg Q)) in E; [|auto with agrp|exact HN| |lia].
    + replace (zmul k Q) with (zmul (- k) (gneg Q)); [exact E|].
      rewrite <- (zmul_m1 p a inG gadd gneg GH) by assumption.
      rewrite (zmul_mul p a inG gadd gneg GH) by assumption. f_equal. lia.
    + change (fst n mod p = fst n). rewrite Fx. exact CP.
  - apply (mul_pos_correct h ord q Q) in E; try assumption. lia.
Qed.

Theorem mul_total_aff h ord P Q k :
  (forall q, inG (Some q) -> on_curve p a b q) ->
  inG Q -> arepr P Q -> xcan P ->
  exists R, ap_mul p a b h ord P k = Ok R.
Proof.
  intros HC HG HP CP. unfold ap_mul.
  destruct (ap_mul_head ord k) eqn:EH; [eexists; reflexivity|].
  destruct P as [q|]; [|eexists; reflexivity].
  assert (Hk0 : k <> 0).
  { intros ->. unfold ap_mul_head in EH. cbn in EH. discriminate EH. }
  destruct (Z.ltb_spec k 0) as [Hneg|Hpos].
  - destruct (neg_total_aff q Q HC HG HP) as [n EN]. rewrite EN. cbn [bind].
    destruct (neg_correct_aff q n Q HG HP EN) as [HN Fx].
    apply (mul_pos_total h 0 n (gneg Q)); try assumption; [auto with agrp| |lia].
    change (fst n mod p = fst n). rewrite Fx. exact CP.
  - apply (mul_pos_total h ord q Q); try assumption. lia.
Qed.

(* the result has reduced coordinates unless k*Q = -Q: then it may be the object
   negative_self = (x, -y) itself (see mul_canonical_refuted in Properties/C17.v) *)
Theorem mul_canonical_aff h ord q Q k R :
  inG Q -> arepr (Some q) Q -> canon (Some q) -> (ord = 0 \/ zmul ord Q = None) -> 0 <= k ->
  zmul k Q <> gneg Q ->
  ap_mul p a b h ord (Some q) k = Ok R -> canon R.
Proof.
  intros HG HP CP Ho Hk Hne E.
  destruct (mul_correct_aff h ord (Some q) Q k R HG HP (canon_xcan p _ CP) Ho E) as [HR _].
  unfold ap_mul in E. destruct (ap_mul_head ord k); [injection E as <-; exact I|].
  destruct (Z.ltb_spec k 0) as [Hneg|Hpos]; [lia|].
  apply mul_shape_pos in E. destruct E as [E|[->| ->]]; [exact E|exact CP|].
  exfalso. apply Hne.
  pose proof (negself_repr q Q HG HP) as HN.
  destruct (zmul k Q) as [r1|] eqn:E1; [|destruct HR].
  destruct (gneg Q) as [r2|] eqn:E2; [|destruct HN].
  f_equal. apply inG_congr_eq.
  - rewrite <- E1. auto with agrp.
  - rewrite <- E2. auto with agrp.
  - destruct HR as [A1 A2], HN as [B1 B2]. split; [rewrite <- A1; exact B1 | rewrite <- A2; exact B2].
Qed.

(* --- the two representations --- *)

Lemma arepr_jrepr q Q : arepr (Some q) Q -> jrepr p (pj_from_affine q) Q.
Proof.
  intro H. apply arepr_fin in H as [r [-> [Ex Ey]]]. destruct q as [x y], r as [x1 y1].
  cbn [fst snd pj_from_affine] in *. split; [apply (one_nz p a inG gadd gneg GH)|].
  split; cbn [fst snd]; [rewrite Ex; ring | rewrite Ey; ring].
Qed.

Lemma jrepr_z1_arepr x y Q : Q <> None -> jrepr p (x, y, 1) Q -> arepr (Some (x, y)) Q.
Proof.
  intros HQ H. destruct Q as [[x1 y1]|]; [|contradiction]. destruct H as [_ [Hx Hy]].
  split; cbn [fst snd]; [rewrite Hx; ring | rewrite Hy; ring].
Qed.

(* PointJacobi.__eq__ with an affine operand decides "same group element" *)
Theorem eq_aff_correct J A Q1 Q2 :
  inG Q1 -> inG Q2 -> jrepr p J Q1 -> arepr A Q2 -> (Q1 <> None \/ A = None) ->
  (pj_eq_aff p J A = true <-> Q1 = Q2).
Proof.
  intros G1 G2 HJ HA Hside. destruct A as [q|].
  - destruct Hside as [Hfin|]; [|discriminate].
    pose proof (arepr_jrepr q Q2 HA) as HJ2.
    apply arepr_fin in HA as [a2 [-> HA]].
    destruct Q1 as [a1|]; [|contradiction].
    unfold pj_eq_aff. rewrite pj_eqb_spec.
    destruct J as [[X1 Y1] Z1]. destruct HJ as [HZ HR1]. destruct HJ2 as [_ HR2].
    unfold pj_from_affine in *. split.
    + intro JE. f_equal. apply inG_congr_eq; try assumption.
      pose proof (jac_eq_repr p a inG gadd gneg GH X1 Y1 Z1 (fst q) (snd q) 1 a1 HZ JE HR1) as HR3.
      destruct a1 as [x1 y1], a2 as [x2 y2], q as [x y]. cbn [fst snd] in *.
      destruct HR3 as [K1 K2], HA as [L1 L2]. cbn [fst snd] in *. split; cbn [fst snd].
      * rewrite <- L1, K1. ring.
      * rewrite <- L2, K2. ring.
    + intro E. injection E as ->. apply (repr_jac_eq p _ _ a2); assumption.
  - apply arepr_inf in HA. subst Q2. unfold pj_eq_aff.
    rewrite (jrepr_is_inf p a inG gadd gneg GH J Q1 G1 HJ). reflexivity.
Qed.

(* PointJacobi.__add__ with an affine operand *)
Theorem add_mixed_correct J A Q1 Q2 :
  inG Q1 -> inG Q2 -> jrepr p J Q1 -> arepr A Q2 ->
  jrepr_opt p (pj_add_aff p a J A) (gadd Q1 Q2).
Proof.
  intros G1 G2 HJ HA. unfold pj_add_aff.
  apply (add_pt_correct p a inG gadd gneg GH); try assumption.
  destruct A as [q|]; [apply arepr_jrepr, HA | apply arepr_inf in HA; exact HA].
Qed.

(* to_affine of what a PointJacobi operation returned *)
Lemma to_affine_correct r Q A :
  inG Q -> jrepr_opt p r Q -> pj_opt_to_affine p r = Ok A -> arepr A Q.
Proof.
  intros HG HR E. destruct r as [J|]; [|cbn in *; injection E as <-; subst Q; exact I].
  cbn [pj_opt_to_affine jrepr_opt] in *. unfold pj_to_affine in E.
  destruct (is_inf J) eqn:EI.
  - injection E as <-. apply (jrepr_is_inf p a inG gadd gneg GH J Q HG HR) in EI. subst Q. exact I.
  - destruct (pj_scale p J) as [[[x y] z]|e] eqn:ES; [|discriminate E]. cbn [bind] in E.
    injection E as <-.
    assert (HQ : Q <> None).
    { intro K. apply (jrepr_is_inf p a inG gadd gneg GH J Q HG HR) in K. congruence. }
    destruct (scale_correct p a inG gadd gneg GH J Q _ HR ES) as [HS [HZ _]].
    specialize (HZ HQ). unfold jZ in HZ. cbn [snd] in HZ. subst z.
    apply jrepr_z1_arepr; assumption.
Qed.

Definition apt_eqm (A B : apt) : Prop :=
  match A, B with
  | None, None => True
  | Some r, Some s => aff_eqm p r s
  | _, _ => False
  end.

Lemma arepr_same A B Q : arepr A Q -> arepr B Q -> apt_eqm A B.
Proof.
  destruct A as [r|], B as [s|], Q as [q|]; cbn; try tauto.
  intros [A1 A2] [B1 B2]. split; [rewrite A1, B1 | rewrite A2, B2]; reflexivity.
Qed.

(* P * k computed by the affine class and by PointJacobi.from_affine(P) * k denote the same
   group element k*Q; the library's own mixed __eq__ says they are equal; to_affine() of
   the Jacobian result has congruent coordinates *)
Theorem affine_jacobi_agree h ord q Q k rJ rA :
  inG Q -> arepr (Some q) Q -> xcan (Some q) ->
  (ord = 0 \/ (0 < ord /\ zmul ord Q = None)) -> 0 <= k ->
  pj_mul p a ord false (pj_from_affine q) k = Ok rJ ->
  ap_mul p a b h ord (Some q) k = Ok rA ->
  jrepr_opt p rJ (zmul k Q) /\ arepr rA (zmul k Q) /\
  pj_opt_eq_aff p rJ rA = true /\
  (forall A1, pj_opt_to_affine p rJ = Ok A1 -> apt_eqm A1 rA).
Proof.
  intros HG HP CP Ho Hk EJ EA.
  assert (HJ : jrepr_opt p rJ (zmul k Q)).
  { apply (mul_correct p a inG gadd gneg GH (pj_from_affine q) Q ord false k rJ); try assumption.
    - apply arepr_jrepr, HP.
    - discriminate. }
  assert (HA : arepr rA (zmul k Q)).
  { apply (mul_correct_aff h ord (Some q) Q k rA); try assumption.
    destruct Ho as [Ho|[_ Ho]]; [left|right]; assumption. }
  split; [exact HJ|]. split; [exact HA|]. split.
  - destruct rJ as [J|].
    + cbn [pj_opt_eq_aff jrepr_opt] in *.
      apply (eq_aff_correct J rA (zmul k Q) (zmul k Q)); auto with agrp.
      destruct (zmul k Q) as [r|]; [left; discriminate|right].
      destruct rA; [destruct HA|reflexivity].
    + cbn [pj_opt_eq_aff jrepr_opt] in *. rewrite HJ in HA. destruct rA; [destruct HA|reflexivity].
  - intros A1 E1. apply (arepr_same _ _ (zmul k Q)); [|exact HA].
    apply (to_affine_correct rJ); auto with agrp.
Qed.

(* Point.__eq__ on objects with reduced coordinates decides "same group element" *)
Theorem eq_correct_aff P1 P2 Q1 Q2 :
  inG Q1 -> inG Q2 -> arepr P1 Q1 -> arepr P2 Q2 -> canon P1 -> canon P2 ->
  (ap_eqb P1 P2 = true <-> Q1 = Q2).
Proof.
  intros G1 G2 H1 H2 C1 C2. rewrite ap_eqb_eq.
  destruct P1 as [q1|], P2 as [q2|].
  - apply arepr_fin in H1 as [a1 [-> [A1 A2]]]. apply arepr_fin in H2 as [a2 [-> [B1 B2]]].
    destruct C1 as [C1 C1'], C2 as [C2 C2']. split.
    + intro E. injection E as ->. f_equal. apply inG_congr_eq; try assumption.
      split; [rewrite <- A1; exact B1 | rewrite <- A2; exact B2].
    + intro E. injection E as ->. f_equal. destruct q1 as [x1 y1], q2 as [x2 y2]. cbn [fst snd] in *.
      f_equal; apply xcan_eq; try assumption; [rewrite A1, B1 | rewrite A2, B2]; reflexivity.
  - apply arepr_fin in H1 as [a1 [-> _]]. apply arepr_inf in H2 as ->. split; discriminate.
  - apply arepr_fin in H2 as [a2 [-> _]]. apply arepr_inf in H1 as ->. split; discriminate.
  - apply arepr_inf in H1 as ->. apply arepr_inf in H2 as ->. split; reflexivity.
Qed.

End Group.

(* ---------------------------------------------------------------------- *)
(* 3. the statements of Properties/C17.v *)

(* every modulus p, all integers: INFINITY is the identity; equal x: opposite points give
   INFINITY, anything else is doubled; different x: the chord relation add_rel, the result
   lies on the curve and is reduced *)
Theorem affine_add_rel p a b :
  (forall Q, ap_add p a b None Q = Ok Q) /\
  (forall P, ap_add p a b P None = Ok P) /\
  (forall x y1 y2, eqm p (y1 + y2) 0 -> ap_add p a b (Some (x, y1)) (Some (x, y2)) = Ok None) /\
  (forall x y1 y2, ~ eqm p (y1 + y2) 0 ->
     ap_add p a b (Some (x, y1)) (Some (x, y2)) = ap_double p a b (Some (x, y1))) /\
  (forall x1 y1 x2 y2 R, x1 <> x2 -> ap_add p a b (Some (x1, y1)) (Some (x2, y2)) = Ok R ->
     exists a3, R = Some a3 /\ add_rel p (x1, y1) (x2, y2) a3 /\ on_curve p a b a3 /\ canon p R).
Proof.
  split; [apply ap_add_inf_l|]. split; [apply ap_add_inf_r|]. split; [apply ap_add_opp|].
  split; [apply ap_add_same | apply ap_add_chord].
Qed.

Theorem affine_double_rel p a b :
  ap_double p a b None = Ok None /\
  (forall x y R, y <> 0 -> ap_double p a b (Some (x, y)) = Ok R ->
     exists a3, R = Some a3 /\ dbl_rel p a (x, y) a3 /\ on_curve p a b a3 /\ canon p R).
Proof. split; [reflexivity | apply ap_double_tangent]. Qed.

Theorem affine_neg_rel p a b q q' : ap_neg p a b q = Ok q' ->
  fst q' = fst q /\ snd q' = p - snd q /\ eqm p (snd q') (- snd q) /\ on_curve p a b q' /\
  ap_add p a b (Some q) (Some q') = Ok None.
Proof.
  intro E. destruct (ap_neg_spec p a b q q' E) as [A [B [C D]]].
  repeat split; try assumption. apply ap_add_neg, E.
Qed.

Theorem affine_add_group p a b inG gadd gneg : ec_group p a inG gadd gneg ->
  forall P1 P2 Q1 Q2, inG Q1 -> inG Q2 -> arepr p P1 Q1 -> arepr p P2 Q2 -> xcan p P1 -> xcan p P2 ->
  (forall R, ap_add p a b P1 P2 = Ok R -> arepr p R (gadd Q1 Q2) /\ xcan p R) /\
  ((forall q, inG (Some q) -> on_curve p a b q) -> exists R, ap_add p a b P1 P2 = Ok R).
Proof.
  intros GH P1 P2 Q1 Q2 G1 G2 H1 H2 C1 C2. split.
  - intros R E. exact (add_correct_aff p a b _ _ _ GH P1 P2 Q1 Q2 R G1 G2 H1 H2 C1 C2 E).
  - intro HC. exact (add_total_aff p a b _ _ _ GH P1 P2 Q1 Q2 HC G1 G2 H1 H2 C1 C2).
Qed.

Theorem affine_double_group p a b inG gadd gneg : ec_group p a inG gadd gneg ->
  forall P Q, inG Q -> arepr p P Q ->
  (forall R, ap_double p a b P = Ok R -> arepr p R (gadd Q Q) /\ canon p R) /\
  ((forall q, inG (Some q) -> on_curve p a b q) -> exists R, ap_double p a b P = Ok R).
Proof.
  intros GH P Q HG HP. split.
  - intros R E. exact (double_correct_aff p a b _ _ _ GH P Q R HG HP E).
  - intro HC. exact (double_total_aff p a b _ _ _ GH P Q HC HG HP).
Qed.

Theorem affine_neg_group p a b inG gadd gneg : ec_group p a inG gadd gneg ->
  forall q Q, inG Q -> arepr p (Some q) Q ->
  (forall q', ap_neg p a b q = Ok q' -> arepr p (Some q') (gneg Q) /\ fst q' = fst q) /\
  ((forall q, inG (Some q) -> on_curve p a b q) -> exists q', ap_neg p a b q = Ok q').
Proof.
  intros GH q Q HG HP. split.
  - intros q' E. exact (neg_correct_aff p a b _ _ _ GH q q' Q HG HP E).
  - intro HC. exact (neg_total_aff p a b _ _ _ GH q Q HC HG HP).
Qed.

Theorem affine_mul_group p a b inG gadd gneg : ec_group p a inG gadd gneg ->
  forall h ord P Q k, inG Q -> arepr p P Q -> xcan p P ->
  ((ord = 0 \/ zmul gadd gneg ord Q = None) ->
   forall R, ap_mul p a b h ord P k = Ok R -> arepr p R (zmul gadd gneg k Q) /\ xcan p R) /\
  ((forall q, inG (Some q) -> on_curve p a b q) -> exists R, ap_mul p a b h ord P k = Ok R).
Proof.
  intros GH h ord P Q k HG HP CP. split.
  - intros Ho R E. exact (mul_correct_aff p a b _ _ _ GH h ord P Q k R HG HP CP Ho E).
  - intro HC. exact (mul_total_aff p a b _ _ _ GH h ord P Q k HC HG HP CP).
Qed.

Theorem affine_eq_group p a inG gadd gneg : ec_group p a inG gadd gneg ->
  (forall P Q : apt, ap_eqb P Q = true <-> P = Q) /\
  (forall P1 P2 Q1 Q2, inG Q1 -> inG Q2 -> arepr p P1 Q1 -> arepr p P2 Q2 -> canon p P1 -> canon p P2 ->
     (ap_eqb P1 P2 = true <-> Q1 = Q2)) /\
  (forall J A Q1 Q2, inG Q1 -> inG Q2 -> jrepr p J Q1 -> arepr p A Q2 -> (Q1 <> None \/ A = None) ->
     (pj_eq_aff p J A = true <-> Q1 = Q2)).
Proof.
  intro GH. split; [exact ap_eqb_eq|]. split.
  - exact (eq_correct_aff p a _ _ _ GH).
  - exact (eq_aff_correct p a _ _ _ GH).
Qed.
