(* C20 (part 2) - every interleaving of the atomic actions of any number of
   threads operating on one shared PointJacobi object gives every operation the
   result it has when run alone.  "Equivalent representations give equal
   results" enters as the hypotheses C17_repr_indep_* (they are what C17 proves
   about the real arithmetic: scaling does not change x(), y(), the infinity
   tests, comparisons, or the table built from the coordinates). *)
From Coq Require Import List Bool ZArith Lia.
From Bec2 Require Import Model.SharedPoint.
Import ListNotations.

Section Proofs.
  Context {C T PT : Type}.
  Variable O : @ops C T PT.

  (* all about the coordinates c0 the object was constructed with *)
  Hypothesis C17_scale_scaled : scaled O (canon O (c0 O)) = true.
  Hypothesis C17_repr_indep_x : aff_x O (canon O (c0 O)) = aff_x O (c0 O).
  Hypothesis C17_repr_indep_y : aff_y O (canon O (c0 O)) = aff_y O (c0 O).
  Hypothesis C17_repr_indep_inf : is_inf O (canon O (c0 O)) = is_inf O (c0 O).
  Hypothesis C17_repr_indep_yzero : yzero O (canon O (c0 O)) = yzero O (c0 O).
  Hypothesis C17_repr_indep_eq : eq_other O (canon O (c0 O)) = eq_other O (c0 O).
  Hypothesis C17_repr_indep_table : build O (canon O (c0 O)) = build O (c0 O).
  Hypothesis C17_table_nonempty : nonempty O (build O (c0 O)) = true.

  Notation cN := (cN O).
  Notation tN := (tN O).
  Notation good := (good O).
  Notation known := (known O).
  Notation minv := (minv O).
  Notation mem := (@mem C T).
  Notation prog := (@prog C T PT).
  Notation res := (@res PT).

  (* ---- generic facts ---------------------------------------------------------- *)
  Lemma good_mono K p (Q Q' : know -> res -> Prop) :
    (forall K' a, Q K' a -> Q' K' a) -> good K p Q -> good K p Q'.
  Proof.
    intro H. revert K. induction p as [a|k IH|k IH|c k IH|t k IH]; intros K G; cbn in *.
    - auto.
    - destruct G as [G1 G2]. split; [intro E; apply IH; auto | apply IH; auto].
    - destruct G as [G1 G2]. split; [intro E; apply IH; auto | apply IH; auto].
    - destruct G as [G1 G2]. split; auto.
    - destruct G as [G1 G2]. split; auto.
  Qed.

  Lemma good_bind K p f (Q : know -> res -> Prop) :
    good K p (fun K' a => good K' (f a) Q) -> good K (bind p f) Q.
  Proof.
    revert K. induction p as [a|k IH|k IH|c k IH|t k IH]; intros K G; cbn in *.
    - exact G.
    - destruct G as [G1 G2]. split; [intro E; apply IH; auto | apply IH; auto].
    - destruct G as [G1 G2]. split; [intro E; apply IH; auto | apply IH; auto].
    - destruct G as [G1 G2]. split; auto.
    - destruct G as [G1 G2]. split; auto.
  Qed.

  (* ---- soundness of `good` for every interleaving ------------------------------- *)
  Definition tinv (m : mem) (p : prog) (Q : know -> res -> Prop) : Prop :=
    exists K, known K m /\ good K p Q.

  Lemma tstep_self p m p' m' Q :
    minv m -> tinv m p Q -> tstep (p, m) (p', m') -> minv m' /\ tinv m' p' Q.
  Proof.
    intros [Mc Mt] [[kc kt] [[Kc Kt] G]] St. cbn in Kc, Kt.
    inversion St; subst; cbn in G; destruct G as [G1 G2].
    - (* read coords *)
      split; [split; assumption|]. cbn [fst].
      destruct Mc as [Mc|Mc].
      + destruct kc.
        * exists (true, kt). split; [split; cbn; auto|]. rewrite Kc by reflexivity. exact G2.
        * exists (false, kt). split; [split; cbn; auto; discriminate|]. rewrite Mc. apply G1. reflexivity.
      + exists (true, kt). split; [split; cbn; auto|]. rewrite Mc. exact G2.
    - (* read table *)
      split; [split; assumption|]. cbn [snd].
      destruct Mt as [Mt|Mt].
      + destruct kt.
        * exists (kc, true). split; [split; cbn; auto|]. rewrite Kt by reflexivity. exact G2.
        * exists (kc, false). split; [split; cbn; auto; discriminate|]. rewrite Mt. apply G1. reflexivity.
      + exists (kc, true). split; [split; cbn; auto|]. rewrite Mt. exact G2.
    - (* store coords *)
      subst. split; [split; cbn; auto|]. exists (true, kt). split; [split; cbn; auto|exact G2].
    - (* store table *)
      subst. split; [split; cbn; auto|]. exists (kc, true). split; [split; cbn; auto|exact G2].
  Qed.

  (* a step of one thread does not invalidate what another thread knows *)
  Lemma tstep_other p m p' m' Q q Q' :
    tinv m p Q -> tstep (p, m) (p', m') -> tinv m q Q' -> tinv m' q Q'.
  Proof.
    intros [[kc kt] [[Kc Kt] G]] St [[kc' kt'] [[Kc' Kt'] G']]. cbn in *.
    inversion St; subst; cbn in G; destruct G as [G1 G2].
    - exists (kc', kt'). split; [split; assumption|exact G'].
    - exists (kc', kt'). split; [split; assumption|exact G'].
    - subst. exists (kc', kt'). split; [split; cbn; auto|exact G'].
    - subst. exists (kc', kt'). split; [split; cbn; auto|exact G'].
  Qed.

  Definition pinv (ps : list prog) (Qs : list (know -> res -> Prop)) (m : mem) : Prop :=
    minv m /\ Forall2 (tinv m) ps Qs.

  Lemma Forall2_nth (R : prog -> (know -> res -> Prop) -> Prop) ps Qs i p :
    Forall2 R ps Qs -> nth_error ps i = Some p -> exists Q, nth_error Qs i = Some Q /\ R p Q.
  Proof.
    intros F. revert i. induction F as [|x Q l l' HR F IH]; intros [|i] E; cbn in *; try discriminate.
    - inversion E; subst. eauto.
    - eauto.
  Qed.

  Lemma Forall2_impl' (R R' : prog -> (know -> res -> Prop) -> Prop) ps Qs :
    (forall p Q, R p Q -> R' p Q) -> Forall2 R ps Qs -> Forall2 R' ps Qs.
  Proof. intros H F. induction F; constructor; auto. Qed.

  Lemma pstep_pinv ps Qs m ps' m' : pinv ps Qs m -> pstep (ps, m) (ps', m') -> pinv ps' Qs m'.
  Proof.
    intros [M F] St. inversion St as [i p p' ps0 m0 m0' E Ts]; subst.
    destruct (Forall2_nth _ _ _ _ _ F E) as [Q [EQ TI]].
    destruct (tstep_self _ _ _ _ _ M TI Ts) as [M' TI'].
    split; [exact M'|].
    (* first move every thread's invariant to the new memory, then replace thread i *)
    assert (F' : Forall2 (tinv m') ps Qs).
    { eapply Forall2_impl'; [|exact F]. intros q Q' H. exact (tstep_other _ _ _ _ _ _ _ TI Ts H). }
    clear F Ts TI St M M'. revert i E EQ TI'.
    induction F' as [|x Qx l l' HR F IH]; intros [|i] E EQ TI'; cbn in *; try discriminate.
    - inversion E; inversion EQ; subst. constructor; auto.
    - constructor; eauto.
  Qed.

  Lemma psteps_pinv ps Qs m ps' m' : pinv ps Qs m -> psteps (ps, m) (ps', m') -> pinv ps' Qs m'.
  Proof.
    intros H S. remember (ps, m) as x. remember (ps', m') as y. revert ps' m' Heqy.
    induction S as [x|x [ps1 m1] z S IH St]; intros ps' m' ->.
    - subst. inversion Heqx; subst. exact H.
    - eapply pstep_pinv; [|exact St]. apply IH; auto.
  Qed.

  (* Main theorem: threads ps start anywhere in the region (the object may already
     have been scaled / its table built by earlier operations); if each is `good`
     for its postcondition from zero knowledge, then in every reachable
     configuration every finished thread satisfies its postcondition. *)
  Theorem schedule_independent ps (Qs : list (res -> Prop)) m :
    minv m ->
    Forall2 (fun p Q => good (false, false) p (fun _ a => Q a)) ps Qs ->
    forall ps' m', psteps (ps, m) (ps', m') ->
    forall i a Q, nth_error ps' i = Some (Ret a) -> nth_error Qs i = Some Q -> Q a.
  Proof.
    intros M F ps' m' S i a Q E EQ.
    assert (P0 : pinv ps (map (fun Q => fun (_ : know) a => Q a) Qs) m).
    { split; [exact M|]. clear - F. induction F; cbn; constructor; auto.
      exists (false, false). split; [split; cbn; discriminate | assumption]. }
    destruct (psteps_pinv _ _ _ _ _ P0 S) as [_ F'].
    destruct (Forall2_nth _ _ _ _ _ F' E) as [Q' [EQ' [K [_ G]]]].
    rewrite nth_error_map, EQ in EQ'. cbn in EQ'. inversion EQ'; subst. exact G.
  Qed.

  (* ---- the methods --------------------------------------------------------------- *)
  Lemma scaled_cN : scaled O cN = true.
  Proof. unfold SharedPoint.cN. destruct (scaled O (c0 O)) eqn:E; auto. Qed.

  Lemma cN_cases : (scaled O (c0 O) = true /\ cN = c0 O) \/ (scaled O (c0 O) = false /\ cN = canon O (c0 O)).
  Proof. unfold SharedPoint.cN. destruct (scaled O (c0 O)); auto. Qed.

  Lemma aff_x_cN : aff_x O cN = aff_x O (c0 O).
  Proof. destruct cN_cases as [[_ ->]|[_ ->]]; auto. Qed.
  Lemma aff_y_cN : aff_y O cN = aff_y O (c0 O).
  Proof. destruct cN_cases as [[_ ->]|[_ ->]]; auto. Qed.
  Lemma is_inf_cN : is_inf O cN = is_inf O (c0 O).
  Proof. destruct cN_cases as [[_ ->]|[_ ->]]; auto. Qed.
  Lemma yzero_cN : yzero O cN = yzero O (c0 O).
  Proof. destruct cN_cases as [[_ ->]|[_ ->]]; auto. Qed.
  Lemma eq_other_cN : eq_other O cN = eq_other O (c0 O).
  Proof. destruct cN_cases as [[_ ->]|[_ ->]]; auto. Qed.
  Lemma build_cN : build O cN = build O (c0 O).
  Proof. destruct cN_cases as [[_ ->]|[_ ->]]; auto. Qed.

  (* the sequential result: the operation run alone on the freshly constructed object *)
  Definition alone (p : prog) : res := fst (seq_run p (c0 O, t0 O)).

  Lemma good_x K : good K (op_x O) (fun _ a => a = alone (op_x O)).
  Proof. cbn. split; [reflexivity|]. unfold alone. cbn. rewrite aff_x_cN. reflexivity. Qed.

  Lemma good_y K : good K (op_y O) (fun _ a => a = alone (op_y O)).
  Proof. cbn. split; [reflexivity|]. unfold alone. cbn. rewrite aff_y_cN. reflexivity. Qed.

  Lemma good_eq K : good K (op_eq O) (fun _ a => a = alone (op_eq O)).
  Proof. cbn. split; [reflexivity|]. unfold alone. cbn. rewrite eq_other_cN. reflexivity. Qed.

  (* after scale() the coordinates are the new ones (or were scaled from the start) *)
  Definition coords_new (K : know) : Prop := fst K = true \/ cN = c0 O.

  Lemma good_scale K : good K (op_scale O) (fun K' a => a = RSelf /\ coords_new K' /\ snd K' = snd K).
  Proof.
    unfold op_scale. cbn. split.
    - intros E. destruct cN_cases as [[S E']|[S E']]; rewrite S; cbn.
      + split; [reflexivity|]. split; [right; exact E'|reflexivity].
      + split; [symmetry; exact E'|]. split; [reflexivity|]. split; [left; reflexivity|reflexivity].
    - rewrite scaled_cN. cbn. split; [reflexivity|]. split; [left; reflexivity|reflexivity].
  Qed.

  Lemma seq_scale m : fst m = c0 O \/ fst m = cN ->
    seq_run (op_scale O) m = (RSelf, (cN, snd m)).
  Proof.
    intros [E|E]; unfold op_scale; cbn; rewrite E.
    - destruct cN_cases as [[S E']|[S E']]; rewrite S; cbn; rewrite <- ?E', <- ?E; destruct m; cbn in *; subst; try rewrite E'; reflexivity.
    - rewrite scaled_cN. destruct m; cbn in *; subst. reflexivity.
  Qed.

  Lemma seq_bind (p : prog) (f : res -> prog) (m : mem) : seq_run (bind p f) m = seq_run (f (fst (seq_run p m))) (snd (seq_run p m)).
  Proof. revert m. induction p; intro m; cbn; auto. Qed.

  Lemma good_to_affine K : good K (op_to_affine O) (fun _ a => a = alone (op_to_affine O)).
  Proof.
    assert (A : alone (op_to_affine O) =
                if is_inf O (c0 O) then RAff None else RAff (Some (raw_xy O cN))).
    { unfold alone, op_to_affine. cbn [seq_run fst]. destruct (is_inf O (c0 O)); [reflexivity|].
      rewrite seq_bind, seq_scale by (left; reflexivity). reflexivity. }
    rewrite A. unfold op_to_affine. cbn [SharedPoint.good].
    assert (R : forall K0, good K0 (bind (op_scale O) (fun _ => ReadC (fun c3 => Ret (RAff (Some (raw_xy O c3))))))
                  (fun _ a => a = RAff (Some (raw_xy O cN)))).
    { intro K0. apply good_bind. eapply good_mono; [|apply good_scale].
      intros K' a [_ [[N|N] _]]; cbn.
      - split; [rewrite N; discriminate|reflexivity].
      - split; [intros _; rewrite N; reflexivity|reflexivity]. }
    split.
    - intros _. destruct (is_inf O (c0 O)); [reflexivity|apply R].
    - rewrite is_inf_cN. destruct (is_inf O (c0 O)); [reflexivity|apply R].
  Qed.

  (* after _maybe_precompute() the table is the new one (or was so from the start) *)
  Definition table_new (K : know) : Prop := snd K = true \/ tN = t0 O.

  Lemma tN_cases : (gen O = true /\ nonempty O (t0 O) = false /\ tN = build O (c0 O)) \/
                   ((gen O = false \/ nonempty O (t0 O) = true) /\ tN = t0 O).
  Proof.
    unfold SharedPoint.tN. destruct (gen O), (nonempty O (t0 O)); cbn; auto.
  Qed.

  Lemma good_maybe_precompute K :
    good K (op_maybe_precompute O) (fun K' a => a = RUnit /\ table_new K' /\ (coords_new K -> coords_new K')).
  Proof.
    unfold op_maybe_precompute. cbn [SharedPoint.good]. split.
    - intros E. destruct tN_cases as [[G [N E']]|[[G|N] E']].
      + rewrite G, N. cbn. split; [|split].
        * intros _. split; [symmetry; exact E'|]. cbn. repeat split; auto. left; reflexivity.
        * rewrite build_cN. symmetry; exact E'.
        * cbn. repeat split; auto; try (left; reflexivity).
      + rewrite G. cbn. repeat split; auto. right. exact E'.
      + rewrite N, orb_true_r. cbn. repeat split; auto. right. exact E'.
    - destruct tN_cases as [[G [N E']]|[[G|N] E']].
      + rewrite E', C17_table_nonempty, orb_true_r. cbn. repeat split; auto. left; reflexivity.
      + rewrite G. cbn. repeat split; auto. left; reflexivity.
      + rewrite E', N, orb_true_r. cbn. repeat split; auto. left; reflexivity.
  Qed.

  Lemma seq_maybe_precompute m : fst m = c0 O \/ fst m = cN -> snd m = t0 O \/ snd m = tN ->
    seq_run (op_maybe_precompute O) m = (RUnit, (fst m, tN)).
  Proof.
    intros Ec Et. unfold op_maybe_precompute. cbn [seq_run].
    destruct tN_cases as [[G [N E']]|[[G|N] E']].
    - destruct Et as [Et|Et]; rewrite Et.
      + rewrite G, N. cbn. destruct Ec as [Ec|Ec]; rewrite Ec, ?build_cN, E'; reflexivity.
      + rewrite E', C17_table_nonempty, orb_true_r. destruct m; cbn in *; subst. rewrite E'. reflexivity.
    - rewrite G. cbn. destruct m; cbn in *. destruct Et as [->| ->]; rewrite ?E'; reflexivity.
    - assert (snd m = t0 O) as Es by (destruct Et as [Et|Et]; rewrite Et, ?E'; reflexivity).
      rewrite Es, N, orb_true_r. destruct m; cbn in *; subst. rewrite E'. reflexivity.
  Qed.

  (* the part of __mul__ after the early returns *)
  Definition mul_tail (k : Z) : prog :=
    bind (op_maybe_precompute O) (fun _ =>
    ReadT (fun t =>
      if nonempty O t then ReadT (fun t2 => Ret (RPt (mul_table O t2 (red O k))))
      else bind (op_scale O) (fun _ => ReadC (fun c2 => Ret (RPt (mul_naf O c2 (red O k))))))).

  Definition mul_tail_result (k : Z) : res :=
    if nonempty O tN then RPt (mul_table O tN (red O k)) else RPt (mul_naf O cN (red O k)).

  Lemma good_mul_tail K k : good K (mul_tail k) (fun _ a => a = mul_tail_result k).
  Proof.
    unfold mul_tail. apply good_bind. eapply good_mono; [|apply good_maybe_precompute].
    intros K' a [_ [TN _]]. cbn [SharedPoint.good].
    assert (R : forall K0, table_new K0 ->
                  good K0 (if nonempty O tN then ReadT (fun t2 => Ret (RPt (mul_table O t2 (red O k))))
                           else bind (op_scale O) (fun _ => ReadC (fun c2 => Ret (RPt (mul_naf O c2 (red O k))))))
                  (fun _ a => a = mul_tail_result k)).
    { intros K0 TN0. unfold mul_tail_result. destruct (nonempty O tN).
      - cbn. split; [|reflexivity]. intros E. destruct TN0 as [N|N]; [rewrite N in E; discriminate|].
        rewrite N. reflexivity.
      - apply good_bind. eapply good_mono; [|apply good_scale].
        intros K1 a1 [_ [[N|N] _]]; cbn.
        + split; [rewrite N; discriminate|reflexivity].
        + split; [intros _; rewrite N; reflexivity|reflexivity]. }
    split; [|apply R; left; reflexivity].
    intros E. destruct TN as [N|N]; [rewrite N in E; discriminate|]. rewrite <- N. apply R. right. exact N.
  Qed.

  Lemma seq_mul_tail k m : fst m = c0 O \/ fst m = cN -> snd m = t0 O \/ snd m = tN ->
    fst (seq_run (mul_tail k) m) = mul_tail_result k.
  Proof.
    intros Ec Et. unfold mul_tail. rewrite seq_bind, seq_maybe_precompute by assumption.
    cbn [fst snd seq_run]. unfold mul_tail_result. destruct (nonempty O tN); [reflexivity|].
    rewrite seq_bind, seq_scale by (cbn; assumption). reflexivity.
  Qed.

  Lemma good_mul K k : good K (op_mul O k) (fun _ a => a = alone (op_mul O k)).
  Proof.
    assert (A : alone (op_mul O k) =
                if yzero O (c0 O) || (k =? 0)%Z then RPt (inf_pt O)
                else if (k =? 1)%Z then RSelf else mul_tail_result k).
    { unfold alone, op_mul. cbn [seq_run fst]. destruct (yzero O (c0 O) || (k =? 0)%Z); [reflexivity|].
      destruct (k =? 1)%Z; [reflexivity|]. apply (seq_mul_tail k (c0 O, t0 O)); left; reflexivity. }
    rewrite A. unfold op_mul. cbn [SharedPoint.good]. rewrite yzero_cN.
    destruct (yzero O (c0 O) || (k =? 0)%Z); [split; reflexivity|].
    destruct (k =? 1)%Z; [split; reflexivity|].
    split; [intros _|]; apply good_mul_tail.
  Qed.

  Lemma good_mul_add K k1 k2 : good K (op_mul_add O k1 k2) (fun _ a => a = alone (op_mul_add O k1 k2)).
  Proof.
    unfold op_mul_add. destruct (other_trivial O); [apply good_mul|].
    destruct (k1 =? 0)%Z; [reflexivity|].
    set (tail := fun t : T => if nonempty O t && other_tab O then bind (op_mul O k1) (fun a => Ret (padd O a))
                     else bind (op_scale O) (fun _ => ReadC (fun c => Ret (RPt (madd O c k1 k2))))).
    set (result := if nonempty O tN && other_tab O then padd O (alone (op_mul O k1)) else RPt (madd O cN k1 k2)).
    assert (R : forall K0, good K0 (tail tN) (fun _ a => a = result)).
    { intro K0. unfold tail, result. destruct (nonempty O tN && other_tab O).
      - apply good_bind. eapply good_mono; [|apply good_mul]. intros K1 a ->. reflexivity.
      - apply good_bind. eapply good_mono; [|apply good_scale].
        intros K1 a1 [_ [[N|N] _]]; cbn.
        + split; [rewrite N; discriminate|reflexivity].
        + split; [intros _; rewrite N; reflexivity|reflexivity]. }
    assert (A : alone (bind (op_maybe_precompute O) (fun _ => ReadT tail)) = result).
    { unfold alone. rewrite seq_bind, seq_maybe_precompute by (left; reflexivity).
      cbn [fst snd seq_run]. unfold tail, result. destruct (nonempty O tN && other_tab O).
      - rewrite seq_bind. cbn [seq_run fst].
        (* op_mul run alone after the table was built gives the same value as from the start *)
        f_equal. unfold alone, op_mul. cbn [seq_run fst].
        destruct (yzero O (c0 O) || (k1 =? 0)%Z); [reflexivity|].
        destruct (k1 =? 1)%Z; [reflexivity|].
        change (fst (seq_run (mul_tail k1) (c0 O, tN)) = fst (seq_run (mul_tail k1) (c0 O, t0 O))).
        rewrite !seq_mul_tail; cbn; auto.
      - rewrite seq_bind, seq_scale by (left; reflexivity). reflexivity. }
    fold tail. rewrite A.
    apply good_bind. eapply good_mono; [|apply good_maybe_precompute].
    intros K' a [_ [TN _]]. cbn [SharedPoint.good]. split; [|apply R].
    intros E. destruct TN as [N|N]; [rewrite N in E; discriminate|]. rewrite <- N. apply R.
  Qed.

  Lemma good_scale_alone K : good K (op_scale O) (fun _ a => a = alone (op_scale O)).
  Proof.
    eapply good_mono; [|apply good_scale]. intros K' a [-> _].
    unfold alone. rewrite seq_scale by (left; reflexivity). reflexivity.
  Qed.

  Lemma good_maybe_precompute_alone K : good K (op_maybe_precompute O) (fun _ a => a = alone (op_maybe_precompute O)).
  Proof.
    eapply good_mono; [|apply good_maybe_precompute]. intros K' a [-> _].
    unfold alone. rewrite seq_maybe_precompute by (left; reflexivity). reflexivity.
  Qed.

  (* the operations the property is about *)
  Inductive is_op : prog -> Prop :=
  | io_x : is_op (op_x O)
  | io_y : is_op (op_y O)
  | io_eq : is_op (op_eq O)
  | io_scale : is_op (op_scale O)
  | io_to_affine : is_op (op_to_affine O)
  | io_maybe_precompute : is_op (op_maybe_precompute O)
  | io_mul : forall k, is_op (op_mul O k)
  | io_mul_add : forall k1 k2, is_op (op_mul_add O k1 k2).

  Lemma is_op_good p : is_op p -> good (false, false) p (fun _ a => a = alone p).
  Proof.
    intros []; [apply good_x | apply good_y | apply good_eq | apply good_scale_alone | apply good_to_affine
               | apply good_maybe_precompute_alone | apply good_mul | apply good_mul_add].
  Qed.

  Lemma ops_good ps : Forall is_op ps ->
    Forall2 (fun p (Q : res -> Prop) => good (false, false) p (fun _ a => Q a)) ps (map (fun p a => a = alone p) ps).
  Proof. intro F. induction F; cbn; constructor; auto. apply is_op_good. assumption. Qed.

  Lemma ops_pinv ps m : minv m -> Forall is_op ps ->
    pinv ps (map (fun p => fun (_ : know) a => a = alone p) ps) m.
  Proof.
    intros M F. split; [exact M|]. induction F; cbn; constructor; auto.
    exists (false, false). split; [split; cbn; discriminate | apply is_op_good; assumption].
  Qed.

  (* Every interleaving of any number of threads, each running one of the
     operations, started when earlier operations may already have rescaled the
     point or built its table: every finished operation has returned exactly what
     it returns when run alone on the fresh object. *)
  Theorem lazy_schedule_indep ps m :
    minv m -> Forall is_op ps ->
    forall ps' m', psteps (ps, m) (ps', m') ->
    forall i p a, nth_error ps i = Some p -> nth_error ps' i = Some (Ret a) -> a = alone p.
  Proof.
    intros M F ps' m' S i p a E E'.
    apply (schedule_independent ps (map (fun p a => a = alone p) ps) m M (ops_good ps F) ps' m' S i a
             (fun a => a = alone p) E').
    rewrite nth_error_map, E. reflexivity.
  Qed.

  (* and the memory stays in the region: the coordinates are the constructed or the
     scaled ones, the table is the initial or the complete one *)
  Theorem lazy_memory_region ps m :
    minv m -> Forall is_op ps -> forall ps' m', psteps (ps, m) (ps', m') -> minv m'.
  Proof.
    intros M F ps' m' S.
    exact (proj1 (psteps_pinv _ _ _ _ _ (ops_pinv ps m M F) S)).
  Qed.
End Proofs.

(* ---- a concrete instance (non-vacuity of the hypotheses) -------------------------
   Jacobian coordinates over GF(23); the point (0, 1) of y^2 = x^3 + x + 1 in the
   representation with Z = 5; generator flag set, empty table: both stores happen. *)
Module Toy.
  Open Scope Z_scope.
  Definition p : Z := 23.
  Definition inv (z : Z) : Z := (z ^ (p - 2)) mod p.
  Definition C := (Z * Z * Z)%type.
  Definition T := list (Z * Z).
  Definition canon (c : C) : C :=
    let '(x, y, z) := c in let zi := inv z in ((x * zi * zi) mod p, (y * zi * zi * zi) mod p, 1).
  Definition scaled (c : C) : bool := let '(_, _, z) := c in z =? 1.
  Definition aff_x (c : C) : Z := let '(x, _, z) := c in if z =? 1 then x else (x * inv z ^ 2) mod p.
  Definition aff_y (c : C) : Z := let '(_, y, z) := c in if z =? 1 then y else (y * inv z ^ 3) mod p.
  Definition is_inf (c : C) : bool := let '(_, y, z) := c in (y =? 0) || (z =? 0).
  Definition yzero (c : C) : bool := let '(_, y, _) := c in y =? 0.
  Definition raw_xy (c : C) : Z * Z := let '(x, y, _) := c in (x, y).
  Definition eq_other (c : C) : bool :=          (* == Point(0, 1): cross-multiplied comparison *)
    let '(x, y, z) := c in ((x - 0 * z * z) mod p =? 0) && ((y - 1 * z * z * z) mod p =? 0).
  Definition build (c : C) : T := [(aff_x c, aff_y c)].
  Definition nonempty (t : T) : bool := match t with [] => false | _ => true end.
  Definition ops : @SharedPoint.ops C T (option (Z * Z)) :=
    mkOps canon scaled aff_x aff_y is_inf yzero raw_xy eq_other true build nonempty
          (fun k => k mod 14) None (fun t k => hd_error t) (fun c k => Some (raw_xy c))
          false false None (fun r => r) (fun c k1 k2 => Some (raw_xy c))
          (0, 10, 5) [].

  Lemma hyps :
    SharedPoint.scaled ops (SharedPoint.canon ops (c0 ops)) = true /\
    SharedPoint.aff_x ops (SharedPoint.canon ops (c0 ops)) = SharedPoint.aff_x ops (c0 ops) /\
    SharedPoint.aff_y ops (SharedPoint.canon ops (c0 ops)) = SharedPoint.aff_y ops (c0 ops) /\
    SharedPoint.is_inf ops (SharedPoint.canon ops (c0 ops)) = SharedPoint.is_inf ops (c0 ops) /\
    SharedPoint.yzero ops (SharedPoint.canon ops (c0 ops)) = SharedPoint.yzero ops (c0 ops) /\
    SharedPoint.eq_other ops (SharedPoint.canon ops (c0 ops)) = SharedPoint.eq_other ops (c0 ops) /\
    SharedPoint.build ops (SharedPoint.canon ops (c0 ops)) = SharedPoint.build ops (c0 ops) /\
    SharedPoint.nonempty ops (SharedPoint.build ops (c0 ops)) = true /\
    (* and the instance is not trivial: the constructed coordinates are not scaled,
       the table is empty, scaling changes the tuple *)
    SharedPoint.scaled ops (c0 ops) = false /\ SharedPoint.nonempty ops (t0 ops) = false /\
    SharedPoint.canon ops (c0 ops) = (0, 1, 1) /\ SharedPoint.eq_other ops (c0 ops) = true.
  Proof. vm_compute. repeat split; reflexivity. Qed.
End Toy.
