(* C10: proofs about Model.ConfTlv *)
From Coq Require Import List Bool NArith Lia Permutation Sorted RelationClasses.
From Coq Require Import Init.Byte.
From Bec2 Require Import Base.Result Base.Bytes Gen.Consts Model.ConfTlv.
Import ListNotations.
Open Scope N_scope.

(* ------------------------------------------------------------------------ *)
(* 1. insertion sort                                                         *)

Definition skey_le (a b : skey) : Prop := skey_leb a b = true.

Lemma skey_leb_spec a b :
  skey_leb a b = true <-> (fst a < fst b \/ (fst a = fst b /\ snd a <= snd b)).
Proof.
  unfold skey_leb. rewrite orb_true_iff, andb_true_iff, N.ltb_lt, N.eqb_eq, N.leb_le.
  reflexivity.
Qed.

Lemma skey_leb_total a b : skey_leb a b = false -> skey_leb b a = true.
Proof.
  intro H. apply skey_leb_spec.
  destruct (skey_leb b a) eqn:E; [apply skey_leb_spec in E; exact E|].
  assert (Ha : ~ (fst a < fst b \/ (fst a = fst b /\ snd a <= snd b)))
    by (rewrite <- skey_leb_spec, H; discriminate).
  lia.
Qed.

Lemma skey_le_trans a b c : skey_le a b -> skey_le b c -> skey_le a c.
Proof. unfold skey_le. rewrite !skey_leb_spec. lia. Qed.

Lemma skey_le_antisym a b : skey_le a b -> skey_le b a -> a = b.
Proof.
  unfold skey_le. rewrite !skey_leb_spec. destruct a, b; cbn [fst snd]. intros.
  f_equal; lia.
Qed.

Section SortFacts.
  Context {A : Type} (f : A -> skey).
  Let R (x y : A) : Prop := skey_le (f x) (f y).

  Lemma insert_perm x l : Permutation (insert f x l) (x :: l).
  Proof.
    induction l as [|y t IH]; cbn [insert]; [reflexivity|].
    destruct (skey_leb (f x) (f y)); [reflexivity|].
    rewrite IH. apply perm_swap.
  Qed.

  Lemma isort_perm l : Permutation (isort f l) l.
  Proof.
    induction l as [|x t IH]; [reflexivity|].
    unfold isort in *. cbn [fold_right]. rewrite insert_perm. constructor. exact IH.
  Qed.

  Lemma isort_In x l : In x (isort f l) <-> In x l.
  Proof.
    split; apply Permutation_in; [|symmetry]; apply isort_perm.
  Qed.

  Lemma insert_hdrel y x t : HdRel R y t -> R y x -> HdRel R y (insert f x t).
  Proof.
    intros Ht Hx. destruct t as [|z t]; cbn [insert]; [constructor; exact Hx|].
    destruct (skey_leb (f x) (f z)); constructor; [exact Hx|].
    inversion Ht; assumption.
  Qed.

  Lemma insert_sorted x l : Sorted R l -> Sorted R (insert f x l).
  Proof.
    induction l as [|y t IH]; intro Hs; cbn [insert].
    - repeat constructor.
    - destruct (skey_leb (f x) (f y)) eqn:E.
      + constructor; [exact Hs|]. constructor. exact E.
      + inversion Hs as [|? ? Hs' Hhd]; subst. constructor; [apply IH, Hs'|].
        apply insert_hdrel; [exact Hhd|]. apply skey_leb_total, E.
  Qed.

  Lemma isort_sorted l : StronglySorted R (isort f l).
  Proof.
    apply Sorted_StronglySorted.
    - intros a b c. apply skey_le_trans.
    - induction l as [|x t IH]; [constructor|].
      unfold isort in *. cbn [fold_right]. apply insert_sorted, IH.
  Qed.
End SortFacts.

Lemma map_insert {A B} (f : A -> skey) (f' : B -> skey) (g : A -> B)
  (Hf : forall x, f' (g x) = f x) x l :
  map g (insert f x l) = insert f' (g x) (map g l).
Proof.
  induction l as [|y t IH]; cbn [insert map]; [reflexivity|].
  rewrite !Hf. destruct (skey_leb (f x) (f y)); cbn [map]; [reflexivity|].
  rewrite IH. reflexivity.
Qed.

Lemma map_isort {A B} (f : A -> skey) (f' : B -> skey) (g : A -> B)
  (Hf : forall x, f' (g x) = f x) l :
  map g (isort f l) = isort f' (map g l).
Proof.
  induction l as [|x t IH]; [reflexivity|].
  unfold isort in *. cbn [fold_right map].
  rewrite (map_insert f f' g Hf), IH. reflexivity.
Qed.

Lemma filter_map {A B} (p : B -> bool) (g : A -> B) l :
  filter p (map g l) = map g (filter (fun x => p (g x)) l).
Proof.
  induction l as [|x t IH]; [reflexivity|].
  cbn [map filter]. destruct (p (g x)); cbn [map]; rewrite IH; reflexivity.
Qed.

(* ------------------------------------------------------------------------ *)
(* 2. conf_dict_to_list against the specification of the order               *)

Definition op_of_triple (t : triple) : op :=
  match t with
  | (k, None, _) => DelKey k
  | (k, Some v, None) => DelVal k v
  | (k, Some v, Some c) => SetVal k v c
  end.

Lemma op_of_to_triple e : op_of_triple (to_triple e) = op_of_entry e.
Proof. destruct e as [[k [v|]] [c|]]; reflexivity. Qed.

Lemma op_skey_triple t : op_skey (op_of_triple t) = t_skey t.
Proof. destruct t as [[k [v|]] [c|]]; reflexivity. Qed.

Lemma is_delete_entry e : is_delete (op_of_entry e) = negb (is_set_entry e).
Proof. destruct e as [[k [v|]] [c|]]; reflexivity. Qed.

Lemma is_assign_entry e : is_assign (op_of_entry e) = is_set_entry e.
Proof. destruct e as [[k [v|]] [c|]]; reflexivity. Qed.

Lemma del_conflict_false d : no_del_conflict d ->
  del_conflict (map to_triple (filter (fun e => negb (is_set_entry e)) d)) = false.
Proof.
  intro Hn. destruct (del_conflict _) eqn:E; [|reflexivity]. exfalso.
  unfold del_conflict in E. apply existsb_exists in E as [a [Ha E]].
  apply andb_true_iff in E as [Ea E]. apply existsb_exists in E as [b [Hb E]].
  apply andb_true_iff in E as [Ek Eb]. apply N.eqb_eq in Ek.
  apply in_map_iff in Ha as [ea [<- Ha]]. apply in_map_iff in Hb as [eb [<- Hb]].
  apply filter_In in Ha as [Ha Hsa]. apply filter_In in Hb as [Hb Hsb].
  destruct ea as [[ka [va|]] ca]; [discriminate Ea|].
  destruct eb as [[kb [vb|]] [cb|]]; try discriminate Eb; try discriminate Hsb.
  cbn in Ek. subst kb. exact (Hn ka vb ca Ha Hb).
Qed.

Theorem conf_dict_to_list_spec d : no_del_conflict d ->
  exists ts, conf_dict_to_list d = Ok ts /\
    map op_of_triple ts = sorted_deletes d ++ sorted_sets d.
Proof.
  intro Hn. unfold conf_dict_to_list. rewrite (del_conflict_false d Hn).
  eexists. split; [reflexivity|].
  rewrite map_app.
  rewrite !(map_isort t_skey op_skey op_of_triple op_skey_triple).
  unfold sorted_deletes, sorted_sets, dict_ops. rewrite !filter_map, !map_map.
  f_equal; f_equal.
  - rewrite (filter_ext _ _ is_delete_entry). apply map_ext, op_of_to_triple.
  - rewrite (filter_ext _ _ is_assign_entry). apply map_ext, op_of_to_triple.
Qed.

Lemma conf_dict_to_list_In d ts t : conf_dict_to_list d = Ok ts -> In t ts ->
  exists e, In e d /\ t = to_triple e.
Proof.
  unfold conf_dict_to_list. destruct (del_conflict _); [discriminate|].
  intro H. inversion H; subst; clear H. intro Hin.
  apply in_app_or in Hin as [Hin|Hin]; apply isort_In in Hin;
    apply in_map_iff in Hin as [e [<- He]]; apply filter_In in He as [He _];
    exists e; auto.
Qed.

(* the (key, value) pairs of the operations are those of the dictionary: each once *)
Definition op_ckey (o : op) : ckey :=
  match o with
  | DelKey k => (k, None)
  | DelVal k v => (k, Some v)
  | SetVal k v _ => (k, Some v)
  end.

Lemma op_ckey_entry e : op_ckey (op_of_entry e) = fst e.
Proof. destruct e as [[k [v|]] [c|]]; reflexivity. Qed.

Lemma sorted_ops_perm d :
  Permutation (sorted_deletes d ++ sorted_sets d) (dict_ops d).
Proof.
  unfold sorted_deletes, sorted_sets. rewrite !isort_perm.
  unfold is_assign. induction (dict_ops d) as [|o l IH]; [reflexivity|].
  cbn [filter]. destruct (is_delete o); cbn [negb app].
  - constructor. exact IH.
  - rewrite <- Permutation_middle. constructor. exact IH.
Qed.

Lemma sorted_ops_nodup d : NoDup (map fst d) ->
  NoDup (sorted_deletes d ++ sorted_sets d).
Proof.
  intro Hd.
  apply (NoDup_map_inv op_ckey).
  eapply Permutation_NoDup; [symmetry; apply Permutation_map, sorted_ops_perm|].
  unfold dict_ops. rewrite map_map. rewrite (map_ext _ fst op_ckey_entry). exact Hd.
Qed.

(* ------------------------------------------------------------------------ *)
(* 3. mapM, parts                                                            *)

Lemma mapM_Forall2 {A B} (f : A -> result B) l r :
  mapM f l = Ok r -> Forall2 (fun x y => f x = Ok y) l r.
Proof.
  revert r; induction l as [|x t IH]; intros r H; cbn [mapM] in H.
  - inversion H. constructor.
  - destruct (f x) as [y|] eqn:E; [|discriminate]. cbn [bind] in H.
    destruct (mapM f t) as [r'|]; [|discriminate]. cbn [bind] in H.
    inversion H; subst. constructor; [exact E|]. apply IH. reflexivity.
Qed.

Lemma Forall2_mapM {A B} (f : A -> result B) l r :
  Forall2 (fun x y => f x = Ok y) l r -> mapM f l = Ok r.
Proof.
  induction 1 as [|x y l r Hx _ IH]; [reflexivity|].
  cbn [mapM]. rewrite Hx. cbn [bind]. rewrite IH. reflexivity.
Qed.

Lemma byte_of_ok n : n < 256 -> byte_of n = Ok (n2b n).
Proof. intro H. unfold byte_of. apply N.ltb_lt in H. rewrite H. reflexivity. Qed.

Lemma key_of_split k : k <= 0xFFFF ->
  key_of (n2b (k / 256)) (n2b (k mod 256)) = k.
Proof.
  intro H. unfold key_of.
  assert (k / 256 < 256) by (apply N.div_lt_upper_bound; lia).
  assert (k mod 256 < 256) by (apply N.mod_upper_bound; lia).
  rewrite !b2n_n2b_small by assumption.
  pose proof (N.div_mod' k 256). lia.
Qed.

Lemma preface_ok tag k : k <= 0xFFFF ->
  preface tag k = Ok [tag; n2b (k / 256); n2b (k mod 256)].
Proof.
  intro H. unfold preface. rewrite byte_of_ok by (apply N.div_lt_upper_bound; lia).
  reflexivity.
Qed.

Lemma n2b_not_ff n : n <= 254 -> n2b n <> xff.
Proof.
  intros H E. apply (f_equal b2n) in E. rewrite b2n_n2b_small in E by lia.
  change (b2n xff) with 255 in E. lia.
Qed.

(* what the merge loop needs to know about a part and the operation it carries *)
Inductive part_shape : part -> op -> Prop :=
| PS_delkey h l : part_shape ([x02; h; l], [], []) (DelKey (key_of h l))
| PS_val h l data o :
    (forall s vops r, Values (key_of h l) s vops r ->
                      Values (key_of h l) (data ++ s) (o :: vops) r) ->
    part_shape ([x01; h; l], data, [xff]) o.

Definition triple_in_range (t : triple) : Prop :=
  let '(k, v, c) := t in
  k <= 0xFFFF /\
  match v with
  | None => True
  | Some v => v <= 0xFE /\ match c with None => True | Some c => blen c <= 254 end
  end.

Lemma part_of_shape t : triple_in_range t ->
  exists p, part_of t = Ok p /\ part_shape p (op_of_triple t).
Proof.
  destruct t as [[k [v|]] [c|]]; cbn [triple_in_range part_of op_of_triple].
  - intros [Hk [Hv Hc]].
    rewrite preface_ok by exact Hk. cbn [bind].
    rewrite !byte_of_ok by lia. cbn [bind].
    eexists. split; [reflexivity|].
    rewrite <- (key_of_split k Hk) at 3. apply PS_val.
    intros s vops r Hs. rewrite <- (b2n_n2b_small v) at 2 by lia.
    cbn [app]. apply V_set; try apply n2b_not_ff; try lia; [|exact Hs].
    rewrite b2n_n2b_small by lia. reflexivity.
  - intros [Hk [Hv _]].
    rewrite preface_ok by exact Hk. cbn [bind].
    rewrite !byte_of_ok by lia. cbn [bind].
    eexists. split; [reflexivity|].
    rewrite <- (key_of_split k Hk) at 3. apply PS_val.
    intros s vops r Hs. rewrite <- (b2n_n2b_small v) at 2 by lia.
    cbn [app]. apply V_del; [apply n2b_not_ff; lia|exact Hs].
  - intros [Hk _]. rewrite preface_ok by exact Hk. cbn [bind].
    eexists. split; [reflexivity|].
    rewrite <- (key_of_split k Hk) at 3. apply PS_delkey.
  - intros [Hk _]. rewrite preface_ok by exact Hk. cbn [bind].
    eexists. split; [reflexivity|].
    rewrite <- (key_of_split k Hk) at 3. apply PS_delkey.
Qed.

Lemma parts_shape ts : Forall triple_in_range ts ->
  exists ps, mapM part_of ts = Ok ps /\ Forall2 part_shape ps (map op_of_triple ts).
Proof.
  induction 1 as [|t ts Ht _ [ps [E IH]]].
  - exists []. split; [reflexivity|constructor].
  - destruct (part_of_shape t Ht) as [p [Ep Hp]].
    exists (p :: ps). split.
    + cbn [mapM]. rewrite Ep. cbn [bind]. rewrite E. reflexivity.
    + cbn [map]. constructor; assumption.
Qed.

(* ------------------------------------------------------------------------ *)
(* 4. the merge loop decodes to the operations (invariant)                    *)

(* closed group: anything may follow *)
Definition OpenA (cur : bytes) (os : list op) : Prop :=
  forall s os', Items s os' -> Items (cur ++ s) (os ++ os').
(* open value list of key k: the value list may continue *)
Definition OpenB (k : N) (cur : bytes) (os : list op) : Prop :=
  forall s vops r os', Values k s vops r -> Items r os' -> Items (cur ++ s) (os ++ vops ++ os').

Definition Open (lp lpost cur : bytes) (os : list op) : Prop :=
  (lpost = [] /\ OpenA cur os) \/
  (lpost = [xff] /\ exists h l, lp = [x01; h; l] /\ OpenB (key_of h l) cur os).

Lemma Open_close lp lpost cur os : Open lp lpost cur os -> OpenA (cur ++ lpost) os.
Proof.
  intros [[-> H]|[-> [h [l [_ H]]]]].
  - rewrite app_nil_r. exact H.
  - intros s os' Hs. rewrite <- app_assoc. cbn [app].
    apply (H (xff :: s) [] s os'); [constructor|exact Hs].
Qed.

Lemma Open_end lp lpost cur os : Open lp lpost cur os -> Items cur os.
Proof.
  intros [[-> H]|[-> [h [l [_ H]]]]].
  - specialize (H [] [] I_nil). rewrite !app_nil_r in H. exact H.
  - specialize (H [] [] [] [] (V_end_block _) I_nil). rewrite !app_nil_r in H. exact H.
Qed.

Lemma Items_nil_inv os : Items [] os -> os = [].
Proof. intro H. inversion H. reflexivity. Qed.

Lemma OpenA_app a oa b ob : OpenA a oa -> OpenA b ob -> OpenA (a ++ b) (oa ++ ob).
Proof.
  intros Ha Hb s os' Hs. rewrite <- !app_assoc. apply Ha, Hb, Hs.
Qed.

Lemma OpenA_OpenB k a oa b ob : OpenA a oa -> OpenB k b ob -> OpenB k (a ++ b) (oa ++ ob).
Proof.
  intros Ha Hb s vops r os' Hs Hr. rewrite <- !app_assoc. apply Ha. exact (Hb s vops r os' Hs Hr).
Qed.

(* a fresh part opens its own group *)
Lemma part_opens pre data post o : part_shape (pre, data, post) o ->
  Open pre post (pre ++ data) [o].
Proof.
  intro H. inversion H; subst.
  - left. split; [reflexivity|]. intros s os' Hs. cbn [app]. apply I_delkey, Hs.
  - right. split; [reflexivity|]. exists h, l. split; [reflexivity|].
    intros s vops r os' Hs Hr. cbn [app].
    apply (I_vals h l (data ++ s) (o :: vops) r os'); [|exact Hr]. auto.
Qed.

Lemma Blocks_snoc bl os b o : Blocks bl os -> Items b o -> Blocks (bl ++ [b]) (os ++ o).
Proof.
  induction 1 as [|b0 bl0 o0 os0 H0 _ IH]; intro Hb; cbn [app].
  - rewrite <- (app_nil_r o). constructor; [exact Hb|constructor].
  - rewrite <- app_assoc. constructor; [exact H0|apply IH, Hb].
Qed.

Definition MInv (s : mstate) (os : list op) : Prop :=
  exists osd osc, Blocks (m_done s) osd /\ Open (m_pre s) (m_post s) (m_cur s) osc /\
                  os = osd ++ osc.

(* the last preface is not the preface of a delete-key that is still to come *)
Definition fresh (lp : bytes) (os : list op) : Prop :=
  forall h l, lp = [x02; h; l] -> ~ In (DelKey (key_of h l)) os.

Lemma m_step_inv s p o os rest :
  part_shape p o -> fresh (m_pre s) (o :: rest) -> ~ In o rest ->
  MInv s os ->
  MInv (m_step s p) (os ++ [o]) /\ fresh (m_pre (m_step s p)) rest.
Proof.
  intros Hp Hfresh Hnd [osd [osc [Hd [Ho ->]]]].
  destruct p as [[pre data] post]. unfold m_step.
  assert (Hnew : fresh pre rest).
  { intros h l ->. inversion Hp; subst. exact Hnd. }
  destruct ((MAX_TLVBLOCK_SIZE <? _) && nonempty (m_cur s)) eqn:E1.
  - (* the block is full: close it, start a new one *)
    cbn [m_done m_cur m_pre m_post]. split; [|exact Hnew].
    exists (osd ++ osc), [o]. cbn [m_done m_cur m_pre m_post]. split; [|split].
    + apply Blocks_snoc; [exact Hd|]. apply (Open_end [] [] _ _). left. split; [reflexivity|].
      eapply Open_close, Ho.
    + apply part_opens, Hp.
    + reflexivity.
  - destruct (bytes_eqb pre (m_pre s) && bytes_eqb post (m_post s)) eqn:E2.
    + (* same preface and postface: only the data is appended *)
      cbn [m_done m_cur m_pre m_post].
      inversion Hp; subst; apply andb_true_iff in E2 as [Epre Epost];
        apply bytes_eqb_eq in Epre; apply bytes_eqb_eq in Epost.
      * exfalso. apply (Hfresh h l (eq_sym Epre)). left. reflexivity.
      * split; [|intros h' l' E; rewrite <- Epre in E; discriminate E].
        destruct Ho as [[E _]|[_ [h' [l' [Elp HB]]]]]; [rewrite E in Epost; discriminate|].
        rewrite Elp in Epre. inversion Epre; subst h' l'.
        exists osd, (osc ++ [o]). cbn [m_done m_cur m_pre m_post].
        split; [exact Hd|]. split; [|rewrite app_assoc; reflexivity].
        right. split; [symmetry; exact Epost|]. exists h, l. split; [exact Elp|].
        intros s0 vops r os' Hs Hr. rewrite <- !app_assoc. cbn [app].
        apply (HB (data ++ s0) (o :: vops) r os'); auto.
    + (* another group in the same block *)
      cbn [m_done m_cur m_pre m_post]. split; [|exact Hnew].
      exists osd, (osc ++ [o]). cbn [m_done m_cur m_pre m_post].
      split; [exact Hd|]. split; [|rewrite app_assoc; reflexivity].
      pose proof (Open_close _ _ _ _ Ho) as HA.
      replace (m_cur s ++ m_post s ++ pre ++ data)
        with ((m_cur s ++ m_post s) ++ (pre ++ data)) by (rewrite <- !app_assoc; reflexivity).
      destruct (part_opens _ _ _ _ Hp) as [[-> HB]|[-> [h [l [-> HB]]]]].
      * left. split; [reflexivity|]. apply OpenA_app; assumption.
      * right. split; [reflexivity|]. exists h, l. split; [reflexivity|].
        apply OpenA_OpenB; assumption.
Qed.

Lemma fold_m_step_inv ps os : Forall2 part_shape ps os -> NoDup os ->
  forall s os0, fresh (m_pre s) os -> MInv s os0 ->
  MInv (fold_left m_step ps s) (os0 ++ os).
Proof.
  induction 1 as [|p o ps os Hp _ IH]; intros Hnd s os0 Hf Hi.
  - rewrite app_nil_r. exact Hi.
  - cbn [fold_left]. inversion Hnd as [|? ? Hnot Hnd']; subst.
    destruct (m_step_inv s p o os0 os Hp Hf Hnot Hi) as [Hi' Hf'].
    replace (os0 ++ o :: os) with ((os0 ++ [o]) ++ os) by (rewrite <- app_assoc; reflexivity).
    apply IH; assumption.
Qed.

Lemma MInv_finish s os : MInv s os -> Blocks (m_finish s) os.
Proof.
  intros [osd [osc [Hd [Ho ->]]]]. unfold m_finish.
  pose proof (Open_end _ _ _ _ Ho) as Hc.
  destruct (m_cur s) as [|c cur]; cbn [nonempty].
  - apply Items_nil_inv in Hc. subst osc. rewrite app_nil_r. exact Hd.
  - apply Blocks_snoc; assumption.
Qed.

Theorem merge_parts_blocks ps os : Forall2 part_shape ps os -> NoDup os ->
  Blocks (merge_parts ps) os.
Proof.
  intros Hps Hnd. unfold merge_parts. apply MInv_finish.
  apply (fold_m_step_inv ps os Hps Hnd m_init []).
  - intros h l E. discriminate E.
  - exists [], []. split; [constructor|]. split; [|reflexivity].
    left. split; [reflexivity|]. intros s os' Hs. exact Hs.
Qed.

(* ------------------------------------------------------------------------ *)
(* 5. the executable decoder is complete for the grammar                      *)

Lemma is_ff_false v : v <> xff -> is_ff v = false.
Proof.
  intro H. unfold is_ff. destruct (byte_eqb v xff) eqn:E; [|reflexivity].
  apply byte_eqb_eq in E. contradiction.
Qed.

Lemma Values_length k b ops r : Values k b ops r -> (length r <= length b)%nat.
Proof.
  induction 1; cbn [length]; try lia.
  rewrite app_length. lia.
Qed.

Lemma dec_values_complete k b ops r : Values k b ops r ->
  forall fuel, (length b < fuel)%nat -> dec_values fuel k b = Ok (ops, r).
Proof.
  induction 1 as [|r|v b ops r Hv _ IH|v l c b ops r Hv Hl Hc _ IH]; intros fuel Hf;
    (destruct fuel as [|fuel]; [lia|]); cbn [dec_values].
  - reflexivity.
  - change (is_ff xff) with true. reflexivity.
  - rewrite (is_ff_false v Hv). change (is_ff xff) with true. cbn iota.
    rewrite IH by (cbn [length] in Hf; lia). reflexivity.
  - rewrite (is_ff_false v Hv), (is_ff_false l Hl).
    destruct (blen (c ++ b) <? b2n l) eqn:E.
    { apply N.ltb_lt in E. rewrite blen_app in E. lia. }
    rewrite (dropN_app_exact' _ c b Hc), (takeN_app_exact' _ c b Hc).
    rewrite IH by (cbn [length] in Hf; rewrite app_length in Hf; lia). reflexivity.
Qed.

Lemma dec_items_complete b ops : Items b ops ->
  forall fuel, (length b < fuel)%nat -> dec_items fuel b = Ok ops.
Proof.
  induction 1 as [|h l b ops _ IH|h l b vops r ops Hv _ IH]; intros fuel Hf;
    (destruct fuel as [|fuel]; [lia|]); cbn [dec_items].
  - reflexivity.
  - change (byte_eqb x02 x02) with true. cbn iota.
    rewrite IH by (cbn [length] in Hf; lia). reflexivity.
  - change (byte_eqb x01 x02) with false. change (byte_eqb x01 x01) with true. cbn iota.
    rewrite (dec_values_complete _ _ _ _ Hv) by lia. cbn [bind].
    pose proof (Values_length _ _ _ _ Hv).
    rewrite IH by (cbn [length] in Hf; lia). reflexivity.
Qed.

Theorem decode_blocks_complete bl os : Blocks bl os -> decode_blocks bl = Ok os.
Proof.
  unfold decode_blocks. induction 1 as [|b bl o os Hb _ IH]; [reflexivity|].
  cbn [mapM]. unfold decode_block at 1. rewrite (dec_items_complete b o Hb) by lia.
  cbn [bind].
  destruct (mapM decode_block bl) as [l|]; [|discriminate IH]. cbn [bind] in *.
  inversion IH. reflexivity.
Qed.

(* ------------------------------------------------------------------------ *)
(* 6. C10_decode                                                             *)

Lemma entry_triple_range e : entry_in_range e -> triple_in_range (to_triple e).
Proof. destruct e as [[k v] c]. exact (fun H => H). Qed.

Theorem conf_dict_decodes d : wf_conf d ->
  exists bl, conf_dict_to_tlv d = Ok bl /\
    Blocks bl (sorted_deletes d ++ sorted_sets d) /\
    decode_blocks bl = Ok (sorted_deletes d ++ sorted_sets d).
Proof.
  intros [Hnd [Hr Hc]].
  destruct (conf_dict_to_list_spec d Hc) as [ts [Ets Hops]].
  assert (Hrange : Forall triple_in_range ts).
  { apply Forall_forall. intros t Ht.
    destruct (conf_dict_to_list_In d ts t Ets Ht) as [e [He ->]].
    apply entry_triple_range. rewrite Forall_forall in Hr. apply Hr, He. }
  destruct (parts_shape ts Hrange) as [ps [Eps Hshape]].
  exists (merge_parts ps). unfold conf_dict_to_tlv. rewrite Ets. cbn [bind]. rewrite Eps.
  cbn [bind]. split; [reflexivity|].
  assert (HB : Blocks (merge_parts ps) (sorted_deletes d ++ sorted_sets d)).
  { rewrite <- Hops. apply merge_parts_blocks; [exact Hshape|].
    rewrite Hops. apply sorted_ops_nodup, Hnd. }
  split; [exact HB|]. apply decode_blocks_complete, HB.
Qed.

(* the order clause: both groups are sorted by (key, value id) and together are
   exactly the dictionary's operations, each once *)
Definition op_le (a b : op) : Prop := skey_le (op_skey a) (op_skey b).

Theorem sorted_ops_spec d :
  StronglySorted op_le (sorted_deletes d) /\ StronglySorted op_le (sorted_sets d) /\
  Permutation (sorted_deletes d) (filter is_delete (dict_ops d)) /\
  Permutation (sorted_sets d) (filter is_assign (dict_ops d)) /\
  Permutation (sorted_deletes d ++ sorted_sets d) (dict_ops d).
Proof.
  split; [apply isort_sorted|]. split; [apply isort_sorted|].
  split; [apply isort_perm|]. split; [apply isort_perm|]. apply sorted_ops_perm.
Qed.

(* ------------------------------------------------------------------------ *)
(* 7. sizes: no empty block (unconditionally), 1..117 when every entry fits   *)

Lemma nonempty_true {A} (l : list A) : nonempty l = true -> l <> [].
Proof. destruct l; [discriminate|intros _ E; discriminate E]. Qed.

Lemma m_step_nonempty s p :
  (forall b, In b (m_done s) -> b <> []) -> forall b, In b (m_done (m_step s p)) -> b <> [].
Proof.
  intros H b. destruct p as [[pre data] post]. unfold m_step.
  destruct ((MAX_TLVBLOCK_SIZE <? _) && nonempty (m_cur s)) eqn:E1.
  - cbn [m_done]. intro Hin. apply in_app_or in Hin as [Hin|[<-|[]]]; [apply H, Hin|].
    apply andb_true_iff in E1 as [_ E1]. apply nonempty_true in E1.
    intro E. apply app_eq_nil in E as [E _]. contradiction.
  - destruct (bytes_eqb pre (m_pre s) && bytes_eqb post (m_post s)); cbn [m_done]; apply H.
Qed.

Theorem merge_parts_nonempty ps : forall b, In b (merge_parts ps) -> b <> [].
Proof.
  unfold merge_parts.
  assert (G : forall s, (forall b, In b (m_done s) -> b <> []) ->
                        forall b, In b (m_done (fold_left m_step ps s)) -> b <> []).
  { induction ps as [|p ps IH]; intros s H; [exact H|].
    cbn [fold_left]. apply IH, m_step_nonempty, H. }
  intros b. unfold m_finish.
  set (s := fold_left m_step ps m_init).
  assert (Hd : forall b, In b (m_done s) -> b <> []) by (apply G; intros ? []).
  destruct (nonempty (m_cur s)) eqn:E; [|apply Hd].
  intro Hin. apply in_app_or in Hin as [Hin|[<-|[]]]; [apply Hd, Hin|].
  apply nonempty_true, E.
Qed.

Theorem conf_dict_to_tlv_nonempty d bl : conf_dict_to_tlv d = Ok bl ->
  forall b, In b bl -> b <> [].
Proof.
  unfold conf_dict_to_tlv. destruct (conf_dict_to_list d) as [ts|]; [|discriminate].
  cbn [bind]. destruct (mapM part_of ts) as [ps|]; [|discriminate]. cbn [bind].
  intro H. inversion H. apply merge_parts_nonempty.
Qed.

Definition psize (p : part) : N :=
  let '(pre, data, post) := p in blen (pre ++ data ++ post).
Definition part_fits (p : part) : Prop :=
  fst (fst p) <> [] /\ psize p <= 117.

Definition BInv (s : mstate) : Prop :=
  (forall b, In b (m_done s) -> 1 <= blen b <= 117) /\
  blen (m_cur s) + blen (m_post s) <= 117 /\
  (m_cur s = [] -> m_post s = []).

Lemma blen_pos {A} (l : list A) : l <> [] -> 1 <= blen l.
Proof. destruct l; [contradiction|]. intros _. rewrite blen_cons. lia. Qed.

Lemma m_step_bound s p : part_fits p -> BInv s -> BInv (m_step s p).
Proof.
  destruct p as [[pre data] post]. intros [Hpre Hsz] [Hd [Hc He]].
  cbn [fst] in Hpre. unfold psize in Hsz. rewrite !blen_app in Hsz.
  unfold m_step.
  destruct (MAX_TLVBLOCK_SIZE <? _) eqn:E0; cbn [andb].
  - destruct (nonempty (m_cur s)) eqn:E1.
    + unfold BInv; cbn [m_done m_cur m_post]. split; [|split].
      * intros b Hin. apply in_app_or in Hin as [Hin|[<-|[]]]; [apply Hd, Hin|].
        apply nonempty_true in E1. apply blen_pos in E1. rewrite blen_app. lia.
      * rewrite blen_app. lia.
      * intro E. apply app_eq_nil in E as [E _]. contradiction.
    + (* first entry, larger than a block: impossible when it fits *)
      assert (Ecur : m_cur s = []) by (destruct (m_cur s); [reflexivity|discriminate E1]).
      pose proof (He Ecur) as Epo. rewrite Ecur, Epo in E0.
      apply N.ltb_lt in E0. change MAX_TLVBLOCK_SIZE with 117 in E0.
      rewrite !blen_app, blen_nil in E0. lia.
  - apply N.ltb_ge in E0. change MAX_TLVBLOCK_SIZE with 117 in E0.
    rewrite !blen_app in E0.
    destruct (bytes_eqb pre (m_pre s) && bytes_eqb post (m_post s)) eqn:E2.
    + apply andb_true_iff in E2 as [_ Epost]. apply bytes_eqb_eq in Epost.
      unfold BInv; cbn [m_done m_cur m_post]. split; [exact Hd|]. split.
      * rewrite blen_app. rewrite <- Epost. lia.
      * intro E. apply app_eq_nil in E as [E _]. apply He, E.
    + unfold BInv; cbn [m_done m_cur m_post]. split; [exact Hd|]. split.
      * rewrite !blen_app. lia.
      * intro E. apply app_eq_nil in E as [_ E]. apply app_eq_nil in E as [_ E].
        apply app_eq_nil in E as [E _]. contradiction.
Qed.

Theorem merge_parts_bound ps : Forall part_fits ps ->
  forall b, In b (merge_parts ps) -> 1 <= blen b <= 117.
Proof.
  intro Hps. unfold merge_parts.
  assert (G : forall s, BInv s -> BInv (fold_left m_step ps s)).
  { induction Hps as [|p ps Hp _ IH]; intros s H; [exact H|].
    cbn [fold_left]. apply IH, m_step_bound; assumption. }
  assert (H0 : BInv m_init).
  { split; [intros ? []|]. split; [cbn; lia|reflexivity]. }
  destruct (G _ H0) as [Hd [Hc _]]. unfold m_finish.
  set (s := fold_left m_step ps m_init) in *.
  intros b. destruct (nonempty (m_cur s)) eqn:E; [|apply Hd].
  intro Hin. apply in_app_or in Hin as [Hin|[<-|[]]]; [apply Hd, Hin|].
  apply nonempty_true, blen_pos in E. lia.
Qed.

Lemma byte_of_inv n b : byte_of n = Ok b -> b = n2b n.
Proof. unfold byte_of. destruct (n <? 256); intro H; inversion H. reflexivity. Qed.

Lemma preface_len tag k p : preface tag k = Ok p -> blen p = 3 /\ p <> [].
Proof.
  unfold preface. destruct (byte_of (k / 256)); [|discriminate]. cbn [bind].
  intro H. inversion H. split; [reflexivity|discriminate].
Qed.

Lemma part_of_size e p : part_of (to_triple e) = Ok p ->
  fst (fst p) <> [] /\ psize p = entry_size e.
Proof.
  destruct e as [[k [v|]] [c|]]; cbn [to_triple part_of]; unfold entry_size; cbn [op_of_entry].
  - destruct (preface x01 k) as [pre|] eqn:Ep; [|discriminate]. cbn [bind].
    destruct (byte_of v); [|discriminate]. cbn [bind].
    destruct (byte_of (blen c)); [|discriminate]. cbn [bind].
    intro H. inversion H; subst. apply preface_len in Ep as [El Hne]. cbn [fst].
    split; [exact Hne|]. unfold psize. rewrite !blen_app, El, !blen_cons, blen_nil. lia.
  - destruct (preface x01 k) as [pre|] eqn:Ep; [|discriminate]. cbn [bind].
    destruct (byte_of v); [|discriminate]. cbn [bind].
    intro H. inversion H; subst. apply preface_len in Ep as [El Hne]. cbn [fst].
    split; [exact Hne|]. unfold psize. rewrite !blen_app, El, !blen_cons, blen_nil. lia.
  - destruct (preface x02 k) as [pre|] eqn:Ep; [|discriminate]. cbn [bind].
    intro H. inversion H; subst. apply preface_len in Ep as [El Hne]. cbn [fst].
    split; [exact Hne|]. unfold psize. cbn [app]. rewrite app_nil_r, El. lia.
  - destruct (preface x02 k) as [pre|] eqn:Ep; [|discriminate]. cbn [bind].
    intro H. inversion H; subst. apply preface_len in Ep as [El Hne]. cbn [fst].
    split; [exact Hne|]. unfold psize. cbn [app]. rewrite app_nil_r, El. lia.
Qed.

Theorem conf_dict_to_tlv_bound d bl :
  (forall e, In e d -> entry_size e <= 117) ->
  conf_dict_to_tlv d = Ok bl ->
  forall b, In b bl -> 1 <= blen b <= 117.
Proof.
  intros Hfit. unfold conf_dict_to_tlv.
  destruct (conf_dict_to_list d) as [ts|] eqn:Ets; [|discriminate]. cbn [bind].
  destruct (mapM part_of ts) as [ps|] eqn:Eps; [|discriminate]. cbn [bind].
  intro H. inversion H; subst. apply merge_parts_bound.
  apply mapM_Forall2 in Eps.
  assert (Hts : forall t, In t ts -> exists e, In e d /\ t = to_triple e)
    by (intros t; apply conf_dict_to_list_In, Ets).
  clear Ets H. induction Eps as [|t p ts ps Hp _ IH]; [constructor|].
  constructor.
  - destruct (Hts t (or_introl eq_refl)) as [e [He ->]].
    destruct (part_of_size e p Hp) as [H1 H2]. split; [exact H1|].
    rewrite H2. apply Hfit, He.
  - apply IH. intros t' Ht'. apply Hts. right. exact Ht'.
Qed.

(* ------------------------------------------------------------------------ *)
(* 8. set_config: blob framing, extra blocks, terminator, tags                *)

Lemma framed_app a b : framed (a ++ b) = framed a ++ framed b.
Proof. unfold framed. rewrite map_app, concat_app. reflexivity. Qed.

Lemma frame_block_ok b : blen b <= 255 -> frame_block b = Ok (n2b (blen b) :: b).
Proof.
  intro H. unfold frame_block, to_bytes. change (256 ^ N.of_nat 1) with 256.
  destruct (blen b <? 256) eqn:E; [|apply N.ltb_ge in E; lia]. reflexivity.
Qed.

Lemma frame_block_overflow b : 255 < blen b -> frame_block b = Err EOverflow.
Proof.
  intro H. unfold frame_block, to_bytes. change (256 ^ N.of_nat 1) with 256.
  destruct (blen b <? 256) eqn:E; [apply N.ltb_lt in E; lia|]. reflexivity.
Qed.

Lemma config_blob_ok bl : (forall b, In b bl -> blen b <= 255) ->
  config_blob bl = Ok (framed bl ++ [x00]).
Proof.
  intro H. unfold config_blob.
  assert (E : mapM frame_block bl = Ok (map (fun b => n2b (blen b) :: b) bl)).
  { induction bl as [|b bl IH]; [reflexivity|]. cbn [mapM map].
    rewrite frame_block_ok by (apply H; left; reflexivity). cbn [bind].
    rewrite IH by (intros b' Hb'; apply H; right; exact Hb'). reflexivity. }
  rewrite E. reflexivity.
Qed.

Lemma config_blob_overflow bl : (exists b, In b bl /\ 255 < blen b) ->
  config_blob bl = Err EOverflow.
Proof.
  intros [b0 [Hin Hb0]]. unfold config_blob.
  assert (E : mapM frame_block bl = Err EOverflow).
  { induction bl as [|b bl IH]; [destruct Hin|]. cbn [mapM].
    destruct (N.le_gt_cases (blen b) 255) as [Hle|Hgt].
    - rewrite frame_block_ok by exact Hle. cbn [bind].
      destruct Hin as [->|Hin]; [lia|]. rewrite (IH Hin). reflexivity.
    - rewrite frame_block_overflow by lia. reflexivity. }
  rewrite E. reflexivity.
Qed.

Lemma n2b_len_nonzero n : 1 <= n <= 255 -> byte_eqb (n2b n) x00 = false.
Proof.
  intro H. destruct (byte_eqb (n2b n) x00) eqn:E; [|reflexivity].
  apply byte_eqb_eq in E. apply (f_equal b2n) in E. rewrite b2n_n2b_small in E by lia.
  change (b2n x00) with 0 in E. lia.
Qed.

Lemma split_blob_framed bl :
  (forall b, In b bl -> 1 <= blen b <= 255) ->
  forall fuel, (length (framed bl ++ [x00]) < fuel)%nat ->
  split_blob fuel (framed bl ++ [x00]) = Ok bl.
Proof.
  induction bl as [|b bl IH]; intros H fuel Hf; (destruct fuel as [|fuel]; [lia|]).
  - reflexivity.
  - assert (Hb : 1 <= blen b <= 255) by (apply H; left; reflexivity).
    unfold framed in *. cbn [map concat app split_blob].
    rewrite <- app_assoc.
    rewrite (n2b_len_nonzero _ Hb). rewrite b2n_n2b_small by lia.
    destruct (blen (b ++ _) <? blen b) eqn:E.
    { apply N.ltb_lt in E. rewrite blen_app in E. lia. }
    rewrite dropN_app_exact, takeN_app_exact.
    rewrite IH; [reflexivity| |].
    + intros b' Hb'. apply H. right. exact Hb'.
    + cbn [map concat app length] in Hf. rewrite <- app_assoc, app_length in Hf. lia.
Qed.

Theorem decode_blob_framed bl :
  (forall b, In b bl -> 1 <= blen b <= 255) ->
  decode_blob_blocks (framed bl ++ [x00]) = Ok bl.
Proof. intro H. unfold decode_blob_blocks. apply split_blob_framed; [exact H|lia]. Qed.

Definition config_descr_lit : list (N * bytes) :=
  [(0xC3, [x03]); (0xC2, [x02]); (0xC1, [x03]); (0xC5, [x01])].

Lemma config_descr_ok : config_descr = Ok config_descr_lit.
Proof. reflexivity. Qed.

Theorem set_config_ok comps d extra tlv :
  conf_dict_to_tlv d = Ok tlv ->
  (forall b, In b (tlv ++ extra) -> blen b <= 255) ->
  let blob := framed tlv ++ framed extra ++ [x00] in
  set_config comps d extra =
    Ok (remove_first_config comps ++ [mkComp config_descr_lit blob (blen blob) true]).
Proof.
  intros Ht Hb blob. unfold set_config. rewrite Ht. cbn [bind].
  rewrite (config_blob_ok _ Hb). cbn [bind]. rewrite config_descr_ok. cbn [bind].
  rewrite framed_app, <- app_assoc. reflexivity.
Qed.

Theorem set_config_overflow comps d extra tlv :
  conf_dict_to_tlv d = Ok tlv ->
  (exists b, In b (tlv ++ extra) /\ 255 < blen b) ->
  set_config comps d extra = Err EOverflow.
Proof.
  intros Ht Hb. unfold set_config. rewrite Ht. cbn [bind].
  rewrite (config_blob_overflow _ Hb). reflexivity.
Qed.

Theorem set_config_blob_splits tlv extra :
  (forall b, In b tlv -> b <> []) ->
  (forall b, In b (tlv ++ extra) -> blen b <= 255) ->
  (forall b, In b extra -> b <> []) ->
  decode_blob_blocks (framed tlv ++ framed extra ++ [x00]) = Ok (tlv ++ extra).
Proof.
  intros H1 H2 H3. rewrite app_assoc, <- framed_app. apply decode_blob_framed.
  intros b Hb. split; [|apply H2, Hb].
  apply blen_pos. apply in_app_or in Hb as [Hb|Hb]; [apply H1|apply H3]; exact Hb.
Qed.
