(* C04: damaged or truncated files.  Part 1: frame lemmas for the top-level
   reader (the outer reader is only touched by rd_read / rd_read_int; the
   directory is read wholesale into a sub-reader), trailing bytes are always
   rejected, proper prefixes of an authentic file are always rejected. *)
From Coq Require Import List Bool NArith ZArith Lia.
From Coq Require Import Init.Byte.
From Bec2 Require Import Base.Result Base.Bytes Base.Reader Gen.Consts Model.Bf3 Model.Damage
  Proofs.Bf3Proofs.
Import ListNotations.
Open Scope N_scope.

(* the same reader with [s] appended to the unread rest *)
Definition ext (r : reader) (s : bytes) : reader := mkR (rest r ++ s) (pos r).

Lemma ext_nil r : ext r [] = r.
Proof. destruct r. unfold ext. cbn. rewrite app_nil_r. reflexivity. Qed.

Lemma rd_read_frame n r b r' s :
  rd_read n r = Ok (b, r') -> rd_read n (ext r s) = Ok (b, ext r' s).
Proof.
  intro H. destruct (rd_read_ok _ _ _ _ H) as [Hr [Hl Hp]].
  destruct r as [x p]. cbn [rest pos] in *. unfold ext. cbn [rest pos].
  rewrite Hr, <- app_assoc, Hp. apply rd_read_exact, Hl.
Qed.

Lemma rd_read_int_frame n r v r' s :
  rd_read_int n r = Ok (v, r') -> rd_read_int n (ext r s) = Ok (v, ext r' s).
Proof.
  unfold rd_read_int. intro H.
  destruct (rd_read n r) as [[b r1]|] eqn:E; cbn [bind] in H; [|discriminate].
  inversion H; subst. rewrite (rd_read_frame _ _ _ _ s E). reflexivity.
Qed.

Section Frame.
  Variable dec mac : bytes -> option bytes -> bytes -> result bytes.

  Lemma dir_from_binary_frame r check k es r' s :
    dir_from_binary mac r check k = Ok (es, r') ->
    dir_from_binary mac (ext r s) check k = Ok (es, ext r' s).
  Proof.
    unfold dir_from_binary. intro H.
    destruct (rd_read_int 4 r) as [[total r1]|] eqn:E1; cbn [bind] in H; [|discriminate].
    rewrite (rd_read_int_frame _ _ _ _ s E1). cbn [bind].
    destruct (rd_read total r1) as [[db r2]|] eqn:E2; cbn [bind] in H; [|discriminate].
    rewrite (rd_read_frame _ _ _ _ s E2). cbn [bind].
    destruct (rd_read_int 1 (new_reader db)) as [[len dr]|]; cbn [bind] in H |- *; [|discriminate].
    destruct (parse_dir mac (S (length db)) dr len 1 check k []) as [[es' dr']|]; cbn [bind] in H |- *; [|discriminate].
    destruct (rd_ensure_eof dr'); cbn [bind] in H |- *; [|discriminate].
    inversion H; subst. reflexivity.
  Qed.

  Lemma read_comps_frame es : forall r check k cs r' s,
    read_comps dec mac es r check k = Ok (cs, r') ->
    read_comps dec mac es (ext r s) check k = Ok (cs, ext r' s).
  Proof.
    induction es as [|e es IH]; intros r check k cs r' s H.
    - cbn in H |- *. inversion H; subst. reflexivity.
    - cbn [read_comps] in H |- *. change (pos (ext r s)) with (pos r).
      destruct (negb (e_adr e =? pos r)); [discriminate|].
      destruct (rd_read (e_total e) r) as [[payload r1]|] eqn:E1; cbn [bind] in H; [|discriminate].
      rewrite (rd_read_frame _ _ _ _ s E1). cbn [bind].
      match type of H with bind ?m _ = _ => destruct m; cbn [bind] in H |- *; [|discriminate] end.
      match type of H with bind ?m _ = _ => destruct m as [c|]; cbn [bind] in H |- *; [|discriminate] end.
      destruct (read_comps dec mac es r1 check k) as [[cs1 r2]|] eqn:E2; cbn [bind] in H; [|discriminate].
      rewrite (IH _ _ _ _ _ s E2). cbn [bind]. inversion H; subst. reflexivity.
  Qed.

  (* from_binary without the final ensure_eof *)
  Definition from_binary_open (r : reader) (check : bool) (k : bytes) : result (list comp * reader) :=
    let* (es, r) := dir_from_binary mac r check k in
    read_comps dec mac es r check k.

  Lemma from_binary_open_eq r check k :
    from_binary dec mac r check k =
    (let* (cs, r') := from_binary_open r check k in let* _ := rd_ensure_eof r' in Ok cs).
  Proof.
    unfold from_binary, from_binary_open.
    destruct (dir_from_binary mac r check k) as [[es r1]|]; cbn [bind]; [|reflexivity].
    destruct (read_comps dec mac es r1 check k) as [[cs r2]|]; reflexivity.
  Qed.

  Lemma from_binary_open_frame r check k cs r' s :
    from_binary_open r check k = Ok (cs, r') ->
    from_binary_open (ext r s) check k = Ok (cs, ext r' s).
  Proof.
    unfold from_binary_open. intro H.
    destruct (dir_from_binary mac r check k) as [[es r1]|] eqn:E; cbn [bind] in H; [|discriminate].
    rewrite (dir_from_binary_frame _ _ _ _ _ s E). cbn [bind].
    apply read_comps_frame, H.
  Qed.

  Lemma from_binary_accept_inv r check k cs :
    from_binary dec mac r check k = Ok cs ->
    exists p, from_binary_open r check k = Ok (cs, mkR [] p).
  Proof.
    rewrite from_binary_open_eq. intro H.
    destruct (from_binary_open r check k) as [[cs' [x p]]|]; cbn [bind] in H; [|discriminate].
    unfold rd_ensure_eof, rd_eof in H. cbn [rest] in H.
    destruct x; cbn [bind] in H; [|discriminate]. inversion H; subst. exists p. reflexivity.
  Qed.

  (* bytes after an accepted binary are always rejected, whatever they are *)
  Theorem from_binary_suffix x off check k cs s :
    from_binary dec mac (mkR x off) check k = Ok cs -> s <> [] ->
    from_binary dec mac (mkR (x ++ s) off) check k = Err EValue.
  Proof.
    intros H Hs. destruct (from_binary_accept_inv _ _ _ _ H) as [p Ho].
    rewrite from_binary_open_eq.
    change (mkR (x ++ s) off) with (ext (mkR x off) s).
    rewrite (from_binary_open_frame _ _ _ _ _ s Ho). cbn [bind].
    unfold rd_ensure_eof, rd_eof, ext. cbn [rest app].
    destruct s; [contradiction|reflexivity].
  Qed.

  (* so no proper prefix of an accepted binary is accepted *)
  Theorem from_binary_prefix p s off check k cs :
    from_binary dec mac (mkR (p ++ s) off) check k = Ok cs -> s <> [] ->
    exists e, from_binary dec mac (mkR p off) check k = Err e.
  Proof.
    intros H Hs. destruct (from_binary dec mac (mkR p off) check k) as [cs'|e] eqn:E.
    - rewrite (from_binary_suffix _ _ _ _ _ _ E Hs) in H. discriminate.
    - exists e. reflexivity.
  Qed.

  (* two accepted binaries of which one is a prefix of the other are equal *)
  Corollary accepted_prefix_free p s off check k cs cs' :
    from_binary dec mac (mkR p off) check k = Ok cs ->
    from_binary dec mac (mkR (p ++ s) off) check k = Ok cs' -> s = [].
  Proof.
    intros H1 H2. destruct s as [|y s]; [reflexivity|].
    rewrite (from_binary_suffix _ _ _ _ _ (y :: s) H1) in H2; discriminate.
  Qed.
End Frame.

(* ---- the model never runs out of fuel: every "Err e" above is a Python exception ---- *)
Lemma rd_read_err n r e : rd_read n r = Err e -> e = EValue.
Proof. unfold rd_read. destruct (n <=? blen (rest r)); intro H; inversion H; reflexivity. Qed.
Lemma rd_read_int_err n r e : rd_read_int n r = Err e -> e = EValue.
Proof.
  unfold rd_read_int. destruct (rd_read n r) as [[b r']|e'] eqn:E; cbn [bind]; intro H; [discriminate|].
  inversion H; subst. exact (rd_read_err _ _ _ E).
Qed.
Lemma rd_read_len n r b r' : rd_read n r = Ok (b, r') -> length (rest r) = (N.to_nat n + length (rest r'))%nat.
Proof.
  intro H. destruct (rd_read_ok _ _ _ _ H) as [Hr [Hl _]]. rewrite Hr, app_length. unfold blen in Hl. lia.
Qed.
Lemma rd_read_int_len n r v r' : rd_read_int n r = Ok (v, r') -> length (rest r) = (N.to_nat n + length (rest r'))%nat.
Proof.
  unfold rd_read_int. destruct (rd_read n r) as [[b r1]|] eqn:E; cbn [bind]; intro H; [|discriminate].
  inversion H; subst. exact (rd_read_len _ _ _ _ E).
Qed.

Ltac step_nf H :=
  match type of H with
  | bind (rd_read_int ?n ?r) _ = Err EFuel =>
      let v := fresh "v" in let r' := fresh "r" in let E := fresh "E" in
      destruct (rd_read_int n r) as [[v r']|?e] eqn:E; cbn [bind] in H;
      [|apply rd_read_int_err in E; congruence]
  | bind (rd_read ?n ?r) _ = Err EFuel =>
      let v := fresh "b" in let r' := fresh "r" in let E := fresh "E" in
      destruct (rd_read n r) as [[v r']|?e] eqn:E; cbn [bind] in H;
      [|apply rd_read_err in E; congruence]
  end.

Lemma parse_tags_no_fuel fuel : forall r acc,
  (length (rest r) < fuel)%nat -> parse_tags fuel r acc <> Err EFuel.
Proof.
  induction fuel as [|f IH]; intros r acc Hf H; [lia|].
  cbn [parse_tags] in H. destruct (rd_eof r); [discriminate|].
  step_nf H. step_nf H. step_nf H.
  destruct (dict_mem N.eqb acc v); [discriminate|].
  apply rd_read_int_len in E. apply rd_read_int_len in E0. apply rd_read_len in E1.
  revert H. apply IH. change (N.to_nat 1) with 1%nat in *. lia.
Qed.

Section NoFuel.
  Variable dec mac : bytes -> option bytes -> bytes -> result bytes.
  Hypothesis mac_nf : forall k iv d, mac k iv d <> Err EFuel.
  Hypothesis dec_nf : forall k iv d, dec k iv d <> Err EFuel.

  Lemma parse_entry_no_fuel entry ndx check k : parse_entry mac entry ndx check k <> Err EFuel.
  Proof.
    unfold parse_entry. intro H.
    step_nf H. step_nf H. step_nf H.
    destruct (v0 <? v1); [discriminate|].
    step_nf H.
    destruct (to_bytes 16 ndx) as [iv|e] eqn:Eiv; cbn [bind] in H.
    2:{ unfold to_bytes in Eiv. destruct (ndx <? 256 ^ N.of_nat 16); inversion Eiv; congruence. }
    step_nf H. step_nf H.
    destruct (parse_tags (S (length b0)) (new_reader b0) []) as [d|e] eqn:Et; cbn [bind] in H.
    2:{ inversion H; subst. revert Et. apply parse_tags_no_fuel. cbn. lia. }
    step_nf H.
    destruct check; cbn [bind] in H; [|discriminate].
    destruct (mac k (Some iv) (takeN (blen entry - CMAC_SIZE) entry)) as [m|e] eqn:Em; cbn [bind] in H.
    - destruct (bytes_eqb b1 m); cbn [bind] in H; discriminate.
    - inversion H; subst. exact (mac_nf _ _ _ Em).
  Qed.

  Lemma parse_dir_no_fuel fuel : forall dr len ndx check k acc,
    (length (rest dr) < fuel)%nat -> parse_dir mac fuel dr len ndx check k acc <> Err EFuel.
  Proof.
    induction fuel as [|f IH]; intros dr len ndx check k acc Hf H; [lia|].
    cbn [parse_dir] in H. destruct (len =? 0) eqn:El; [discriminate|].
    step_nf H.
    destruct (parse_entry mac b ndx check k) as [[e er]|e] eqn:Ep; cbn [bind] in H.
    2:{ inversion H; subst. exact (parse_entry_no_fuel _ _ _ _ Ep). }
    step_nf H.
    destruct (rd_ensure_eof er) eqn:Ee; cbn [bind] in H.
    2:{ unfold rd_ensure_eof in Ee. destruct (rd_eof er); inversion Ee; congruence. }
    apply rd_read_len in E. apply rd_read_int_len in E0.
    revert H. apply IH. apply N.eqb_neq in El. change (N.to_nat 1) with 1%nat in *. lia.
  Qed.

  Lemma read_comps_no_fuel es : forall r check k, read_comps dec mac es r check k <> Err EFuel.
  Proof.
    induction es as [|e es IH]; intros r check k H; [discriminate|].
    cbn [read_comps] in H. destruct (negb (e_adr e =? pos r)); [discriminate|].
    step_nf H.
    match type of H with bind ?m _ = _ => destruct m as [u|e'] eqn:Em; cbn [bind] in H end.
    2:{ inversion H; subst. destruct check; [|discriminate].
        destruct (mac k None b) as [m|e''] eqn:Emm; cbn [bind] in Em.
        - destruct (bytes_eqb m (e_pmac e)); discriminate.
        - inversion Em; subst. exact (mac_nf _ _ _ Emm). }
    match type of H with bind ?m _ = _ => destruct m as [c|e'] eqn:Ec; cbn [bind] in H end.
    2:{ inversion H; subst.
        destruct (dict_get N.eqb (e_desc e) BF3TAG_ENC) as [v|]; [|discriminate].
        destruct (bytes_eqb v enc_tag_value); [|discriminate].
        destruct (dec k None b) as [pl|e''] eqn:Ed; cbn [bind] in Ec; [discriminate|].
        inversion Ec; subst. exact (dec_nf _ _ _ Ed). }
    destruct (read_comps dec mac es r0 check k) as [[cs r1]|e'] eqn:Er; cbn [bind] in H; [discriminate|].
    inversion H; subst. exact (IH _ _ _ Er).
  Qed.

  Lemma dir_from_binary_no_fuel r check k : dir_from_binary mac r check k <> Err EFuel.
  Proof.
    unfold dir_from_binary. intro H.
    step_nf H. step_nf H. step_nf H.
    destruct (parse_dir mac (S (length b)) r2 v0 1 check k []) as [[es dr]|e] eqn:Ep; cbn [bind] in H.
    2:{ inversion H; subst. revert Ep. apply parse_dir_no_fuel.
        apply rd_read_int_len in E1. cbn [new_reader rest] in E1. lia. }
    destruct (rd_ensure_eof dr) eqn:Ee; cbn [bind] in H; [discriminate|].
    unfold rd_ensure_eof in Ee. destruct (rd_eof dr); inversion Ee; congruence.
  Qed.

  Theorem from_binary_no_fuel r check k : from_binary dec mac r check k <> Err EFuel.
  Proof.
    unfold from_binary. intro H.
    destruct (dir_from_binary mac r check k) as [[es r1]|e] eqn:Ed; cbn [bind] in H.
    2:{ inversion H; subst. exact (dir_from_binary_no_fuel _ _ _ Ed). }
    destruct (read_comps dec mac es r1 check k) as [[cs r3]|e] eqn:Er; cbn [bind] in H.
    2:{ inversion H; subst. exact (read_comps_no_fuel _ _ _ _ Er). }
    destruct (rd_ensure_eof r3) eqn:Ee2; cbn [bind] in H; [discriminate|].
    unfold rd_ensure_eof in Ee2. destruct (rd_eof r3); inversion Ee2; congruence.
  Qed.
End NoFuel.
