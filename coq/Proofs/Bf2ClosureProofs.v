(* C13 / C14: error closure of the BF2 importer model.  Every error of
   bf2_import_text is a format error or a ValueError (is_format_or_value);
   pfid2_filter_to_str fails with Bf3FileFormatError only. *)
From Coq Require Import List Bool NArith ZArith Lia Permutation.
From Coq Require Import Init.Byte.
From Bec2 Require Import Base.Result Base.Bytes Base.Reader Gen.Consts Model.Bf2Str Model.Bf2Import
  Proofs.Bf2FilterProofs Proofs.Bf2ImportProofs.
Import ListNotations.
Open Scope N_scope.

(* ---------------------------------------------------------------------------- *)
(* primitives                                                                    *)

Lemma unhexlify_err_n : forall n s e, (length s <= n)%nat -> unhexlify s = Err e -> e = EValue.
Proof.
  induction n as [|n IH]; intros s e Hl.
  - destruct s; [discriminate|cbn in Hl; lia].
  - destruct s as [|a [|b t]]; cbn [unhexlify].
    + discriminate.
    + intro H; inversion H; reflexivity.
    + destruct (hexval a); [|intro H; inversion H; reflexivity].
      destruct (hexval b); [|intro H; inversion H; reflexivity].
      destruct (unhexlify t) eqn:U; cbn [bind]; [discriminate|].
      intro H; inversion H; subst. apply (IH t); [cbn in Hl; lia|exact U].
Qed.

Lemma unhexlify_err s e : unhexlify s = Err e -> e = EValue.
Proof. apply (unhexlify_err_n (length s)). lia. Qed.

Lemma hex2bin_err s e : hex2bin s = Err e -> e = EValue.
Proof. unfold hex2bin. apply unhexlify_err. Qed.

Lemma py_int_err base s e : py_int base s = Err e -> e = EValue.
Proof.
  unfold py_int.
  match goal with |- context [let '(a, b) := ?X in _] => destruct X as [neg s'] end.
  match goal with |- context [parse_digits base ?S 0 false false] => destruct (parse_digits base S 0 false false) end.
  - discriminate.
  - intro H; inversion H; reflexivity.
Qed.

Lemma to_bytes_err n v e : to_bytes n v = Err e -> e = EOverflow.
Proof. unfold to_bytes. destruct (v <? 256 ^ N.of_nat n); intro H; inversion H; reflexivity. Qed.

Lemma to_bytes_Z_err n v e : to_bytes_Z n v = Err e -> e = EOverflow.
Proof.
  unfold to_bytes_Z. destruct (v <? 0)%Z; [intro H; inversion H; reflexivity|apply to_bytes_err].
Qed.

Lemma sub_key_err p k e : sub_key p k = Err e -> e = EType \/ e = EKey.
Proof.
  destruct p as [s|d]; cbn [sub_key]; [intro H; inversion H; left; reflexivity|].
  destruct (dget str_eqb k d); [discriminate|intro H; inversion H; right; reflexivity].
Qed.

Lemma sliceable_err p e : sliceable p = Err e -> e = EKey.
Proof. destruct p; cbn; [discriminate|intro H; inversion H; reflexivity]. Qed.

Lemma desc_get_err t d e : desc_get t d = Err e -> e = EKey.
Proof. unfold desc_get. destruct (dget N.eqb t d); [discriminate|intro H; inversion H; reflexivity]. Qed.

Lemma byte_of_Z_err v e : byte_of_Z v = Err e -> e = EValue.
Proof. unfold byte_of_Z. destruct ((v <? 0)%Z || (255 <? v)%Z); [intro H; inversion H; reflexivity|discriminate]. Qed.

Lemma mapM_err {A B} (f : A -> result B) (P : err -> Prop) :
  (forall x e, f x = Err e -> P e) -> forall l e, mapM f l = Err e -> P e.
Proof.
  intros Hf. induction l as [|x t IH]; intros e; cbn [mapM]; [discriminate|].
  destruct (f x) eqn:F; cbn [bind].
  - destruct (mapM f t) eqn:M; cbn [bind]; [discriminate|]. intro H; inversion H; subst. apply IH. reflexivity.
  - intro H; inversion H; subst. eapply Hf. exact F.
Qed.

Lemma rd_read_err n r e : rd_read n r = Err e -> e = EValue.
Proof. unfold rd_read. destruct (n <=? blen (rest r)); [discriminate|intro H; inversion H; reflexivity]. Qed.

Lemma rd_read_int_err n r e : rd_read_int n r = Err e -> e = EValue.
Proof.
  unfold rd_read_int. destruct (rd_read n r) as [[b r']|] eqn:R; cbn [bind]; [discriminate|].
  intro H; inversion H; subst. eapply rd_read_err. exact R.
Qed.

(* ---------------------------------------------------------------------------- *)
(* exec_bf2instrs: every error is one emit_bf3comp catches, or Bf3FileFormatError  *)

Definition exec_errs (e : err) : Prop := caught_emit e = true \/ e = EBf3.

Ltac ee_value := left; reflexivity.

Lemma exec_crc_err i d e : exec_crc i d = Err e -> exec_errs e.
Proof.
  unfold exec_crc. destruct (dget str_eqb s_CRC i) as [p|]; [|discriminate].
  destruct (sliceable p) as [s|] eqn:S; cbn [bind].
  - destruct (py_int 16 (dropN 2 s)) as [v|] eqn:P; cbn [bind].
    + destruct (to_bytes_Z 4 v) eqn:T; cbn [bind]; [discriminate|].
      intro H; inversion H; subst. apply to_bytes_Z_err in T. subst. left. reflexivity.
    + intro H; inversion H; subst. apply py_int_err in P. subst. left. reflexivity.
  - intro H; inversion H; subst. apply sliceable_err in S. subst. left. reflexivity.
Qed.

Lemma exec_select_err i d e : exec_select i d = Err e -> exec_errs e.
Proof.
  unfold exec_select. destruct (dget str_eqb s_SELECT i) as [p|]; [|discriminate].
  destruct (sub_key p s_FILTER) as [fs|] eqn:S; cbn [bind];
    [|intro H; inversion H; subst; apply sub_key_err in S as [->| ->]; left; reflexivity].
  destruct (hex2bin fs) as [f|] eqn:Hx; cbn [bind];
    [|intro H; inversion H; subst; apply hex2bin_err in Hx; subst; left; reflexivity].
  destruct (desc_get BF3TAG_TYPE _) as [tyb|] eqn:T; cbn [bind];
    [|intro H; inversion H; subst; apply desc_get_err in T; subst; left; reflexivity].
  destruct (bytes_eqb tyb [n2b BF3TYPE_PERIPHERAL]); [|discriminate].
  destruct (dget str_eqb (hex_upper_sp f) PFID2FILTER_TO_HWCID_SPECIAL_CASES) as [h|].
  - destruct (to_bytes 2 h) eqn:TB; cbn [bind]; [discriminate|].
    intro H; inversion H; subst. apply to_bytes_err in TB. subst. left. reflexivity.
  - destruct (starts_with s_0101 (hex_upper_sp f)); cbn [bind]; [discriminate|].
    intro H; inversion H; subst. right. reflexivity.
Qed.

Lemma exec_check_err i d e : exec_check_fwver i d = Err e -> exec_errs e.
Proof.
  unfold exec_check_fwver. destruct (dget str_eqb s_CHECK_FWVER i) as [p|]; [|discriminate].
  destruct (sub_key p s_VERSIONDESC) as [vd|] eqn:S; cbn [bind];
    [|intro H; inversion H; subst; apply sub_key_err in S as [->| ->]; left; reflexivity].
  destruct (str_eqb vd s_star); [discriminate|].
  destruct (hex2bin vd) as [v|] eqn:Hx; cbn [bind];
    [|intro H; inversion H; subst; apply hex2bin_err in Hx; subst; left; reflexivity].
  destruct (nth_error v 2); [discriminate|]. intro H; inversion H; subst. left. reflexivity.
Qed.

Lemma exec_firmware_err i d c e : exec_firmware i d c = Err e -> exec_errs e.
Proof.
  unfold exec_firmware. destruct (dget str_eqb s_Firmware i) as [p|]; [|discriminate].
  destruct (sliceable p) as [s|] eqn:S; cbn [bind];
    [|intro H; inversion H; subst; apply sliceable_err in S; subst; left; reflexivity].
  destruct (starts_with s_Dminus (slice 15 22 s)); [discriminate|].
  destruct (py_int 10 (slice 0 4 s)) as [idv|] eqn:P; cbn [bind];
    [|intro H; inversion H; subst; apply py_int_err in P; subst; left; reflexivity].
  destruct (to_bytes_Z 2 idv) as [idb|] eqn:T; cbn [bind];
    [|intro H; inversion H; subst; apply to_bytes_Z_err in T; subst; left; reflexivity].
  destruct (mapM (py_int 10) (split_on 46 (slice 15 22 s))) as [vs|] eqn:M1; cbn [bind];
    [|intro H; inversion H; subst;
      apply (mapM_err (py_int 10) (fun e => e = EValue)) in M1; [subst; left; reflexivity|apply py_int_err]].
  destruct (mapM byte_of_Z vs) as [vb|] eqn:M2; cbn [bind];
    [|intro H; inversion H; subst;
      apply (mapM_err byte_of_Z (fun e => e = EValue)) in M2; [subst; left; reflexivity|apply byte_of_Z_err]].
  destruct (desc_get BF3TAG_TYPE d) as [tyb|] eqn:Ty; cbn [bind];
    [|intro H; inversion H; subst; apply desc_get_err in Ty; subst; left; reflexivity].
  destruct (bytes_eqb tyb [n2b BF3TYPE_LOADER] || bytes_eqb tyb [n2b BF3TYPE_MAIN]); discriminate.
Qed.

Lemma exec_creator_err i c e : exec_creator i c = Err e -> exec_errs e.
Proof.
  unfold exec_creator. destruct (dget str_eqb s_Creator i) as [[s|dd]|]; try discriminate.
  intro H; inversion H; subst. left. reflexivity.
Qed.

Lemma exec_select_if_err i d e : exec_select_if i d = Err e -> exec_errs e.
Proof.
  unfold exec_select_if. destruct (dget str_eqb s_SELECT_IF i) as [p|]; [|discriminate].
  destruct (sub_key p s_PROTOCOL) as [proto|] eqn:S; cbn [bind];
    [|intro H; inversion H; subst; apply sub_key_err in S as [->| ->]; left; reflexivity].
  destruct (str_eqb proto s_star); [discriminate|].
  destruct (dget str_eqb proto BF2_INTERFACES) as [n|]; [|discriminate].
  destruct (to_bytes 1 n) eqn:T; cbn [bind]; [discriminate|].
  intro H; inversion H; subst. apply to_bytes_err in T. subst. left. reflexivity.
Qed.

Lemma exec_err i d c e : exec i d c = Err e -> exec_errs e.
Proof.
  unfold exec. destruct (exec_reboot i d) as [i1 d1].
  destruct (exec_crc i1 d1) as [[i2 d2]|] eqn:E2; cbn [bind];
    [|intro H; inversion H; subst; eapply exec_crc_err; exact E2].
  destruct (exec_select i2 d2) as [d3|] eqn:E3; cbn [bind];
    [|intro H; inversion H; subst; eapply exec_select_err; exact E3].
  destruct (exec_check_fwver i2 d3) as [[i4 d4]|] eqn:E4; cbn [bind];
    [|intro H; inversion H; subst; eapply exec_check_err; exact E4].
  destruct (exec_firmware i4 d4 c) as [[d5 c5]|] eqn:E5; cbn [bind];
    [|intro H; inversion H; subst; eapply exec_firmware_err; exact E5].
  destruct (exec_creator i4 c5) as [c6|] eqn:E6; cbn [bind];
    [|intro H; inversion H; subst; eapply exec_creator_err; exact E6].
  destruct (exec_select_if i4 d5) as [od|] eqn:E7; cbn [bind]; [discriminate|].
  intro H; inversion H; subst. eapply exec_select_if_err. exact E7.
Qed.

(* ---------------------------------------------------------------------------- *)
(* bf2_convert_payload                                                           *)

Lemma line_fields_err l e : line_fields l = Err e -> e = EValue.
Proof.
  unfold line_fields.
  destruct (rd_read_int 1 (new_reader (l_tag l))) as [[n r1]|] eqn:R1; cbn [bind];
    [|intro H; inversion H; subst; eapply rd_read_int_err; exact R1].
  destruct (rd_read_int 2 r1) as [[o r2]|] eqn:R2; cbn [bind];
    [|intro H; inversion H; subst; eapply rd_read_int_err; exact R2].
  destruct (Z.of_N n - 2 <? 0)%Z; cbn [bind]; [discriminate|].
  destruct (rd_read (Z.to_N (Z.of_N n - 2)) r2) as [[p r3]|] eqn:R3; cbn [bind]; [discriminate|].
  intro H; inversion H; subst. eapply rd_read_err. exact R3.
Qed.

Lemma unpack_step_err t s l e : unpack_step t s l = Err e -> e = EValue.
Proof.
  unfold unpack_step. destruct (line_fields l) as [[[plen o] payload]|] eqn:L; cbn [bind].
  - destruct (u_cur s) as [[a chunks]|]; [destruct (negb _)|]; discriminate.
  - intro H; inversion H; subst. eapply line_fields_err. exact L.
Qed.

Lemma foldM_unpack_err t : forall ls s e, foldM (unpack_step t) ls s = Err e -> e = EValue.
Proof.
  induction ls as [|l r IH]; intros s e; cbn [foldM]; [discriminate|].
  destruct (unpack_step t s l) as [s1|] eqn:U; cbn [bind].
  - apply IH.
  - intro H; inversion H; subst. eapply unpack_step_err. exact U.
Qed.

Lemma unpack_err ls e : ls <> [] -> unpack ls = Err e -> e = EValue.
Proof.
  destruct ls as [|l0 r]; [congruence|]. intros _. unfold unpack.
  destruct (foldM _ _ _) eqn:F; cbn [bind]; [discriminate|].
  intro H; inversion H; subst. eapply foldM_unpack_err. exact F.
Qed.

Lemma convert_err ls fmt e : ls <> [] ->
  fmt = BF3FMT_BLOB \/ fmt = BF3FMT_BF2COMPATIBLE ->
  convert ls fmt = Err e -> e = EValue \/ e = EBf3.
Proof.
  intros Hne [-> | ->]; unfold convert.
  - change (BF3FMT_BLOB =? BF3FMT_BF2COMPATIBLE) with false.
    change (BF3FMT_BLOB =? BF3FMT_BLOB) with true. cbv iota.
    destruct (unpack ls) as [blocks|] eqn:U; cbn [bind].
    + intro H. right. eapply Bf2UnpackProofs.blob_err_kind. exact H.
    + intro H; inversion H; subst. left. eapply unpack_err; eassumption.
  - change (BF3FMT_BF2COMPATIBLE =? BF3FMT_BF2COMPATIBLE) with true. cbv iota. discriminate.
Qed.

(* ---------------------------------------------------------------------------- *)
(* facts about the generated tables                                              *)

Definition is_some {A} (o : option A) : bool := match o with Some _ => true | None => false end.

Definition intf_ok (x : N) : bool := (x <? 256) && is_some (rev_lookup x BF3INTF_names).

Definition entry_ok (p : N * (option N * option N * option N * option N)) : bool :=
  match snd p with
  | (None, _, _, _) => true
  | (Some ty, hw, Some fmt, intf) =>
    (ty <? 3) && ((fmt =? BF3FMT_BLOB) || (fmt =? BF3FMT_BF2COMPATIBLE))
    && match hw with Some h => h <? 65536 | None => negb (ty =? BF3TYPE_PERIPHERAL) end
    && match intf with Some x => intf_ok x | None => true end
  | _ => false
  end.

Lemma table_entries_ok : forallb entry_ok BF2_TAGTYPE_MAP = true.
Proof. vm_compute. reflexivity. Qed.

Lemma interfaces_ok : forallb (fun p => intf_ok (snd p)) BF2_INTERFACES = true.
Proof. vm_compute. reflexivity. Qed.

Lemma dget_str_In {V} k (v : V) d : dget str_eqb k d = Some v -> exists k', In (k', v) d.
Proof.
  induction d as [|[k' v'] t IH]; cbn [dget]; [discriminate|].
  destruct (str_eqb k k').
  - intro H; inversion H; subst. exists k'. left. reflexivity.
  - intro H. destruct (IH H) as [k2 Hk]. exists k2. right. exact Hk.
Qed.

Lemma to_bytes_small n v : v < 256 ^ N.of_nat n -> to_bytes n v = Ok (be n v).
Proof. intro H. unfold to_bytes. apply N.ltb_lt in H. rewrite H. reflexivity. Qed.

(* ---------------------------------------------------------------------------- *)
(* emit_bf3comp                                                                  *)

Lemma emit_err data i c e : emit data i c = Err e -> is_format_or_value e = true.
Proof.
  unfold emit. destruct data as [|l0 rest]; [intro H; inversion H; reflexivity|].
  destruct (dget N.eqb (l_type l0) BF2_TAGTYPE_MAP) as [[[[oty hw] ofmt] intf]|] eqn:M;
    [|intro H; inversion H; reflexivity].
  pose proof (dget_In _ _ _ M) as Hin.
  pose proof table_entries_ok as T. rewrite forallb_forall in T. specialize (T _ Hin).
  unfold entry_ok in T. cbn [snd] in T.
  destruct oty as [ty|]; [|discriminate].
  destruct ofmt as [fmt|]; [|discriminate].
  apply andb_true_iff in T as [T Ti]. apply andb_true_iff in T as [T Th]. apply andb_true_iff in T as [Tt Tf].
  apply N.ltb_lt in Tt.
  assert (Ff : fmt = BF3FMT_BLOB \/ fmt = BF3FMT_BF2COMPATIBLE).
  { apply orb_true_iff in Tf as [F|F]; apply N.eqb_eq in F; [left|right]; exact F. }
  rewrite (to_bytes_small 1 fmt) by (destruct Ff as [-> | ->]; reflexivity).
  rewrite (to_bytes_small 1 ty) by (change (256 ^ N.of_nat 1) with 256; lia).
  cbn [bind].
  assert (G : forall d2,
    match exec i d2 c with
    | Ok (i', c', Some d) => let* content := convert (l0 :: rest) fmt in
                             Ok (i', c', Some (mkComp d content))
    | Ok (i', c', None) => Ok (i', c', None)
    | Err e => if caught_emit e then Err EBf3 else Err e
    end = Err e -> is_format_or_value e = true).
  { intro d2. destruct (exec i d2 c) as [[[i' c'] [d|]]|x] eqn:X.
    - destruct (convert (l0 :: rest) fmt) eqn:Cv; cbn [bind]; [discriminate|].
      intro H; inversion H; subst.
      assert (Hne : l0 :: rest <> []) by discriminate.
      destruct (convert_err _ _ _ Hne Ff Cv) as [-> | ->]; reflexivity.
    - discriminate.
    - apply exec_err in X. destruct X as [X | ->].
      + rewrite X. intro H; inversion H; reflexivity.
      + cbn. intro H; inversion H; reflexivity. }
  destruct hw as [h|].
  - apply N.ltb_lt in Th. rewrite (to_bytes_small 2 h) by exact Th. cbn [bind].
    destruct intf as [x|].
    + unfold intf_ok in Ti. apply andb_true_iff in Ti as [Tx _]. apply N.ltb_lt in Tx.
      rewrite (to_bytes_small 1 x) by exact Tx. cbn [bind]. apply G.
    + cbn [bind]. apply G.
  - cbn [bind]. destruct intf as [x|].
    + unfold intf_ok in Ti. apply andb_true_iff in Ti as [Tx _]. apply N.ltb_lt in Tx.
      rewrite (to_bytes_small 1 x) by exact Tx. cbn [bind]. apply G.
    + apply G.
Qed.

(* ---------------------------------------------------------------------------- *)
(* what every emitted component looks like                                       *)

Definition comp_ok (cp : comp) : Prop :=
  exists ty, ty < 3 /\ dget N.eqb BF3TAG_TYPE (c_desc cp) = Some [n2b ty] /\
    (forall ib, dget N.eqb BF3TAG_INTF (c_desc cp) = Some ib ->
                is_some (rev_lookup (from_be ib) BF3INTF_names) = true) /\
    (ty = BF3TYPE_PERIPHERAL -> dget N.eqb BF3TAG_HWCID (c_desc cp) <> None).

Lemma from_be_single n : n < 256 -> from_be [n2b n] = n.
Proof. intro H. unfold from_be. cbn [fold_left]. rewrite b2n_n2b_small by exact H. lia. Qed.

Lemma intf_ok_lookup x : intf_ok x = true -> is_some (rev_lookup (from_be [n2b x]) BF3INTF_names) = true.
Proof.
  unfold intf_ok. intro H. apply andb_true_iff in H as [H1 H2]. apply N.ltb_lt in H1.
  rewrite from_be_single by exact H1. exact H2.
Qed.

Lemma emit_result_comp_ok data i c i' c' cp : emit_result data i c i' c' (Some cp) -> comp_ok cp.
Proof.
  intros (l0 & rest & oty & hw & ofmt & intf & Hs & HM & H).
  pose proof (dget_In _ _ _ HM) as Hin.
  pose proof table_entries_ok as T. rewrite forallb_forall in T. specialize (T _ Hin).
  unfold entry_ok in T. cbn [snd] in T.
  destruct oty as [ty|]; [|destruct H as [_ [_ H]]; discriminate].
  destruct H as (fmt & od & -> & Ht & Hf & X & H).
  destruct od as [d|]; [|discriminate].
  destruct H as (blob & Cv & Hc). inversion Hc; subst cp. cbn [c_desc].
  apply andb_true_iff in T as [T Ti]. apply andb_true_iff in T as [T Th]. apply andb_true_iff in T as [Tt Tf].
  apply N.ltb_lt in Tt.
  apply exec_normal_form in X.
  destruct X as (vR & vC & vP & vH & vK & vF & cid & cver & vCr & sup & vI & _ & _ & _ & _ & _ & _ & HI & _ & _ & Hd).
  destruct sup; [|discriminate]. inversion Hd; subst d. clear Hd.
  unfold comp_ok. cbn [c_desc].
  exists ty. split; [exact Tt|]. split.
  - rewrite !dget_oset. cbn. unfold initial_desc. rewrite !dget_oset. reflexivity.
  - split.
    + intros ib Hib. rewrite dget_oset in Hib. rewrite N.eqb_refl in Hib.
      destruct vI as [v|].
      * inversion Hib; subst ib.
        unfold st_select_if in HI. destruct (dget str_eqb s_SELECT_IF i) as [p|]; [|destruct HI; discriminate].
        destruct HI as (proto & _ & HI). destruct (str_eqb proto s_star); [destruct HI; discriminate|].
        destruct (dget str_eqb proto BF2_INTERFACES) as [n|] eqn:B; [|destruct HI; discriminate].
        destruct HI as (_ & Hn & Hv). inversion Hv; subst v.
        destruct (dget_str_In _ _ _ B) as [k' Hk].
        pose proof interfaces_ok as IO. rewrite forallb_forall in IO. specialize (IO _ Hk). cbn [snd] in IO.
        apply intf_ok_lookup. exact IO.
      * rewrite !dget_oset in Hib. cbn in Hib. unfold initial_desc in Hib. rewrite dget_oset in Hib.
        rewrite N.eqb_refl in Hib. destruct intf as [x|]; cbn [option_map] in Hib.
        -- inversion Hib; subst ib. apply intf_ok_lookup. exact Ti.
        -- rewrite dget_oset in Hib. cbn in Hib. discriminate.
    + intros Hty. rewrite !dget_oset. cbn.
      destruct vH as [v|]; [discriminate|].
      rewrite ?dget_oset. cbn. unfold initial_desc. rewrite ?dget_oset. cbn.
      destruct hw as [h|]; cbn [option_map]; [discriminate|].
      subst ty. discriminate.
Qed.

Lemma log_comps_ok : forall l, Forall section_ok l -> Forall comp_ok (comps_of l).
Proof.
  induction l as [|[oc src] t IH]; intro F; [constructor|].
  inversion F as [|? ? He Ft]; subst. unfold comps_of. cbn [flat_map fst].
  apply Forall_app. split; [|exact (IH Ft)].
  destruct oc as [cp|]; [|constructor]. constructor; [|constructor].
  destruct He as (i & c & i' & c' & He). eapply emit_result_comp_ok. exact He.
Qed.

(* ---------------------------------------------------------------------------- *)
(* annotations                                                                   *)

Lemma utf8_err_n : forall n bs e, (length bs <= n)%nat -> utf8_decode bs = Err e -> e = EUnicode.
Proof.
  induction n as [|n IH]; intros bs e Hl.
  - destruct bs; [discriminate|cbn in Hl; lia].
  - destruct bs as [|b0 t0]; [discriminate|]. cbn [utf8_decode].
    assert (R : forall t (k : str -> str), (length t <= n)%nat ->
                (let* r := utf8_decode t in Ok (k r)) = Err e -> e = EUnicode).
    { intros t k Ht. destruct (utf8_decode t) eqn:U; cbn [bind]; [discriminate|].
      intro H; inversion H; subst. exact (IH t _ Ht U). }
    assert (Q : @Err str EUnicode = Err e -> e = EUnicode) by (intro H; inversion H; reflexivity).
    cbn [length] in Hl.
    destruct (b0 <? 128); [apply (R t0 (fun r => b0 :: r)); lia|].
    destruct ((194 <=? b0) && (b0 <=? 223)).
    { destruct t0 as [|b1 t1]; [exact Q|]. destruct (is_cont b1); [|exact Q].
      apply (R t1 (fun r => ((b0 - 192) * 64 + (b1 - 128)) :: r)). cbn [length] in Hl. lia. }
    destruct ((224 <=? b0) && (b0 <=? 239)).
    { destruct t0 as [|b1 [|b2 t2]]; try exact Q.
      match goal with |- (if ?c then _ else _) = _ -> _ => destruct c end; [|exact Q].
      apply (R t2 (fun r => ((b0 - 224) * 4096 + (b1 - 128) * 64 + (b2 - 128)) :: r)). cbn [length] in Hl. lia. }
    destruct ((240 <=? b0) && (b0 <=? 244)); [|exact Q].
    destruct t0 as [|b1 [|b2 [|b3 t3]]]; try exact Q.
    match goal with |- (if ?c then _ else _) = _ -> _ => destruct c end; [|exact Q].
    apply (R t3 (fun r => ((b0 - 240) * 262144 + (b1 - 128) * 4096 + (b2 - 128) * 64 + (b3 - 128)) :: r)).
    cbn [length] in Hl. lia.
Qed.

Lemma version_str_err name ov e : version_str name ov = Err e -> e = EUnicode.
Proof.
  unfold version_str. destruct ov as [[|x v]|]; try discriminate.
  destruct (starts_with s_SM name && (4 <=? blen (x :: v))) eqn:C1.
  - apply andb_true_iff in C1 as [_ C1]. apply N.leb_le in C1.
    destruct v as [|b [|c [|d r]]]; try discriminate; rewrite !blen_cons in C1; cbn in C1; lia.
  - destruct (starts_with s_BGM name && (7 <=? blen (x :: v))); [|discriminate].
    destruct (utf8_decode (map b2n (x :: v))) eqn:U; cbn [bind]; [discriminate|].
    intro H; inversion H; subst. eapply (utf8_err_n _ _ _ (le_n _)). exact U.
Qed.

Lemma filter_str_err f e : pfid2_filter_to_str f = Err e -> e = EBf3.
Proof.
  rewrite filter_str_is_printed_expr. destruct (filter_header_ok f); [discriminate|].
  intro H; inversion H; reflexivity.
Qed.

Lemma annotation_err c e : comp_ok c -> annotation c = Err e -> is_format_or_value e = true.
Proof.
  intros (ty & Hty & HT & HI & HH). unfold annotation, desc_get. rewrite HT. cbn [bind].
  rewrite from_be_single by lia.
  assert (Tail : forall base,
    match dget N.eqb BF3TAG_PFID2 (c_desc c) with
    | Some f => let* fs := pfid2_filter_to_str f in Ok (base ++ s_pfid_open ++ fs ++ [93])
    | None => Ok base
    end = Err e -> is_format_or_value e = true).
  { intro base. destruct (dget N.eqb BF3TAG_PFID2 (c_desc c)) as [f|]; [|discriminate].
    destruct (pfid2_filter_to_str f) eqn:F; cbn [bind]; [discriminate|].
    intro H; inversion H; subst. apply filter_str_err in F. subst. reflexivity. }
  assert (Cases : ty = 0 \/ ty = 1 \/ ty = 2) by lia.
  destruct Cases as [-> | [-> | ->]].
  - change (0 =? BF3TYPE_MAIN) with false. change (0 =? BF3TYPE_LOADER) with true. cbv iota.
    destruct (dget N.eqb BF3TAG_INTF (c_desc c)) as [ib|] eqn:I; cbn [bind].
    + specialize (HI ib eq_refl). destruct (rev_lookup (from_be ib) BF3INTF_names); [|discriminate].
      cbn [bind]. apply Tail.
    + intro H; inversion H; reflexivity.
  - change (1 =? BF3TYPE_MAIN) with false. change (1 =? BF3TYPE_LOADER) with false.
    change (1 =? BF3TYPE_PERIPHERAL) with true. cbv iota.
    destruct (dget N.eqb BF3TAG_HWCID (c_desc c)) as [hb|] eqn:Hh; [|exfalso; apply HH; reflexivity].
    cbn [bind].
    match goal with |- (let* base := (let* vs := ?V in _) in _) = _ -> _ => destruct V as [vs|] eqn:EV end; cbn [bind].
    + apply Tail.
    + intro H; inversion H; subst. apply version_str_err in EV. subst. reflexivity.
  - change (2 =? BF3TYPE_MAIN) with true. cbv iota. cbn [bind]. apply Tail.
Qed.

Lemma annotations_from_err : forall cs n e, Forall comp_ok cs ->
  annotations_from n cs = Err e -> is_format_or_value e = true.
Proof.
  induction cs as [|c t IH]; intros n e F; cbn [annotations_from]; [discriminate|].
  inversion F as [|? ? Hc Ft]; subst.
  destruct (annotation c) eqn:A; cbn [bind].
  - destruct (annotations_from (n + 1) t) eqn:R; cbn [bind]; [discriminate|].
    intro H; inversion H; subst. exact (IH _ _ Ft R).
  - intro H; inversion H; subst. exact (annotation_err _ _ Hc A).
Qed.

Lemma sort_comps_ok cs : Forall comp_ok cs -> exists sorted, sort_comps cs = Ok sorted.
Proof.
  intro F. unfold sort_comps.
  assert (M : exists keyed, mapM (fun c => let* k := desc_get BF3TAG_TYPE (c_desc c) in Ok (k, c)) cs = Ok keyed).
  { induction F as [|c t (ty & _ & HT & _) Ft IH]; [eexists; reflexivity|].
    cbn [mapM]. unfold desc_get at 1. rewrite HT. cbn [bind]. destruct IH as [k Hk]. rewrite Hk. cbn [bind].
    eexists. reflexivity. }
  destruct M as [keyed Hk]. rewrite Hk. cbn [bind]. eexists. reflexivity.
Qed.

Lemma finish_err s enforce e : Forall comp_ok (comps_of (s_log s)) ->
  finish s enforce = Err e -> is_format_or_value e = true.
Proof.
  intro F. unfold finish.
  destruct (enforce && negb (dmem str_eqb s_Bf3Update (s_comments s))); [intro H; inversion H; reflexivity|].
  destruct (sort_comps_ok _ F) as [sorted Hs]. rewrite Hs. cbn [bind].
  destruct (annotations sorted) eqn:A; cbn [bind]; [discriminate|].
  intro H; inversion H; subst. unfold annotations in A.
  eapply annotations_from_err; [|exact A].
  eapply Permutation_Forall; [apply Permutation_sym, (sort_comps_perm _ _ Hs)|exact F].
Qed.

(* ---------------------------------------------------------------------------- *)
(* the state machine                                                             *)

(* tokens the text parser can produce: data groups are not empty, no instruction
   is called "load" *)
Definition tok_ok (t : token) : Prop :=
  match t with
  | Load ls => ls <> []
  | Instr name _ => str_eqb name s_load = false
  end.

Lemma emit_keep_err s e : emit_keep s = Err e -> is_format_or_value e = true.
Proof.
  unfold emit_keep. destruct (emit _ _ _) as [[[i c] [cp|]]|x] eqn:E; cbn [bind]; try discriminate.
  intro H; inversion H; subst. eapply emit_err. exact E.
Qed.

Lemma emit_drop_err s e : emit_drop s = Err e -> is_format_or_value e = true.
Proof.
  unfold emit_drop. destruct (emit _ _ _) as [[[i c] oc]|x] eqn:E; cbn [bind]; try discriminate.
  intro H; inversion H; subst. eapply emit_err. exact E.
Qed.

Lemma step_err s t e : tok_ok t -> step s t = Err e -> is_format_or_value e = true.
Proof.
  destruct t as [ls|name p]; cbn [tok_ok step].
  - intro Hne. destruct ls as [|l0 r]; [congruence|].
    destruct (negb (is_known_tagtype (l_type l0))); [intro H; inversion H; reflexivity|].
    destruct (dmem N.eqb (l_type l0) BF2_TAGTYPE_MAP && nonempty (s_data s)); [|discriminate].
    destruct (emit_drop s) eqn:E; cbn [bind]; [discriminate|].
    intro H; inversion H; subst. eapply emit_drop_err. exact E.
  - intros ->.
    destruct (str_eqb name s_CHECK_FWVER && dmem str_eqb s_CHECK_FWVER (s_instrs s)).
    + destruct (emit_keep s) as [s1|] eqn:E; cbn [bind].
      * destruct (str_eqb name s_REBOOT); [apply emit_keep_err|discriminate].
      * intro H; inversion H; subst. eapply emit_keep_err. exact E.
    + cbn [bind]. destruct (str_eqb name s_REBOOT); [apply emit_keep_err|discriminate].
Qed.

Lemma foldM_step_err : forall toks s e, Forall tok_ok toks ->
  foldM step toks s = Err e -> is_format_or_value e = true.
Proof.
  induction toks as [|t ts IH]; intros s e F; cbn [foldM]; [discriminate|].
  inversion F as [|? ? Ht Fts]; subst.
  destruct (step s t) as [s1|] eqn:E; cbn [bind].
  - apply IH. exact Fts.
  - intro H; inversion H; subst. eapply step_err; eassumption.
Qed.

Theorem import_tokens_closure toks enforce e : Forall tok_ok toks ->
  bf2_import toks enforce = Err e -> is_format_or_value e = true.
Proof.
  intro F. unfold bf2_import. destruct (run toks) as [s|x] eqn:R; cbn [bind].
  - apply finish_err. apply log_comps_ok. apply (run_sections _ _ R).
  - intro H; inversion H; subst. unfold run in R.
    destruct (foldM step toks (mkSt [] [] [] [])) as [s0|y] eqn:E; cbn [bind] in R.
    + destruct (nonempty (s_data s0)); [eapply emit_drop_err; exact R|discriminate].
    + inversion R; subst. eapply foldM_step_err; eassumption.
Qed.

(* ---------------------------------------------------------------------------- *)
(* the text parser: only ValueError, and only tokens that are tok_ok             *)

Lemma parse_data_line_err ln e : parse_data_line ln = Err e -> e = EValue.
Proof.
  unfold parse_data_line.
  destruct (hex2bin ln) as [rdata|] eqn:Hx; cbn [bind];
    [|intro H; inversion H; subst; eapply hex2bin_err; exact Hx].
  destruct (rd_read_int 2 _) as [[ndx r1]|] eqn:R1; cbn [bind];
    [|intro H; inversion H; subst; eapply rd_read_int_err; exact R1].
  destruct (rd_read_int 1 r1) as [[ty r2]|] eqn:R2; cbn [bind];
    [|intro H; inversion H; subst; eapply rd_read_int_err; exact R2].
  destruct (rd_read_int 1 r2) as [[tl r3]|] eqn:R3; cbn [bind];
    [|intro H; inversion H; subst; eapply rd_read_int_err; exact R3].
  destruct (rd_read tl r3) as [[tag r4]|] eqn:R4; cbn [bind]; [discriminate|].
  intro H; inversion H; subst. eapply rd_read_err. exact R4.
Qed.

Lemma parse_params_err ps e : parse_params ps = Err e -> e = EValue.
Proof.
  unfold parse_params.
  match goal with |- (let* kvs := mapM ?f ?l in _) = _ -> _ => destruct (mapM f l) eqn:M end; cbn [bind]; [discriminate|].
  intro H; inversion H; subst.
  eapply (mapM_err _ (fun x => x = EValue)); [|exact M].
  intros p x. cbv beta. destruct (split_on 61 (strip p)) as [|k [|v [|? ?]]]; try discriminate;
    intro Hx; inversion Hx; reflexivity.
Qed.

Lemma parse_cmd_line_facts rest :
  (forall e, parse_cmd_line rest = Err e -> e = EValue) /\
  (forall tk, parse_cmd_line rest = Ok tk -> tok_ok tk).
Proof.
  unfold parse_cmd_line. destruct (split_ws1 rest) as [|cmd [|ps [|? ?]]].
  - split; [intros e H; inversion H; reflexivity|discriminate].
  - destruct (parse_params []) as [d|x] eqn:P; cbn [bind].
    + destruct (str_eqb cmd s_load) eqn:L; split; try discriminate.
      * intros e H; inversion H; reflexivity.
      * intros tk H; inversion H; subst. exact L.
    + split; [|discriminate]. intros e H; inversion H; subst. eapply parse_params_err. exact P.
  - destruct (parse_params ps) as [d|x] eqn:P; cbn [bind].
    + destruct (str_eqb cmd s_load) eqn:L; split; try discriminate.
      * intros e H; inversion H; reflexivity.
      * intros tk H; inversion H; subst. exact L.
    + split; [|discriminate]. intros e H; inversion H; subst. eapply parse_params_err. exact P.
  - split; [intros e H; inversion H; reflexivity|discriminate].
Qed.

Lemma parse_meta_line_facts rest :
  (forall e, parse_meta_line rest = Err e -> e = EValue) /\
  (forall tk, parse_meta_line rest = Ok tk -> tok_ok tk).
Proof.
  unfold parse_meta_line. destruct (split_on 58 rest) as [|name [|value [|? ?]]];
    try (split; [intros e H; inversion H; reflexivity|discriminate]).
  destruct (str_eqb name s_load) eqn:L; split; try discriminate.
  - intros e H; inversion H; reflexivity.
  - intros tk H; inversion H; subst. exact L.
Qed.

Lemma parse_lines_facts : forall lns fw,
  (forall e, parse_lines lns fw = Err e -> e = EValue) /\
  (forall toks, parse_lines lns fw = Ok toks -> Forall tok_ok toks).
Proof.
  induction lns as [|ln t IH]; intro fw; cbn [parse_lines].
  - split; [discriminate|]. intros toks H; inversion H; constructor.
  - assert (Cons : forall (r : result token) fw',
      (forall e, r = Err e -> e = EValue) -> (forall tk, r = Ok tk -> tok_ok tk) ->
      (forall e, (let* tk := r in let* rr := parse_lines t fw' in Ok (tk :: rr)) = Err e -> e = EValue) /\
      (forall toks, (let* tk := r in let* rr := parse_lines t fw' in Ok (tk :: rr)) = Ok toks -> Forall tok_ok toks)).
    { intros r fw' He Ho. destruct r as [tk|x]; cbn [bind].
      - destruct (parse_lines t fw') as [rr|y] eqn:P; cbn [bind].
        + split; [discriminate|]. intros toks H; inversion H; subst.
          constructor; [apply Ho; reflexivity|apply (IH fw'); exact P].
        + split; [|discriminate]. intros e H; inversion H; subst. apply (IH fw'). exact P.
      - split; [|discriminate]. intros e H; inversion H; subst. apply He. reflexivity. }
    destruct ln as [|c0 rest0]; [apply IH|].
    destruct (c0 =? 58).
    + destruct (parse_data_line (c0 :: rest0)) as [l|x] eqn:D; cbn [bind].
      * destruct (l_type l =? 255).
        -- destruct fw as [|f0 fr]; [apply IH|].
           destruct (parse_lines t []) as [rr|y] eqn:P; cbn [bind].
           ++ split; [discriminate|]. intros toks H; inversion H; subst. constructor.
              ** cbn [tok_ok]. intro E. cbn [rev] in E. apply app_eq_nil in E as [_ E]. discriminate.
              ** apply (IH []). exact P.
           ++ split; [|discriminate]. intros e H; inversion H; subst. apply (IH []). exact P.
        -- destruct (l_type l =? 254); apply IH.
      * split; [|discriminate]. intros e H; inversion H; subst. eapply parse_data_line_err. exact D.
    + destruct (c0 =? 35); [|apply IH].
      destruct rest0 as [|c1 rest]; [apply IH|].
      destruct (c1 =? 62).
      * apply Cons; apply parse_cmd_line_facts.
      * destruct (c1 =? 35); [|apply IH]. apply Cons; apply parse_meta_line_facts.
Qed.

(* ---------------------------------------------------------------------------- *)
(* error closure of the text-level importer                                      *)

Theorem import_text_closure text enforce e :
  bf2_import_text text enforce = Err e -> is_format_or_value e = true.
Proof.
  unfold bf2_import_text, parse_text.
  destruct (parse_lines_facts (lines_of text []) []) as [He Ho].
  destruct (parse_lines (lines_of text []) []) as [toks|x].
  - apply import_tokens_closure. apply Ho. reflexivity.
  - rewrite (He x eq_refl). cbn. intro H; inversion H; reflexivity.
Qed.

(* more precisely: the classes that can come out *)
Theorem filter_str_closure f e : pfid2_filter_to_str f = Err e -> e = EBf3.
Proof. exact (filter_str_err f e). Qed.

(* token streams the parser cannot produce still reach non-format errors *)
Example import_tokens_residual :
  bf2_import [Load []] true = Err EIndex /\
  bf2_import [Instr s_load (PDict [])] true = Err EKey /\
  bf2_import [Instr s_load (PStr [])] true = Err EIndex.
Proof. vm_compute. repeat split. Qed.
