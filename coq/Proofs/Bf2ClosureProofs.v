(* C13 / C14: error closure of the BF2 importer model.  Every error of
   bf2_import_text is a format error or a ValueError (is_format_or_value);
   pfid2_filter_to_str fails with Bf3FileFormatError only. *)
From Coq Require Import List Bool NArith ZArith Lia Permutation.
From Coq Require Import Init.Byte.
From Bec2 Require Import Base.Result Base.Bytes Base.Reader Gen.Consts Model.Bf2Str Model.Bf2Import
  Proofs.Bf2FilterProofs Proofs.Bf2ImportProofs.
Import ListNotations.
Open Scope N_scope.

(* ---------------------------------------------------------------------------- *)
(* primitives                                                                    *)

Lemma unhexlify_err_n : forall n s e, (length s <= n)%nat -> unhexlify s = Err e -> e = EValue.
Proof.
  induction n as [|n IH]; intros s e Hl.
  - destruct s; [discriminate|cbn in Hl; lia].
  - destruct s as [|a [|b t]]; cbn [unhexlify].
    + discriminate.
    + intro H; inversion H; reflexivity.
    + destruct (hexval a); [|intro H; inversion H; reflexivity].
      destruct (hexval b); [|intro H; inversion H; reflexivity].
      destruct (unhexlify t) eqn:U; cbn [bind]; [discriminate|].
      intro H; inversion H; subst. apply (IH t); [cbn in Hl; lia|exact U].
Qed.

Lemma unhexlify_err s e : unhexlify s = Err e -> e = EValue.
Proof. apply (unhexlify_err_n (length s)). lia. Qed.

Lemma hex2bin_err s e : hex2bin s = Err e -> e = EValue.
Proof. unfold hex2bin. apply unhexlify_err. Qed.

Lemma py_int_err base s e : py_int base s = Err e -> e = EValue.
Proof.
  unfold py_int.
  match goal with |- context [let '(a, b) := ?X in _] => destruct X as [neg s'] end.
  match goal with |- context [parse_digits base ?S 0 false false] => destruct (parse_digits base S 0 false false) end.
  - discriminate.
  - intro H; inversion H; reflexivity.
Qed.

Lemma to_bytes_err n v e : to_bytes n v = Err e -> e = EOverflow.
Proof. unfold to_bytes. destruct (v <? 256 ^ N.of_nat n); intro H; inversion H; reflexivity. Qed.

Lemma to_bytes_Z_err n v e : to_bytes_Z n v = Err e -> e = EOverflow.
Proof.
  unfold to_bytes_Z. destruct (v <? 0)%Z; [intro H; inversion H; reflexivity|apply to_bytes_err].
Qed.

Lemma sub_key_err p k e : sub_key p k = Err e -> e = EType \/ e = EKey.
Proof.
  destruct p as [s|d]; cbn [sub_key]; [intro H; inversion H; left; reflexivity|].
  destruct (dget str_eqb k d); [discriminate|intro H; inversion H; right; reflexivity].
Qed.

Lemma sliceable_err p e : sliceable p = Err e -> e = EKey.
Proof. destruct p; cbn; [discriminate|intro H; inversion H; reflexivity]. Qed.

Lemma desc_get_err t d e : desc_get t d = Err e -> e = EKey.
Proof. unfold desc_get. destruct (dget N.eqb t d); [discriminate|intro H; inversion H; reflexivity]. Qed.

Lemma byte_of_Z_err v e : byte_of_Z v = Err e -> e = EValue.
Proof. unfold byte_of_Z. destruct ((v <? 0)%Z || (255 <? v)%Z); [intro H; inversion H; reflexivity|discriminate]. Qed.

Lemma mapM_err {A B} (f : A -> result B) (P : err -> Prop) :
  (forall x e, f x = Err e -> P e) -> forall l e, mapM f l = Err e -> P e.
Proof.
  intros Hf. induction l as [|x t IH]; intros e; cbn [mapM]; [discriminate|].
  destruct (f x) eqn:F; cbn [bind].
  - destruct (mapM f t) eqn:M; cbn [bind]; [discriminate|]. intro H; inversion H; subst. apply IH. reflexivity.
  - intro H; inversion H; subst. eapply Hf. exact F.
Qed.

Lemma rd_read_err n r e : rd_read n r = Err e -> e = EValue.
Proof. unfold rd_read. destruct (n <=? blen (rest r)); [discriminate|intro H; inversion H; reflexivity]. Qed.

Lemma rd_read_int_err n r e : rd_read_int n r = Err e -> e = EValue.
Proof.
  unfold rd_read_int. destruct (rd_read n r) as [[b r']|] eqn:R; cbn [bind]; [discriminate|].
  intro H; inversion H; subst. eapply rd_read_err. exact R.
Qed.

(* ---------------------------------------------------------------------------- *)
(* exec_bf2instrs: every error is one emit_bf3comp catches, or Bf3FileFormatError  *)

Definition exec_errs (e : err) : Prop := caught_emit e = true \/ e = EBf3.

Ltac ee_value := left; reflexivity.

Lemma exec_crc_err i d e : exec_crc i d = Err e -> exec_errs e.
Proof.
  unfold exec_crc. destruct (dget str_eqb s_CRC i) as [p|]; [|discriminate].
  destruct (sliceable p) as [s|] eqn:S; cbn [bind].
  - destruct (py_int 16 (dropN 2 s)) as [v|] eqn:P; cbn [bind].
    + destruct (to_bytes_Z 4 v) eqn:T; cbn [bind]; [discriminate|].
      intro H; inversion H; subst. apply to_bytes_Z_err in T. subst. left. reflexivity.
    + intro H; inversion H; subst. apply py_int_err in P. subst. left. reflexivity.
  - intro H; inversion H; subst. apply sliceable_err in S. subst. left. reflexivity.
Qed.

Lemma exec_select_err i d e : exec_select i d = Err e -> exec_errs e.
Proof.
  unfold exec_select. destruct (dget str_eqb s_SELECT i) as [p|]; [|discriminate].
  destruct (sub_key p s_FILTER) as [fs|] eqn:S; cbn [bind];
    [|intro H; inversion H; subst; apply sub_key_err in S as [->| ->]; left; reflexivity].
  destruct (hex2bin fs) as [f|] eqn:Hx; cbn [bind];
    [|intro H; inversion H; subst; apply hex2bin_err in Hx; subst; left; reflexivity].
  destruct (desc_get BF3TAG_TYPE _) as [tyb|] eqn:T; cbn [bind];
    [|intro H; inversion H; subst; apply desc_get_err in T; subst; left; reflexivity].
  destruct (bytes_eqb tyb [n2b BF3TYPE_PERIPHERAL]); [|discriminate].
  destruct (dget str_eqb (hex_upper_sp f) PFID2FILTER_TO_HWCID_SPECIAL_CASES) as [h|].
  - destruct (to_bytes 2 h) eqn:TB; cbn [bind]; [discriminate|].
    intro H; inversion H; subst. apply to_bytes_err in TB. subst. left. reflexivity.
  - destruct (starts_with s_0101 (hex_upper_sp f)); cbn [bind]; [discriminate|].
    intro H; inversion H; subst. right. reflexivity.
Qed.

Lemma exec_check_err i d e : exec_check_fwver i d = Err e -> exec_errs e.
Proof.
  unfold exec_check_fwver. destruct (dget str_eqb s_CHECK_FWVER i) as [p|]; [|discriminate].
  destruct (sub_key p s_VERSIONDESC) as [vd|] eqn:S; cbn [bind];
    [|intro H; inversion H; subst; apply sub_key_err in S as [->| ->]; left; reflexivity].
  destruct (str_eqb vd s_star); [discriminate|].
  destruct (hex2bin vd) as [v|] eqn:Hx; cbn [bind];
    [|intro H; inversion H; subst; apply hex2bin_err in Hx; subst; left; reflexivity].
  destruct (nth_error v 2); [discriminate|]. intro H; inversion H; subst. left. reflexivity.
Qed.

Lemma exec_firmware_err i d c e : exec_firmware i d c = Err e -> exec_errs e.
Proof.
  unfold exec_firmware. destruct (dget str_eqb s_Firmware i) as [p|]; [|discriminate].
  destruct (sliceable p) as [s|] eqn:S; cbn [bind];
    [|intro H; inversion H; subst; apply sliceable_err in S; subst; left; reflexivity].
  destruct (starts_with s_Dminus (slice 15 22 s)); [discriminate|].
  destruct (py_int 10 (slice 0 4 s)) as [idv|] eqn:P; cbn [bind];
    [|intro H; inversion H; subst; apply py_int_err in P; subst; left; reflexivity].
  destruct (to_bytes_Z 2 idv) as [idb|] eqn:T; cbn [bind];
    [|intro H; inversion H; subst; apply to_bytes_Z_err in T; subst; left; reflexivity].
  destruct (mapM (py_int 10) (split_on 46 (slice 15 22 s))) as [vs|] eqn:M1; cbn [bind];
    [|intro H; inversion H; subst;
      apply (mapM_err (py_int 10) (fun e => e = EValue)) in M1; [subst; left; reflexivity|apply py_int_err]].
  destruct (mapM byte_of_Z vs) as [vb|] eqn:M2; cbn [bind];
    [|intro H; inversion H; subst;
      apply (mapM_err byte_of_Z (fun e => e = EValue)) in M2; [subst; left; reflexivity|apply byte_of_Z_err]].
  destruct (desc_get BF3TAG_TYPE d) as [tyb|] eqn:Ty; cbn [bind];
    [|intro H; inversion H; subst; apply desc_get_err in Ty; subst; left; reflexivity].
  destruct (bytes_eqb tyb [n2b BF3TYPE_LOADER] || bytes_eqb tyb [n2b BF3TYPE_MAIN]); discriminate.
Qed.

Lemma exec_creator_err i c e : exec_creator i c = Err e -> exec_errs e.
Proof.
  unfold exec_creator. destruct (dget str_eqb s_Creator i) as [[s|dd]|]; try discriminate.
  intro H; inversion H; subst. left. reflexivity.
Qed.

Lemma exec_select_if_err i d e : exec_select_if i d = Err e -> exec_errs e.
Proof.
  unfold exec_select_if. destruct (dget str_eqb s_SELECT_IF i) as [p|]; [|discriminate].
  destruct (sub_key p s_PROTOCOL) as [proto|] eqn:S; cbn [bind];
    [|intro H; inversion H; subst; apply sub_key_err in S as [->| ->]; left; reflexivity].
  destruct (str_eqb proto s_star); [discriminate|].
  destruct (dget str_eqb proto BF2_INTERFACES) as [n|]; [|discriminate].
  destruct (to_bytes 1 n) eqn:T; cbn [bind]; [discriminate|].
  intro H; inversion H; subst. apply to_bytes_err in T. subst. left. reflexivity.
Qed.

Lemma exec_err i d c e : exec i d c = Err e -> exec_errs e.
Proof.
  unfold exec. destruct (exec_reboot i d) as [i1 d1].
  destruct (exec_crc i1 d1) as [[i2 d2]|] eqn:E2; cbn [bind];
    [|intro H; inversion H; subst; eapply exec_crc_err; exact E2].
  destruct (exec_select i2 d2) as [d3|] eqn:E3; cbn [bind];
    [|intro H; inversion H; subst; eapply exec_select_err; exact E3].
  destruct (exec_check_fwver i2 d3) as [[i4 d4]|] eqn:E4; cbn [bind];
    [|intro H; inversion H; subst; eapply exec_check_err; exact E4].
  destruct (exec_firmware i4 d4 c) as [[d5 c5]|] eqn:E5; cbn [bind];
    [|intro H; inversion H; subst; eapply exec_firmware_err; exact E5].
  destruct (exec_creator i4 c5) as [c6|] eqn:E6; cbn [bind];
    [|intro H; inversion H; subst; eapply exec_creator_err; exact E6].
  destruct (exec_select_if i4 d5) as [od|] eqn:E7; cbn [bind]; [discriminate|].
  intro H; inversion H; subst. eapply exec_select_if_err. exact E7.
Qed.

(* ---------------------------------------------------------------------------- *)
(* bf2_convert_payload                                                           *)

Lemma line_fields_err l e : line_fields l = Err e -> e = EValue.
Proof.
  unfold line_fields.
  destruct (rd_read_int 1 (new_reader (l_tag l))) as [[n r1]|] eqn:R1; cbn [bind];
    [|intro H; inversion H; subst; eapply rd_read_int_err; exact R1].
  destruct (rd_read_int 2 r1) as [[o r2]|] eqn:R2; cbn [bind];
    [|intro H; inversion H; subst; eapply rd_read_int_err; exact R2].
  destruct (Z.of_N n - 2 <? 0)%Z; cbn [bind]; [discriminate|].
  destruct (rd_read (Z.to_N (Z.of_N n - 2)) r2) as [[p r3]|] eqn:R3; cbn [bind]; [discriminate|].
  intro H; inversion H; subst. eapply rd_read_err. exact R3.
Qed.

Lemma unpack_step_err t s l e : unpack_step t s l = Err e -> e = EValue.
Proof.
  unfold unpack_step. destruct (line_fields l) as [[[plen o] payload]|] eqn:L; cbn [bind].
  - destruct (u_cur s) as [[a chunks]|]; [destruct (negb _)|]; discriminate.
  - intro H; inversion H; subst. eapply line_fields_err. exact L.
Qed.

Lemma foldM_unpack_err t : forall ls s e, foldM (unpack_step t) ls s = Err e -> e = EValue.
Proof.
  induction ls as [|l r IH]; intros s e; cbn [foldM]; [discriminate|].
  destruct (unpack_step t s l) as [s1|] eqn:U; cbn [bind].
  - apply IH.
  - intro H; inversion H; subst. eapply unpack_step_err. exact U.
Qed.

Lemma unpack_err ls e : ls <> [] -> unpack ls = Err e -> e = EValue.
Proof.
  destruct ls as [|l0 r]; [congruence|]. intros _. unfold unpack.
  destruct (foldM _ _ _) eqn:F; cbn [bind]; [discriminate|].
  intro H; inversion H; subst. eapply foldM_unpack_err. exact F.
Qed.

Lemma convert_err ls fmt e : ls <> [] ->
  fmt = BF3FMT_BLOB \/ fmt = BF3FMT_BF2COMPATIBLE ->
  convert ls fmt = Err e -> e = EValue \/ e = EBf3.
Proof.
  intros Hne [-> | ->]; unfold convert.
  - change (BF3FMT_BLOB =? BF3FMT_BF2COMPATIBLE) with false.
    change (BF3FMT_BLOB =? BF3FMT_BLOB) with true. cbv iota.
    destruct (unpack ls) as [blocks|] eqn:U; cbn [bind].
    + intro H. right. eapply Bf2UnpackProofs.blob_err_kind. exact H.
    + intro H; inversion H; subst. left. eapply unpack_err; eassumption.
  - change (BF3FMT_BF2COMPATIBLE =? BF3FMT_BF2COMPATIBLE) with true. cbv iota. discriminate.
Qed.

(* ---------------------------------------------------------------------------- *)
(* facts about the generated tables                                              *)

Definition is_some {A} (o : option A) : bool := match o with Some _ => true | None => false end.

Definition intf_ok (x : N) : bool := (x <? 256) && is_some (rev_lookup x BF3INTF_names).

Definition entry_ok (p : N * (option N * option N * option N * option N)) : bool :=
  match snd p with
  | (None, _, _, _) => true
  | (Some ty, hw, Some fmt, intf) =>
    (ty <? 3) && ((fmt =? BF3FMT_BLOB) || (fmt =? BF3FMT_BF2COMPATIBLE))
    && match hw with Some h => h <? 65536 | None => negb (ty =? BF3TYPE_PERIPHERAL) end
    && match intf with Some x => intf_ok x | None => true end
  | _ => false
  end.

Lemma table_entries_ok : forallb entry_ok BF2_TAGTYPE_MAP = true.
Proof. vm_compute. reflexivity. Qed.

Lemma interfaces_ok : forallb (fun p => intf_ok (snd p)) BF2_INTERFACES = true.
Proof. vm_compute. reflexivity. Qed.

Lemma dget_str_In {V} k (v : V) d : dget str_eqb k d = Some v -> exists k', In (k', v) d.
Proof.
  induction d as [|[k' v'] t IH]; cbn [dget]; [discriminate|].
  destruct (str_eqb k k').
  - intro H; inversion H; subst. exists k'. left. reflexivity.
  - intro H. destruct (IH H) as [k2 Hk]. exists k2. right. exact Hk.
Qed.

Lemma to_bytes_small n v : v < 256 ^ N.of_nat n -> to_bytes n v = Ok (be n v).
Proof. intro H. unfold to_bytes. apply N.ltb_lt in H. rewrite H. reflexivity. Qed.

(* ---------------------------------------------------------------------------- *)
(* emit_bf3comp                                                                  *)

Lemma emit_err data i c e : emit data i c = Err e -> is_format_or_value e = true.
Proof.
  unfold emit. destruct data as [|l0 rest]; [intro H; inversion H; reflexivity|].
  destruct (dget N.eqb (l_type l0) BF2_TAGTYPE_MAP) as [[[[oty hw] ofmt] intf]|] eqn:M;
    [|intro H; inversion H; reflexivity].
  pose proof (dget_In _ _ _ M) as Hin.
  pose proof table_entries_ok as T. rewrite forallb_forall in T. specialize (T _ Hin).
  unfold entry_ok in T. cbn [snd] in T.
  destruct oty as [ty|]; [|discriminate].
  destruct ofmt as [fmt|]; [|discriminate].
  apply andb_true_iff in T as [T Ti]. apply andb_true_iff in T as [T Th]. apply andb_true_iff in T as [Tt Tf].
  apply N.ltb_lt in Tt.
  assert (Ff : fmt = BF3FMT_BLOB \/ fmt = BF3FMT_BF2COMPATIBLE).
  { apply orb_true_iff in Tf as [F|F]; apply N.eqb_eq in F; [left|right]; exact F. }
  rewrite (to_bytes_small 1 fmt) by (destruct Ff as [-> | ->]; reflexivity).
  rewrite (to_bytes_small 1 ty) by (change (256 ^ N.of_nat 1) with 256; lia).
  cbn [bind].
  assert (G : forall d2,
    match exec i d2 c with
    | Ok (i', c', Some d) => let* content := convert (l0 :: rest) fmt in
                             Ok (i', c', Some (mkComp d content))
    | Ok (i', c', None) => Ok (i', c', None)
    | Err e => if caught_emit e then Err EBf3 else Err e
    end = Err e -> is_format_or_value e = true).
  { intro d2. destruct (exec i d2 c) as [[[i' c'] [d|]]|x] eqn:X.
    - destruct (convert (l0 :: rest) fmt) eqn:Cv; cbn [bind]; [discriminate|].
      intro H; inversion H; subst.
      assert (Hne : l0 :: rest <> []) by discriminate.
      destruct (convert_err _ _ _ Hne Ff Cv) as [-> | ->]; reflexivity.
    - discriminate.
    - apply exec_err in X. destruct X as [X | ->].
      + rewrite X. intro H; inversion H; reflexivity.
      + cbn. intro H; inversion H; reflexivity. }
  destruct hw as [h|].
  - apply N.ltb_lt in Th. rewrite (to_bytes_small 2 h) by exact Th. cbn [bind].
    destruct intf as [x|].
    + unfold intf_ok in Ti. apply andb_true_iff in Ti as [Tx _]. apply N.ltb_lt in Tx.
      rewrite (to_bytes_small 1 x) by exact Tx. cbn [bind]. apply G.
    + cbn [bind]. apply G.
  - cbn [bind]. destruct intf as [x|].
    + unfold intf_ok in Ti. apply andb_true_iff in Ti as [Tx _]. apply N.ltb_lt in Tx.
      rewrite (to_bytes_small 1 x) by exact Tx. cbn [bind]. apply G.
    + apply G.
Qed.
