(* C20 (part 1) - soundness of the explicit-state exploration of Model/Sched.v:
   a table that contains the initial state and is closed under `succs` contains
   every reachable state; the backward closure `can_reach` only contains states
   from which a target state is reachable.  The exploration itself is not
   verified (it only proposes the table); what is checked is closure. *)
From Coq Require Import List Bool Arith Lia PArith FMapPositive.
From Bec2 Require Import Gen.RwLock Model.Sched.
Import ListNotations.

(* ---- decidable equality ---------------------------------------------------- *)
Lemma list_eqb_eq {A} (e : A -> A -> bool) :
  (forall x y, e x y = true -> x = y) -> forall a b, list_eqb e a b = true -> a = b.
Proof.
  intros He a. induction a as [|x a IH]; intros [|y b] H; simpl in H; try discriminate; auto.
  apply andb_true_iff in H as [H1 H2]. f_equal; auto.
Qed.

Lemma list_eqb_refl {A} (e : A -> A -> bool) :
  (forall x, e x x = true) -> forall a, list_eqb e a a = true.
Proof. intros He a. induction a; simpl; auto. rewrite He, IHa. reflexivity. Qed.

Lemma role_eqb_eq a b : role_eqb a b = true -> a = b.
Proof. destruct a, b; simpl; congruence. Qed.

Lemma thread_eqb_eq a b : thread_eqb a b = true -> a = b.
Proof.
  destruct a, b. unfold thread_eqb. simpl. intro H.
  apply andb_true_iff in H as [H H3]. apply andb_true_iff in H as [H1 H2].
  apply role_eqb_eq in H1. apply Nat.eqb_eq in H2, H3. subst. reflexivity.
Qed.

Lemma thread_eqb_refl a : thread_eqb a a = true.
Proof. destruct a as [[] pc tmp]; unfold thread_eqb; simpl; rewrite !Nat.eqb_refl; reflexivity. Qed.

Lemma lockst_eqb_eq a b : lockst_eqb a b = true -> a = b.
Proof.
  destruct a, b. unfold lockst_eqb. simpl. intro H.
  repeat (apply andb_true_iff in H as [?H H]).
  repeat match goal with X : Bool.eqb _ _ = true |- _ => apply eqb_prop in X end.
  subst. reflexivity.
Qed.

Lemma lockst_eqb_refl a : lockst_eqb a a = true.
Proof. unfold lockst_eqb. apply forallb_forall. intros l _. apply eqb_reflx. Qed.

Lemma ctrst_eqb_eq a b : ctrst_eqb a b = true -> a = b.
Proof.
  destruct a, b. unfold ctrst_eqb. simpl. intro H.
  repeat (apply andb_true_iff in H as [?H H]).
  repeat match goal with X : (_ =? _) = true |- _ => apply Nat.eqb_eq in X end.
  subst. reflexivity.
Qed.

Lemma ctrst_eqb_refl a : ctrst_eqb a a = true.
Proof. unfold ctrst_eqb. apply forallb_forall. intros l _. apply Nat.eqb_refl. Qed.

Lemma state_eqb_eq a b : state_eqb a b = true -> a = b.
Proof.
  destruct a, b. unfold state_eqb. simpl. intro H.
  apply andb_true_iff in H as [H H3]. apply andb_true_iff in H as [H1 H2].
  apply lockst_eqb_eq in H1. apply ctrst_eqb_eq in H2.
  apply (list_eqb_eq _ thread_eqb_eq) in H3. subst. reflexivity.
Qed.

Lemma state_eqb_refl a : state_eqb a a = true.
Proof.
  unfold state_eqb. rewrite lockst_eqb_refl, ctrst_eqb_refl.
  rewrite (list_eqb_refl _ thread_eqb_refl). reflexivity.
Qed.

(* ---- the hash table -------------------------------------------------------- *)
Lemma mem_In s T : mem s T = true -> In s (all_states T).
Proof.
  unfold mem, bucket, all_states. intro H.
  destruct (PositiveMap.find (hash s) T) as [b|] eqn:E; [|discriminate].
  apply existsb_exists in H as [s' [Hin Heq]]. apply state_eqb_eq in Heq. subst s'.
  apply in_flat_map. exists (hash s, b). split; [|exact Hin].
  apply PositiveMap.elements_correct. exact E.
Qed.

Lemma mem_ins s s' T : mem s (ins s' T) = true <-> s = s' \/ mem s T = true.
Proof.
  unfold mem, ins, bucket.
  destruct (Pos.eq_dec (hash s) (hash s')) as [E|E].
  - rewrite E, PositiveMap.gss. simpl. rewrite orb_true_iff. split.
    + intros [H|H]; [left; apply state_eqb_eq; exact H | right; exact H].
    + intros [->|H]; [left; apply state_eqb_refl | right; exact H].
  - rewrite PositiveMap.gso by exact E. split; [auto|].
    intros [->|H]; [congruence | exact H].
Qed.

Lemma mem_empty s : mem s (PositiveMap.empty _) = false.
Proof. unfold mem, bucket. rewrite PositiveMap.gempty. reflexivity. Qed.

(* ---- successors ------------------------------------------------------------ *)
Lemma succs_complete loop s i s' : step_thread loop s i = Some s' -> In s' (succs loop s).
Proof.
  intro H. unfold succs. apply in_flat_map. exists i. split.
  - apply in_seq. split; [lia|]. simpl.
    unfold step_thread in H. destruct (nth_error (s_th s) i) eqn:E; [|discriminate].
    apply nth_error_Some. congruence.
  - rewrite H. left. reflexivity.
Qed.

Lemma succs_sound loop s s' : In s' (succs loop s) -> exists i, step_thread loop s i = Some s'.
Proof.
  unfold succs. intro H. apply in_flat_map in H as [i [_ H]].
  destruct (step_thread loop s i) eqn:E; [|contradiction].
  destruct H as [->|[]]. exists i. exact E.
Qed.

(* ---- closed tables contain all reachable states ----------------------------- *)
Lemma closed_contains_reachable loop T s0 :
  mem s0 T = true -> closed loop T = true ->
  forall s, reach_exec loop s0 s -> mem s T = true.
Proof.
  intros H0 Hc s Hr. induction Hr as [|s i s' _ IH Hs]; [exact H0|].
  unfold closed in Hc. rewrite forallb_forall in Hc.
  specialize (Hc s (mem_In _ _ IH)). rewrite forallb_forall in Hc.
  apply Hc. eapply succs_complete. exact Hs.
Qed.

Lemma reach_exec_trans loop a b c : reach_exec loop a b -> reach_exec loop b c -> reach_exec loop a c.
Proof. intros H1 H2. induction H2; [exact H1|]. eapply rx_step; eauto. Qed.

(* ---- backward closure ------------------------------------------------------- *)
Definition EF (loop : bool) (target : state -> bool) (s : state) : Prop :=
  exists s', reach_exec loop s s' /\ target s' = true.

Section Backward.
  Variable loop : bool.
  Variable target : state -> bool.

  Definition sound (G : table) : Prop := forall s, mem s G = true -> EF loop target s.
  Definition wf (e : state * list state) : Prop := snd e = succs loop (fst e).

  Lemma EF_step s s' : In s' (succs loop s) -> EF loop target s' -> EF loop target s.
  Proof.
    intros Hin [s'' [Hr Ht]]. apply succs_sound in Hin as [i Hi].
    exists s''. split; [|exact Ht].
    eapply reach_exec_trans; [|exact Hr]. eapply rx_step; [apply rx_refl|exact Hi].
  Qed.

  Lemma sound_ins s G : sound G -> EF loop target s -> sound (ins s G).
  Proof. intros HG Hs x Hx. apply mem_ins in Hx as [->|Hx]; auto. Qed.

  (* one fold of `grow` *)
  Lemma grow_fold l : forall rest G,
    sound G -> Forall wf l -> Forall wf rest ->
    let r := fold_left (fun '(rest, G) e =>
               if existsb (fun s' => mem s' G) (snd e) then (rest, ins (fst e) G) else (e :: rest, G))
               l (rest, G) in
    sound (snd r) /\ Forall wf (fst r) /\
    (forall e, (In e l \/ In e rest \/ mem (fst e) G = true) -> In e (fst r) \/ mem (fst e) (snd r) = true).
  Proof.
    induction l as [|e l IH]; intros rest G HG Hl Hrest; cbn [fold_left].
    - cbn. repeat split; auto. intros e [[]|[H|H]]; auto.
    - inversion Hl as [|? ? Hwe Hl']; subst.
      destruct (existsb (fun s' => mem s' G) (snd e)) eqn:E.
      + apply existsb_exists in E as [s' [Hin Hm]].
        assert (HEF : EF loop target (fst e)).
        { eapply EF_step; [|apply HG; exact Hm]. rewrite <- Hwe. exact Hin. }
        destruct (IH rest (ins (fst e) G) (sound_ins _ _ HG HEF) Hl' Hrest) as [A [B C]].
        split; [exact A|]. split; [exact B|].
        intros e' [[<-|H]|[H|H]]; apply C.
        * right. right. apply mem_ins. left. reflexivity.
        * left. exact H.
        * right. left. exact H.
        * right. right. apply mem_ins. right. exact H.
      + destruct (IH (e :: rest) G HG Hl' (Forall_cons _ Hwe Hrest)) as [A [B C]].
        split; [exact A|]. split; [exact B|].
        intros e' [[<-|H]|[H|H]]; apply C.
        * right. left. left. reflexivity.
        * left. exact H.
        * right. left. right. exact H.
        * right. right. exact H.
  Qed.

  Definition binv (U : list (state * list state)) (gr : list (state * list state) * table) : Prop :=
    sound (snd gr) /\ Forall wf (fst gr) /\
    (forall e, In e U -> In e (fst gr) \/ mem (fst e) (snd gr) = true).

  Lemma grow_binv U gr : binv U gr -> binv U (grow gr).
  Proof.
    intros [A [B C]]. unfold grow.
    destruct (grow_fold (fst gr) [] (snd gr) A B (Forall_nil _)) as [A' [B' C']].
    split; [exact A'|]. split; [exact B'|].
    intros e He. apply C'. destruct (C e He) as [H|H]; auto.
  Qed.

  Lemma iter_pow2_inv {X} (P : X -> Prop) (f : X -> X) :
    (forall x, P x -> P (f x)) -> forall k x, P x -> P (iter_pow2 k f x).
  Proof. intros Hf k. induction k; intros x Hx; cbn; auto. Qed.

  Lemma init_fold l : forall rest G,
    sound G -> Forall wf l -> Forall wf rest ->
    let r := fold_left (fun '(rest, G) e => if target (fst e) then (rest, ins (fst e) G) else (e :: rest, G))
               l (rest, G) in
    sound (snd r) /\ Forall wf (fst r) /\
    (forall e, (In e l \/ In e rest \/ mem (fst e) G = true) -> In e (fst r) \/ mem (fst e) (snd r) = true).
  Proof.
    induction l as [|e l IH]; intros rest G HG Hl Hrest; cbn [fold_left].
    - cbn. repeat split; auto. intros e [[]|[H|H]]; auto.
    - inversion Hl as [|? ? Hwe Hl']; subst.
      destruct (target (fst e)) eqn:E.
      + assert (HEF : EF loop target (fst e)) by (exists (fst e); split; [apply rx_refl|exact E]).
        destruct (IH rest (ins (fst e) G) (sound_ins _ _ HG HEF) Hl' Hrest) as [A [B C]].
        split; [exact A|]. split; [exact B|].
        intros e' [[<-|H]|[H|H]]; apply C.
        * right. right. apply mem_ins. left. reflexivity.
        * left. exact H.
        * right. left. exact H.
        * right. right. apply mem_ins. right. exact H.
      + destruct (IH (e :: rest) G HG Hl' (Forall_cons _ Hwe Hrest)) as [A [B C]].
        split; [exact A|]. split; [exact B|].
        intros e' [[<-|H]|[H|H]]; apply C.
        * right. left. left. reflexivity.
        * left. exact H.
        * right. left. right. exact H.
        * right. right. exact H.
  Qed.

  Lemma graph_wf all : Forall wf (graph loop all).
  Proof. unfold graph. apply Forall_forall. intros e He. apply in_map_iff in He as [s [<- _]]. reflexivity. Qed.

  Lemma can_reach_sound k all :
    fst (can_reach loop k target all) = [] -> forall s, In s all -> EF loop target s.
  Proof.
    intros Hnil s Hs. unfold can_reach in Hnil.
    set (g0 := fold_left _ (graph loop all) _) in Hnil.
    assert (H0 : binv (graph loop all) g0).
    { subst g0.
      assert (S0 : sound (PositiveMap.empty (list state))) by (intros x Hx; rewrite mem_empty in Hx; discriminate).
      destruct (init_fold (graph loop all) [] _ S0 (graph_wf all) (Forall_nil _)) as [A [B C]].
      split; [exact A|]. split; [exact B|]. intros e He. apply C. left. exact He. }
    pose proof (iter_pow2_inv (binv (graph loop all)) grow (grow_binv _) k g0 H0) as [A [_ C]].
    destruct (C (s, succs loop s)) as [H|H].
    - unfold graph. apply in_map_iff. exists s. auto.
    - rewrite Hnil in H. contradiction.
    - apply A. exact H.
  Qed.
End Backward.

(* ---- the two checkers -------------------------------------------------------- *)
Lemma has_enabled_step loop s : has_enabled loop s = true -> exists i s', step_thread loop s i = Some s'.
Proof.
  unfold has_enabled. destruct (succs loop s) as [|s' l] eqn:E; [discriminate|]. intros _.
  destruct (succs_sound loop s s') as [i Hi]; [rewrite E; left; reflexivity|]. eauto.
Qed.

Lemma check_loop_sound k kr roles : check_loop k kr roles = true ->
  forall s, reach_exec true (init roles) s ->
    (exists i s', step_thread true s i = Some s') /\
    no_fault true s = true /\ mutex_ok s = true /\
    (forall i, i < length roles -> EF true (thread_in_cs i) s).
Proof.
  unfold check_loop. intros H s Hr.
  destruct (mem (init roles) _ && closed true _) eqn:H12; [|discriminate].
  apply andb_true_iff in H12 as [H1 H2].
  destruct (forallb _ (all_states _)) eqn:H3 in H; [|discriminate].
  pose proof (mem_In _ _ (closed_contains_reachable _ _ _ H1 H2 s Hr)) as Hin.
  rewrite forallb_forall in H3. specialize (H3 s Hin).
  repeat (apply andb_true_iff in H3 as [H3 ?H]).
  split; [apply has_enabled_step; exact H3|]. split; [assumption|]. split; [assumption|].
  intros i Hi. rewrite forallb_forall in H.
  assert (Hi' : In i (seq 0 (length roles))) by (apply in_seq; lia).
  specialize (H i Hi').
  destruct (fst (can_reach true kr (thread_in_cs i) _)) eqn:E; [|discriminate].
  eapply can_reach_sound; eauto.
Qed.

Lemma check_once_sound k kr roles : check_once k kr roles = true ->
  forall s, reach_exec false (init roles) s ->
    (all_finished s = true \/ exists i s', step_thread false s i = Some s') /\
    no_fault false s = true /\ mutex_ok s = true /\
    EF false all_finished s.
Proof.
  unfold check_once. intros H s Hr.
  destruct (mem (init roles) _ && closed false _) eqn:H12; [|discriminate].
  apply andb_true_iff in H12 as [H1 H2].
  destruct (forallb _ (all_states _)) eqn:H3 in H; [|discriminate].
  pose proof (mem_In _ _ (closed_contains_reachable _ _ _ H1 H2 s Hr)) as Hin.
  rewrite forallb_forall in H3. specialize (H3 s Hin).
  repeat (apply andb_true_iff in H3 as [H3 ?H]).
  split.
  { apply orb_true_iff in H3 as [H3|H3]; [left; exact H3 | right; apply has_enabled_step; exact H3]. }
  split; [assumption|]. split; [assumption|].
  destruct (fst (can_reach false kr all_finished _)) eqn:E; [|discriminate].
  eapply can_reach_sound; eauto.
Qed.
