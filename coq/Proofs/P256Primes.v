(* Primality of the two NIST P-256 numbers of Model/P256Plugin.v, from Pocklington certificates.

   p256_p and p256_n are the values GENERATED from /repo (Gen/Curves.v: c_p NIST256p, c_n NIST256p);
   each is looked up in the committed table Proofs/PrimeCertsP256.v (two numbers with their
   recursive sub-certificates), so a constant changed in /repo finds no certificate and this file
   stops compiling.  A small cone: neither the other certificate files nor the key codecs. *)
From Coq Require Import List Bool ZArith Znumtheory.
From Bec2 Require Import Gen.Curves Model.P256Plugin Proofs.Pocklington Proofs.PrimeCertsP256.
Import ListNotations.
Open Scope Z_scope.

Lemma p256_lookup : has_cert prime_certs_p256 p256_p && has_cert prime_certs_p256 p256_n = true.
Proof. vm_compute. reflexivity. Qed.

Theorem p256_p_prime : prime p256_p.
Proof.
  pose proof p256_lookup as H. apply andb_true_iff in H as [H _].
  exact (has_cert_sound prime_certs_p256 p256_p prime_certs_p256_prime H).
Qed.

Theorem p256_n_prime : prime p256_n.
Proof.
  pose proof p256_lookup as H. apply andb_true_iff in H as [_ H].
  exact (has_cert_sound prime_certs_p256 p256_n prime_certs_p256_prime H).
Qed.

Print Assumptions p256_p_prime.
Print Assumptions p256_n_prime.
