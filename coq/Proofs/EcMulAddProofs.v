(* C17 - PointJacobi.mul_add (hand model pj_mul_add over the generated formulas):
   k1*Q1 + k2*Q2 in the abstract group. *)
From Coq Require Import List Bool ZArith Lia.
From Bec2 Require Import Base.Result Base.Modp Gen.EcFormulas Model.Ec
  Proofs.EcFormulaProofs Proofs.EcNafProofs Proofs.EcMulProofs.
Import ListNotations.
Open Scope Z_scope.

Section MulAdd.
Variables p a : Z.
Variable inG : pt -> Prop.
Variable gadd : pt -> pt -> pt.
Variable gneg : pt -> pt.
Hypothesis GH : ec_group p a inG gadd gneg.
Notation zmul := (zmul gadd gneg).

Let Hinf : inG None := g_inf _ _ _ _ _ GH.
Let Hcl := g_closed _ _ _ _ _ GH.
Let Hncl := g_neg_closed _ _ _ _ _ GH.
Let Hidl := g_id_l _ _ _ _ _ GH.
Let Hidr := g_id_r _ _ _ _ _ GH.
Let Hassoc := g_assoc _ _ _ _ _ GH.
Let Hcomm := g_comm _ _ _ _ _ GH.
Let Zcl := zmul_closed p a inG gadd gneg GH.
Let Zadd := zmul_add p a inG gadd gneg GH.
Let Addc := add_correct p a inG gadd gneg GH.
Let Negc := neg_correct p a inG gadd gneg GH.
Let Dblc := double_correct p a inG gadd gneg GH.
Let Wrapc := wrap_correct p a inG gadd gneg GH.
Let IsInf := jrepr_is_inf p a inG gadd gneg GH.

Local Hint Resolve Hinf Hcl Hncl Zcl : grp.

Lemma interchange A B C D : inG A -> inG B -> inG C -> inG D ->
  gadd (gadd A B) (gadd C D) = gadd (gadd A C) (gadd B D).
Proof.
  intros HA HB HC HD.
  rewrite Hassoc by auto with grp. rewrite <- (Hassoc B) by auto with grp.
  rewrite (Hcomm B C) by auto with grp. rewrite (Hassoc C) by auto with grp.
  rewrite <- Hassoc by auto with grp. reflexivity.
Qed.

(* PointJacobi.__add__ on the optional results *)
Lemma add_pt_correct r1 r2 A B : inG A -> inG B ->
  jrepr_opt p r1 A -> jrepr_opt p r2 B -> jrepr_opt p (pj_add_pt p a r1 r2) (gadd A B).
Proof.
  intros HA HB H1 H2. unfold pj_add_pt.
  destruct r1 as [[[X1 Y1] Z1]|].
  - unfold jrepr_opt in H1. destruct (is_inf (X1, Y1, Z1)) eqn:E1.
    + apply (IsInf _ _ HA H1) in E1. subst A. rewrite Hidl. exact H2.
    + destruct r2 as [[[X2 Y2] Z2]|].
      * unfold jrepr_opt in H2. destruct (is_inf (X2, Y2, Z2)) eqn:E2.
        -- apply (IsInf _ _ HB H2) in E2. subst B. rewrite Hidr. exact H1.
        -- apply Wrapc; [auto with grp|]. apply Addc; assumption.
      * unfold jrepr_opt in H2. subst B. rewrite Hidr. exact H1.
  - unfold jrepr_opt in H1. subst A. rewrite Hidl. destruct r2 as [J2|].
    + unfold jrepr_opt in H2. destruct (is_inf J2) eqn:E2.
      * apply (IsInf _ _ HB H2) in E2. subst B. reflexivity.
      * exact H2.
    + exact H2.
Qed.

Section Loop.
Variables X1 Y1 Z1 X2 Y2 Z2 : Z.
Variables Q1 Q2 : pt.
Hypothesis G1 : inG Q1.
Hypothesis G2 : inG Q2.
Hypothesis J1 : jrepr p (X1, Y1, Z1) Q1.
Hypothesis J2 : jrepr p (X2, Y2, Z2) Q2.

Let mAmB := pj_add X1 (- Y1) Z1 X2 (- Y2) Z2 p a.
Let pAmB := pj_add X1 Y1 Z1 X2 (- Y2) Z2 p a.
Let mApB := pj_add X1 (- Y1) Z1 X2 Y2 Z2 p a.
Let pApB := pj_add X1 Y1 Z1 X2 Y2 Z2 p a.

Lemma zm1 Q : inG Q -> zmul (-1) Q = gneg Q.
Proof. apply (zmul_m1 p a inG gadd gneg GH). Qed.

Lemma z1 Q : zmul 1 Q = Q.
Proof. apply (zmul_1 p a inG gadd gneg GH). Qed.

Lemma N1 : jrepr p (X1, - Y1, Z1) (zmul (-1) Q1).
Proof. rewrite zm1 by assumption. apply Negc; assumption. Qed.
Lemma N2 : jrepr p (X2, - Y2, Z2) (zmul (-1) Q2).
Proof. rewrite zm1 by assumption. apply Negc; assumption. Qed.
Lemma P1 : jrepr p (X1, Y1, Z1) (zmul 1 Q1).
Proof. rewrite z1. exact J1. Qed.
Lemma P2 : jrepr p (X2, Y2, Z2) (zmul 1 Q2).
Proof. rewrite z1. exact J2. Qed.

Lemma step_alg s1 s2 A B :
  gadd (gadd (gadd (zmul s1 Q1) (zmul s2 Q2)) (gadd (zmul s1 Q1) (zmul s2 Q2)))
       (gadd (zmul A Q1) (zmul B Q2)) =
  gadd (zmul (2 * s1 + A) Q1) (zmul (2 * s2 + B) Q2).
Proof.
  rewrite (interchange (zmul s1 Q1) (zmul s2 Q2)) by auto with grp.
  rewrite <- !Zadd by assumption.
  rewrite interchange by auto with grp.
  rewrite <- !Zadd by assumption.
  f_equal; f_equal; lia.
Qed.

Lemma mul_add_step_correct acc s1 s2 A B :
  digit_ok A -> digit_ok B ->
  jrepr p acc (gadd (zmul s1 Q1) (zmul s2 Q2)) ->
  jrepr p (mul_add_step p a (X1, Y1, Z1) (X2, Y2, Z2) mAmB pAmB mApB pApB acc (A, B))
          (gadd (zmul (2 * s1 + A) Q1) (zmul (2 * s2 + B) Q2)).
Proof.
  intros HA HB HJ. destruct acc as [[X3 Y3] Z3]. unfold mul_add_step.
  assert (GS : inG (gadd (zmul s1 Q1) (zmul s2 Q2))) by auto with grp.
  pose proof (Dblc X3 Y3 Z3 _ GS HJ) as HD.
  destruct (pj_double X3 Y3 Z3 p a) as [[X Y] Zc].
  rewrite <- step_alg.
  assert (GD : inG (gadd (gadd (zmul s1 Q1) (zmul s2 Q2)) (gadd (zmul s1 Q1) (zmul s2 Q2))))
    by auto with grp.
  pose proof N1 as HN1. pose proof N2 as HN2. pose proof P1 as HP1. pose proof P2 as HP2.
  assert (Z0 : forall Q, zmul 0 Q = None) by reflexivity.
  destruct HA as [->|[->| ->]]; destruct HB as [->|[->| ->]];
    cbn [Z.eqb Z.ltb Z.compare Pos.eqb pj_neg]; rewrite ?Z0, ?Hidl, ?Hidr.
  - (* -1 -1 *) unfold mAmB. destruct (pj_add X1 (- Y1) Z1 X2 (- Y2) Z2 p a) as [[U V] W] eqn:E.
    apply Addc; auto with grp. rewrite <- E. apply Addc; auto with grp.
  - (* -1 0 *) apply Addc; auto with grp.
  - (* -1 1 *) unfold mApB. destruct (pj_add X1 (- Y1) Z1 X2 Y2 Z2 p a) as [[U V] W] eqn:E.
    apply Addc; auto with grp. rewrite <- E. apply Addc; auto with grp.
  - (* 0 -1 *) apply Addc; auto with grp.
  - (* 0 0 *) exact HD.
  - (* 0 1 *) apply Addc; auto with grp.
  - (* 1 -1 *) unfold pAmB. destruct (pj_add X1 Y1 Z1 X2 (- Y2) Z2 p a) as [[U V] W] eqn:E.
    apply Addc; auto with grp. rewrite <- E. apply Addc; auto with grp.
  - (* 1 0 *) apply Addc; auto with grp.
  - (* 1 1 *) unfold pApB. destruct (pj_add X1 Y1 Z1 X2 Y2 Z2 p a) as [[U V] W] eqn:E.
    apply Addc; auto with grp. rewrite <- E. apply Addc; auto with grp.
Qed.

Definition hstep (s d : Z) : Z := 2 * s + d.

Lemma mul_add_fold_correct ds :
  Forall (fun d => digit_ok (fst d) /\ digit_ok (snd d)) ds ->
  forall acc s1 s2,
  jrepr p acc (gadd (zmul s1 Q1) (zmul s2 Q2)) ->
  jrepr p (fold_left (mul_add_step p a (X1, Y1, Z1) (X2, Y2, Z2) mAmB pAmB mApB pApB) ds acc)
          (gadd (zmul (fold_left hstep (map fst ds) s1) Q1)
                (zmul (fold_left hstep (map snd ds) s2) Q2)).
Proof.
  induction 1 as [|[A B] ds [HA HB] _ IH]; intros acc s1 s2 HJ; [exact HJ|].
  cbn [fold_left map fst snd]. apply IH. apply mul_add_step_correct; assumption.
Qed.

End Loop.

Lemma map_fst_combine {A B} (l : list A) (l' : list B) :
  length l = length l' -> map fst (combine l l') = l.
Proof.
  revert l'. induction l as [|x l IH]; intros [|y l'] H; try discriminate; [reflexivity|].
  cbn. f_equal. apply IH. injection H as H. exact H.
Qed.

Lemma map_snd_combine {A B} (l : list A) (l' : list B) :
  length l = length l' -> map snd (combine l l') = l'.
Proof.
  revert l'. induction l as [|x l IH]; intros [|y l'] H; try discriminate; [reflexivity|].
  cbn. f_equal. apply IH. injection H as H. exact H.
Qed.

Lemma pad_left_length n l : length (pad_left n l) = Nat.max n (length l).
Proof. unfold pad_left. rewrite app_length, repeat_length. lia. Qed.

Lemma hstep_zeros k l s : s = 0 -> fold_left hstep (repeat 0 k ++ l) s = fold_left hstep l 0.
Proof.
  intros ->. induction k as [|k IH]; [reflexivity|]. cbn [repeat app fold_left]. exact IH.
Qed.

Lemma hstep_pad n l : fold_left hstep (pad_left n (rev l)) 0 = digits_value l.
Proof.
  unfold pad_left. rewrite hstep_zeros by reflexivity.
  change hstep with (fun s d => 2 * s + d). apply horner_rev.
Qed.

Lemma Forall_combine (P1 P2 : Z -> Prop) l1 l2 :
  Forall P1 l1 -> Forall P2 l2 -> Forall (fun d => P1 (fst d) /\ P2 (snd d)) (combine l1 l2).
Proof.
  intro H1. revert l2. induction H1 as [|x l1 Hx _ IH]; intros l2 H2; [constructor|].
  destruct H2 as [|y l2 Hy H2]; [constructor|]. cbn. constructor; [split; assumption|]. apply IH, H2.
Qed.

Lemma pad_digits n l : Forall digit_ok l -> Forall digit_ok (pad_left n (rev l)).
Proof.
  intro H. unfold pad_left. apply Forall_app. split.
  - apply Forall_forall. intros x Hx. apply repeat_spec in Hx. subst. right. left. reflexivity.
  - apply Forall_rev, H.
Qed.

Theorem mul_add_correct J1 Q1 ord1 gen1 k1 J2 Q2 ord2 gen2 k2 r :
  inG Q1 -> inG Q2 -> jrepr p J1 Q1 -> jrepr p J2 Q2 ->
  (ord1 = 0 \/ (0 < ord1 /\ zmul ord1 Q1 = None /\ zmul ord1 Q2 = None)) ->
  (ord2 = 0 \/ (0 < ord2 /\ zmul ord2 Q2 = None)) ->
  (gen1 = true -> Q1 <> None) -> (gen2 = true -> Q2 <> None) ->
  0 <= k1 -> 0 <= k2 ->
  pj_mul_add p a ord1 gen1 J1 k1 ord2 gen2 J2 k2 = Ok r ->
  jrepr_opt p r (gadd (zmul k1 Q1) (zmul k2 Q2)).
Proof.
  intros G1 G2 HJ1 HJ2 Ho1 Ho2 Hg1 Hg2 Hk1 Hk2 E.
  assert (Ho1' : ord1 = 0 \/ (0 < ord1 /\ zmul ord1 Q1 = None)) by tauto.
  pose proof (mul_correct p a inG gadd gneg GH) as MC.
  unfold pj_mul_add in E.
  destruct (is_inf J2) eqn:EI2.
  { cbn [orb] in E. apply (IsInf _ _ G2 HJ2) in EI2. subst Q2.
    rewrite (zmul_inf p a inG gadd gneg GH), Hidr. eapply MC; eassumption. }
  cbn [orb] in E. destruct (Z.eqb_spec k2 0) as [->|Hk20].
  { change (zmul 0 Q2) with (@None aff). rewrite Hidr. eapply MC; eassumption. }
  destruct (Z.eqb_spec k1 0) as [->|Hk10].
  { change (zmul 0 Q1) with (@None aff). rewrite Hidl. eapply MC; eassumption. }
  (* the two _maybe_precompute assertions *)
  destruct (if gen1 then if ord1 =? 0 then Err EAssert else Ok tt else Ok tt) as [[]|e]; [|discriminate E].
  cbn [bind] in E.
  destruct (if gen2 then if ord2 =? 0 then Err EAssert else Ok tt else Ok tt) as [[]|e]; [|discriminate E].
  cbn [bind] in E.
  destruct (gen1 && gen2).
  { (* both have tables: two multiplications and an addition *)
    destruct (pj_mul p a ord1 gen1 J1 k1) as [r1|e] eqn:E1; [|discriminate E]. cbn [bind] in E.
    destruct (pj_mul p a ord2 gen2 J2 k2) as [r2|e] eqn:E2; [|discriminate E]. cbn [bind] in E.
    injection E as <-. apply add_pt_correct; auto with grp; eapply MC; eassumption. }
  set (k1' := if ord1 =? 0 then k1 else k1 mod ord1) in E.
  set (k2' := if ord1 =? 0 then k2 else k2 mod ord1) in E.
  assert (K1 : 0 <= k1' /\ zmul k1' Q1 = zmul k1 Q1).
  { unfold k1'. destruct (Z.eqb_spec ord1 0) as [->|Hne]; [split; [assumption|reflexivity]|].
    destruct Ho1 as [?|[Hpos [Hz _]]]; [contradiction|].
    split; [apply Z.mod_pos_bound; lia|]. apply (zmul_mod p a inG gadd gneg GH); assumption. }
  assert (K2 : 0 <= k2' /\ zmul k2' Q2 = zmul k2 Q2).
  { unfold k2'. destruct (Z.eqb_spec ord1 0) as [->|Hne]; [split; [assumption|reflexivity]|].
    destruct Ho1 as [?|[Hpos [_ Hz]]]; [contradiction|].
    split; [apply Z.mod_pos_bound; lia|]. apply (zmul_mod p a inG gadd gneg GH); assumption. }
  destruct K1 as [K1p K1e], K2 as [K2p K2e]. rewrite <- K1e, <- K2e. clearbody k1' k2'.
  destruct (pj_scale p J1) as [[[X1 Y1] Z1]|e] eqn:ES1; [|discriminate E]. cbn [bind] in E.
  destruct (pj_scale p J2) as [[[X2 Y2] Z2]|e] eqn:ES2; [|discriminate E]. cbn [bind] in E.
  destruct (scale_correct p a inG gadd gneg GH _ _ _ HJ1 ES1) as [S1 _].
  destruct (scale_correct p a inG gadd gneg GH _ _ _ HJ2 ES2) as [S2 _].
  destruct (is_inf (pj_add X1 Y1 Z1 X2 Y2 Z2 p a)).
  { destruct (pj_mul p a ord1 gen1 (X1, Y1, Z1) k1') as [r1|e] eqn:E1; [|discriminate E]. cbn [bind] in E.
    destruct (pj_mul p a ord2 gen2 (X2, Y2, Z2) k2') as [r2|e] eqn:E2; [|discriminate E]. cbn [bind] in E.
    injection E as <-. apply add_pt_correct; auto with grp; eapply MC; eassumption. }
  destruct (naf k1') as [n1|e] eqn:EN1; [|discriminate E]. cbn [bind] in E.
  destruct (naf k2') as [n2|e] eqn:EN2; [|discriminate E]. cbn [bind] in E.
  injection E as <-.
  destruct (naf_correct k1' K1p) as [l1 [EN1' [V1 [F1 _]]]]. rewrite EN1 in EN1'. injection EN1' as <-.
  destruct (naf_correct k2' K2p) as [l2 [EN2' [V2 [F2 _]]]]. rewrite EN2 in EN2'. injection EN2' as <-.
  apply Wrapc; [auto with grp|].
  set (len := Nat.max (length (rev n1)) (length (rev n2))).
  assert (L : length (pad_left len (rev n1)) = length (pad_left len (rev n2))).
  { rewrite !pad_left_length. unfold len. lia. }
  pose proof (mul_add_fold_correct X1 Y1 Z1 X2 Y2 Z2 Q1 Q2 G1 G2 S1 S2
                (combine (pad_left len (rev n1)) (pad_left len (rev n2)))
                (Forall_combine _ _ _ _ (pad_digits len n1 F1) (pad_digits len n2 F2))
                (0, 0, 1) 0 0) as R.
  rewrite map_fst_combine, map_snd_combine, !hstep_pad, V1, V2 in R by assumption.
  apply R. change (zmul 0 Q1) with (@None aff). change (zmul 0 Q2) with (@None aff).
  rewrite Hidl. left. reflexivity.
Qed.

End MulAdd.
