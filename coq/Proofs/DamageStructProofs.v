(* C04, part 2: the layout of the writer's output around one component, navigation
   lemmas for the reader (skip well-formed entries / payloads), and the deterministic
   corollaries: damage confined to a stored MAC field, to the sentinel, or a changed
   address field is always rejected - no cryptographic assumption. *)
From Coq Require Import List Bool NArith ZArith Lia.
From Coq Require Import Init.Byte.
From Bec2 Require Import Base.Result Base.Bytes Base.Reader Gen.Consts Model.Bf3 Model.Damage
  Proofs.Bf3Proofs Proofs.DamageProofs.
Import ListNotations.
Open Scope N_scope.

(* the MAC-protected part of a directory entry *)
Definition entry_body (adr tl al : N) (pmac tags : bytes) : bytes :=
  be 4 adr ++ be 4 tl ++ be 4 al ++ pmac ++ be 1 (blen tags) ++ tags.

Lemma entry_body_blen adr tl al pmac tags :
  blen (entry_body adr tl al pmac tags) = 13 + blen pmac + blen tags.
Proof. unfold entry_body. rewrite !blen_app, !blen_be. change (N.of_nat 4) with 4. change (N.of_nat 1) with 1. lia. Qed.

Lemma to_bytes_small n v : v < 256 ^ N.of_nat n -> to_bytes n v = Ok (be n v).
Proof. intro H. unfold to_bytes. apply N.ltb_lt in H. rewrite H. reflexivity. Qed.

Section Struct.
  Variable enc dec mac : bytes -> option bytes -> bytes -> result bytes.
  Hypothesis mac_len : forall k iv d m, d <> [] -> mac k iv d = Ok m -> blen m = 16.

  Lemma entry_body_ne adr tl al pmac tags : entry_body adr tl al pmac tags <> [].
  Proof.
    intro Hn. apply (f_equal (@length byte)) in Hn. unfold entry_body in Hn.
    rewrite !app_length, !be_length in Hn. simpl in Hn. lia.
  Qed.

  Lemma ser_entry_shape c ndx adr k entry raw :
    ser_entry enc mac c ndx adr k = Ok (entry, raw) -> raw <> [] ->
    exists pmac tags emac,
      raw_data enc c k = Ok raw /\ mac k None raw = Ok pmac /\ ser_tags (c_desc c) = Ok tags /\
      entry = entry_body adr (blen raw) (c_alen c) pmac tags ++ emac /\
      mac k (Some (be 16 (1 + ndx))) (entry_body adr (blen raw) (c_alen c) pmac tags) = Ok emac /\
      blen pmac = 16 /\ blen emac = 16 /\
      adr < 256 ^ N.of_nat 4 /\ blen raw < 256 ^ N.of_nat 4 /\ c_alen c < 256 ^ N.of_nat 4 /\
      blen tags < 256 ^ N.of_nat 1 /\ 1 + ndx < 256 ^ N.of_nat 16.
  Proof.
    intros H Hraw. unfold ser_entry in H.
    bind_inv H as raw' Eraw. bind_inv H as pmac Epmac. bind_inv H as a Ea. bind_inv H as tl Etl.
    bind_inv H as al Eal. bind_inv H as tags Etags. bind_inv H as tgl Etgl.
    bind_inv H as iv Eiv. bind_inv H as emac Eemac.
    inversion H; subst entry raw'. clear H.
    apply to_bytes_be in Ea as [-> Ha]. apply to_bytes_be in Etl as [-> Htl].
    apply to_bytes_be in Eal as [-> Hal']. apply to_bytes_be in Etgl as [-> Htgl].
    apply to_bytes_be in Eiv as [-> Hiv].
    exists pmac, tags, emac. unfold entry_body.
    repeat split; try assumption; try reflexivity.
    - exact (mac_len _ _ _ _ Hraw Epmac).
    - refine (mac_len _ _ _ _ _ Eemac). apply (entry_body_ne adr (blen raw) (c_alen c) pmac tags).
  Qed.

  (* the entry reader on a well-formed entry: every read succeeds, only the
     total/actual comparison and the MAC comparison decide *)
  Lemma parse_entry_fields a tl al pmac d tags stored ndx check k :
    ser_tags d = Ok tags -> NoDup (map fst d) ->
    a < 256 ^ N.of_nat 4 -> tl < 256 ^ N.of_nat 4 -> al < 256 ^ N.of_nat 4 -> blen tags < 256 ^ N.of_nat 1 ->
    blen pmac = 16 -> blen stored = 16 -> ndx < 256 ^ N.of_nat 16 ->
    exists p,
    parse_entry mac (entry_body a tl al pmac tags ++ stored) ndx check k =
      if tl <? al then Err EBf3 else
      let* _ := (if check then
                   let* actual := mac k (Some (be 16 ndx)) (entry_body a tl al pmac tags) in
                   if bytes_eqb stored actual then Ok tt else Err EBf3
                 else Ok tt) in
      Ok (mkDentry a tl al pmac d, mkR [] p).
  Proof.
    intros Etags ND Ha Htl Hal Htgl Lp Le Hndx.
    set (body := entry_body a tl al pmac tags).
    assert (Et : takeN (blen (body ++ stored) - 16) (body ++ stored) = body).
    { apply takeN_app_exact'. rewrite blen_app, Le. lia. }
    eexists.
    unfold parse_entry, new_reader. change CMAC_SIZE with 16. rewrite Et.
    assert (Ee : body ++ stored =
      be 4 a ++ be 4 tl ++ be 4 al ++ pmac ++ be 1 (blen tags) ++ tags ++ stored).
    { unfold body, entry_body. rewrite <- !app_assoc. reflexivity. }
    rewrite Ee at 1.
    rewrite (rd_read_int_be 4 a) by exact Ha. cbn [bind].
    rewrite (rd_read_int_be 4 tl) by exact Htl. cbn [bind].
    rewrite (rd_read_int_be 4 al) by exact Hal. cbn [bind].
    destruct (tl <? al); [reflexivity|].
    rewrite (rd_read_exact 16 pmac) by exact Lp. cbn [bind].
    rewrite (to_bytes_small 16 ndx Hndx). cbn [bind].
    rewrite (rd_read_int_be 1 (blen tags)) by exact Htgl. cbn [bind].
    rewrite rd_read_app. cbn [bind].
    rewrite (parse_tags_ser d tags _ [] 0 Etags ND).
    2:{ pose proof (ser_tags_len _ _ Etags). lia. }
    cbn [bind app].
    rewrite (rd_read_exact_all 16 stored) by exact Le. cbn [bind].
    reflexivity.
  Qed.

  (* ---- one iteration of the directory loop on known entry bytes --------------- *)
  Lemma parse_dir_step fuel entry x p ndx check k acc :
    entry <> [] -> blen entry < 256 ^ N.of_nat 1 ->
    parse_dir' mac (S fuel) (mkR (be 1 (blen entry) ++ entry ++ x) p) ndx check k acc =
      let* (e, er) := parse_entry mac entry ndx check k in
      let* (len', dr) := rd_read_int 1 (mkR x (p + 1 + blen entry)) in
      let* _ := rd_ensure_eof er in
      parse_dir mac fuel dr len' (ndx + 1) check k (e :: acc).
  Proof.
    intros Hne Hl. unfold parse_dir'.
    rewrite (rd_read_int_be 1 (blen entry)) by exact Hl. cbn [bind parse_dir].
    destruct (blen entry =? 0) eqn:Ez.
    { apply N.eqb_eq in Ez. destruct entry; [contradiction|]. rewrite blen_cons in Ez. lia. }
    rewrite rd_read_app. cbn [bind]. change (N.of_nat 1) with 1. reflexivity.
  Qed.

  (* the sentinel *)
  Lemma parse_dir_sentinel fuel tail p ndx check k acc :
    parse_dir' mac (S fuel) (mkR (x00 :: tail) p) ndx check k acc = Ok (rev acc, mkR tail (p + 1)).
  Proof.
    unfold parse_dir'. change (x00 :: tail) with (be 1 0 ++ tail).
    rewrite (rd_read_int_be 1 0) by (vm_compute; reflexivity). cbn [bind parse_dir N.eqb].
    reflexivity.
  Qed.

  (* a non-zero byte where the sentinel should be, at the end of the directory *)
  Lemma parse_dir_bad_sentinel fuel y p ndx check k acc :
    y <> x00 -> parse_dir' mac (S fuel) (mkR [y] p) ndx check k acc = Err EValue.
  Proof.
    intro Hy. destruct y; try contradiction; vm_compute; reflexivity.
  Qed.
End Struct.

Section Nav.
  Variable enc dec mac : bytes -> option bytes -> bytes -> result bytes.
  Hypothesis mac_len : forall k iv d m, d <> [] -> mac k iv d = Ok m -> blen m = 16.

  Lemma ser_entry_raw c ndx adr k entry raw :
    ser_entry enc mac c ndx adr k = Ok (entry, raw) -> raw_data enc c k = Ok raw.
  Proof.
    intro Ee. unfold ser_entry in Ee. destruct (raw_data enc c k) eqn:Er; cbn [bind] in Ee; [|discriminate].
    repeat match type of Ee with
           | bind ?r _ = Ok _ => destruct r; cbn [bind] in Ee; [|discriminate]
           end. inversion Ee; subst. reflexivity.
  Qed.

  (* the reader walks over the entries of a serialised component list *)
  Lemma parse_dir_skip cs1 : forall ndx adr d1 fuel acc x p check k,
    ser_dir enc mac cs1 ndx adr k = Ok d1 -> Forall (okc enc k) cs1 ->
    exists es1, entries_of enc mac cs1 adr k = Ok es1 /\ length es1 = length cs1 /\
      parse_dir' mac (length cs1 + fuel) (mkR (d1 ++ x) p) (1 + ndx) check k acc =
      parse_dir' mac fuel (mkR x (p + blen d1)) (1 + ndx + blen cs1) check k (rev es1 ++ acc).
  Proof.
    induction cs1 as [|c cs IH]; intros ndx adr d1 fuel acc x p check k H Hok.
    - simpl in H. inversion H; subst d1. exists []. split; [reflexivity|]. split; [reflexivity|].
      cbn [length plus app rev]. rewrite !blen_nil, !N.add_0_r. reflexivity.
    - cbn [ser_dir] in H.
      destruct (ser_entry enc mac c ndx adr k) as [[entry raw]|] eqn:Ee; cbn [bind] in H; [|discriminate].
      bind_inv H as el Eel. bind_inv H as rdb Erest. inversion H; subst d1. clear H.
      apply to_bytes_be in Eel as [-> Hel].
      inversion Hok as [|? ? [ND Hc] Hok']; subst.
      pose proof (ser_entry_raw _ _ _ _ _ _ Ee) as Hraw0.
      destruct (Hc raw Hraw0) as [Hraw Hal].
      destruct (parse_entry_ser enc mac mac_len c ndx adr k entry raw check Ee ND Hal Hraw) as [pmac [er [Epmac [Epe Her]]]].
      destruct (ser_entry_facts enc mac mac_len c ndx adr k entry raw Ee Hraw) as [_ [_ [tags [Etags Elen]]]].
      destruct (IH (ndx + 1) (adr + blen raw) rdb fuel (entry_of c adr raw pmac :: acc) x
                  (p + 1 + blen entry) check k Erest Hok') as [es [Ees [Les Epd]]].
      exists (entry_of c adr raw pmac :: es). split.
      { cbn [entries_of]. rewrite Hraw0. cbn [bind]. rewrite Epmac. cbn [bind]. rewrite Ees. reflexivity. }
      split; [cbn [length]; lia|].
      cbn [length plus]. rewrite <- !app_assoc.
      assert (Hne : entry <> []).
      { intro Hn. subst entry. rewrite blen_nil in Elen. lia. }
      rewrite (parse_dir_step mac (length cs + fuel) entry (rdb ++ x) p (1 + ndx) check k acc Hne Hel).
      rewrite Epe. cbn [bind].
      replace (1 + (ndx + 1)) with (1 + ndx + 1) in Epd by lia.
      replace (p + blen (be 1 (blen entry) ++ entry ++ rdb)) with (p + 1 + blen entry + blen rdb)
        by (rewrite !blen_app, blen_be; change (N.of_nat 1) with 1; lia).
      replace (1 + ndx + blen (c :: cs)) with (1 + ndx + 1 + blen cs) by (rewrite blen_cons; lia).
      cbn [rev]. rewrite <- app_assoc. cbn [app]. rewrite <- Epd. clear Epd.
      unfold parse_dir'.
      destruct (rd_read_int 1 {| rest := rdb ++ x; pos := p + 1 + blen entry |}) as [[len' dr']|] eqn:Er;
        cbn [bind]; [|reflexivity].
      unfold rd_ensure_eof, rd_eof. rewrite Her. cbn [bind]. reflexivity.
  Qed.
End Nav.

Section Layout.
  Variable enc dec mac : bytes -> option bytes -> bytes -> result bytes.
  Hypothesis mac_len : forall k iv d m, d <> [] -> mac k iv d = Ok m -> blen m = 16.
  Hypothesis enc_len : forall k d c, blen d mod 16 = 0 -> enc k None d = Ok c -> blen c = blen d.
  Hypothesis dec_enc : forall k d c, blen d mod 16 = 0 -> enc k None d = Ok c -> dec k None c = Ok d.

  Lemma payloads_app cs1 : forall cs2 k pb, payloads enc (cs1 ++ cs2) k = Ok pb ->
    exists p1 p2, payloads enc cs1 k = Ok p1 /\ payloads enc cs2 k = Ok p2 /\ pb = p1 ++ p2.
  Proof.
    induction cs1 as [|c cs IH]; intros cs2 k pb H.
    - exists [], pb. repeat split; [exact H].
    - cbn [app payloads] in H |- *. bind_inv H as r Er. bind_inv H as rest0 Erest. inversion H; subst pb.
      destruct (IH _ _ _ Erest) as [p1 [p2 [H1 [H2 ->]]]].
      exists (r ++ p1), p2. rewrite H1. cbn [bind]. rewrite app_assoc. repeat split; assumption.
  Qed.

  Lemma ser_dir_app cs1 : forall cs2 ndx adr k d, ser_dir enc mac (cs1 ++ cs2) ndx adr k = Ok d ->
    exists d1 d2 p1, ser_dir enc mac cs1 ndx adr k = Ok d1 /\ payloads enc cs1 k = Ok p1 /\
      ser_dir enc mac cs2 (ndx + blen cs1) (adr + blen p1) k = Ok d2 /\ d = d1 ++ d2.
  Proof.
    induction cs1 as [|c cs IH]; intros cs2 ndx adr k d H.
    - exists [], d, []. cbn [app] in H. rewrite blen_nil, !N.add_0_r. repeat split; assumption.
    - cbn [app ser_dir] in H.
      destruct (ser_entry enc mac c ndx adr k) as [[entry raw]|] eqn:Ee; cbn [bind] in H; [|discriminate].
      bind_inv H as el Eel. bind_inv H as rdb Erest. inversion H; subst d. clear H.
      destruct (IH _ _ _ _ _ Erest) as [d1 [d2 [p1 [H1 [H2 [H3 ->]]]]]].
      exists (el ++ entry ++ d1), d2, (raw ++ p1).
      cbn [ser_dir payloads]. rewrite Ee. cbn [bind]. rewrite Eel. cbn [bind]. rewrite H1. cbn [bind].
      rewrite (ser_entry_raw enc mac _ _ _ _ _ _ Ee). cbn [bind]. rewrite H2. cbn [bind].
      rewrite blen_cons, blen_app. rewrite <- !app_assoc.
      replace (ndx + (1 + blen cs)) with (ndx + 1 + blen cs) by lia.
      replace (adr + (blen raw + blen p1)) with (adr + blen raw + blen p1) by lia.
      repeat split; try reflexivity. exact H3.
  Qed.

  Lemma entries_of_app cs1 : forall cs2 adr k es, entries_of enc mac (cs1 ++ cs2) adr k = Ok es ->
    exists es1 es2 p1, entries_of enc mac cs1 adr k = Ok es1 /\ payloads enc cs1 k = Ok p1 /\
      entries_of enc mac cs2 (adr + blen p1) k = Ok es2 /\ es = es1 ++ es2.
  Proof.
    induction cs1 as [|c cs IH]; intros cs2 adr k es H.
    - exists [], es, []. cbn [app] in H. rewrite blen_nil, N.add_0_r. repeat split; assumption.
    - cbn [app entries_of] in H. bind_inv H as raw Er. bind_inv H as pmac Ep. bind_inv H as r Erest.
      inversion H; subst es. clear H.
      destruct (IH _ _ _ _ Erest) as [es1 [es2 [p1 [H1 [H2 [H3 ->]]]]]].
      exists (entry_of c adr raw pmac :: es1), es2, (raw ++ p1).
      cbn [entries_of payloads]. rewrite Er. cbn [bind]. rewrite Ep. cbn [bind]. rewrite H1, H2. cbn [bind].
      rewrite blen_app. replace (adr + (blen raw + blen p1)) with (adr + blen raw + blen p1) by lia.
      repeat split; try reflexivity. exact H3.
  Qed.

  Lemma read_comps_app es1 : forall es2 r check k,
    read_comps dec mac (es1 ++ es2) r check k =
    (let* (c1, r1) := read_comps dec mac es1 r check k in
     let* (c2, r2) := read_comps dec mac es2 r1 check k in Ok (c1 ++ c2, r2)).
  Proof.
    induction es1 as [|e es IH]; intros es2 r check k.
    - cbn [app read_comps bind]. destruct (read_comps dec mac es2 r check k) as [[c2 r2]|]; reflexivity.
    - cbn [app read_comps]. destruct (negb (e_adr e =? pos r)); [reflexivity|].
      destruct (rd_read (e_total e) r) as [[payload r1]|]; cbn [bind]; [|reflexivity].
      match goal with |- bind ?m _ = _ => destruct m; cbn [bind]; [|reflexivity] end.
      match goal with |- bind ?m _ = _ => destruct m; cbn [bind]; [|reflexivity] end.
      rewrite IH. destruct (read_comps dec mac es r1 check k) as [[c1 r2]|]; cbn [bind]; [|reflexivity].
      destruct (read_comps dec mac es2 r2 check k) as [[c2 r3]|]; reflexivity.
  Qed.

  (* the writer's output: size field, directory, sentinel, payloads *)
  Lemma to_binary_layout cs off k b : Forall wf_comp cs -> to_binary enc mac cs off k = Ok b ->
    exists db pb, ser_dir enc mac cs 0 (off + 4 + (blen db + 1)) k = Ok db /\ payloads enc cs k = Ok pb /\
      blen db + 1 < 256 ^ N.of_nat 4 /\ b = be 4 (blen db + 1) ++ (db ++ [x00]) ++ pb.
  Proof.
    intros Hwf H. unfold to_binary in H.
    bind_inv H as d0 Ed0. bind_inv H as d Ed. bind_inv H as pb Epb. inversion H; subst b. clear H.
    unfold dir_to_binary in Ed0, Ed.
    bind_inv Ed0 as db0 Edb0. bind_inv Ed0 as sz0 Esz0. inversion Ed0; subst d0. clear Ed0.
    bind_inv Ed as db Edb. bind_inv Ed as sz Esz. inversion Ed; subst d. clear Ed.
    apply to_bytes_be in Esz0 as [-> _]. apply to_bytes_be in Esz as [-> Hsz].
    destruct (ser_dir_blen enc mac mac_len enc_len cs _ _ _ _ _ _ _ _ Edb0 Edb Hwf) as [Hl _].
    exists db, pb.
    assert (Hb : blen (db ++ [x00]) = blen db + 1) by (rewrite blen_app; reflexivity).
    rewrite Hb in *.
    assert (Hadr : off + blen (be 4 (blen (db0 ++ [x00])) ++ db0 ++ [x00]) = off + 4 + (blen db + 1)).
    { rewrite !blen_app, blen_be, Hl. change (N.of_nat 4) with 4. change (blen [x00]) with 1. lia. }
    rewrite Hadr in Edb. repeat split; assumption.
  Qed.

  (* the reader on  size ++ directory ++ payloads *)
  Lemma from_binary_unfold dd pb off check k : blen dd < 256 ^ N.of_nat 4 ->
    from_binary dec mac (mkR (be 4 (blen dd) ++ dd ++ pb) off) check k =
      (let* (es, dr) := parse_dir' mac (S (length dd)) (mkR dd 0) 1 check k [] in
       let* _ := rd_ensure_eof dr in
       let* (cs, r) := read_comps dec mac es (mkR pb (off + 4 + blen dd)) check k in
       let* _ := rd_ensure_eof r in Ok cs).
  Proof.
    intro Hsz. unfold from_binary, dir_from_binary.
    rewrite (rd_read_int_be 4 (blen dd)) by exact Hsz. cbn [bind].
    rewrite rd_read_app. cbn [bind]. unfold parse_dir', new_reader.
    destruct (rd_read_int 1 {| rest := dd; pos := 0 |}) as [[len dr]|]; cbn [bind]; [|reflexivity].
    destruct (parse_dir mac (S (length dd)) dr len 1 check k []) as [[es dr']|]; cbn [bind]; [|reflexivity].
    destruct (rd_ensure_eof dr'); cbn [bind]; [|reflexivity].
    change (N.of_nat 4) with 4. reflexivity.
  Qed.
End Layout.

Definition dir_of (d1 entry d2 sent : bytes) : bytes := d1 ++ be 1 (blen entry) ++ entry ++ d2 ++ sent.
Definition file_of (dd pb : bytes) : bytes := be 4 (blen dd) ++ dd ++ pb.

Section Field.
  Variable enc dec mac : bytes -> option bytes -> bytes -> result bytes.
  Hypothesis mac_len : forall k iv d m, d <> [] -> mac k iv d = Ok m -> blen m = 16.
  Hypothesis enc_len : forall k d c, blen d mod 16 = 0 -> enc k None d = Ok c -> blen c = blen d.
  Hypothesis dec_enc : forall k d c, blen d mod 16 = 0 -> enc k None d = Ok c -> dec k None c = Ok d.

  (* everything the writer computes around the component c of cs1 ++ c :: cs2 *)
  Record comp_layout (cs1 : list comp) (c : comp) (cs2 : list comp) (off : N) (k : bytes)
         (d1 d2 p1 p2 raw pmac tags emac : bytes) (adr0 : N) : Prop := {
    cl_wf1 : Forall wf_comp cs1; cl_wfc : wf_comp c; cl_wf2 : Forall wf_comp cs2;
    cl_d1 : ser_dir enc mac cs1 0 adr0 k = Ok d1;
    cl_p1 : payloads enc cs1 k = Ok p1;
    cl_d2 : ser_dir enc mac cs2 (blen cs1 + 1) (adr0 + blen p1 + blen raw) k = Ok d2;
    cl_p2 : payloads enc cs2 k = Ok p2;
    cl_raw : raw_data enc c k = Ok raw;
    cl_rawne : raw <> [];
    cl_alen : c_alen c <= blen raw;
    cl_pmac : mac k None raw = Ok pmac;
    cl_tags : ser_tags (c_desc c) = Ok tags;
    cl_emac : mac k (Some (be 16 (1 + blen cs1))) (entry_body (adr0 + blen p1) (blen raw) (c_alen c) pmac tags) = Ok emac;
    cl_lp : blen pmac = 16; cl_le : blen emac = 16;
    cl_badr : adr0 + blen p1 < 256 ^ N.of_nat 4;
    cl_braw : blen raw < 256 ^ N.of_nat 4;
    cl_bal : c_alen c < 256 ^ N.of_nat 4;
    cl_btags : blen tags < 256 ^ N.of_nat 1;
    cl_bndx : 1 + blen cs1 < 256 ^ N.of_nat 16;
    cl_bent : 45 + blen tags < 256 ^ N.of_nat 1;
    cl_adr0 : adr0 = off + 4 + blen (dir_of d1 (entry_body (adr0 + blen p1) (blen raw) (c_alen c) pmac tags ++ emac) d2 [x00]);
    cl_bdd : blen (dir_of d1 (entry_body (adr0 + blen p1) (blen raw) (c_alen c) pmac tags ++ emac) d2 [x00]) < 256 ^ N.of_nat 4
  }.

  Lemma to_binary_at cs1 c cs2 off k b :
    Forall wf_comp (cs1 ++ c :: cs2) -> to_binary enc mac (cs1 ++ c :: cs2) off k = Ok b ->
    exists d1 d2 p1 p2 raw pmac tags emac adr0,
      comp_layout cs1 c cs2 off k d1 d2 p1 p2 raw pmac tags emac adr0 /\
      b = file_of (dir_of d1 (entry_body (adr0 + blen p1) (blen raw) (c_alen c) pmac tags ++ emac) d2 [x00])
                  (p1 ++ raw ++ p2).
  Proof.
    intros Hwf H.
    destruct (to_binary_layout enc mac mac_len enc_len _ _ _ _ Hwf H) as [db [pb [Hd [Hp [Hsz ->]]]]].
    remember (off + 4 + (blen db + 1)) as adr0 eqn:Hadr0.
    destruct (ser_dir_app enc mac _ _ _ _ _ _ Hd) as [d1 [dr [p1 [Hd1 [Hp1 [Hdr ->]]]]]].
    cbn [ser_dir] in Hdr.
    destruct (ser_entry enc mac c (0 + blen cs1) (adr0 + blen p1) k) as [[entry raw]|] eqn:Ee; cbn [bind] in Hdr; [|discriminate].
    bind_inv Hdr as el Eel. bind_inv Hdr as d2 Ed2. inversion Hdr; subst dr. clear Hdr.
    apply to_bytes_be in Eel as [-> Hel].
    destruct (payloads_app enc _ _ _ _ Hp) as [p1' [pr [Hp1' [Hpr ->]]]].
    rewrite Hp1 in Hp1'. inversion Hp1'; subst p1'. clear Hp1'.
    cbn [payloads] in Hpr. bind_inv Hpr as raw' Eraw. bind_inv Hpr as p2 Hp2. inversion Hpr; subst pr. clear Hpr.
    pose proof (ser_entry_raw enc mac _ _ _ _ _ _ Ee) as Hraw. rewrite Eraw in Hraw. inversion Hraw; subst raw'. clear Hraw.
    apply Forall_app in Hwf as [Hwf1 Hwf2]. inversion_clear Hwf2 as [|? ? Hwfc Hwf2'].
    destruct (wf_okc enc enc_len k c Hwfc) as [ND Hc]. destruct (Hc raw Eraw) as [Hrne Hal].
    destruct (ser_entry_shape enc mac mac_len _ _ _ _ _ _ Ee Hrne)
      as [pmac [tags [emac [_ [Epm [Etg [-> [Eem [Lp [Le [Ba [Br [Bal [Bt Bn]]]]]]]]]]]]]].
    rewrite N.add_0_l in *.
    exists d1, d2, p1, p2, raw, pmac, tags, emac, adr0.
    assert (Hdir : (d1 ++ be 1 (blen (entry_body (adr0 + blen p1) (blen raw) (c_alen c) pmac tags ++ emac)) ++
                   (entry_body (adr0 + blen p1) (blen raw) (c_alen c) pmac tags ++ emac) ++ d2) ++ [x00] =
                   dir_of d1 (entry_body (adr0 + blen p1) (blen raw) (c_alen c) pmac tags ++ emac) d2 [x00]).
    { unfold dir_of. rewrite <- !app_assoc. reflexivity. }
    assert (Hbl : blen (dir_of d1 (entry_body (adr0 + blen p1) (blen raw) (c_alen c) pmac tags ++ emac) d2 [x00]) =
                  blen (d1 ++ be 1 (blen (entry_body (adr0 + blen p1) (blen raw) (c_alen c) pmac tags ++ emac)) ++
                   (entry_body (adr0 + blen p1) (blen raw) (c_alen c) pmac tags ++ emac) ++ d2) + 1).
    { rewrite <- Hdir, blen_app. reflexivity. }
    split.
    - constructor; try assumption.
      + rewrite blen_app, entry_body_blen, Lp, Le in Hel. lia.
      + rewrite Hbl. exact Hadr0.
      + rewrite Hbl. exact Hsz.
    - unfold file_of. rewrite Hbl, <- Hdir. reflexivity.
  Qed.

  Lemma bytes_eqb_neq a b : a <> b -> bytes_eqb a b = false.
  Proof. intro H. destruct (bytes_eqb a b) eqn:E; [|reflexivity]. apply bytes_eqb_eq in E. contradiction. Qed.

  (* the directory loop on a directory in which the entry of c is replaced by entry' *)
  Lemma dir_with_entry cs1 c cs2 off k d1 d2 p1 p2 raw pmac tags emac adr0 entry' check :
    comp_layout cs1 c cs2 off k d1 d2 p1 p2 raw pmac tags emac adr0 ->
    entry' <> [] -> blen entry' < 256 ^ N.of_nat 1 ->
    exists es1 es2 q,
      entries_of enc mac cs1 adr0 k = Ok es1 /\
      entries_of enc mac cs2 (adr0 + blen p1 + blen raw) k = Ok es2 /\
      parse_dir' mac (S (length (dir_of d1 entry' d2 [x00]))) (mkR (dir_of d1 entry' d2 [x00]) 0) 1 check k [] =
        (let* (e', er) := parse_entry mac entry' (1 + blen cs1) check k in
         let* _ := rd_ensure_eof er in
         Ok (es1 ++ e' :: es2, mkR [] q)).
  Proof.
    intros L Hne Hl.
    assert (Hok1 : Forall (okc enc k) cs1).
    { apply Forall_forall. intros x Hx. apply (wf_okc enc enc_len). pose proof (cl_wf1 _ _ _ _ _ _ _ _ _ _ _ _ _ _ L) as W.
      rewrite Forall_forall in W. apply W, Hx. }
    assert (Hok2 : Forall (okc enc k) cs2).
    { apply Forall_forall. intros x Hx. apply (wf_okc enc enc_len). pose proof (cl_wf2 _ _ _ _ _ _ _ _ _ _ _ _ _ _ L) as W.
      rewrite Forall_forall in W. apply W, Hx. }
    pose proof (cl_d1 _ _ _ _ _ _ _ _ _ _ _ _ _ _ L) as Hd1.
    pose proof (cl_d2 _ _ _ _ _ _ _ _ _ _ _ _ _ _ L) as Hd2.
    destruct (ser_dir_blen enc mac mac_len enc_len cs1 _ _ _ _ _ _ _ _ Hd1 Hd1 (cl_wf1 _ _ _ _ _ _ _ _ _ _ _ _ _ _ L)) as [_ Hn1].
    destruct (ser_dir_blen enc mac mac_len enc_len cs2 _ _ _ _ _ _ _ _ Hd2 Hd2 (cl_wf2 _ _ _ _ _ _ _ _ _ _ _ _ _ _ L)) as [_ Hn2].
    set (dd' := dir_of d1 entry' d2 [x00]).
    assert (Hlen : (length dd' = length d1 + 1 + length entry' + length d2 + 1)%nat).
    { unfold dd', dir_of. rewrite !app_length, be_length. simpl. lia. }
    set (f2 := (length dd' - length cs1)%nat).
    replace (S (length dd')) with (length cs1 + S f2)%nat by (unfold f2; lia).
    destruct (parse_dir_skip enc mac mac_len cs1 0 adr0 d1 (S f2) [] (be 1 (blen entry') ++ entry' ++ d2 ++ [x00]) 0 check k Hd1 Hok1)
      as [es1 [Ees1 [Les1 Eskip]]].
    destruct (parse_dir_ser enc mac mac_len cs2 (blen cs1 + 1) (adr0 + blen p1 + blen raw) d2 f2
                (match parse_entry mac entry' (1 + blen cs1) check k with Ok (e', _) => e' :: rev es1 | Err _ => [] end)
                [] (0 + blen d1 + 1 + blen entry') check k Hd2 Hok2) as [es2 [Ees2 Eser]].
    { unfold f2. lia. }
    exists es1, es2. eexists. split; [exact Ees1|]. split; [exact Ees2|].
    change (1 + 0) with 1 in Eskip. rewrite app_nil_r in Eskip.
    unfold dd', dir_of. unfold dir_of in Eskip. rewrite Eskip. clear Eskip.
    rewrite (parse_dir_step mac f2 entry' (d2 ++ [x00]) (0 + blen d1) (1 + blen cs1) check k (rev es1) Hne Hl).
    destruct (parse_entry mac entry' (1 + blen cs1) check k) as [[e' er]|e0] eqn:Epe; cbn [bind]; [|reflexivity].
    unfold parse_dir' in Eser. rewrite app_nil_r in Eser.
    replace (1 + (blen cs1 + 1)) with (1 + blen cs1 + 1) in Eser by lia.
    destruct (rd_read_int 1 {| rest := d2 ++ [x00]; pos := 0 + blen d1 + 1 + blen entry' |}) as [[len' dr]|];
      cbn [bind] in Eser |- *; [|discriminate].
    destruct (rd_ensure_eof er); cbn [bind]; [|reflexivity].
    rewrite Eser. cbn [rev]. rewrite rev_involutive, <- app_assoc. reflexivity.
  Qed.

  (* the whole reader on a file in which the entry of c is replaced (same length) and the
     payload area after the payloads of cs1 is arbitrary *)
  Lemma from_binary_with_entry_gen cs1 c cs2 off k d1 d2 p1 p2 raw pmac tags emac adr0 entry' tl check :
    comp_layout cs1 c cs2 off k d1 d2 p1 p2 raw pmac tags emac adr0 ->
    blen entry' = 45 + blen tags ->
    exists es2, entries_of enc mac cs2 (adr0 + blen p1 + blen raw) k = Ok es2 /\
    from_binary dec mac (mkR (file_of (dir_of d1 entry' d2 [x00]) (p1 ++ tl)) off) check k =
      (let* (e', er) := parse_entry mac entry' (1 + blen cs1) check k in
       let* _ := rd_ensure_eof er in
       let* (cs', r) := read_comps dec mac (e' :: es2) (mkR tl (adr0 + blen p1)) check k in
       let* _ := rd_ensure_eof r in Ok (map view cs1 ++ cs')).
  Proof.
    intros L Hl.
    pose proof (cl_bent _ _ _ _ _ _ _ _ _ _ _ _ _ _ L) as Hb.
    assert (Hne : entry' <> []).
    { intro Hn. subst entry'. rewrite blen_nil in Hl. lia. }
    destruct (dir_with_entry _ _ _ _ _ _ _ _ _ _ _ _ _ _ entry' check L Hne ltac:(rewrite Hl; exact Hb))
      as [es1 [es2 [q [Ees1 [Ees2 Edir]]]]].
    exists es2. split; [exact Ees2|].
    assert (Hdd : blen (dir_of d1 entry' d2 [x00]) =
                  blen (dir_of d1 (entry_body (adr0 + blen p1) (blen raw) (c_alen c) pmac tags ++ emac) d2 [x00])).
    { unfold dir_of. rewrite !blen_app, !blen_be, Hl, entry_body_blen.
      rewrite (cl_lp _ _ _ _ _ _ _ _ _ _ _ _ _ _ L), (cl_le _ _ _ _ _ _ _ _ _ _ _ _ _ _ L). lia. }
    unfold file_of. rewrite from_binary_unfold by (rewrite Hdd; exact (cl_bdd _ _ _ _ _ _ _ _ _ _ _ _ _ _ L)).
    rewrite Edir. rewrite Hdd, <- (cl_adr0 _ _ _ _ _ _ _ _ _ _ _ _ _ _ L).
    destruct (parse_entry mac entry' (1 + blen cs1) check k) as [[e' er]|]; cbn [bind]; [|reflexivity].
    destruct (rd_ensure_eof er); cbn [bind]; [|reflexivity].
    unfold rd_ensure_eof at 1, rd_eof. cbn [rest bind].
    rewrite read_comps_app.
    rewrite (read_comps_ser enc dec mac dec_enc cs1 adr0 es1 p1 tl check k Ees1
               (cl_p1 _ _ _ _ _ _ _ _ _ _ _ _ _ _ L) (cl_wf1 _ _ _ _ _ _ _ _ _ _ _ _ _ _ L)).
    cbn [bind].
    destruct (read_comps dec mac (e' :: es2) {| rest := tl; pos := adr0 + blen p1 |} check k) as [[cs' r]|];
      cbn [bind]; [|reflexivity].
    destruct (rd_ensure_eof r); reflexivity.
  Qed.

  Lemma from_binary_with_entry cs1 c cs2 off k d1 d2 p1 p2 raw pmac tags emac adr0 entry' check :
    comp_layout cs1 c cs2 off k d1 d2 p1 p2 raw pmac tags emac adr0 ->
    blen entry' = 45 + blen tags ->
    exists es2, entries_of enc mac cs2 (adr0 + blen p1 + blen raw) k = Ok es2 /\
    from_binary dec mac (mkR (file_of (dir_of d1 entry' d2 [x00]) (p1 ++ raw ++ p2)) off) check k =
      (let* (e', er) := parse_entry mac entry' (1 + blen cs1) check k in
       let* _ := rd_ensure_eof er in
       let* (cs', r) := read_comps dec mac (e' :: es2) (mkR (raw ++ p2) (adr0 + blen p1)) check k in
       let* _ := rd_ensure_eof r in Ok (map view cs1 ++ cs')).
  Proof. intros L Hl. exact (from_binary_with_entry_gen _ _ _ _ _ _ _ _ _ _ _ _ _ _ entry' (raw ++ p2) check L Hl). Qed.

  (* ---- damage confined to the stored entry MAC ------------------------------- *)
  Theorem entry_mac_field_rejected cs1 c cs2 off k d1 d2 p1 p2 raw pmac tags emac adr0 emac' :
    comp_layout cs1 c cs2 off k d1 d2 p1 p2 raw pmac tags emac adr0 ->
    blen emac' = 16 -> emac' <> emac ->
    from_binary dec mac (mkR (file_of (dir_of d1 (entry_body (adr0 + blen p1) (blen raw) (c_alen c) pmac tags ++ emac') d2 [x00])
                                      (p1 ++ raw ++ p2)) off) true k = Err EBf3.
  Proof.
    intros L Hl Hne.
    destruct (from_binary_with_entry _ _ _ _ _ _ _ _ _ _ _ _ _ _
                (entry_body (adr0 + blen p1) (blen raw) (c_alen c) pmac tags ++ emac') true L) as [es2 [_ ->]].
    { rewrite blen_app, entry_body_blen, Hl, (cl_lp _ _ _ _ _ _ _ _ _ _ _ _ _ _ L). lia. }
    destruct (cl_wfc _ _ _ _ _ _ _ _ _ _ _ _ _ _ L) as [ND _].
    destruct (parse_entry_fields mac (adr0 + blen p1) (blen raw) (c_alen c) pmac (c_desc c) tags emac' (1 + blen cs1) true k
                (cl_tags _ _ _ _ _ _ _ _ _ _ _ _ _ _ L) ND (cl_badr _ _ _ _ _ _ _ _ _ _ _ _ _ _ L)
                (cl_braw _ _ _ _ _ _ _ _ _ _ _ _ _ _ L) (cl_bal _ _ _ _ _ _ _ _ _ _ _ _ _ _ L)
                (cl_btags _ _ _ _ _ _ _ _ _ _ _ _ _ _ L) (cl_lp _ _ _ _ _ _ _ _ _ _ _ _ _ _ L) Hl
                (cl_bndx _ _ _ _ _ _ _ _ _ _ _ _ _ _ L)) as [q ->].
    pose proof (cl_alen _ _ _ _ _ _ _ _ _ _ _ _ _ _ L) as Hal.
    destruct (blen raw <? c_alen c) eqn:Elt; [apply N.ltb_lt in Elt; lia|].
    rewrite (cl_emac _ _ _ _ _ _ _ _ _ _ _ _ _ _ L). cbn [bind].
    rewrite (bytes_eqb_neq _ _ Hne). reflexivity.
  Qed.

  (* ---- damage confined to the stored payload MAC: the entry MAC or the payload MAC check fails *)
  Theorem payload_mac_field_rejected cs1 c cs2 off k d1 d2 p1 p2 raw pmac tags emac adr0 pmac' :
    comp_layout cs1 c cs2 off k d1 d2 p1 p2 raw pmac tags emac adr0 ->
    blen pmac' = 16 -> pmac' <> pmac ->
    exists e,
    from_binary dec mac (mkR (file_of (dir_of d1 (entry_body (adr0 + blen p1) (blen raw) (c_alen c) pmac' tags ++ emac) d2 [x00])
                                      (p1 ++ raw ++ p2)) off) true k = Err e.
  Proof.
    intros L Hl Hne.
    destruct (from_binary_with_entry _ _ _ _ _ _ _ _ _ _ _ _ _ _
                (entry_body (adr0 + blen p1) (blen raw) (c_alen c) pmac' tags ++ emac) true L) as [es2 [_ ->]].
    { rewrite blen_app, entry_body_blen, Hl, (cl_le _ _ _ _ _ _ _ _ _ _ _ _ _ _ L). lia. }
    destruct (cl_wfc _ _ _ _ _ _ _ _ _ _ _ _ _ _ L) as [ND _].
    destruct (parse_entry_fields mac (adr0 + blen p1) (blen raw) (c_alen c) pmac' (c_desc c) tags emac (1 + blen cs1) true k
                (cl_tags _ _ _ _ _ _ _ _ _ _ _ _ _ _ L) ND (cl_badr _ _ _ _ _ _ _ _ _ _ _ _ _ _ L)
                (cl_braw _ _ _ _ _ _ _ _ _ _ _ _ _ _ L) (cl_bal _ _ _ _ _ _ _ _ _ _ _ _ _ _ L)
                (cl_btags _ _ _ _ _ _ _ _ _ _ _ _ _ _ L) Hl (cl_le _ _ _ _ _ _ _ _ _ _ _ _ _ _ L)
                (cl_bndx _ _ _ _ _ _ _ _ _ _ _ _ _ _ L)) as [q ->].
    pose proof (cl_alen _ _ _ _ _ _ _ _ _ _ _ _ _ _ L) as Hal.
    destruct (blen raw <? c_alen c) eqn:Elt; [apply N.ltb_lt in Elt; lia|].
    destruct (mac k (Some (be 16 (1 + blen cs1))) (entry_body (adr0 + blen p1) (blen raw) (c_alen c) pmac' tags)) as [actual|e0];
      cbn [bind]; [|exists e0; reflexivity].
    destruct (bytes_eqb emac actual); cbn [bind]; [|exists EBf3; reflexivity].
    unfold rd_ensure_eof at 1, rd_eof. cbn [rest bind].
    cbn [read_comps e_adr e_total e_pmac pos]. rewrite N.eqb_refl. cbn [negb].
    rewrite rd_read_app. cbn [bind]. rewrite (cl_pmac _ _ _ _ _ _ _ _ _ _ _ _ _ _ L). cbn [bind].
    rewrite (bytes_eqb_neq pmac pmac') by congruence. cbn [bind]. exists EBf3. reflexivity.
  Qed.

  (* ---- a changed address field: the entry MAC check or the address comparison fails *)
  Theorem address_field_rejected cs1 c cs2 off k d1 d2 p1 p2 raw pmac tags emac adr0 adr' :
    comp_layout cs1 c cs2 off k d1 d2 p1 p2 raw pmac tags emac adr0 ->
    adr' < 256 ^ N.of_nat 4 -> adr' <> adr0 + blen p1 ->
    exists e,
    from_binary dec mac (mkR (file_of (dir_of d1 (entry_body adr' (blen raw) (c_alen c) pmac tags ++ emac) d2 [x00])
                                      (p1 ++ raw ++ p2)) off) true k = Err e.
  Proof.
    intros L Hl Hne.
    destruct (from_binary_with_entry _ _ _ _ _ _ _ _ _ _ _ _ _ _
                (entry_body adr' (blen raw) (c_alen c) pmac tags ++ emac) true L) as [es2 [_ ->]].
    { rewrite blen_app, entry_body_blen, (cl_lp _ _ _ _ _ _ _ _ _ _ _ _ _ _ L), (cl_le _ _ _ _ _ _ _ _ _ _ _ _ _ _ L). lia. }
    destruct (cl_wfc _ _ _ _ _ _ _ _ _ _ _ _ _ _ L) as [ND _].
    destruct (parse_entry_fields mac adr' (blen raw) (c_alen c) pmac (c_desc c) tags emac (1 + blen cs1) true k
                (cl_tags _ _ _ _ _ _ _ _ _ _ _ _ _ _ L) ND Hl
                (cl_braw _ _ _ _ _ _ _ _ _ _ _ _ _ _ L) (cl_bal _ _ _ _ _ _ _ _ _ _ _ _ _ _ L)
                (cl_btags _ _ _ _ _ _ _ _ _ _ _ _ _ _ L) (cl_lp _ _ _ _ _ _ _ _ _ _ _ _ _ _ L) (cl_le _ _ _ _ _ _ _ _ _ _ _ _ _ _ L)
                (cl_bndx _ _ _ _ _ _ _ _ _ _ _ _ _ _ L)) as [q ->].
    pose proof (cl_alen _ _ _ _ _ _ _ _ _ _ _ _ _ _ L) as Hal.
    destruct (blen raw <? c_alen c) eqn:Elt; [apply N.ltb_lt in Elt; lia|].
    destruct (mac k (Some (be 16 (1 + blen cs1))) (entry_body adr' (blen raw) (c_alen c) pmac tags)) as [actual|e0];
      cbn [bind]; [|exists e0; reflexivity].
    destruct (bytes_eqb emac actual); cbn [bind]; [|exists EBf3; reflexivity].
    unfold rd_ensure_eof at 1, rd_eof. cbn [rest bind].
    cbn [read_comps e_adr pos].
    destruct (adr' =? adr0 + blen p1) eqn:Ea; [apply N.eqb_eq in Ea; contradiction|].
    cbn [negb]. exists EBf3. reflexivity.
  Qed.

  (* ---- the sentinel: any non-zero byte in its place is rejected, MAC checking on or off *)
  Theorem sentinel_rejected cs off k db pb y check :
    Forall wf_comp cs -> ser_dir enc mac cs 0 (off + 4 + (blen db + 1)) k = Ok db ->
    blen db + 1 < 256 ^ N.of_nat 4 -> y <> x00 ->
    from_binary dec mac (mkR (file_of (db ++ [y]) pb) off) check k = Err EValue.
  Proof.
    intros Hwf Hd Hsz Hy.
    assert (Hb : blen (db ++ [y]) = blen db + 1) by (rewrite blen_app; reflexivity).
    unfold file_of. rewrite from_binary_unfold by (rewrite Hb; exact Hsz).
    assert (Hok : Forall (okc enc k) cs).
    { apply Forall_forall. intros x Hx. apply (wf_okc enc enc_len). rewrite Forall_forall in Hwf. apply Hwf, Hx. }
    destruct (ser_dir_blen enc mac mac_len enc_len cs _ _ _ _ _ _ _ _ Hd Hd Hwf) as [_ Hn].
    assert (Hfu : S (length (db ++ [y])) = (length cs + S (S (length db) - length cs))%nat).
    { rewrite app_length. cbn [length]. lia. }
    rewrite Hfu.
    destruct (parse_dir_skip enc mac mac_len cs 0 _ db (S (S (length db) - length cs)) [] [y] 0 check k Hd Hok)
      as [es [_ [_ Eskip]]].
    change (1 + 0) with 1 in Eskip. rewrite Eskip.
    rewrite (parse_dir_bad_sentinel mac _ y _ _ check k _ Hy). reflexivity.
  Qed.
End Field.

(* ---- a prefix followed by one arbitrary byte (the text cut inside a hex pair) ------------- *)
Section CutByte.
  Variable enc dec mac : bytes -> option bytes -> bytes -> result bytes.
  Hypothesis mac_len : forall k iv d m, d <> [] -> mac k iv d = Ok m -> blen m = 16.
  Hypothesis enc_len : forall k d c, blen d mod 16 = 0 -> enc k None d = Ok c -> blen c = blen d.
  Hypothesis dec_enc : forall k d c, blen d mod 16 = 0 -> enc k None d = Ok c -> dec k None c = Ok d.

  Lemma from_binary_le4 z off check k : blen z <= 4 -> from_binary dec mac (mkR z off) check k = Err EValue.
  Proof.
    intro H. unfold from_binary, dir_from_binary, rd_read_int.
    destruct (rd_read 4 (mkR z off)) as [[c0 r1]|e] eqn:E1; cbn [bind]; [|rewrite (rd_read_err _ _ _ E1); reflexivity].
    destruct (rd_read_ok _ _ _ _ E1) as [Hr [Hl _]]. cbn [rest] in Hr.
    assert (Hr1 : rest r1 = []).
    { rewrite Hr, blen_app, Hl in H. destruct (rest r1); [reflexivity|]. rewrite blen_cons in H. lia. }
    unfold rd_read at 1. rewrite Hr1. cbn [blen length N.of_nat].
    destruct (from_be c0 <=? 0) eqn:Ez; cbn [bind]; [|reflexivity].
    apply N.leb_le in Ez. assert (from_be c0 = 0) as -> by lia. reflexivity.
  Qed.

  Lemma from_binary_short_dir S d' off check k : S < 256 ^ N.of_nat 4 -> blen d' < S ->
    from_binary dec mac (mkR (be 4 S ++ d') off) check k = Err EValue.
  Proof.
    intros HS Hd. unfold from_binary, dir_from_binary.
    rewrite (rd_read_int_be 4 S) by exact HS. cbn [bind].
    unfold rd_read. cbn [rest]. destruct (S <=? blen d') eqn:E; [apply N.leb_le in E; lia|reflexivity].
  Qed.

  Lemma read_comps_empty cs : forall adr es pb p check k,
    entries_of enc mac cs adr k = Ok es -> payloads enc cs k = Ok pb -> Forall wf_comp cs -> pb <> [] ->
    exists e, read_comps dec mac es (mkR [] p) check k = Err e.
  Proof.
    destruct cs as [|c cs]; intros adr es pb p check k He Hp Hwf Hne.
    - cbn in Hp. inversion Hp; subst. contradiction.
    - cbn [entries_of] in He. bind_inv He as raw Eraw. bind_inv He as pmac Epmac. bind_inv He as es' Ees.
      inversion He; subst es. clear He. inversion Hwf as [|? ? Hc _]; subst.
      destruct (wf_okc enc enc_len k c Hc) as [_ Hk]. destruct (Hk raw Eraw) as [Hrne _].
      cbn [read_comps entry_of e_adr e_total pos].
      destruct (negb (adr =? p)); [exists EBf3; reflexivity|].
      assert (Hrd : rd_read (blen raw) (mkR [] p) = Err EValue).
      { unfold rd_read. cbn [rest]. destruct (blen raw <=? blen (@nil byte)) eqn:E; [|reflexivity].
        apply N.leb_le in E. destruct raw; [contradiction|]. rewrite blen_cons, blen_nil in E. lia. }
      rewrite Hrd. exists EValue. reflexivity.
  Qed.

  Lemma read_comps_cut cs : forall adr es q x r2 y check k,
    entries_of enc mac cs adr k = Ok es -> payloads enc cs k = Ok (q ++ x :: r2) -> Forall wf_comp cs ->
    r2 <> [] ->
    exists e, read_comps dec mac es (mkR (q ++ [y]) adr) check k = Err e.
  Proof.
    induction cs as [|c cs IH]; intros adr es q x r2 y check k He Hp Hwf Hr2.
    - cbn in Hp. inversion Hp as [Hq]. destruct q; discriminate.
    - cbn [entries_of payloads] in He, Hp.
      bind_inv He as raw Eraw. bind_inv He as pmac Epmac. bind_inv He as es' Ees. inversion He; subst es. clear He.
      cbn [bind] in Hp. bind_inv Hp as pb' Epb. inversion Hp as [Hsplit]. clear Hp.
      inversion Hwf as [|? ? Hc Hwf']; subst.
      cbn [read_comps entry_of e_adr e_total e_pmac e_desc e_alen pos].
      rewrite N.eqb_refl. cbn [negb].
      apply app_eq_app in Hsplit as [l [[Hraw Hrest]|[Hq Hpb']]].
      + (* the cut lies inside this payload *)
        destruct l as [|c0 l].
        * (* at its very start: treat as "after the previous", i.e. q = raw, handled below *)
          rewrite app_nil_r in Hraw. subst q. cbn [app] in Hrest.
          rewrite rd_read_app. cbn [bind].
          match goal with |- exists e, bind ?m _ = _ => destruct m as [u|e0]; cbn [bind]; [|exists e0; reflexivity] end.
          match goal with |- exists e, bind ?m _ = _ => destruct m as [cc|e0]; cbn [bind]; [|exists e0; reflexivity] end.
          rewrite <- Hrest in Epb.
          destruct (IH (adr + blen raw) es' [] x r2 y check k Ees Epb Hwf' Hr2) as [e He].
          cbn [app] in He. rewrite He. cbn [bind]. exists e. reflexivity.
        * cbn [app] in Hrest. inversion Hrest as [[Hc0 Hr2']]. subst c0.
          destruct l as [|c1 l].
          -- (* x is the last byte of this payload: the next read finds nothing *)
             cbn [app] in Hr2'. subst r2.
             assert (Hlen : blen (q ++ [y]) = blen raw) by (rewrite Hraw, !blen_app; reflexivity).
             rewrite (rd_read_exact_all (blen raw) (q ++ [y]) adr Hlen). cbn [bind].
             match goal with |- exists e, bind ?m _ = _ => destruct m as [u|e0]; cbn [bind]; [|exists e0; reflexivity] end.
             match goal with |- exists e, bind ?m _ = _ => destruct m as [cc|e0]; cbn [bind]; [|exists e0; reflexivity] end.
             destruct (read_comps_empty cs _ es' pb' (adr + blen raw) check k Ees Epb Hwf' Hr2) as [e He].
             rewrite He. cbn [bind]. exists e. reflexivity.
          -- (* strictly inside: short read *)
             exists EValue. unfold rd_read. cbn [rest].
             destruct (blen raw <=? blen (q ++ [y])) eqn:E; [|reflexivity].
             apply N.leb_le in E. rewrite Hraw, !blen_app, !blen_cons in E. cbn [blen length N.of_nat] in E. lia.
      + (* the cut lies behind this payload *)
        subst q. rewrite <- app_assoc, rd_read_app. cbn [bind].
        match goal with |- exists e, bind ?m _ = _ => destruct m as [u|e0]; cbn [bind]; [|exists e0; reflexivity] end.
        match goal with |- exists e, bind ?m _ = _ => destruct m as [cc|e0]; cbn [bind]; [|exists e0; reflexivity] end.
        rewrite Hpb' in Epb.
        destruct (IH (adr + blen raw) es' l x r2 y check k Ees Epb Hwf' Hr2) as [e He].
        rewrite He. cbn [bind]. exists e. reflexivity.
  Qed.

  Theorem cut_byte_rejected cs off k b b1 x r2 y check :
    Forall wf_comp cs -> to_binary enc mac cs off k = Ok b ->
    b = b1 ++ x :: r2 -> r2 <> [] -> x <> x00 ->
    exists e, from_binary dec mac (mkR (b1 ++ [y]) off) check k = Err e.
  Proof.
    intros Hwf Hw Hsplit Hr2 Hx.
    destruct (to_binary_layout enc mac mac_len enc_len cs off k b Hwf Hw) as [db [pb [Hd [Hp [Hsz Hb]]]]].
    rewrite Hb in Hsplit. clear Hb.
    set (S := blen db + 1) in *.
    assert (HS : blen (db ++ [x00]) = S) by (rewrite blen_app; reflexivity).
    apply app_eq_app in Hsplit as [l [[Hc0 Hrest]|[Hb1 Hrest]]].
    - (* inside the 4-byte size field *)
      destruct l as [|c0 l].
      + (* cannot happen here: it is the next case with an empty remainder *)
        rewrite app_nil_r in Hc0. subst b1. cbn [app] in Hrest.
        destruct db as [|d0 db']; cbn [app] in Hrest; inversion Hrest as [[Hx0 Hr]]; subst.
        * contradiction.
        * exists EValue. apply from_binary_short_dir; [exact Hsz|].
          unfold S. rewrite blen_cons. cbn [blen length N.of_nat]. lia.
      + exists EValue. apply from_binary_le4.
        apply (f_equal blen) in Hc0. rewrite blen_be, !blen_app, blen_cons in Hc0. change (N.of_nat 4) with 4 in Hc0.
        rewrite blen_app. cbn [blen length N.of_nat] in *. lia.
    - subst b1. rewrite <- app_assoc.
      apply app_eq_app in Hrest as [l2 [[Hdd Hrest]|[Hl Hpb]]].
      + destruct l2 as [|c0 l2].
        * (* the first payload byte *)
          rewrite app_nil_r in Hdd. subst l. cbn [app] in Hrest.
          rewrite <- HS. unfold file_of. 
          rewrite from_binary_unfold by (rewrite HS; exact Hsz).
          assert (Hok : Forall (okc enc k) cs).
          { apply Forall_forall. intros c Hc. apply (wf_okc enc enc_len). rewrite Forall_forall in Hwf. apply Hwf, Hc. }
          destruct (parse_dir_ser enc mac mac_len cs 0 _ db (Datatypes.S (length (db ++ [x00]))) [] [] 0 check k Hd Hok)
            as [es [Ees Epd]].
          { destruct (ser_dir_blen enc mac mac_len enc_len cs _ _ _ _ _ _ _ _ Hd Hd Hwf) as [_ Hn].
            rewrite app_length. simpl. lia. }
          change (1 + 0) with 1 in Epd. cbn [app] in Epd. rewrite Epd. cbn [bind rev app].
          unfold rd_ensure_eof at 1, rd_eof. cbn [rest bind].
          rewrite HS.
          rewrite <- Hrest in Hp.
          destruct (read_comps_cut cs _ es [] x r2 y check k Ees Hp Hwf Hr2) as [e He].
          cbn [app] in He. fold S in He. rewrite He. exists e. reflexivity.
        * cbn [app] in Hrest. inversion Hrest as [[Hc0 Hr]]. subst c0.
          destruct l2 as [|c1 l2].
          -- (* x would be the sentinel *)
             apply app_inj_tail in Hdd as [_ Hx0]. exfalso. apply Hx. symmetry. exact Hx0.
          -- exists EValue. apply from_binary_short_dir; [exact Hsz|].
             rewrite <- HS, Hdd, !blen_app, !blen_cons. cbn [blen length N.of_nat]. lia.
      + (* inside the payloads *)
        subst l. rewrite <- app_assoc, <- HS.
        rewrite from_binary_unfold by (rewrite HS; exact Hsz).
        assert (Hok : Forall (okc enc k) cs).
        { apply Forall_forall. intros c Hc. apply (wf_okc enc enc_len). rewrite Forall_forall in Hwf. apply Hwf, Hc. }
        destruct (parse_dir_ser enc mac mac_len cs 0 _ db (Datatypes.S (length (db ++ [x00]))) [] [] 0 check k Hd Hok)
          as [es [Ees Epd]].
        { destruct (ser_dir_blen enc mac mac_len enc_len cs _ _ _ _ _ _ _ _ Hd Hd Hwf) as [_ Hn].
          rewrite app_length. simpl. lia. }
        change (1 + 0) with 1 in Epd. cbn [app] in Epd. rewrite Epd. cbn [bind rev app].
        unfold rd_ensure_eof at 1, rd_eof. cbn [rest bind].
        rewrite HS.
        rewrite Hpb in Hp.
        destruct (read_comps_cut cs _ es l2 x r2 y check k Ees Hp Hwf Hr2) as [e He].
        fold S in He. rewrite He. exists e. reflexivity.
  Qed.
End CutByte.
