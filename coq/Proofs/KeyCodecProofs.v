(* Lemmas about Model/KeyCodec.v: fixed-width number codecs, point encodings, key DER codecs. *)
From Coq Require Import List Bool NArith ZArith Lia.
From Coq Require Import Init.Byte.
From Bec2 Require Import Base.Result Base.Bytes Base.Sweep Gen.Consts Gen.KeyOids Model.Der Model.KeyCodec
  Proofs.DerProofs.
Import ListNotations.
Open Scope N_scope.

(* ---- util: fixed width ---------------------------------------------------------------------- *)

Lemma orderlen_pos o : 1 <= orderlen o.
Proof. apply bytelen_pos. Qed.

Lemma lt_order_fits x o : x < o -> x < 256 ^ orderlen o.
Proof. intro H. pose proof (bytelen_bound o). unfold orderlen. lia. Qed.

Lemma hexdigits_le x l : 1 <= l -> x < 256 ^ l -> hexdigits x <= 2 * l.
Proof.
  intros Hl H. unfold hexdigits. destruct (N.eq_dec x 0) as [->|Hx]; [change (N.log2 0 / 4 + 1) with 1; lia|].
  rewrite pow256 in H. apply N.log2_lt_pow2 in H; [|lia].
  set (L := N.log2 x) in *. clearbody L.
  assert (L / 4 < 2 * l) by (apply N.div_lt_upper_bound; [discriminate | lia]). lia.
Qed.

Lemma number_to_string_ok x o : x < 256 ^ orderlen o ->
  number_to_string x o = Ok (be (N.to_nat (orderlen o)) x).
Proof.
  intro H. unfold number_to_string.
  pose proof (hexdigits_le x (orderlen o) (orderlen_pos o) H) as HD.
  apply N.leb_le in HD. rewrite HD. reflexivity.
Qed.

Lemma be_nonempty k v : (1 <= k)%nat -> exists b t, be k v = b :: t.
Proof. intro H. destruct k as [|k]; [lia|]. rewrite be_head. eexists _, _. reflexivity. Qed.

Lemma string_to_number_be k v : (1 <= k)%nat -> v < 256 ^ N.of_nat k ->
  string_to_number (be k v) = Ok v.
Proof.
  intros Hk Hv. destruct (be_nonempty k v Hk) as [b [t E]].
  unfold string_to_number. rewrite E, int_of_hex_cons, <- E. rewrite from_be_be_small by exact Hv.
  reflexivity.
Qed.

Lemma orderlen_nat o : N.of_nat (N.to_nat (orderlen o)) = orderlen o.
Proof. apply N2Nat.id. Qed.

Lemma orderlen_nat_pos o : (1 <= N.to_nat (orderlen o))%nat.
Proof. pose proof (orderlen_pos o). lia. Qed.

(* number_to_string and string_to_number are inverse on the fixed width, leading zeros included *)
Lemma string_to_number_number_to_string x o s : x < 256 ^ orderlen o ->
  number_to_string x o = Ok s -> string_to_number s = Ok x /\ blen s = orderlen o.
Proof.
  intros H E. rewrite (number_to_string_ok x o H) in E. apply ok_inj in E. subst s. split.
  - apply string_to_number_be; [apply orderlen_nat_pos | rewrite orderlen_nat; exact H].
  - rewrite be_blen. apply orderlen_nat.
Qed.

(* ---- points ------------------------------------------------------------------------------------- *)

Section Points.
  Variable sqrt_mod : Z -> N -> option N.
  Variable p x y : N.
  Hypothesis Hx : x < p.
  Hypothesis Hy : y < p.

  Let l := orderlen p.
  Let ln := N.to_nat l.

  Lemma l_pos : 1 <= l. Proof. apply orderlen_pos. Qed.
  Lemma Hxl : x < 256 ^ l. Proof. apply lt_order_fits, Hx. Qed.
  Lemma Hyl : y < 256 ^ l. Proof. apply lt_order_fits, Hy. Qed.

  Lemma raw_encode_ok : raw_encode p x y = Ok (be ln x ++ be ln y).
  Proof.
    unfold raw_encode. rewrite (number_to_string_ok x p Hxl), (number_to_string_ok y p Hyl). reflexivity.
  Qed.

  Lemma raw_blen : blen (be ln x ++ be ln y) = 2 * l.
  Proof. rewrite blen_app, !be_blen. unfold ln. rewrite N2Nat.id. lia. Qed.

  Lemma from_raw_encoding_ok : from_raw_encoding (be ln x ++ be ln y) (2 * l) = Ok (x, y).
  Proof.
    unfold from_raw_encoding. rewrite raw_blen, N.eqb_refl. cbn [negb].
    replace (2 * l / 2) with l by (rewrite N.mul_comm, N.div_mul by discriminate; reflexivity).
    assert (BL : blen (be ln x) = l) by (rewrite be_blen; unfold ln; apply N2Nat.id).
    rewrite (takeN_app_exact' l _ _ BL), (dropN_app_exact' l _ _ BL).
    pose proof l_pos.
    rewrite !string_to_number_be; try (unfold ln; rewrite N2Nat.id); try apply Hxl; try apply Hyl;
      try (unfold ln; lia).
    reflexivity.
  Qed.

  Lemma point_to_bytes_raw : point_to_bytes p x y Raw = Ok (be ln x ++ be ln y).
  Proof. apply raw_encode_ok. Qed.
  Lemma point_to_bytes_unc : point_to_bytes p x y Uncompressed = Ok (x04 :: be ln x ++ be ln y).
  Proof. unfold point_to_bytes. rewrite raw_encode_ok. reflexivity. Qed.
  Lemma point_to_bytes_hyb :
    point_to_bytes p x y Hybrid = Ok ((if N.odd y then x07 else x06) :: be ln x ++ be ln y).
  Proof. unfold point_to_bytes. rewrite raw_encode_ok. reflexivity. Qed.
  Lemma point_to_bytes_comp :
    point_to_bytes p x y Compressed = Ok ((if N.odd y then x03 else x02) :: be ln x).
  Proof. unfold point_to_bytes. rewrite (number_to_string_ok x p Hxl). reflexivity. Qed.

  Variable c : curve.
  Hypothesis Hc : c_p c = p.

  (* raw: accepted whenever "raw" is among the enabled encodings *)
  Lemma point_from_bytes_raw validate ve : e_raw (encs_norm ve) = true ->
    point_from_bytes sqrt_mod c (be ln x ++ be ln y) validate ve = Ok (x, y).
  Proof.
    intro Hve. unfold point_from_bytes. rewrite Hc. fold l. rewrite raw_blen, N.eqb_refl, Hve.
    cbn [andb]. apply from_raw_encoding_ok.
  Qed.

  Lemma point_from_bytes_unc validate ve : e_unc (encs_norm ve) = true ->
    point_from_bytes sqrt_mod c (x04 :: be ln x ++ be ln y) validate ve = Ok (x, y).
  Proof.
    intro Hve. unfold point_from_bytes. rewrite Hc. fold l. rewrite blen_cons, raw_blen.
    destruct (1 + 2 * l =? 2 * l) eqn:E; [apply N.eqb_eq in E; lia|]. cbn [andb].
    rewrite (N.add_comm 1), N.eqb_refl, Hve, orb_true_r. cbn [andb].
    change (byte_eqb x04 x06 || byte_eqb x04 x07) with false. cbn [andb].
    change (byte_eqb x04 x04) with true. cbn [andb]. apply from_raw_encoding_ok.
  Qed.

  Lemma point_from_bytes_hyb validate ve : e_hyb (encs_norm ve) = true ->
    point_from_bytes sqrt_mod c ((if N.odd y then x07 else x06) :: be ln x ++ be ln y) validate ve = Ok (x, y).
  Proof.
    intro Hve. unfold point_from_bytes. rewrite Hc. fold l. rewrite blen_cons, raw_blen.
    destruct (1 + 2 * l =? 2 * l) eqn:E; [apply N.eqb_eq in E; lia|]. cbn [andb].
    rewrite (N.add_comm 1), N.eqb_refl, Hve. cbn [orb andb].
    assert (T : (byte_eqb (if N.odd y then x07 else x06) x06 || byte_eqb (if N.odd y then x07 else x06) x07) = true)
      by (destruct (N.odd y); reflexivity).
    rewrite T. cbn [andb]. unfold from_hybrid. rewrite from_raw_encoding_ok. cbn [bind].
    destruct (N.odd y); destruct validate; reflexivity.
  Qed.

  (* a hybrid string whose tag contradicts the parity of y is rejected when validation is on *)
  Lemma point_from_bytes_hyb_inconsistent ve : e_hyb (encs_norm ve) = true ->
    point_from_bytes sqrt_mod c ((if N.odd y then x06 else x07) :: be ln x ++ be ln y) true ve
      = Err EMalformedPoint.
  Proof.
    intro Hve. unfold point_from_bytes. rewrite Hc. fold l. rewrite blen_cons, raw_blen.
    destruct (1 + 2 * l =? 2 * l) eqn:E; [apply N.eqb_eq in E; lia|]. cbn [andb].
    rewrite (N.add_comm 1), N.eqb_refl, Hve. cbn [orb andb].
    assert (T : (byte_eqb (if N.odd y then x06 else x07) x06 || byte_eqb (if N.odd y then x06 else x07) x07) = true)
      by (destruct (N.odd y); reflexivity).
    rewrite T. cbn [andb]. unfold from_hybrid. rewrite from_raw_encoding_ok. cbn [bind].
    destruct (N.odd y); reflexivity.
  Qed.

  (* compressed (partial): the square root is an oracle; it must return one of the two roots *)
  Lemma point_from_bytes_comp validate ve beta :
    e_comp (encs_norm ve) = true -> 2 <= l -> N.odd p = true -> p <> 0 ->
    sqrt_mod (Zmodp (Zmodp (Z.of_N x * Z.of_N x * Z.of_N x) p + c_a c * Z.of_N x + c_b c) p) p = Some beta ->
    (beta = y \/ (beta = p - y /\ y <> 0)) ->
    point_from_bytes sqrt_mod c ((if N.odd y then x03 else x02) :: be ln x) validate ve = Ok (x, y).
  Proof.
    intros Hve Hl2 Hodd Hp0 Hsq Hbeta. unfold point_from_bytes. rewrite Hc. fold l.
    assert (BL : blen (be ln x) = l) by (rewrite be_blen; unfold ln; apply N2Nat.id).
    rewrite blen_cons, BL.
    destruct (1 + l =? 2 * l) eqn:E; [apply N.eqb_eq in E; lia|]. cbn [andb].
    destruct (1 + l =? 2 * l + 1) eqn:E1; [apply N.eqb_eq in E1; lia|]. cbn [andb].
    replace (2 * l / 2) with l by (rewrite N.mul_comm, N.div_mul by discriminate; reflexivity).
    rewrite (N.add_comm 1), N.eqb_refl, Hve. cbn [andb].
    unfold from_compressed.
    assert (T : negb (byte_eqb (if N.odd y then x03 else x02) x02 || byte_eqb (if N.odd y then x03 else x02) x03) = false)
      by (destruct (N.odd y); reflexivity).
    rewrite T. pose proof l_pos.
    rewrite string_to_number_be; [| unfold ln; lia | unfold ln; rewrite N2Nat.id; apply Hxl].
    cbn [bind]. rewrite Hc. apply N.eqb_neq in Hp0. rewrite Hp0. rewrite Hsq.
    f_equal. f_equal. apply N.eqb_neq in Hp0.
    destruct Hbeta as [->|[-> Hy0]].
    - destruct (N.odd y) eqn:Oy; reflexivity.
    - assert (Op : N.odd (p - y) = negb (N.odd y)).
      { rewrite N.odd_sub by lia. rewrite Hodd. destruct (N.odd y); reflexivity. }
      rewrite Op. destruct (N.odd y) eqn:Oy; cbn [byte_eqb Byte.eqb Bool.eqb negb]; 
        change (byte_eqb x03 x02) with false; change (byte_eqb x02 x02) with true; cbn [Bool.eqb]; lia.
  Qed.
End Points.

(* ---- VerifyingKey.from_string (to_string key) -------------------------------------------------- *)

(* what the implementation validates about a public point *)
Definition point_valid (order_ok : curve -> N -> N -> bool) (c : curve) (x y : N) : Prop :=
  x < c_p c /\ y < c_p c /\ contains_point c x y = true /\ c_n c <> 0 /\
  (c_h c = Some 1 \/ order_ok c x y = true).

Lemma vk_from_public_point_ok order_ok c x y v : point_valid order_ok c x y ->
  vk_from_public_point order_ok c x y v = Ok (VkW c x y).
Proof.
  intros [Hx [Hy [Hc [Hn Ho]]]]. unfold vk_from_public_point.
  apply N.ltb_lt in Hx, Hy. rewrite Hx, Hy. cbn [andb negb]. rewrite Hc. cbn [negb]. rewrite andb_false_r.
  apply N.eqb_neq in Hn. rewrite Hn.
  destruct Ho as [Ho|Ho]; [rewrite Ho|rewrite Ho]; cbn [negb]; rewrite ?andb_false_r; reflexivity.
Qed.

Lemma blen_single (b : byte) : blen [b] = 1.
Proof. reflexivity. Qed.

Definition enc_tag (y : N) (e : penc) : bytes :=
  match e with
  | Raw => []
  | Uncompressed => [x04]
  | Hybrid => [if N.odd y then x07 else x06]
  | Compressed => [if N.odd y then x03 else x02]
  end.

Definition enc_allowed (e : penc) (ve : encset) : bool :=
  match e with
  | Raw => e_raw (encs_norm ve)
  | Uncompressed => e_unc (encs_norm ve)
  | Hybrid => e_hyb (encs_norm ve)
  | Compressed => e_comp (encs_norm ve)
  end.

Section VkString.
  Variable sqrt_mod : Z -> N -> option N.
  Variable order_ok : curve -> N -> N -> bool.
  Variable ed_vk : bool -> bytes -> result vkey.

  Lemma vk_string_roundtrip c x y e s validate ve :
    e <> Compressed -> point_valid order_ok c x y -> enc_allowed e ve = true ->
    vk_to_string c x y e = Ok s ->
    vk_from_string sqrt_mod order_ok ed_vk (CW c) s validate ve = Ok (VkW c x y).
  Proof.
    intros He PV Hve Hs. destruct PV as [Hx [Hy PV']].
    unfold vk_to_string in Hs. unfold vk_from_string.
    assert (PF : point_from_bytes sqrt_mod c s validate ve = Ok (x, y)).
    { destruct e; [| | contradiction |].
      - rewrite (point_to_bytes_raw (c_p c) x y Hx Hy) in Hs. apply ok_inj in Hs. subst s.
        apply point_from_bytes_raw; auto.
      - rewrite (point_to_bytes_unc (c_p c) x y Hx Hy) in Hs. apply ok_inj in Hs. subst s.
        apply point_from_bytes_unc; auto.
      - rewrite (point_to_bytes_hyb (c_p c) x y Hx Hy) in Hs. apply ok_inj in Hs. subst s.
        apply point_from_bytes_hyb; auto. }
    rewrite PF. cbn [bind]. apply vk_from_public_point_ok. repeat split; try assumption; apply PV'.
  Qed.

  (* the encoder never fails on a key whose coordinates are below p, and the width is fixed *)
  Lemma vk_to_string_ok c x y e : x < c_p c -> y < c_p c ->
    exists s, vk_to_string c x y e = Ok s /\
      blen s = blen (enc_tag y e) + (match e with Compressed => 1 | _ => 2 end) * orderlen (c_p c).
  Proof.
    intros Hx Hy. unfold vk_to_string.
    assert (BX : blen (be (N.to_nat (orderlen (c_p c))) x) = orderlen (c_p c)) by (rewrite be_blen; apply N2Nat.id).
    assert (BY : blen (be (N.to_nat (orderlen (c_p c))) y) = orderlen (c_p c)) by (rewrite be_blen; apply N2Nat.id).
    destruct e.
    - rewrite (point_to_bytes_raw _ x y Hx Hy). eexists. split; [reflexivity|]. rewrite blen_app, BX, BY. cbn [enc_tag]. change (blen (@nil byte)) with 0. lia.
    - rewrite (point_to_bytes_unc _ x y Hx Hy). eexists. split; [reflexivity|]. rewrite blen_cons, blen_app, BX, BY. cbn [enc_tag]. rewrite blen_single. lia.
    - rewrite (point_to_bytes_comp _ x y Hx). eexists. split; [reflexivity|]. rewrite blen_cons, BX. cbn [enc_tag]. rewrite blen_single. lia.
    - rewrite (point_to_bytes_hyb _ x y Hx Hy). eexists. split; [reflexivity|]. rewrite blen_cons, blen_app, BX, BY. cbn [enc_tag]. rewrite blen_single. lia.
  Qed.

  Lemma vk_string_roundtrip_compressed c x y s validate ve beta :
    point_valid order_ok c x y -> enc_allowed Compressed ve = true ->
    2 <= orderlen (c_p c) -> N.odd (c_p c) = true ->
    sqrt_mod (Zmodp (Zmodp (Z.of_N x * Z.of_N x * Z.of_N x) (c_p c) + c_a c * Z.of_N x + c_b c) (c_p c)) (c_p c) = Some beta ->
    (beta = y \/ (beta = c_p c - y /\ y <> 0)) ->
    vk_to_string c x y Compressed = Ok s ->
    vk_from_string sqrt_mod order_ok ed_vk (CW c) s validate ve = Ok (VkW c x y).
  Proof.
    intros PV Hve Hl Hodd Hsq Hbeta Hs. destruct PV as [Hx [Hy PV']].
    unfold vk_to_string in Hs. unfold vk_from_string.
    rewrite (point_to_bytes_comp (c_p c) x y Hx) in Hs. apply ok_inj in Hs. subst s.
    rewrite (point_from_bytes_comp sqrt_mod (c_p c) x y Hx Hy c eq_refl validate ve beta); try assumption.
    - cbn [bind]. apply vk_from_public_point_ok. repeat split; try assumption; apply PV'.
    - lia.
  Qed.
End VkString.

(* ---- structural equality decides equality ---------------------------------------------------------- *)

Lemma oid_eqb_eq a b : oid_eqb a b = true <-> a = b.
Proof. apply list_eqb_eq. intros. apply N.eqb_eq. Qed.

Lemma option_eqb_eq {A} (eqb : A -> A -> bool) (H : forall a b, eqb a b = true <-> a = b) x y :
  option_eqb eqb x y = true <-> x = y.
Proof.
  destruct x, y; cbn; split; intro E; try discriminate; try reflexivity.
  - apply H in E. congruence.
  - inversion E. apply H. reflexivity.
Qed.

Lemma curve_same_eq c d : curve_same c d = true -> c = d.
Proof.
  destruct c as [p1 a1 b1 gx1 gy1 n1 h1 o1], d as [p2 a2 b2 gx2 gy2 n2 h2 o2].
  unfold curve_same. cbn [c_p c_a c_b c_gx c_gy c_n c_h c_oid].
  rewrite !andb_true_iff. intros [[[[[[[H1 H2] H3] H4] H5] H6] H7] H8].
  apply N.eqb_eq in H1, H4, H5, H6. apply Z.eqb_eq in H2, H3.
  apply (option_eqb_eq N.eqb N.eqb_eq) in H7. apply (option_eqb_eq oid_eqb oid_eqb_eq) in H8.
  congruence.
Qed.

Lemma cref_same_eq a b : cref_same a b = true -> a = b.
Proof.
  destruct a, b; cbn; intro H; try discriminate.
  - apply curve_same_eq in H. congruence.
  - apply eqb_prop in H. congruence.
Qed.

(* ---- DER structure of public keys ------------------------------------------------------------------ *)

Lemma tlv_blen_le t b : blen b < LMAX -> blen (tlv t b) <= 129 + blen b.
Proof. intro H. rewrite tlv_blen. pose proof (encode_length_blen_le (blen b) H). lia. Qed.

(* encoded id-ecPublicKey *)
Definition PKB : bytes := tlv x06 (oid_body 1 2 [840; 10045; 2; 1]).

Lemma pk_encode : encode_oid_tuple OID_ecPublicKey = Ok PKB.
Proof. reflexivity. Qed.

Lemma pk_blen : blen PKB = 9.
Proof. vm_compute. reflexivity. Qed.

Lemma pk_remove r : remove_object (PKB ++ r) = Ok (OID_ecPublicKey, r).
Proof.
  apply (remove_object_encode 1 2 [840; 10045; 2; 1] r PKB); [reflexivity|].
  vm_compute. reflexivity.
Qed.

Lemma vk_to_der_inv c x y pe ce d : vk_to_der c x y pe ce = Ok d ->
  pe <> Raw /\ exists ps cd, vk_to_string c x y pe = Ok ps /\ curve_to_der c ce pe = Ok cd /\
    d = tlv x30 (tlv x30 (PKB ++ cd) ++ tlv x03 (x00 :: ps)).
Proof.
  unfold vk_to_der. intro H.
  assert (Hpe : pe <> Raw) by (intro E; subst pe; discriminate).
  split; [exact Hpe|].
  assert (H' : (let* point_str := vk_to_string c x y pe in
                let* pk := encode_oid_tuple OID_ecPublicKey in
                let* cd := curve_to_der c ce pe in
                let* bs := encode_bitstring point_str (BsInt 0) in
                Ok (encode_sequence [encode_sequence [pk; cd]; bs])) = Ok d)
    by (destruct pe; [contradiction| | |]; exact H).
  clear H. destruct (vk_to_string c x y pe) as [ps|e]; [|discriminate]. cbn [bind] in H'.
  rewrite pk_encode in H'. cbn [bind] in H'.
  destruct (curve_to_der c ce pe) as [cd|e]; [|discriminate]. cbn [bind] in H'.
  rewrite encode_bitstring_0 in H'. cbn [bind] in H'. apply ok_inj in H'. subst d.
  exists ps, cd. split; [reflexivity|]. split; [reflexivity|].
  rewrite !encode_sequence_tlv. cbn [concat]. rewrite !app_nil_r. reflexivity.
Qed.

Section VkDer.
  Variable sqrt_mod : Z -> N -> option N.
  Variable order_ok : curve -> N -> N -> bool.
  Variable ed_vk : bool -> bytes -> result vkey.
  Variable known : list (list N * cref).

  Notation VFD := (vk_from_der sqrt_mod order_ok ed_vk known).

  (* every output of to_der is one outer SEQUENCE; from_der starts by removing it *)
  Lemma vk_from_der_outer body ext ve ven vex : blen body < LMAX ->
    VFD (tlv x30 body ++ ext) ve ven vex =
    match ext with
    | _ :: _ => Err EUnexpectedDER
    | [] => VFD (tlv x30 body) ve ven vex
    end.
  Proof.
    intro H. destruct ext as [|e0 ext]; [rewrite app_nil_r; reflexivity|].
    unfold vk_from_der. rewrite (remove_sequence_tlv body (e0 :: ext) H). reflexivity.
  Qed.

  Lemma vk_from_der_prefix body k ve ven vex : blen body < LMAX -> (k < length (tlv x30 body))%nat ->
    VFD (firstn k (tlv x30 body)) ve ven vex = Err EUnexpectedDER.
  Proof.
    intros H Hk. unfold vk_from_der. rewrite (remove_sequence_prefix body k H Hk). reflexivity.
  Qed.

  Lemma vk_from_der_shape cd ps ve ven vex : blen cd + blen ps + 1000 < LMAX ->
    VFD (tlv x30 (tlv x30 (PKB ++ cd) ++ tlv x03 (x00 :: ps))) ve ven vex =
    let* cr := curve_from_der sqrt_mod known cd ven vex in
    match cr with
    | CEd w => ed_vk w ps
    | CW c => if blen ps =? vk_length c then Err EUnexpectedDER
              else vk_from_string sqrt_mod order_ok ed_vk cr ps true
                     (match ve with None => encs_der | Some e => e end)
    end.
  Proof.
    intro HS.
    assert (B1 : blen (PKB ++ cd) < LMAX) by (rewrite blen_app, pk_blen; lia).
    assert (B2 : blen (x00 :: ps) < LMAX) by (rewrite blen_cons; lia).
    pose proof (tlv_blen_le x30 _ B1) as L1. pose proof (tlv_blen_le x03 _ B2) as L2.
    rewrite blen_app, pk_blen in L1. rewrite blen_cons in L2.
    assert (B3 : blen (tlv x30 (PKB ++ cd) ++ tlv x03 (x00 :: ps)) < LMAX) by (rewrite blen_app; lia).
    unfold vk_from_der.
    rewrite <- (app_nil_r (tlv x30 (tlv x30 (PKB ++ cd) ++ tlv x03 (x00 :: ps)))).
    rewrite (remove_sequence_tlv _ [] B3). cbn [bind].
    rewrite (remove_sequence_tlv _ _ B1). cbn [bind].
    rewrite pk_remove. cbn [bind].
    change (oid_eqb OID_ecPublicKey OID_Ed25519 || oid_eqb OID_ecPublicKey OID_Ed448) with false.
    change (negb (oid_eqb OID_ecPublicKey OID_ecPublicKey)) with false. cbv iota.
    destruct (curve_from_der sqrt_mod known cd ven vex) as [cr|e]; [|reflexivity]. cbn [bind].
    rewrite <- (app_nil_r (tlv x03 (x00 :: ps))).
    rewrite remove_bitstring_0 by lia. cbn [bind]. reflexivity.
  Qed.

  (* round trip for every curve object whose parameter encoding decodes to itself *)
  Lemma vk_der_roundtrip c x y pe ce d ven vex :
    (pe = Uncompressed \/ pe = Hybrid) -> point_valid order_ok c x y ->
    vk_to_der c x y pe ce = Ok d ->
    (forall cd, curve_to_der c ce pe = Ok cd ->
       curve_from_der sqrt_mod known cd ven vex = Ok (CW c) /\ blen cd < 2 ^ 32) ->
    orderlen (c_p c) < 2 ^ 32 ->
    VFD d None ven vex = Ok (VkW c x y).
  Proof.
    intros Hpe PV Hd Hcd Hl.
    destruct (vk_to_der_inv _ _ _ _ _ _ Hd) as [_ [ps [cd [Hps [Hc ->]]]]].
    destruct (Hcd cd Hc) as [Hfrom Hcl].
    destruct PV as [Hx [Hy PV']].
    destruct (vk_to_string_ok c x y pe Hx Hy) as [ps' [Hps' Hbl]].
    rewrite Hps in Hps'. apply ok_inj in Hps'. subst ps'.
    assert (Hpl : blen ps = 1 + 2 * orderlen (c_p c)).
    { rewrite Hbl. destruct Hpe as [-> | ->]; cbn [enc_tag]; rewrite blen_single; lia. }
    rewrite vk_from_der_shape by (rewrite Hpl; unfold LMAX; lia).
    rewrite Hfrom. cbn [bind]. unfold vk_length.
    destruct (blen ps =? 2 * orderlen (c_p c)) eqn:E; [apply N.eqb_eq in E; lia|].
    apply (vk_string_roundtrip sqrt_mod order_ok ed_vk c x y pe ps true encs_der).
    - destruct Hpe as [-> | ->]; discriminate.
    - repeat split; try assumption; apply PV'.
    - destruct Hpe as [-> | ->]; reflexivity.
    - exact Hps.
  Qed.
End VkDer.

(* ---- the 17 generated curves: parameter encodings decode to the same curve object ---------------- *)

Section Curves17.
  Variable sqrt_mod : Z -> N -> option N.      (* never called: the generator is not compressed *)

  Definition curve_der_ok (r : wrow) : bool :=
    let c := curve_of_row r in
    forallb (fun ce =>
      forallb (fun pe =>
        match curve_to_der c ce pe with
        | Ok cd => res_eqb cref_same (curve_from_der sqrt_mod known_curves cd true true) (Ok (CW c))
                   && (blen cd <? 2 ^ 32)
        | Err _ => false
        end) [Uncompressed; Hybrid])
      [None; Some NamedCurve; Some Explicit].

  Lemma curves17_der_ok : forallb curve_der_ok wrows = true.
  Proof. vm_compute. reflexivity. Qed.

  Lemma curves17_sizes : forallb (fun r => (orderlen (w_p r) <? 2 ^ 32) && (orderlen (w_n r) <? 2 ^ 32)
                                           && negb (w_n r =? 0) && (2 <=? orderlen (w_p r)) && N.odd (w_p r)) wrows = true.
  Proof. vm_compute. reflexivity. Qed.

  Lemma curve17_from_der r ce pe cd : In r wrows -> (pe = Uncompressed \/ pe = Hybrid) ->
    curve_to_der (curve_of_row r) ce pe = Ok cd ->
    curve_from_der sqrt_mod known_curves cd true true = Ok (CW (curve_of_row r)) /\ blen cd < 2 ^ 32.
  Proof.
    intros Hin Hpe Hcd. pose proof curves17_der_ok as A. rewrite forallb_forall in A.
    specialize (A r Hin). unfold curve_der_ok in A. rewrite forallb_forall in A.
    assert (Hce : In ce [None; Some NamedCurve; Some Explicit]).
    { destruct ce as [[|]|]; cbn; auto. }
    specialize (A ce Hce). rewrite forallb_forall in A.
    assert (Hpe' : In pe [Uncompressed; Hybrid]) by (destruct Hpe as [-> | ->]; cbn; auto).
    specialize (A pe Hpe'). rewrite Hcd in A. apply andb_true_iff in A. destruct A as [A1 A2].
    apply N.ltb_lt in A2. split; [|exact A2].
    destruct (curve_from_der sqrt_mod known_curves cd true true) as [cr|e]; [|discriminate].
    cbn [res_eqb] in A1. apply cref_same_eq in A1. congruence.
  Qed.

  Lemma curve17_sizes r : In r wrows ->
    orderlen (w_p r) < 2 ^ 32 /\ orderlen (w_n r) < 2 ^ 32 /\ w_n r <> 0 /\ 2 <= orderlen (w_p r) /\ N.odd (w_p r) = true.
  Proof.
    intro Hin. pose proof curves17_sizes as A. rewrite forallb_forall in A. specialize (A r Hin).
    rewrite !andb_true_iff in A. destruct A as [[[[A1 A2] A3] A4] A5].
    apply N.ltb_lt in A1, A2. apply negb_true_iff, N.eqb_neq in A3. apply N.leb_le in A4. auto.
  Qed.
End Curves17.

(* ---- the 27-byte header of bec2format/crypto.py --------------------------------------------------- *)

Lemma be_length_eq n v : length (be n v) = n.
Proof. apply be_length. Qed.

(* the DER assembly of a P-256 public key from its two 32-byte coordinate strings *)
Definition p256_der (bx by_ : bytes) : bytes :=
  tlv x30 (tlv x30 (PKB ++ tlv x06 (oid_body 1 2 [840; 10045; 3; 1; 7])) ++ tlv x03 (x00 :: x04 :: bx ++ by_)).

Lemma p256_header bx by_ : length bx = 32%nat -> length by_ = 32%nat ->
  p256_der bx by_ = der_header ++ bx ++ by_.
Proof.
  intros Hx Hy.
  do 32 (destruct bx as [|? bx]; [discriminate Hx|]). destruct bx; [|discriminate Hx].
  do 32 (destruct by_ as [|? by_]; [discriminate Hy|]). destruct by_; [|discriminate Hy].
  vm_compute. reflexivity.
Qed.

Lemma p256_orderlen : orderlen (c_p NIST256p) = 32.
Proof. vm_compute. reflexivity. Qed.

Lemma p256_curve_der : curve_to_der NIST256p None Uncompressed = Ok (tlv x06 (oid_body 1 2 [840; 10045; 3; 1; 7])).
Proof. vm_compute. reflexivity. Qed.

Lemma vk_to_der_p256 x y : x < c_p NIST256p -> y < c_p NIST256p ->
  vk_to_der NIST256p x y Uncompressed None = Ok (der_header ++ be 32 x ++ be 32 y).
Proof.
  intros Hx Hy. unfold vk_to_der, vk_to_string.
  rewrite (point_to_bytes_unc (c_p NIST256p) x y Hx Hy). cbn [bind].
  rewrite pk_encode. cbn [bind]. rewrite p256_curve_der. cbn [bind].
  rewrite encode_bitstring_0. cbn [bind].
  rewrite p256_orderlen. change (N.to_nat 32) with 32%nat.
  rewrite <- (p256_header (be 32 x) (be 32 y)) by apply be_length.
  unfold p256_der. rewrite !encode_sequence_tlv. cbn [concat]. rewrite !app_nil_r. reflexivity.
Qed.

Lemma der_header_length : length der_header = 27%nat /\ der_header_len = 27.
Proof. split; vm_compute; reflexivity. Qed.

Lemma to_raw_bin_fmt_p256 x y : x < c_p NIST256p -> y < c_p NIST256p ->
  to_raw_bin_fmt der_header_len NIST256p x y = Ok (be 32 x ++ be 32 y).
Proof.
  intros Hx Hy. unfold to_raw_bin_fmt. rewrite (vk_to_der_p256 x y Hx Hy). cbn [bind].
  f_equal; try (apply dropN_app_exact'; vm_compute; reflexivity).
Qed.

(* ---- DER structure of private keys (SEC1 = "ssleay", PKCS#8) ---------------------------------------- *)

Definition INT1 : bytes := encode_integer 1.
Definition TA0 : byte := n2b (0xA0 + 0).
Definition TA1 : byte := n2b (0xA0 + 1).

Lemma int1_remove r : remove_integer (INT1 ++ r) = Ok (1, r).
Proof. apply remove_integer_encode. vm_compute. reflexivity. Qed.

Lemma int1_blen : blen INT1 = 3.
Proof. reflexivity. Qed.

(* ECPrivateKey body: version, key octets, optional [0] parameters, [1] public key *)
Definition ecpriv_body (ks : bytes) (c0 : option bytes) (evk : bytes) : bytes :=
  INT1 ++ tlv x04 ks ++ (match c0 with Some cd => tlv TA0 cd | None => [] end) ++
  tlv TA1 (tlv x03 (x00 :: evk)).

Lemma sk_to_der_inv c k px py pe fmt ce d : sk_to_der c k px py pe fmt ce = Ok d ->
  pe <> Raw /\ exists evk ks cd,
    vk_to_string c px py pe = Ok evk /\ sk_to_string c k = Ok ks /\ curve_to_der c ce Uncompressed = Ok cd /\
    d = match fmt with
        | Ssleay => tlv x30 (ecpriv_body ks (Some cd) evk)
        | Pkcs8 => tlv x30 (INT1 ++ tlv x30 (PKB ++ cd) ++ tlv x04 (tlv x30 (ecpriv_body ks None evk)))
        end.
Proof.
  unfold sk_to_der. intro H.
  assert (Hpe : pe <> Raw) by (intro E; subst pe; discriminate).
  split; [exact Hpe|].
  assert (H' : (let* encoded_vk := vk_to_string c px py pe in
      let* ks := sk_to_string c k in
      let* cd := curve_to_der c ce Uncompressed in
      let* c0 := encode_constructed 0 cd in
      let* bs := encode_bitstring encoded_vk (BsInt 0) in
      let* c1 := encode_constructed 1 bs in
      let elems := [encode_integer 1; encode_octet_string ks] ++
                   (match fmt with Ssleay => [c0] | Pkcs8 => [] end) ++ [c1] in
      let ec_private_key := encode_sequence elems in
      match fmt with
      | Ssleay => Ok ec_private_key
      | Pkcs8 =>
        let* pk := encode_oid_tuple OID_ecPublicKey in
        Ok (encode_sequence [encode_integer 1; encode_sequence [pk; cd];
                             encode_octet_string ec_private_key])
      end) = Ok d) by (destruct pe; [contradiction| | |]; exact H).
  clear H.
  destruct (vk_to_string c px py pe) as [evk|e]; [|discriminate]. cbn [bind] in H'.
  destruct (sk_to_string c k) as [ks|e]; [|discriminate]. cbn [bind] in H'.
  destruct (curve_to_der c ce Uncompressed) as [cd|e]; [|discriminate]. cbn [bind] in H'.
  rewrite (encode_constructed_ok 0 cd) in H' by lia. cbn [bind] in H'.
  rewrite encode_bitstring_0 in H'. cbn [bind] in H'.
  rewrite (encode_constructed_ok 1) in H' by lia. cbn [bind] in H'. cbv zeta in H'.
  exists evk, ks, cd. repeat (split; [reflexivity|]).
  destruct fmt.
  - apply ok_inj in H'. subst d. rewrite encode_sequence_tlv. unfold ecpriv_body.
    cbn [app concat]. rewrite !app_nil_r. reflexivity.
  - rewrite pk_encode in H'. cbn [bind] in H'. apply ok_inj in H'. subst d.
    rewrite !encode_sequence_tlv. unfold ecpriv_body. cbn [app concat]. rewrite !app_nil_r. reflexivity.
Qed.

Section SkDer.
  Variable sqrt_mod : Z -> N -> option N.
  Variable order_ok : curve -> N -> N -> bool.
  Variable pubmul : curve -> N -> result (N * N).
  Variable ed_sk : bool -> bytes -> result skey.
  Variable known : list (list N * cref).

  Notation SFD := (sk_from_der sqrt_mod order_ok pubmul ed_sk known).

  Lemma sk_from_der_outer body ext ven vex : blen body < LMAX ->
    SFD (tlv x30 body ++ ext) ven vex =
    match ext with
    | _ :: _ => Err EUnexpectedDER
    | [] => SFD (tlv x30 body) ven vex
    end.
  Proof.
    intro H. destruct ext as [|e0 ext]; [rewrite app_nil_r; reflexivity|].
    unfold sk_from_der. rewrite (remove_sequence_tlv body (e0 :: ext) H). reflexivity.
  Qed.

  Lemma sk_from_der_prefix body k ven vex : blen body < LMAX -> (k < length (tlv x30 body))%nat ->
    SFD (firstn k (tlv x30 body)) ven vex = Err EUnexpectedDER.
  Proof.
    intros H Hk. unfold sk_from_der. rewrite (remove_sequence_prefix body k H Hk). reflexivity.
  Qed.

  (* what happens after the private-key octets and the curve are known *)
  Definition sk_finish (cr : cref) (ks : bytes) : result skey :=
    match cr with
    | CEd w => ed_sk w ks
    | CW c =>
      sk_from_string order_ok pubmul ed_sk cr
        (if blen ks <? baselen c then zeros (N.to_nat (baselen c - blen ks)) ++ ks else ks)
    end.

  Lemma is_sequence_tlv04 b r : is_sequence (tlv x04 b ++ r) = false.
  Proof. reflexivity. Qed.
  Lemma is_sequence_tlv30 b r : is_sequence (tlv x30 b ++ r) = true.
  Proof. reflexivity. Qed.

  Lemma sk_from_der_ssleay ks cd evk ven vex : blen ks + blen cd + blen evk + 2000 < LMAX ->
    SFD (tlv x30 (ecpriv_body ks (Some cd) evk)) ven vex =
    let* cr := curve_from_der sqrt_mod known cd ven vex in sk_finish cr ks.
  Proof.
    intro HS. unfold ecpriv_body.
    assert (Bk : blen ks < LMAX) by lia. assert (Bc : blen cd < LMAX) by lia.
    assert (Be : blen (x00 :: evk) < LMAX) by (rewrite blen_cons; lia).
    pose proof (tlv_blen_le x04 _ Bk) as L1. pose proof (tlv_blen_le TA0 _ Bc) as L2.
    pose proof (tlv_blen_le x03 _ Be) as L3. rewrite blen_cons in L3.
    assert (Bb : blen (tlv x03 (x00 :: evk)) < LMAX) by lia.
    pose proof (tlv_blen_le TA1 _ Bb) as L4.
    set (body := INT1 ++ tlv x04 ks ++ tlv TA0 cd ++ tlv TA1 (tlv x03 (x00 :: evk))).
    assert (B : blen body < LMAX) by (unfold body; rewrite !blen_app, int1_blen; lia).
    unfold sk_from_der. rewrite <- (app_nil_r (tlv x30 body)).
    rewrite (remove_sequence_tlv body [] B). cbn [bind]. unfold body.
    rewrite int1_remove. cbn [bind]. rewrite is_sequence_tlv04. cbn [bind].
    change (negb (1 =? 1)) with false. cbv iota.
    rewrite (remove_octet_string_tlv ks _ Bk). cbn [bind].
    unfold TA0. rewrite (remove_constructed_tlv 0 cd _ ltac:(lia) Bc). cbn [bind].
    change (negb (0 =? 0)) with false. cbv iota.
    destruct (curve_from_der sqrt_mod known cd ven vex) as [cr|e]; [|reflexivity]. cbn [bind].
    destruct cr; reflexivity.
  Qed.

  Lemma sk_from_der_pkcs8 ks cd evk ven vex : blen ks + blen cd + blen evk + 2000 < LMAX ->
    SFD (tlv x30 (INT1 ++ tlv x30 (PKB ++ cd) ++ tlv x04 (tlv x30 (ecpriv_body ks None evk)))) ven vex =
    let* cr := curve_from_der sqrt_mod known cd ven vex in sk_finish cr ks.
  Proof.
    intro HS. unfold ecpriv_body. cbn [app].
    assert (Bk : blen ks < LMAX) by lia.
    assert (Bc : blen (PKB ++ cd) < LMAX) by (rewrite blen_app, pk_blen; lia).
    assert (Be : blen (x00 :: evk) < LMAX) by (rewrite blen_cons; lia).
    pose proof (tlv_blen_le x04 _ Bk) as L1. pose proof (tlv_blen_le x30 _ Bc) as L2.
    rewrite blen_app, pk_blen in L2.
    pose proof (tlv_blen_le x03 _ Be) as L3. rewrite blen_cons in L3.
    assert (Bb : blen (tlv x03 (x00 :: evk)) < LMAX) by lia.
    pose proof (tlv_blen_le TA1 _ Bb) as L4.
    set (inner := INT1 ++ tlv x04 ks ++ tlv TA1 (tlv x03 (x00 :: evk))).
    assert (Bi : blen inner < LMAX) by (unfold inner; rewrite !blen_app, int1_blen; lia).
    pose proof (tlv_blen_le x30 _ Bi) as L5.
    assert (Bi2 : blen (tlv x30 inner) < LMAX) by (unfold inner in *; rewrite !blen_app, int1_blen in *; lia).
    pose proof (tlv_blen_le x04 _ Bi2) as L6.
    set (body := INT1 ++ tlv x30 (PKB ++ cd) ++ tlv x04 (tlv x30 inner)).
    assert (B : blen body < LMAX).
    { unfold body. rewrite !blen_app, int1_blen. unfold inner in *. rewrite !blen_app, int1_blen in *. lia. }
    unfold sk_from_der. rewrite <- (app_nil_r (tlv x30 body)).
    rewrite (remove_sequence_tlv body [] B). cbn [bind]. unfold body.
    rewrite int1_remove. cbn [bind]. rewrite is_sequence_tlv30.
    change (negb ((1 =? 0) || (1 =? 1))) with false. cbv iota.
    rewrite (remove_sequence_tlv _ _ Bc). cbn [bind]. rewrite pk_remove. cbn [bind].
    change (oid_eqb OID_ecPublicKey OID_Ed25519 || oid_eqb OID_ecPublicKey OID_Ed448) with false.
    change (negb (oid_eqb OID_ecPublicKey OID_ecPublicKey || oid_eqb OID_ecPublicKey OID_ecDH
                  || oid_eqb OID_ecPublicKey OID_ecMQV)) with false. cbv iota.
    destruct (curve_from_der sqrt_mod known cd ven vex) as [cr|e]; [|reflexivity]. cbn [bind].
    rewrite <- (app_nil_r (tlv x04 (tlv x30 inner))).
    rewrite (remove_octet_string_tlv _ [] Bi2). cbn [bind].
    rewrite <- (app_nil_r (tlv x30 inner)).
    rewrite (remove_sequence_tlv inner [] Bi). cbn [bind]. unfold inner.
    rewrite int1_remove. cbn [bind].
    change (negb (1 =? 1)) with false. cbv iota.
    rewrite (remove_octet_string_tlv ks _ Bk). cbn [bind].
    destruct cr; reflexivity.
  Qed.

  Lemma sk_finish_ok c k px py ks :
    1 <= k -> k < c_n c -> pubmul c k = Ok (px, py) -> px < c_p c -> py < c_p c ->
    sk_to_string c k = Ok ks ->
    sk_finish (CW c) ks = Ok (SkW c k px py).
  Proof.
    intros Hk1 Hkn Hpm Hpx Hpy Hks.
    assert (Hfit : k < 256 ^ orderlen (c_n c)) by (apply lt_order_fits, Hkn).
    unfold sk_to_string in Hks.
    destruct (string_to_number_number_to_string k (c_n c) ks Hfit Hks) as [Hnum Hbl].
    unfold sk_finish, baselen. rewrite Hbl.
    destruct (orderlen (c_n c) <? orderlen (c_n c)) eqn:E; [apply N.ltb_lt in E; lia|].
    unfold sk_from_string, baselen. rewrite Hbl, N.eqb_refl. cbn [negb]. rewrite Hnum. cbn [bind].
    unfold sk_from_secret_exponent.
    apply N.leb_le in Hk1. apply N.ltb_lt in Hkn. rewrite Hk1, Hkn. cbn [andb negb].
    rewrite Hpm. cbn [bind]. unfold vk_from_public_point.
    apply N.ltb_lt in Hpx, Hpy. rewrite Hpx, Hpy. cbn [andb negb].
    apply N.ltb_lt in Hkn. destruct (c_n c =? 0) eqn:E0; [apply N.eqb_eq in E0; lia|]. reflexivity.
  Qed.

  Lemma sk_der_roundtrip c k px py pe fmt ce d ven vex :
    1 <= k -> k < c_n c -> pubmul c k = Ok (px, py) -> px < c_p c -> py < c_p c ->
    sk_to_der c k px py pe fmt ce = Ok d ->
    (forall cd, curve_to_der c ce Uncompressed = Ok cd ->
       curve_from_der sqrt_mod known cd ven vex = Ok (CW c) /\ blen cd < 2 ^ 32) ->
    orderlen (c_p c) < 2 ^ 32 -> orderlen (c_n c) < 2 ^ 32 ->
    SFD d ven vex = Ok (SkW c k px py).
  Proof.
    intros Hk1 Hkn Hpm Hpx Hpy Hd Hcd Hlp Hln.
    destruct (sk_to_der_inv _ _ _ _ _ _ _ _ Hd) as [_ [evk [ks [cd [Hevk [Hks [Hc Hshape]]]]]]].
    destruct (Hcd cd Hc) as [Hfrom Hcl].
    destruct (vk_to_string_ok c px py pe Hpx Hpy) as [evk' [Hevk' Hebl]].
    rewrite Hevk in Hevk'. apply ok_inj in Hevk'. subst evk'.
    assert (Hel : blen evk <= 1 + 2 * orderlen (c_p c)).
    { rewrite Hebl. destruct pe; cbn [enc_tag]; rewrite ?blen_single; change (blen (@nil byte)) with 0; lia. }
    assert (Hfit : k < 256 ^ orderlen (c_n c)) by (apply lt_order_fits, Hkn).
    pose proof Hks as Hks'. unfold sk_to_string in Hks'.
    destruct (string_to_number_number_to_string k (c_n c) ks Hfit Hks') as [_ Hkbl].
    assert (HS : blen ks + blen cd + blen evk + 2000 < LMAX) by (unfold LMAX; lia).
    destruct fmt; subst d.
    - etransitivity; [apply (sk_from_der_ssleay ks cd evk ven vex HS)|]. rewrite Hfrom. cbn [bind].
      eapply sk_finish_ok; eassumption.
    - etransitivity; [apply (sk_from_der_pkcs8 ks cd evk ven vex HS)|]. rewrite Hfrom. cbn [bind].
      eapply sk_finish_ok; eassumption.
  Qed.
End SkDer.

(* ---- error-type closure ------------------------------------------------------------------------------ *)

(* the documented errors of the decoders: UnexpectedDER, MalformedPointError (AssertionError),
   ValueError, UnknownCurveError *)
Definition documented (e : err) : Prop :=
  In e [EUnexpectedDER; EMalformedPoint; EValue; EUnknownCurve].

Lemma doi_uder e : e = EUnexpectedDER -> documented e.
Proof. intros ->. cbn. auto. Qed.

Lemma doi_read_length s e : read_length s = Err e -> documented e.
Proof. intro H. apply doi_uder. eapply read_length_err; eassumption. Qed.
Lemma doi_remove_sequence s e : remove_sequence s = Err e -> documented e.
Proof. intro H. apply doi_uder. eapply remove_sequence_err; eassumption. Qed.
Lemma doi_remove_integer s e : remove_integer s = Err e -> documented e.
Proof. intro H. apply doi_uder. eapply remove_integer_err; eassumption. Qed.
Lemma doi_remove_object s e : remove_object s = Err e -> documented e.
Proof. intro H. apply doi_uder. eapply remove_object_err; eassumption. Qed.
Lemma doi_remove_octet_string s e : remove_octet_string s = Err e -> documented e.
Proof. intro H. apply doi_uder. eapply remove_octet_string_err; eassumption. Qed.
Lemma doi_remove_constructed s e : remove_constructed s = Err e -> documented e.
Proof. intro H. apply doi_uder. eapply remove_constructed_err; eassumption. Qed.
Lemma doi_remove_bitstring s m e : remove_bitstring s m = Err e -> documented e.
Proof. intro H. apply doi_uder. eapply remove_bitstring_err; eassumption. Qed.
Lemma doi_string_to_number s e : string_to_number s = Err e -> documented e.
Proof. destruct s; cbn; intro H; inversion H. cbn. auto. Qed.

Ltac doi_const := solve [cbn; auto 8].

Ltac doi_step H :=
  match type of H with
  | bind ?r _ = Err _ =>
      let E := fresh "E" in let x := fresh "x" in let e0 := fresh "e0" in
      destruct r as [x|e0] eqn:E; cbn [bind] in H;
      [ try (destruct x as [x ?]; try (destruct x as [x ?])); cbv beta iota in H
      | apply err_inj in H; subst; clear H; rename E into H ]
  | (if ?b then _ else _) = Err _ => destruct b
  | match ?l with [] => _ | _ :: _ => _ end = Err _ => destruct l
  | match ?l with Some _ => _ | None => _ end = Err _ => destruct l
  | Err _ = Err _ => apply err_inj in H; subst
  | Ok _ = Err _ => discriminate H
  | match ?x with _ => _ end = Err _ => is_var x; destruct x
  end.

Global Hint Resolve doi_read_length doi_remove_sequence doi_remove_integer doi_remove_object
  doi_remove_octet_string doi_remove_constructed doi_remove_bitstring doi_string_to_number : doi.

Ltac doi_done := first [ doi_const | solve [eauto with doi] ].

Lemma doi_from_raw_encoding d rel e : from_raw_encoding d rel = Err e -> documented e.
Proof. unfold from_raw_encoding. intro H. repeat (doi_step H; try doi_done). Qed.
Global Hint Resolve doi_from_raw_encoding : doi.

Section Closure.
  Variable sqrt_mod : Z -> N -> option N.
  Variable order_ok : curve -> N -> N -> bool.
  Variable pubmul : curve -> N -> result (N * N).
  Variable ed_vk : bool -> bytes -> result vkey.
  Variable ed_sk : bool -> bytes -> result skey.
  Variable known : list (list N * cref).

  Lemma doi_point_from_bytes c d v ve e : point_from_bytes sqrt_mod c d v ve = Err e -> documented e.
  Proof.
    unfold point_from_bytes, from_hybrid, from_compressed. intro H.
    repeat (doi_step H; try doi_done).
  Qed.

  Lemma doi_vk_from_public_point c x y v e : vk_from_public_point order_ok c x y v = Err e -> documented e.
  Proof. unfold vk_from_public_point. intro H. repeat (doi_step H; try doi_done). Qed.

  Hypothesis ed_vk_err : forall w s e, ed_vk w s = Err e -> documented e.
  Hypothesis ed_sk_err : forall w s e, ed_sk w s = Err e -> documented e.
  Hypothesis pubmul_err : forall c k e, pubmul c k = Err e -> documented e.

  Lemma doi_vk_from_string cr s v ve e :
    vk_from_string sqrt_mod order_ok ed_vk cr s v ve = Err e -> documented e.
  Proof.
    unfold vk_from_string. intro H. destruct cr; [|eapply ed_vk_err; eassumption].
    doi_step H; [|eapply doi_point_from_bytes; eassumption].
    eapply doi_vk_from_public_point; eassumption.
  Qed.

  Lemma doi_find_curve l oid e : find_curve_in l oid = Err e -> documented e.
  Proof.
    induction l as [|[o c] t IH]; cbn [find_curve_in]; intro H.
    - apply err_inj in H. subst. doi_const.
    - destruct (oid_eqb o oid); [discriminate | auto].
  Qed.

  Lemma doi_curve_from_der d ven vex e : curve_from_der sqrt_mod known d ven vex = Err e -> documented e.
  Proof.
    unfold curve_from_der, find_curve. intro H.
    destruct (if ven || vex then (ven, vex) else (true, true)) as [ven' vex'].
    repeat (doi_step H; try doi_done);
      try (eapply doi_find_curve; eassumption); try (eapply doi_point_from_bytes; eassumption).
  Qed.

  Lemma doi_vk_from_der s ve ven vex e :
    vk_from_der sqrt_mod order_ok ed_vk known s ve ven vex = Err e -> documented e.
  Proof.
    unfold vk_from_der. intro H.
    repeat (doi_step H; try doi_done);
      try (eapply ed_vk_err; eassumption); try (eapply doi_curve_from_der; eassumption);
      try (eapply doi_vk_from_string; eassumption).
  Qed.

  Lemma doi_sk_from_secret_exponent c k e :
    sk_from_secret_exponent order_ok pubmul c k = Err e -> documented e.
  Proof.
    unfold sk_from_secret_exponent. intro H.
    repeat (doi_step H; try doi_done);
      try (eapply pubmul_err; eassumption); try (eapply doi_vk_from_public_point; eassumption).
  Qed.

  Lemma doi_sk_from_string cr s e :
    sk_from_string order_ok pubmul ed_sk cr s = Err e -> documented e.
  Proof.
    unfold sk_from_string. intro H. destruct cr; [|eapply ed_sk_err; eassumption].
    repeat (doi_step H; try doi_done); try (eapply doi_sk_from_secret_exponent; eassumption).
  Qed.

  Lemma doi_sk_from_der s ven vex e :
    sk_from_der sqrt_mod order_ok pubmul ed_sk known s ven vex = Err e -> documented e.
  Proof.
    unfold sk_from_der. intro H.
    repeat (doi_step H; try doi_done);
      try (eapply ed_sk_err; eassumption); try (eapply doi_curve_from_der; eassumption);
      try (eapply doi_sk_from_string; eassumption).
  Qed.

  (* the plug-in turns UnexpectedDER and MalformedPointError into ValueError *)
  Lemma create_from_der_fmt_err d e :
    create_from_der_fmt sqrt_mod order_ok ed_vk known d = Err e -> In e [EValue; EUnknownCurve].
  Proof.
    unfold create_from_der_fmt, catch.
    destruct (vk_from_der sqrt_mod order_ok ed_vk known d None true true) as [k|e0] eqn:E; [discriminate|].
    apply doi_vk_from_der in E. unfold documented in E. cbn [In] in E.
    destruct E as [<-|[<-|[<-|[<-|[]]]]]; cbn; intro H; apply err_inj in H; subst; auto.
  Qed.

End Closure.

(* ---- the final round-trip statements for the 17 generated curves -------------------------------------- *)

Section Final.
  Variable sqrt_mod : Z -> N -> option N.
  Variable order_ok : curve -> N -> N -> bool.
  Variable pubmul : curve -> N -> result (N * N).
  Variable ed_vk : bool -> bytes -> result vkey.
  Variable ed_sk : bool -> bytes -> result skey.

  Lemma curve_of_row_p r : c_p (curve_of_row r) = w_p r. Proof. reflexivity. Qed.
  Lemma curve_of_row_n r : c_n (curve_of_row r) = w_n r. Proof. reflexivity. Qed.

  Lemma vk_to_der_total r x y pe ce : In r wrows -> (pe = Uncompressed \/ pe = Hybrid) ->
    x < w_p r -> y < w_p r -> exists d, vk_to_der (curve_of_row r) x y pe ce = Ok d.
  Proof.
    intros Hin Hpe Hx Hy.
    destruct (vk_to_string_ok (curve_of_row r) x y pe Hx Hy) as [ps [Hps _]].
    pose proof (curves17_der_ok sqrt_mod) as A. rewrite forallb_forall in A.
    specialize (A r Hin). unfold curve_der_ok in A. rewrite forallb_forall in A.
    assert (Hce : In ce [None; Some NamedCurve; Some Explicit]) by (destruct ce as [[|]|]; cbn; auto).
    specialize (A ce Hce). rewrite forallb_forall in A.
    assert (Hpe' : In pe [Uncompressed; Hybrid]) by (destruct Hpe as [-> | ->]; cbn; auto).
    specialize (A pe Hpe').
    destruct (curve_to_der (curve_of_row r) ce pe) as [cd|e] eqn:Ecd; [|discriminate].
    destruct Hpe as [-> | ->]; unfold vk_to_der; rewrite Hps; cbn [bind]; rewrite pk_encode; cbn [bind];
      rewrite Ecd; cbn [bind]; rewrite encode_bitstring_0; cbn [bind]; eexists; reflexivity.
  Qed.

  Lemma vk_der_roundtrip17 r x y pe ce d : In r wrows -> (pe = Uncompressed \/ pe = Hybrid) ->
    point_valid order_ok (curve_of_row r) x y ->
    vk_to_der (curve_of_row r) x y pe ce = Ok d ->
    vk_from_der sqrt_mod order_ok ed_vk known_curves d None true true = Ok (VkW (curve_of_row r) x y).
  Proof.
    intros Hin Hpe PV Hd. destruct (curve17_sizes r Hin) as [S1 _].
    eapply vk_der_roundtrip; try eassumption.
    intros cd Hcd. apply (curve17_from_der sqrt_mod r ce pe cd Hin Hpe Hcd).
  Qed.

  Lemma sk_der_roundtrip17 r k px py pe fmt ce d : In r wrows ->
    1 <= k -> k < w_n r -> pubmul (curve_of_row r) k = Ok (px, py) -> px < w_p r -> py < w_p r ->
    sk_to_der (curve_of_row r) k px py pe fmt ce = Ok d ->
    sk_from_der sqrt_mod order_ok pubmul ed_sk known_curves d true true = Ok (SkW (curve_of_row r) k px py).
  Proof.
    intros Hin Hk1 Hkn Hpm Hpx Hpy Hd. destruct (curve17_sizes r Hin) as [S1 [S2 _]].
    eapply sk_der_roundtrip; try eassumption.
    intros cd Hcd. apply (curve17_from_der sqrt_mod r ce Uncompressed cd Hin (or_introl eq_refl) Hcd).
  Qed.

  (* bec2format: raw 64-byte format <-> DER through the constant 27-byte header *)
  Lemma raw_fmt_roundtrip x y raw : point_valid order_ok NIST256p x y ->
    to_raw_bin_fmt der_header_len NIST256p x y = Ok raw ->
    raw = be 32 x ++ be 32 y /\
    create_from_raw_fmt sqrt_mod order_ok ed_vk known_curves der_header raw = Ok (VkW NIST256p x y).
  Proof.
    intros PV Hraw. pose proof PV as [Hx [Hy _]].
    rewrite (to_raw_bin_fmt_p256 x y Hx Hy) in Hraw. apply ok_inj in Hraw. subst raw.
    split; [reflexivity|].
    unfold create_from_raw_fmt, create_from_der_fmt.
    assert (Hin : In w_NIST256p wrows) by (vm_compute; auto 20).
    pose proof (vk_der_roundtrip17 w_NIST256p x y Uncompressed None _ Hin (or_introl eq_refl) PV
                  (vk_to_der_p256 x y Hx Hy)) as R.
    change (curve_of_row w_NIST256p) with NIST256p in R. rewrite R. reflexivity.
  Qed.
End Final.

(* point strings: only MalformedPointError (AssertionError) or ValueError *)
Lemma string_to_number_err s e : string_to_number s = Err e -> e = EValue.
Proof. destruct s; cbn; intro H; inversion H. reflexivity. Qed.

Lemma vk_from_string_err_w sqrt_mod order_ok ed_vk c s validate ve e :
  vk_from_string sqrt_mod order_ok ed_vk (CW c) s validate ve = Err e -> e = EMalformedPoint \/ e = EValue.
Proof.
  unfold vk_from_string, point_from_bytes, from_hybrid, from_compressed, from_raw_encoding,
    vk_from_public_point. intro H.
  repeat (doi_step H; try solve [left; reflexivity | right; reflexivity
                                | right; eapply string_to_number_err; eassumption]).
Qed.

(* ---- PEM framing (base64 opaque) ------------------------------------------------------------------- *)

Lemma split_nl_aux_line l : forall rest cur, ~ In nl l ->
  split_nl_aux (l ++ nl :: rest) cur = (rev cur ++ l) :: split_nl_aux rest [].
Proof.
  induction l as [|c l IH]; intros rest cur H.
  - cbn [app split_nl_aux]. rewrite byte_eqb_refl, app_nil_r. reflexivity.
  - cbn [app split_nl_aux].
    assert (Hc : byte_eqb c nl = false) by (apply byte_eqb_neq; intro E; apply H; left; auto).
    rewrite Hc. rewrite IH by (intro X; apply H; right; exact X).
    cbn [rev]. rewrite <- app_assoc. reflexivity.
Qed.

Lemma split_nl_aux_last l : forall cur, ~ In nl l -> split_nl_aux l cur = [rev cur ++ l].
Proof.
  induction l as [|c l IH]; intros cur H.
  - cbn. rewrite app_nil_r. reflexivity.
  - cbn [split_nl_aux].
    assert (Hc : byte_eqb c nl = false) by (apply byte_eqb_neq; intro E; apply H; left; auto).
    rewrite Hc, IH by (intro X; apply H; right; exact X). cbn [rev]. rewrite <- app_assoc. reflexivity.
Qed.

Lemma split_nl_lines chs rest : Forall (fun l => ~ In nl l) chs ->
  split_nl (concat (map (fun l => l ++ [nl]) chs) ++ rest) = chs ++ split_nl rest.
Proof.
  induction chs as [|c chs IH]; intro H; [reflexivity|].
  inversion H as [|? ? Hc Hr]; subst. cbn [map concat]. rewrite <- !app_assoc. cbn [app].
  unfold split_nl at 1. rewrite split_nl_aux_line by exact Hc. cbn [rev app].
  fold (split_nl (concat (map (fun l => l ++ [nl]) chs) ++ rest)). rewrite IH by exact Hr. reflexivity.
Qed.

Lemma chunks_concat f : forall n s, 1 <= n -> (length s <= f)%nat -> concat (chunks f n s) = s.
Proof.
  induction f as [|f IH]; intros n s Hn Hl.
  - destruct s; [reflexivity | cbn in Hl; lia].
  - destruct s as [|c s']; [reflexivity|]. cbn [chunks concat].
    rewrite IH; [apply takeN_dropN | exact Hn |].
    pose proof (dropN_blen n (c :: s')) as B. unfold blen in B. cbn [length] in *. lia.
Qed.

Lemma chunks_forall (P : byte -> Prop) f : forall n s, 1 <= n -> Forall P s ->
  Forall (fun c => c <> [] /\ Forall P c) (chunks f n s).
Proof.
  induction f as [|f IH]; intros n s Hn HP; [constructor|].
  destruct s as [|c s']; [constructor|]. cbn [chunks].
  pose proof (takeN_dropN n (c :: s')) as TD. rewrite <- TD in HP. apply Forall_app in HP.
  destruct HP as [HP1 HP2]. constructor.
  - split; [|exact HP1]. intro E.
    pose proof (takeN_blen n (c :: s')) as B. rewrite E in B. rewrite blen_cons in B.
    change (blen (@nil byte)) with 0 in B. lia.
  - apply IH; assumption.
Qed.

Lemma lstrip_id l : (forall b t, l = b :: t -> is_ws b = false) -> lstrip l = l.
Proof. destruct l as [|b t]; [reflexivity|]. intro H. cbn [lstrip]. rewrite (H b t eq_refl). reflexivity. Qed.

Lemma strip_id l : Forall (fun b => is_ws b = false) l -> strip l = l.
Proof.
  intro H. unfold strip.
  rewrite (lstrip_id l) by (intros b t E; subst; inversion H; assumption).
  rewrite lstrip_id; [apply rev_involutive|].
  intros b t E. apply Forall_rev in H. rewrite E in H. inversion H; assumption.
Qed.

Definition b64char (c : byte) : Prop := c <> nl /\ is_ws c = false /\ c <> dash.

Definition pem_keep (l : bytes) : bool :=
  match l with [] => false | _ :: _ => negb (starts_with dashes5 l) end.

Lemma pem_keep_chunks chs : Forall (fun c => c <> [] /\ Forall b64char c) chs -> filter pem_keep chs = chs.
Proof.
  induction chs as [|c cs IH]; intro HF; [reflexivity|].
  inversion HF as [|? ? [Hne Hc] Hr]; subst. cbn [filter].
  destruct c as [|h t]; [contradiction|].
  inversion Hc as [|? ? [_ [_ Hd]] _]; subst.
  assert (E : byte_eqb dash h = false) by (apply byte_eqb_neq; intro X; apply Hd; symmetry; exact X).
  unfold pem_keep at 1. cbn [dashes5 starts_with]. rewrite E. cbn [andb negb]. f_equal. apply IH. exact Hr.
Qed.

Lemma map_strip_chunks chs : Forall (fun c => c <> [] /\ Forall b64char c) chs -> map strip chs = chs.
Proof.
  induction chs as [|c cs IH]; intro HF; [reflexivity|].
  inversion HF as [|? ? [_ Hc] Hr]; subst. cbn [map]. f_equal; [|apply IH; exact Hr].
  apply strip_id. eapply Forall_impl; [|exact Hc]. intros b [_ [Hw _]]. exact Hw.
Qed.

Lemma no_nl_label pre name : ~ In nl pre -> ~ In nl name -> ~ In nl (dashes5 ++ pre ++ name ++ dashes5).
Proof.
  intros Hp Hn X. rewrite !in_app_iff in X. destruct X as [X|[X|[X|X]]]; try contradiction;
    cbn in X; repeat (destruct X as [X|X]; [discriminate|]); exact X.
Qed.

Section PemProof.
  Variable b64encode : bytes -> bytes.
  Variable b64decode : bytes -> result bytes.

  (* what the theorem needs to know about base64: its alphabet has no newline, no white space, no '-' *)
  Hypothesis enc_alphabet : forall d, Forall b64char (b64encode d).
  Hypothesis dec_enc : forall d, b64decode (b64encode d) = Ok d.

  Lemma unpem_topem der name : ~ In nl name -> unpem b64decode (topem b64encode der name) = Ok der.
  Proof.
    intro Hname. unfold unpem, topem.
    set (b64 := b64encode der).
    pose proof (chunks_forall b64char (length b64) 64 b64 ltac:(lia) (enc_alphabet der)) as HF.
    pose proof (chunks_concat (length b64) 64 b64 ltac:(lia) (le_n _)) as HC.
    set (chs := chunks (length b64) 64 b64) in *. clearbody chs.
    set (pre1 := [ "B"; "E"; "G"; "I"; "N"; " " ]%byte). set (pre2 := [ "E"; "N"; "D"; " " ]%byte).
    assert (Hh : ~ In nl (dashes5 ++ pre1 ++ name ++ dashes5)).
    { apply no_nl_label; [|exact Hname]. cbn. intros X. repeat (destruct X as [X|X]; [discriminate|]). exact X. }
    assert (Hf : ~ In nl (dashes5 ++ pre2 ++ name ++ dashes5)).
    { apply no_nl_label; [|exact Hname]. cbn. intros X. repeat (destruct X as [X|X]; [discriminate|]). exact X. }
    set (hdr := dashes5 ++ pre1 ++ name ++ dashes5) in *.
    set (ftr := dashes5 ++ pre2 ++ name ++ dashes5) in *.
    replace (dashes5 ++ pre1 ++ name ++ dashes5 ++ [nl]) with (hdr ++ [nl])
      by (unfold hdr; rewrite <- !app_assoc; reflexivity).
    replace (dashes5 ++ pre2 ++ name ++ dashes5 ++ [nl]) with (ftr ++ [nl])
      by (unfold ftr; rewrite <- !app_assoc; reflexivity).
    assert (Split : split_nl ((hdr ++ [nl]) ++ concat (map (fun l => l ++ [nl]) chs) ++ ftr ++ [nl])
                    = hdr :: chs ++ [ftr; []]).
    { rewrite <- app_assoc. cbn [app]. unfold split_nl at 1. rewrite split_nl_aux_line by exact Hh.
      cbn [rev app]. fold (split_nl (concat (map (fun l => l ++ [nl]) chs) ++ ftr ++ [nl])).
      rewrite split_nl_lines.
      - f_equal. f_equal. unfold split_nl. rewrite split_nl_aux_line by exact Hf. reflexivity.
      - eapply Forall_impl; [|exact HF]. intros c [_ Hc] X.
        rewrite Forall_forall in Hc. destruct (Hc nl X) as [Hn _]. apply Hn. reflexivity. }
    rewrite Split.
    transitivity (b64decode (concat (map strip (filter pem_keep (hdr :: chs ++ [ftr; []]))))); [reflexivity|].
    assert (Filt : filter pem_keep (hdr :: chs ++ [ftr; []]) = chs).
    { cbn [filter]. rewrite filter_app. cbn [filter].
      assert (K1 : pem_keep hdr = false) by reflexivity.
      assert (K2 : pem_keep ftr = false) by reflexivity.
      rewrite K1, K2. cbn [pem_keep]. rewrite app_nil_r. apply pem_keep_chunks, HF. }
    rewrite Filt, (map_strip_chunks chs HF), HC. apply dec_enc.
  Qed.
End PemProof.

Lemma vk_pem_roundtrip17 (b64encode : bytes -> bytes) (b64decode : bytes -> result bytes)
  sqrt_mod order_ok ed_vk r x y pe ce pem :
  (forall d, Forall b64char (b64encode d)) -> (forall d, b64decode (b64encode d) = Ok d) ->
  In r wrows -> (pe = Uncompressed \/ pe = Hybrid) -> point_valid order_ok (curve_of_row r) x y ->
  vk_to_pem b64encode (curve_of_row r) x y pe ce = Ok pem ->
  vk_from_pem sqrt_mod order_ok ed_vk known_curves b64decode pem None true true = Ok (VkW (curve_of_row r) x y).
Proof.
  intros HA HD Hin Hpe PV Hpem. unfold vk_to_pem in Hpem.
  destruct (vk_to_der (curve_of_row r) x y pe ce) as [d|e] eqn:Ed; [|discriminate].
  cbn [bind] in Hpem. apply ok_inj in Hpem. subst pem.
  unfold vk_from_pem. rewrite (unpem_topem b64encode b64decode HA HD).
  - cbn [bind]. eapply vk_der_roundtrip17; eassumption.
  - cbn. intros X. repeat (destruct X as [X|X]; [discriminate|]). exact X.
Qed.

(* raw private-key strings *)
Lemma sk_string_roundtrip order_ok pubmul ed_sk c k px py ks :
  1 <= k -> k < c_n c -> pubmul c k = Ok (px, py) -> px < c_p c -> py < c_p c ->
  sk_to_string c k = Ok ks ->
  blen ks = baselen c /\ sk_from_string order_ok pubmul ed_sk (CW c) ks = Ok (SkW c k px py).
Proof.
  intros Hk1 Hkn Hpm Hpx Hpy Hks.
  assert (Hfit : k < 256 ^ orderlen (c_n c)) by (apply lt_order_fits, Hkn).
  unfold sk_to_string in Hks.
  destruct (string_to_number_number_to_string k (c_n c) ks Hfit Hks) as [Hnum Hbl].
  split; [exact Hbl|].
  unfold sk_from_string, baselen. rewrite Hbl, N.eqb_refl. cbn [negb]. rewrite Hnum. cbn [bind].
  unfold sk_from_secret_exponent.
  apply N.leb_le in Hk1. apply N.ltb_lt in Hkn. rewrite Hk1, Hkn. cbn [andb negb].
  rewrite Hpm. cbn [bind]. unfold vk_from_public_point.
  apply N.ltb_lt in Hpx, Hpy. rewrite Hpx, Hpy. cbn [andb negb].
  apply N.ltb_lt in Hkn. destruct (c_n c =? 0) eqn:E0; [apply N.eqb_eq in E0; lia|]. reflexivity.
Qed.

(* a private-key string of the wrong length is rejected *)
Lemma sk_from_string_wrong_length order_ok pubmul ed_sk c s : blen s <> baselen c ->
  sk_from_string order_ok pubmul ed_sk (CW c) s = Err EMalformedPoint.
Proof.
  intro H. unfold sk_from_string. apply N.eqb_neq in H. rewrite H. reflexivity.
Qed.

(* a point string whose length is that of no enabled encoding is rejected *)
Lemma point_from_bytes_wrong_length sqrt_mod c s v ve :
  blen s <> 2 * orderlen (c_p c) -> blen s <> 2 * orderlen (c_p c) + 1 ->
  blen s <> 2 * orderlen (c_p c) / 2 + 1 ->
  point_from_bytes sqrt_mod c s v ve = Err EMalformedPoint.
Proof.
  intros H1 H2 H3. unfold point_from_bytes.
  apply N.eqb_neq in H1, H2, H3. rewrite H1, H2, H3. reflexivity.
Qed.

(* ---- the secret scalar must lie in 1 .. n-1 ------------------------------------------------------------ *)

Section SkRange.
  Variable sqrt_mod : Z -> N -> option N.
  Variable order_ok : curve -> N -> N -> bool.
  Variable pubmul : curve -> N -> result (N * N).
  Variable ed_sk : bool -> bytes -> result skey.
  Variable known : list (list N * cref).

  Lemma sk_from_secret_exponent_range c k : k = 0 \/ c_n c <= k ->
    sk_from_secret_exponent order_ok pubmul c k = Err EMalformedPoint.
  Proof.
    intro H. unfold sk_from_secret_exponent.
    assert (E : ((1 <=? k) && (k <? c_n c)) = false).
    { destruct H as [-> | H]; [reflexivity|]. apply andb_false_iff. right. apply N.ltb_ge. exact H. }
    rewrite E. reflexivity.
  Qed.

  Lemma sk_from_string_range c s k : blen s = baselen c -> string_to_number s = Ok k ->
    k = 0 \/ c_n c <= k ->
    sk_from_string order_ok pubmul ed_sk (CW c) s = Err EMalformedPoint.
  Proof.
    intros Hb Hn Hk. unfold sk_from_string. rewrite Hb, N.eqb_refl. cbn [negb]. rewrite Hn. cbn [bind].
    apply sk_from_secret_exponent_range, Hk.
  Qed.

  Lemma sk_finish_range c ks k : blen ks = baselen c -> string_to_number ks = Ok k ->
    k = 0 \/ c_n c <= k ->
    sk_finish order_ok pubmul ed_sk (CW c) ks = Err EMalformedPoint.
  Proof.
    intros Hb Hn Hk. unfold sk_finish. rewrite Hb.
    destruct (baselen c <? baselen c) eqn:E; [apply N.ltb_lt in E; lia|].
    eapply sk_from_string_range; eassumption.
  Qed.

  (* SEC1 and PKCS#8 files whose key octets encode 0 or a value >= n are rejected as malformed *)
  Lemma sk_der_range_rejected c ks cd evk k fmt ven vex :
    blen ks = baselen c -> string_to_number ks = Ok k -> k = 0 \/ c_n c <= k ->
    curve_from_der sqrt_mod known cd ven vex = Ok (CW c) ->
    blen ks + blen cd + blen evk + 2000 < LMAX ->
    sk_from_der sqrt_mod order_ok pubmul ed_sk known
      (match fmt with
       | Ssleay => tlv x30 (ecpriv_body ks (Some cd) evk)
       | Pkcs8 => tlv x30 (INT1 ++ tlv x30 (PKB ++ cd) ++ tlv x04 (tlv x30 (ecpriv_body ks None evk)))
       end) ven vex = Err EMalformedPoint.
  Proof.
    intros Hb Hn Hk Hc HS. destruct fmt.
    - etransitivity; [apply (sk_from_der_ssleay sqrt_mod order_ok pubmul ed_sk known ks cd evk ven vex HS)|].
      rewrite Hc. cbn [bind]. eapply sk_finish_range; eassumption.
    - etransitivity; [apply (sk_from_der_pkcs8 sqrt_mod order_ok pubmul ed_sk known ks cd evk ven vex HS)|].
      rewrite Hc. cbn [bind]. eapply sk_finish_range; eassumption.
  Qed.
End SkRange.
