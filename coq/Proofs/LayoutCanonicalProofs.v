(* C05 (canonical form): what the reader returns, written again, gives the same bytes.
   Part 1: for any cipher, a layout whose fields belong to a component list is what
   ser_dir / payloads produce for that list.  Part 2: the registered adapter. *)
From Coq Require Import List Bool NArith ZArith Lia.
From Coq Require Import Init.Byte.
From Bec2 Require Import Base.Result Base.Bytes Base.Reader Gen.Consts Model.Cbc Model.Bf3 Model.Layout
  Proofs.CbcProofs Proofs.Bf3Proofs Proofs.LayoutProofs Proofs.LayoutWriterProofs Proofs.LayoutReaderProofs.
Import ListNotations.
Open Scope N_scope.

Lemma to_bytes_fit n v : v < 256 ^ N.of_nat n -> to_bytes n v = Ok (be n v).
Proof. intro H. unfold to_bytes. destruct (v <? 256 ^ N.of_nat n) eqn:E; [reflexivity|apply N.ltb_ge in E; lia]. Qed.

Section Complete.
  Variable enc mac : bytes -> option bytes -> bytes -> result bytes.

  Lemma ser_entry_complete c ndx k f e :
    comp_fields enc k c f ->
    is_dir_entry mac true k (1 + ndx) (ef_adr (fr_entry f)) (ef_total (fr_entry f)) (ef_actual (fr_entry f))
                 (ef_pmac (fr_entry f)) (ef_tags (fr_entry f)) e ->
    ef_total (fr_entry f) = blen (fr_payload f) ->
    mac k None (fr_payload f) = Ok (ef_pmac (fr_entry f)) ->
    ser_entry enc mac c ndx (ef_adr (fr_entry f)) k = Ok (e, fr_payload f).
  Proof.
    intros [Hr [Ht Ha]] [tb emac Hadr Htot Hact Lp [Htb ND] Ltb Hidx Le Hm] Etot Hpm.
    unfold ser_entry. rewrite Hr. cbn [bind]. rewrite Hpm. cbn [bind].
    rewrite (to_bytes_fit 4) by (rewrite p32; exact Hadr). cbn [bind].
    rewrite <- Etot. rewrite (to_bytes_fit 4) by (rewrite p32; exact Htot). cbn [bind].
    rewrite <- Ha. rewrite (to_bytes_fit 4) by (rewrite p32; exact Hact). cbn [bind].
    rewrite <- Ht. rewrite (proj2 (ser_tags_tag_bytes _ _) Htb). cbn [bind].
    rewrite (to_bytes_fit 1) by exact Ltb. cbn [bind].
    rewrite (to_bytes_fit 16) by (rewrite p128; exact Hidx). cbn [bind].
    unfold mac_is in Hm. rewrite Hm. cbn [bind]. reflexivity.
  Qed.

  Lemma ser_dir_complete k cs fs : Forall2 (comp_fields enc k) cs fs ->
    forall ndx adr ents pl,
    is_entries mac true k (1 + ndx) (map fr_entry fs) ents ->
    payloads_at mac true k adr fs pl ->
    ser_dir enc mac cs ndx adr k = Ok ents /\ payloads enc cs k = Ok pl.
  Proof.
    induction 1 as [|c f cs fs Hcf _ IH]; intros ndx adr ents pl He Hp.
    - cbn [map] in He. inversion He; subst. inversion Hp; subst. split; reflexivity.
    - cbn [map] in He. inversion He as [|idx f0 fs0 e rest Hde Le Hr]; subst.
      inversion Hp as [|a f1 fs1 prest Ha Ht Hc Hm Hpr]; subst.
      unfold mac_is in Hm.
      replace (1 + ndx + 1) with (1 + (ndx + 1)) in Hr by lia.
      destruct (IH _ _ _ _ Hr Hpr) as [IH1 IH2].
      cbn [ser_dir payloads].
      rewrite (ser_entry_complete c ndx k f e Hcf Hde Ht Hm). cbn [bind].
      rewrite (to_bytes_fit 1) by exact Le. cbn [bind].
      rewrite IH1. cbn [bind]. destruct Hcf as [Hraw _]. rewrite Hraw. cbn [bind]. rewrite IH2.
      split; reflexivity.
  Qed.
End Complete.

(* ---- the registered adapter -------------------------------------------------------- *)
Lemma pad_id q : blen q mod 16 = 0 -> pad q = q.
Proof.
  intro H. unfold pad, pad_length.
  replace (- Z.of_N (blen q) mod 16)%Z with 0%Z; [simpl; apply app_nil_r|].
  pose proof (N.div_mod (blen q) 16 ltac:(lia)) as E. rewrite H in E.
  set (t := blen q / 16) in *. rewrite E.
  replace (- Z.of_N (16 * t + 0))%Z with ((- Z.of_N t) * 16)%Z by lia.
  symmetry. apply Z.mod_mul. lia.
Qed.

Section AdapterCanon.
  Variable E D : bytes -> bytes -> bytes.
  Hypothesis E_len : forall k b, length b = 16%nat -> length (E k b) = 16%nat.
  Hypothesis D_len : forall k b, length b = 16%nat -> length (D k b) = 16%nat.
  Hypothesis DE : forall k b, length b = 16%nat -> D k (E k b) = b.
  Hypothesis ED : forall k b, length b = 16%nat -> E k (D k b) = b.

  Let enc := adapter_encrypt E.
  Let dec := adapter_decrypt D.
  Let mac := adapter_mac E.

  Lemma cbc_dec_enc k m : forall f1 f2 c prev,
    length c = (16 * m)%nat -> (16 * m <= f1)%nat -> (16 * m <= f2)%nat -> length prev = 16%nat ->
    length (cbc_dec D f1 k prev c) = (16 * m)%nat /\
    cbc_enc E f2 k prev (cbc_dec D f1 k prev c) = c.
  Proof.
    induction m as [|m IH]; intros f1 f2 c prev Hc H1 H2 Hp.
    - destruct c; [|simpl in Hc; lia]. destruct f1; simpl; destruct f2; auto.
    - destruct f1 as [|f1]; [lia|]. destruct f2 as [|f2]; [lia|].
      assert (Hne : c <> []) by (intro Hn; subst c; simpl in Hc; lia).
      rewrite (cbc_dec_S D f1 k prev c Hne).
      set (c0 := firstn 16 c).
      assert (Hc0 : length c0 = 16%nat) by (unfold c0; rewrite firstn_length; lia).
      assert (Hd0 : length (D k c0) = 16%nat) by (apply D_len, Hc0).
      assert (Hx : length (xor_bytes (D k c0) prev) = 16%nat) by (rewrite xor_bytes_length; lia).
      assert (Hs : length (skipn 16 c) = (16 * m)%nat) by (rewrite skipn_length; lia).
      destruct (IH f1 f2 (skipn 16 c) c0 Hs ltac:(lia) ltac:(lia) Hc0) as [IHl IHe].
      split; [rewrite app_length, IHl, Hx; lia|].
      set (x := xor_bytes (D k c0) prev) in *. set (rest := cbc_dec D f1 k c0 (skipn 16 c)) in *.
      assert (Hne2 : x ++ rest <> []).
      { intro Hn. apply (f_equal (@length byte)) in Hn. rewrite app_length, Hx in Hn. simpl in Hn. lia. }
      rewrite (cbc_enc_S E f2 k prev _ Hne2).
      assert (F : firstn 16 (x ++ rest) = x).
      { rewrite firstn_app, Hx. replace (16 - 16)%nat with 0%nat by lia.
        rewrite (firstn_all2 (n:=16) x) by lia. simpl. apply app_nil_r. }
      assert (S' : skipn 16 (x ++ rest) = rest).
      { rewrite skipn_app, Hx. replace (16 - 16)%nat with 0%nat by lia.
        rewrite (skipn_all2 (n:=16) x) by lia. reflexivity. }
      rewrite F, S'. unfold x. rewrite xor_bytes_invol by lia. rewrite ED by exact Hc0.
      rewrite IHe. apply firstn_skipn.
  Qed.

  Lemma c_mac_len : forall k iv d m, d <> [] -> mac k iv d = Ok m -> blen m = 16.
  Proof. exact (adapter_mac_len E D E_len DE). Qed.
  Lemma c_enc_len : forall k d c, blen d mod 16 = 0 -> enc k None d = Ok c -> blen c = blen d.
  Proof. intros k d c Hm He. exact (proj2 (adapter_inverse E D E_len DE k None d c Hm He)). Qed.

  (* a payload the reader could decrypt is the encryption of what it got *)
  Lemma adapter_dec_enc k p q : p <> [] -> dec k None p = Ok q ->
    blen q = blen p /\ blen p mod 16 = 0 /\ enc k None q = Ok p.
  Proof.
    intros Hne H. unfold dec in H. rewrite (adapter_decrypt_ne D k None p Hne) in H.
    destruct (blen p mod 16 =? 0) eqn:Em; cbn [negb] in H; [|discriminate H]. apply N.eqb_eq in Em.
    destruct (key_ok k) eqn:Ek; cbn [negb] in H; [|discriminate H].
    destruct (blen (the_iv None) =? 16) eqn:Ei; cbn [negb] in H; [|discriminate H].
    inversion H; subst q. clear H.
    destruct (mod16_nat p Em) as [m Hl].
    assert (Hiv : length (the_iv None) = 16%nat) by reflexivity.
    destruct (cbc_dec_enc k m (length p) (length p) p (the_iv None) Hl ltac:(lia) ltac:(lia) Hiv) as [L R].
    assert (Lq : blen (cbc_dec D (length p) k (the_iv None) p) = blen p) by (unfold blen; lia).
    split; [exact Lq|]. split; [exact Em|].
    assert (Hne2 : cbc_dec D (length p) k (the_iv None) p <> []).
    { intro Hn. rewrite Hn in Lq. destruct p; [contradiction|]. rewrite blen_cons, blen_nil in Lq. lia. }
    change (zeros 16) with (the_iv None).
    unfold enc. rewrite (adapter_encrypt_ne E k None _ Hne2), Ek, Ei. cbn [negb].
    rewrite zero_pad_aligned by (rewrite Lq; exact Em).
    replace (length (cbc_dec D (length p) k (the_iv None) p)) with (length p) by lia.
    rewrite R. reflexivity.
  Qed.

  Lemma adapter_enc_total k iv d : d <> [] -> key_ok k = true -> blen (the_iv iv) = 16 ->
    exists c, adapter_encrypt E k iv d = Ok c.
  Proof.
    intros Hne Hk Hi. rewrite (adapter_encrypt_ne E k iv d Hne), Hk. cbn [negb].
    rewrite (proj2 (N.eqb_eq _ _) Hi). cbn [negb]. eexists. reflexivity.
  Qed.

  Lemma adapter_mac_total k iv d : d <> [] -> key_ok k = true -> blen (the_iv iv) = 16 ->
    exists m, mac k iv d = Ok m /\ blen m = 16.
  Proof.
    intros Hne Hk Hi. destruct (adapter_enc_total k iv d Hne Hk Hi) as [c Hc].
    unfold mac, adapter_mac. rewrite Hc. cbn [bind]. eexists. split; [reflexivity|].
    apply (c_mac_len k iv d); [exact Hne|]. unfold mac, adapter_mac. rewrite Hc. reflexivity.
  Qed.

  (* the same component under another (valid) key: stored data of the same length *)
  Lemma raw_rekey c k k' raw : wf_comp c -> raw_data enc c k = Ok raw -> key_ok k' = true ->
    exists raw', raw_data enc c k' = Ok raw' /\ blen raw' = blen raw /\ raw' <> [].
  Proof.
    intros [_ [Hb [Hal _]]] Hr Hk. unfold raw_data in *. destruct (c_enc c).
    - destruct (pad_aligned (c_blob c)) as [Hm Hle].
      assert (Hpne : pad (c_blob c) <> []).
      { intro Hn. rewrite Hn, blen_nil in Hle. destruct (c_blob c); [contradiction|]. rewrite blen_cons in Hle. lia. }
      destruct (adapter_enc_total k' None _ Hpne Hk eq_refl) as [c' Hc'].
      exists c'. split; [exact Hc'|].
      pose proof (c_enc_len _ _ _ Hm Hr) as L1. pose proof (c_enc_len _ _ _ Hm Hc') as L2.
      split; [lia|]. intro Hn. rewrite Hn, blen_nil in L2.
      destruct (c_blob c); [contradiction|]. rewrite blen_cons in Hle. lia.
    - inversion Hr; subst. exists (c_blob c). auto.
  Qed.

  Lemma ser_entry_rekey c n a k a' k' entry raw :
    ser_entry enc mac c n a k = Ok (entry, raw) -> wf_comp c -> key_ok k' = true -> a' <= a ->
    exists entry' raw', ser_entry enc mac c n a' k' = Ok (entry', raw') /\
                        blen raw' = blen raw /\ blen entry' = blen entry.
  Proof.
    intros H Hwf Hk Ha.
    assert (Hraw : raw <> [] /\ raw_data enc c k = Ok raw).
    { unfold ser_entry in H. destruct (raw_data enc c k) as [r0|] eqn:Er; cbn [bind] in H; [|discriminate].
      assert (r0 = raw).
      { repeat match type of H with
               | bind ?r _ = Ok _ => destruct r; cbn [bind] in H; [|discriminate]
               end. inversion H; reflexivity. }
      subst r0. split; [|reflexivity].
      destruct (wf_okc enc c_enc_len k c Hwf) as [_ Ho]. apply (Ho raw Er). }
    destruct Hraw as [Hne Hr].
    destruct (ser_entry_facts enc mac c_mac_len c n a k entry raw H Hne) as [_ [_ [tags [Etags Elen]]]].
    destruct (raw_rekey c k k' raw Hwf Hr Hk) as [raw' [Hr' [Lr' Hne']]].
    destruct (adapter_mac_total k' None raw' Hne' Hk eq_refl) as [pmac' [Hpm' Lpm']].
    unfold ser_entry in H.
    bind_inv H as raw0 Eraw. bind_inv H as pmac Epmac. bind_inv H as ab Ea. bind_inv H as tl Etl.
    bind_inv H as al Eal. bind_inv H as tags0 Etags0. bind_inv H as tgl Etgl.
    bind_inv H as iv Eiv. bind_inv H as emac Eemac. inversion H; subst entry raw0. clear H.
    assert (tags0 = tags) by congruence. subst tags0.
    apply to_bytes_be in Ea as [-> Hab]. apply to_bytes_be in Etl as [-> Htl].
    apply to_bytes_be in Eal as [-> Hal]. apply to_bytes_be in Etgl as [-> Htgl].
    apply to_bytes_be in Eiv as [-> Hiv].
    set (body' := be 4 a' ++ be 4 (blen raw') ++ be 4 (c_alen c) ++ pmac' ++ be 1 (blen tags) ++ tags).
    assert (Hb' : body' <> []).
    { unfold body'. intro Hn. apply (f_equal (@length byte)) in Hn.
      rewrite !app_length, !be_length in Hn. simpl in Hn. lia. }
    assert (Hivl : blen (the_iv (Some (be 16 (1 + n)))) = 16) by (cbn [the_iv]; apply be_blen).
    destruct (adapter_mac_total k' (Some (be 16 (1 + n))) body' Hb' Hk Hivl) as [emac' [Hem' Lem']].
    exists (body' ++ emac'), raw'.
    assert (Hser : ser_entry enc mac c n a' k' = Ok (body' ++ emac', raw')).
    { unfold ser_entry. rewrite Hr'. cbn [bind]. rewrite Hpm'. cbn [bind].
      rewrite (to_bytes_fit 4 a') by lia. cbn [bind].
      rewrite Lr'. rewrite (to_bytes_fit 4 (blen raw)) by exact Htl. cbn [bind].
      rewrite (to_bytes_fit 4 (c_alen c)) by exact Hal. cbn [bind].
      rewrite Etags0. cbn [bind]. rewrite (to_bytes_fit 1 (blen tags)) by exact Htgl. cbn [bind].
      rewrite (to_bytes_fit 16 (1 + n)) by exact Hiv. cbn [bind].
      unfold body' in Hem'. rewrite Lr' in Hem'. rewrite Hem'. cbn [bind].
      unfold body'. rewrite Lr'. reflexivity. }
    split; [exact Hser|]. split; [exact Lr'|].
    destruct (ser_entry_facts enc mac c_mac_len c n a' k' _ raw' Hser Hne') as [_ [_ [tags2 [Etags2 Elen2]]]].
    assert (tags2 = tags) by congruence. subst tags2. rewrite Elen2, Elen. reflexivity.
  Qed.

  Lemma ser_dir_rekey cs : forall n a k a' k' db,
    ser_dir enc mac cs n a k = Ok db -> Forall wf_comp cs -> key_ok k' = true -> a' <= a ->
    exists db', ser_dir enc mac cs n a' k' = Ok db'.
  Proof.
    induction cs as [|c cs IH]; intros n a k a' k' db H Hwf Hk Ha; cbn [ser_dir] in *.
    - eexists. reflexivity.
    - destruct (ser_entry enc mac c n a k) as [[entry raw]|] eqn:Ee; cbn [bind] in H; [|discriminate].
      bind_inv H as el Eel. bind_inv H as rdb Erest.
      inversion Hwf as [|? ? Hc Hwf']; subst.
      destruct (ser_entry_rekey c n a k a' k' entry raw Ee Hc Hk Ha) as [entry' [raw' [Ee' [Lr Le]]]].
      rewrite Ee'. cbn [bind]. apply to_bytes_be in Eel as [_ Hel].
      rewrite Le, (to_bytes_fit 1 (blen entry)) by exact Hel. cbn [bind].
      destruct (IH (n + 1) (a + blen raw) k (a' + blen raw') k' rdb Erest Hwf' Hk ltac:(lia)) as [db' Hdb'].
      rewrite Hdb'. cbn [bind]. eexists. reflexivity.
  Qed.
  Lemma enc_tagged_iff tags :
    enc_tagged tags = true <-> dict_get N.eqb tags BF3TAG_ENC = Some enc_tag_value.
  Proof.
    unfold enc_tagged. destruct (dict_get N.eqb tags BF3TAG_ENC) as [v|]; [|split; discriminate].
    rewrite bytes_eqb_eq. split; [intros ->; reflexivity|intro H; inversion H; reflexivity].
  Qed.

  (* one returned component: it is a well-formed object whose fields are the record it came from *)
  Lemma returned_comp k f c :
    field_comp dec k f c ->
    NoDup (map fst (ef_tags (fr_entry f))) ->
    ef_total (fr_entry f) = blen (fr_payload f) ->
    ef_actual (fr_entry f) <= ef_total (fr_entry f) ->
    1 <= ef_actual (fr_entry f) ->
    comp_fields enc k c f /\ wf_comp c.
  Proof.
    intros [H1 [H2 H3]] ND Ht Hle Hge.
    assert (Hpne : fr_payload f <> []).
    { intro Hn. rewrite Hn, blen_nil in Ht. lia. }
    assert (Hal : c_alen c = ef_actual (fr_entry f)).
    { rewrite H3. unfold declared. destruct (ef_actual (fr_entry f) =? 0) eqn:Ez; [|reflexivity].
      apply N.eqb_eq in Ez. lia. }
    unfold comp_fields, wf_comp, raw_data. rewrite H1, Hal.
    destruct (enc_tagged (ef_tags (fr_entry f))) eqn:Et; destruct H2 as [H2 H2'].
    - destruct (adapter_dec_enc k _ _ Hpne H2) as [Lq [Lm He]].
      rewrite H2', pad_id by (rewrite Lq; exact Lm). rewrite He.
      split; [auto|]. split; [exact ND|]. split.
      { intro Hn. rewrite Hn, blen_nil in Lq. lia. }
      split; [rewrite Lq; lia|]. split; [intros _; apply enc_tagged_iff, Et|reflexivity].
    - rewrite H2', H2. split; [auto|]. split; [exact ND|]. split; [exact Hpne|]. split; [lia|].
      split; [discriminate|]. intro Hg. apply enc_tagged_iff in Hg. congruence.
  Qed.

  Lemma returned_comps k fs cs : Forall2 (field_comp dec k) fs cs ->
    forall a pl idx ents,
    payloads_at mac true k a fs pl -> is_entries mac true k idx (map fr_entry fs) ents ->
    Forall (fun f => 1 <= ef_actual (fr_entry f)) fs ->
    Forall2 (comp_fields enc k) cs fs /\ Forall wf_comp cs.
  Proof.
    induction 1 as [|f c fs cs Hfc _ IH]; intros a pl idx ents Hp He Hd.
    - split; constructor.
    - inversion Hp as [|a0 f0 fs0 rest Ha Ht Hc Hm Hpr]; subst.
      cbn [map] in He. inversion He as [|i0 ef0 efs0 e rest' Hde Le Hr]; subst.
      inversion Hd as [|? ? Hd1 Hd']; subst.
      destruct Hde as [tb emac _ _ _ _ [_ ND] _ _ _ _].
      destruct (returned_comp k f c Hfc ND Ht Hc Hd1) as [R1 R2].
      destruct (IH _ _ _ _ Hpr Hr Hd') as [I1 I2].
      split; constructor; assumption.
  Qed.

  Theorem adapter_canonical b off k cs :
    from_binary dec mac (mkR b off) true k = Ok cs ->
    (forall fs, is_bf3_body mac off k fs b -> Forall (fun f => 1 <= ef_actual (fr_entry f)) fs) ->
    to_binary enc mac cs off k = Ok b.
  Proof.
    intros H Hdecl.
    destruct (from_binary_sound dec mac true b off k cs H) as [fs [Hb Hc]].
    pose proof (Hdecl fs Hb) as Hd. destruct Hb as [ents pl He Hs Hp].
    destruct (returned_comps k fs cs Hc _ _ _ _ Hp He Hd) as [Hcf Hwf].
    change 1 with (1 + 0) in He.
    destruct (ser_dir_complete enc mac k cs fs Hcf 0 _ ents pl He Hp) as [Esd Epl].
    assert (Hk0 : key_ok DEFAULT_SESSION_KEY = true) by reflexivity.
    destruct (ser_dir_rekey cs 0 _ k 0 DEFAULT_SESSION_KEY ents Esd Hwf Hk0 ltac:(lia)) as [db0 Edb0].
    destruct (ser_dir_blen enc mac c_mac_len c_enc_len cs _ _ _ _ _ _ _ _ Edb0 Esd Hwf) as [Hl _].
    assert (Hl1 : blen (db0 ++ [x00]) = blen (ents ++ [x00])) by (rewrite !blen_app, Hl; reflexivity).
    unfold to_binary, dir_to_binary. rewrite Edb0. cbn [bind].
    rewrite Hl1. rewrite (to_bytes_fit 4) by (rewrite p32; exact Hs). cbn [bind].
    replace (off + blen (be 4 (blen (ents ++ [x00])) ++ db0 ++ [x00])) with (off + 4 + blen (ents ++ [x00])).
    2:{ rewrite (blen_app (be 4 (blen (ents ++ [x00]))) (db0 ++ [x00])), be_blen, Hl1.
        change (N.of_nat 4) with 4. lia. }
    rewrite Esd. cbn [bind]. rewrite (to_bytes_fit 4) by (rewrite p32; exact Hs). cbn [bind].
    rewrite Epl. cbn [bind]. rewrite <- app_assoc. reflexivity.
  Qed.
End AdapterCanon.
