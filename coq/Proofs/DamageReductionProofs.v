(* C04, part 3: byte replacement and wrong session key reduce to a MAC forgery.
   If the reader (MAC checking on) accepts a binary b' under a key k', then either
   b' is the authentic binary and k' the authentic key, or one of the MAC comparisons
   it made succeeded on a (key, iv, message, tag) the writer never produced, or the
   authentic file itself contains a payload-MAC collision, or b' is the empty file. *)
From Coq Require Import List Bool NArith ZArith Lia.
From Coq Require Import Init.Byte.
From Bec2 Require Import Base.Result Base.Bytes Base.Reader Gen.Consts Model.Bf3 Model.Damage
  Proofs.Bf3Proofs Proofs.DamageProofs Proofs.DamageStructProofs.
Import ListNotations.
Open Scope N_scope.

(* directory bytes of a list of raw entries, without the sentinel *)
Definition frame_entries (R : list bytes) : bytes :=
  flat_map (fun e => n2b (blen e) :: e) R.

Lemma be_inj n v w : v < 256 ^ N.of_nat n -> w < 256 ^ N.of_nat n -> be n v = be n w -> v = w.
Proof.
  intros Hv Hw H. rewrite <- (from_be_be_small n v Hv), <- (from_be_be_small n w Hw), H. reflexivity.
Qed.

Lemma app_inv_length {A} (a b c d : list A) : a ++ b = c ++ d -> length a = length c -> a = c /\ b = d.
Proof.
  revert c. induction a as [|x a IH]; intros [|y c] H L; simpl in *; try discriminate.
  - split; [reflexivity|exact H].
  - inversion H; subst. destruct (IH c H2 ltac:(lia)) as [-> ->]. split; reflexivity.
Qed.

Lemma takeN_lastN {A} n (l : list A) : n <= blen l -> takeN (blen l - n) l ++ lastN n l = l.
Proof. intro H. unfold lastN. apply takeN_dropN. Qed.

Lemma rd_read_int_ok n r v r' :
  rd_read_int n r = Ok (v, r') ->
  exists b, rest r = b ++ rest r' /\ blen b = n /\ pos r' = pos r + n /\ v = from_be b.
Proof.
  unfold rd_read_int. destruct (rd_read n r) as [[b r1]|] eqn:E; cbn [bind]; intro H; [|discriminate].
  inversion H; subst. destruct (rd_read_ok _ _ _ _ E) as [H1 [H2 H3]]. exists b. repeat split; assumption.
Qed.

Section Inv.
  Variable mac : bytes -> option bytes -> bytes -> result bytes.

  (* acceptance with MAC checking implies acceptance without, same result *)
  Lemma parse_entry_check_off entry ndx k x :
    parse_entry mac entry ndx true k = Ok x -> parse_entry mac entry ndx false k = Ok x.
  Proof.
    unfold parse_entry. intro H.
    repeat match type of H with
    | bind ?m _ = Ok _ => destruct m as [[? ?]|]; cbn [bind] in H |- *; [|discriminate]
    | (if ?c then _ else _) = Ok _ => destruct c; [discriminate|]
    end.
    destruct (to_bytes 16 ndx); cbn [bind] in H |- *; [|discriminate].
    repeat match type of H with
    | bind (rd_read_int ?a ?b) _ = Ok _ => destruct (rd_read_int a b) as [[? ?]|]; cbn [bind] in H |- *; [|discriminate]
    | bind (rd_read ?a ?b) _ = Ok _ => destruct (rd_read a b) as [[? ?]|]; cbn [bind] in H |- *; [|discriminate]
    end.
    destruct (parse_tags _ _ _); cbn [bind] in H |- *; [|discriminate].
    destruct (rd_read CMAC_SIZE _) as [[? ?]|]; cbn [bind] in H |- *; [|discriminate].
    match type of H with bind ?m _ = _ => destruct m; cbn [bind] in H; [|discriminate] end.
    exact H.
  Qed.

  (* an accepted entry: the comparison the reader made is entry_check, and it holds *)
  Lemma parse_entry_inv entry ndx k e er :
    parse_entry mac entry ndx true k = Ok (e, er) -> rest er = [] ->
    ndx < 256 ^ N.of_nat 16 /\ 16 <= blen entry /\ verified mac (entry_check k ndx entry).
  Proof.
    unfold parse_entry, new_reader. intros H Her.
    destruct (rd_read_int 4 _) as [[adr r1]|] eqn:E1; cbn [bind] in H; [|discriminate].
    destruct (rd_read_int 4 r1) as [[tl r2]|] eqn:E2; cbn [bind] in H; [|discriminate].
    destruct (rd_read_int 4 r2) as [[al r3]|] eqn:E3; cbn [bind] in H; [|discriminate].
    destruct (tl <? al); [discriminate|].
    destruct (rd_read CMAC_SIZE r3) as [[pmac r4]|] eqn:E4; cbn [bind] in H; [|discriminate].
    destruct (to_bytes 16 ndx) as [iv|] eqn:Eiv; cbn [bind] in H; [|discriminate].
    destruct (rd_read_int 1 r4) as [[dl r5]|] eqn:E5; cbn [bind] in H; [|discriminate].
    destruct (rd_read dl r5) as [[db r6]|] eqn:E6; cbn [bind] in H; [|discriminate].
    destruct (parse_tags _ _ _) as [d|]; cbn [bind] in H; [|discriminate].
    destruct (rd_read CMAC_SIZE r6) as [[stored r7]|] eqn:E7; cbn [bind] in H; [|discriminate].
    destruct (mac k (Some iv) (takeN (blen entry - CMAC_SIZE) entry)) as [actual|] eqn:Em; cbn [bind] in H; [|discriminate].
    destruct (bytes_eqb stored actual) eqn:Eq; cbn [bind] in H; [|discriminate].
    inversion H; subst e er. clear H.
    apply bytes_eqb_eq in Eq. subst actual.
    apply to_bytes_be in Eiv as [-> Hndx].
    destruct (rd_read_int_ok _ _ _ _ E1) as [b1 [R1 _]]. destruct (rd_read_int_ok _ _ _ _ E2) as [b2 [R2 _]].
    destruct (rd_read_int_ok _ _ _ _ E3) as [b3 [R3 _]]. destruct (rd_read_ok _ _ _ _ E4) as [R4 _].
    destruct (rd_read_int_ok _ _ _ _ E5) as [b5 [R5 _]]. destruct (rd_read_ok _ _ _ _ E6) as [R6 _].
    destruct (rd_read_ok _ _ _ _ E7) as [R7 [L7 _]].
    cbn [rest] in R1. rewrite R2, R3, R4, R5, R6, R7, Her, app_nil_r in R1.
    assert (Hst : entry = (b1 ++ b2 ++ b3 ++ pmac ++ b5 ++ db) ++ stored).
    { rewrite R1, <- !app_assoc. reflexivity. }
    change CMAC_SIZE with 16 in *.
    split; [exact Hndx|]. split.
    - rewrite Hst, blen_app, L7. lia.
    - unfold verified, entry_check. change CMAC_SIZE with 16. rewrite Em. f_equal.
      rewrite Hst at 1. rewrite <- L7. symmetry. apply lastN_app_exact.
  Qed.

  (* the reader's entries relative to the raw entries *)
  Fixpoint entries_parse (R : list bytes) (ndx : N) (k : bytes) (es : list dentry) : Prop :=
    match R, es with
    | [], [] => True
    | e :: R', d :: es' =>
      (exists er, parse_entry mac e ndx true k = Ok (d, er) /\ rest er = []) /\ entries_parse R' (ndx + 1) k es'
    | _, _ => False
    end.

  Lemma parse_dir_inv fuel : forall dr len ndx k acc es dr',
    parse_dir mac fuel dr len ndx true k acc = Ok (es, dr') ->
    exists R esR, raw_entries fuel dr len = Ok (R, dr') /\ es = rev acc ++ esR /\
      entries_parse R ndx k esR /\
      parse_dir mac fuel dr len ndx false k acc = Ok (es, dr').
  Proof.
    induction fuel as [|f IH]; intros dr len ndx k acc es dr' H; [discriminate|].
    cbn [parse_dir raw_entries] in H |- *.
    destruct (len =? 0).
    { inversion H; subst. exists [], []. rewrite app_nil_r. repeat split. }
    destruct (rd_read len dr) as [[entry dr1]|]; cbn [bind] in H |- *; [|discriminate].
    destruct (parse_entry mac entry ndx true k) as [[e er]|] eqn:Ep; cbn [bind] in H; [|discriminate].
    rewrite (parse_entry_check_off _ _ _ _ Ep). cbn [bind].
    destruct (rd_read_int 1 dr1) as [[len' dr2]|]; cbn [bind] in H |- *; [|discriminate].
    destruct (rd_ensure_eof er) eqn:Ee; cbn [bind] in H |- *; [|discriminate].
    destruct (IH _ _ _ _ _ _ _ H) as [R [esR [HR [-> [HP HF]]]]].
    exists (entry :: R), (e :: esR). rewrite HR. cbn [bind].
    split; [reflexivity|]. split; [cbn [rev]; rewrite <- app_assoc; reflexivity|].
    split; [|exact HF].
    cbn [entries_parse]. split; [|exact HP]. exists er. split; [exact Ep|].
    unfold rd_ensure_eof, rd_eof in Ee. destruct (rest er); [reflexivity|discriminate].
  Qed.

  Lemma raw_entries_frame fuel : forall dr len R dr',
    raw_entries fuel dr len = Ok (R, dr') -> len < 256 ->
    n2b len :: rest dr = frame_entries R ++ [x00] ++ rest dr'.
  Proof.
    induction fuel as [|f IH]; intros dr len R dr' H Hl; [discriminate|].
    cbn [raw_entries] in H.
    destruct (len =? 0) eqn:Ez.
    { inversion H; subst. apply N.eqb_eq in Ez. subst len. reflexivity. }
    destruct (rd_read len dr) as [[entry dr1]|] eqn:E1; cbn [bind] in H; [|discriminate].
    destruct (rd_read_int 1 dr1) as [[len' dr2]|] eqn:E2; cbn [bind] in H; [|discriminate].
    destruct (raw_entries f dr2 len') as [[R' dr3]|] eqn:E3; cbn [bind] in H; [|discriminate].
    inversion H; subst R dr3. clear H.
    destruct (rd_read_ok _ _ _ _ E1) as [R1 [L1 _]].
    destruct (rd_read_int_ok _ _ _ _ E2) as [b [R2 [L2 [_ Hv]]]].
    assert (Hb : exists y, b = [y]).
    { destruct b as [|y [|z b]]; cbn in L2; try lia. exists y. reflexivity. }
    destruct Hb as [y ->].
    assert (Hl' : len' < 256).
    { subst len'. pose proof (from_be_lt [y]) as Hlt. cbn [blen length N.of_nat] in Hlt. exact Hlt. }
    assert (Hy : n2b len' = y).
    { subst len'. unfold from_be. cbn. apply n2b_b2n. }
    specialize (IH _ _ _ _ E3 Hl').
    cbn [frame_entries flat_map]. fold (frame_entries R').
    rewrite R1, R2, L1. cbn [app]. rewrite <- Hy, <- app_assoc.
    cbn [app] in IH |- *. rewrite IH. reflexivity.
  Qed.
End Inv.

Section Emit.
  Variable enc mac : bytes -> option bytes -> bytes -> result bytes.
  Hypothesis mac_len : forall k iv d m, d <> [] -> mac k iv d = Ok m -> blen m = 16.
  Hypothesis enc_len : forall k d c, blen d mod 16 = 0 -> enc k None d = Ok c -> blen c = blen d.

  (* entry_macs recomputes exactly what ser_entry computes *)
  Lemma entry_macs_ser c ndx adr k qs :
    entry_macs enc mac c ndx adr k = Ok qs ->
    exists body emac raw pmac,
      qs = [(k, Some (be 16 (1 + ndx)), body, emac); (k, None, raw, pmac)] /\
      ser_entry enc mac c ndx adr k = Ok (body ++ emac, raw) /\
      raw_data enc c k = Ok raw /\ mac k None raw = Ok pmac /\ 1 + ndx < 256 ^ N.of_nat 16.
  Proof.
    unfold entry_macs, ser_entry. intro H.
    bind_inv H as raw Eraw. bind_inv H as pmac Epmac. bind_inv H as a Ea. bind_inv H as tl Etl.
    bind_inv H as al Eal. bind_inv H as tags Etags. bind_inv H as tgl Etgl.
    bind_inv H as iv Eiv. bind_inv H as emac Eemac. inversion H; subst qs. clear H.
    apply to_bytes_be in Eiv as [-> Hiv].
    exists (a ++ tl ++ al ++ pmac ++ tgl ++ tags), emac, raw, pmac.
    repeat split; try reflexivity; try assumption.
    cbn [bind]. rewrite Epmac. cbn [bind]. rewrite Etl. cbn [bind]. rewrite Etgl. cbn [bind].
    rewrite Eemac. reflexivity.
  Qed.

  Lemma ser_entry_macs c ndx adr k entry raw :
    ser_entry enc mac c ndx adr k = Ok (entry, raw) -> exists qs, entry_macs enc mac c ndx adr k = Ok qs.
  Proof.
    unfold entry_macs, ser_entry. intro H.
    bind_inv H as raw' Eraw. bind_inv H as pmac Epmac. bind_inv H as a Ea. bind_inv H as tl Etl.
    bind_inv H as al Eal. bind_inv H as tags Etags. bind_inv H as tgl Etgl.
    bind_inv H as iv Eiv. bind_inv H as emac Eemac.
    cbn [bind]. rewrite Epmac. cbn [bind]. rewrite Etl. cbn [bind]. rewrite Etgl. cbn [bind].
    rewrite Eemac. cbn [bind]. eexists. reflexivity.
  Qed.

  Lemma dir_macs_exists cs : forall ndx adr k d,
    ser_dir enc mac cs ndx adr k = Ok d -> exists E, dir_macs enc mac cs ndx adr k = Ok E.
  Proof.
    induction cs as [|c cs IH]; intros ndx adr k d H.
    - exists []. reflexivity.
    - cbn [ser_dir dir_macs] in H |- *.
      destruct (ser_entry enc mac c ndx adr k) as [[entry raw]|] eqn:Ee; cbn [bind] in H; [|discriminate].
      bind_inv H as el Eel. bind_inv H as rdb Erest.
      rewrite (ser_entry_raw enc mac _ _ _ _ _ _ Ee). cbn [bind].
      destruct (ser_entry_macs _ _ _ _ _ _ Ee) as [qs ->]. cbn [bind].
      destruct (IH _ _ _ _ Erest) as [E' ->]. cbn [bind]. eexists. reflexivity.
  Qed.

  (* every entry MAC in the emitted list is the MAC of the entry with that index *)
  Lemma dir_macs_entry_inv cs : forall ndx adr k E k' iv m t,
    dir_macs enc mac cs ndx adr k = Ok E -> In (k', Some iv, m, t) E ->
    exists cs1 c cs2 p1 raw, cs = cs1 ++ c :: cs2 /\ payloads enc cs1 k = Ok p1 /\ k' = k /\
      iv = be 16 (1 + ndx + blen cs1) /\ 1 + ndx + blen cs1 < 256 ^ N.of_nat 16 /\
      ser_entry enc mac c (ndx + blen cs1) (adr + blen p1) k = Ok (m ++ t, raw).
  Proof.
    induction cs as [|c cs IH]; intros ndx adr k E k' iv m t H Hin.
    - cbn in H. inversion H; subst. destruct Hin.
    - cbn [dir_macs] in H. bind_inv H as raw Eraw. bind_inv H as qs Eqs. bind_inv H as r Er.
      inversion H; subst E. clear H.
      apply in_app_or in Hin as [Hin|Hin].
      + destruct (entry_macs_ser _ _ _ _ _ Eqs) as [body [emac [raw' [pmac [-> [Ese [Eraw' [_ Hb]]]]]]]].
        destruct Hin as [Hq|[Hq|[]]]; [|discriminate].
        inversion Hq; subst k' iv m t. clear Hq.
        exists [], c, cs, [], raw'. rewrite blen_nil, !N.add_0_r. repeat split; try assumption; reflexivity.
      + destruct (IH _ _ _ _ _ _ _ _ Er Hin) as [cs1 [c' [cs2 [p1 [raw' [-> [Hp [-> [-> [Hb Hs]]]]]]]]]].
        exists (c :: cs1), c', cs2, (raw ++ p1), raw'.
        cbn [payloads app]. rewrite Eraw. cbn [bind]. rewrite Hp. cbn [bind].
        rewrite blen_cons, blen_app.
        replace (1 + ndx + (1 + blen cs1)) with (1 + (ndx + 1) + blen cs1) by lia.
        replace (ndx + (1 + blen cs1)) with (ndx + 1 + blen cs1) by lia.
        replace (adr + (blen raw + blen p1)) with (adr + blen raw + blen p1) by lia.
        repeat split; try assumption; reflexivity.
  Qed.

  (* every payload MAC of the file is in the emitted list *)
  Lemma dir_macs_payload_in cs : forall ndx adr k E c raw pmac,
    dir_macs enc mac cs ndx adr k = Ok E -> In c cs -> raw_data enc c k = Ok raw -> mac k None raw = Ok pmac ->
    In (k, None, raw, pmac) E.
  Proof.
    induction cs as [|c0 cs IH]; intros ndx adr k E c raw pmac H Hin Hr Hm; [destruct Hin|].
    cbn [dir_macs] in H. bind_inv H as raw0 Eraw. bind_inv H as qs Eqs. bind_inv H as r Er.
    inversion H; subst E. clear H. apply in_or_app.
    destruct Hin as [->|Hin].
    - left. destruct (entry_macs_ser _ _ _ _ _ Eqs) as [body [emac [raw' [pmac' [-> [_ [Eraw' [Epm _]]]]]]]].
      rewrite Hr in Eraw'. inversion Eraw'; subst raw'. rewrite Hm in Epm. inversion Epm; subst pmac'.
      right. left. reflexivity.
    - right. exact (IH _ _ _ _ _ _ _ Er Hin Hr Hm).
  Qed.

  Lemma macs_emitted_layout cs off k b : Forall wf_comp cs -> to_binary enc mac cs off k = Ok b ->
    exists db pb E, ser_dir enc mac cs 0 (off + 4 + (blen db + 1)) k = Ok db /\ payloads enc cs k = Ok pb /\
      blen db + 1 < 256 ^ N.of_nat 4 /\ b = be 4 (blen db + 1) ++ (db ++ [x00]) ++ pb /\
      macs_emitted enc mac cs off k = Ok E /\ dir_macs enc mac cs 0 (off + 4 + (blen db + 1)) k = Ok E.
  Proof.
    intros Hwf H. unfold to_binary in H. unfold macs_emitted.
    bind_inv H as d0 Ed0. bind_inv H as d Ed. bind_inv H as pb Epb. inversion H; subst b. clear H.
    unfold dir_to_binary in Ed0, Ed.
    bind_inv Ed0 as db0 Edb0. bind_inv Ed0 as sz0 Esz0. inversion Ed0; subst d0. clear Ed0.
    bind_inv Ed as db Edb. bind_inv Ed as sz Esz. inversion Ed; subst d. clear Ed.
    apply to_bytes_be in Esz0 as [-> _]. apply to_bytes_be in Esz as [-> Hsz].
    destruct (ser_dir_blen enc mac mac_len enc_len cs _ _ _ _ _ _ _ _ Edb0 Edb Hwf) as [Hl _].
    assert (Hb : blen (db ++ [x00]) = blen db + 1) by (rewrite blen_app; reflexivity).
    rewrite Hb in *.
    assert (Hadr : off + blen (be 4 (blen (db0 ++ [x00])) ++ db0 ++ [x00]) = off + 4 + (blen db + 1)).
    { rewrite !blen_app, blen_be, Hl. change (N.of_nat 4) with 4. change (blen [x00]) with 1. lia. }
    cbn [bind]. rewrite Hadr in *.
    destruct (dir_macs_exists _ _ _ _ _ Edb) as [E HE].
    exists db, pb, E. repeat split; assumption.
  Qed.
End Emit.

Section Reduction.
  Variable enc dec mac : bytes -> option bytes -> bytes -> result bytes.
  Hypothesis mac_len : forall k iv d m, d <> [] -> mac k iv d = Ok m -> blen m = 16.
  Hypothesis enc_len : forall k d c, blen d mod 16 = 0 -> enc k None d = Ok c -> blen c = blen d.
  Hypothesis dec_enc : forall k d c, blen d mod 16 = 0 -> enc k None d = Ok c -> dec k None c = Ok d.

  Lemma payloads_snoc cs c k p raw :
    payloads enc cs k = Ok p -> raw_data enc c k = Ok raw -> payloads enc (cs ++ [c]) k = Ok (p ++ raw).
  Proof.
    revert p. induction cs as [|c0 cs IH]; intros p H Hr.
    - cbn in H. inversion H; subst. cbn [app payloads]. rewrite Hr. cbn [bind]. rewrite app_nil_r. reflexivity.
    - cbn [app payloads] in H |- *. bind_inv H as r0 E0. bind_inv H as p0 E1. inversion H; subst p.
      rewrite (IH _ eq_refl Hr). cbn [bind]. rewrite app_assoc. reflexivity.
  Qed.

  (* directory: if every entry comparison the reader made is one the writer emitted, the raw
     entries the reader saw are the writer's entries, in order, from the first *)
  Lemma dir_lockstep R : forall csA cs esR pA E adr0 k k' dcs,
    dir_macs enc mac (csA ++ cs) 0 adr0 k = Ok E ->
    Forall wf_comp cs ->
    payloads enc csA k = Ok pA ->
    ser_dir enc mac cs (blen csA) (adr0 + blen pA) k = Ok dcs ->
    entries_parse mac R (1 + blen csA) k' esR ->
    (forall q, In q (entry_checks k' (1 + blen csA) R) -> verified mac q -> In q E) ->
    exists cs1 cs2 d1,
      cs = cs1 ++ cs2 /\ length cs1 = length R /\
      ser_dir enc mac cs1 (blen csA) (adr0 + blen pA) k = Ok d1 /\ frame_entries R = d1 /\
      entries_of enc mac cs1 (adr0 + blen pA) k = Ok esR /\ (R <> [] -> k' = k).
  Proof.
    induction R as [|e R IH]; intros csA cs esR pA E adr0 k k' dcs HE Hwf HpA Hser HP NF.
    - destruct esR; [|destruct HP]. exists [], cs, []. repeat split; try reflexivity. intro H; contradiction.
    - destruct esR as [|d esR]; [destruct HP|]. destruct HP as [[er [Hpe Her]] HP].
      destruct (parse_entry_inv mac _ _ _ _ _ Hpe Her) as [Hndx [H16 Hver]].
      assert (Hq : In (entry_check k' (1 + blen csA) e) E).
      { apply NF; [left; reflexivity|exact Hver]. }
      unfold entry_check in Hq. change CMAC_SIZE with 16 in Hq.
      destruct (dir_macs_entry_inv enc mac _ _ _ _ _ _ _ _ _ HE Hq)
        as [cs1' [c [cs2' [p1 [raw [Hsplit [Hp1 [-> [Hiv [Hb Hse]]]]]]]]]].
      apply be_inj in Hiv; [|exact Hndx|exact Hb].
      assert (Hlen : length csA = length cs1') by (unfold blen in Hiv; lia).
      destruct (app_inv_length _ _ _ _ Hsplit Hlen) as [<- ->].
      rewrite HpA in Hp1. inversion Hp1; subst p1. clear Hp1 Hsplit Hlen Hiv.
      rewrite N.add_0_l in Hse. rewrite (takeN_lastN 16 e H16) in Hse.
      inversion Hwf as [|? ? Hwfc Hwf']; subst.
      destruct (wf_okc enc enc_len k c Hwfc) as [ND Hc].
      pose proof (ser_entry_raw enc mac _ _ _ _ _ _ Hse) as Hraw.
      destruct (Hc raw Hraw) as [Hrne Hal].
      destruct (parse_entry_ser enc mac mac_len c (blen csA) (adr0 + blen pA) k e raw true Hse ND Hal Hrne)
        as [pmac [er' [Epmac [Epe' _]]]].
      rewrite Hpe in Epe'. inversion Epe'; subst d. clear Epe'.
      cbn [ser_dir] in Hser. rewrite Hse in Hser. cbn [bind] in Hser.
      bind_inv Hser as el Eel. bind_inv Hser as drest Edrest. inversion Hser; subst dcs. clear Hser.
      apply to_bytes_be in Eel as [-> Hel].
      assert (Hb1 : blen (csA ++ [c]) = blen csA + 1) by (rewrite blen_app; reflexivity).
      destruct (IH (csA ++ [c]) cs2' esR (pA ++ raw) E adr0 k k drest) as [cs1 [cs2 [d1 [-> [Hl1 [Hs1 [Hf1 [He1 _]]]]]]]].
      + rewrite <- app_assoc. exact HE.
      + exact Hwf'.
      + exact (payloads_snoc _ _ _ _ _ HpA Hraw).
      + rewrite Hb1, blen_app. replace (adr0 + (blen pA + blen raw)) with (adr0 + blen pA + blen raw) by lia. exact Edrest.
      + rewrite Hb1. replace (1 + (blen csA + 1)) with (1 + blen csA + 1) by lia. exact HP.
      + intros q Hin Hv. apply NF; [|exact Hv]. right.
        rewrite Hb1 in Hin. replace (1 + (blen csA + 1)) with (1 + blen csA + 1) in Hin by lia. exact Hin.
      + rewrite Hb1 in Hs1. rewrite blen_app in Hs1, He1.
        replace (adr0 + (blen pA + blen raw)) with (adr0 + blen pA + blen raw) in Hs1, He1 by lia.
        exists (c :: cs1), cs2, (be 1 (blen e) ++ e ++ d1).
        split; [reflexivity|]. split; [cbn [length]; lia|].
        split; [cbn [ser_dir]; rewrite Hse; cbn [bind]; rewrite (to_bytes_small 1 _ Hel); cbn [bind]; rewrite Hs1; reflexivity|].
        split; [cbn [frame_entries flat_map]; fold (frame_entries R); rewrite Hf1, be_1; reflexivity|].
        split; [|intros _; reflexivity].
        cbn [entries_of]. rewrite Hraw. cbn [bind]. rewrite Epmac. cbn [bind]. rewrite He1. reflexivity.
  Qed.

  Lemma bytes_eq_dec (a b : bytes) : {a = b} + {a <> b}.
  Proof. destruct (bytes_eqb a b) eqn:E; [left; apply bytes_eqb_eq, E|right; intro H; subst; rewrite bytes_eqb_refl in E; discriminate]. Qed.

  (* payloads: if every payload comparison the reader made is one the writer emitted, the
     payload bytes are the writer's - or the file contains a payload-MAC collision *)
  Lemma payload_lockstep cs : forall adr es pb x2 g r3 k E,
    entries_of enc mac cs adr k = Ok es -> payloads enc cs k = Ok pb -> Forall wf_comp cs ->
    read_comps dec mac es (mkR x2 adr) true k = Ok (g, r3) ->
    (forall q, In q (payload_checks es (mkR x2 adr) k) -> verified mac q -> In q E) ->
    (forall c raw pmac, In c cs -> raw_data enc c k = Ok raw -> mac k None raw = Ok pmac -> In (k, None, raw, pmac) E) ->
    payload_collision E \/ x2 = pb ++ rest r3.
  Proof.
    induction cs as [|c cs IH]; intros adr es pb x2 g r3 k E He Hp Hwf Hr NF HinE.
    - cbn in He, Hp. inversion He; inversion Hp; subst. cbn in Hr. inversion Hr; subst. right. reflexivity.
    - cbn [entries_of payloads] in He, Hp.
      bind_inv He as raw Eraw. bind_inv He as pmac Epmac. bind_inv He as es' Ees. inversion He; subst es. clear He.
      cbn [bind] in Hp. bind_inv Hp as pb' Epb. inversion Hp; subst pb. clear Hp.
      inversion Hwf as [|? ? Hc Hwf']; subst.
      cbn [read_comps entry_of e_adr e_total e_pmac e_desc e_alen pos] in Hr.
      rewrite N.eqb_refl in Hr. cbn [negb] in Hr.
      cbn [payload_checks entry_of e_total e_pmac] in NF.
      destruct (rd_read (blen raw) (mkR x2 adr)) as [[pl [x3 p3]]|] eqn:Erd; cbn [bind] in Hr; [|discriminate].
      destruct (rd_read_ok _ _ _ _ Erd) as [Hx [Hl Hpos]]. cbn [rest pos] in Hx, Hpos. subst p3.
      destruct (mac k None pl) as [m|] eqn:Em; cbn [bind] in Hr; [|discriminate].
      destruct (bytes_eqb m pmac) eqn:Eq; cbn [bind] in Hr; [|discriminate].
      apply bytes_eqb_eq in Eq. subst m.
      assert (Hq1 : In (k, None, pl, pmac) E) by (apply NF; [left; reflexivity|exact Em]).
      assert (Hq2 : In (k, None, raw, pmac) E) by (apply (HinE c); [left; reflexivity|exact Eraw|exact Epmac]).
      destruct (bytes_eq_dec pl raw) as [->|Hne].
      2:{ left. exists k, pl, raw, pmac. repeat split; assumption. }
      match type of Hr with bind ?m _ = _ => destruct m as [cc|]; cbn [bind] in Hr; [|discriminate] end.
      destruct (read_comps dec mac es' (mkR x3 (adr + blen raw)) true k) as [[g' r4]|] eqn:Er'; cbn [bind] in Hr; [|discriminate].
      inversion Hr; subst g r4. clear Hr.
      destruct (IH (adr + blen raw) es' pb' x3 g' r3 k E Ees Epb Hwf' Er') as [Hcol|Hx3].
      + intros q Hin Hv. apply NF; [right; exact Hin|exact Hv].
      + intros c' raw' pmac' Hin'. apply HinE. right. exact Hin'.
      + left. exact Hcol.
      + right. rewrite Hx, Hx3, app_assoc. reflexivity.
  Qed.

  Lemma ser_dir_nil_inv cs ndx adr k : ser_dir enc mac cs ndx adr k = Ok [] -> cs = [].
  Proof.
    destruct cs as [|c cs]; [reflexivity|]. cbn [ser_dir]. intro H.
    destruct (ser_entry enc mac c ndx adr k) as [[entry raw]|]; cbn [bind] in H; [|discriminate].
    bind_inv H as el Eel. bind_inv H as r Er. inversion H as [H0].
    apply to_bytes_be in Eel as [-> _]. apply (f_equal (@length byte)) in H0.
    rewrite !app_length, be_length in H0. simpl in H0. lia.
  Qed.

  Definition empty_file : bytes := be 4 1 ++ [x00].

  (* the reader accepts b' under k' and made no comparison the writer did not emit: then b' and k'
     are the authentic binary and key (or the file has a payload-MAC collision, or b' is the empty file) *)
  Theorem accept_unique cs off k b E b' k' g :
    Forall wf_comp cs -> to_binary enc mac cs off k = Ok b -> macs_emitted enc mac cs off k = Ok E ->
    from_binary dec mac (mkR b' off) true k' = Ok g ->
    (forall q, In q (mac_checks mac b' off k') -> verified mac q -> In q E) ->
    payload_collision E \/ (b' = b /\ k' = k) \/ (b' = empty_file /\ g = []).
  Proof.
    intros Hwf Hw HE Hacc NF.
    destruct (macs_emitted_layout enc mac mac_len enc_len cs off k b Hwf Hw)
      as [db [pb [E' [Hd [Hp [Hsz [-> [HE' HEd]]]]]]]].
    rewrite HE in HE'. inversion HE'; subst E'. clear HE'.
    set (adr0 := off + 4 + (blen db + 1)) in *.
    unfold from_binary, dir_from_binary in Hacc. unfold mac_checks in NF.
    destruct (rd_read_int 4 (mkR b' off)) as [[total r1]|] eqn:E1; cbn [bind] in Hacc; [|discriminate].
    destruct (rd_read total r1) as [[db' r2]|] eqn:E2; cbn [bind] in Hacc; [|discriminate].
    destruct (rd_read_int 1 (new_reader db')) as [[len dr]|] eqn:E3; cbn [bind] in Hacc; [|discriminate].
    destruct (parse_dir mac (S (length db')) dr len 1 true k' []) as [[es dr']|] eqn:E4; cbn [bind] in Hacc; [|discriminate].
    destruct (rd_ensure_eof dr') eqn:E5; cbn [bind] in Hacc; [|discriminate].
    destruct (read_comps dec mac es r2 true k') as [[g' r3]|] eqn:E6; cbn [bind] in Hacc; [|discriminate].
    destruct (rd_ensure_eof r3) eqn:E7; cbn [bind] in Hacc; [|discriminate].
    inversion Hacc; subst g'. clear Hacc.
    assert (Hdr' : rest dr' = []) by (unfold rd_ensure_eof, rd_eof in E5; destruct (rest dr'); [reflexivity|discriminate]).
    assert (Hr3 : rest r3 = []) by (unfold rd_ensure_eof, rd_eof in E7; destruct (rest r3); [reflexivity|discriminate]).
    destruct (parse_dir_inv mac _ _ _ _ _ _ _ _ E4) as [R [esR [HR [Hes [HP HF]]]]].
    cbn [rev app] in Hes. subst esR.
    rewrite HR, HF in NF.
    (* bytes of b' *)
    destruct (rd_read_int_ok _ _ _ _ E1) as [c0 [Hb' [Lc0 [Pr1 Htot]]]]. cbn [rest pos] in Hb', Pr1.
    destruct (rd_read_ok _ _ _ _ E2) as [Hr1 [Ldb' Pr2]].
    destruct (rd_read_int_ok _ _ _ _ E3) as [yb [Hdb' [Lyb [_ Hlen]]]]. cbn [new_reader rest] in Hdb'.
    assert (Hy : exists y, yb = [y]).
    { destruct yb as [|y [|z yb]]; cbn in Lyb; try lia. exists y. reflexivity. }
    destruct Hy as [y ->].
    assert (Hl256 : len < 256).
    { subst len. pose proof (from_be_lt [y]) as Hlt. cbn [blen length N.of_nat] in Hlt. exact Hlt. }
    assert (Hyn : n2b len = y) by (subst len; unfold from_be; cbn; apply n2b_b2n).
    pose proof (raw_entries_frame _ _ _ _ _ HR Hl256) as Hframe.
    rewrite Hdr' in Hframe. cbn [app] in Hdb'. rewrite <- Hyn, Hframe in Hdb'.
    (* the directory *)
    destruct (dir_lockstep R [] cs es [] E adr0 k k' db) as [cs1 [cs2 [d1 [Hcs [Hl1 [Hs1 [Hf1 [He1 Hk]]]]]]]].
    + exact HEd.
    + exact Hwf.
    + reflexivity.
    + change (blen (@nil comp)) with 0. change (blen (@nil byte)) with 0. rewrite N.add_0_r. exact Hd.
    + change (blen (@nil comp)) with 0. rewrite N.add_0_r. exact HP.
    + change (blen (@nil comp)) with 0. rewrite N.add_0_r. intros q Hin Hv. apply NF; [apply in_or_app; left; exact Hin|exact Hv].
    + change (blen (@nil comp)) with 0 in Hs1. change (blen (@nil byte)) with 0 in Hs1, He1.
      rewrite N.add_0_r in Hs1, He1. subst cs.
      destruct (ser_dir_app enc mac _ _ _ _ _ _ Hd) as [d1' [d2 [p1 [Hd1' [Hp1 [Hd2 Hdb]]]]]].
      rewrite Hs1 in Hd1'. inversion Hd1'; subst d1'. clear Hd1'.
      assert (Hc0 : c0 = be 4 total).
      { rewrite Htot. rewrite <- (be_from_be c0) at 1. f_equal. unfold blen in Lc0. lia. }
      destruct cs1 as [|c cs1].
      * (* no entry read: the empty file *)
        right. right. destruct R; [|discriminate Hl1]. cbn in Hf1. subst d1.
        cbn in He1. inversion He1; subst es. cbn in E6. inversion E6; subst g r3. clear E6.
        cbn [frame_entries flat_map app] in Hdb'. subst db'. cbn [blen length N.of_nat] in Ldb'.
        split; [|reflexivity]. unfold empty_file.
        rewrite Hb', Hr1, Hr3, Hc0, <- Ldb'. reflexivity.
      * assert (HRne : R <> []) by (destruct R; [discriminate Hl1|discriminate]).
        specialize (Hk HRne). subst k'.
        cbn [entries_of] in He1. bind_inv He1 as raw Eraw. bind_inv He1 as pmac Epmac. bind_inv He1 as es' Ees'.
        inversion He1; subst es. clear He1.
        (* the address check of the first component fixes the directory length *)
        assert (Hadr : adr0 = pos r2).
        { cbn [read_comps entry_of e_adr] in E6. destruct (adr0 =? pos r2) eqn:Ea; [apply N.eqb_eq, Ea|discriminate]. }
        assert (Hd2n : d2 = []).
        { assert (blen d2 = 0).
          { rewrite Pr2, Pr1, <- Ldb', Hdb', Hf1 in Hadr. unfold adr0 in Hadr.
            rewrite Hdb, !blen_app in Hadr. change (blen [x00]) with 1 in Hadr.
            change (blen (@nil byte)) with 0 in Hadr. lia. }
          destruct d2; [reflexivity|]. rewrite blen_cons in H. lia. }
        subst d2. rewrite (ser_dir_nil_inv _ _ _ _ Hd2) in *. rewrite app_nil_r in *. subst db.
        (* the payloads *)
        assert (Er2 : r2 = mkR (rest r2) adr0) by (destruct r2; cbn in Hadr |- *; rewrite Hadr; reflexivity).
        rewrite Er2 in E6, NF.
        destruct (payload_lockstep (c :: cs1) adr0 (entry_of c adr0 raw pmac :: es') pb (rest r2) g r3 k E) as [Hcol|Hpay].
        -- cbn [entries_of]. rewrite Eraw. cbn [bind]. rewrite Epmac. cbn [bind]. rewrite Ees'. reflexivity.
        -- exact Hp.
        -- exact Hwf.
        -- exact E6.
        -- intros q Hin Hv. apply NF; [apply in_or_app; right; exact Hin|exact Hv].
        -- intros c' raw' pmac' Hin' Hr' Hm'. exact (dir_macs_payload_in enc mac _ _ _ _ _ _ _ _ HEd Hin' Hr' Hm').
        -- left. exact Hcol.
        -- right. left. split; [|reflexivity].
           rewrite Hb', Hr1, Hpay, Hr3, app_nil_r, Hc0, <- Ldb', Hdb', <- Hf1.
           rewrite blen_app. reflexivity.
  Qed.

  Lemma quad_eq_dec (a b : quad) : {a = b} + {a <> b}.
  Proof.
    destruct a as [[[k1 i1] m1] t1], b as [[[k2 i2] m2] t2].
    destruct (bytes_eq_dec k1 k2) as [->|N]; [|right; congruence].
    destruct (bytes_eq_dec m1 m2) as [->|N]; [|right; congruence].
    destruct (bytes_eq_dec t1 t2) as [->|N]; [|right; congruence].
    destruct i1 as [i1|], i2 as [i2|]; try (right; congruence); [|left; reflexivity].
    destruct (bytes_eq_dec i1 i2) as [->|N]; [left; reflexivity|right; congruence].
  Qed.

  Lemma verified_dec (q : quad) : {verified mac q} + {~ verified mac q}.
  Proof.
    destruct q as [[[k1 i1] m1] t1]. unfold verified.
    destruct (mac k1 i1 m1) as [t|e]; [|right; discriminate].
    destruct (bytes_eq_dec t t1) as [->|N]; [left; reflexivity|right; congruence].
  Qed.

  (* the reduction: acceptance with different content exhibits a forged MAC *)
  Theorem forgery_reduction_general cs off k b E b' k' g :
    Forall wf_comp cs -> to_binary enc mac cs off k = Ok b -> macs_emitted enc mac cs off k = Ok E ->
    from_binary dec mac (mkR b' off) true k' = Ok g -> g <> map view cs ->
    (exists q, In q (mac_checks mac b' off k') /\ verified mac q /\ ~ In q E)
    \/ payload_collision E
    \/ (b' = empty_file /\ g = [] /\ cs <> []).
  Proof.
    intros Hwf Hw HE Hacc Hg.
    destruct (Forall_Exists_dec (fun q => verified mac q -> In q E)
                (fun q => match in_dec quad_eq_dec q E with
                          | left i => left (fun _ => i)
                          | right n => match verified_dec q with
                                       | left v => right (fun f => n (f v))
                                       | right nv => left (fun v => match nv v with end)
                                       end
                          end) (mac_checks mac b' off k')) as [Hall|Hex].
    - rewrite Forall_forall in Hall.
      destruct (accept_unique cs off k b E b' k' g Hwf Hw HE Hacc Hall) as [Hc|[[-> ->]|[-> ->]]].
      + right. left. exact Hc.
      + rewrite (from_binary_to_binary enc dec mac mac_len enc_len dec_enc cs off k b true Hwf Hw) in Hacc.
        inversion Hacc. congruence.
      + right. right. repeat split. intros ->. apply Hg. reflexivity.
    - left. apply Exists_exists in Hex as [q [Hin Hq]].
      exists q. split; [exact Hin|].
      destruct (verified_dec q) as [v|nv].
      + split; [exact v|]. intro Hi. apply Hq. intros _. exact Hi.
      + exfalso. apply Hq. intro v. contradiction.
  Qed.

  (* same length (byte replacement; the authentic binary under another key): no escape clause *)
  Theorem forgery_reduction cs off k b E b' k' g :
    Forall wf_comp cs -> to_binary enc mac cs off k = Ok b -> macs_emitted enc mac cs off k = Ok E ->
    blen b' = blen b ->
    from_binary dec mac (mkR b' off) true k' = Ok g -> g <> map view cs ->
    (exists q, In q (mac_checks mac b' off k') /\ verified mac q /\ ~ In q E)
    \/ payload_collision E.
  Proof.
    intros Hwf Hw HE Hlen Hacc Hg.
    destruct (forgery_reduction_general cs off k b E b' k' g Hwf Hw HE Hacc Hg) as [H|[H|[-> [_ Hne]]]];
      [left; exact H|right; exact H|exfalso].
    destruct (to_binary_layout enc mac mac_len enc_len cs off k b Hwf Hw) as [db [pb [Hd [_ [_ ->]]]]].
    destruct cs as [|c cs]; [contradiction|].
    cbn [ser_dir] in Hd.
    destruct (ser_entry enc mac c 0 (off + 4 + (blen db + 1)) k) as [[entry raw]|]; cbn [bind] in Hd; [|discriminate].
    bind_inv Hd as el Eel. bind_inv Hd as r Er. inversion Hd; subst db.
    apply to_bytes_be in Eel as [-> _].
    unfold empty_file in Hlen. rewrite !blen_app, !blen_be in Hlen. change (blen [x00]) with 1 in Hlen. lia.
  Qed.
End Reduction.
