(* C19 - number theory behind compressed points (Model/NumTheory.v):
     powmod            powmod a e m = a ^ e mod m            (Barrett's quotient estimate is checked)
     jacobi            terminates with a value in {-1, 0, 1} for every a and every odd n >= 3,
                       raises JacobiError otherwise (the fuel is never exhausted)
     square roots      for prime p and a quadratic residue a:
                         every answer `Ok r` of square_root_mod_prime satisfies r*r = a (mod p),
                         0 <= r < p, in ALL branches (a = 0, p = 2, p % 4 = 3, both sub-branches of
                         p % 8 = 5, the Lucas/Cipolla loop);
                         for p % 4 = 3 and p % 8 = 5 the function does answer, unless jacobi says -1
   What is NOT proved: that jacobi computes the Legendre symbol (quadratic reciprocity).  The
   theorems therefore keep `jacobi a p <> Ok (-1)` as an explicit hypothesis wherever the function
   has to return a root. *)
From Coq Require Import List Bool ZArith Lia Znumtheory Zpow_facts Ring Setoid Morphisms.
From Bec2 Require Import Base.Result Base.Modp Model.NumTheory Proofs.EcFieldZp.
Import ListNotations.
Open Scope Z_scope.

(* ================= powmod ================================================================== *)

(* ---- the windowed product ---- *)
Definition tab_ok (t : tab16) (y : positive) : Prop :=
  (t1 t = y /\ t2 t = 2 * y /\ t3 t = 3 * y /\ t4 t = 4 * y /\ t5 t = 5 * y /\ t6 t = 6 * y /\
   t7 t = 7 * y /\ t8 t = 8 * y /\ t9 t = 9 * y /\ t10 t = 10 * y /\ t11 t = 11 * y /\
   t12 t = 12 * y /\ t13 t = 13 * y /\ t14 t = 14 * y /\ t15 t = 15 * y)%positive.

Lemma mk_tab_ok y : tab_ok (mk_tab y) y.
Proof. unfold tab_ok, mk_tab. cbn [t1 t2 t3 t4 t5 t6 t7 t8 t9 t10 t11 t12 t13 t14 t15]. repeat split; lia. Qed.

Lemma mulw_go_spec t y : tab_ok t y -> forall n x, (Pos.size_nat x <= n)%nat ->
  mulw_go t y x = (x * y)%positive.
Proof.
  intros [H1 [H2 [H3 [H4 [H5 [H6 [H7 [H8 [H9 [H10 [H11 [H12 [H13 [H14 H15]]]]]]]]]]]]]].
  induction n as [|n IH]; intros x Hx; [destruct x; cbn [Pos.size_nat] in Hx; lia|].
  assert (IH' : forall r, (Pos.size_nat r + 4 <= S n)%nat -> mulw_go t y r = (r * y)%positive)
    by (intros r Hr; apply IH; lia).
  destruct x as [[[[r|r|]|[r|r|]|]|[[r|r|]|[r|r|]|]|]|[[[r|r|]|[r|r|]|]|[[r|r|]|[r|r|]|]|]|];
    cbn [mulw_go]; try reflexivity; cbn [Pos.size_nat] in Hx;
    rewrite (IH' r) by lia; rewrite ?H1, ?H2, ?H3, ?H4, ?H5, ?H6, ?H7, ?H8, ?H9, ?H10, ?H11, ?H12, ?H13, ?H14, ?H15; lia.
Qed.

Lemma zmul_tab_spec t y x : tab_ok t y -> zmul_tab t y x = x * Zpos y.
Proof.
  intro Ht. unfold zmul_tab. destruct x as [|xp|xp]; try reflexivity.
  rewrite (mulw_go_spec t y Ht (Pos.size_nat xp) xp (le_n _)). reflexivity.
Qed.

Lemma zmulw_spec x y : zmulw x y = x * y.
Proof. unfold zmulw. destruct y as [|yp|yp]; try reflexivity. apply zmul_tab_spec, mk_tab_ok. Qed.

Lemma barrett_mod_spec mul_mu mul_m m k x : 0 < m -> (forall q, mul_m q = q * m) ->
  barrett_mod mul_mu mul_m m k x = x mod m.
Proof.
  intros Hm Hmul. unfold barrett_mod.
  set (q := Z.shiftr (mul_mu (Z.shiftr x (k - 1))) (k + 1)). rewrite Hmul.
  destruct (x - q * m <? 0) eqn:E0; [reflexivity|]. apply Z.ltb_ge in E0.
  destruct (x - q * m <? m) eqn:E1.
  { apply Z.ltb_lt in E1. apply (Z.mod_unique x m q); [left; lia | ring]. }
  apply Z.ltb_ge in E1.
  destruct (x - q * m - m <? m) eqn:E2.
  { apply Z.ltb_lt in E2. apply (Z.mod_unique x m (q + 1)); [left; lia | ring]. }
  apply Z.ltb_ge in E2.
  destruct (x - q * m - m - m <? m) eqn:E3; [|reflexivity].
  apply Z.ltb_lt in E3. apply (Z.mod_unique x m (q + 2)); [left; lia | ring].
Qed.

Lemma pow_eqm p a b n : eqm p a b -> eqm p (a ^ n) (b ^ n).
Proof.
  intro H. destruct (Z_lt_le_dec n 0) as [Hn|Hn].
  - rewrite !Z.pow_neg_r by exact Hn. reflexivity.
  - revert n Hn. apply natlike_ind.
    + reflexivity.
    + intros n Hn IH. rewrite !Z.pow_succ_r by exact Hn. now rewrite IH, H.
Qed.

Global Instance pow_eqm_proper p : Proper (eqm p ==> eq ==> eqm p) Z.pow.
Proof. intros a b H n n' <-. now apply pow_eqm. Qed.

Lemma powmod_pos_spec mul red m a e : (forall x y, mul x y = x * y) -> (forall x, red x = x mod m) ->
  powmod_pos mul red a e = a ^ Zpos e mod m.
Proof.
  intros Hmul Hred. induction e as [e IH|e IH|].
  - cbn [powmod_pos]. rewrite !Hmul, !Hred, IH. apply eqm_def.
    rewrite !mod_eqm. replace (Zpos e~1) with (Zpos e + Zpos e + 1) by lia.
    rewrite !Z.pow_add_r, Z.pow_1_r by lia. reflexivity.
  - cbn [powmod_pos]. rewrite !Hmul, !Hred, IH. apply eqm_def.
    rewrite !mod_eqm. replace (Zpos e~0) with (Zpos e + Zpos e) by lia.
    rewrite !Z.pow_add_r by lia. reflexivity.
  - cbn [powmod_pos]. rewrite Hred, Z.pow_1_r. reflexivity.
Qed.

Theorem powmod_spec a e m : 0 <= e -> powmod a e m = a ^ e mod m.
Proof.
  intro He. unfold powmod. destruct e as [|e|e]; [reflexivity| |lia].
  assert (Plain : powmod_pos Z.mul (fun x => x mod m) a e = a ^ Zpos e mod m)
    by (apply powmod_pos_spec; reflexivity).
  destruct m as [|mp|mp]; try exact Plain.
  destruct (2 ^ (2 * (Z.log2 (Zpos mp) + 1)) / Zpos mp) as [|mup|mup]; try exact Plain.
  apply powmod_pos_spec; [exact zmulw_spec|].
  intro x. apply barrett_mod_spec; [lia|]. intro q. apply zmul_tab_spec, mk_tab_ok.
Qed.

Lemma powmod_range a e m : 0 <= e -> 0 < m -> 0 <= powmod a e m < m.
Proof. intros He Hm. rewrite powmod_spec by exact He. apply Z.mod_pos_bound, Hm. Qed.

Lemma powmod_eqm a e m : 0 <= e -> eqm m (powmod a e m) (a ^ e).
Proof. intro He. rewrite powmod_spec by exact He. apply mod_eqm. Qed.

(* ================= jacobi terminates ========================================================== *)

Lemma strip2_spec ap : forall a1 e, strip2 ap = (a1, e) ->
  (Zpos a1 <= Zpos ap) /\ Zpos a1 mod 2 = 1.
Proof.
  induction ap as [q IH|q IH|]; intros a1 e H; cbn [strip2] in H.
  - inversion H; subst. split; [lia|]. rewrite Pos2Z.inj_xI, Z.mul_comm, Z.add_comm, Z.mod_add by lia. reflexivity.
  - destruct (strip2 q) as [a1' e'] eqn:E. inversion H; subst.
    destruct (IH a1 e' eq_refl) as [H1 H2]. split; [lia | exact H2].
  - inversion H; subst. split; [lia | reflexivity].
Qed.

Definition sign3 (r : Z) : Prop := r = -1 \/ r = 0 \/ r = 1.

Lemma jacobi_fuel_ok : forall fuel a n, 3 <= n -> n mod 2 = 1 ->
  Z.log2 ((a mod n) * n) < Z.of_nat fuel ->
  exists r, jacobi_fuel fuel a n = Ok r /\ sign3 r.
Proof.
  induction fuel as [|f IH]; intros a n Hn Hodd Hfuel.
  - pose proof (Z.log2_nonneg ((a mod n) * n)). lia.
  - cbn [jacobi_fuel].
    assert (E3 : (3 <=? n) = true) by (apply Z.leb_le; exact Hn). rewrite E3. cbn [negb].
    rewrite Hodd, Z.eqb_refl. cbn [negb].
    pose proof (Z.mod_pos_bound a n ltac:(lia)) as Ha. set (a' := a mod n) in *.
    destruct (a' =? 0) eqn:E0; [exists 0; split; [reflexivity | right; left; reflexivity]|].
    destruct (a' =? 1) eqn:E1; [exists 1; split; [reflexivity | right; right; reflexivity]|].
    apply Z.eqb_neq in E0, E1.
    destruct a' as [|ap|ap] eqn:Ea'; [lia| |lia].
    destruct (strip2 ap) as [a1p e] eqn:Es.
    destruct (strip2_spec ap a1p e Es) as [Hle Ho1].
    set (s := if (e mod 2 =? 0) || (n mod 8 =? 1) || (n mod 8 =? 7) then 1 else -1).
    assert (Hs : s = 1 \/ s = -1) by (unfold s; destruct ((e mod 2 =? 0) || (n mod 8 =? 1) || (n mod 8 =? 7)); auto).
    destruct (Zpos a1p =? 1) eqn:E11.
    { exists s. split; [reflexivity|]. unfold sign3. destruct Hs as [-> | ->]; auto. }
    apply Z.eqb_neq in E11.
    set (s' := if (n mod 4 =? 3) && (Zpos a1p mod 4 =? 3) then - s else s).
    assert (Hs' : s' = 1 \/ s' = -1) by (unfold s'; destruct ((n mod 4 =? 3) && (Zpos a1p mod 4 =? 3)); lia).
    set (a1 := Zpos a1p) in *.
    assert (H3 : 3 <= a1).
    { assert (a1 <> 2) by (intro E; rewrite E in Ho1; discriminate). lia. }
    (* the recursive call *)
    pose proof (Z.mod_pos_bound n a1 ltac:(lia)) as Hr.
    assert (Hhalf : 2 * ((n mod a1) * a1) <= Zpos ap * n).
    { pose proof (Z.div_mod n a1 ltac:(lia)) as Hdm.
      assert (1 <= n / a1) by (apply Z.div_le_lower_bound; lia).
      assert (2 * (n mod a1) <= n) by nia. nia. }
    destruct (IH (n mod a1) a1 H3 Ho1) as [r [Hr1 Hr2]].
    { rewrite Z.mod_mod by lia.
      destruct (Z.eq_dec (n mod a1) 0) as [Ez|Ez].
      - rewrite Ez. cbn [Z.mul Z.log2].
        assert (2 <= Z.log2 (Zpos ap * n)).
        { apply Z.log2_le_pow2; [nia|]. change (2 ^ 2) with 4. nia. }
        lia.
      - assert (Hpos : 0 < (n mod a1) * a1) by nia.
        pose proof (Z.log2_double _ Hpos) as Hd.
        pose proof (Z.log2_le_mono _ _ Hhalf). lia. }
    rewrite Hr1. cbn [bind]. exists (s' * r). split; [reflexivity|].
    unfold sign3 in *. destruct Hs' as [-> | ->]; lia.
Qed.

Theorem jacobi_terminates a n : 3 <= n -> n mod 2 = 1 ->
  exists r, jacobi a n = Ok r /\ (r = -1 \/ r = 0 \/ r = 1).
Proof.
  intros Hn Hodd. unfold jacobi. apply jacobi_fuel_ok; [exact Hn | exact Hodd |].
  pose proof (Z.mod_pos_bound a n ltac:(lia)) as Ha.
  pose proof (Z.log2_nonneg n) as Hl.
  rewrite Z2Nat.id by lia.
  assert (Hle : (a mod n) * n <= n * n) by nia.
  pose proof (Z.log2_le_mono _ _ Hle) as H1.
  pose proof (Z.log2_mul_above n n ltac:(lia) ltac:(lia)) as H2. lia.
Qed.

(* the two `raise JacobiError` statements *)
Theorem jacobi_rejects a n : n < 3 \/ n mod 2 <> 1 -> jacobi a n = Err EJacobi.
Proof.
  intro H. unfold jacobi.
  assert (Hf : exists f, Z.to_nat (2 * Z.log2 n + 2) = S f).
  { pose proof (Z.log2_nonneg n). exists (Z.to_nat (2 * Z.log2 n + 1)). lia. }
  destruct Hf as [f ->]. cbn [jacobi_fuel].
  destruct (3 <=? n) eqn:E3; [|reflexivity]. cbn [negb].
  apply Z.leb_le in E3. destruct H as [H|H]; [lia|].
  apply Z.eqb_neq in H. rewrite H. reflexivity.
Qed.

(* ================= square roots modulo a prime ================================================ *)

Definition is_qr (p a : Z) : Prop := exists b, eqm p (b * b) a.

Lemma prime_odd p : prime p -> 2 < p -> p mod 2 = 1.
Proof.
  intros Hp H2. pose proof (Z.mod_pos_bound p 2 ltac:(lia)) as Hb.
  destruct (Z.eq_dec (p mod 2) 0) as [E|E]; [|lia].
  apply Zmod_divide in E; [|lia].
  destruct (prime_divisors p Hp 2 E) as [H|[H|[H|H]]]; lia.
Qed.

Lemma opp1_pow_odd n : 0 <= n -> (-1) ^ (2 * n + 1) = -1.
Proof.
  intro Hn. rewrite Z.pow_add_r, Z.pow_mul_r, Z.pow_1_r by lia.
  change ((-1) ^ 2) with 1. rewrite Z.pow_1_l by lia. reflexivity.
Qed.

Section SqrtPrime.
  Variable p : Z.
  Hypothesis Hp : prime p.

  Add Ring eqm_ring_sqrt : (eqm_rt p)
    (setoid (eqm_equiv p) (eqm_ext p), morphism (eqm_morph p), constants [Zcst]).

  Let Hp2 : 2 <= p := prime_ge_2 p Hp.

  Lemma qr_root_nz a b : eqm p (b * b) a -> ~ eqm p a 0 -> ~ eqm p b 0.
  Proof. intros Hb Ha Hz. apply Ha. rewrite <- Hb, Hz. ring. Qed.

  (* Euler's criterion, the direction that follows from Fermat's little theorem *)
  Lemma euler_qr a h : p = 2 * h + 1 -> is_qr p a -> ~ eqm p a 0 -> eqm p (a ^ h) 1.
  Proof.
    intros Eh [b Hb] Ha. assert (0 <= h) by lia.
    rewrite <- Hb, Z.pow_mul_l, <- Z.pow_add_r by lia.
    replace (h + h) with (p - 1) by lia.
    apply fermat_little; [exact Hp | eapply qr_root_nz; eassumption].
  Qed.

  (* a square root of 1 is 1 or -1 *)
  Lemma sqrt_one x : eqm p (x * x) 1 -> eqm p x 1 \/ eqm p x (-1).
  Proof.
    intro H. assert (E : eqm p ((x - 1) * (x + 1)) 0).
    { transitivity (x * x - 1); [ring|]. rewrite H. ring. }
    destruct (eqm_integral _ _ _ Hp E) as [E1|E1]; [left|right].
    - transitivity ((x - 1) + 1); [ring|]. rewrite E1. ring.
    - transitivity ((x + 1) - 1); [ring|]. rewrite E1. ring.
  Qed.

  Lemma eqm_small_eq' x y : 0 <= x < p -> 0 <= y < p -> eqm p x y -> x = y.
  Proof. apply eqm_small_eq. Qed.

  (* ---- p % 4 == 3 ---- *)
  Lemma sqrt_3mod4_root a : p mod 4 = 3 -> is_qr p a -> ~ eqm p a 0 ->
    eqm p (powmod a ((p + 1) / 4) p * powmod a ((p + 1) / 4) p) a.
  Proof.
    intros H4 Hq Ha.
    pose proof (Z.div_mod p 4 ltac:(lia)) as Ed. rewrite H4 in Ed. set (t := p / 4) in *.
    assert (Ht : 0 <= t) by lia.
    assert (E1 : (p + 1) / 4 = t + 1).
    { replace (p + 1) with ((t + 1) * 4) by lia. apply Z.div_mul. lia. }
    rewrite E1, powmod_eqm by lia.
    rewrite <- Z.pow_add_r by lia.
    replace (t + 1 + (t + 1)) with ((2 * t + 1) + 1) by lia.
    rewrite Z.pow_add_r, Z.pow_1_r by lia.
    rewrite (euler_qr a (2 * t + 1)); [ring | lia | exact Hq | exact Ha].
  Qed.

  (* ---- p % 8 == 5 ---- *)
  Section FiveModEight.
    Variable j : Z.
    Hypothesis Ej : p = 8 * j + 5.
    Let Hj : 0 <= j. Proof. lia. Qed.

    Lemma e58_a : (p - 1) / 4 = 2 * j + 1.
    Proof. replace (p - 1) with ((2 * j + 1) * 4) by lia. apply Z.div_mul. lia. Qed.
    Lemma e58_b : (p + 3) / 8 = j + 1.
    Proof. replace (p + 3) with ((j + 1) * 8) by lia. apply Z.div_mul. lia. Qed.
    Lemma e58_c : (p - 5) / 8 = j.
    Proof. replace (p - 5) with (j * 8) by lia. apply Z.div_mul. lia. Qed.

    Lemma sqrt_5mod8_d a : is_qr p a -> ~ eqm p a 0 ->
      eqm p (a ^ (2 * j + 1)) 1 \/ eqm p (a ^ (2 * j + 1)) (-1).
    Proof.
      intros Hq Ha. apply sqrt_one. rewrite <- Z.pow_add_r by lia.
      replace (2 * j + 1 + (2 * j + 1)) with (4 * j + 2) by lia.
      apply euler_qr; [lia | exact Hq | exact Ha].
    Qed.

    Lemma sqrt_5mod8_root1 a : eqm p (a ^ (2 * j + 1)) 1 ->
      eqm p (powmod a ((p + 3) / 8) p * powmod a ((p + 3) / 8) p) a.
    Proof.
      intro Hd. rewrite e58_b, powmod_eqm by lia. rewrite <- Z.pow_add_r by lia.
      replace (j + 1 + (j + 1)) with ((2 * j + 1) + 1) by lia.
      rewrite Z.pow_add_r, Z.pow_1_r, Hd by lia. ring.
    Qed.

    (* the second supplementary law for p = 5 (mod 8), from a square root of -1 *)
    Lemma two_nonresidue_5mod8 i : eqm p (i * i) (-1) -> eqm p (2 ^ (4 * j + 2)) (-1).
    Proof.
      intro Hi.
      assert (Hnz : ~ eqm p (1 + i) 0).
      { intro E. assert (E1 : eqm p i (-1)) by (transitivity ((1 + i) - 1); [ring | rewrite E; ring]).
        assert (E2 : eqm p 2 0).
        { transitivity (1 - i * i); [rewrite Hi; ring | rewrite E1; ring]. }
        revert E2. apply eqm_small_nz. lia. }
      pose proof (fermat_little p (1 + i) Hp Hnz) as F.
      replace (p - 1) with (2 * (4 * j + 2)) in F by lia.
      rewrite Z.pow_mul_r in F by lia.
      assert (Esq : eqm p ((1 + i) ^ 2) (2 * i)).
      { rewrite Z.pow_2_r. transitivity (1 + 2 * i + i * i); [ring | rewrite Hi; ring]. }
      rewrite Esq, Z.pow_mul_l in F.
      assert (Ei : eqm p (i ^ (4 * j + 2)) (-1)).
      { replace (4 * j + 2) with (2 * (2 * j + 1)) by lia. rewrite Z.pow_mul_r by lia.
        rewrite Z.pow_2_r, Hi. rewrite opp1_pow_odd by lia. reflexivity. }
      rewrite Ei in F. transitivity (- (2 ^ (4 * j + 2) * -1)); [ring | rewrite F; ring].
    Qed.

    Lemma sqrt_5mod8_root2 a : is_qr p a -> eqm p (a ^ (2 * j + 1)) (-1) ->
      let r := (2 * a * powmod (4 * a) ((p - 5) / 8) p) mod p in eqm p (r * r) a.
    Proof.
      intros [s Hs] Hd r. unfold r. rewrite e58_c, mod_eqm, powmod_eqm by lia.
      assert (H2 : eqm p (2 ^ (4 * j + 2)) (-1)).
      { apply (two_nonresidue_5mod8 (s ^ (2 * j + 1))).
        rewrite <- Z.pow_mul_l, Hs. exact Hd. }
      transitivity (a * ((4 * a) ^ j * (4 * a) ^ j * (4 * a))); [ring|].
      rewrite <- Z.pow_add_r by lia.
      replace ((4 * a) ^ (j + j) * (4 * a)) with ((4 * a) ^ (2 * j + 1))
        by (rewrite (Z.pow_add_r _ (2 * j) 1), Z.pow_1_r by lia; f_equal; f_equal; lia).
      rewrite Z.pow_mul_l, Hd.
      replace (4 ^ (2 * j + 1)) with (2 ^ (4 * j + 2))
        by (change 4 with (2 ^ 2); rewrite <- Z.pow_mul_r by lia; f_equal; lia).
      rewrite H2. ring.
    Qed.
  End FiveModEight.
End SqrtPrime.

(* ================= the Lucas / Cipolla branch ==================================================
   Z[t]/(t^2 - b t + a) on pairs (u0, u1) = u0 + u1 t.  The ring laws are polynomial identities
   over Z; only the comparison with the model's lists is modulo p. *)
Section QuadAlg.
  Variables a b : Z.
  Definition qmul (u v : Z * Z) : Z * Z :=
    (fst u * fst v - a * (snd u * snd v), fst u * snd v + snd u * fst v + b * (snd u * snd v)).
  Definition qconj (u : Z * Z) : Z * Z := (fst u + b * snd u, - snd u).
  Fixpoint qpow (u : Z * Z) (n : nat) : Z * Z :=
    match n with O => (1, 0) | S k => qmul u (qpow u k) end.

  Lemma qmul_comm u v : qmul u v = qmul v u.
  Proof. unfold qmul. f_equal; ring. Qed.
  Lemma qmul_assoc u v w : qmul u (qmul v w) = qmul (qmul u v) w.
  Proof. unfold qmul. cbn [fst snd]. f_equal; ring. Qed.
  Lemma qmul_1_l u : qmul (1, 0) u = u.
  Proof. destruct u as [u0 u1]. unfold qmul. cbn [fst snd]. f_equal; ring. Qed.
  Lemma qmul_1_r u : qmul u (1, 0) = u.
  Proof. rewrite qmul_comm. apply qmul_1_l. Qed.
  Lemma qconj_mul u v : qconj (qmul u v) = qmul (qconj u) (qconj v).
  Proof. unfold qconj, qmul. cbn [fst snd]. f_equal; ring. Qed.
  Lemma qconj_scalar c : qconj (c, 0) = (c, 0).
  Proof. unfold qconj. cbn [fst snd]. f_equal; ring. Qed.
  Lemma qconj_t_norm : qmul (0, 1) (qconj (0, 1)) = (a, 0).
  Proof. unfold qconj, qmul. cbn [fst snd]. f_equal; ring. Qed.

  Lemma qpow_add u m n : qpow u (m + n) = qmul (qpow u m) (qpow u n).
  Proof.
    induction m as [|m IH]; cbn [qpow Nat.add].
    - now rewrite qmul_1_l.
    - now rewrite IH, qmul_assoc.
  Qed.
  Lemma qpow_mul_distr u v n : qpow (qmul u v) n = qmul (qpow u n) (qpow v n).
  Proof.
    induction n as [|n IH]; cbn [qpow].
    - now rewrite qmul_1_l.
    - rewrite IH. rewrite !qmul_assoc. f_equal.
      rewrite <- !qmul_assoc. f_equal. apply qmul_comm.
  Qed.
  Lemma qpow_conj u n : qconj (qpow u n) = qpow (qconj u) n.
  Proof.
    induction n as [|n IH]; cbn [qpow].
    - apply qconj_scalar.
    - now rewrite qconj_mul, IH.
  Qed.
  Lemma qpow_scalar c n : qpow (c, 0) n = (c ^ Z.of_nat n, 0).
  Proof.
    induction n as [|n IH].
    - reflexivity.
    - cbn [qpow]. rewrite IH, Nat2Z.inj_succ, Z.pow_succ_r by lia.
      unfold qmul. cbn [fst snd]. f_equal; ring.
  Qed.
  Lemma qpow_twice u n : qpow (qmul u u) n = qpow u (2 * n).
  Proof.
    rewrite qpow_mul_distr. replace (2 * n)%nat with (n + n)%nat by lia. now rewrite qpow_add.
  Qed.
End QuadAlg.

Lemma reduce_quadratic c0 c1 c2 m0 m1 p :
  polynomial_reduce_mod [c0; c1; c2] [m0; m1; 1] p =
  Ok (if c2 =? 0 then [c0; c1] else [(c0 - c2 * m0) mod p; (c1 - c2 * m1) mod p]).
Proof.
  unfold polynomial_reduce_mod. cbn [rev app]. rewrite Z.eqb_refl.
  cbn [negb length Nat.ltb Nat.leb reduce_loop].
  destruct (c2 =? 0); reflexivity.
Qed.

Lemma reduce_short c0 c1 m0 m1 p :
  polynomial_reduce_mod [c0; c1] [m0; m1; 1] p = Ok [c0; c1].
Proof.
  unfold polynomial_reduce_mod. cbn [rev app]. rewrite Z.eqb_refl. reflexivity.
Qed.

Section QuadModel.
  Variables p a b : Z.
  Hypothesis Hpos : 0 < p.

  Add Ring eqm_ring_quad : (eqm_rt p)
    (setoid (eqm_equiv p) (eqm_ext p), morphism (eqm_morph p), constants [Zcst]).

  Definition qeq (u v : Z * Z) : Prop := eqm p (fst u) (fst v) /\ eqm p (snd u) (snd v).

  Lemma qeq_refl u : qeq u u.
  Proof. split; reflexivity. Qed.
  Lemma qeq_sym u v : qeq u v -> qeq v u.
  Proof. intros [H1 H2]. split; now symmetry. Qed.
  Lemma qeq_trans u v w : qeq u v -> qeq v w -> qeq u w.
  Proof. intros [H1 H2] [H3 H4]. split; etransitivity; eassumption. Qed.
  Lemma qmul_qeq u u' v v' : qeq u u' -> qeq v v' -> qeq (qmul a b u v) (qmul a b u' v').
  Proof.
    intros [H1 H2] [H3 H4]. unfold qmul. split; cbn [fst snd]; now rewrite H1, H2, H3, H4.
  Qed.
  Lemma qconj_qeq u v : qeq u v -> qeq (qconj b u) (qconj b v).
  Proof. intros [H1 H2]. unfold qconj. split; cbn [fst snd]; [now rewrite H1, H2 | now rewrite H2]. Qed.

  (* lists that stand for ring elements: [u0; u1] and the one-element list [u0] *)
  Definition pair_of (l : list Z) : option (Z * Z) :=
    match l with
    | [u0; u1] => Some (u0, u1)
    | [u0] => Some (u0, 0)
    | _ => None
    end.
  Definition reduced (l : list Z) : Prop := Forall (fun c => 0 <= c < p) l.

  Let f := [a; - b; 1].

  Lemma pmm_quad g0 g1 s v : pair_of s = Some v ->
    exists r0 r1, polynomial_multiply_mod [g0; g1] s f p = Ok [r0; r1] /\
      qeq (r0, r1) (qmul a b (g0, g1) v) /\ reduced [r0; r1].
  Proof.
    intro Hs. pose proof (fun x => Z.mod_pos_bound x p Hpos) as Hb.
    destruct s as [|s0 [|s1 [|? ?]]]; try discriminate; cbn [pair_of] in Hs; inversion Hs; subst v; clear Hs.
    - (* [s0] *)
      unfold polynomial_multiply_mod, f.
      change (cross_terms [g0; g1] [s0] p) with [(0 + g0 * s0) mod p; (0 + g1 * s0) mod p].
      rewrite reduce_short. eexists _, _. split; [reflexivity|]. split.
      + unfold qeq, qmul. cbn [fst snd]. rewrite !mod_eqm. split; ring.
      + repeat constructor; apply Hb.
    - (* [s0; s1] *)
      unfold polynomial_multiply_mod, f.
      change (cross_terms [g0; g1] [s0; s1] p) with
        [(0 + g0 * s0) mod p; ((0 + g0 * s1) mod p + g1 * s0) mod p; (0 + g1 * s1) mod p].
      rewrite reduce_quadratic.
      destruct ((0 + g1 * s1) mod p =? 0) eqn:E2.
      + apply Z.eqb_eq in E2. eexists _, _. split; [reflexivity|]. split.
        * assert (E2' : eqm p (g1 * s1) 0).
          { apply eqm_0_iff. exact E2. }
          unfold qeq, qmul. cbn [fst snd]. rewrite !mod_eqm, E2'. split; ring.
        * repeat constructor; apply Hb.
      + eexists _, _. split; [reflexivity|]. split.
        * unfold qeq, qmul. cbn [fst snd]. split.
          -- rewrite (mod_eqm p (_ - _)), !mod_eqm. ring.
          -- rewrite (mod_eqm p (_ - _)), (mod_eqm p (_ + _)), !mod_eqm. ring.
        * repeat constructor; apply Hb.
  Qed.

  Instance qeq_equiv : Equivalence qeq.
  Proof. split; [exact qeq_refl | exact qeq_sym | exact qeq_trans]. Qed.
  Instance qmul_proper : Proper (qeq ==> qeq ==> qeq) (qmul a b).
  Proof. intros u u' Hu v v' Hv. now apply qmul_qeq. Qed.
  Lemma qpow_qeq u u' n : qeq u u' -> qeq (qpow a b u n) (qpow a b u' n).
  Proof. intro H. induction n as [|n IH]; cbn [qpow]; [reflexivity | now apply qmul_qeq]. Qed.

  (* the exponent still to be applied by the loop: k without its lowest bit *)
  Definition ev (k : positive) : nat :=
    match k with xH => 0 | xO q | xI q => 2 * Pos.to_nat q end%nat.
  Lemma ev_spec k : Pos.to_nat k = ((if pos_odd k then 1 else 0) + ev k)%nat.
  Proof.
    destruct k as [k|k|]; cbn [pos_odd ev]; rewrite ?Pos2Nat.inj_xI, ?Pos2Nat.inj_xO; lia.
  Qed.

  (* the square-and-multiply loop of polynomial_exp_mod *)
  Lemma pexp_loop_quad : forall k g0 g1 s v, pair_of s = Some v ->
    exists l w, pexp_loop k [g0; g1] s f p = Ok l /\ pair_of l = Some w /\
      qeq w (qmul a b v (qpow a b (g0, g1) (ev k))) /\
      (k <> xH -> reduced l /\ length l = 2%nat).
  Proof.
    assert (Step : forall q g0 g1 s v, pair_of s = Some v ->
      (forall g0 g1 s v, pair_of s = Some v ->
        exists l w, pexp_loop q [g0; g1] s f p = Ok l /\ pair_of l = Some w /\
          qeq w (qmul a b v (qpow a b (g0, g1) (ev q))) /\
          (q <> xH -> reduced l /\ length l = 2%nat)) ->
      exists l w,
        (let* G' := polynomial_multiply_mod [g0; g1] [g0; g1] f p in
         let* s' := if pos_odd q then polynomial_multiply_mod G' s f p else Ok s in
         pexp_loop q G' s' f p) = Ok l /\ pair_of l = Some w /\
        qeq w (qmul a b v (qpow a b (g0, g1) (2 * Pos.to_nat q))) /\
        (reduced l /\ length l = 2%nat)).
    { intros q g0 g1 s v Hs IH.
      destruct (pmm_quad g0 g1 [g0; g1] (g0, g1) eq_refl) as [h0 [h1 [EG [HG _]]]].
      rewrite EG. cbn [bind].
      assert (Hpow : forall n, qeq (qpow a b (h0, h1) n) (qpow a b (g0, g1) (2 * n))).
      { intro n. rewrite <- qpow_twice. apply qpow_qeq, HG. }
      rewrite (ev_spec q).
      replace (2 * ((if pos_odd q then 1 else 0) + ev q))%nat
        with ((if pos_odd q then 2 else 0) + 2 * ev q)%nat by (destruct (pos_odd q); lia).
      rewrite qpow_add.
      destruct (pos_odd q) eqn:Eodd.
      - destruct (pmm_quad h0 h1 s v Hs) as [r0 [r1 [Es [Hs' Hred]]]].
        rewrite Es. cbn [bind].
        destruct (IH h0 h1 [r0; r1] (r0, r1) eq_refl) as [l [w [El [Hl [Hw Hk]]]]].
        exists l, w. split; [exact El|]. split; [exact Hl|]. split.
        + rewrite Hw, Hs', Hpow. rewrite <- (Hpow 1%nat). cbn [qpow]. rewrite qmul_1_r.
          rewrite (qmul_comm a b (h0, h1) v), !qmul_assoc. reflexivity.
        + destruct (Pos.eq_dec q xH) as [->|Hne]; [|apply Hk, Hne].
          cbn [pexp_loop] in El. inversion El; subst l. split; [exact Hred | reflexivity].
      - cbn [bind].
        destruct (IH h0 h1 s v Hs) as [l [w [El [Hl [Hw Hk]]]]].
        exists l, w. split; [exact El|]. split; [exact Hl|].
        assert (Hne : q <> xH) by (intro; subst q; discriminate).
        split; [|apply Hk, Hne].
        rewrite Hw, Hpow. cbn [qpow]. rewrite qmul_1_l. reflexivity. }
    induction k as [q IH|q IH|]; intros g0 g1 s v Hs.
    - cbn [pexp_loop ev].
      destruct (Step q g0 g1 s v Hs IH) as [l [w [E [Hl [Hw Hr]]]]].
      exists l, w. split; [exact E|]. split; [exact Hl|]. split; [exact Hw|]. intros _. exact Hr.
    - cbn [pexp_loop ev].
      destruct (Step q g0 g1 s v Hs IH) as [l [w [E [Hl [Hw Hr]]]]].
      exists l, w. split; [exact E|]. split; [exact Hl|]. split; [exact Hw|]. intros _. exact Hr.
    - exists s, v. cbn [pexp_loop ev qpow].
      split; [reflexivity|]. split; [exact Hs|]. split; [rewrite qmul_1_r; reflexivity|].
      intro H; contradiction.
  Qed.

  (* polynomial_exp_mod (0, 1) m f p = t^m *)
  Lemma pexp_quad m : 2 <= m < p ->
    exists r0 r1, polynomial_exp_mod [0; 1] m f p = Ok [r0; r1] /\
      qeq (r0, r1) (qpow a b (0, 1) (Z.to_nat m)) /\ 0 <= r0 < p /\ 0 <= r1 < p.
  Proof.
    intros Hm. unfold polynomial_exp_mod.
    assert (E : (m <? p) = true) by (apply Z.ltb_lt; lia). rewrite E. cbn [negb].
    destruct m as [|k|k]; [lia| |lia].
    set (s := if pos_odd k then [0; 1] else [1]).
    assert (Hs : pair_of s = Some (if pos_odd k then (0, 1) else (1, 0))).
    { unfold s. destruct (pos_odd k); reflexivity. }
    destruct (pexp_loop_quad k 0 1 s _ Hs) as [l [w [El [Hl [Hw Hk]]]]].
    assert (Hne : k <> xH) by (intro; subst k; lia).
    destruct (Hk Hne) as [Hred Hlen].
    destruct l as [|r0 [|r1 [|? ?]]]; try discriminate.
    cbn [pair_of] in Hl. inversion Hl; subst w.
    exists r0, r1. split; [exact El|]. split.
    - eapply qeq_trans; [exact Hw|].
      rewrite Z2Nat.inj_pos, (ev_spec k), qpow_add. apply qmul_qeq; [|apply qeq_refl].
      destruct (pos_odd k); cbn [qpow]; [rewrite qmul_1_r|]; apply qeq_refl.
    - inversion Hred as [|? ? H0 Hred']; subst. inversion Hred' as [|? ? H1 ?]; subst. split; assumption.
  Qed.
End QuadModel.

(* the bounded search loop: whatever it returns was returned by one round *)
Lemma until_pos_spec {S R : Type} (step : S -> S + R) (I : S -> Prop) :
  (forall s s', I s -> step s = inl s' -> I s') ->
  forall n s, I s ->
    match until_pos step n s with
    | inl s' => I s'
    | inr r => exists s0, I s0 /\ step s0 = inr r
    end.
Proof.
  intro Hstep. induction n as [n IH|n IH|]; intros s Hs; cbn [until_pos].
  - destruct (step s) as [s1|r] eqn:E1; [|exists s; auto].
    pose proof (IH s1 (Hstep _ _ Hs E1)) as H1.
    destruct (until_pos step n s1) as [s2|r]; [|exact H1]. apply IH, H1.
  - pose proof (IH s Hs) as H1.
    destruct (until_pos step n s) as [s2|r]; [|exact H1]. apply IH, H1.
  - destruct (step s) as [s1|r] eqn:E1; [eapply Hstep; eassumption | exists s; auto].
Qed.

Section SqrtGeneric.
  Variable p : Z.
  Hypothesis Hp : prime p.

  Add Ring eqm_ring_gen : (eqm_rt p)
    (setoid (eqm_equiv p) (eqm_ext p), morphism (eqm_morph p), constants [Zcst]).

  (* one round of the loop: if it answers r, then r*r = a^((p+1)/2) *)
  Lemma sqrt_try_sound a b h r : p = 2 * h + 1 -> 1 <= h ->
    sqrt_try a p b = Ok (Some r) -> eqm p (r * r) (a ^ (h + 1)) /\ 0 <= r < p.
  Proof.
    intros Eh Hh H. unfold sqrt_try in H.
    destruct (jacobi (b * b - 4 * a) p) as [jv|e]; [|discriminate]. cbn [bind] in H.
    destruct (jv =? -1); [|discriminate].
    assert (Em : (p + 1) / 2 = h + 1).
    { replace (p + 1) with ((h + 1) * 2) by lia. apply Z.div_mul. lia. }
    rewrite Em in H.
    destruct (pexp_quad p a b ltac:(lia) (h + 1) ltac:(lia)) as [r0 [r1 [E [Hq [Hr0 Hr1]]]]].
    rewrite E in H. cbn [bind nth_error] in H.
    destruct (r1 =? 0) eqn:E1; [|discriminate]. cbn [negb] in H.
    apply Z.eqb_eq in E1. subst r1. inversion H; subst r0. clear H. split; [|exact Hr0].
    set (T := qpow a b (0, 1) (Z.to_nat (h + 1))) in *.
    pose proof (qmul_qeq p a b _ _ _ _ Hq (qconj_qeq p b _ _ Hq)) as HN.
    unfold T in HN at 2. rewrite qpow_conj in HN. unfold T in HN.
    rewrite <- qpow_mul_distr, qconj_t_norm, qpow_scalar, Z2Nat.id in HN by lia.
    destruct HN as [HN _]. cbn [fst snd qmul qconj] in HN.
    rewrite <- HN. ring.
  Qed.

  Lemma sqrt_search_sound a h r : p = 2 * h + 1 -> 1 <= h -> eqm p (a ^ h) 1 ->
    sqrt_search a p = Ok r -> eqm p (r * r) a /\ 0 <= r < p.
  Proof.
    intros Eh Hh He H. unfold sqrt_search in H.
    destruct (p - 2) as [|n|n]; try discriminate.
    pose proof (until_pos_spec (sqrt_step a p) (fun _ => True) (fun _ _ _ _ => I) n 2 I) as U.
    destruct (until_pos (sqrt_step a p) n 2) as [s'|r']; [discriminate|]. subst r'.
    destruct U as [b [_ Hb]]. unfold sqrt_step in Hb.
    destruct (sqrt_try a p b) as [[r'|]|e] eqn:Et; try discriminate.
    inversion Hb; subst r'.
    destruct (sqrt_try_sound a b h r Eh Hh Et) as [H1 H2]. split; [|exact H2].
    rewrite H1, Z.pow_add_r, Z.pow_1_r, He by lia. ring.
  Qed.
End SqrtGeneric.

(* ================= square_root_mod_prime: the theorems ========================================== *)

(* soundness, every branch: for a prime modulus and a quadratic residue a, whatever the function
   returns is a square root of a in [0, p) *)
Theorem sqrt_sound_qr p a r : prime p -> is_qr p a ->
  square_root_mod_prime a p = Ok r -> eqm p (r * r) a /\ 0 <= r < p.
Proof.
  intros Hp Hq H. pose proof (prime_ge_2 p Hp) as Hp2. unfold square_root_mod_prime in H.
  destruct ((0 <=? a) && (a <? p)) eqn:Er; [|discriminate]. cbn [negb] in H.
  apply andb_true_iff in Er as [Ea1 Ea2]. apply Z.leb_le in Ea1. apply Z.ltb_lt in Ea2.
  destruct (1 <? p); [|discriminate]. cbn [negb] in H.
  destruct (a =? 0) eqn:E0.
  { apply Z.eqb_eq in E0. inversion H; subst. split; [reflexivity | lia]. }
  apply Z.eqb_neq in E0.
  destruct (p =? 2) eqn:E2.
  { apply Z.eqb_eq in E2. inversion H; subst. assert (r = 1) by lia. subst r. split; [reflexivity | lia]. }
  apply Z.eqb_neq in E2.
  assert (Hodd : p mod 2 = 1) by (apply prime_odd; [exact Hp | lia]).
  assert (Hnz : ~ eqm p a 0) by (apply eqm_small_nz; lia).
  destruct (jacobi a p) as [jv|e]; [|discriminate]. cbn [bind] in H.
  destruct (jv =? -1); [discriminate|].
  destruct (p mod 4 =? 3) eqn:E4.
  { apply Z.eqb_eq in E4. inversion H; subst r. split.
    - apply sqrt_3mod4_root; assumption.
    - apply powmod_range; [|lia]. apply Z.div_pos; lia. }
  apply Z.eqb_neq in E4.
  destruct (p mod 8 =? 5) eqn:E8.
  { apply Z.eqb_eq in E8.
    pose proof (Z.div_mod p 8 ltac:(lia)) as Ed. rewrite E8 in Ed. set (j := p / 8) in *.
    assert (Hj : 0 <= j) by lia.
    rewrite (e58_a p j Ed) in H.
    destruct (sqrt_5mod8_d p Hp j Ed a Hq Hnz) as [Hd|Hd].
    - (* d = 1 *)
      assert (Ed1 : powmod a (2 * j + 1) p = 1).
      { apply (eqm_small_eq p); [apply powmod_range; lia | lia |]. rewrite powmod_eqm by lia. exact Hd. }
      rewrite Ed1 in H. cbn [Z.eqb Pos.eqb] in H. inversion H; subst r. split.
      + apply (sqrt_5mod8_root1 p Hp j Ed). exact Hd.
      + apply powmod_range; [|lia]. apply Z.div_pos; lia.
    - (* d = p - 1 *)
      assert (Ed1 : powmod a (2 * j + 1) p = p - 1).
      { apply (eqm_small_eq p); [apply powmod_range; lia | lia |]. rewrite powmod_eqm, Hd by lia.
        apply eqm_def. replace (p - 1) with (-1 + 1 * p) by lia. now rewrite Z.mod_add by lia. }
      rewrite Ed1 in H.
      assert (En : (p - 1 =? 1) = false) by (apply Z.eqb_neq; lia). rewrite En, Z.eqb_refl in H.
      cbn [negb] in H. inversion H; subst r. split.
      + apply (sqrt_5mod8_root2 p Hp j Ed a Hq Hd).
      + apply Z.mod_pos_bound. lia. }
  (* the loop *)
  pose proof (Z.div_mod p 2 ltac:(lia)) as Ed. rewrite Hodd in Ed. set (h := p / 2) in *.
  apply (sqrt_search_sound p a h r Ed); [lia | | exact H].
  apply (euler_qr p Hp a h Ed Hq Hnz).
Qed.

(* completeness for p % 4 == 3: a root is returned, unless jacobi says "non-residue" *)
Theorem sqrt_complete_3mod4 p a : prime p -> p mod 4 = 3 -> 0 <= a < p -> is_qr p a ->
  jacobi a p <> Ok (-1) ->
  exists r, square_root_mod_prime a p = Ok r /\ eqm p (r * r) a /\ 0 <= r < p.
Proof.
  intros Hp H4 Ha Hq Hj. pose proof (prime_ge_2 p Hp) as Hp2.
  assert (Hex : exists r, square_root_mod_prime a p = Ok r).
  { unfold square_root_mod_prime.
    assert (E1 : (0 <=? a) && (a <? p) = true) by (apply andb_true_iff; split; [apply Z.leb_le | apply Z.ltb_lt]; lia).
    assert (E2 : (1 <? p) = true) by (apply Z.ltb_lt; lia).
    rewrite E1, E2. cbn [negb].
    destruct (a =? 0); [eexists; reflexivity|].
    destruct (p =? 2) eqn:E3; [apply Z.eqb_eq in E3; subst p; discriminate|].
    apply Z.eqb_neq in E3.
    destruct (jacobi_terminates a p ltac:(lia) (prime_odd p Hp ltac:(lia))) as [jv [Ej _]].
    rewrite Ej in *. cbn [bind].
    destruct (jv =? -1) eqn:Ejv; [apply Z.eqb_eq in Ejv; subst jv; contradiction|].
    apply Z.eqb_eq in H4. rewrite H4. eexists; reflexivity. }
  destruct Hex as [r Hr]. exists r. split; [exact Hr|]. exact (sqrt_sound_qr p a r Hp Hq Hr).
Qed.

(* completeness for p % 8 == 5, both sub-branches; the assert never fires *)
Theorem sqrt_complete_5mod8 p a : prime p -> p mod 8 = 5 -> 0 <= a < p -> is_qr p a ->
  jacobi a p <> Ok (-1) ->
  exists r, square_root_mod_prime a p = Ok r /\ eqm p (r * r) a /\ 0 <= r < p.
Proof.
  intros Hp H8 Ha Hq Hj. pose proof (prime_ge_2 p Hp) as Hp2.
  pose proof (Z.div_mod p 8 ltac:(lia)) as Ed. rewrite H8 in Ed. set (j := p / 8) in *.
  assert (Hj0 : 0 <= j) by lia.
  assert (Hex : exists r, square_root_mod_prime a p = Ok r).
  { unfold square_root_mod_prime.
    assert (E1 : (0 <=? a) && (a <? p) = true) by (apply andb_true_iff; split; [apply Z.leb_le | apply Z.ltb_lt]; lia).
    assert (E2 : (1 <? p) = true) by (apply Z.ltb_lt; lia).
    rewrite E1, E2. cbn [negb].
    destruct (a =? 0) eqn:E0; [eexists; reflexivity|]. apply Z.eqb_neq in E0.
    destruct (p =? 2) eqn:E3; [apply Z.eqb_eq in E3; lia|].
    destruct (jacobi_terminates a p ltac:(lia) (prime_odd p Hp ltac:(lia))) as [jv [Ej _]].
    rewrite Ej in *. cbn [bind].
    destruct (jv =? -1) eqn:Ejv; [apply Z.eqb_eq in Ejv; subst jv; contradiction|].
    assert (E4 : (p mod 4 =? 3) = false).
    { apply Z.eqb_neq. rewrite Ed.
      replace (8 * j + 5) with (1 + (2 * j + 1) * 4) by lia. rewrite Z.mod_add by lia. discriminate. }
    rewrite E4. apply Z.eqb_eq in H8. rewrite H8.
    rewrite (e58_a p j Ed).
    assert (Hnz : ~ eqm p a 0) by (apply eqm_small_nz; lia).
    destruct (powmod a (2 * j + 1) p =? 1) eqn:Ed1; [eexists; reflexivity|].
    destruct (sqrt_5mod8_d p Hp j Ed a Hq Hnz) as [Hd|Hd].
    - exfalso. apply Z.eqb_neq in Ed1. apply Ed1.
      apply (eqm_small_eq p); [apply powmod_range; lia | lia |]. rewrite powmod_eqm by lia. exact Hd.
    - assert (Ed2 : powmod a (2 * j + 1) p = p - 1).
      { apply (eqm_small_eq p); [apply powmod_range; lia | lia |]. rewrite powmod_eqm, Hd by lia.
        apply eqm_def. replace (p - 1) with (-1 + 1 * p) by lia. now rewrite Z.mod_add by lia. }
      rewrite Ed2, Z.eqb_refl. cbn [negb]. eexists; reflexivity. }
  destruct Hex as [r Hr]. exists r. split; [exact Hr|]. exact (sqrt_sound_qr p a r Hp Hq Hr).
Qed.

(* the error kinds of square_root_mod_prime for a prime modulus: SquareRootError, or the loop's
   RuntimeError; AssertionError only for an argument outside [0, p) *)
Theorem sqrt_non_residue_rejected p a : 3 <= p -> 0 < a < p -> jacobi a p = Ok (-1) ->
  square_root_mod_prime a p = Err ESquareRoot.
Proof.
  intros Hp Ha Hj. unfold square_root_mod_prime.
  assert (E1 : (0 <=? a) && (a <? p) = true) by (apply andb_true_iff; split; [apply Z.leb_le | apply Z.ltb_lt]; lia).
  assert (E2 : (1 <? p) = true) by (apply Z.ltb_lt; lia).
  assert (E3 : (a =? 0) = false) by (apply Z.eqb_neq; lia).
  assert (E4 : (p =? 2) = false) by (apply Z.eqb_neq; lia).
  rewrite E1, E2, E3, E4, Hj. reflexivity.
Qed.

(* soundness with the narrowed oracle made explicit: either a is a quadratic residue, or jacobi
   recognises it as a non-residue (then the function raises SquareRootError and returns nothing).
   What is missing for the unconditional statement is exactly "jacobi a p = -1 for every
   non-residue a", the correctness of the Jacobi-symbol algorithm (quadratic reciprocity). *)
Theorem sqrt_sound p a r : prime p -> is_qr p a \/ jacobi a p = Ok (-1) ->
  square_root_mod_prime a p = Ok r -> eqm p (r * r) a /\ 0 <= r < p.
Proof.
  intros Hp [Hq|Hj] H; [exact (sqrt_sound_qr p a r Hp Hq H)|].
  pose proof (prime_ge_2 p Hp) as Hp2. unfold square_root_mod_prime in H.
  destruct ((0 <=? a) && (a <? p)) eqn:Er; [|discriminate]. cbn [negb] in H.
  apply andb_true_iff in Er as [Ea1 Ea2]. apply Z.leb_le in Ea1. apply Z.ltb_lt in Ea2.
  destruct (1 <? p); [|discriminate]. cbn [negb] in H.
  destruct (a =? 0) eqn:E0.
  { apply Z.eqb_eq in E0. inversion H; subst. split; [reflexivity | lia]. }
  apply Z.eqb_neq in E0.
  destruct (p =? 2) eqn:E2.
  { apply Z.eqb_eq in E2. inversion H; subst. assert (r = 1) by lia. subst r. split; [reflexivity | lia]. }
  rewrite Hj in H. discriminate.
Qed.
