(* C20 (part 1) - the unbounded invariant of the generated RWLock programs
   (Gen/RwLock.v under the semantics of Model/Sched.v), for ANY number of threads.

   The invariant is a set of linear equations between lock bits, counters and
   sums over the thread list of per-thread weights (1 when the thread's
   (role, pc) lies in a given region, 0 otherwise):

     bit read_switch_mutex  = # readers between Acq and Rel of that mutex
     bit write_switch_mutex = # writers between Acq and Rel of that mutex
     read_switch_counter    = # readers between their StoreInc and StoreDec
     write_switch_counter   = # writers between their StoreInc and StoreDec
     bit readers_queue      = # readers between Acq and Rel of readers_queue
     bit no_readers + A_w   = # readers holding no_readers + [write counter > 0] + D_w
     bit no_writers + A_r   = # writers in the critical section + [read counter > 0] + D_r

   where A = "the first thread of a group has incremented the counter but not yet
   taken the gate lock" and D = "the last thread has decremented it to zero but
   not yet released the gate lock"; plus, per thread, tmp = counter between a
   Load and its Store (this is what the switch mutex protects).

   The proofs are case analyses over the program counters of the generated
   programs, so they are proofs about the source as it is now. *)
From Coq Require Import List Bool Arith Lia.
From Bec2 Require Import Gen.RwLock Model.Sched.
Import ListNotations.

Definition sum (w : thread -> nat) (l : list thread) : nat := list_sum (map w l).

Lemma sum_nil w : sum w [] = 0.
Proof. reflexivity. Qed.
Lemma sum_cons w t l : sum w (t :: l) = w t + sum w l.
Proof. reflexivity. Qed.
Lemma sum_app w a b : sum w (a ++ b) = sum w a + sum w b.
Proof. unfold sum. rewrite map_app, list_sum_app. reflexivity. Qed.

Definition b2n (b : bool) : nat := if b then 1 else 0.
Definition pos (n : nat) : nat := match n with O => 0 | S _ => 1 end.
Definition is (n k : nat) : nat := if n =? k then 1 else 0.

(* ---- regions ---------------------------------------------------------------- *)
Definition w_rq (t : thread) : nat :=
  match t_role t, t_pc t with Reader, (1|2|3|4|5|6|7|8|9|10) => 1 | _, _ => 0 end.
Definition w_nr (t : thread) : nat :=
  match t_role t, t_pc t with Reader, (2|3|4|5|6|7|8|9) => 1 | _, _ => 0 end.
Definition w_rm (t : thread) : nat :=
  match t_role t, t_pc t with Reader, (4|5|6|7|8|13|14|15|16|17) => 1 | _, _ => 0 end.
Definition w_cr (t : thread) : nat :=
  match t_role t, t_pc t with Reader, (6|7|8|9|10|11|12|13|14) => 1 | _, _ => 0 end.
Definition w_rcs (t : thread) : nat :=
  match t_role t, t_pc t with Reader, 11 => 1 | _, _ => 0 end.
Definition w_wm (t : thread) : nat :=
  match t_role t, t_pc t with Writer, (2|3|4|5|6|11|12|13|14|15) => 1 | _, _ => 0 end.
Definition w_cw (t : thread) : nat :=
  match t_role t, t_pc t with Writer, (4|5|6|7|8|9|10|11|12) => 1 | _, _ => 0 end.
Definition w_wcs (t : thread) : nat :=
  match t_role t, t_pc t with Writer, 8 => 1 | _, _ => 0 end.
Definition A_r (c : nat) (t : thread) : nat :=
  match t_role t, t_pc t with Reader, (6|7) => is c 1 | _, _ => 0 end.
Definition D_r (c : nat) (t : thread) : nat :=
  match t_role t, t_pc t with Reader, 15 => is c 0 | Reader, 16 => 1 | _, _ => 0 end.
Definition A_w (c : nat) (t : thread) : nat :=
  match t_role t, t_pc t with Writer, 4 => is c 1 | Writer, 5 => 1 | _, _ => 0 end.
Definition D_w (c : nat) (t : thread) : nat :=
  match t_role t, t_pc t with Writer, 13 => is c 0 | Writer, 14 => 1 | _, _ => 0 end.

Definition tok_r (c : nat) (t : thread) : Prop :=
  match t_role t, t_pc t with
  | Reader, (5|14) => t_tmp t = c
  | Reader, 7 => c = 1
  | _, _ => True
  end.
Definition tok_w (c : nat) (t : thread) : Prop :=
  match t_role t, t_pc t with
  | Writer, (3|12) => t_tmp t = c
  | _, _ => True
  end.

Record Inv (s : state) : Prop := mkInv {
  i_rm : b2n (getl (s_l s) L_read_switch_mutex) = sum w_rm (s_th s);
  i_wm : b2n (getl (s_l s) L_write_switch_mutex) = sum w_wm (s_th s);
  i_cr : getc (s_c s) C_read_switch_counter = sum w_cr (s_th s);
  i_cw : getc (s_c s) C_write_switch_counter = sum w_cw (s_th s);
  i_rq : b2n (getl (s_l s) L_readers_queue) = sum w_rq (s_th s);
  i_nr : b2n (getl (s_l s) L_no_readers) + sum (A_w (getc (s_c s) C_write_switch_counter)) (s_th s)
         = sum w_nr (s_th s) + pos (getc (s_c s) C_write_switch_counter)
           + sum (D_w (getc (s_c s) C_write_switch_counter)) (s_th s);
  i_nw : b2n (getl (s_l s) L_no_writers) + sum (A_r (getc (s_c s) C_read_switch_counter)) (s_th s)
         = sum w_wcs (s_th s) + pos (getc (s_c s) C_read_switch_counter)
           + sum (D_r (getc (s_c s) C_read_switch_counter)) (s_th s);
  i_tr : Forall (tok_r (getc (s_c s) C_read_switch_counter)) (s_th s);
  i_tw : Forall (tok_w (getc (s_c s) C_write_switch_counter)) (s_th s)
}.

(* ---- pointwise facts about the weights --------------------------------------- *)
Ltac pcs t :=
  let r := fresh "r" in let pc := fresh "pc" in let tmp := fresh "tmp" in
  destruct t as [r pc tmp]; destruct r;
  do 19 (try (destruct pc as [|pc])); cbn.

Ltac eqbs :=
  repeat match goal with
         | |- context [?a =? ?b] => destruct (Nat.eqb_spec a b)
         | H : context [?a =? ?b] |- _ => destruct (Nat.eqb_spec a b)
         end.

Lemma sum_le w u l : (forall t, w t <= u t) -> sum w l <= sum u l.
Proof. intro H. induction l as [|t l IH]; [apply Nat.le_refl|]. rewrite !sum_cons. specialize (H t). lia. Qed.

Lemma A_r_rm c l : sum (A_r c) l <= sum w_rm l.
Proof. apply sum_le. intro t. pcs t; unfold is; eqbs; lia. Qed.
Lemma D_r_rm c l : sum (D_r c) l <= sum w_rm l.
Proof. apply sum_le. intro t. pcs t; unfold is; eqbs; lia. Qed.
Lemma A_w_wm c l : sum (A_w c) l <= sum w_wm l.
Proof. apply sum_le. intro t. pcs t; unfold is; eqbs; lia. Qed.
Lemma D_w_wm c l : sum (D_w c) l <= sum w_wm l.
Proof. apply sum_le. intro t. pcs t; unfold is; eqbs; lia. Qed.

Lemma A_r_ne1 c l : c <> 1 -> sum (A_r c) l = 0.
Proof.
  intro H. induction l as [|t l IH]; [reflexivity|]. rewrite sum_cons, IH.
  pcs t; unfold is; eqbs; lia.
Qed.

Lemma A_r_rcs_cr c l : sum (A_r c) l + sum w_rcs l <= sum w_cr l.
Proof.
  induction l as [|t l IH]; [cbn; lia|]. rewrite !sum_cons.
  assert (A_r c t + w_rcs t <= w_cr t) by (pcs t; unfold is; eqbs; lia). lia.
Qed.

Lemma A_r_cr c l : sum (A_r c) l <= sum w_cr l.
Proof. pose proof (A_r_rcs_cr c l). lia. Qed.
Lemma A_w_cw c l : sum (A_w c) l <= sum w_cw l.
Proof. apply sum_le. intro t. pcs t; unfold is; eqbs; lia. Qed.

Lemma tok_r_frame c c' l : sum w_rm l = 0 -> Forall (tok_r c) l -> Forall (tok_r c') l.
Proof.
  induction l as [|t l IH]; intros H0 HF; [constructor|].
  rewrite sum_cons in H0. inversion HF; subst. constructor; [|apply IH; [lia|assumption]].
  assert (w_rm t = 0) by lia. clear - H H2. revert H H2. pcs t; intros; auto; try discriminate; try lia.
Qed.

Lemma tok_w_frame c c' l : sum w_wm l = 0 -> Forall (tok_w c) l -> Forall (tok_w c') l.
Proof.
  induction l as [|t l IH]; intros H0 HF; [constructor|].
  rewrite sum_cons in H0. inversion HF; subst. constructor; [|apply IH; [lia|assumption]].
  assert (w_wm t = 0) by lia. clear - H H2. revert H H2. pcs t; intros; auto; try discriminate; try lia.
Qed.

(* ---- list plumbing -------------------------------------------------------------- *)
Lemma nth_split_upd {A} (l : list A) i a :
  nth_error l i = Some a ->
  exists pre post, l = pre ++ a :: post /\ forall b, upd i b l = pre ++ b :: post.
Proof.
  revert i. induction l as [|x l IH]; intros [|i] H; simpl in H; try discriminate.
  - inversion H; subst. exists [], l. split; [reflexivity|]. intro b. reflexivity.
  - destruct (IH i H) as [pre [post [-> Hu]]]. exists (x :: pre), post. split; [reflexivity|].
    intro b. simpl. rewrite Hu. reflexivity.
Qed.

Lemma sum_ge_nth w l j t : nth_error l j = Some t -> w t <= sum w l.
Proof.
  revert j. induction l as [|x l IH]; intros [|j] H; simpl in H; try discriminate.
  - inversion H; subst. rewrite sum_cons. lia.
  - rewrite sum_cons. specialize (IH j H). lia.
Qed.

Lemma sum_ge_nth2 w l i j a b :
  nth_error l i = Some a -> nth_error l j = Some b -> i <> j -> w a + w b <= sum w l.
Proof.
  revert i j. induction l as [|x l IH]; intros [|i] [|j] Ha Hb Hne; simpl in Ha, Hb; try discriminate; try congruence.
  - inversion Ha; subst. rewrite sum_cons. pose proof (sum_ge_nth w l j b Hb). lia.
  - inversion Hb; subst. rewrite sum_cons. pose proof (sum_ge_nth w l i a Ha). lia.
  - rewrite sum_cons. assert (i <> j) by congruence. specialize (IH i j Ha Hb H). lia.
Qed.

(* ---- initial state ---------------------------------------------------------------- *)
Lemma sum_init w roles : (forall r tmp, w (mkT r 0 tmp) = 0) -> sum w (map (fun r => mkT r 0 0) roles) = 0.
Proof. intro H. induction roles as [|r l IH]; [reflexivity|]. cbn [map]. rewrite sum_cons, H, IH. reflexivity. Qed.

Lemma Inv_init roles : Inv (init roles).
Proof.
  unfold init. constructor; cbn [s_l s_c s_th]; cbn [getl getc lockst0 ctrst0 v_read_switch_mutex
    v_write_switch_mutex v_no_readers v_no_writers v_readers_queue v_read_switch_counter
    v_write_switch_counter b2n pos];
    rewrite ?sum_init; try reflexivity; try (intros [] ?; reflexivity);
    apply Forall_forall; intros t Ht; apply in_map_iff in Ht as [r [<- _]]; destruct r; exact I.
Qed.

(* ---- preservation -------------------------------------------------------------------- *)
Ltac dom_facts :=
  repeat match goal with
         | |- context [sum (A_r ?c) ?l] =>
           lazymatch goal with H : sum (A_r c) l <= _ |- _ => fail | _ => pose proof (A_r_rm c l) end
         | |- context [sum (D_r ?c) ?l] =>
           lazymatch goal with H : sum (D_r c) l <= _ |- _ => fail | _ => pose proof (D_r_rm c l) end
         | |- context [sum (A_w ?c) ?l] =>
           lazymatch goal with H : sum (A_w c) l <= _ |- _ => fail | _ => pose proof (A_w_wm c l) end
         | |- context [sum (D_w ?c) ?l] =>
           lazymatch goal with H : sum (D_w c) l <= _ |- _ => fail | _ => pose proof (D_w_wm c l) end
         | _ : context [sum (A_r ?c) ?l] |- _ =>
           lazymatch goal with H : sum (A_r c) l <= _ |- _ => fail | _ => pose proof (A_r_rm c l) end
         | _ : context [sum (D_r ?c) ?l] |- _ =>
           lazymatch goal with H : sum (D_r c) l <= _ |- _ => fail | _ => pose proof (D_r_rm c l) end
         | _ : context [sum (A_w ?c) ?l] |- _ =>
           lazymatch goal with H : sum (A_w c) l <= _ |- _ => fail | _ => pose proof (A_w_wm c l) end
         | _ : context [sum (D_w ?c) ?l] |- _ =>
           lazymatch goal with H : sum (D_w c) l <= _ |- _ => fail | _ => pose proof (D_w_wm c l) end
         end.

Lemma pos_spec n : (n = 0 /\ pos n = 0) \/ (0 < n /\ pos n = 1).
Proof. destruct n; cbn; lia. Qed.
Lemma is_spec n k : (n = k /\ is n k = 1) \/ (n <> k /\ is n k = 0).
Proof. unfold is. destruct (Nat.eqb_spec n k); lia. Qed.
Lemma b2n_spec b : (b = true /\ b2n b = 1) \/ (b = false /\ b2n b = 0).
Proof. destruct b; cbn; auto. Qed.

Ltac spec_facts :=
  repeat match goal with
         | |- context [pos ?n] => pose proof (pos_spec n); generalize dependent (pos n); intros
         | _ : context [pos ?n] |- _ => pose proof (pos_spec n); generalize dependent (pos n); intros
         | |- context [is ?n ?k] => pose proof (is_spec n k); generalize dependent (is n k); intros
         | _ : context [is ?n ?k] |- _ => pose proof (is_spec n k); generalize dependent (is n k); intros
         | |- context [b2n ?b] => pose proof (b2n_spec b); generalize dependent (b2n b); intros
         | _ : context [b2n ?b] |- _ => pose proof (b2n_spec b); generalize dependent (b2n b); intros
         end.

Ltac dom_facts2 :=
  repeat match goal with
         | _ : context [sum (A_r ?c) ?l] |- _ =>
           lazymatch goal with H : sum (A_r c) l <= sum w_cr l |- _ => fail | _ => pose proof (A_r_cr c l) end
         | _ : context [sum (A_w ?c) ?l] |- _ =>
           lazymatch goal with H : sum (A_w c) l <= sum w_cw l |- _ => fail | _ => pose proof (A_w_cw c l) end
         end.

Ltac arith := cbn [b2n pos] in *; spec_facts; try discriminate; try lia.

(* the Forall parts of the invariant after a step *)
Ltac frame_tok :=
  match goal with
  | |- Forall (tok_r ?c') (?pre ++ ?t' :: ?post) =>
    apply Forall_app; split; [|constructor];
    [ first [assumption | eapply tok_r_frame; [|eassumption]; arith]
    | cbn; auto; try lia
    | first [assumption | eapply tok_r_frame; [|eassumption]; arith] ]
  | |- Forall (tok_w ?c') (?pre ++ ?t' :: ?post) =>
    apply Forall_app; split; [|constructor];
    [ first [assumption | eapply tok_w_frame; [|eassumption]; arith]
    | cbn; auto; try lia
    | first [assumption | eapply tok_w_frame; [|eassumption]; arith] ]
  end.

Lemma exec_preserves loop l c pre t post l' c' t' :
  Inv (mkS l c (pre ++ t :: post)) -> exec loop l c t = Next l' c' t' ->
  Inv (mkS l' c' (pre ++ t' :: post)).
Proof.
  intros [I1 I2 I3 I4 I5 I6 I7 I8 I9] He.
  cbn [s_l s_c s_th] in *.
  apply Forall_app in I8 as [I8a I8]. apply Forall_cons_iff in I8 as [I8t I8b].
  apply Forall_app in I9 as [I9a I9]. apply Forall_cons_iff in I9 as [I9t I9b].
  destruct l as [brm bwm bnr bnw brq]. destruct c as [cr cw].
  cbn [getl getc v_read_switch_mutex v_write_switch_mutex v_no_readers v_no_writers
       v_readers_queue v_read_switch_counter v_write_switch_counter] in *.
  rewrite !sum_app, !sum_cons in *.
  destruct t as [r pc tmp]. destruct loop.
  all: destruct r.
  all: do 19 (try (destruct pc as [|pc])).
  all: cbn in He; try discriminate.
  all: repeat match type of He with
              | context [?a =? ?b] => destruct (Nat.eqb_spec a b)
              | (if ?b then _ else _) = _ => destruct b eqn:?
              | match ?n with O => _ | S _ => _ end = _ => destruct n eqn:?
              end; try discriminate.
  all: repeat match type of He with context [norm ?l ?r ?p] => let v := eval compute in (norm l r p) in change (norm l r p) with v in He end.
  all: injection He as El Ec Et; subst l' c' t';
    repeat match goal with H : ?b = true |- _ => subst b | H : ?b = false |- _ => subst b
                      | H : ?n = S ?m |- _ => is_var n; is_var m; subst n end.
  all: cbn in I8t, I9t; cbn [w_rq w_nr w_rm w_cr w_wm w_cw w_wcs A_r D_r A_w D_w t_role t_pc t_tmp] in *.
  all: constructor; cbn [s_l s_c s_th getl getc setl setc v_read_switch_mutex v_write_switch_mutex
         v_no_readers v_no_writers v_readers_queue v_read_switch_counter v_write_switch_counter];
       rewrite ?sum_app, ?sum_cons; cbn [w_rq w_nr w_rm w_cr w_wm w_cw w_wcs A_r D_r A_w D_w t_role t_pc t_tmp Nat.add].
  all: try frame_tok.
  all: dom_facts.
  all: arith.
Qed.

Lemma step_thread_Inv loop s i s' : Inv s -> step_thread loop s i = Some s' -> Inv s'.
Proof.
  intros HI Hs. unfold step_thread in Hs.
  destruct (nth_error (s_th s) i) as [t|] eqn:En; [|discriminate].
  destruct (exec loop (s_l s) (s_c s) t) as [l' c' t'| | |] eqn:Ee; try discriminate.
  inversion Hs; subst; clear Hs.
  destruct (nth_split_upd _ _ _ En) as [pre [post [Hth Hu]]].
  rewrite Hu. destruct s as [l c ths]. cbn [s_l s_c s_th] in *. subst ths.
  eapply exec_preserves; eassumption.
Qed.

Lemma role_switch_Inv s i t r : Inv s -> nth_error (s_th s) i = Some t -> t_pc t = 0 ->
  Inv (mkS (s_l s) (s_c s) (upd i (mkT r 0 (t_tmp t)) (s_th s))).
Proof.
  intros [I1 I2 I3 I4 I5 I6 I7 I8 I9] En Hpc.
  destruct (nth_split_upd _ _ _ En) as [pre [post [Hth Hu]]].
  rewrite Hu. destruct s as [l c ths]. cbn [s_l s_c s_th] in *. subst ths.
  apply Forall_app in I8 as [I8a I8]. apply Forall_cons_iff in I8 as [I8t I8b].
  apply Forall_app in I9 as [I9a I9]. apply Forall_cons_iff in I9 as [I9t I9b].
  destruct t as [r0 pc tmp]. cbn in Hpc. subst pc.
  rewrite !sum_app, !sum_cons in *.
  constructor; cbn [s_l s_c s_th]; rewrite ?sum_app, ?sum_cons.
  all: try (apply Forall_app; split; [assumption|constructor; [destruct r; exact I|assumption]]).
  all: destruct r, r0; cbn in *; lia.
Qed.

Lemma step_Inv loop s s' : Inv s -> step loop s s' -> Inv s'.
Proof.
  intros HI Hs. destruct Hs as [s i s' Hs | s i t r En Hpc].
  - eapply step_thread_Inv; eassumption.
  - eapply role_switch_Inv; eassumption.
Qed.

Lemma reachable_Inv loop roles s : reachable loop (init roles) s -> Inv s.
Proof. intro H. induction H; [apply Inv_init | eapply step_Inv; eassumption]. Qed.

Lemma reach_exec_reachable loop s0 s : reach_exec loop s0 s -> reachable loop s0 s.
Proof. intro H. induction H; [apply reach_refl | eapply reach_step; [eassumption | eapply step_exec; eassumption]]. Qed.

(* ---- consequences -------------------------------------------------------------------- *)
Lemma b2n_le1 b : b2n b <= 1.
Proof. destruct b; cbn; lia. Qed.

(* a writer in its critical section is the only holder *)
Lemma Inv_mutex s : Inv s ->
  forall i t, nth_error (s_th s) i = Some t -> writer_in_cs t = true ->
  forall j t', nth_error (s_th s) j = Some t' -> in_cs t' = true -> j = i.
Proof.
  intros [I1 I2 I3 I4 I5 I6 I7 I8 I9] i t Hi Hw j t' Hj Hc.
  destruct (Nat.eq_dec j i) as [|Hne]; [assumption|exfalso].
  destruct t as [r pc tmp]. unfold writer_in_cs, in_cs in Hw. cbn in Hw.
  destruct r; [discriminate|]. apply Nat.eqb_eq in Hw. subst pc.
  destruct t' as [r' pc' tmp']. unfold in_cs in Hc. cbn in Hc. apply Nat.eqb_eq in Hc.
  set (cr := getc (s_c s) C_read_switch_counter) in *.
  pose proof (b2n_le1 (getl (s_l s) L_no_writers)) as Bnw.
  pose proof (b2n_le1 (getl (s_l s) L_read_switch_mutex)) as Brm.
  pose proof (A_r_rm cr (s_th s)) as HA.
  pose proof (A_r_rcs_cr cr (s_th s)) as HAc.
  destruct r'; cbn in Hc; subst pc'.
  - (* a reader in its critical section *)
    pose proof (sum_ge_nth w_wcs _ _ _ Hi) as H1. cbn in H1.
    pose proof (sum_ge_nth w_rcs _ _ _ Hj) as H2. cbn in H2.
    destruct (Nat.eq_dec cr 1) as [E|E].
    + destruct cr as [|[|]]; cbn [pos] in *; lia.
    + rewrite (A_r_ne1 cr _ E) in *. destruct cr; cbn [pos] in *; lia.
  - (* a second writer in its critical section *)
    pose proof (sum_ge_nth2 w_wcs _ _ _ _ _ Hi Hj (not_eq_sym Hne)) as H1. cbn in H1.
    destruct (Nat.eq_dec cr 1) as [E|E].
    + destruct cr as [|[|]]; cbn [pos] in *; lia.
    + rewrite (A_r_ne1 cr _ E) in *. lia.
Qed.

(* no release of a free lock and no counter underflow, ever *)
Lemma Inv_no_fault loop s : Inv s ->
  forall i t, nth_error (s_th s) i = Some t -> exec loop (s_l s) (s_c s) t <> Fault.
Proof.
  intros HI i t En He.
  destruct (nth_split_upd _ _ _ En) as [pre [post [Hth _]]].
  destruct s as [l c ths]. cbn [s_l s_c s_th] in *. subst ths.
  destruct HI as [I1 I2 I3 I4 I5 I6 I7 I8 I9]. cbn [s_l s_c s_th] in *.
  apply Forall_app in I8 as [I8a I8]. apply Forall_cons_iff in I8 as [I8t I8b].
  apply Forall_app in I9 as [I9a I9]. apply Forall_cons_iff in I9 as [I9t I9b].
  destruct l as [brm bwm bnr bnw brq]. destruct c as [cr cw].
  cbn [getl getc v_read_switch_mutex v_write_switch_mutex v_no_readers v_no_writers
       v_readers_queue v_read_switch_counter v_write_switch_counter] in *.
  rewrite !sum_app, !sum_cons in *.
  destruct t as [r pc tmp]. destruct loop.
  all: destruct r.
  all: do 19 (try (destruct pc as [|pc])).
  all: cbn in He; try discriminate.
  all: repeat match type of He with
              | context [?a =? ?b] => destruct (Nat.eqb_spec a b)
              | (if ?b then _ else _) = _ => destruct b eqn:?
              | match ?n with O => _ | S _ => _ end = _ => destruct n eqn:?
              end; try discriminate.
  all: repeat match goal with H : ?b = true |- _ => subst b | H : ?b = false |- _ => subst b end.
  all: cbn in I8t, I9t; cbn [w_rq w_nr w_rm w_cr w_wm w_cw w_wcs A_r D_r A_w D_w t_role t_pc t_tmp] in *.
  all: dom_facts; dom_facts2; arith.
Qed.
