(* C17 - the generated Jacobian formula functions (Gen/EcFormulas.v) against the
   affine chord-and-tangent law in division-free form (Model/Ec.v).

   Layer 1 (any modulus p): for each function, every branch:
     *_dbl   : the equal-point test fires exactly on "H == 0 /\ r == 0" (congruences, so
               unreduced and negative coordinates are covered) and then the result IS the
               doubling function's result;
     *_gen   : otherwise the result represents every (x3,y3) related to the operands by
               add_rel, Z3 is congruent to the expected multiple of H, and is reduced
               (so "H == 0" gives Z3 = 0, the library's encoding of infinity).
   Layer 2 (p prime, p > 2): the same in affine terms (x1 == x2, y1 == y2), the dispatch
   _add, and correctness of _add / _double against an abstract group (ec_group). *)
From Coq Require Import List Bool ZArith Lia Ring Setoid Morphisms Znumtheory.
From Bec2 Require Import Base.Result Base.Modp Gen.EcFormulas Model.Ec.
Import ListNotations.
Open Scope Z_scope.

Definition jX (J : jac) : Z := fst (fst J).
Definition jY (J : jac) : Z := snd (fst J).
Definition jZ (J : jac) : Z := snd J.

Definition reduced (p : Z) (J : jac) : Prop :=
  jX J mod p = jX J /\ jY J mod p = jY J /\ jZ J mod p = jZ J.

Section Formulas.
Variable p : Z.
Variable a : Z.
Notation "x == y" := (eqm p x y) (at level 70, no associativity).

Add Ring eqm_ring : (eqm_rt p)
  (setoid (eqm_equiv p) (eqm_ext p), morphism (eqm_morph p), constants [Zcst]).

(* replace every `e mod p` (innermost first) by a fresh variable m with m == e *)
Ltac absmod :=
  repeat match goal with
  | |- context [?e mod p] =>
      lazymatch e with context [_ mod p] => fail | _ => idtac end;
      let x := fresh "m" in let H := fresh "Hm" in
      pose proof (mod_eqm p e) as H; set (x := e mod p) in *; clearbody x
  end.

(* substitute the hypotheses `v == e` (v a variable), newest first *)
Ltac unabs :=
  repeat match goal with
  | H : eqm p ?x _ |- _ => is_var x; rewrite ?H; clear H; try clear x
  end.

Lemma modp_eqb_0 e : (e mod p =? 0) = true <-> e == 0.
Proof. rewrite Z.eqb_eq. symmetry. apply eqm_0_iff. Qed.

Lemma modp_eqb_0_false e : (e mod p =? 0) = false <-> ~ e == 0.
Proof. rewrite Z.eqb_neq. rewrite eqm_0_iff. reflexivity. Qed.

Lemma modp_sub_eqb_0 u v : (u mod p - v mod p =? 0) = true <-> u == v.
Proof. rewrite Z.eqb_eq, eqm_def. lia. Qed.

Lemma reduced_mod x : (x mod p) mod p = x mod p.
Proof. apply Zmod_mod. Qed.

Lemma reduced_0 x : x mod p = x -> x == 0 -> x = 0.
Proof. intros R E. apply eqm_0_iff in E. congruence. Qed.

Lemma add_rel_sym a1 a2 a3 : add_rel p a1 a2 a3 -> add_rel p a2 a1 a3.
Proof.
  destruct a1 as [x1 y1], a2 as [x2 y2], a3 as [x3 y3]. intros [l [H1 [H2 H3]]].
  exists l. split; [|split].
  - transitivity (- (l * (x2 - x1))); [ring|]. rewrite H1. ring.
  - rewrite H2. ring.
  - rewrite H3.
    transitivity (l * (x2 - x3) - y2 + ((y2 - y1) - l * (x2 - x1))); [ring|].
    rewrite <- H1. ring.
Qed.

(* ------------------------------------------------------------------ *)
(* _double_with_z_1 *)

Lemma dz1_inf X1 Y1 : Y1 * Y1 == 0 -> pj_double_with_z_1 X1 Y1 p a = (0, 0, 1).
Proof.
  intro H. unfold pj_double_with_z_1. cbv beta iota zeta.
  apply modp_eqb_0 in H. rewrite H. reflexivity.
Qed.

Lemma dz1_gen X1 Y1 x1 y1 x3 y3 :
  ~ Y1 * Y1 == 0 -> repr p (X1, Y1, 1) (x1, y1) -> dbl_rel p a (x1, y1) (x3, y3) ->
  repr p (pj_double_with_z_1 X1 Y1 p a) (x3, y3) /\
  jZ (pj_double_with_z_1 X1 Y1 p a) == 2 * Y1 /\
  reduced p (pj_double_with_z_1 X1 Y1 p a).
Proof.
  intros HY [HX1 HY1] [l [Hl [Hx3 Hy3]]].
  unfold pj_double_with_z_1. cbv beta iota zeta.
  apply modp_eqb_0_false in HY. rewrite HY.
  unfold repr, reduced, jX, jY, jZ; cbn [fst snd].
  rewrite !reduced_mod. rewrite !Z.pow_2_r.
  split; [|split; [apply mod_eqm | tauto]].
  assert (HX1' : X1 == x1) by (rewrite HX1; ring).
  assert (HY1' : Y1 == y1) by (rewrite HY1; ring).
  assert (Ha : a == 2 * y1 * l - 3 * x1 * x1) by (rewrite Hl; ring).
  clear HX1 HY1 Hl HY. revert Ha.
  absmod. unabs. intro Ha. rewrite Ha. split; ring.
Qed.

(* ------------------------------------------------------------------ *)
(* _double *)

Lemma d_z1 X1 Y1 : pj_double X1 Y1 1 p a = pj_double_with_z_1 X1 Y1 p a.
Proof. reflexivity. Qed.

Lemma d_inf_z X1 Y1 : pj_double X1 Y1 0 p a = (0, 0, 1).
Proof. unfold pj_double. cbn [Z.eqb]. rewrite orb_true_r. reflexivity. Qed.

Lemma d_inf X1 Y1 Z1 : Y1 * Y1 == 0 -> pj_double X1 Y1 Z1 p a = (0, 0, 1).
Proof.
  intro H. unfold pj_double.
  destruct (Z1 =? 1); [apply dz1_inf; exact H|].
  destruct ((Y1 =? 0) || (Z1 =? 0)); [reflexivity|].
  cbv beta iota zeta. apply modp_eqb_0 in H. rewrite H. reflexivity.
Qed.

Lemma d_gen X1 Y1 Z1 x1 y1 x3 y3 :
  ~ Y1 * Y1 == 0 -> Z1 <> 0 -> repr p (X1, Y1, Z1) (x1, y1) -> dbl_rel p a (x1, y1) (x3, y3) ->
  repr p (pj_double X1 Y1 Z1 p a) (x3, y3) /\
  jZ (pj_double X1 Y1 Z1 p a) == 2 * Y1 * Z1 /\
  reduced p (pj_double X1 Y1 Z1 p a).
Proof.
  intros HY HZ HR HD. unfold pj_double.
  destruct (Z.eqb_spec Z1 1) as [->|Hz1].
  { destruct (dz1_gen X1 Y1 x1 y1 x3 y3 HY HR HD) as [A [B C]].
    split; [exact A|split; [|exact C]]. rewrite B. ring. }
  assert (HY0 : Y1 <> 0).
  { intros ->. apply HY. reflexivity. }
  apply Z.eqb_neq in HY0, HZ. rewrite HY0, HZ. cbn [orb].
  destruct HR as [HX1 HY1]. destruct HD as [l [Hl [Hx3 Hy3]]].
  cbv beta iota zeta.
  apply modp_eqb_0_false in HY. rewrite HY.
  unfold repr, reduced, jX, jY, jZ; cbn [fst snd].
  rewrite !reduced_mod. rewrite !Z.pow_2_r.
  split; [|split; [|tauto]].
  - assert (Ha : a == 2 * y1 * l - 3 * x1 * x1) by (rewrite Hl; ring).
    clear Hl HY HY0 HZ Hz1. revert Ha.
    absmod. unabs. intro Ha. rewrite Ha. split; ring.
  - clear. absmod. unabs. ring.
Qed.

(* ------------------------------------------------------------------ *)
(* _add_with_z_1 *)

Lemma az1_dbl X1 Y1 X2 Y2 :
  X2 - X1 == 0 -> 2 * (Y2 - Y1) == 0 ->
  pj_add_with_z_1 X1 Y1 X2 Y2 p a = pj_double_with_z_1 X1 Y1 p a.
Proof.
  intros H1 H2. unfold pj_add_with_z_1. cbv beta iota zeta.
  apply modp_eqb_0 in H1, H2. rewrite H1, H2. reflexivity.
Qed.

Lemma az1_cond_false X1 Y1 X2 Y2 :
  ~ (X2 - X1 == 0 /\ 2 * (Y2 - Y1) == 0) ->
  ((X2 - X1) mod p =? 0) && ((2 * (Y2 - Y1)) mod p =? 0) = false.
Proof.
  intro HC. apply andb_false_iff.
  destruct (eqm_dec p (X2 - X1) 0) as [E|E]; [right|left]; apply modp_eqb_0_false; tauto.
Qed.

Lemma az1_z X1 Y1 X2 Y2 :
  ~ (X2 - X1 == 0 /\ 2 * (Y2 - Y1) == 0) ->
  jZ (pj_add_with_z_1 X1 Y1 X2 Y2 p a) == 2 * (X2 - X1) /\
  reduced p (pj_add_with_z_1 X1 Y1 X2 Y2 p a).
Proof.
  intro HC. unfold pj_add_with_z_1. cbv beta iota zeta. rewrite (az1_cond_false _ _ _ _ HC).
  unfold reduced, jX, jY, jZ; cbn [fst snd]. rewrite !reduced_mod.
  split; [apply mod_eqm | tauto].
Qed.

Lemma az1_gen X1 Y1 X2 Y2 a1 a2 a3 :
  ~ (X2 - X1 == 0 /\ 2 * (Y2 - Y1) == 0) ->
  repr p (X1, Y1, 1) a1 -> repr p (X2, Y2, 1) a2 -> add_rel p a1 a2 a3 ->
  repr p (pj_add_with_z_1 X1 Y1 X2 Y2 p a) a3.
Proof.
  destruct a1 as [x1 y1], a2 as [x2 y2], a3 as [x3 y3].
  intros HC [HX1 HY1] [HX2 HY2] [l [Hl [Hx3 Hy3]]].
  unfold pj_add_with_z_1. cbv beta iota zeta. rewrite (az1_cond_false _ _ _ _ HC).
  unfold repr. rewrite !Z.pow_2_r.
  assert (Hy2 : y2 == y1 + l * (x2 - x1)) by (rewrite Hl; ring).
  clear Hl HC. revert Hy2.
  absmod. unabs. intro Hy2. rewrite Hy2. split; ring.
Qed.

(* ------------------------------------------------------------------ *)
(* _add_with_z_eq *)

Lemma azeq_dbl X1 Y1 Z1 X2 Y2 :
  (X2 - X1) * (X2 - X1) == 0 -> (Y2 - Y1) * (Y2 - Y1) == 0 ->
  pj_add_with_z_eq X1 Y1 Z1 X2 Y2 p a = pj_double X1 Y1 Z1 p a.
Proof.
  intros H1 H2. unfold pj_add_with_z_eq. cbv beta iota zeta. rewrite !Z.pow_2_r.
  apply modp_eqb_0 in H1, H2. rewrite H1, H2. reflexivity.
Qed.

Lemma azeq_cond_false X1 Y1 X2 Y2 :
  ~ ((X2 - X1) * (X2 - X1) == 0 /\ (Y2 - Y1) * (Y2 - Y1) == 0) ->
  (((X2 - X1) * (X2 - X1)) mod p =? 0) && (((Y2 - Y1) * (Y2 - Y1)) mod p =? 0) = false.
Proof.
  intro HC. apply andb_false_iff.
  destruct (eqm_dec p ((X2 - X1) * (X2 - X1)) 0) as [E|E]; [right|left]; apply modp_eqb_0_false; tauto.
Qed.

Lemma azeq_z X1 Y1 Z1 X2 Y2 :
  ~ ((X2 - X1) * (X2 - X1) == 0 /\ (Y2 - Y1) * (Y2 - Y1) == 0) ->
  jZ (pj_add_with_z_eq X1 Y1 Z1 X2 Y2 p a) == Z1 * (X2 - X1) /\
  reduced p (pj_add_with_z_eq X1 Y1 Z1 X2 Y2 p a).
Proof.
  intro HC. unfold pj_add_with_z_eq. cbv beta iota zeta. rewrite !Z.pow_2_r.
  rewrite (azeq_cond_false _ _ _ _ HC).
  unfold reduced, jX, jY, jZ; cbn [fst snd]. rewrite !reduced_mod.
  split; [apply mod_eqm | tauto].
Qed.

Lemma azeq_gen X1 Y1 Z1 X2 Y2 a1 a2 a3 :
  ~ ((X2 - X1) * (X2 - X1) == 0 /\ (Y2 - Y1) * (Y2 - Y1) == 0) ->
  repr p (X1, Y1, Z1) a1 -> repr p (X2, Y2, Z1) a2 -> add_rel p a1 a2 a3 ->
  repr p (pj_add_with_z_eq X1 Y1 Z1 X2 Y2 p a) a3.
Proof.
  destruct a1 as [x1 y1], a2 as [x2 y2], a3 as [x3 y3].
  intros HC [HX1 HY1] [HX2 HY2] [l [Hl [Hx3 Hy3]]].
  unfold pj_add_with_z_eq. cbv beta iota zeta. rewrite !Z.pow_2_r.
  rewrite (azeq_cond_false _ _ _ _ HC).
  unfold repr.
  assert (Hy2 : y2 == y1 + l * (x2 - x1)) by (rewrite Hl; ring).
  clear Hl HC. revert Hy2.
  absmod. unabs. intro Hy2. rewrite Hy2. split; ring.
Qed.

(* ------------------------------------------------------------------ *)
(* _add_with_z2_1 *)

Lemma az21_dbl X1 Y1 Z1 X2 Y2 :
  X2 * (Z1 * Z1) - X1 == 0 -> 2 * (Y2 * Z1 * (Z1 * Z1) - Y1) == 0 ->
  pj_add_with_z2_1 X1 Y1 Z1 X2 Y2 p a = pj_double_with_z_1 X2 Y2 p a.
Proof.
  intros H1 H2. unfold pj_add_with_z2_1. cbv beta iota zeta.
  match goal with |- (if ?c then _ else _) = _ => replace c with true; [reflexivity|] end.
  symmetry. apply andb_true_iff. split.
  - apply modp_eqb_0. rewrite <- H2. clear. absmod. unabs. ring.
  - apply modp_eqb_0. rewrite <- H1. clear. absmod. unabs. ring.
Qed.

Lemma az21_cond_false X1 Y1 Z1 X2 Y2 :
  ~ (X2 * (Z1 * Z1) - X1 == 0 /\ 2 * (Y2 * Z1 * (Z1 * Z1) - Y1) == 0) ->
  ((2 * ((Y2 * Z1 * ((Z1 * Z1) mod p)) mod p - Y1)) mod p =? 0) &&
  (((X2 * ((Z1 * Z1) mod p)) mod p - X1) mod p =? 0) = false.
Proof.
  intro HC. apply andb_false_iff.
  destruct (eqm_dec p (X2 * (Z1 * Z1) - X1) 0) as [E|E]; [left|right];
    apply modp_eqb_0_false; intro E'.
  - apply HC. split; [exact E|]. rewrite <- E'. clear. absmod. unabs. ring.
  - apply E. rewrite <- E'. clear. absmod. unabs. ring.
Qed.

Lemma az21_z X1 Y1 Z1 X2 Y2 :
  ~ (X2 * (Z1 * Z1) - X1 == 0 /\ 2 * (Y2 * Z1 * (Z1 * Z1) - Y1) == 0) ->
  jZ (pj_add_with_z2_1 X1 Y1 Z1 X2 Y2 p a) == 2 * Z1 * (X2 * (Z1 * Z1) - X1) /\
  reduced p (pj_add_with_z2_1 X1 Y1 Z1 X2 Y2 p a).
Proof.
  intro HC. unfold pj_add_with_z2_1. cbv beta iota zeta. rewrite (az21_cond_false _ _ _ _ _ HC).
  unfold reduced, jX, jY, jZ; cbn [fst snd]. rewrite !reduced_mod. rewrite !Z.pow_2_r.
  split; [|tauto]. clear. absmod. unabs. ring.
Qed.

Lemma az21_gen X1 Y1 Z1 X2 Y2 a1 a2 a3 :
  ~ (X2 * (Z1 * Z1) - X1 == 0 /\ 2 * (Y2 * Z1 * (Z1 * Z1) - Y1) == 0) ->
  repr p (X1, Y1, Z1) a1 -> repr p (X2, Y2, 1) a2 -> add_rel p a1 a2 a3 ->
  repr p (pj_add_with_z2_1 X1 Y1 Z1 X2 Y2 p a) a3.
Proof.
  destruct a1 as [x1 y1], a2 as [x2 y2], a3 as [x3 y3].
  intros HC [HX1 HY1] [HX2 HY2] [l [Hl [Hx3 Hy3]]].
  unfold pj_add_with_z2_1. cbv beta iota zeta. rewrite (az21_cond_false _ _ _ _ _ HC).
  unfold repr. rewrite !Z.pow_2_r.
  assert (Hy2 : y2 == y1 + l * (x2 - x1)) by (rewrite Hl; ring).
  clear Hl HC. revert Hy2.
  absmod. unabs. intro Hy2. rewrite Hy2. split; ring.
Qed.

(* ------------------------------------------------------------------ *)
(* _add_with_z_ne *)

Lemma azne_dbl X1 Y1 Z1 X2 Y2 Z2 :
  X2 * (Z1 * Z1) - X1 * (Z2 * Z2) == 0 ->
  2 * (Y2 * Z1 * (Z1 * Z1) - Y1 * Z2 * (Z2 * Z2)) == 0 ->
  pj_add_with_z_ne X1 Y1 Z1 X2 Y2 Z2 p a = pj_double X1 Y1 Z1 p a.
Proof.
  intros H1 H2. unfold pj_add_with_z_ne. cbv beta iota zeta.
  match goal with |- (if ?c then _ else _) = _ => replace c with true; [reflexivity|] end.
  symmetry. apply andb_true_iff. split.
  - apply modp_sub_eqb_0. apply eqm_sub_0. rewrite <- H1. clear. absmod. unabs. ring.
  - apply modp_eqb_0. rewrite <- H2. clear. absmod. unabs. ring.
Qed.

Lemma azne_cond_false X1 Y1 Z1 X2 Y2 Z2 :
  ~ (X2 * (Z1 * Z1) - X1 * (Z2 * Z2) == 0 /\
     2 * (Y2 * Z1 * (Z1 * Z1) - Y1 * Z2 * (Z2 * Z2)) == 0) ->
  ((X2 * ((Z1 * Z1) mod p)) mod p - (X1 * ((Z2 * Z2) mod p)) mod p =? 0) &&
  ((2 * ((Y2 * Z1 * ((Z1 * Z1) mod p)) mod p - (Y1 * Z2 * ((Z2 * Z2) mod p)) mod p)) mod p =? 0) = false.
Proof.
  intro HC. apply andb_false_iff.
  destruct (eqm_dec p (X2 * (Z1 * Z1) - X1 * (Z2 * Z2)) 0) as [E|E]; [right|left].
  - apply modp_eqb_0_false. intro E'. apply HC. split; [exact E|].
    rewrite <- E'. clear. absmod. unabs. ring.
  - apply Bool.not_true_iff_false. intro E'. apply modp_sub_eqb_0 in E'. apply E.
    apply eqm_sub_0 in E'. rewrite <- E'. clear. absmod. unabs. ring.
Qed.

Lemma azne_z X1 Y1 Z1 X2 Y2 Z2 :
  ~ (X2 * (Z1 * Z1) - X1 * (Z2 * Z2) == 0 /\
     2 * (Y2 * Z1 * (Z1 * Z1) - Y1 * Z2 * (Z2 * Z2)) == 0) ->
  jZ (pj_add_with_z_ne X1 Y1 Z1 X2 Y2 Z2 p a) ==
     2 * Z1 * Z2 * (X2 * (Z1 * Z1) - X1 * (Z2 * Z2)) /\
  reduced p (pj_add_with_z_ne X1 Y1 Z1 X2 Y2 Z2 p a).
Proof.
  intro HC. unfold pj_add_with_z_ne. cbv beta iota zeta. rewrite (azne_cond_false _ _ _ _ _ _ HC).
  unfold reduced, jX, jY, jZ; cbn [fst snd]. rewrite !reduced_mod. rewrite !Z.pow_2_r.
  split; [|tauto]. clear. absmod. unabs. ring.
Qed.

Lemma azne_gen X1 Y1 Z1 X2 Y2 Z2 a1 a2 a3 :
  ~ (X2 * (Z1 * Z1) - X1 * (Z2 * Z2) == 0 /\
     2 * (Y2 * Z1 * (Z1 * Z1) - Y1 * Z2 * (Z2 * Z2)) == 0) ->
  repr p (X1, Y1, Z1) a1 -> repr p (X2, Y2, Z2) a2 -> add_rel p a1 a2 a3 ->
  repr p (pj_add_with_z_ne X1 Y1 Z1 X2 Y2 Z2 p a) a3.
Proof.
  destruct a1 as [x1 y1], a2 as [x2 y2], a3 as [x3 y3].
  intros HC [HX1 HY1] [HX2 HY2] [l [Hl [Hx3 Hy3]]].
  unfold pj_add_with_z_ne. cbv beta iota zeta. rewrite (azne_cond_false _ _ _ _ _ _ HC).
  unfold repr. rewrite !Z.pow_2_r.
  assert (Hy2 : y2 == y1 + l * (x2 - x1)) by (rewrite Hl; ring).
  clear Hl HC. revert Hy2.
  absmod. unabs. intro Hy2. rewrite Hy2. split; ring.
Qed.

(* PointJacobi.__eq__ (hand model pj_eqb) decides jac_eq *)
Lemma pj_eqb_spec P Q : pj_eqb p P Q = true <-> jac_eq p P Q.
Proof.
  destruct P as [[X1 Y1] Z1], Q as [[X2 Y2] Z2]. unfold pj_eqb, jac_eq. cbv zeta.
  rewrite andb_true_iff, !modp_eqb_0.
  assert (E1 : X1 * ((Z2 * Z2) mod p) - X2 * ((Z1 * Z1) mod p) == X1 * (Z2 * Z2) - X2 * (Z1 * Z1)).
  { absmod. unabs. ring. }
  assert (E2 : Y1 * ((Z2 * Z2) mod p) * Z2 - Y2 * ((Z1 * Z1) mod p) * Z1 ==
               Y1 * (Z2 * Z2) * Z2 - Y2 * (Z1 * Z1) * Z1).
  { absmod. unabs. ring. }
  rewrite E1, E2. rewrite <- !eqm_sub_0. reflexivity.
Qed.

(* ------------------------------------------------------------------ *)
(* _add: which formula the dispatch selects *)

Lemma add_dispatch X1 Y1 Z1 X2 Y2 Z2 :
  ((Y1 = 0 \/ Z1 = 0) -> pj_add X1 Y1 Z1 X2 Y2 Z2 p a = (X2, Y2, Z2)) /\
  (Y1 <> 0 -> Z1 <> 0 -> (Y2 = 0 \/ Z2 = 0) -> pj_add X1 Y1 Z1 X2 Y2 Z2 p a = (X1, Y1, Z1)) /\
  (Y1 <> 0 -> Z1 <> 0 -> Y2 <> 0 -> Z2 <> 0 ->
     (Z1 = 1 -> Z2 = 1 -> pj_add X1 Y1 Z1 X2 Y2 Z2 p a = pj_add_with_z_1 X1 Y1 X2 Y2 p a) /\
     (Z1 = Z2 -> Z1 <> 1 -> pj_add X1 Y1 Z1 X2 Y2 Z2 p a = pj_add_with_z_eq X1 Y1 Z1 X2 Y2 p a) /\
     (Z1 = 1 -> Z2 <> 1 -> pj_add X1 Y1 Z1 X2 Y2 Z2 p a = pj_add_with_z2_1 X2 Y2 Z2 X1 Y1 p a) /\
     (Z1 <> 1 -> Z2 = 1 -> pj_add X1 Y1 Z1 X2 Y2 Z2 p a = pj_add_with_z2_1 X1 Y1 Z1 X2 Y2 p a) /\
     (Z1 <> Z2 -> Z1 <> 1 -> Z2 <> 1 ->
        pj_add X1 Y1 Z1 X2 Y2 Z2 p a = pj_add_with_z_ne X1 Y1 Z1 X2 Y2 Z2 p a)).
Proof.
  unfold pj_add. split; [|split].
  - intros [->| ->]; [reflexivity|]. rewrite orb_true_r. reflexivity.
  - intros H1 H2 H. apply Z.eqb_neq in H1, H2. rewrite H1, H2. cbn [orb].
    destruct H as [->| ->]; [reflexivity|]. rewrite orb_true_r. reflexivity.
  - intros H1 H2 H3 H4. apply Z.eqb_neq in H1, H2, H3, H4. rewrite H1, H2, H3, H4. cbn [orb].
    repeat split.
    + intros -> ->. reflexivity.
    + intros <- H. rewrite Z.eqb_refl. apply Z.eqb_neq in H. rewrite H. reflexivity.
    + intros -> H. pose proof H as H'. apply Z.eqb_neq in H.
      replace (1 =? Z2) with false by (symmetry; apply Z.eqb_neq; congruence). reflexivity.
    + intros H ->. pose proof H as H'. apply Z.eqb_neq in H. rewrite H. reflexivity.
    + intros H H' H''. apply Z.eqb_neq in H, H', H''. rewrite H, H', H''. reflexivity.
Qed.

End Formulas.

(* ====================================================================== *)
(* Layer 2: p prime; affine conditions; dispatch; correctness against a group *)

Section Group.
Variables p a : Z.
Variable inG : pt -> Prop.
Variable gadd : pt -> pt -> pt.
Variable gneg : pt -> pt.
Hypothesis GH : ec_group p a inG gadd gneg.
Notation "x == y" := (eqm p x y) (at level 70, no associativity).

Add Ring eqm_ring2 : (eqm_rt p)
  (setoid (eqm_equiv p) (eqm_ext p), morphism (eqm_morph p), constants [Zcst]).

Let Hp : prime p := g_prime _ _ _ _ _ GH.

Lemma two_nz : ~ 2 == 0.
Proof. apply eqm_small_nz. pose proof (g_odd _ _ _ _ _ GH). lia. Qed.

Lemma nz_mul x y : ~ x == 0 -> ~ y == 0 -> ~ x * y == 0.
Proof. apply eqm_mul_nz, Hp. Qed.

Lemma mul_z_l x y : x * y == 0 -> ~ x == 0 -> y == 0.
Proof. intros H Hx. destruct (eqm_integral _ _ _ Hp H); tauto. Qed.

Lemma sq_z x : x * x == 0 <-> x == 0.
Proof.
  split; intro H.
  - destruct (eqm_integral _ _ _ Hp H); assumption.
  - rewrite H. ring.
Qed.

Lemma nz_int x : ~ x == 0 -> x <> 0.
Proof. intros H ->. apply H. reflexivity. Qed.

(* a finite point of the group in Jacobian form *)
Lemma fin_facts X Y Zc x y :
  inG (Some (x, y)) -> jrepr p (X, Y, Zc) (Some (x, y)) ->
  ~ Zc == 0 /\ ~ Y == 0 /\ ~ Y * Y == 0 /\ Y <> 0 /\ Zc <> 0 /\ X == x * Zc * Zc /\ Y == y * Zc * Zc * Zc.
Proof.
  intros HG [HZ [HX HY]]. pose proof (g_no2 _ _ _ _ _ GH _ _ HG) as Hy.
  assert (HYn : ~ Y == 0).
  { rewrite HY. repeat apply nz_mul; assumption. }
  repeat split; try assumption.
  - intro E. apply (proj1 (sq_z Y)) in E. exact (HYn E).
  - apply nz_int, HYn.
  - apply nz_int, HZ.
Qed.

(* H == 0 <-> x1 == x2, for the general shape  H = X2*Z1^2 - X1*Z2^2 *)
Lemma H_iff X1 Z1 X2 Z2 x1 x2 :
  ~ Z1 == 0 -> ~ Z2 == 0 -> X1 == x1 * Z1 * Z1 -> X2 == x2 * Z2 * Z2 ->
  (X2 * (Z1 * Z1) - X1 * (Z2 * Z2) == 0 <-> x1 == x2).
Proof.
  intros HZ1 HZ2 HX1 HX2. rewrite HX1, HX2.
  split; intro H.
  - assert (E : (Z1 * Z1 * (Z2 * Z2)) * (x2 - x1) == 0) by (etransitivity; [|exact H]; ring).
    apply mul_z_l in E; [|repeat apply nz_mul; assumption].
    symmetry. apply eqm_sub_0. exact E.
  - rewrite H. ring.
Qed.

Lemma r_iff Y1 Z1 Y2 Z2 y1 y2 :
  ~ Z1 == 0 -> ~ Z2 == 0 -> Y1 == y1 * Z1 * Z1 * Z1 -> Y2 == y2 * Z2 * Z2 * Z2 ->
  (2 * (Y2 * Z1 * (Z1 * Z1) - Y1 * Z2 * (Z2 * Z2)) == 0 <-> y1 == y2).
Proof.
  intros HZ1 HZ2 HY1 HY2. rewrite HY1, HY2.
  split; intro H.
  - assert (E : (2 * (Z1 * Z1 * Z1 * (Z2 * Z2 * Z2))) * (y2 - y1) == 0) by (etransitivity; [|exact H]; ring).
    apply mul_z_l in E; [|repeat apply nz_mul; try assumption; apply two_nz].
    symmetry. apply eqm_sub_0. exact E.
  - rewrite H. ring.
Qed.

(* The case analysis shared by the four addition formulas.  F is the formula's result,
   Dbl the doubling result it falls back to, Hq/rq the quantities of its equal-point
   test and zf the value its Z3 is congruent to. *)
Lemma add_cases (F Dbl : jac) (Hq rq zf : Z) (a1 a2 : aff) :
  inG (Some a1) -> inG (Some a2) ->
  (Hq == 0 -> rq == 0 -> F = Dbl) ->
  (~ (Hq == 0 /\ rq == 0) -> forall a3, add_rel p a1 a2 a3 -> repr p F a3) ->
  (~ (Hq == 0 /\ rq == 0) -> jZ F == zf /\ reduced p F) ->
  (Hq == 0 <-> fst a1 == fst a2) ->
  (zf == 0 <-> fst a1 == fst a2) ->
  (fst a1 == fst a2 -> (rq == 0 <-> snd a1 == snd a2)) ->
  (fst a1 == fst a2 -> snd a1 == snd a2 -> jrepr p Dbl (gadd (Some a1) (Some a2))) ->
  jrepr p F (gadd (Some a1) (Some a2)).
Proof.
  intros G1 G2 Hdbl Hgen Hz HH Hzf Hr HD.
  destruct (eqm_dec p (fst a1) (fst a2)) as [Ex|Ex].
  - destruct (eqm_dec p (snd a1) (snd a2)) as [Ey|Ey].
    + rewrite Hdbl; [apply HD; assumption | apply HH, Ex | apply (Hr Ex), Ey].
    + rewrite (g_opposite _ _ _ _ _ GH a1 a2 G1 G2 Ex Ey).
      assert (NC : ~ (Hq == 0 /\ rq == 0)).
      { intros [_ R]. apply Ey, (Hr Ex), R. }
      destruct (Hz NC) as [Zf [_ [_ Rz]]].
      destruct F as [[X3 Y3] Z3]. unfold jZ in *; cbn [snd fst] in *.
      right. apply reduced_0 with (p := p); [exact Rz|].
      rewrite Zf. apply Hzf, Ex.
  - destruct (g_chord _ _ _ _ _ GH a1 a2 G1 G2 Ex) as [a3 [E3 R3]]. rewrite E3.
    assert (NC : ~ (Hq == 0 /\ rq == 0)).
    { intros [R _]. apply Ex, HH, R. }
    destruct (Hz NC) as [Zf _].
    pose proof (Hgen NC a3 R3) as HR.
    destruct F as [[X3 Y3] Z3]. unfold jZ in *; cbn [snd fst] in *.
    split; [|exact HR].
    rewrite Zf. intro E. apply Ex, Hzf, E.
Qed.

(* doubling *)
Lemma double_correct X Y Zc P :
  inG P -> jrepr p (X, Y, Zc) P -> jrepr p (pj_double X Y Zc p a) (gadd P P).
Proof.
  intros HG HJ. destruct P as [[x y]|].
  - destruct (fin_facts _ _ _ _ _ HG HJ) as [HZ [HY [HYY [HY0 [HZ0 [HX HYr]]]]]].
    destruct (g_tangent _ _ _ _ _ GH (x, y) (x, y) HG HG) as [a3 [E3 R3]]; try reflexivity.
    rewrite E3. destruct a3 as [x3 y3].
    destruct (d_gen p a X Y Zc x y x3 y3 HYY HZ0 (conj HX HYr) R3) as [A [B _]].
    destruct (pj_double X Y Zc p a) as [[X3 Y3] Z3]. unfold jZ in B; cbn [snd] in B.
    split; [|exact A]. rewrite B. repeat apply nz_mul; try assumption. apply two_nz.
  - rewrite (g_id_l _ _ _ _ _ GH). cbn in HJ. destruct HJ as [->| ->].
    + rewrite d_inf by reflexivity. left. reflexivity.
    + rewrite d_inf_z. left. reflexivity.
Qed.

(* the equal-operand fallback of the addition formulas *)
Lemma dbl_fallback X1 Y1 Z1 a1 a2 :
  inG (Some a1) -> inG (Some a2) -> jrepr p (X1, Y1, Z1) (Some a1) ->
  fst a1 == fst a2 -> snd a1 == snd a2 ->
  jrepr p (pj_double X1 Y1 Z1 p a) (gadd (Some a1) (Some a2)).
Proof.
  intros G1 G2 HJ Ex Ey. destruct a1 as [x1 y1], a2 as [x2 y2]. cbn [fst snd] in *.
  destruct (fin_facts _ _ _ _ _ G1 HJ) as [HZ [HY [HYY [HY0 [HZ0 [HX HYr]]]]]].
  destruct (g_tangent _ _ _ _ _ GH (x1, y1) (x2, y2) G1 G2 Ex Ey) as [a3 [E3 R3]].
  rewrite E3. destruct a3 as [x3 y3].
  destruct (d_gen p a X1 Y1 Z1 x1 y1 x3 y3 HYY HZ0 (conj HX HYr) R3) as [A [B _]].
  destruct (pj_double X1 Y1 Z1 p a) as [[X3 Y3] Z3]. unfold jZ in B; cbn [snd] in B.
  split; [|exact A]. rewrite B. repeat apply nz_mul; try assumption. apply two_nz.
Qed.

Lemma az_ne_correct X1 Y1 Z1 X2 Y2 Z2 a1 a2 :
  inG (Some a1) -> inG (Some a2) ->
  jrepr p (X1, Y1, Z1) (Some a1) -> jrepr p (X2, Y2, Z2) (Some a2) ->
  jrepr p (pj_add_with_z_ne X1 Y1 Z1 X2 Y2 Z2 p a) (gadd (Some a1) (Some a2)).
Proof.
  intros G1 G2 J1 J2.
  pose proof J1 as J1'. pose proof J2 as J2'.
  destruct a1 as [x1 y1], a2 as [x2 y2].
  destruct (fin_facts _ _ _ _ _ G1 J1) as [HZ1 [_ [_ [_ [_ [HX1 HY1]]]]]].
  destruct (fin_facts _ _ _ _ _ G2 J2) as [HZ2 [_ [_ [_ [_ [HX2 HY2]]]]]].
  apply add_cases with (Dbl := pj_double X1 Y1 Z1 p a)
    (Hq := X2 * (Z1 * Z1) - X1 * (Z2 * Z2))
    (rq := 2 * (Y2 * Z1 * (Z1 * Z1) - Y1 * Z2 * (Z2 * Z2)))
    (zf := 2 * Z1 * Z2 * (X2 * (Z1 * Z1) - X1 * (Z2 * Z2))); try assumption.
  - apply azne_dbl.
  - intros NC a3 R. apply azne_gen with (a1 := (x1, y1)) (a2 := (x2, y2)); try assumption; split; assumption.
  - apply azne_z.
  - cbn [fst]. apply H_iff; assumption.
  - cbn [fst]. rewrite <- (H_iff X1 Z1 X2 Z2 x1 x2) by assumption.
    split; intro E.
    + apply mul_z_l in E; [exact E|]. repeat apply nz_mul; try assumption. apply two_nz.
    + rewrite E. ring.
  - intros _. cbn [snd]. apply r_iff; assumption.
  - intros Ex Ey. apply dbl_fallback; assumption.
Qed.

Lemma az_21_correct X1 Y1 Z1 X2 Y2 a1 a2 :
  inG (Some a1) -> inG (Some a2) ->
  jrepr p (X1, Y1, Z1) (Some a1) -> jrepr p (X2, Y2, 1) (Some a2) ->
  jrepr p (pj_add_with_z2_1 X1 Y1 Z1 X2 Y2 p a) (gadd (Some a1) (Some a2)).
Proof.
  intros G1 G2 J1 J2.
  destruct a1 as [x1 y1], a2 as [x2 y2].
  destruct (fin_facts _ _ _ _ _ G1 J1) as [HZ1 [_ [_ [_ [_ [HX1 HY1]]]]]].
  destruct (fin_facts _ _ _ _ _ G2 J2) as [HZ2 [_ [_ [_ [_ [HX2 HY2]]]]]].
  assert (EH : forall t, X2 * (Z1 * Z1) - X1 == t <-> X2 * (Z1 * Z1) - X1 * (1 * 1) == t).
  { intro t. assert (E : X2 * (Z1 * Z1) - X1 == X2 * (Z1 * Z1) - X1 * (1 * 1)) by ring.
    rewrite E. reflexivity. }
  assert (ER : 2 * (Y2 * Z1 * (Z1 * Z1) - Y1) == 0 <-> 2 * (Y2 * Z1 * (Z1 * Z1) - Y1 * 1 * (1 * 1)) == 0).
  { assert (E : 2 * (Y2 * Z1 * (Z1 * Z1) - Y1) == 2 * (Y2 * Z1 * (Z1 * Z1) - Y1 * 1 * (1 * 1))) by ring.
    rewrite E. reflexivity. }
  apply add_cases with (Dbl := pj_double_with_z_1 X2 Y2 p a)
    (Hq := X2 * (Z1 * Z1) - X1)
    (rq := 2 * (Y2 * Z1 * (Z1 * Z1) - Y1))
    (zf := 2 * Z1 * (X2 * (Z1 * Z1) - X1)); try assumption.
  - apply az21_dbl.
  - intros NC a3 R. apply az21_gen with (a1 := (x1, y1)) (a2 := (x2, y2)); try assumption; split; assumption.
  - apply az21_z.
  - cbn [fst]. rewrite EH. apply H_iff; assumption.
  - cbn [fst]. rewrite <- (H_iff X1 Z1 X2 1 x1 x2) by assumption. rewrite <- EH.
    split; intro E.
    + apply mul_z_l in E; [exact E|]. repeat apply nz_mul; try assumption. apply two_nz.
    + rewrite E. ring.
  - intros _. cbn [snd]. rewrite ER. apply r_iff; assumption.
  - intros Ex Ey. rewrite <- d_z1.
    rewrite (g_comm _ _ _ _ _ GH) by assumption.
    apply dbl_fallback; try assumption; symmetry; assumption.
Qed.

Lemma az_1_correct X1 Y1 X2 Y2 a1 a2 :
  inG (Some a1) -> inG (Some a2) ->
  jrepr p (X1, Y1, 1) (Some a1) -> jrepr p (X2, Y2, 1) (Some a2) ->
  jrepr p (pj_add_with_z_1 X1 Y1 X2 Y2 p a) (gadd (Some a1) (Some a2)).
Proof.
  intros G1 G2 J1 J2.
  destruct a1 as [x1 y1], a2 as [x2 y2].
  destruct (fin_facts _ _ _ _ _ G1 J1) as [HZ1 [_ [_ [_ [_ [HX1 HY1]]]]]].
  destruct (fin_facts _ _ _ _ _ G2 J2) as [HZ2 [_ [_ [_ [_ [HX2 HY2]]]]]].
  assert (EX : X2 - X1 == x2 - x1) by (rewrite HX1, HX2; ring).
  assert (EY : 2 * (Y2 - Y1) == 2 * (y2 - y1)) by (rewrite HY1, HY2; ring).
  apply add_cases with (Dbl := pj_double_with_z_1 X1 Y1 p a)
    (Hq := X2 - X1) (rq := 2 * (Y2 - Y1)) (zf := 2 * (X2 - X1)); try assumption.
  - apply az1_dbl.
  - intros NC a3 R. apply az1_gen with (a1 := (x1, y1)) (a2 := (x2, y2)); try assumption; split; assumption.
  - apply az1_z.
  - cbn [fst]. rewrite EX. split; intro E; [symmetry; apply eqm_sub_0; exact E | rewrite E; ring].
  - cbn [fst]. rewrite EX. split; intro E.
    + apply mul_z_l in E; [|apply two_nz]. symmetry. apply eqm_sub_0. exact E.
    + rewrite E. ring.
  - intros _. cbn [snd]. rewrite EY. split; intro E.
    + apply mul_z_l in E; [|apply two_nz]. symmetry. apply eqm_sub_0. exact E.
    + rewrite E. ring.
  - intros Ex Ey. rewrite <- d_z1. apply dbl_fallback; assumption.
Qed.

Lemma az_eq_correct X1 Y1 Z1 X2 Y2 a1 a2 :
  inG (Some a1) -> inG (Some a2) ->
  jrepr p (X1, Y1, Z1) (Some a1) -> jrepr p (X2, Y2, Z1) (Some a2) ->
  jrepr p (pj_add_with_z_eq X1 Y1 Z1 X2 Y2 p a) (gadd (Some a1) (Some a2)).
Proof.
  intros G1 G2 J1 J2.
  destruct a1 as [x1 y1], a2 as [x2 y2].
  destruct (fin_facts _ _ _ _ _ G1 J1) as [HZ1 [_ [_ [_ [_ [HX1 HY1]]]]]].
  destruct (fin_facts _ _ _ _ _ G2 J2) as [_ [_ [_ [_ [_ [HX2 HY2]]]]]].
  assert (EX : X2 - X1 == (Z1 * Z1) * (x2 - x1)) by (rewrite HX1, HX2; ring).
  assert (EY : Y2 - Y1 == (Z1 * Z1 * Z1) * (y2 - y1)) by (rewrite HY1, HY2; ring).
  assert (XI : X2 - X1 == 0 <-> x1 == x2).
  { rewrite EX. split; intro E.
    - apply mul_z_l in E; [|repeat apply nz_mul; assumption]. symmetry. apply eqm_sub_0. exact E.
    - rewrite E. ring. }
  assert (YI : Y2 - Y1 == 0 <-> y1 == y2).
  { rewrite EY. split; intro E.
    - apply mul_z_l in E; [|repeat apply nz_mul; assumption]. symmetry. apply eqm_sub_0. exact E.
    - rewrite E. ring. }
  apply add_cases with (Dbl := pj_double X1 Y1 Z1 p a)
    (Hq := (X2 - X1) * (X2 - X1)) (rq := (Y2 - Y1) * (Y2 - Y1)) (zf := Z1 * (X2 - X1)); try assumption.
  - apply azeq_dbl.
  - intros NC a3 R. apply azeq_gen with (a1 := (x1, y1)) (a2 := (x2, y2)); try assumption; split; assumption.
  - apply azeq_z.
  - cbn [fst]. rewrite sq_z. exact XI.
  - cbn [fst]. rewrite <- XI. split; intro E.
    + apply mul_z_l in E; assumption.
    + rewrite E. ring.
  - intros _. cbn [snd]. rewrite sq_z. exact YI.
  - intros Ex Ey. apply dbl_fallback; assumption.
Qed.

(* _add: the dispatch selects a formula whose precondition holds *)
Theorem add_correct X1 Y1 Z1 X2 Y2 Z2 P1 P2 :
  inG P1 -> inG P2 -> jrepr p (X1, Y1, Z1) P1 -> jrepr p (X2, Y2, Z2) P2 ->
  jrepr p (pj_add X1 Y1 Z1 X2 Y2 Z2 p a) (gadd P1 P2).
Proof.
  intros G1 G2 J1 J2. unfold pj_add.
  destruct P1 as [a1|].
  2:{ rewrite (g_id_l _ _ _ _ _ GH). cbn in J1.
      replace ((Y1 =? 0) || (Z1 =? 0)) with true; [exact J2|].
      symmetry. apply orb_true_iff. destruct J1 as [->| ->]; [left|right]; reflexivity. }
  destruct a1 as [x1 y1].
  destruct (fin_facts _ _ _ _ _ G1 J1) as [_ [_ [_ [HY10 [HZ10 _]]]]].
  apply Z.eqb_neq in HY10, HZ10. rewrite HY10, HZ10. cbn [orb].
  destruct P2 as [a2|].
  2:{ rewrite (g_id_r _ _ _ _ _ GH). cbn in J2.
      replace ((Y2 =? 0) || (Z2 =? 0)) with true; [exact J1|].
      symmetry. apply orb_true_iff. destruct J2 as [->| ->]; [left|right]; reflexivity. }
  destruct a2 as [x2 y2].
  destruct (fin_facts _ _ _ _ _ G2 J2) as [_ [_ [_ [HY20 [HZ20 _]]]]].
  apply Z.eqb_neq in HY20, HZ20. rewrite HY20, HZ20. cbn [orb].
  destruct (Z.eqb_spec Z1 Z2) as [<-|Hne].
  - destruct (Z.eqb_spec Z1 1) as [->|H1].
    + apply az_1_correct; assumption.
    + apply az_eq_correct; assumption.
  - destruct (Z.eqb_spec Z1 1) as [->|H1].
    + rewrite (g_comm _ _ _ _ _ GH) by assumption. apply az_21_correct; assumption.
    + destruct (Z.eqb_spec Z2 1) as [->|H2].
      * apply az_21_correct; assumption.
      * apply az_ne_correct; assumption.
Qed.

(* negation: (X, -Y, Z) represents gneg P *)
Lemma neg_correct X Y Zc P :
  inG P -> jrepr p (X, Y, Zc) P -> jrepr p (X, - Y, Zc) (gneg P).
Proof.
  intros HG HJ. destruct P as [a1|].
  - destruct (g_neg_fin _ _ _ _ _ GH a1 HG) as [a2 [E [Ex Ey]]]. rewrite E.
    destruct a1 as [x1 y1], a2 as [x2 y2]. cbn [fst snd] in *.
    destruct HJ as [HZ [HX HY]]. split; [exact HZ|]. split.
    + rewrite HX, Ex. ring.
    + rewrite HY, Ey. ring.
  - rewrite (g_neg_inf _ _ _ _ _ GH). cbn in *. destruct HJ as [->| ->]; [left|right]; reflexivity.
Qed.

(* two representations of the same point are equal in the sense of PointJacobi.__eq__ *)
Lemma repr_jac_eq J1 J2 q : repr p J1 q -> repr p J2 q -> jac_eq p J1 J2.
Proof.
  destruct J1 as [[X1 Y1] Z1], J2 as [[X2 Y2] Z2], q as [x y].
  intros [HX1 HY1] [HX2 HY2]. split.
  - rewrite HX1, HX2. ring.
  - rewrite HY1, HY2. ring.
Qed.

(* and conversely: equal in that sense, both finite => the same affine point *)
Lemma jac_eq_repr X1 Y1 Z1 X2 Y2 Z2 q :
  ~ Z1 == 0 -> jac_eq p (X1, Y1, Z1) (X2, Y2, Z2) -> repr p (X1, Y1, Z1) q -> repr p (X2, Y2, Z2) q.
Proof.
  destruct q as [x y]. intros HZ [EX EY] [HX HY]. split.
  - apply eqm_cancel_l with (c := Z1 * Z1); [exact Hp | apply nz_mul; exact HZ |].
    transitivity (X2 * (Z1 * Z1)); [ring|]. rewrite <- EX, HX. ring.
  - apply eqm_cancel_l with (c := Z1 * Z1 * Z1); [exact Hp | repeat apply nz_mul; exact HZ |].
    transitivity (Y2 * (Z1 * Z1) * Z1); [ring|]. rewrite <- EY, HY. ring.
Qed.

End Group.
