(* C17 - the guards of ECDH._get_shared_secret (hand model ecdh_get_shared): a secret is
   produced only when private key, ECDH object and received public key are on one curve. *)
From Coq Require Import List Bool ZArith Lia.
From Bec2 Require Import Base.Result Base.Modp Gen.EcFormulas Gen.Curves Model.Ec.
Open Scope Z_scope.

Lemma curvefp_eqb_spec c1 c2 : curvefp_eqb c1 c2 = true ->
  c_p c1 = c_p c2 /\ eqm (c_p c1) (c_a c1) (c_a c2) /\ eqm (c_p c1) (c_b c1) (c_b c2).
Proof.
  unfold curvefp_eqb. intro H. apply andb_true_iff in H as [H H3]. apply andb_true_iff in H as [H1 H2].
  apply Z.eqb_eq in H1, H2, H3. repeat split; [exact H1 | apply eqm_def, H2 | apply eqm_def, H3].
Qed.

Theorem ecdh_guard cur priv pub s :
  ecdh_get_shared cur priv pub = Ok (Secret s) ->
  exists c cpriv d cpub Q,
    cur = Some c /\ priv = Some (cpriv, d) /\ pub = Some (cpub, Q) /\
    curve_eqb cpriv c = true /\ curve_eqb c cpub = true /\
    c_p cpriv = c_p c /\ c_p c = c_p cpub /\
    eqm (c_p c) (c_a cpriv) (c_a c) /\ eqm (c_p c) (c_a c) (c_a cpub) /\
    eqm (c_p c) (c_b cpriv) (c_b c) /\ eqm (c_p c) (c_b c) (c_b cpub) /\
    ecdh_shared (c_p cpub) (c_a cpub) Q d = Ok (Some s).
Proof.
  unfold ecdh_get_shared. intro E.
  destruct priv as [[cpriv d]|]; [|discriminate E].
  destruct pub as [[cpub Q]|]; [|discriminate E].
  destruct cur as [c|]; [|discriminate E].
  destruct (curve_eqb cpriv c) eqn:E1; [|discriminate E].
  destruct (curve_eqb c cpub) eqn:E2; [|discriminate E].
  cbn [andb negb] in E.
  destruct (ecdh_shared (c_p cpub) (c_a cpub) Q d) as [[s'|]|e] eqn:ES; try discriminate E.
  cbn [bind] in E. injection E as <-.
  pose proof E1 as F1. pose proof E2 as F2. unfold curve_eqb in F1, F2.
  apply andb_true_iff in F1 as [F1 _]. apply andb_true_iff in F2 as [F2 _].
  destruct (curvefp_eqb_spec _ _ F1) as [P1 [A1 B1]]. destruct (curvefp_eqb_spec _ _ F2) as [P2 [A2 B2]].
  exists c, cpriv, d, cpub, Q. rewrite P1 in A1, B1. repeat split; assumption.
Qed.

(* every other combination is an error, never a value *)
Theorem ecdh_guard_errors cur priv pub :
  (priv = None \/ pub = None -> ecdh_get_shared cur priv pub = Ok NoKeyError) /\
  (forall cpriv d cpub Q, priv = Some (cpriv, d) -> pub = Some (cpub, Q) ->
     (cur = None \/ exists c, cur = Some c /\ (curve_eqb cpriv c = false \/ curve_eqb c cpub = false)) ->
     ecdh_get_shared cur priv pub = Ok InvalidCurveError).
Proof.
  split.
  - intros [-> | ->]; [reflexivity|]. destruct priv as [[? ?]|]; reflexivity.
  - intros cpriv d cpub Q -> -> H. unfold ecdh_get_shared.
    destruct H as [-> | [c [-> [H|H]]]]; [reflexivity| |]; rewrite H; [reflexivity|].
    rewrite andb_false_r. reflexivity.
Qed.
