(* C04, part 4: the hex text.  Appended characters; the text cut short at any point
   (inside the comment block, at the blank line, between hex pairs, inside a hex pair,
   inside the trailing line breaks). *)
From Coq Require Import List Bool NArith ZArith Lia.
From Coq Require Import Init.Byte.
From Bec2 Require Import Base.Result Base.Bytes Base.Reader Base.Sweep Gen.Consts Model.Bf3 Model.Damage
  Proofs.Bf3Proofs Proofs.Bf3TextProofs Proofs.DamageProofs Proofs.DamageStructProofs.
Import ListNotations.
Open Scope N_scope.

Definition keep (c : N) : bool := negb (hex_removed c).

(* the odd-length repair of hex2bin: "0" is inserted before the LAST character *)
Definition repair (clean : str) : str :=
  if N.odd (blen clean)
  then match rev clean with
       | last :: front => rev front ++ [48; last]
       | [] => clean
       end
  else clean.

Lemma hex2bin_eq s : hex2bin s = unhexlify (repair (filter keep s)).
Proof. reflexivity. Qed.

Lemma list_ind2 {A} (P : list A -> Prop) :
  P [] -> (forall a, P [a]) -> (forall a b l, P l -> P (a :: b :: l)) -> forall l, P l.
Proof.
  intros H0 H1 H2. fix IH 1. intros [|a [|b l]]; [exact H0|apply H1|apply H2, IH].
Qed.

Lemma unhexlify_err u : forall e, unhexlify u = Err e -> e = EValue.
Proof.
  induction u as [|a|a b l IH] using list_ind2; intros e H; cbn [unhexlify] in H.
  - discriminate.
  - inversion H; reflexivity.
  - destruct (hex_val a); [|inversion H; reflexivity].
    destruct (hex_val b); [|inversion H; reflexivity].
    destruct (unhexlify l) as [r|e'] eqn:E; cbn [bind] in H; [discriminate|].
    inversion H; subst. apply IH. reflexivity.
Qed.

Lemma unhexlify_len u : forall r, unhexlify u = Ok r -> length u = (2 * length r)%nat.
Proof.
  induction u as [|a|a b l IH] using list_ind2; intros r H; cbn [unhexlify] in H.
  - inversion H; reflexivity.
  - discriminate.
  - destruct (hex_val a); [|discriminate]. destruct (hex_val b); [|discriminate].
    destruct (unhexlify l) as [r'|] eqn:E; cbn [bind] in H; [|discriminate].
    inversion H; subst. cbn [length]. rewrite (IH _ eq_refl). lia.
Qed.

Lemma hex_digits_ok x : x < 256 ->
  hex_val (hexdigit (x / 16)) = Some (x / 16) /\ hex_val (hexdigit (x mod 16)) = Some (x mod 16).
Proof.
  intro H.
  assert (S : forallb (fun n => match hex_val (hexdigit n) with Some m => m =? n | None => false end) (Nrange 16) = true)
    by (vm_compute; reflexivity).
  assert (D : forall n, n < 16 -> hex_val (hexdigit n) = Some n).
  { intros n Hn. pose proof (sweep _ 16 S n Hn) as Hs. cbv beta in Hs.
    destruct (hex_val (hexdigit n)); [|discriminate]. apply N.eqb_eq in Hs. subst. reflexivity. }
  split; apply D.
  - apply N.div_lt_upper_bound; lia.
  - apply N.mod_upper_bound. lia.
Qed.

Lemma unhexlify_hex_app b : forall u,
  unhexlify (hex_of_bytes b ++ u) = (let* r := unhexlify u in Ok (b ++ r)).
Proof.
  induction b as [|x b IH]; intro u.
  - cbn [hex_of_bytes flat_map app]. destruct (unhexlify u); reflexivity.
  - unfold hex_of_bytes in *. cbn [flat_map app unhexlify].
    destruct (hex_digits_ok (b2n x) (b2n_lt x)) as [-> ->].
    rewrite IH. destruct (unhexlify u) as [r|]; cbn [bind]; [|reflexivity].
    rewrite <- N.div_mod' by lia. rewrite n2b_b2n. reflexivity.
Qed.

Lemma repair_even c : N.odd (blen c) = false -> repair c = c.
Proof. unfold repair. intros ->. reflexivity. Qed.

Lemma repair_odd_snoc c d : N.odd (blen (c ++ [d])) = true -> repair (c ++ [d]) = c ++ [48; d].
Proof.
  unfold repair. intros ->. rewrite rev_app_distr. cbn [rev app]. rewrite rev_involutive. reflexivity.
Qed.

Lemma odd_hex_app b (u : str) : N.odd (blen (hex_of_bytes b ++ u)) = N.odd (blen u).
Proof.
  rewrite blen_app, hex_of_bytes_len, N.add_comm. apply N.odd_add_mul_2.
Qed.

(* what hex2bin makes of the clean text  hex(raw) ++ u  for non-empty u *)
Lemma clean_app raw u : u <> [] ->
  unhexlify (repair (hex_of_bytes raw ++ u)) = Err EValue \/
  exists extra, extra <> [] /\ unhexlify (repair (hex_of_bytes raw ++ u)) = Ok (raw ++ extra).
Proof.
  intro Hu.
  assert (G : forall v, v <> [] -> unhexlify (hex_of_bytes raw ++ v) = Err EValue \/
              exists extra, extra <> [] /\ unhexlify (hex_of_bytes raw ++ v) = Ok (raw ++ extra)).
  { intros v Hv. rewrite unhexlify_hex_app. destruct (unhexlify v) as [r|e] eqn:E; cbn [bind].
    - right. exists r. split; [|reflexivity]. intros ->. apply unhexlify_len in E. destruct v; [contradiction|discriminate].
    - left. rewrite (unhexlify_err _ _ E). reflexivity. }
  destruct (N.odd (blen (hex_of_bytes raw ++ u))) eqn:Eo.
  - destruct (exists_last Hu) as [u' [d ->]].
    rewrite app_assoc in Eo |- *. rewrite (repair_odd_snoc _ _ Eo), <- app_assoc.
    apply G. destruct u'; discriminate.
  - rewrite (repair_even _ Eo). apply G, Hu.
Qed.

Lemma filter_hex_lines_full raw :
  filter keep (hex_lines (N.to_nat (n_hex_lines (blen raw))) raw) = hex_of_bytes raw.
Proof.
  unfold keep. rewrite filter_hex_lines. rewrite firstn_all2; [reflexivity|].
  pose proof (n_hex_lines_enough (blen raw)). unfold blen in *. lia.
Qed.

(* ---- the comment block cut short ----------------------------------------------- *)
Lemma readline_no_nl p : no_char NL p -> readline p = (p, []).
Proof.
  induction p as [|c p IH]; intro H; [reflexivity|].
  cbn [readline]. destruct (c =? NL) eqn:E.
  - apply N.eqb_eq in E. exfalso. apply H. left. exact E.
  - rewrite IH; [reflexivity|]. intro Hin. apply H. right. exact Hin.
Qed.

Lemma parse_comments_eof f acc : parse_comments (S f) [] acc = Err EBf3.
Proof. reflexivity. Qed.

Lemma parse_comments_line k v l f acc : wf_key k -> wf_value v ->
  parse_comments (S f) ((k ++ [COLON; SPACE] ++ v ++ [NL]) ++ l) acc =
  parse_comments f l (dict_set str_eqb acc k v).
Proof.
  intros [Hk1 Hk2] Hv.
  replace ((k ++ [COLON; SPACE] ++ v ++ [NL]) ++ l) with ((k ++ [COLON; SPACE] ++ v) ++ NL :: l)
    by (rewrite <- !app_assoc; reflexivity).
  cbn [parse_comments]. rewrite readline_line.
  2:{ intro Hin. apply in_app_or in Hin as [Hin|Hin]; [exact (Hk1 Hin)|].
      apply in_app_or in Hin as [Hin|Hin].
      - simpl in Hin. destruct Hin as [Hin|[Hin|[]]]; discriminate.
      - destruct Hv as [Hv _]. exact (Hv Hin). }
  destruct (str_eqb ((k ++ [COLON; SPACE] ++ v) ++ [NL]) [NL]) eqn:E.
  { apply str_eqb_eq in E. apply (f_equal (@length N)) in E. rewrite !app_length in E. simpl in E. lia. }
  replace ((k ++ [COLON; SPACE] ++ v) ++ [NL]) with (k ++ COLON :: ([SPACE] ++ v ++ [NL]))
    by (rewrite <- !app_assoc; reflexivity).
  rewrite (split_colon_key k _ Hk2), (strip_value v Hv). reflexivity.
Qed.

Lemma split_colon_nil_none : split_colon [] = None. Proof. reflexivity. Qed.

Lemma parse_comments_cut cm : Forall (fun kv => wf_key (fst kv) /\ wf_value (snd kv)) cm ->
  forall p s' acc fuel, print_comments cm = p ++ s' -> (length p < fuel)%nat ->
  parse_comments fuel p acc = Err EBf3.
Proof.
  induction cm as [|[k v] cm IH]; intros Hwf p s' acc fuel Hp Hf.
  - unfold print_comments in Hp. cbn in Hp. symmetry in Hp. apply app_eq_nil in Hp as [-> _].
    destruct fuel; [simpl in Hf; lia|]. reflexivity.
  - inversion Hwf as [|? ? [Hk Hv] Hwf']; subst. cbn [fst snd] in *.
    assert (Hpr : print_comments ((k, v) :: cm) = (k ++ [COLON; SPACE] ++ v ++ [NL]) ++ print_comments cm).
    { unfold print_comments. cbn [flat_map]. reflexivity. }
    rewrite Hpr in Hp.
    assert (Whole : forall l s2 fu, print_comments cm = l ++ s2 ->
              (length ((k ++ [COLON; SPACE] ++ v ++ [NL]) ++ l) < fu)%nat ->
              parse_comments fu ((k ++ [COLON; SPACE] ++ v ++ [NL]) ++ l) acc = Err EBf3).
    { intros l s2 fu Hl Hfu. destruct fu as [|fu]; [simpl in Hfu; lia|].
      rewrite (parse_comments_line k v l fu acc Hk Hv).
      apply (IH Hwf' l s2); [exact Hl|]. rewrite !app_length in Hfu. cbn [length] in Hfu. lia. }
    apply app_eq_app in Hp as [l [[Hline Hs]|[Hpl Hrest]]].
    + destruct l as [|c0 l0].
      * rewrite app_nil_r in Hline. subst p. rewrite <- (app_nil_r (k ++ [COLON; SPACE] ++ v ++ [NL])).
        apply (Whole [] (print_comments cm)); [reflexivity|]. rewrite app_nil_r. exact Hf.
      * (* a proper prefix of the line: no line break in it *)
        assert (Hnl : no_char NL p).
        { destruct (exists_last (l := c0 :: l0) ltac:(discriminate)) as [l' [x Hl']]. rewrite Hl' in Hline.
          assert (Hline' : (k ++ [COLON; SPACE] ++ v) ++ [NL] = (p ++ l') ++ [x]).
          { rewrite <- !app_assoc. exact Hline. }
          apply app_inj_tail in Hline' as [Hbody _].
          intro Hin. assert (Hin' : In NL (k ++ [COLON; SPACE] ++ v)) by (rewrite Hbody; apply in_or_app; left; exact Hin).
          destruct Hk as [Hk1 _]. destruct Hv as [Hv1 _].
          apply in_app_or in Hin' as [H|H]; [exact (Hk1 H)|].
          apply in_app_or in H as [H|H]; [|exact (Hv1 H)].
          simpl in H. destruct H as [H|[H|[]]]; discriminate. }
        destruct fuel as [|fu]; [simpl in Hf; lia|].
        cbn [parse_comments]. rewrite (readline_no_nl p Hnl).
        destruct (str_eqb p [NL]) eqn:E.
        { apply str_eqb_eq in E. subst p. exfalso. apply Hnl. left. reflexivity. }
        destruct (split_colon p) as [[k' v']|] eqn:Es; [|reflexivity].
        destruct fu as [|fu]; [|reflexivity].
        destruct p; [discriminate Es|simpl in Hf; lia].
    + subst p. apply (Whole l s'); [exact Hrest|exact Hf].
Qed.

(* ---- a prefix of the hex digits: whole pairs, or whole pairs and one dangling digit -- *)
Lemma hex_prefix raw : forall u w, hex_of_bytes raw = u ++ w ->
  (exists r1 r2, raw = r1 ++ r2 /\ u = hex_of_bytes r1 /\ w = hex_of_bytes r2) \/
  (exists r1 x r2, raw = r1 ++ x :: r2 /\ u = hex_of_bytes r1 ++ [hexdigit (b2n x / 16)] /\
                   w = hexdigit (b2n x mod 16) :: hex_of_bytes r2).
Proof.
  induction raw as [|x raw IH]; intros u w H.
  - cbn in H. symmetry in H. apply app_eq_nil in H as [-> ->]. left. exists [], []. repeat split.
  - change (hex_of_bytes (x :: raw)) with (hexdigit (b2n x / 16) :: hexdigit (b2n x mod 16) :: hex_of_bytes raw) in H.
    destruct u as [|a [|b u]].
    + left. exists [], (x :: raw). cbn [app] in H. subst w. repeat split.
    + right. cbn [app] in H. inversion H; subst. exists [], x, raw. repeat split.
    + cbn [app] in H. inversion H as [[Ha Hb Hr]]. destruct (IH _ _ Hr) as [[r1 [r2 [-> [-> ->]]]]|[r1 [y [r2 [-> [-> ->]]]]]].
      * left. exists (x :: r1), r2. repeat split.
      * right. exists (x :: r1), y, r2. repeat split.
Qed.

Section Text.
  Variable enc dec mac : bytes -> option bytes -> bytes -> result bytes.
  Hypothesis mac_len : forall k iv d m, d <> [] -> mac k iv d = Ok m -> blen m = 16.
  Hypothesis enc_len : forall k d c, blen d mod 16 = 0 -> enc k None d = Ok c -> blen c = blen d.
  Hypothesis dec_enc : forall k d c, blen d mod 16 = 0 -> enc k None d = Ok c -> dec k None c = Ok d.

  (* read_file after the comment block: signature, then the binary reader *)
  Definition read_binary (cm : comments) (b : bytes) (check : bool) (k : bytes) : result bf3 :=
    let* (hd, r) := rd_read (blen BF3_FILE_SIG) (new_reader b) in
    if negb (bytes_eqb hd BF3_FILE_SIG) then Err EBf3 else
    let* cs := from_binary dec mac r check k in
    Ok (mkBf3 cm cs).

  Lemma read_file_text cm rest0 check k : wf_comments cm ->
    read_file dec mac (print_comments cm ++ [NL] ++ rest0) check k =
    (let* b := catch (hex2bin rest0) is_value EBf3 in read_binary cm b check k).
  Proof.
    intros [ND Hwf]. unfold read_file, parse_bf3_file.
    rewrite (parse_comments_print cm [] _ _ Hwf ND).
    2:{ pose proof (print_comments_len cm). rewrite !app_length. simpl. lia. }
    cbn [bind app]. destruct (catch (hex2bin rest0) is_value EBf3); reflexivity.
  Qed.

  Local Opaque BF3_FILE_SIG.
  Lemma read_binary_sig cm b check k :
    read_binary cm (BF3_FILE_SIG ++ b) check k =
    (let* cs := from_binary dec mac (mkR b (blen BF3_FILE_SIG)) check k in Ok (mkBf3 cm cs)).
  Proof.
    unfold read_binary, new_reader. rewrite rd_read_app. cbn [bind]. rewrite bytes_eqb_refl. cbn [negb].
    reflexivity.
  Qed.

  Lemma read_binary_short cm z check k : blen z < blen BF3_FILE_SIG -> read_binary cm z check k = Err EValue.
  Proof.
    intro H. unfold read_binary, new_reader, rd_read. cbn [rest].
    destruct (blen BF3_FILE_SIG <=? blen z) eqn:E; [apply N.leb_le in E; lia|reflexivity].
  Qed.
  Local Transparent BF3_FILE_SIG.

  (* the writer's text *)
  Lemma write_file_shape f k t : write_file enc mac f k = Ok t ->
    exists b, to_binary enc mac (f_comps f) (blen BF3_FILE_SIG) k = Ok b /\
      t = print_comments (f_comments f) ++ [NL] ++
          hex_lines (N.to_nat (n_hex_lines (blen (BF3_FILE_SIG ++ b)))) (BF3_FILE_SIG ++ b).
  Proof.
    unfold write_file. intro H.
    destruct (to_binary enc mac (f_comps f) (blen BF3_FILE_SIG) k) as [b|]; cbn [bind] in H; [|discriminate].
    inversion H; subst t. exists b. split; reflexivity.
  Qed.

  Lemma catch_ok {A} (x : A) h e : catch (Ok x) h e = Ok x. Proof. reflexivity. Qed.

  (* ---- characters appended to the text ------------------------------------------- *)
  (* only characters that hex2bin removes (white space, ",-./:"): the content is unchanged *)
  Theorem text_suffix_removed f k t s check :
    wf_file f -> write_file enc mac f k = Ok t -> filter keep s = [] ->
    read_file dec mac (t ++ s) check k = Ok (file_view f).
  Proof.
    intros Hwf Hw Hs.
    rewrite <- (read_write_file enc dec mac mac_len enc_len dec_enc f k t check Hwf Hw).
    destruct (write_file_shape _ _ _ Hw) as [b [_ ->]]. destruct Hwf as [Hc _].
    rewrite <- !app_assoc. rewrite !(read_file_text _ _ _ _ Hc).
    rewrite !hex2bin_eq, filter_app, Hs, app_nil_r. reflexivity.
  Qed.

  (* anything else: rejected (the binary becomes longer, or is no hex text at all) *)
  Theorem text_suffix_rejected f k t s check :
    wf_file f -> write_file enc mac f k = Ok t -> filter keep s <> [] ->
    read_file dec mac (t ++ s) check k = Err EBf3 \/ read_file dec mac (t ++ s) check k = Err EValue.
  Proof.
    intros Hwf Hw Hs.
    destruct (write_file_shape _ _ _ Hw) as [b [Hb ->]]. destruct Hwf as [Hc Hcs].
    rewrite <- !app_assoc. rewrite (read_file_text _ _ _ _ Hc).
    rewrite hex2bin_eq, filter_app, filter_hex_lines_full.
    destruct (clean_app (BF3_FILE_SIG ++ b) _ Hs) as [->|[extra [Hne ->]]].
    - left. reflexivity.
    - right. rewrite catch_ok. cbn [bind]. rewrite <- app_assoc, read_binary_sig.
      rewrite (from_binary_suffix dec mac b _ check k _ extra
                 (from_binary_to_binary enc dec mac mac_len enc_len dec_enc _ _ _ _ check Hcs Hb) Hne).
      reflexivity.
  Qed.

  (* ---- the text cut short ---------------------------------------------------------- *)
  Lemma read_file_no_blank p check k cm s' :
    Forall (fun kv => wf_key (fst kv) /\ wf_value (snd kv)) cm -> print_comments cm = p ++ s' ->
    read_file dec mac p check k = Err EBf3.
  Proof.
    intros Hwf Hp. unfold read_file, parse_bf3_file.
    rewrite (parse_comments_cut cm Hwf p s' [] (S (length p)) Hp) by lia. reflexivity.
  Qed.

  (* a proper prefix of the authentic binary (signature included) *)
  Lemma read_binary_prefix cm cs b k check r1 r2 :
    Forall wf_comp cs -> to_binary enc mac cs (blen BF3_FILE_SIG) k = Ok b ->
    BF3_FILE_SIG ++ b = r1 ++ r2 -> r2 <> [] ->
    exists e, read_binary cm r1 check k = Err e.
  Proof.
    intros Hwf Hb Hsplit Hr2.
    apply app_eq_app in Hsplit as [l [[Hsig Hr]|[Hr1 Hbb]]].
    - (* r1 inside the signature *)
      destruct l as [|c0 l0].
      + rewrite app_nil_r in Hsig. subst r1. cbn [app] in Hr. subst r2.
        rewrite <- (app_nil_r BF3_FILE_SIG), read_binary_sig.
        destruct (from_binary_prefix dec mac [] b _ check k _
                    (from_binary_to_binary enc dec mac mac_len enc_len dec_enc _ _ _ _ check Hwf Hb) Hr2) as [e ->].
        exists e. reflexivity.
      + exists EValue. apply read_binary_short. rewrite Hsig, blen_app, blen_cons. lia.
    - subst r1 b. rewrite read_binary_sig.
      destruct (from_binary_prefix dec mac l r2 _ check k _
                  (from_binary_to_binary enc dec mac mac_len enc_len dec_enc _ _ _ _ check Hwf Hb) Hr2) as [e ->].
      exists e. reflexivity.
  Qed.

  Lemma read_binary_whole f b k check :
    Forall wf_comp (f_comps f) -> to_binary enc mac (f_comps f) (blen BF3_FILE_SIG) k = Ok b ->
    read_binary (f_comments f) (BF3_FILE_SIG ++ b) check k = Ok (file_view f).
  Proof.
    intros Hwf Hb. rewrite read_binary_sig.
    rewrite (from_binary_to_binary enc dec mac mac_len enc_len dec_enc _ _ _ _ check Hwf Hb). reflexivity.
  Qed.

  (* every proper prefix p of the written text: an error, or the original content, or the cut
     went through a hex pair "XY" with X <> "0"... more precisely through the pair of a non-zero
     byte x, and the reader sees  r1 ++ [x / 16]  where the authentic binary is  r1 ++ x :: r2 *)
  Theorem text_prefix_cases f k t p s check :
    wf_file f -> write_file enc mac f k = Ok t -> t = p ++ s -> s <> [] ->
    (exists e, read_file dec mac p check k = Err e) \/
    read_file dec mac p check k = Ok (file_view f) \/
    (exists b r1 x r2, to_binary enc mac (f_comps f) (blen BF3_FILE_SIG) k = Ok b /\
       BF3_FILE_SIG ++ b = r1 ++ x :: r2 /\ x <> x00 /\
       read_file dec mac p check k = read_binary (f_comments f) (r1 ++ [n2b (b2n x / 16)]) check k).
  Proof.
    intros [Hc Hcs] Hw Ht Hs.
    destruct (write_file_shape _ _ _ Hw) as [b [Hb Hshape]]. rewrite Hshape in Ht. clear Hshape.
    set (raw := BF3_FILE_SIG ++ b) in *.
    destruct Hc as [ND Hcw].
    apply app_eq_app in Ht as [l [[Hpc _]|[Hp Hrest]]].
    { left. exists EBf3. exact (read_file_no_blank p check k _ l Hcw Hpc). }
    destruct l as [|c0 l].
    { left. exists EBf3. rewrite app_nil_r in Hp. subst p.
      apply (read_file_no_blank _ check k (f_comments f) []); [exact Hcw|rewrite app_nil_r; reflexivity]. }
    cbn [app] in Hrest. inversion Hrest as [[Hc0 Hhl]]. subst c0. clear Hrest.
    subst p. change (NL :: l) with ([NL] ++ l).
    rewrite (read_file_text _ _ _ _ (conj ND Hcw)), hex2bin_eq.
    pose proof (filter_hex_lines_full raw) as Hfl. rewrite Hhl, filter_app in Hfl.
    destruct (hex_prefix raw _ _ (eq_sym Hfl)) as [[r1 [r2 [Hraw [Hu _]]]]|[r1 [x [r2 [Hraw [Hu _]]]]]].
    - (* whole pairs *)
      rewrite Hu, repair_even by (rewrite hex_of_bytes_len, N.odd_mul; reflexivity).
      rewrite unhexlify_hex_of_bytes, catch_ok. cbn [bind].
      destruct r2 as [|y r2].
      + right. left. rewrite app_nil_r in Hraw. subst r1. apply read_binary_whole; assumption.
      + left. apply (read_binary_prefix (f_comments f) (f_comps f) b k check r1 (y :: r2) Hcs Hb Hraw). discriminate.
    - (* whole pairs and the first digit of the pair of x *)
      assert (Ho : N.odd (blen (hex_of_bytes r1 ++ [hexdigit (b2n x / 16)])) = true).
      { rewrite odd_hex_app. reflexivity. }
      rewrite Hu, (repair_odd_snoc _ _ Ho), unhexlify_hex_app.
      cbn [unhexlify]. change (hex_val 48) with (Some 0).
      destruct (hex_digits_ok (b2n x) (b2n_lt x)) as [-> _]. cbn [bind]. rewrite catch_ok. cbn [bind].
      change (16 * 0 + b2n x / 16) with (b2n x / 16).
      destruct (Byte.byte_eq_dec x x00) as [->|Hx].
      + (* a zero byte: the repaired digit is the byte itself *)
        change (n2b (b2n x00 / 16)) with x00.
        assert (Hraw' : raw = (r1 ++ [x00]) ++ r2) by (rewrite <- app_assoc; exact Hraw).
        destruct r2 as [|y r2].
        * right. left. rewrite app_nil_r in Hraw'. rewrite <- Hraw'. apply read_binary_whole; assumption.
        * left. apply (read_binary_prefix (f_comments f) (f_comps f) b k check _ (y :: r2) Hcs Hb Hraw'). discriminate.
      + right. right. exists b, r1, x, r2. repeat split; assumption.
  Qed.

  Lemma sig_value : BF3_FILE_SIG = [x42; x46; x33; x00; x00].
  Proof. vm_compute. reflexivity. Qed.

  (* the final form: the only cut that is neither rejected nor harmless is the one through
     the LAST hex pair of the file (when that byte is not 0x00); the reader then sees the
     authentic binary with its last byte x replaced by x / 16 - a single-byte replacement,
     covered by the forgery reduction *)
  Theorem text_prefix f k t p s check :
    wf_file f -> write_file enc mac f k = Ok t -> t = p ++ s -> s <> [] ->
    (exists e, read_file dec mac p check k = Err e) \/
    read_file dec mac p check k = Ok (file_view f) \/
    (exists b r1 x, to_binary enc mac (f_comps f) (blen BF3_FILE_SIG) k = Ok b /\
       BF3_FILE_SIG ++ b = r1 ++ [x] /\ x <> x00 /\
       read_file dec mac p check k = read_binary (f_comments f) (r1 ++ [n2b (b2n x / 16)]) check k).
  Proof.
    intros Hwf Hw Ht Hs.
    destruct (text_prefix_cases f k t p s check Hwf Hw Ht Hs) as [H|[H|[b [r1 [x [r2 [Hb [Hraw [Hx Hrd]]]]]]]]];
      [left; exact H|right; left; exact H|].
    destruct r2 as [|y2 r2]; [right; right; exists b, r1, x; repeat split; assumption|].
    left. rewrite Hrd. clear Hrd. destruct Hwf as [_ Hcs].
    apply app_eq_app in Hraw as [l [[Hsig Hrest]|[Hr1 Hbb]]].
    - destruct l as [|c0 l].
      + rewrite app_nil_r in Hsig. subst r1. cbn [app] in Hrest. rewrite read_binary_sig.
        destruct (cut_byte_rejected enc dec mac mac_len enc_len (f_comps f) _ k b [] x (y2 :: r2)
                    (n2b (b2n x / 16)) check Hcs Hb (eq_sym Hrest) ltac:(discriminate) Hx) as [e He].
        cbn [app] in He |- *. rewrite He. exists e. reflexivity.
      + cbn [app] in Hrest. injection Hrest as <- _.
        exists EValue. apply read_binary_short. rewrite sig_value in Hsig |- *.
        destruct r1 as [|a1 [|a2 [|a3 [|a4 [|a5 r1]]]]]; cbn [app] in Hsig; inversion Hsig; subst;
          try contradiction; try (cbn; lia).
        destruct r1; discriminate.
    - subst r1. rewrite <- app_assoc, read_binary_sig.
      destruct (cut_byte_rejected enc dec mac mac_len enc_len (f_comps f) _ k b l x (y2 :: r2)
                  (n2b (b2n x / 16)) check Hcs Hb Hbb ltac:(discriminate) Hx) as [e He].
      rewrite He. exists e. reflexivity.
  Qed.

  (* ---- the signature: compared with the constant before anything else is read -------- *)
  Theorem signature_rejected t b cm check k :
    parse_bf3_file t = Ok (b, cm) -> (forall r, b <> BF3_FILE_SIG ++ r) ->
    read_file dec mac t check k = Err EBf3 \/ read_file dec mac t check k = Err EValue.
  Proof.
    intros Hp Hn. unfold read_file. rewrite Hp. cbn [bind].
    destruct (rd_read (blen BF3_FILE_SIG) (new_reader b)) as [[hd r]|e] eqn:E; cbn [bind].
    - left. destruct (rd_read_ok _ _ _ _ E) as [Hr _]. cbn [new_reader rest] in Hr.
      destruct (bytes_eqb hd BF3_FILE_SIG) eqn:Eq; [|reflexivity].
      apply bytes_eqb_eq in Eq. subst hd. exfalso. exact (Hn _ Hr).
    - right. rewrite (rd_read_err _ _ _ E). reflexivity.
  Qed.
End Text.
