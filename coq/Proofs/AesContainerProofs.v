(* C08: proofs about Model.AesContainer *)
From Coq Require Import List Bool NArith ZArith Lia.
From Coq Require Import Init.Byte.
From Bec2 Require Import Base.Result Base.Bytes Gen.Crc Gen.Consts Model.AesContainer
  Proofs.CrcProofs.
Import ListNotations.
Open Scope N_scope.

Lemma crc_of_lt pt : crc_of pt < 65536.
Proof.
  unfold crc_of. apply crc_correct; [vm_compute; reflexivity|].
  apply Forall_forall. intros x Hx. apply in_map_iff in Hx as [b [<- _]]. apply b2n_lt.
Qed.

(* the padding expression translated from the source *)
Lemma padding_len_spec n : n <= 253 ->
  let pl := Z.to_N (padding_len (Z.of_N n)) in
  1 <= pl <= 16 /\ (2 + pl + n + 2) mod 16 = 0.
Proof.
  intros Hn pl. subst pl. unfold padding_len.
  set (z := Z.of_N n). assert (Hz : (0 <= z <= 253)%Z) by lia.
  set (m := (- (2 + 1 + z + 2) mod 16)%Z).
  assert (Hm : (0 <= m < 16)%Z) by (apply Z.mod_pos_bound; lia).
  assert (Hd : ((2 + (m + 1) + z + 2) mod 16 = 0)%Z).
  { subst m. pose proof (Z.div_mod (- (2 + 1 + z + 2)) 16 ltac:(lia)) as E.
    set (q := (- (2 + 1 + z + 2) / 16)%Z) in *.
    set (r := (- (2 + 1 + z + 2) mod 16)%Z) in *.
    replace (2 + (r + 1) + z + 2)%Z with ((-q) * 16)%Z by lia.
    apply Z.mod_mul. lia. }
  split; [lia|].
  apply N2Z.inj. rewrite N2Z.inj_mod.
  rewrite !N2Z.inj_add, Z2N.id by lia. fold z. exact Hd.
Qed.

Definition the_frame (pt : bytes) (pl : N) : bytes :=
  [marker_B] ++ [n2b (blen pt + 2)] ++ zeros (N.to_nat pl) ++ pt ++ be 2 (crc_of pt).

Theorem frame_shape pt : blen pt <= 253 ->
  exists pl, 1 <= pl <= 16 /\ frame pt = Ok (the_frame pt pl) /\
             blen (the_frame pt pl) mod 16 = 0.
Proof.
  intro Hn. destruct (padding_len_spec _ Hn) as [Hpl Hmod].
  exists (Z.to_N (padding_len (Z.of_N (blen pt)))). split; [exact Hpl|]. split.
  - unfold frame, to_bytes.
    pose proof (crc_of_lt pt) as Hc.
    destruct (crc_of pt <? 256 ^ N.of_nat 2) eqn:E1;
      [|apply N.ltb_ge in E1; change (256 ^ N.of_nat 2) with 65536 in E1; lia].
    cbn [bind]. rewrite be_blen. change (N.of_nat 2) with 2.
    destruct (blen pt + 2 <? 256 ^ N.of_nat 1) eqn:E2;
      [|apply N.ltb_ge in E2; change (256 ^ N.of_nat 1) with 256 in E2; lia].
    cbn [bind]. rewrite be_1. reflexivity.
  - unfold the_frame. rewrite !blen_app, blen_zeros, be_blen, N2Nat.id.
    change (blen [marker_B]) with 1. change (blen [n2b (blen pt + 2)]) with 1.
    change (N.of_nat 2) with 2.
    replace (1 + (1 + (Z.to_N (padding_len (Z.of_N (blen pt))) + (blen pt + 2))))
      with (2 + Z.to_N (padding_len (Z.of_N (blen pt))) + blen pt + 2) by lia.
    exact Hmod.
Qed.

Theorem frame_overflow pt : 253 < blen pt -> frame pt = Err EOverflow.
Proof.
  intro Hn. unfold frame, to_bytes.
  pose proof (crc_of_lt pt) as Hc.
  destruct (crc_of pt <? 256 ^ N.of_nat 2) eqn:E1;
    [|apply N.ltb_ge in E1; change (256 ^ N.of_nat 2) with 65536 in E1; lia].
  cbn [bind]. rewrite be_blen. change (N.of_nat 2) with 2.
  destruct (blen pt + 2 <? 256 ^ N.of_nat 1) eqn:E2; [|reflexivity].
  apply N.ltb_lt in E2. change (256 ^ N.of_nat 1) with 256 in E2. lia.
Qed.

Lemma byte_eqb_refl b : byte_eqb b b = true.
Proof. apply byte_eqb_eq. reflexivity. Qed.

Theorem unframe_the_frame pt pl : blen pt <= 253 ->
  unframe (blen (the_frame pt pl)) (the_frame pt pl) = Ok pt.
Proof.
  intro Hn.
  assert (Hlen : blen (the_frame pt pl) = 2 + pl + blen pt + 2).
  { unfold the_frame. rewrite !blen_app, blen_zeros, be_blen, N2Nat.id.
    change (blen [marker_B]) with 1. change (blen [n2b (blen pt + 2)]) with 1.
    change (N.of_nat 2) with 2. lia. }
  rewrite Hlen. unfold the_frame at 1. cbn [app].
  unfold unframe. rewrite byte_eqb_refl. cbn [negb].
  rewrite b2n_n2b_small by lia.
  destruct (2 + pl + blen pt + 2 <? blen pt + 2) eqn:E1; [apply N.ltb_lt in E1; lia|].
  replace (2 + pl + blen pt + 2 - (blen pt + 2)) with (2 + pl) by lia.
  change (marker_B :: n2b (blen pt + 2) :: zeros (N.to_nat pl) ++ pt ++ be 2 (crc_of pt))
    with (([marker_B; n2b (blen pt + 2)] ++ zeros (N.to_nat pl)) ++ pt ++ be 2 (crc_of pt)).
  rewrite (dropN_app_exact' (2 + pl)).
  2:{ rewrite blen_app, blen_zeros, N2Nat.id. reflexivity. }
  destruct (blen pt + 2 <? 2) eqn:E2; [apply N.ltb_lt in E2; lia|].
  replace (blen pt + 2 - 2) with (blen pt) by lia.
  rewrite blen_app, be_blen. change (N.of_nat 2) with 2.
  destruct (blen pt + 2 <? blen pt) eqn:E3; [apply N.ltb_lt in E3; lia|].
  rewrite takeN_app_exact, dropN_app_exact, be_blen. change (N.of_nat 2) with 2.
  cbn [N.ltb N.compare Pos.compare Pos.compare_cont].
  rewrite takeN_all by (rewrite be_blen; change (N.of_nat 2) with 2; lia).
  rewrite from_be_be_small by (change (256 ^ N.of_nat 2) with 65536; apply crc_of_lt).
  rewrite N.eqb_refl. reflexivity.
Qed.

Theorem unframe_frame pt f : frame pt = Ok f -> unframe (blen f) f = Ok pt.
Proof.
  intro Hf.
  destruct (N.le_gt_cases (blen pt) 253) as [Hn|Hn].
  - destruct (frame_shape pt Hn) as [pl [_ [E _]]]. rewrite E in Hf. inversion Hf; subst.
    apply unframe_the_frame, Hn.
  - rewrite frame_overflow in Hf by exact Hn. discriminate.
Qed.

(* soundness of acceptance: an accepted frame has the right marker and a right CRC *)
Theorem unframe_ok_inv ctlen fr p : unframe ctlen fr = Ok p ->
  exists lb t, fr = marker_B :: lb :: t /\
    let L := b2n lb in
    2 <= L <= ctlen /\
    let r := dropN (ctlen - L) fr in
    L <= blen r /\ p = takeN (L - 2) r /\
    crc_of p = from_be (takeN 2 (dropN (L - 2) r)).
Proof.
  unfold unframe. destruct fr as [|m t]; [discriminate|].
  destruct (byte_eqb m marker_B) eqn:Em; cbn [negb]; [|discriminate].
  apply byte_eqb_eq in Em. subst m.
  destruct t as [|lb t]; [discriminate|].
  set (L := b2n lb).
  destruct (ctlen <? L) eqn:E1; [discriminate|]. apply N.ltb_ge in E1.
  set (r := dropN (ctlen - L) (marker_B :: lb :: t)).
  destruct (L <? 2) eqn:E2; [discriminate|]. apply N.ltb_ge in E2.
  destruct (blen r <? L - 2) eqn:E3; [discriminate|]. apply N.ltb_ge in E3.
  destruct (blen (dropN (L - 2) r) <? 2) eqn:E4; [discriminate|]. apply N.ltb_ge in E4.
  destruct (crc_of (takeN (L - 2) r) =? from_be (takeN 2 (dropN (L - 2) r))) eqn:E5; [|discriminate].
  intro Hp. inversion Hp; subst p. apply N.eqb_eq in E5.
  exists lb, t. split; [reflexivity|]. cbv zeta. fold L. fold r.
  split; [lia|]. split.
  - rewrite dropN_blen in E4. lia.
  - split; [reflexivity|exact E5].
Qed.

Theorem unframe_bad_marker ctlen m t : m <> marker_B -> unframe ctlen (m :: t) = Err EBec2.
Proof.
  intro H. unfold unframe. destruct (byte_eqb m marker_B) eqn:E; [|reflexivity].
  apply byte_eqb_eq in E. contradiction.
Qed.

(* every failure of unframe is a Bec2FileFormatError or a ValueError *)
Theorem unframe_errors ctlen fr e : unframe ctlen fr = Err e -> e = EBec2 \/ e = EValue.
Proof.
  unfold unframe. destruct fr as [|m t]; [intro H; inversion H; auto|].
  destruct (negb (byte_eqb m marker_B)); [intro H; inversion H; auto|].
  destruct t as [|lb t]; [intro H; inversion H; auto|].
  repeat match goal with
         | |- context [if ?c then _ else _] => destruct c
         end; intro H; inversion H; auto.
Qed.

(* a structurally right frame with a wrong CRC is reported as Bec2FileFormatError *)
Theorem unframe_bad_crc pt pl c : blen pt <= 253 -> blen c = 2 -> from_be c <> crc_of pt ->
  let f := [marker_B] ++ [n2b (blen pt + 2)] ++ zeros (N.to_nat pl) ++ pt ++ c in
  unframe (blen f) f = Err EBec2.
Proof.
  intros Hn Hc Hne f.
  assert (Hlen : blen f = 2 + pl + blen pt + 2).
  { subst f. rewrite !blen_app, blen_zeros, Hc, N2Nat.id.
    change (blen [marker_B]) with 1. change (blen [n2b (blen pt + 2)]) with 1. lia. }
  rewrite Hlen. subst f. cbn [app].
  unfold unframe. rewrite byte_eqb_refl. cbn [negb].
  rewrite b2n_n2b_small by lia.
  destruct (2 + pl + blen pt + 2 <? blen pt + 2) eqn:E1; [apply N.ltb_lt in E1; lia|].
  replace (2 + pl + blen pt + 2 - (blen pt + 2)) with (2 + pl) by lia.
  change (marker_B :: n2b (blen pt + 2) :: zeros (N.to_nat pl) ++ pt ++ c)
    with (([marker_B; n2b (blen pt + 2)] ++ zeros (N.to_nat pl)) ++ pt ++ c).
  rewrite (dropN_app_exact' (2 + pl)).
  2:{ rewrite blen_app, blen_zeros, N2Nat.id. reflexivity. }
  destruct (blen pt + 2 <? 2) eqn:E2; [apply N.ltb_lt in E2; lia|].
  replace (blen pt + 2 - 2) with (blen pt) by lia.
  rewrite blen_app, Hc.
  destruct (blen pt + 2 <? blen pt) eqn:E3; [apply N.ltb_lt in E3; lia|].
  rewrite takeN_app_exact, dropN_app_exact, Hc.
  cbn [N.ltb N.compare Pos.compare Pos.compare_cont].
  rewrite takeN_all by lia.
  destruct (crc_of pt =? from_be c) eqn:E5; [|reflexivity].
  apply N.eqb_eq in E5. congruence.
Qed.

(* ---- customer key slot --------------------------------------------------- *)

Lemma slice_assign_spec pt pos n v :
  pos + n <= blen pt -> blen v = n ->
  let r := slice_assign pt pos n v in
  blen r = blen pt /\ takeN pos r = takeN pos pt /\ py_slice r pos n = v /\
  dropN (pos + n) r = dropN (pos + n) pt.
Proof.
  intros Hp Hv r. subst r. unfold slice_assign, py_slice.
  assert (H1 : blen (takeN pos pt) = pos) by (rewrite takeN_blen; lia).
  repeat split.
  - rewrite !blen_app, H1, Hv, dropN_blen. lia.
  - apply takeN_app_exact', H1.
  - rewrite (dropN_app_exact' pos) by exact H1. apply takeN_app_exact', Hv.
  - rewrite app_assoc. apply dropN_app_exact'. rewrite blen_app, H1, Hv. reflexivity.
Qed.

Lemma slice_assign_twice pt pos n v w :
  pos + n <= blen pt -> blen v = n ->
  slice_assign (slice_assign pt pos n v) pos n w = slice_assign pt pos n w.
Proof.
  intros Hp Hv. destruct (slice_assign_spec pt pos n v Hp Hv) as [_ [H2 [_ H4]]].
  unfold slice_assign at 1. rewrite H2, H4. reflexivity.
Qed.

Section WithCipher.
  Variable enc dec : bytes -> bytes -> result bytes.
  Variable sha256 : bytes -> bytes.
  (* what the container needs from the cipher; discharged for the CBC adapter
     over any invertible block function in Proofs/CbcProofs.v *)
  Hypothesis cipher_inv : forall k d c,
    blen d mod 16 = 0 -> enc k d = Ok c -> dec k c = Ok d /\ blen c = blen d.

  Theorem unwrap_wrap k pt ct :
    wrap enc k pt = Ok ct -> unwrap dec k ct = Ok pt /\ blen ct mod 16 = 0.
  Proof.
    unfold wrap, unwrap. destruct (frame pt) as [f|e] eqn:Ef; cbn [bind]; [|discriminate].
    intro He.
    assert (Hn : blen pt <= 253).
    { destruct (N.le_gt_cases (blen pt) 253) as [H|H]; [exact H|].
      rewrite frame_overflow in Ef by exact H. discriminate. }
    destruct (frame_shape pt Hn) as [pl [_ [E Hm]]]. rewrite E in Ef. inversion Ef; subst f.
    destruct (cipher_inv k _ _ Hm He) as [Hd Hl].
    rewrite Hd. cbn [bind]. rewrite Hl. split; [|exact Hm].
    apply unframe_the_frame, Hn.
  Qed.

  Theorem ck_unwrap_wrap k c p pt ct :
    c <> [] -> blen c = CUSTOMER_KEY_SIZE -> p + CUSTOMER_KEY_SIZE <= blen pt ->
    ck_wrap enc k (Some (c, p)) pt = Ok ct ->
    ck_unwrap dec k (Some (c, p)) ct =
      Ok (slice_assign pt p CUSTOMER_KEY_SIZE (zeros (N.to_nat CUSTOMER_KEY_SIZE))).
  Proof.
    intros Hc Hl Hp Hw. unfold ck_wrap, ck_unwrap in *.
    destruct c as [|c0 c']; [contradiction|]. cbn [ck_active] in *.
    apply unwrap_wrap in Hw as [Hu _]. rewrite Hu. cbn [bind].
    destruct (slice_assign_spec pt p CUSTOMER_KEY_SIZE (c0 :: c') Hp Hl) as [_ [_ [H3 _]]].
    rewrite H3, bytes_eqb_refl.
    rewrite slice_assign_twice by assumption. reflexivity.
  Qed.

  Theorem ck_unwrap_mismatch k c c' p pt ct :
    c <> [] -> c' <> [] -> blen c = CUSTOMER_KEY_SIZE -> p + CUSTOMER_KEY_SIZE <= blen pt ->
    c' <> c ->
    ck_wrap enc k (Some (c, p)) pt = Ok ct ->
    ck_unwrap dec k (Some (c', p)) ct = Err EBec2.
  Proof.
    intros Hc Hc' Hl Hp Hne Hw. unfold ck_wrap, ck_unwrap in *.
    destruct c as [|c0 cs]; [contradiction|]. destruct c' as [|d0 ds]; [contradiction|].
    cbn [ck_active] in *.
    apply unwrap_wrap in Hw as [Hu _]. rewrite Hu. cbn [bind].
    destruct (slice_assign_spec pt p CUSTOMER_KEY_SIZE (c0 :: cs) Hp Hl) as [_ [_ [H3 _]]].
    rewrite H3.
    destruct (bytes_eqb (c0 :: cs) (d0 :: ds)) eqn:E; [|reflexivity].
    apply bytes_eqb_eq in E. congruence.
  Qed.

  Theorem csc_key_spec code : csc_key sha256 code = takeN 16 (sha256 code).
  Proof. reflexivity. Qed.
End WithCipher.
