(* C17 - AbstractPoint._naf (generated, Gen/EcFormulas.v: naf_loop / naf):
   for every k >= 0 the loop terminates within its fuel and returns digits d_i in
   {-1,0,1}, no two adjacent ones non-zero, with sum d_i 2^i = k. *)
From Coq Require Import List Bool ZArith Lia Znumtheory Zdiv.
From Bec2 Require Import Base.Result Gen.EcFormulas Model.Ec.
Import ListNotations.
Open Scope Z_scope.

Definition naf_digit (m : Z) : Z :=
  if m mod 2 =? 0 then 0 else if 2 <=? m mod 4 then m mod 4 - 4 else m mod 4.

(* one unfolding of the generated loop *)
Lemma naf_loop_step fuel m ret :
  naf_loop (S fuel) m ret =
  if m =? 0 then Ok ret
  else naf_loop fuel ((m - naf_digit m) / 2) (ret ++ [naf_digit m]).
Proof.
  cbn [naf_loop]. unfold naf_digit.
  destruct (m =? 0); cbn [negb]; [reflexivity|].
  destruct (m mod 2 =? 0); cbn [negb].
  - rewrite Z.sub_0_r. reflexivity.
  - destruct (2 <=? m mod 4); reflexivity.
Qed.

Definition digit_ok (d : Z) : Prop := d = -1 \/ d = 0 \/ d = 1.
Definition hd_zero (l : list Z) : Prop := match l with [] => True | e :: _ => e = 0 end.

Lemma naf_digit_ok m : digit_ok (naf_digit m).
Proof.
  unfold naf_digit, digit_ok.
  pose proof (Z.mod_pos_bound m 2 ltac:(lia)). pose proof (Z.mod_pos_bound m 4 ltac:(lia)).
  assert (E : m mod 2 = (m mod 4) mod 2).
  { apply Zmod_div_mod; [lia | lia | exists 2; reflexivity]. }
  destruct (Z.eqb_spec (m mod 2) 0) as [E0|E0]; [lia|].
  destruct (Z.leb_spec 2 (m mod 4)).
  - assert (m mod 4 = 3). { assert (m mod 4 = 2 \/ m mod 4 = 3) as [K|K] by lia; [|exact K].
      rewrite K in E. cbn in E. lia. }
    lia.
  - assert (m mod 4 = 1). { assert (m mod 4 = 0 \/ m mod 4 = 1) as [K|K] by lia; [|exact K].
      rewrite K in E. cbn in E. lia. }
    lia.
Qed.

(* m - digit is divisible by 2; when the digit is non-zero, by 4 *)
Lemma naf_digit_div m :
  m = naf_digit m + 2 * ((m - naf_digit m) / 2) /\
  (naf_digit m <> 0 -> ((m - naf_digit m) / 2) mod 2 = 0).
Proof.
  unfold naf_digit.
  pose proof (Z.mod_pos_bound m 2 ltac:(lia)). pose proof (Z.mod_pos_bound m 4 ltac:(lia)).
  pose proof (Z.div_mod m 2 ltac:(lia)) as D2. pose proof (Z.div_mod m 4 ltac:(lia)) as D4.
  assert (E : m mod 2 = (m mod 4) mod 2).
  { apply Zmod_div_mod; [lia | lia | exists 2; reflexivity]. }
  destruct (Z.eqb_spec (m mod 2) 0) as [E0|E0].
  - rewrite Z.sub_0_r. split; [lia|intro K; lia].
  - destruct (Z.leb_spec 2 (m mod 4)).
    + replace (m - (m mod 4 - 4)) with ((m / 4 + 1) * 2 * 2) by lia.
      rewrite Z.div_mul by lia. split; [lia|]. intros _. apply Z.mod_mul. lia.
    + replace (m - m mod 4) with ((m / 4) * 2 * 2) by lia.
      rewrite Z.div_mul by lia. split; [lia|]. intros _. apply Z.mod_mul. lia.
Qed.

Lemma naf_digit_even m : m mod 2 = 0 -> naf_digit m = 0.
Proof. intro H. unfold naf_digit. rewrite H. reflexivity. Qed.

Lemma naf_next_bound m f : 0 < m <= 2 ^ (Z.of_nat (S f)) -> 0 <= (m - naf_digit m) / 2 <= 2 ^ (Z.of_nat f).
Proof.
  intros [H0 H1]. pose proof (naf_digit_ok m) as D. destruct (naf_digit_div m) as [E _].
  rewrite Nat2Z.inj_succ, Z.pow_succ_r in H1 by lia.
  unfold digit_ok in D. lia.
Qed.

Lemma naf_loop_spec : forall n m ret, 0 <= m <= 2 ^ (Z.of_nat n) ->
  exists l, naf_loop (S (S n)) m ret = Ok (ret ++ l) /\
            digits_value l = m /\ Forall digit_ok l /\ non_adjacent l /\
            (m mod 2 = 0 -> hd_zero l) /\
            (0 < m -> last l 0 = 1) /\
            (length l <= S n)%nat.
Proof.
  induction n as [|n IH]; intros m ret Hm.
  - cbn [Z.of_nat Z.pow] in Hm. assert (m = 0 \/ m = 1) as [-> | ->] by lia.
    + exists []. rewrite app_nil_r. repeat split; cbn; auto; lia.
    + exists [1]. repeat split; cbn; auto; try lia.
      constructor; [right; right; reflexivity | constructor].
  - rewrite naf_loop_step. destruct (Z.eqb_spec m 0) as [->|Hm0].
    + exists []. rewrite app_nil_r. repeat split; cbn; auto; lia.
    + assert (Hpos : 0 < m <= 2 ^ Z.of_nat (S n)) by lia.
      pose proof (naf_next_bound m n Hpos) as Hb.
      destruct (IH ((m - naf_digit m) / 2) (ret ++ [naf_digit m]) Hb)
        as [l [E [V [F [NA [HZ [HL LEN]]]]]]].
      exists (naf_digit m :: l). rewrite E, <- app_assoc. cbn [app].
      destruct (naf_digit_div m) as [Em Ediv].
      repeat split.
      * cbn [digits_value]. rewrite V. lia.
      * constructor; [apply naf_digit_ok | exact F].
      * destruct (Z.eq_dec (naf_digit m) 0) as [K|K]; [left; exact K|right].
        specialize (HZ (Ediv K)). destruct l; [exact I|exact HZ].
      * exact NA.
      * intro Hev. cbn. apply naf_digit_even, Hev.
      * intros _. destruct l as [|e l'].
        -- cbn in V. cbn. pose proof (naf_digit_ok m) as D. unfold digit_ok in D. lia.
        -- assert (Hq : 0 < (m - naf_digit m) / 2).
           { destruct (Z.eq_dec ((m - naf_digit m) / 2) 0) as [K|K]; [|lia].
             rewrite K in E. rewrite naf_loop_step in E. cbn in E. injection E as E.
             apply (f_equal (@length Z)) in E. rewrite !app_length in E. cbn in E. lia. }
           specialize (HL Hq). cbn [last] in *. exact HL.
      * cbn [length]. lia.
Qed.

Lemma naf_fuel_ok m : 0 <= m -> exists n, naf_fuel m = S (S n) /\ m <= 2 ^ (Z.of_nat n).
Proof.
  intro H. unfold naf_fuel. rewrite Z.abs_eq by lia.
  exists (S (Z.to_nat (Z.log2 m))). split; [lia|].
  rewrite Nat2Z.inj_succ, Z2Nat.id by apply Z.log2_nonneg.
  destruct (Z.eq_dec m 0) as [->|K]; [cbn; lia|].
  pose proof (Z.log2_spec m ltac:(lia)). lia.
Qed.

Theorem naf_correct k : 0 <= k ->
  exists l, naf k = Ok l /\ digits_value l = k /\ Forall digit_ok l /\ non_adjacent l /\
            (0 < k -> last l 0 = 1) /\ (Z.of_nat (length l) <= Z.log2 k + 2).
Proof.
  intro H. destruct (naf_fuel_ok k H) as [n [Ef Hb]].
  destruct (naf_loop_spec n k [] (conj H Hb)) as [l [E [V [F [NA [_ [HL LEN]]]]]]].
  exists l. unfold naf. rewrite Ef, E. cbn [app].
  repeat split; try assumption.
  unfold naf_fuel in Ef. rewrite Z.abs_eq in Ef by lia.
  assert (n = S (Z.to_nat (Z.log2 k))) by lia. subst n.
  pose proof (Z.log2_nonneg k). lia.
Qed.
