(* Block feeder, modes, Counter and the adapter (Model/AesModes.v):
   - however the input is cut into chunks, Encrypter/Decrypter return, in total,
     what they return for the whole input fed at once (generic argument from a
     "drain can be resumed" property, proved per family of modes);
   - what AES128Proxy does with the feeder is the zero-padded CBC of Model/Cbc.v;
   - Counter.increment is +1 modulo 2^128 on the big-endian value;
   - crypto.pad is zero_pad. *)
From Coq Require Import List Bool Arith NArith ZArith Lia.
From Coq Require Import Init.Byte.
From Bec2 Require Import Base.Result Base.Bytes Gen.Consts Model.Cbc Model.AesSpec Model.AesModes Proofs.CbcProofs.
Import ListNotations.
Open Scope N_scope.

(* ---- small facts about slices --------------------------------------------------- *)

Lemma takeN_app_le {A} n (a b : list A) : n <= blen a -> takeN n (a ++ b) = takeN n a.
Proof.
  intro H. rewrite !takeN_firstn. unfold blen in H. rewrite firstn_app.
  replace (N.to_nat n - length a)%nat with 0%nat by lia. cbn [firstn]. apply app_nil_r.
Qed.
Lemma dropN_app_le {A} n (a b : list A) : n <= blen a -> dropN n (a ++ b) = dropN n a ++ b.
Proof.
  intro H. rewrite !dropN_skipn. unfold blen in H. rewrite skipn_app.
  replace (N.to_nat n - length a)%nat with 0%nat by lia. reflexivity.
Qed.
Lemma dropN_length {A} n (l : list A) : n <= blen l -> length (dropN n l) = (length l - N.to_nat n)%nat.
Proof. intro H. rewrite dropN_skipn, skipn_length. reflexivity. Qed.
Lemma takeN_length {A} n (l : list A) : n <= blen l -> length (takeN n l) = N.to_nat n.
Proof. intro H. rewrite takeN_firstn, firstn_length. unfold blen in H. lia. Qed.
Lemma blen_length {A} (l : list A) : blen l = N.of_nat (length l).
Proof. reflexivity. Qed.

Section Feeder.
  Variable E D : bytes -> bytes -> bytes.

  Notation drain := (drain E D).
  Notation feed := (feed E D).
  Notation feed_all := (feed_all E D).
  Notation mode_crypt := (mode_crypt E D).
  Notation final_crypt := (final_crypt E D).

  Lemma can_consume_le m n : can_consume m n <= n.
  Proof.
    destruct m; cbn [can_consume]; try lia.
    - destruct (16 <=? n) eqn:H; [apply N.leb_le in H|]; lia.
    - destruct (16 <=? n) eqn:H; [apply N.leb_le in H|]; lia.
    - apply N.mul_div_le. unfold seg_of. destruct (segment_size =? 0) eqn:H; [lia|apply N.eqb_neq in H; lia].
  Qed.

  (* the accumulator is only a prefix of the output *)
  Lemma drain_out m d k : forall fuel st buf out,
    drain fuel m d k st buf out =
    let* (o, st', r) := drain fuel m d k st buf [] in Ok (out ++ o, st', r).
  Proof.
    induction fuel as [|f IH]; intros st buf out; [reflexivity|].
    cbn [AesModes.drain].
    destruct (16 <? blen buf); [|cbn; rewrite app_nil_r; reflexivity].
    destruct (can_consume m (blen buf - 16) =? 0); [cbn; rewrite app_nil_r; reflexivity|].
    destruct (mode_crypt d m k st (takeN (can_consume m (blen buf - 16)) buf)) as [[o st']|e]; [|reflexivity].
    cbn [bind]. rewrite (IH st' _ (out ++ o)), (IH st' _ ([] ++ o)).
    destruct (drain f m d k st' (dropN (can_consume m (blen buf - 16)) buf) []) as [[[o2 st2] r2]|e]; [|reflexivity].
    cbn [bind app]. rewrite app_assoc. reflexivity.
  Qed.

  (* more fuel than bytes in the buffer is always enough *)
  Lemma drain_fuel m d k : forall f f' st buf out,
    (length buf < f)%nat -> (length buf < f')%nat ->
    drain f m d k st buf out = drain f' m d k st buf out.
  Proof.
    induction f as [|f IH]; intros f' st buf out H1 H2; [lia|].
    destruct f' as [|f']; [lia|].
    cbn [AesModes.drain].
    destruct (16 <? blen buf) eqn:E16; [|reflexivity]. apply N.ltb_lt in E16.
    pose proof (can_consume_le m (blen buf - 16)) as Hc.
    destruct (can_consume m (blen buf - 16) =? 0) eqn:E0; [reflexivity|]. apply N.eqb_neq in E0.
    destruct (mode_crypt d m k st (takeN (can_consume m (blen buf - 16)) buf)) as [[o st']|e]; [|reflexivity].
    cbn [bind].
    assert (Hl : (length (dropN (can_consume m (blen buf - 16)) buf) < length buf)%nat).
    { rewrite dropN_length by lia. unfold blen in *. lia. }
    apply IH; lia.
  Qed.

  (* where drain stops, it stops again *)
  Definition stable (m : mode) (buf : bytes) : Prop :=
    (16 <? blen buf) = false \/ can_consume m (blen buf - 16) = 0.

  Lemma drain_stable m d k : forall fuel st buf out o st' r,
    drain fuel m d k st buf out = Ok (o, st', r) -> stable m r.
  Proof.
    induction fuel as [|f IH]; intros st buf out o st' r H; [discriminate|].
    cbn [AesModes.drain] in H.
    destruct (16 <? blen buf) eqn:E16; [|inversion H; subst; left; exact E16].
    destruct (can_consume m (blen buf - 16) =? 0) eqn:E0.
    - inversion H; subst. right. apply N.eqb_eq, E0.
    - destruct (mode_crypt d m k st (takeN (can_consume m (blen buf - 16)) buf)) as [[o1 st1]|e]; [|discriminate].
      cbn [bind] in H. exact (IH _ _ _ _ _ _ H).
  Qed.

  Lemma drain_of_stable m d k fuel st buf out : stable m buf ->
    drain (S fuel) m d k st buf out = Ok (out, st, buf).
  Proof.
    intros [H|H]; cbn [AesModes.drain].
    - rewrite H. reflexivity.
    - destruct (16 <? blen buf); [|reflexivity]. rewrite H. reflexivity.
  Qed.

  Definition drainF (m : mode) (d : direction) (k : bytes) (st : mstate) (buf : bytes) :=
    drain (S (length buf)) m d k st buf [].

  Lemma feed_some m d pad k st buf x :
    feed m d pad k (FD st (Some buf)) (Some x) =
    let* (out, st', rest) := drainF m d k st (buf ++ x) in Ok (out, FD st' (Some rest)).
  Proof. reflexivity. Qed.

  (* ---- generic part: resumable drain => chunking does not matter ------------------- *)
  Section Generic.
    Variable m : mode.
    Variable d : direction.
    Variable pad : padding.
    Variable k : bytes.
    Variable I : mstate -> Prop.
    Hypothesis resume : forall st buf b, I st ->
      drainF m d k st (buf ++ b) =
      let* (o1, st1, r1) := drainF m d k st buf in
      let* (o2, st2, r2) := drainF m d k st1 (r1 ++ b) in
      Ok (o1 ++ o2, st2, r2).
    Hypothesis preserved : forall st buf o st' r, I st -> drainF m d k st buf = Ok (o, st', r) -> I st'.

    Lemma feed_compose st buf a b : I st ->
      feed m d pad k (FD st (Some buf)) (Some (a ++ b)) =
      let* (o1, fo1) := feed m d pad k (FD st (Some buf)) (Some a) in
      let* (o2, fo2) := feed m d pad k fo1 (Some b) in
      Ok (o1 ++ o2, fo2).
    Proof.
      intro HI. rewrite !feed_some. rewrite app_assoc. rewrite (resume st (buf ++ a) b HI).
      destruct (drainF m d k st (buf ++ a)) as [[[o1 st1] r1]|e]; [|reflexivity].
      cbn [bind]. rewrite feed_some.
      destruct (drainF m d k st1 (r1 ++ b)) as [[[o2 st2] r2]|e]; reflexivity.
    Qed.

    Lemma feed_all_nil_chunk st buf : stable m buf ->
      feed_all m d pad k (FD st (Some buf)) [[]] = feed_all m d pad k (FD st (Some buf)) [].
    Proof.
      intro Hs. cbn [AesModes.feed_all]. rewrite feed_some, app_nil_r.
      unfold drainF. rewrite (drain_of_stable m d k _ st buf [] Hs). cbn [bind].
      destruct (feed m d pad k (FD st (Some buf)) None) as [[r fo]|e]; reflexivity.
    Qed.

    Theorem feed_all_split : forall chunks st buf, I st -> stable m buf ->
      feed_all m d pad k (FD st (Some buf)) chunks =
      feed_all m d pad k (FD st (Some buf)) [concat chunks].
    Proof.
      induction chunks as [|c cs IH]; intros st buf HI Hs.
      - cbn [concat]. symmetry. apply feed_all_nil_chunk, Hs.
      - change (concat (c :: cs)) with (c ++ concat cs). cbn [AesModes.feed_all].
        pose proof (feed_compose st buf c (concat cs) HI) as X.
        change (@Some (list byte)) with (@Some bytes) in X. rewrite X. clear X.
        rewrite feed_some.
        destruct (drainF m d k st (buf ++ c)) as [[[o1 st1] r1]|e] eqn:Ed; [|reflexivity].
        cbn [bind].
        assert (HI1 : I st1) by (exact (preserved _ _ _ _ _ HI Ed)).
        assert (Hs1 : stable m r1) by (exact (drain_stable _ _ _ _ _ _ _ _ _ _ Ed)).
        rewrite (IH st1 r1 HI1 Hs1). cbn [AesModes.feed_all].
        change (@Some (list byte)) with (@Some bytes).
        destruct (feed m d pad k (FD st1 (Some r1)) (@Some bytes (concat cs))) as [[o2 fo2]|e]; [|reflexivity].
        cbn [bind].
        destruct (feed m d pad k fo2 None) as [[r fo3]|e]; [|reflexivity].
        cbn [bind]. rewrite app_assoc. reflexivity.
    Qed.
  End Generic.

  (* ---- ECB and CBC: drain takes the same 16-byte steps whatever follows --------------- *)

  Definition is_block (m : mode) : Prop := m = ECB \/ m = CBC.

  Lemma block_can m n : is_block m -> can_consume m n = if 16 <=? n then 16 else 0.
  Proof. intros [->| ->]; reflexivity. Qed.

  Lemma block_resume_fuel m d k : is_block m -> forall f st buf b f1 f2,
    (length buf < f)%nat -> (length (buf ++ b) < f1)%nat -> (length (buf ++ b) < f2)%nat ->
    drain f1 m d k st (buf ++ b) [] =
    let* (o1, st1, r1) := drain f m d k st buf [] in
    let* (o2, st2, r2) := drain f2 m d k st1 (r1 ++ b) [] in
    Ok (o1 ++ o2, st2, r2).
  Proof.
    intro Hm. induction f as [|f IH]; intros st buf b f1 f2 H H1 H2; [lia|].
    cbn [AesModes.drain].
    assert (Stop : drain f1 m d k st (buf ++ b) [] =
                   let* (o2, st2, r2) := drain f2 m d k st (buf ++ b) [] in Ok ([] ++ o2, st2, r2)).
    { rewrite (drain_fuel m d k f1 f2) by assumption.
      destruct (drain f2 m d k st (buf ++ b) []) as [[[o2 st2] r2]|e]; reflexivity. }
    destruct (16 <? blen buf) eqn:E16; [|exact Stop]. apply N.ltb_lt in E16.
    rewrite (block_can m _ Hm).
    destruct (16 <=? blen buf - 16) eqn:E32; [|exact Stop]. apply N.leb_le in E32.
    change (16 =? 0) with false. cbv iota.
    destruct f1 as [|f1]; [lia|]. cbn [AesModes.drain].
    assert (Hb : blen (buf ++ b) = blen buf + blen b) by apply blen_app.
    replace (16 <? blen (buf ++ b)) with true by (symmetry; apply N.ltb_lt; lia).
    rewrite (block_can m _ Hm).
    replace (16 <=? blen (buf ++ b) - 16) with true by (symmetry; apply N.leb_le; lia).
    change (16 =? 0) with false. cbv iota.
    rewrite takeN_app_le by lia.
    destruct (mode_crypt d m k st (takeN 16 buf)) as [[o st']|e]; [|reflexivity].
    cbn [bind app].
    rewrite dropN_app_le by lia.
    assert (Hl : (length (dropN 16 buf) = length buf - 16)%nat) by (rewrite dropN_length by lia; reflexivity).
    rewrite (drain_out m d k f1 st' _ o), (drain_out m d k f st' _ o).
    rewrite (IH st' (dropN 16 buf) b f1 f2).
    2:{ unfold blen in *. lia. }
    2:{ rewrite app_length in *. unfold blen in *. lia. }
    2:{ rewrite app_length in *. unfold blen in *. lia. }
    destruct (drain f m d k st' (dropN 16 buf) []) as [[[o1 st1] r1]|e]; [|reflexivity].
    cbn [bind].
    destruct (drain f2 m d k st1 (r1 ++ b) []) as [[[o2 st2] r2]|e]; [|reflexivity].
    cbn [bind]. rewrite app_assoc. reflexivity.
  Qed.

  Lemma drain_rest_le m d k : forall fuel st buf out o st' r,
    drain fuel m d k st buf out = Ok (o, st', r) -> (length r <= length buf)%nat.
  Proof.
    induction fuel as [|f IH]; intros st buf out o st' r H; [discriminate|].
    cbn [AesModes.drain] in H.
    destruct (16 <? blen buf) eqn:E16; [|inversion H; subst; lia]. apply N.ltb_lt in E16.
    pose proof (can_consume_le m (blen buf - 16)) as Hc.
    destruct (can_consume m (blen buf - 16) =? 0) eqn:E0; [inversion H; subst; lia|].
    destruct (mode_crypt d m k st (takeN (can_consume m (blen buf - 16)) buf)) as [[o1 st1]|e]; [|discriminate].
    cbn [bind] in H. apply IH in H. rewrite dropN_length in H by lia. lia.
  Qed.

  Lemma block_resume m d k : is_block m -> forall st buf b,
    drainF m d k st (buf ++ b) =
    let* (o1, st1, r1) := drainF m d k st buf in
    let* (o2, st2, r2) := drainF m d k st1 (r1 ++ b) in
    Ok (o1 ++ o2, st2, r2).
  Proof.
    intros Hm st buf b. unfold drainF.
    rewrite (block_resume_fuel m d k Hm (S (length buf)) st buf b (S (length (buf ++ b))) (S (length (buf ++ b))))
      by lia.
    destruct (drain (S (length buf)) m d k st buf []) as [[[o1 st1] r1]|e] eqn:Ed; [|reflexivity].
    cbn [bind].
    pose proof (drain_rest_le _ _ _ _ _ _ _ _ _ _ Ed) as Hr.
    rewrite (drain_fuel m d k (S (length (buf ++ b))) (S (length (r1 ++ b)))); [reflexivity| |lia].
    rewrite !app_length. lia.
  Qed.

  Theorem block_feed_all_split m d pad k : is_block m -> forall chunks st,
    feed_all m d pad k (feeder_new st) chunks = feed_all m d pad k (feeder_new st) [concat chunks].
  Proof.
    intros Hm chunks st. unfold feeder_new.
    apply (feed_all_split m d pad k (fun _ => True)).
    - intros st0 buf b _. apply block_resume, Hm.
    - trivial.
    - trivial.
    - left. reflexivity.
  Qed.
End Feeder.

(* ---- the adapter: Encrypter(CBC, padding none) on zero-padded data = zero-padded CBC --- *)

Section Adapter.
  Variable E D : bytes -> bytes -> bytes.
  Hypothesis E_len : forall k b, length b = 16%nat -> length (E k b) = 16%nat.

  Lemma cbc_enc_nil f k prev : cbc_enc E f k prev [] = [].
  Proof. destruct f; reflexivity. Qed.
  Lemma cbc_dec_nil f k prev : cbc_dec D f k prev [] = [].
  Proof. destruct f; reflexivity. Qed.

  Lemma cbc_enc_fuel k : forall f1 f2 prev d, (length d <= f1)%nat -> (length d <= f2)%nat ->
    cbc_enc E f1 k prev d = cbc_enc E f2 k prev d.
  Proof.
    induction f1 as [|f1 IH]; intros f2 prev d H1 H2.
    - destruct d; [|cbn in H1; lia]. rewrite !cbc_enc_nil. reflexivity.
    - destruct d as [|x d']; [rewrite !cbc_enc_nil; reflexivity|].
      destruct f2 as [|f2]; [cbn in H2; lia|].
      cbn [cbc_enc]. f_equal. apply IH; rewrite skipn_length; cbn [length] in *; lia.
  Qed.
  Lemma cbc_dec_fuel k : forall f1 f2 prev d, (length d <= f1)%nat -> (length d <= f2)%nat ->
    cbc_dec D f1 k prev d = cbc_dec D f2 k prev d.
  Proof.
    induction f1 as [|f1 IH]; intros f2 prev d H1 H2.
    - destruct d; [|cbn in H1; lia]. rewrite !cbc_dec_nil. reflexivity.
    - destruct d as [|x d']; [rewrite !cbc_dec_nil; reflexivity|].
      destruct f2 as [|f2]; [cbn in H2; lia|].
      cbn [cbc_dec]. f_equal. apply IH; rewrite skipn_length; cbn [length] in *; lia.
  Qed.

  Lemma blen_16 (b : bytes) : length b = 16%nat -> (blen b =? 16) = true.
  Proof. intro H. apply N.eqb_eq. unfold blen. lia. Qed.

  Lemma cbc_none_enc k : forall m buf st out fuel,
    length buf = (16 * S m)%nat -> length (m_reg st) = 16%nat -> (length buf < fuel)%nat ->
    exists o st' rest r st'',
      drain E D fuel CBC Enc k st buf out = Ok (o, st', rest) /\
      final_encrypt E CBC PadNone k st' rest = Ok (r, st'') /\
      o ++ r = out ++ cbc_enc E (length buf) k (m_reg st) buf.
  Proof.
    induction m as [|m IH]; intros buf st out fuel Hl Hr Hf.
    - destruct fuel as [|f]; [lia|]. cbn [drain].
      replace (16 <? blen buf) with false by (symmetry; apply N.ltb_ge; unfold blen; lia).
      assert (Hx : length (xor_bytes buf (m_reg st)) = 16%nat) by (rewrite xor_bytes_length; lia).
      exists out, st, buf, (E k (xor_bytes buf (m_reg st))), (MS (E k (xor_bytes buf (m_reg st))) (m_rem st)).
      split; [reflexivity|]. split.
      + unfold final_encrypt. rewrite (blen_16 buf) by lia. cbn [negb bind].
        replace (blen buf =? 32) with false by (symmetry; apply N.eqb_neq; unfold blen; lia).
        unfold mode_encrypt. rewrite (blen_16 buf) by lia. cbn [negb].
        unfold blkE. rewrite (blen_16 _ Hx). reflexivity.
      + f_equal. destruct buf as [|x b']; [cbn in Hl; lia|].
        replace (length (x :: b')) with (S (length b')) by reflexivity.
        cbn [cbc_enc]. rewrite (firstn_all2 (n:=16)) by (cbn [length] in *; lia).
        rewrite (skipn_all2 (n:=16)) by (cbn [length] in *; lia).
        rewrite cbc_enc_nil, app_nil_r. reflexivity.
    - destruct fuel as [|f]; [lia|]. cbn [drain].
      replace (16 <? blen buf) with true by (symmetry; apply N.ltb_lt; unfold blen; lia).
      cbn [can_consume].
      replace (16 <=? blen buf - 16) with true by (symmetry; apply N.leb_le; unfold blen; lia).
      change (16 =? 0) with false. cbv iota.
      assert (Ht : length (takeN 16 buf) = 16%nat) by (rewrite takeN_length; unfold blen; lia).
      assert (Hx : length (xor_bytes (takeN 16 buf) (m_reg st)) = 16%nat) by (rewrite xor_bytes_length; lia).
      cbn [mode_crypt]. unfold mode_encrypt at 1. rewrite (blen_16 _ Ht). cbn [negb].
      unfold blkE. rewrite (blen_16 _ Hx). cbn [bind].
      set (c := E k (xor_bytes (takeN 16 buf) (m_reg st))).
      assert (Hc : length c = 16%nat) by (apply E_len, Hx).
      assert (Hd : length (dropN 16 buf) = (16 * S m)%nat) by (rewrite dropN_length; unfold blen; lia).
      destruct (IH (dropN 16 buf) (MS c (m_rem st)) (out ++ c) f Hd Hc ltac:(lia))
        as (o & st' & rest & r & st'' & H1 & H2 & H3).
      exists o, st', rest, r, st''. split; [exact H1|]. split; [exact H2|].
      rewrite H3. cbn [m_reg]. rewrite <- app_assoc. f_equal.
      destruct buf as [|x b']; [cbn in Hl; lia|].
      replace (length (x :: b')) with (S (length b')) by reflexivity.
      cbn [cbc_enc]. unfold c. rewrite !takeN_firstn, !dropN_skipn. change (N.to_nat 16) with 16%nat. f_equal.
      rewrite dropN_skipn in Hd. change (N.to_nat 16) with 16%nat in Hd.
      apply cbc_enc_fuel; [lia|]. rewrite Hd. cbn [length] in Hl. lia.
  Qed.

  Lemma cbc_none_dec k : forall m buf st out fuel,
    length buf = (16 * S m)%nat -> (length buf < fuel)%nat ->
    exists o st' rest r st'',
      drain E D fuel CBC Dec k st buf out = Ok (o, st', rest) /\
      final_decrypt E D CBC PadNone k st' rest = Ok (r, st'') /\
      o ++ r = out ++ cbc_dec D (length buf) k (m_reg st) buf.
  Proof.
    induction m as [|m IH]; intros buf st out fuel Hl Hf.
    - destruct fuel as [|f]; [lia|]. cbn [drain].
      replace (16 <? blen buf) with false by (symmetry; apply N.ltb_ge; unfold blen; lia).
      exists out, st, buf, (xor_bytes (D k buf) (m_reg st)), (MS buf (m_rem st)).
      split; [reflexivity|]. split.
      + unfold final_decrypt. rewrite (blen_16 buf) by lia. cbn [negb].
        unfold mode_decrypt. rewrite (blen_16 buf) by lia. cbn [negb].
        unfold blkD. rewrite (blen_16 buf) by lia. reflexivity.
      + f_equal. destruct buf as [|x b']; [cbn in Hl; lia|].
        replace (length (x :: b')) with (S (length b')) by reflexivity.
        cbn [cbc_dec]. rewrite (firstn_all2 (n:=16)) by (cbn [length] in *; lia).
        rewrite (skipn_all2 (n:=16)) by (cbn [length] in *; lia).
        rewrite cbc_dec_nil, app_nil_r. reflexivity.
    - destruct fuel as [|f]; [lia|]. cbn [drain].
      replace (16 <? blen buf) with true by (symmetry; apply N.ltb_lt; unfold blen; lia).
      cbn [can_consume].
      replace (16 <=? blen buf - 16) with true by (symmetry; apply N.leb_le; unfold blen; lia).
      change (16 =? 0) with false. cbv iota.
      assert (Ht : length (takeN 16 buf) = 16%nat) by (rewrite takeN_length; unfold blen; lia).
      cbn [mode_crypt]. unfold mode_decrypt at 1. rewrite (blen_16 _ Ht). cbn [negb].
      unfold blkD. rewrite (blen_16 _ Ht). cbn [bind].
      assert (Hd : length (dropN 16 buf) = (16 * S m)%nat) by (rewrite dropN_length; unfold blen; lia).
      destruct (IH (dropN 16 buf) (MS (takeN 16 buf) (m_rem st))
                   (out ++ xor_bytes (D k (takeN 16 buf)) (m_reg st)) f Hd ltac:(lia))
        as (o & st' & rest & r & st'' & H1 & H2 & H3).
      exists o, st', rest, r, st''. split; [exact H1|]. split; [exact H2|].
      rewrite H3. cbn [m_reg]. rewrite <- app_assoc. f_equal.
      destruct buf as [|x b']; [cbn in Hl; lia|].
      replace (length (x :: b')) with (S (length b')) by reflexivity.
      cbn [cbc_dec]. rewrite !takeN_firstn, !dropN_skipn. change (N.to_nat 16) with 16%nat. f_equal.
      rewrite dropN_skipn in Hd. change (N.to_nat 16) with 16%nat in Hd.
      apply cbc_dec_fuel; [lia|]. rewrite Hd. cbn [length] in Hl. lia.
  Qed.

  Lemma aligned_blocks (p : bytes) : p <> [] -> blen p mod 16 = 0 -> exists m, length p = (16 * S m)%nat.
  Proof.
    intros Hne Hm.
    pose proof (N.div_mod (blen p) 16 ltac:(lia)) as Hd. rewrite Hm in Hd.
    assert (Hp : 0 < blen p) by (destruct p; [contradiction|rewrite blen_cons; lia]).
    exists (N.to_nat (blen p / 16) - 1)%nat. unfold blen in *. lia.
  Qed.

  (* AES128Proxy.encrypt: exactly the zero-padded CBC of Model/Cbc.v, errors included *)
  Theorem proxy_encrypt_eq k iv d : proxy_encrypt E D k iv d = adapter_encrypt E k iv d.
  Proof.
    destruct (list_eq_dec Byte.byte_eq_dec d []) as [->|Hne]; [reflexivity|].
    rewrite (adapter_encrypt_ne E k iv d Hne).
    replace (proxy_encrypt E D k iv d) with
      (let* st := mode_init CBC k iv 0 in
       let* (c1, fo1) := feed E D CBC Enc PadNone k (feeder_new st)
                              (Some (d ++ zeros (N.to_nat ((16 - blen d mod 16) mod 16)))) in
       let* (c2, _) := feed E D CBC Enc PadNone k fo1 None in Ok (c1 ++ c2))
      by (destruct d; [contradiction|reflexivity]).
    unfold mode_init.
    destruct (blen (the_iv iv) =? 16) eqn:Ei; cbn [negb]; [|destruct (key_ok k); reflexivity].
    destruct (key_ok k) eqn:Ek; cbn [negb bind]; [|reflexivity].
    fold (zero_pad d).
    destruct (zero_pad_len d) as [Hm Hle].
    assert (Hpne : zero_pad d <> []) by (unfold zero_pad; destruct d; [contradiction|discriminate]).
    destruct (aligned_blocks _ Hpne Hm) as [m Hl].
    unfold feeder_new. rewrite feed_some. unfold drainF. cbn [app].
    assert (Hiv : length (the_iv iv) = 16%nat) by (apply N.eqb_eq in Ei; unfold blen in Ei; lia).
    destruct (cbc_none_enc k m (zero_pad d) (MS (the_iv iv) []) [] (S (length (zero_pad d))) Hl Hiv ltac:(lia))
      as (o & st' & rest & r & st'' & H1 & H2 & H3).
    rewrite H1. cbn [bind]. cbn [feed f_buf f_st final_crypt]. rewrite H2. cbn [bind].
    rewrite H3. reflexivity.
  Qed.

  Theorem proxy_decrypt_eq k iv d : proxy_decrypt E D k iv d = adapter_decrypt D k iv d.
  Proof.
    unfold proxy_decrypt, adapter_decrypt.
    destruct (blen d mod 16 =? 0) eqn:Em; cbn [negb]; [|reflexivity]. apply N.eqb_eq in Em.
    destruct (list_eq_dec Byte.byte_eq_dec d []) as [->|Hne]; [reflexivity|].
    replace (match d with [] => Ok [] | _ :: _ =>
               if negb (key_ok k) then Err EValue
               else if negb (blen (the_iv iv) =? 16) then Err EValue
               else Ok (cbc_dec D (length d) k (the_iv iv) d) end)
      with (if negb (key_ok k) then @Err bytes EValue
            else if negb (blen (the_iv iv) =? 16) then Err EValue
            else Ok (cbc_dec D (length d) k (the_iv iv) d))
      by (destruct d; [contradiction|reflexivity]).
    replace (match d with [] => Ok [] | _ :: _ =>
               let* st := mode_init CBC k iv 0 in
               let* (p1, fo1) := feed E D CBC Dec PadNone k (feeder_new st) (Some d) in
               let* (p2, _) := feed E D CBC Dec PadNone k fo1 None in Ok (p1 ++ p2) end)
      with (let* st := mode_init CBC k iv 0 in
            let* (p1, fo1) := feed E D CBC Dec PadNone k (feeder_new st) (Some d) in
            let* (p2, _) := feed E D CBC Dec PadNone k fo1 None in Ok (p1 ++ p2))
      by (destruct d; [contradiction|reflexivity]).
    unfold mode_init.
    destruct (blen (the_iv iv) =? 16) eqn:Ei; cbn [negb]; [|destruct (key_ok k); reflexivity].
    destruct (key_ok k) eqn:Ek; cbn [negb bind]; [|reflexivity].
    destruct (aligned_blocks _ Hne Em) as [m Hl].
    unfold feeder_new. rewrite feed_some. unfold drainF. cbn [app].
    destruct (cbc_none_dec k m d (MS (the_iv iv) []) [] (S (length d)) Hl ltac:(lia))
      as (o & st' & rest & r & st'' & H1 & H2 & H3).
    rewrite H1. cbn [bind]. cbn [feed f_buf f_st final_crypt]. rewrite H2. cbn [bind].
    rewrite H3. reflexivity.
  Qed.

  Theorem proxy_mac_eq k iv d : proxy_mac E D k iv d = adapter_mac E k iv d.
  Proof. unfold proxy_mac, adapter_mac. rewrite proxy_encrypt_eq. reflexivity. Qed.
End Adapter.

(* ---- Counter: +1 modulo 2^(8 * length) on the big-endian value ---------------------------- *)

Lemma from_be_snoc b x : from_be (b ++ [x]) = from_be b * 256 + b2n x.
Proof. rewrite from_be_app. change (blen [x]) with 1. change (256 ^ 1) with 256. reflexivity. Qed.

Lemma from_be_zeros n : from_be (zeros n) = 0.
Proof.
  induction n as [|n IH]; [reflexivity|].
  replace (zeros (S n)) with (zeros n ++ [x00]).
  - rewrite from_be_snoc, IH. reflexivity.
  - unfold zeros. change [x00] with (repeat x00 1). rewrite <- repeat_app. f_equal. lia.
Qed.

Lemma incr_lsb_spec : forall l r c, incr_lsb l = (r, c) ->
  length r = length l /\
  from_be (rev r) + (if c then 256 ^ blen l else 0) = from_be (rev l) + 1.
Proof.
  induction l as [|x l IH]; intros r c H.
  - inversion H; subst. split; reflexivity.
  - cbn [incr_lsb] in H. cbn [rev]. rewrite from_be_snoc, blen_cons.
    destruct (b2n x + 1 <? 256) eqn:Ex.
    + apply N.ltb_lt in Ex. inversion H; subst. split; [reflexivity|].
      cbn [rev]. rewrite from_be_snoc, b2n_n2b_small by exact Ex. lia.
    + apply N.ltb_ge in Ex. pose proof (b2n_lt x) as Hx.
      destruct (incr_lsb l) as [r' c'] eqn:El. inversion H; subst.
      destruct (IH r' c eq_refl) as [Hl Hv]. split; [cbn [length]; lia|].
      cbn [rev]. rewrite from_be_snoc. change (b2n x00) with 0.
      replace (256 ^ (1 + blen l)) with (256 * 256 ^ blen l) by (rewrite N.pow_add_r; reflexivity).
      destruct c; nia.
Qed.

Theorem counter_increment_spec c :
  length (counter_increment c) = length c /\
  from_be (counter_increment c) = (from_be c + 1) mod 256 ^ blen c.
Proof.
  unfold counter_increment. destruct (incr_lsb (rev c)) as [r carry] eqn:E.
  destruct (incr_lsb_spec _ _ _ E) as [Hl Hv]. rewrite rev_involutive in Hv.
  assert (Hb : blen (rev c) = blen c) by (unfold blen; rewrite rev_length; reflexivity).
  rewrite Hb in Hv. rewrite rev_length in Hl.
  pose proof (from_be_lt c) as Hc. pose proof (from_be_lt (rev r)) as Hr.
  assert (Hbr : blen (rev r) = blen c) by (unfold blen; rewrite rev_length, Hl; reflexivity).
  rewrite Hbr in Hr.
  destruct carry.
  - split; [apply zeros_length|]. rewrite from_be_zeros.
    assert (from_be c + 1 = 256 ^ blen c) by lia.
    rewrite H. symmetry. apply N.mod_same. apply N.pow_nonzero. lia.
  - split; [rewrite rev_length; exact Hl|].
    rewrite N.add_0_r in Hv. rewrite Hv. symmetry. apply N.mod_small. lia.
Qed.

(* Counter(v) and increment() in terms of the counter blocks T_j of SP 800-38A appendix B.1 *)
Theorem counter_block_spec v :
  counter_init v = AesSpec.ctr_block v /\ counter_increment (AesSpec.ctr_block v) = AesSpec.ctr_block (v + 1).
Proof.
  assert (Hbe : forall a, be 16 a = be 16 (a mod 2 ^ 128)).
  { intro a. rewrite <- (be_from_be (be 16 a)). rewrite be_length, from_be_be.
    change (256 ^ N.of_nat 16) with (2 ^ 128). reflexivity. }
  split; [apply Hbe|].
  unfold AesSpec.ctr_block.
  destruct (counter_increment_spec (be 16 (v mod 2 ^ 128))) as [Hl Hv].
  rewrite be_length in Hl.
  rewrite <- (be_from_be (counter_increment (be 16 (v mod 2 ^ 128)))), Hl, Hv.
  rewrite be_blen, from_be_be. change (256 ^ N.of_nat 16) with (2 ^ 128).
  rewrite N.mod_mod by discriminate. f_equal.
  rewrite N.add_mod_idemp_l by discriminate. reflexivity.
Qed.

(* ---- crypto.pad (generated pad_length) is zero_pad ---------------------------------------- *)

Lemma pad_length_eq (n : N) : Z.to_nat (pad_length (Z.of_N n)) = N.to_nat ((16 - n mod 16) mod 16).
Proof.
  unfold pad_length.
  pose proof (N.mod_lt n 16 ltac:(lia)) as Hr. pose proof (N.div_mod n 16 ltac:(lia)) as Hd.
  set (q := n / 16) in *. set (r := n mod 16) in *.
  assert (Hz : ((- Z.of_N n) mod 16 = Z.of_N ((16 - r) mod 16))%Z).
  { rewrite Hd. replace (- Z.of_N (16 * q + r))%Z with (- Z.of_N r + (- Z.of_N q) * 16)%Z by lia.
    rewrite Z.mod_add by lia.
    destruct (N.eq_dec r 0) as [->|Hn].
    - reflexivity.
    - rewrite (N.mod_small (16 - r)) by lia.
      symmetry. apply (Z.mod_unique _ _ (-1)%Z); lia. }
  rewrite Hz, <- N_nat_Z, Nat2Z.id. reflexivity.
Qed.

Theorem crypto_pad_eq d : crypto_pad d = zero_pad d.
Proof. unfold crypto_pad, zero_pad. rewrite pad_length_eq. reflexivity. Qed.

(* ---- CFB, OFB, CTR: drain hands all whole units (segments / bytes) beyond the 16 kept back
   to the mode in one call; resumable because the mode functions are homomorphic on
   unit-aligned concatenations ---------------------------------------------------------------- *)

Lemma takeN_add {A} a b (l : list A) : takeN (a + b) l = takeN a l ++ takeN b (dropN a l).
Proof.
  rewrite !takeN_firstn, dropN_skipn, N2Nat.inj_add.
  revert l. induction (N.to_nat a) as [|n IH]; intro l; [reflexivity|].
  destruct l as [|x l]; [cbn; rewrite firstn_nil; reflexivity|].
  cbn [Nat.add firstn skipn app]. f_equal. apply IH.
Qed.
Lemma dropN_add {A} a b (l : list A) : dropN (a + b) l = dropN b (dropN a l).
Proof.
  rewrite !dropN_skipn, N2Nat.inj_add.
  revert l. induction (N.to_nat a) as [|n IH]; intro l; [reflexivity|].
  destruct l as [|x l]; [cbn; rewrite skipn_nil; reflexivity|].
  cbn [Nat.add skipn]. apply IH.
Qed.
Lemma takeN_blen_le {A} n (l : list A) : n <= blen l -> blen (takeN n l) = n.
Proof. intro H. rewrite takeN_blen. lia. Qed.
Lemma dropN_blen_le {A} n (l : list A) : n <= blen l -> blen (dropN n l) = blen l - n.
Proof. intro H. rewrite dropN_blen. lia. Qed.

Section Units.
  Variable E D : bytes -> bytes -> bytes.

  Definition unit_of (m : mode) : N := match m with CFB s => seg_of s | _ => 1 end.
  Definition is_unit (m : mode) : Prop := match m with ECB | CBC => False | _ => True end.

  Lemma seg_of_pos s : 0 < seg_of s.
  Proof. unfold seg_of. destruct (s =? 0) eqn:H; [lia|apply N.eqb_neq in H; lia]. Qed.
  Lemma unit_pos m : 0 < unit_of m.
  Proof. destruct m; cbn [unit_of]; try lia. apply seg_of_pos. Qed.
  Lemma unit_can m n : is_unit m -> can_consume m n = unit_of m * (n / unit_of m).
  Proof.
    destruct m; cbn [is_unit can_consume unit_of]; intro H; try contradiction; try reflexivity;
      rewrite N.div_1_r; lia.
  Qed.

  Lemma drainF_unit m d k st buf : is_unit m ->
    drainF E D m d k st buf =
    if 16 <? blen buf then
      let c := unit_of m * ((blen buf - 16) / unit_of m) in
      if c =? 0 then Ok ([], st, buf)
      else let* (o, st') := mode_crypt E D d m k st (takeN c buf) in Ok (o, st', dropN c buf)
    else Ok ([], st, buf).
  Proof.
    intro Hm. unfold drainF. cbn [drain]. pose proof (unit_pos m) as Hu.
    destruct (16 <? blen buf) eqn:E16; [|reflexivity]. apply N.ltb_lt in E16.
    rewrite (unit_can m _ Hm). cbv zeta.
    set (u := unit_of m) in *. set (c := u * ((blen buf - 16) / u)).
    destruct (c =? 0) eqn:E0; [reflexivity|]. apply N.eqb_neq in E0.
    destruct (mode_crypt E D d m k st (takeN c buf)) as [[o st']|e]; [|reflexivity].
    cbn [bind app].
    assert (Hc : c <= blen buf - 16) by (apply N.mul_div_le; lia).
    destruct (length buf) as [|f] eqn:El; [unfold blen in E16; rewrite El in E16; lia|].
    rewrite (drain_of_stable E D m d k f st' (dropN c buf) o); [reflexivity|].
    right. rewrite (unit_can m _ Hm). fold u.
    rewrite dropN_blen_le by lia.
    replace (blen buf - c - 16) with ((blen buf - 16) mod u).
    - rewrite N.div_small by (apply N.mod_lt; lia). lia.
    - pose proof (N.div_mod (blen buf - 16) u ltac:(lia)) as Hd. fold c in Hd. lia.
  Qed.

  Section UnitResume.
    Variable m : mode.
    Variable d : direction.
    Variable k : bytes.
    Variable I : mstate -> Prop.
    Hypothesis Hm : is_unit m.
    Hypothesis hom : forall st x1 x2, I st ->
      blen x1 mod unit_of m = 0 -> blen x2 mod unit_of m = 0 ->
      mode_crypt E D d m k st (x1 ++ x2) =
      let* (o1, st1) := mode_crypt E D d m k st x1 in
      let* (o2, st2) := mode_crypt E D d m k st1 x2 in
      Ok (o1 ++ o2, st2).

    Lemma unit_resume st buf b : I st ->
      drainF E D m d k st (buf ++ b) =
      let* (o1, st1, r1) := drainF E D m d k st buf in
      let* (o2, st2, r2) := drainF E D m d k st1 (r1 ++ b) in
      Ok (o1 ++ o2, st2, r2).
    Proof.
      intro HI. pose proof (unit_pos m) as Hu. set (u := unit_of m) in *.
      assert (Noop : drainF E D m d k st (buf ++ b) =
                     let* (o2, st2, r2) := drainF E D m d k st (buf ++ b) in Ok ([] ++ o2, st2, r2)).
      { destruct (drainF E D m d k st (buf ++ b)) as [[[o2 st2] r2]|e]; reflexivity. }
      rewrite (drainF_unit m d k st buf Hm).
      destruct (16 <? blen buf) eqn:E16; [|exact Noop]. apply N.ltb_lt in E16.
      cbv zeta. fold u. set (a := blen buf - 16). set (c1 := u * (a / u)).
      destruct (c1 =? 0) eqn:E1; [exact Noop|]. apply N.eqb_neq in E1.
      assert (Hc1 : c1 <= a) by (apply N.mul_div_le; lia).
      pose proof (N.div_mod a u ltac:(lia)) as Hda. fold c1 in Hda.
      pose proof (N.mod_lt a u ltac:(lia)) as Hrho. set (rho := a mod u) in *.
      set (c2 := u * ((rho + blen b) / u)).
      assert (Hc : u * ((blen (buf ++ b) - 16) / u) = c1 + c2).
      { rewrite blen_app. replace (blen buf + blen b - 16) with (a / u * u + (rho + blen b)) by lia.
        rewrite N.div_add_l by lia. unfold c1, c2. lia. }
      assert (Hc2 : c2 <= rho + blen b) by (apply N.mul_div_le; lia).
      (* left-hand side *)
      rewrite (drainF_unit m d k st (buf ++ b) Hm). fold u.
      replace (16 <? blen (buf ++ b)) with true by (symmetry; apply N.ltb_lt; rewrite blen_app; lia).
      cbv zeta. rewrite Hc.
      replace (c1 + c2 =? 0) with false by (symmetry; apply N.eqb_neq; lia).
      assert (Hr1 : blen (dropN c1 buf) = 16 + rho) by (rewrite dropN_blen_le by lia; lia).
      destruct (c2 =? 0) eqn:E2.
      - (* nothing more to hand over after the chunk b *)
        apply N.eqb_eq in E2. rewrite E2, N.add_0_r.
        rewrite takeN_app_le, dropN_app_le by lia.
        destruct (mode_crypt E D d m k st (takeN c1 buf)) as [[o1 st1]|e]; [|reflexivity].
        cbn [bind]. rewrite (drainF_unit m d k st1 (dropN c1 buf ++ b) Hm). fold u.
        replace (u * ((blen (dropN c1 buf ++ b) - 16) / u)) with c2
          by (rewrite blen_app, Hr1; unfold c2; f_equal; f_equal; lia).
        rewrite E2. cbn [N.eqb].
        destruct (16 <? blen (dropN c1 buf ++ b)); cbn [bind]; rewrite app_nil_r; reflexivity.
      - apply N.eqb_neq in E2.
        rewrite takeN_add, dropN_add, (takeN_app_le c1), (dropN_app_le c1) by lia.
        rewrite (hom st (takeN c1 buf) (takeN c2 (dropN c1 buf ++ b)) HI).
        2:{ rewrite takeN_blen_le by lia. unfold c1. rewrite N.mul_comm. apply N.mod_mul. lia. }
        2:{ rewrite takeN_blen_le by (rewrite blen_app, Hr1; lia).
            unfold c2. rewrite N.mul_comm. apply N.mod_mul. lia. }
        destruct (mode_crypt E D d m k st (takeN c1 buf)) as [[o1 st1]|e]; [|reflexivity].
        cbn [bind]. rewrite (drainF_unit m d k st1 (dropN c1 buf ++ b) Hm). fold u.
        replace (u * ((blen (dropN c1 buf ++ b) - 16) / u)) with c2
          by (rewrite blen_app, Hr1; unfold c2; f_equal; f_equal; lia).
        replace (16 <? blen (dropN c1 buf ++ b)) with true
          by (symmetry; apply N.ltb_lt; rewrite blen_app, Hr1; lia).
        cbv zeta. replace (c2 =? 0) with false by (symmetry; apply N.eqb_neq; lia).
        destruct (mode_crypt E D d m k st1 (takeN c2 (dropN c1 buf ++ b))) as [[o2 st2]|e]; reflexivity.
    Qed.
  End UnitResume.

  (* ---- OFB: a byte-by-byte left-to-right loop ------------------------------------------------ *)

  Lemma ofb_acc k : forall data reg rem acc,
    ofb_loop E k reg rem data acc =
    let* (o, reg', rem') := ofb_loop E k reg rem data [] in Ok (acc ++ o, reg', rem').
  Proof.
    induction data as [|p data IH]; intros reg rem acc.
    - cbn. rewrite app_nil_r. reflexivity.
    - cbn [ofb_loop].
      destruct (match rem with
                | [] => let* o := blkE E k reg in Ok ([], o)
                | _ :: _ => Ok (reg, rem)
                end) as [[reg1 rem1]|e]; [|reflexivity].
      cbn [bind]. destruct rem1 as [|x rem2]; [reflexivity|].
      rewrite (IH _ _ (acc ++ [xor_byte p x])), (IH _ _ ([] ++ [xor_byte p x])).
      destruct (ofb_loop E k (reg1 ++ [x]) rem2 data []) as [[[o r1] r2]|e]; [|reflexivity].
      cbn [bind app]. rewrite <- app_assoc. reflexivity.
  Qed.

  Lemma ofb_app k : forall a b reg rem,
    ofb_loop E k reg rem (a ++ b) [] =
    let* (o1, reg1, rem1) := ofb_loop E k reg rem a [] in
    let* (o2, reg2, rem2) := ofb_loop E k reg1 rem1 b [] in
    Ok (o1 ++ o2, reg2, rem2).
  Proof.
    induction a as [|p a IH]; intros b reg rem.
    - cbn [app ofb_loop bind]. destruct (ofb_loop E k reg rem b []) as [[[o r1] r2]|e]; reflexivity.
    - cbn [app ofb_loop].
      destruct (match rem with
                | [] => let* o := blkE E k reg in Ok ([], o)
                | _ :: _ => Ok (reg, rem)
                end) as [[reg1 rem1]|e]; [|reflexivity].
      cbn [bind]. destruct rem1 as [|x rem2]; [reflexivity|].
      rewrite (ofb_acc k (a ++ b)), (ofb_acc k a), IH.
      destruct (ofb_loop E k (reg1 ++ [x]) rem2 a []) as [[[o1 r1] r2]|e]; [|reflexivity].
      cbn [bind].
      destruct (ofb_loop E k r1 r2 b []) as [[[o2 r3] r4]|e]; [|reflexivity].
      cbn [bind app]. reflexivity.
  Qed.

  Lemma ofb_hom d k st x1 x2 :
    mode_crypt E D d OFB k st (x1 ++ x2) =
    let* (o1, st1) := mode_crypt E D d OFB k st x1 in
    let* (o2, st2) := mode_crypt E D d OFB k st1 x2 in
    Ok (o1 ++ o2, st2).
  Proof.
    assert (H : mode_encrypt E OFB k st (x1 ++ x2) =
                let* (o1, st1) := mode_encrypt E OFB k st x1 in
                let* (o2, st2) := mode_encrypt E OFB k st1 x2 in Ok (o1 ++ o2, st2)).
    { cbn [mode_encrypt]. rewrite ofb_app.
      destruct (ofb_loop E k (m_reg st) (m_rem st) x1 []) as [[[o1 r1] r2]|e]; [|reflexivity].
      cbn [bind m_reg m_rem].
      destruct (ofb_loop E k r1 r2 x2 []) as [[[o2 r3] r4]|e]; reflexivity. }
    destruct d; exact H.
  Qed.

  (* ---- CFB: one segment per iteration ------------------------------------------------------------ *)

  Lemma cfb_acc fb seg k : forall f reg data acc,
    cfb_loop E f fb seg k reg data acc =
    let* (o, reg') := cfb_loop E f fb seg k reg data [] in Ok (acc ++ o, reg').
  Proof.
    induction f as [|f IH]; intros reg data acc; [reflexivity|].
    cbn [cfb_loop]. destruct data as [|y data']; [cbn; rewrite app_nil_r; reflexivity|].
    destruct (blkE E k reg) as [o|e]; [|reflexivity]. cbn [bind].
    set (inseg := takeN seg (y :: data')).
    set (outseg := xor_bytes inseg (takeN (blen inseg) o)).
    rewrite (IH _ _ (acc ++ outseg)), (IH _ _ ([] ++ outseg)).
    destruct (cfb_loop E f fb seg k _ (dropN seg (y :: data')) []) as [[o2 r2]|e]; [|reflexivity].
    cbn [bind app]. rewrite <- app_assoc. reflexivity.
  Qed.

  Lemma cfb_fuel fb seg k : 0 < seg -> forall f f' reg data acc,
    (length data < f)%nat -> (length data < f')%nat ->
    cfb_loop E f fb seg k reg data acc = cfb_loop E f' fb seg k reg data acc.
  Proof.
    intro Hs. induction f as [|f IH]; intros f' reg data acc H1 H2; [lia|].
    destruct f' as [|f']; [lia|].
    cbn [cfb_loop]. destruct data as [|y data']; [reflexivity|].
    destruct (blkE E k reg) as [o|e]; [|reflexivity]. cbn [bind].
    assert (Hl : (length (dropN seg (y :: data')) < length (y :: data'))%nat).
    { rewrite dropN_skipn, skipn_length. cbn [length]. lia. }
    apply IH; lia.
  Qed.

  Lemma mod_sub_unit a u : 0 < u -> a mod u = 0 -> 0 < a -> u <= a /\ (a - u) mod u = 0.
  Proof.
    intros Hu Hm Ha. pose proof (N.div_mod a u ltac:(lia)) as Hd. rewrite Hm in Hd.
    assert (Hq : 0 < a / u) by (destruct (a / u); lia).
    split; [nia|].
    replace (a - u) with ((a / u - 1) * u) by nia. apply N.mod_mul. lia.
  Qed.

  Lemma cfb_app fb seg k : 0 < seg -> forall f1 x1 x2 reg f f2,
    blen x1 mod seg = 0 ->
    (length x1 < f1)%nat -> (length (x1 ++ x2) < f)%nat -> (length x2 < f2)%nat ->
    cfb_loop E f fb seg k reg (x1 ++ x2) [] =
    let* (o1, reg1) := cfb_loop E f1 fb seg k reg x1 [] in
    let* (o2, reg2) := cfb_loop E f2 fb seg k reg1 x2 [] in
    Ok (o1 ++ o2, reg2).
  Proof.
    intro Hs. induction f1 as [|f1 IH]; intros x1 x2 reg f f2 Hm H1 H H2; [lia|].
    destruct x1 as [|y x1'].
    - cbn [app cfb_loop bind]. rewrite (cfb_fuel fb seg k Hs f f2) by (cbn [app] in H; lia).
      destruct (cfb_loop E f2 fb seg k reg x2 []) as [[o2 r2]|e]; reflexivity.
    - destruct f as [|f]; [lia|].
      assert (Hpos : 0 < blen (y :: x1')) by (rewrite blen_cons; lia).
      destruct (mod_sub_unit _ _ Hs Hm Hpos) as [Hge Hm'].
      cbn [cfb_loop]. change ((y :: x1') ++ x2) with (y :: (x1' ++ x2)).
      destruct (blkE E k reg) as [o|e]; [|reflexivity]. cbn [bind].
      change (y :: (x1' ++ x2)) with ((y :: x1') ++ x2).
      rewrite (takeN_app_le seg (y :: x1') x2 Hge), (dropN_app_le seg (y :: x1') x2 Hge).
      set (inseg := takeN seg (y :: x1')).
      set (outseg := xor_bytes inseg (takeN (blen inseg) o)).
      set (reg' := dropN (blen (if fb then outseg else inseg)) reg ++ (if fb then outseg else inseg)).
      rewrite (cfb_acc fb seg k f reg' _ ([] ++ outseg)), (cfb_acc fb seg k f1 reg' _ ([] ++ outseg)).
      assert (Hl : length (dropN seg (y :: x1')) = (length (y :: x1') - N.to_nat seg)%nat)
        by (apply dropN_length; exact Hge).
      rewrite (IH (dropN seg (y :: x1')) x2 reg' f f2).
      2:{ rewrite dropN_blen_le by exact Hge. exact Hm'. }
      2:{ cbn [length] in *. lia. }
      2:{ rewrite !app_length in *. cbn [length] in *. lia. }
      2:{ exact H2. }
      destruct (cfb_loop E f1 fb seg k reg' (dropN seg (y :: x1')) []) as [[o1 r1]|e]; [|reflexivity].
      cbn [bind].
      destruct (cfb_loop E f2 fb seg k r1 x2 []) as [[o2 r2]|e]; [|reflexivity].
      cbn [bind app]. rewrite app_assoc. reflexivity.
  Qed.

  Lemma cfb_hom d s k st x1 x2 :
    blen x1 mod seg_of s = 0 -> blen x2 mod seg_of s = 0 ->
    mode_crypt E D d (CFB s) k st (x1 ++ x2) =
    let* (o1, st1) := mode_crypt E D d (CFB s) k st x1 in
    let* (o2, st2) := mode_crypt E D d (CFB s) k st1 x2 in
    Ok (o1 ++ o2, st2).
  Proof.
    intros H1 H2. pose proof (seg_of_pos s) as Hs.
    assert (H12 : blen (x1 ++ x2) mod seg_of s = 0).
    { rewrite blen_app, N.add_mod, H1, H2 by lia. apply N.mod_0_l. lia. }
    destruct d; cbn [mode_crypt mode_encrypt mode_decrypt]; rewrite H1, H12; cbn [N.eqb negb].
    - rewrite (cfb_app true (seg_of s) k Hs (S (length x1)) x1 x2 (m_reg st) _ (S (length x2)) H1) by lia.
      destruct (cfb_loop E (S (length x1)) true (seg_of s) k (m_reg st) x1 []) as [[o1 r1]|e]; [|reflexivity].
      cbn [bind m_reg m_rem]. rewrite H2. cbn [N.eqb negb].
      destruct (cfb_loop E (S (length x2)) true (seg_of s) k r1 x2 []) as [[o2 r2]|e]; reflexivity.
    - rewrite (cfb_app false (seg_of s) k Hs (S (length x1)) x1 x2 (m_reg st) _ (S (length x2)) H1) by lia.
      destruct (cfb_loop E (S (length x1)) false (seg_of s) k (m_reg st) x1 []) as [[o1 r1]|e]; [|reflexivity].
      cbn [bind m_reg m_rem]. rewrite H2. cbn [N.eqb negb].
      destruct (cfb_loop E (S (length x2)) false (seg_of s) k r1 x2 []) as [[o2 r2]|e]; reflexivity.
  Qed.

  (* ---- CTR: key stream refilled block by block ------------------------------------------------- *)

  Lemma xor_bytes_app : forall a p b q, length a = length p ->
    xor_bytes (a ++ b) (p ++ q) = xor_bytes a p ++ xor_bytes b q.
  Proof.
    induction a as [|x a IH]; intros [|y p] b q H; cbn in H; try lia; [reflexivity|].
    cbn [app xor_bytes]. f_equal. apply IH. lia.
  Qed.
  Lemma xor_bytes_nil_r a : xor_bytes a [] = [].
  Proof. destruct a; reflexivity. Qed.
  Lemma xor_bytes_app_r a p q : length a = length p -> xor_bytes a (p ++ q) = xor_bytes a p.
  Proof.
    intro H. rewrite <- (app_nil_r a) at 1. rewrite xor_bytes_app by exact H.
    cbn [xor_bytes]. apply app_nil_r.
  Qed.
  Lemma xor_bytes_len_le : forall a b, (length a <= length b)%nat -> length (xor_bytes a b) = length a.
  Proof.
    induction a as [|x a IH]; intros [|y b] H; cbn in *; try lia. rewrite IH by lia. reflexivity.
  Qed.

  Lemma counter_increment_length c : length (counter_increment c) = length c.
  Proof. apply counter_increment_spec. Qed.

  Lemma ctr_fill_len k : forall f ctr rem need c r,
    ctr_fill E f k ctr rem need = Ok (c, r) -> length c = length ctr.
  Proof.
    induction f as [|f IH]; intros ctr rem need c r H; [discriminate|].
    cbn [ctr_fill] in H. destruct (blen rem <? need).
    - destruct (blkE E k ctr) as [o|e]; [|discriminate]. cbn [bind] in H.
      rewrite (IH _ _ _ _ _ H). apply counter_increment_length.
    - inversion H; subst. reflexivity.
  Qed.
  Lemma ctr_fill_ge k : forall f ctr rem need c r,
    ctr_fill E f k ctr rem need = Ok (c, r) -> need <= blen r.
  Proof.
    induction f as [|f IH]; intros ctr rem need c r H; [discriminate|].
    cbn [ctr_fill] in H. destruct (blen rem <? need) eqn:El.
    - destruct (blkE E k ctr) as [o|e]; [|discriminate]. cbn [bind] in H. exact (IH _ _ _ _ _ H).
    - inversion H; subst. apply N.ltb_ge in El. exact El.
  Qed.
  Lemma ctr_fill_mono k : forall f ctr rem need x,
    ctr_fill E f k ctr rem need = Ok x -> forall f', (f <= f')%nat -> ctr_fill E f' k ctr rem need = Ok x.
  Proof.
    induction f as [|f IH]; intros ctr rem need x H f' Hf; [discriminate|].
    destruct f' as [|f']; [lia|]. cbn [ctr_fill] in *. destruct (blen rem <? need); [|exact H].
    destruct (blkE E k ctr) as [o|e]; [|discriminate]. cbn [bind] in *. apply (IH _ _ _ _ H). lia.
  Qed.
  Lemma ctr_fill_det k f f' ctr rem need x y :
    ctr_fill E f k ctr rem need = Ok x -> ctr_fill E f' k ctr rem need = Ok y -> x = y.
  Proof.
    intros Hx Hy.
    pose proof (ctr_fill_mono k f ctr rem need x Hx (max f f') ltac:(lia)) as H1.
    pose proof (ctr_fill_mono k f' ctr rem need y Hy (max f f') ltac:(lia)) as H2.
    congruence.
  Qed.

  (* a prefix of the remaining key stream that is already paid for does not matter *)
  Lemma ctr_fill_prefix k p : forall f c r n,
    ctr_fill E f k c (p ++ r) (blen p + n) =
    let* (c', r') := ctr_fill E f k c r n in Ok (c', p ++ r').
  Proof.
    induction f as [|f IH]; intros c r n; [reflexivity|].
    cbn [ctr_fill]. rewrite blen_app.
    replace (blen p + blen r <? blen p + n) with (blen r <? n).
    2:{ destruct (blen r <? n) eqn:H1; symmetry; [apply N.ltb_lt in H1; apply N.ltb_lt|
                                                   apply N.ltb_ge in H1; apply N.ltb_ge]; lia. }
    destruct (blen r <? n); [|reflexivity].
    destruct (blkE E k c) as [o|e]; [|reflexivity]. cbn [bind].
    rewrite <- app_assoc. apply IH.
  Qed.

  (* filling up to n1 + n2 passes through the state reached when filling up to n1 *)
  Lemma ctr_fill_split k n1 n2 : forall f ctr rem c r,
    ctr_fill E f k ctr rem (n1 + n2) = Ok (c, r) ->
    exists c1 r1, ctr_fill E f k ctr rem n1 = Ok (c1, r1) /\ ctr_fill E f k c1 r1 (n1 + n2) = Ok (c, r).
  Proof.
    induction f as [|f IH]; intros ctr rem c r H; [discriminate|].
    cbn [ctr_fill] in H |- *.
    destruct (blen rem <? n1) eqn:E1.
    - replace (blen rem <? n1 + n2) with true in H
        by (symmetry; apply N.ltb_lt; apply N.ltb_lt in E1; lia).
      destruct (blkE E k ctr) as [o|e]; [|discriminate]. cbn [bind] in *.
      destruct (IH _ _ _ _ H) as (c1 & r1 & H1 & H2).
      exists c1, r1. split; [exact H1|].
      apply (ctr_fill_mono k f _ _ _ _ H2 (S f)). lia.
    - exists ctr, rem. split; [reflexivity|]. cbn [ctr_fill]. exact H.
  Qed.

  Section CtrOk.
    Hypothesis E_len : forall k b, length b = 16%nat -> length (E k b) = 16%nat.

    Lemma ctr_fill_ok k : forall f ctr rem need, length ctr = 16%nat ->
      need <= blen rem + N.of_nat f ->
      exists c r, ctr_fill E (S f) k ctr rem need = Ok (c, r).
    Proof.
      induction f as [|f IH]; intros ctr rem need Hc Hn.
      - cbn [ctr_fill]. replace (blen rem <? need) with false by (symmetry; apply N.ltb_ge; lia).
        eauto.
      - cbn [ctr_fill]. destruct (blen rem <? need) eqn:El; [|eauto].
        unfold blkE. replace (blen ctr =? 16) with true by (symmetry; apply N.eqb_eq; unfold blen; lia).
        cbn [bind].
        apply IH; [rewrite counter_increment_length; exact Hc|].
        rewrite blen_app. unfold blen at 2. rewrite (E_len k ctr Hc). lia.
    Qed.

    Lemma ctr_hom d k st x1 x2 : length (m_reg st) = 16%nat ->
      mode_crypt E D d CTR k st (x1 ++ x2) =
      let* (o1, st1) := mode_crypt E D d CTR k st x1 in
      let* (o2, st2) := mode_crypt E D d CTR k st1 x2 in
      Ok (o1 ++ o2, st2).
    Proof.
      intro Hreg.
      assert (H : mode_encrypt E CTR k st (x1 ++ x2) =
                  let* (o1, st1) := mode_encrypt E CTR k st x1 in
                  let* (o2, st2) := mode_encrypt E CTR k st1 x2 in Ok (o1 ++ o2, st2));
        [|destruct d; exact H].
      cbn [mode_encrypt]. set (n1 := blen x1). set (n2 := blen x2).
      set (F := S (length (x1 ++ x2))).
      destruct (ctr_fill_ok k (length x1) (m_reg st) (m_rem st) n1 Hreg ltac:(unfold n1, blen; lia))
        as (c1 & r1 & H1).
      pose proof (ctr_fill_len k _ _ _ _ _ _ H1) as Hc1. rewrite Hreg in Hc1.
      pose proof (ctr_fill_ge k _ _ _ _ _ _ H1) as Hg1.
      set (p := takeN n1 r1). set (q := dropN n1 r1).
      assert (Hpq : r1 = p ++ q) by (symmetry; apply takeN_dropN).
      assert (Hp : blen p = n1) by (apply takeN_blen_le; exact Hg1).
      destruct (ctr_fill_ok k (length x2) c1 q n2 Hc1 ltac:(unfold n2, blen; lia)) as (c2 & r2 & H2).
      pose proof (ctr_fill_ge k _ _ _ _ _ _ H2) as Hg2.
      (* the one-call fill *)
      destruct (ctr_fill_ok k (length (x1 ++ x2)) (m_reg st) (m_rem st) (n1 + n2) Hreg
                  ltac:(unfold n1, n2, blen; rewrite app_length; lia)) as (c & r & H12).
      fold F in H12.
      destruct (ctr_fill_split k n1 n2 F _ _ _ _ H12) as (c1' & r1' & Ha & Hb).
      assert (Heq : (c1', r1') = (c1, r1)) by (exact (ctr_fill_det k _ _ _ _ _ _ _ Ha H1)).
      inversion Heq; subst c1' r1'. clear Heq Ha.
      rewrite Hpq, <- Hp, ctr_fill_prefix in Hb.
      rewrite (ctr_fill_mono k _ _ _ _ _ H2 F) in Hb by (unfold F; rewrite app_length; lia).
      cbn [bind] in Hb. inversion Hb; subst c r. clear Hb.
      replace (blen (x1 ++ x2)) with (n1 + n2) by (unfold n1, n2; rewrite blen_app; reflexivity).
      rewrite H12, H1. cbn [bind m_reg m_rem].
      assert (Hx1 : length x1 = length p) by (unfold n1, blen in Hp; lia).
      assert (O1 : xor_bytes x1 r1 = xor_bytes x1 p) by (rewrite Hpq; apply xor_bytes_app_r, Hx1).
      assert (L1 : blen (xor_bytes x1 r1) = n1).
      { rewrite O1. unfold blen. rewrite xor_bytes_len_le by lia. unfold n1, blen. reflexivity. }
      rewrite L1. fold q. rewrite H2. cbn [bind].
      assert (Lx2 : (length x2 <= length r2)%nat) by (unfold n2, blen in Hg2; lia).
      assert (L2 : blen (xor_bytes x2 r2) = n2).
      { unfold blen. rewrite xor_bytes_len_le by exact Lx2. reflexivity. }
      rewrite L2.
      rewrite xor_bytes_app by exact Hx1.
      assert (L12 : blen (xor_bytes x1 p ++ xor_bytes x2 r2) = n1 + n2).
      { rewrite blen_app. rewrite <- O1, L1, L2. reflexivity. }
      rewrite L12, O1. f_equal. f_equal. f_equal.
      rewrite dropN_add. rewrite <- Hp at 1. rewrite dropN_app_exact. reflexivity.
    Qed.
  End CtrOk.

  (* ---- every mode: chunking does not matter ------------------------------------------------------ *)
  Section AllModes.
    Hypothesis E_len : forall k b, length b = 16%nat -> length (E k b) = 16%nat.

    Definition ctr_ready (m : mode) (st : mstate) : Prop := m = CTR -> length (m_reg st) = 16%nat.

    Lemma unit_hom m d k st x1 x2 : is_unit m -> ctr_ready m st ->
      blen x1 mod unit_of m = 0 -> blen x2 mod unit_of m = 0 ->
      mode_crypt E D d m k st (x1 ++ x2) =
      let* (o1, st1) := mode_crypt E D d m k st x1 in
      let* (o2, st2) := mode_crypt E D d m k st1 x2 in
      Ok (o1 ++ o2, st2).
    Proof.
      intros Hm HI H1 H2. destruct m; cbn [is_unit] in Hm; try contradiction.
      - apply cfb_hom; assumption.
      - apply ofb_hom.
      - apply ctr_hom; [exact E_len | apply HI; reflexivity].
    Qed.

    Lemma crypt_ctr_ready m d k st x o st' :
      ctr_ready m st -> mode_crypt E D d m k st x = Ok (o, st') -> ctr_ready m st'.
    Proof.
      intros HI H Hm. subst m. specialize (HI eq_refl).
      assert (H' : mode_encrypt E CTR k st x = Ok (o, st')) by (destruct d; exact H).
      cbn [mode_encrypt] in H'.
      destruct (ctr_fill E (S (length x)) k (m_reg st) (m_rem st) (blen x)) as [[c r]|e] eqn:Ef; [|discriminate].
      cbn [bind] in H'. inversion H'; subst. cbn [m_reg].
      rewrite (ctr_fill_len k _ _ _ _ _ _ Ef). exact HI.
    Qed.

    Lemma drainF_ctr_ready m d k st buf o st' r : is_unit m ->
      ctr_ready m st -> drainF E D m d k st buf = Ok (o, st', r) -> ctr_ready m st'.
    Proof.
      intros Hm HI H. rewrite (drainF_unit m d k st buf Hm) in H.
      destruct (16 <? blen buf); [|inversion H; subst; exact HI].
      cbv zeta in H. destruct (unit_of m * ((blen buf - 16) / unit_of m) =? 0); [inversion H; subst; exact HI|].
      destruct (mode_crypt E D d m k st _) as [[o1 st1]|e] eqn:Ec; [|discriminate].
      cbn [bind] in H. inversion H; subst. exact (crypt_ctr_ready _ _ _ _ _ _ _ HI Ec).
    Qed.

    Theorem unit_feed_all_split m d pad k : is_unit m -> forall chunks st, ctr_ready m st ->
      feed_all E D m d pad k (feeder_new st) chunks = feed_all E D m d pad k (feeder_new st) [concat chunks].
    Proof.
      intros Hm chunks st HI. unfold feeder_new.
      apply (feed_all_split E D m d pad k (ctr_ready m)).
      - intros st0 buf b HI0. apply (unit_resume m d k (ctr_ready m) Hm); [|exact HI0].
        intros st1 x1 x2 HI1 H1 H2. apply unit_hom; assumption.
      - intros st0 buf o st' r HI0 Hd. exact (drainF_ctr_ready m d k st0 buf o st' r Hm HI0 Hd).
      - exact HI.
      - left. reflexivity.
    Qed.

    (* Encrypter / Decrypter on a fresh mode object, every mode, direction and padding option:
       feeding the chunks one by one returns, in total, what feeding everything at once returns *)
    Theorem stream_crypt_split m d pad k iv ctr chunks :
      stream_crypt E D m d pad k iv ctr chunks = stream_crypt E D m d pad k iv ctr [concat chunks].
    Proof.
      unfold stream_crypt.
      destruct (mode_init m k iv ctr) as [st|e] eqn:Ei; [|reflexivity]. cbn [bind].
      destruct m.
      - apply block_feed_all_split. left; reflexivity.
      - apply block_feed_all_split. right; reflexivity.
      - apply unit_feed_all_split; [exact I|]. intro H; discriminate H.
      - apply unit_feed_all_split; [exact I|]. intro H; discriminate H.
      - apply unit_feed_all_split; [exact I|]. intros _.
        cbn [mode_init] in Ei. destruct (key_ok k); [|discriminate]. inversion Ei; subst.
        cbn [m_reg]. apply be_length.
    Qed.
  End AllModes.

  (* ---- encrypt_stream / decrypt_stream: the read() boundaries of the input stream do not matter --- *)

  Lemma feed_stream_all m d pad k : forall reads fo,
    feed_stream E D m d pad k fo reads = feed_all E D m d pad k fo (until_empty reads).
  Proof.
    induction reads as [|c cs IH]; intro fo; [reflexivity|].
    destruct c as [|x c']; [reflexivity|].
    cbn [feed_stream until_empty feed_all]. change (@Some (list byte)) with (@Some bytes).
    destruct (feed E D m d pad k fo (@Some bytes (x :: c'))) as [[o fo']|e]; [|reflexivity].
    cbn [bind]. rewrite IH. reflexivity.
  Qed.

  Lemma until_empty_all reads : Forall (fun c : bytes => c <> []) reads -> until_empty reads = reads.
  Proof.
    induction 1 as [|c cs Hc _ IH]; [reflexivity|].
    destruct c; [contradiction|]. cbn [until_empty]. rewrite IH. reflexivity.
  Qed.

  Theorem crypt_stream_split
    (E_len : forall k b, length b = 16%nat -> length (E k b) = 16%nat) m d pad k iv ctr reads :
    crypt_stream E D m d pad k iv ctr reads =
    stream_crypt E D m d pad k iv ctr [concat (until_empty reads)].
  Proof.
    rewrite <- (stream_crypt_split E_len). unfold crypt_stream, stream_crypt.
    destruct (mode_init m k iv ctr) as [st|e]; [|reflexivity]. cbn [bind]. apply feed_stream_all.
  Qed.
End Units.
