(* Block feeder, modes, Counter and the adapter (Model/AesModes.v):
   - however the input is cut into chunks, Encrypter/Decrypter return, in total,
     what they return for the whole input fed at once (generic argument from a
     "drain can be resumed" property, proved per family of modes);
   - what AES128Proxy does with the feeder is the zero-padded CBC of Model/Cbc.v;
   - Counter.increment is +1 modulo 2^128 on the big-endian value;
   - crypto.pad is zero_pad. *)
From Coq Require Import List Bool Arith NArith ZArith Lia.
From Coq Require Import Init.Byte.
From Bec2 Require Import Base.Result Base.Bytes Gen.Consts Model.Cbc Model.AesModes Proofs.CbcProofs.
Import ListNotations.
Open Scope N_scope.

(* ---- small facts about slices --------------------------------------------------- *)

Lemma takeN_app_le {A} n (a b : list A) : n <= blen a -> takeN n (a ++ b) = takeN n a.
Proof.
  intro H. rewrite !takeN_firstn. unfold blen in H. rewrite firstn_app.
  replace (N.to_nat n - length a)%nat with 0%nat by lia. cbn [firstn]. apply app_nil_r.
Qed.
Lemma dropN_app_le {A} n (a b : list A) : n <= blen a -> dropN n (a ++ b) = dropN n a ++ b.
Proof.
  intro H. rewrite !dropN_skipn. unfold blen in H. rewrite skipn_app.
  replace (N.to_nat n - length a)%nat with 0%nat by lia. reflexivity.
Qed.
Lemma dropN_length {A} n (l : list A) : n <= blen l -> length (dropN n l) = (length l - N.to_nat n)%nat.
Proof. intro H. rewrite dropN_skipn, skipn_length. reflexivity. Qed.
Lemma takeN_length {A} n (l : list A) : n <= blen l -> length (takeN n l) = N.to_nat n.
Proof. intro H. rewrite takeN_firstn, firstn_length. unfold blen in H. lia. Qed.
Lemma blen_length {A} (l : list A) : blen l = N.of_nat (length l).
Proof. reflexivity. Qed.

Section Feeder.
  Variable E D : bytes -> bytes -> bytes.

  Notation drain := (drain E D).
  Notation feed := (feed E D).
  Notation feed_all := (feed_all E D).
  Notation mode_crypt := (mode_crypt E D).
  Notation final_crypt := (final_crypt E D).

  Lemma can_consume_le m n : can_consume m n <= n.
  Proof.
    destruct m; cbn [can_consume]; try lia.
    - destruct (16 <=? n) eqn:H; [apply N.leb_le in H|]; lia.
    - destruct (16 <=? n) eqn:H; [apply N.leb_le in H|]; lia.
    - apply N.mul_div_le. unfold seg_of. destruct (segment_size =? 0) eqn:H; [lia|apply N.eqb_neq in H; lia].
  Qed.

  (* the accumulator is only a prefix of the output *)
  Lemma drain_out m d k : forall fuel st buf out,
    drain fuel m d k st buf out =
    let* (o, st', r) := drain fuel m d k st buf [] in Ok (out ++ o, st', r).
  Proof.
    induction fuel as [|f IH]; intros st buf out; [reflexivity|].
    cbn [AesModes.drain].
    destruct (16 <? blen buf); [|cbn; rewrite app_nil_r; reflexivity].
    destruct (can_consume m (blen buf - 16) =? 0); [cbn; rewrite app_nil_r; reflexivity|].
    destruct (mode_crypt d m k st (takeN (can_consume m (blen buf - 16)) buf)) as [[o st']|e]; [|reflexivity].
    cbn [bind]. rewrite (IH st' _ (out ++ o)), (IH st' _ ([] ++ o)).
    destruct (drain f m d k st' (dropN (can_consume m (blen buf - 16)) buf) []) as [[[o2 st2] r2]|e]; [|reflexivity].
    cbn [bind app]. rewrite app_assoc. reflexivity.
  Qed.

  (* more fuel than bytes in the buffer is always enough *)
  Lemma drain_fuel m d k : forall f f' st buf out,
    (length buf < f)%nat -> (length buf < f')%nat ->
    drain f m d k st buf out = drain f' m d k st buf out.
  Proof.
    induction f as [|f IH]; intros f' st buf out H1 H2; [lia|].
    destruct f' as [|f']; [lia|].
    cbn [AesModes.drain].
    destruct (16 <? blen buf) eqn:E16; [|reflexivity]. apply N.ltb_lt in E16.
    pose proof (can_consume_le m (blen buf - 16)) as Hc.
    destruct (can_consume m (blen buf - 16) =? 0) eqn:E0; [reflexivity|]. apply N.eqb_neq in E0.
    destruct (mode_crypt d m k st (takeN (can_consume m (blen buf - 16)) buf)) as [[o st']|e]; [|reflexivity].
    cbn [bind].
    assert (Hl : (length (dropN (can_consume m (blen buf - 16)) buf) < length buf)%nat).
    { rewrite dropN_length by lia. unfold blen in *. lia. }
    apply IH; lia.
  Qed.

  (* where drain stops, it stops again *)
  Definition stable (m : mode) (buf : bytes) : Prop :=
    (16 <? blen buf) = false \/ can_consume m (blen buf - 16) = 0.

  Lemma drain_stable m d k : forall fuel st buf out o st' r,
    drain fuel m d k st buf out = Ok (o, st', r) -> stable m r.
  Proof.
    induction fuel as [|f IH]; intros st buf out o st' r H; [discriminate|].
    cbn [AesModes.drain] in H.
    destruct (16 <? blen buf) eqn:E16; [|inversion H; subst; left; exact E16].
    destruct (can_consume m (blen buf - 16) =? 0) eqn:E0.
    - inversion H; subst. right. apply N.eqb_eq, E0.
    - destruct (mode_crypt d m k st (takeN (can_consume m (blen buf - 16)) buf)) as [[o1 st1]|e]; [|discriminate].
      cbn [bind] in H. exact (IH _ _ _ _ _ _ H).
  Qed.

  Lemma drain_of_stable m d k fuel st buf out : stable m buf ->
    drain (S fuel) m d k st buf out = Ok (out, st, buf).
  Proof.
    intros [H|H]; cbn [AesModes.drain].
    - rewrite H. reflexivity.
    - destruct (16 <? blen buf); [|reflexivity]. rewrite H. reflexivity.
  Qed.

  Definition drainF (m : mode) (d : direction) (k : bytes) (st : mstate) (buf : bytes) :=
    drain (S (length buf)) m d k st buf [].

  Lemma feed_some m d pad k st buf x :
    feed m d pad k (FD st (Some buf)) (Some x) =
    let* (out, st', rest) := drainF m d k st (buf ++ x) in Ok (out, FD st' (Some rest)).
  Proof. reflexivity. Qed.

  (* ---- generic part: resumable drain => chunking does not matter ------------------- *)
  Section Generic.
    Variable m : mode.
    Variable d : direction.
    Variable pad : padding.
    Variable k : bytes.
    Variable I : mstate -> Prop.
    Hypothesis resume : forall st buf b, I st ->
      drainF m d k st (buf ++ b) =
      let* (o1, st1, r1) := drainF m d k st buf in
      let* (o2, st2, r2) := drainF m d k st1 (r1 ++ b) in
      Ok (o1 ++ o2, st2, r2).
    Hypothesis preserved : forall st buf o st' r, I st -> drainF m d k st buf = Ok (o, st', r) -> I st'.

    Lemma feed_compose st buf a b : I st ->
      feed m d pad k (FD st (Some buf)) (Some (a ++ b)) =
      let* (o1, fo1) := feed m d pad k (FD st (Some buf)) (Some a) in
      let* (o2, fo2) := feed m d pad k fo1 (Some b) in
      Ok (o1 ++ o2, fo2).
    Proof.
      intro HI. rewrite !feed_some. rewrite app_assoc. rewrite (resume st (buf ++ a) b HI).
      destruct (drainF m d k st (buf ++ a)) as [[[o1 st1] r1]|e]; [|reflexivity].
      cbn [bind]. rewrite feed_some.
      destruct (drainF m d k st1 (r1 ++ b)) as [[[o2 st2] r2]|e]; reflexivity.
    Qed.

    Lemma feed_all_nil_chunk st buf : stable m buf ->
      feed_all m d pad k (FD st (Some buf)) [[]] = feed_all m d pad k (FD st (Some buf)) [].
    Proof.
      intro Hs. cbn [AesModes.feed_all]. rewrite feed_some, app_nil_r.
      unfold drainF. rewrite (drain_of_stable m d k _ st buf [] Hs). cbn [bind].
      destruct (feed m d pad k (FD st (Some buf)) None) as [[r fo]|e]; reflexivity.
    Qed.

    Theorem feed_all_split : forall chunks st buf, I st -> stable m buf ->
      feed_all m d pad k (FD st (Some buf)) chunks =
      feed_all m d pad k (FD st (Some buf)) [concat chunks].
    Proof.
      induction chunks as [|c cs IH]; intros st buf HI Hs.
      - cbn [concat]. symmetry. apply feed_all_nil_chunk, Hs.
      - change (concat (c :: cs)) with (c ++ concat cs). cbn [AesModes.feed_all].
        pose proof (feed_compose st buf c (concat cs) HI) as X.
        change (@Some (list byte)) with (@Some bytes) in X. rewrite X. clear X.
        rewrite feed_some.
        destruct (drainF m d k st (buf ++ c)) as [[[o1 st1] r1]|e] eqn:Ed; [|reflexivity].
        cbn [bind].
        assert (HI1 : I st1) by (exact (preserved _ _ _ _ _ HI Ed)).
        assert (Hs1 : stable m r1) by (exact (drain_stable _ _ _ _ _ _ _ _ _ _ Ed)).
        rewrite (IH st1 r1 HI1 Hs1). cbn [AesModes.feed_all].
        change (@Some (list byte)) with (@Some bytes).
        destruct (feed m d pad k (FD st1 (Some r1)) (@Some bytes (concat cs))) as [[o2 fo2]|e]; [|reflexivity].
        cbn [bind].
        destruct (feed m d pad k fo2 None) as [[r fo3]|e]; [|reflexivity].
        cbn [bind]. rewrite app_assoc. reflexivity.
    Qed.
  End Generic.

  (* ---- ECB and CBC: drain takes the same 16-byte steps whatever follows --------------- *)

  Definition is_block (m : mode) : Prop := m = ECB \/ m = CBC.

  Lemma block_can m n : is_block m -> can_consume m n = if 16 <=? n then 16 else 0.
  Proof. intros [->| ->]; reflexivity. Qed.

  Lemma block_resume_fuel m d k : is_block m -> forall f st buf b f1 f2,
    (length buf < f)%nat -> (length (buf ++ b) < f1)%nat -> (length (buf ++ b) < f2)%nat ->
    drain f1 m d k st (buf ++ b) [] =
    let* (o1, st1, r1) := drain f m d k st buf [] in
    let* (o2, st2, r2) := drain f2 m d k st1 (r1 ++ b) [] in
    Ok (o1 ++ o2, st2, r2).
  Proof.
    intro Hm. induction f as [|f IH]; intros st buf b f1 f2 H H1 H2; [lia|].
    cbn [AesModes.drain].
    assert (Stop : drain f1 m d k st (buf ++ b) [] =
                   let* (o2, st2, r2) := drain f2 m d k st (buf ++ b) [] in Ok ([] ++ o2, st2, r2)).
    { rewrite (drain_fuel m d k f1 f2) by assumption.
      destruct (drain f2 m d k st (buf ++ b) []) as [[[o2 st2] r2]|e]; reflexivity. }
    destruct (16 <? blen buf) eqn:E16; [|exact Stop]. apply N.ltb_lt in E16.
    rewrite (block_can m _ Hm).
    destruct (16 <=? blen buf - 16) eqn:E32; [|exact Stop]. apply N.leb_le in E32.
    change (16 =? 0) with false. cbv iota.
    destruct f1 as [|f1]; [lia|]. cbn [AesModes.drain].
    assert (Hb : blen (buf ++ b) = blen buf + blen b) by apply blen_app.
    replace (16 <? blen (buf ++ b)) with true by (symmetry; apply N.ltb_lt; lia).
    rewrite (block_can m _ Hm).
    replace (16 <=? blen (buf ++ b) - 16) with true by (symmetry; apply N.leb_le; lia).
    change (16 =? 0) with false. cbv iota.
    rewrite takeN_app_le by lia.
    destruct (mode_crypt d m k st (takeN 16 buf)) as [[o st']|e]; [|reflexivity].
    cbn [bind app].
    rewrite dropN_app_le by lia.
    assert (Hl : (length (dropN 16 buf) = length buf - 16)%nat) by (rewrite dropN_length by lia; reflexivity).
    rewrite (drain_out m d k f1 st' _ o), (drain_out m d k f st' _ o).
    rewrite (IH st' (dropN 16 buf) b f1 f2).
    2:{ unfold blen in *. lia. }
    2:{ rewrite app_length in *. unfold blen in *. lia. }
    2:{ rewrite app_length in *. unfold blen in *. lia. }
    destruct (drain f m d k st' (dropN 16 buf) []) as [[[o1 st1] r1]|e]; [|reflexivity].
    cbn [bind].
    destruct (drain f2 m d k st1 (r1 ++ b) []) as [[[o2 st2] r2]|e]; [|reflexivity].
    cbn [bind]. rewrite app_assoc. reflexivity.
  Qed.

  Lemma drain_rest_le m d k : forall fuel st buf out o st' r,
    drain fuel m d k st buf out = Ok (o, st', r) -> (length r <= length buf)%nat.
  Proof.
    induction fuel as [|f IH]; intros st buf out o st' r H; [discriminate|].
    cbn [AesModes.drain] in H.
    destruct (16 <? blen buf) eqn:E16; [|inversion H; subst; lia]. apply N.ltb_lt in E16.
    pose proof (can_consume_le m (blen buf - 16)) as Hc.
    destruct (can_consume m (blen buf - 16) =? 0) eqn:E0; [inversion H; subst; lia|].
    destruct (mode_crypt d m k st (takeN (can_consume m (blen buf - 16)) buf)) as [[o1 st1]|e]; [|discriminate].
    cbn [bind] in H. apply IH in H. rewrite dropN_length in H by lia. lia.
  Qed.

  Lemma block_resume m d k : is_block m -> forall st buf b,
    drainF m d k st (buf ++ b) =
    let* (o1, st1, r1) := drainF m d k st buf in
    let* (o2, st2, r2) := drainF m d k st1 (r1 ++ b) in
    Ok (o1 ++ o2, st2, r2).
  Proof.
    intros Hm st buf b. unfold drainF.
    rewrite (block_resume_fuel m d k Hm (S (length buf)) st buf b (S (length (buf ++ b))) (S (length (buf ++ b))))
      by lia.
    destruct (drain (S (length buf)) m d k st buf []) as [[[o1 st1] r1]|e] eqn:Ed; [|reflexivity].
    cbn [bind].
    pose proof (drain_rest_le _ _ _ _ _ _ _ _ _ _ Ed) as Hr.
    rewrite (drain_fuel m d k (S (length (buf ++ b))) (S (length (r1 ++ b)))); [reflexivity| |lia].
    rewrite !app_length. lia.
  Qed.

  Theorem block_feed_all_split m d pad k : is_block m -> forall chunks st,
    feed_all m d pad k (feeder_new st) chunks = feed_all m d pad k (feeder_new st) [concat chunks].
  Proof.
    intros Hm chunks st. unfold feeder_new.
    apply (feed_all_split m d pad k (fun _ => True)).
    - intros st0 buf b _. apply block_resume, Hm.
    - trivial.
    - trivial.
    - left. reflexivity.
  Qed.
End Feeder.

(* ---- the adapter: Encrypter(CBC, padding none) on zero-padded data = zero-padded CBC --- *)

Section Adapter.
  Variable E D : bytes -> bytes -> bytes.
  Hypothesis E_len : forall k b, length b = 16%nat -> length (E k b) = 16%nat.

  Lemma cbc_enc_nil f k prev : cbc_enc E f k prev [] = [].
  Proof. destruct f; reflexivity. Qed.
  Lemma cbc_dec_nil f k prev : cbc_dec D f k prev [] = [].
  Proof. destruct f; reflexivity. Qed.

  Lemma cbc_enc_fuel k : forall f1 f2 prev d, (length d <= f1)%nat -> (length d <= f2)%nat ->
    cbc_enc E f1 k prev d = cbc_enc E f2 k prev d.
  Proof.
    induction f1 as [|f1 IH]; intros f2 prev d H1 H2.
    - destruct d; [|cbn in H1; lia]. rewrite !cbc_enc_nil. reflexivity.
    - destruct d as [|x d']; [rewrite !cbc_enc_nil; reflexivity|].
      destruct f2 as [|f2]; [cbn in H2; lia|].
      cbn [cbc_enc]. f_equal. apply IH; rewrite skipn_length; cbn [length] in *; lia.
  Qed.
  Lemma cbc_dec_fuel k : forall f1 f2 prev d, (length d <= f1)%nat -> (length d <= f2)%nat ->
    cbc_dec D f1 k prev d = cbc_dec D f2 k prev d.
  Proof.
    induction f1 as [|f1 IH]; intros f2 prev d H1 H2.
    - destruct d; [|cbn in H1; lia]. rewrite !cbc_dec_nil. reflexivity.
    - destruct d as [|x d']; [rewrite !cbc_dec_nil; reflexivity|].
      destruct f2 as [|f2]; [cbn in H2; lia|].
      cbn [cbc_dec]. f_equal. apply IH; rewrite skipn_length; cbn [length] in *; lia.
  Qed.

  Lemma blen_16 (b : bytes) : length b = 16%nat -> (blen b =? 16) = true.
  Proof. intro H. apply N.eqb_eq. unfold blen. lia. Qed.

  Lemma cbc_none_enc k : forall m buf st out fuel,
    length buf = (16 * S m)%nat -> length (m_reg st) = 16%nat -> (length buf < fuel)%nat ->
    exists o st' rest r st'',
      drain E D fuel CBC Enc k st buf out = Ok (o, st', rest) /\
      final_encrypt E CBC PadNone k st' rest = Ok (r, st'') /\
      o ++ r = out ++ cbc_enc E (length buf) k (m_reg st) buf.
  Proof.
    induction m as [|m IH]; intros buf st out fuel Hl Hr Hf.
    - destruct fuel as [|f]; [lia|]. cbn [drain].
      replace (16 <? blen buf) with false by (symmetry; apply N.ltb_ge; unfold blen; lia).
      assert (Hx : length (xor_bytes buf (m_reg st)) = 16%nat) by (rewrite xor_bytes_length; lia).
      exists out, st, buf, (E k (xor_bytes buf (m_reg st))), (MS (E k (xor_bytes buf (m_reg st))) (m_rem st)).
      split; [reflexivity|]. split.
      + unfold final_encrypt. rewrite (blen_16 buf) by lia. cbn [negb bind].
        replace (blen buf =? 32) with false by (symmetry; apply N.eqb_neq; unfold blen; lia).
        unfold mode_encrypt. rewrite (blen_16 buf) by lia. cbn [negb].
        unfold blkE. rewrite (blen_16 _ Hx). reflexivity.
      + f_equal. destruct buf as [|x b']; [cbn in Hl; lia|].
        replace (length (x :: b')) with (S (length b')) by reflexivity.
        cbn [cbc_enc]. rewrite (firstn_all2 (n:=16)) by (cbn [length] in *; lia).
        rewrite (skipn_all2 (n:=16)) by (cbn [length] in *; lia).
        rewrite cbc_enc_nil, app_nil_r. reflexivity.
    - destruct fuel as [|f]; [lia|]. cbn [drain].
      replace (16 <? blen buf) with true by (symmetry; apply N.ltb_lt; unfold blen; lia).
      cbn [can_consume].
      replace (16 <=? blen buf - 16) with true by (symmetry; apply N.leb_le; unfold blen; lia).
      change (16 =? 0) with false. cbv iota.
      assert (Ht : length (takeN 16 buf) = 16%nat) by (rewrite takeN_length; unfold blen; lia).
      assert (Hx : length (xor_bytes (takeN 16 buf) (m_reg st)) = 16%nat) by (rewrite xor_bytes_length; lia).
      cbn [mode_crypt]. unfold mode_encrypt at 1. rewrite (blen_16 _ Ht). cbn [negb].
      unfold blkE. rewrite (blen_16 _ Hx). cbn [bind].
      set (c := E k (xor_bytes (takeN 16 buf) (m_reg st))).
      assert (Hc : length c = 16%nat) by (apply E_len, Hx).
      assert (Hd : length (dropN 16 buf) = (16 * S m)%nat) by (rewrite dropN_length; unfold blen; lia).
      destruct (IH (dropN 16 buf) (MS c (m_rem st)) (out ++ c) f Hd Hc ltac:(lia))
        as (o & st' & rest & r & st'' & H1 & H2 & H3).
      exists o, st', rest, r, st''. split; [exact H1|]. split; [exact H2|].
      rewrite H3. cbn [m_reg]. rewrite <- app_assoc. f_equal.
      destruct buf as [|x b']; [cbn in Hl; lia|].
      replace (length (x :: b')) with (S (length b')) by reflexivity.
      cbn [cbc_enc]. unfold c. rewrite !takeN_firstn, !dropN_skipn. change (N.to_nat 16) with 16%nat. f_equal.
      rewrite dropN_skipn in Hd. change (N.to_nat 16) with 16%nat in Hd.
      apply cbc_enc_fuel; [lia|]. rewrite Hd. cbn [length] in Hl. lia.
  Qed.

  Lemma cbc_none_dec k : forall m buf st out fuel,
    length buf = (16 * S m)%nat -> (length buf < fuel)%nat ->
    exists o st' rest r st'',
      drain E D fuel CBC Dec k st buf out = Ok (o, st', rest) /\
      final_decrypt E D CBC PadNone k st' rest = Ok (r, st'') /\
      o ++ r = out ++ cbc_dec D (length buf) k (m_reg st) buf.
  Proof.
    induction m as [|m IH]; intros buf st out fuel Hl Hf.
    - destruct fuel as [|f]; [lia|]. cbn [drain].
      replace (16 <? blen buf) with false by (symmetry; apply N.ltb_ge; unfold blen; lia).
      exists out, st, buf, (xor_bytes (D k buf) (m_reg st)), (MS buf (m_rem st)).
      split; [reflexivity|]. split.
      + unfold final_decrypt. rewrite (blen_16 buf) by lia. cbn [negb].
        unfold mode_decrypt. rewrite (blen_16 buf) by lia. cbn [negb].
        unfold blkD. rewrite (blen_16 buf) by lia. reflexivity.
      + f_equal. destruct buf as [|x b']; [cbn in Hl; lia|].
        replace (length (x :: b')) with (S (length b')) by reflexivity.
        cbn [cbc_dec]. rewrite (firstn_all2 (n:=16)) by (cbn [length] in *; lia).
        rewrite (skipn_all2 (n:=16)) by (cbn [length] in *; lia).
        rewrite cbc_dec_nil, app_nil_r. reflexivity.
    - destruct fuel as [|f]; [lia|]. cbn [drain].
      replace (16 <? blen buf) with true by (symmetry; apply N.ltb_lt; unfold blen; lia).
      cbn [can_consume].
      replace (16 <=? blen buf - 16) with true by (symmetry; apply N.leb_le; unfold blen; lia).
      change (16 =? 0) with false. cbv iota.
      assert (Ht : length (takeN 16 buf) = 16%nat) by (rewrite takeN_length; unfold blen; lia).
      cbn [mode_crypt]. unfold mode_decrypt at 1. rewrite (blen_16 _ Ht). cbn [negb].
      unfold blkD. rewrite (blen_16 _ Ht). cbn [bind].
      assert (Hd : length (dropN 16 buf) = (16 * S m)%nat) by (rewrite dropN_length; unfold blen; lia).
      destruct (IH (dropN 16 buf) (MS (takeN 16 buf) (m_rem st))
                   (out ++ xor_bytes (D k (takeN 16 buf)) (m_reg st)) f Hd ltac:(lia))
        as (o & st' & rest & r & st'' & H1 & H2 & H3).
      exists o, st', rest, r, st''. split; [exact H1|]. split; [exact H2|].
      rewrite H3. cbn [m_reg]. rewrite <- app_assoc. f_equal.
      destruct buf as [|x b']; [cbn in Hl; lia|].
      replace (length (x :: b')) with (S (length b')) by reflexivity.
      cbn [cbc_dec]. rewrite !takeN_firstn, !dropN_skipn. change (N.to_nat 16) with 16%nat. f_equal.
      rewrite dropN_skipn in Hd. change (N.to_nat 16) with 16%nat in Hd.
      apply cbc_dec_fuel; [lia|]. rewrite Hd. cbn [length] in Hl. lia.
  Qed.

  Lemma aligned_blocks (p : bytes) : p <> [] -> blen p mod 16 = 0 -> exists m, length p = (16 * S m)%nat.
  Proof.
    intros Hne Hm.
    pose proof (N.div_mod (blen p) 16 ltac:(lia)) as Hd. rewrite Hm in Hd.
    assert (Hp : 0 < blen p) by (destruct p; [contradiction|rewrite blen_cons; lia]).
    exists (N.to_nat (blen p / 16) - 1)%nat. unfold blen in *. lia.
  Qed.

  (* AES128Proxy.encrypt: exactly the zero-padded CBC of Model/Cbc.v, errors included *)
  Theorem proxy_encrypt_eq k iv d : proxy_encrypt E D k iv d = adapter_encrypt E k iv d.
  Proof.
    destruct (list_eq_dec Byte.byte_eq_dec d []) as [->|Hne]; [reflexivity|].
    rewrite (adapter_encrypt_ne E k iv d Hne).
    replace (proxy_encrypt E D k iv d) with
      (let* st := mode_init CBC k iv 0 in
       let* (c1, fo1) := feed E D CBC Enc PadNone k (feeder_new st)
                              (Some (d ++ zeros (N.to_nat ((16 - blen d mod 16) mod 16)))) in
       let* (c2, _) := feed E D CBC Enc PadNone k fo1 None in Ok (c1 ++ c2))
      by (destruct d; [contradiction|reflexivity]).
    unfold mode_init.
    destruct (blen (the_iv iv) =? 16) eqn:Ei; cbn [negb]; [|destruct (key_ok k); reflexivity].
    destruct (key_ok k) eqn:Ek; cbn [negb bind]; [|reflexivity].
    fold (zero_pad d).
    destruct (zero_pad_len d) as [Hm Hle].
    assert (Hpne : zero_pad d <> []) by (unfold zero_pad; destruct d; [contradiction|discriminate]).
    destruct (aligned_blocks _ Hpne Hm) as [m Hl].
    unfold feeder_new. rewrite feed_some. unfold drainF. cbn [app].
    assert (Hiv : length (the_iv iv) = 16%nat) by (apply N.eqb_eq in Ei; unfold blen in Ei; lia).
    destruct (cbc_none_enc k m (zero_pad d) (MS (the_iv iv) []) [] (S (length (zero_pad d))) Hl Hiv ltac:(lia))
      as (o & st' & rest & r & st'' & H1 & H2 & H3).
    rewrite H1. cbn [bind]. cbn [feed f_buf f_st final_crypt]. rewrite H2. cbn [bind].
    rewrite H3. reflexivity.
  Qed.

  Theorem proxy_decrypt_eq k iv d : proxy_decrypt E D k iv d = adapter_decrypt D k iv d.
  Proof.
    unfold proxy_decrypt, adapter_decrypt.
    destruct (blen d mod 16 =? 0) eqn:Em; cbn [negb]; [|reflexivity]. apply N.eqb_eq in Em.
    destruct (list_eq_dec Byte.byte_eq_dec d []) as [->|Hne]; [reflexivity|].
    replace (match d with [] => Ok [] | _ :: _ =>
               if negb (key_ok k) then Err EValue
               else if negb (blen (the_iv iv) =? 16) then Err EValue
               else Ok (cbc_dec D (length d) k (the_iv iv) d) end)
      with (if negb (key_ok k) then @Err bytes EValue
            else if negb (blen (the_iv iv) =? 16) then Err EValue
            else Ok (cbc_dec D (length d) k (the_iv iv) d))
      by (destruct d; [contradiction|reflexivity]).
    replace (match d with [] => Ok [] | _ :: _ =>
               let* st := mode_init CBC k iv 0 in
               let* (p1, fo1) := feed E D CBC Dec PadNone k (feeder_new st) (Some d) in
               let* (p2, _) := feed E D CBC Dec PadNone k fo1 None in Ok (p1 ++ p2) end)
      with (let* st := mode_init CBC k iv 0 in
            let* (p1, fo1) := feed E D CBC Dec PadNone k (feeder_new st) (Some d) in
            let* (p2, _) := feed E D CBC Dec PadNone k fo1 None in Ok (p1 ++ p2))
      by (destruct d; [contradiction|reflexivity]).
    unfold mode_init.
    destruct (blen (the_iv iv) =? 16) eqn:Ei; cbn [negb]; [|destruct (key_ok k); reflexivity].
    destruct (key_ok k) eqn:Ek; cbn [negb bind]; [|reflexivity].
    destruct (aligned_blocks _ Hne Em) as [m Hl].
    unfold feeder_new. rewrite feed_some. unfold drainF. cbn [app].
    destruct (cbc_none_dec k m d (MS (the_iv iv) []) [] (S (length d)) Hl ltac:(lia))
      as (o & st' & rest & r & st'' & H1 & H2 & H3).
    rewrite H1. cbn [bind]. cbn [feed f_buf f_st final_crypt]. rewrite H2. cbn [bind].
    rewrite H3. reflexivity.
  Qed.

  Theorem proxy_mac_eq k iv d : proxy_mac E D k iv d = adapter_mac E k iv d.
  Proof. unfold proxy_mac, adapter_mac. rewrite proxy_encrypt_eq. reflexivity. Qed.
End Adapter.

(* ---- Counter: +1 modulo 2^(8 * length) on the big-endian value ---------------------------- *)

Lemma from_be_snoc b x : from_be (b ++ [x]) = from_be b * 256 + b2n x.
Proof. rewrite from_be_app. change (blen [x]) with 1. change (256 ^ 1) with 256. reflexivity. Qed.

Lemma from_be_zeros n : from_be (zeros n) = 0.
Proof.
  induction n as [|n IH]; [reflexivity|].
  replace (zeros (S n)) with (zeros n ++ [x00]).
  - rewrite from_be_snoc, IH. reflexivity.
  - unfold zeros. change [x00] with (repeat x00 1). rewrite <- repeat_app. f_equal. lia.
Qed.

Lemma incr_lsb_spec : forall l r c, incr_lsb l = (r, c) ->
  length r = length l /\
  from_be (rev r) + (if c then 256 ^ blen l else 0) = from_be (rev l) + 1.
Proof.
  induction l as [|x l IH]; intros r c H.
  - inversion H; subst. split; reflexivity.
  - cbn [incr_lsb] in H. cbn [rev]. rewrite from_be_snoc, blen_cons.
    destruct (b2n x + 1 <? 256) eqn:Ex.
    + apply N.ltb_lt in Ex. inversion H; subst. split; [reflexivity|].
      cbn [rev]. rewrite from_be_snoc, b2n_n2b_small by exact Ex. lia.
    + apply N.ltb_ge in Ex. pose proof (b2n_lt x) as Hx.
      destruct (incr_lsb l) as [r' c'] eqn:El. inversion H; subst.
      destruct (IH r' c eq_refl) as [Hl Hv]. split; [cbn [length]; lia|].
      cbn [rev]. rewrite from_be_snoc. change (b2n x00) with 0.
      replace (256 ^ (1 + blen l)) with (256 * 256 ^ blen l) by (rewrite N.pow_add_r; reflexivity).
      destruct c; nia.
Qed.

Theorem counter_increment_spec c :
  length (counter_increment c) = length c /\
  from_be (counter_increment c) = (from_be c + 1) mod 256 ^ blen c.
Proof.
  unfold counter_increment. destruct (incr_lsb (rev c)) as [r carry] eqn:E.
  destruct (incr_lsb_spec _ _ _ E) as [Hl Hv]. rewrite rev_involutive in Hv.
  assert (Hb : blen (rev c) = blen c) by (unfold blen; rewrite rev_length; reflexivity).
  rewrite Hb in Hv. rewrite rev_length in Hl.
  pose proof (from_be_lt c) as Hc. pose proof (from_be_lt (rev r)) as Hr.
  assert (Hbr : blen (rev r) = blen c) by (unfold blen; rewrite rev_length, Hl; reflexivity).
  rewrite Hbr in Hr.
  destruct carry.
  - split; [apply zeros_length|]. rewrite from_be_zeros.
    assert (from_be c + 1 = 256 ^ blen c) by lia.
    rewrite H. symmetry. apply N.mod_same. apply N.pow_nonzero. lia.
  - split; [rewrite rev_length; exact Hl|].
    rewrite N.add_0_r in Hv. rewrite Hv. symmetry. apply N.mod_small. lia.
Qed.

(* Counter(v) and increment() in terms of the counter blocks T_j of SP 800-38A appendix B.1 *)
Theorem counter_block_spec v :
  counter_init v = AesSpec.ctr_block v /\ counter_increment (AesSpec.ctr_block v) = AesSpec.ctr_block (v + 1).
Proof.
  assert (Hbe : forall a, be 16 a = be 16 (a mod 2 ^ 128)).
  { intro a. rewrite <- (be_from_be (be 16 a)). rewrite be_length, from_be_be.
    change (256 ^ N.of_nat 16) with (2 ^ 128). reflexivity. }
  split; [apply Hbe|].
  unfold AesSpec.ctr_block.
  destruct (counter_increment_spec (be 16 (v mod 2 ^ 128))) as [Hl Hv].
  rewrite be_length in Hl.
  rewrite <- (be_from_be (counter_increment (be 16 (v mod 2 ^ 128)))), Hl, Hv.
  rewrite be_blen, from_be_be. change (256 ^ N.of_nat 16) with (2 ^ 128).
  rewrite N.mod_mod by discriminate. f_equal.
  rewrite N.add_mod_idemp_l by discriminate. reflexivity.
Qed.

(* ---- crypto.pad (generated pad_length) is zero_pad ---------------------------------------- *)

Lemma pad_length_eq (n : N) : Z.to_nat (pad_length (Z.of_N n)) = N.to_nat ((16 - n mod 16) mod 16).
Proof.
  unfold pad_length.
  pose proof (N.mod_lt n 16 ltac:(lia)) as Hr. pose proof (N.div_mod n 16 ltac:(lia)) as Hd.
  set (q := n / 16) in *. set (r := n mod 16) in *.
  assert (Hz : ((- Z.of_N n) mod 16 = Z.of_N ((16 - r) mod 16))%Z).
  { rewrite Hd. replace (- Z.of_N (16 * q + r))%Z with (- Z.of_N r + (- Z.of_N q) * 16)%Z by lia.
    rewrite Z.mod_add by lia.
    destruct (N.eq_dec r 0) as [->|Hn].
    - reflexivity.
    - rewrite (N.mod_small (16 - r)) by lia.
      symmetry. apply (Z.mod_unique _ _ (-1)%Z); lia. }
  rewrite Hz, <- N_nat_Z, Nat2Z.id. reflexivity.
Qed.

Theorem crypto_pad_eq d : crypto_pad d = zero_pad d.
Proof. unfold crypto_pad, zero_pad. rewrite pad_length_eq. reflexivity. Qed.
