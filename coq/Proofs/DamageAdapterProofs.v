(* C04: the theorems of Damage*Proofs.v instantiated with the registered adapter
   (zero-padded CBC, Model/Cbc.v) over ANY block function with D k (E k b) = b on
   16-byte blocks (C16 shows the bundled AES is such a function). *)
From Coq Require Import List NArith ZArith Lia.
From Coq Require Import Init.Byte.
From Bec2 Require Import Base.Result Base.Bytes Base.Reader Gen.Consts Model.Cbc Model.Bf3 Model.Damage
  Proofs.CbcProofs Proofs.Bf3Proofs Proofs.Bf3TextProofs Proofs.DamageProofs Proofs.DamageStructProofs
  Proofs.DamageReductionProofs Proofs.DamageTextProofs Proofs.DamageCbcProofs Proofs.DamageByteProofs Proofs.DamageTextFinalProofs Proofs.DamageReplaceProofs.
Import ListNotations.
Open Scope N_scope.

Section Adapter.
  Variable E D : bytes -> bytes -> bytes.
  Hypothesis E_len : forall k b, length b = 16%nat -> length (E k b) = 16%nat.
  Hypothesis DE : forall k b, length b = 16%nat -> D k (E k b) = b.

  Let enc := adapter_encrypt E.
  Let dec := adapter_decrypt D.
  Let mac := adapter_mac E.

  Lemma ad_mac_len : forall k iv d m, d <> [] -> mac k iv d = Ok m -> blen m = 16.
  Proof. exact (adapter_mac_len E D E_len DE). Qed.
  Lemma ad_enc_len : forall k d c, blen d mod 16 = 0 -> enc k None d = Ok c -> blen c = blen d.
  Proof. intros k d c Hm He. exact (proj2 (adapter_inverse E D E_len DE k None d c Hm He)). Qed.
  Lemma ad_dec_enc : forall k d c, blen d mod 16 = 0 -> enc k None d = Ok c -> dec k None c = Ok d.
  Proof. intros k d c Hm He. exact (proj1 (adapter_inverse E D E_len DE k None d c Hm He)). Qed.
  Lemma ad_mac_nf : forall k iv d, mac k iv d <> Err EFuel.
  Proof.
    intros k0 iv d. unfold mac, adapter_mac, adapter_encrypt.
    destruct d; cbn [bind]; [discriminate|].
    destruct (negb (key_ok k0)); cbn [bind]; [discriminate|].
    destruct (negb (blen (the_iv iv) =? 16)); cbn [bind]; discriminate.
  Qed.
  Lemma ad_dec_nf : forall k iv d, dec k iv d <> Err EFuel.
  Proof.
    intros k0 iv d. unfold dec, adapter_decrypt.
    destruct (negb (blen d mod 16 =? 0)); [discriminate|]. destruct d; [discriminate|].
    destruct (negb (key_ok k0)); [discriminate|].
    destruct (negb (blen (the_iv iv) =? 16)); discriminate.
  Qed.

  Lemma ad_read_authentic cs off k b check :
    Forall wf_comp cs -> to_binary enc mac cs off k = Ok b ->
    from_binary dec mac (mkR b off) check k = Ok (map view cs).
  Proof. apply (from_binary_to_binary enc dec mac ad_mac_len ad_enc_len ad_dec_enc). Qed.

  Lemma ad_prefix cs off k p s check :
    Forall wf_comp cs -> to_binary enc mac cs off k = Ok (p ++ s) -> s <> [] ->
    exists e, from_binary dec mac (mkR p off) check k = Err e /\ e <> EFuel.
  Proof.
    intros Hwf Hw Hs.
    destruct (from_binary_prefix dec mac p s off check k _ (ad_read_authentic _ _ _ _ check Hwf Hw) Hs) as [e He].
    exists e. split; [exact He|]. intros ->. revert He. apply from_binary_no_fuel; [exact ad_mac_nf|exact ad_dec_nf].
  Qed.

  Lemma ad_suffix cs off k b s check :
    Forall wf_comp cs -> to_binary enc mac cs off k = Ok b -> s <> [] ->
    from_binary dec mac (mkR (b ++ s) off) check k = Err EValue.
  Proof.
    intros Hwf Hw Hs. eapply from_binary_suffix; [|exact Hs]. exact (ad_read_authentic _ _ _ _ check Hwf Hw).
  Qed.

  Lemma ad_text_suffix_removed f k t s check :
    wf_file f -> write_file enc mac f k = Ok t -> filter keep s = [] ->
    read_file dec mac (t ++ s) check k = Ok (file_view f).
  Proof. apply (text_suffix_removed enc dec mac ad_mac_len ad_enc_len ad_dec_enc). Qed.

  Lemma ad_text_suffix_rejected f k t s check :
    wf_file f -> write_file enc mac f k = Ok t -> filter keep s <> [] ->
    read_file dec mac (t ++ s) check k = Err EBf3 \/ read_file dec mac (t ++ s) check k = Err EValue.
  Proof. apply (text_suffix_rejected enc dec mac ad_mac_len ad_enc_len ad_dec_enc). Qed.

  Lemma ad_text_prefix f k t p s check :
    wf_file f -> write_file enc mac f k = Ok t -> t = p ++ s -> s <> [] ->
    (exists e, read_file dec mac p check k = Err e) \/
    read_file dec mac p check k = Ok (file_view f) \/
    (exists b r1 x, to_binary enc mac (f_comps f) (blen BF3_FILE_SIG) k = Ok b /\
       BF3_FILE_SIG ++ b = r1 ++ [x] /\ x <> x00 /\
       read_file dec mac p check k = read_binary dec mac (f_comments f) (r1 ++ [n2b (b2n x / 16)]) check k).
  Proof. apply (text_prefix enc dec mac ad_mac_len ad_enc_len ad_dec_enc). Qed.

  Lemma ad_layout cs1 c cs2 off k b :
    Forall wf_comp (cs1 ++ c :: cs2) -> to_binary enc mac (cs1 ++ c :: cs2) off k = Ok b ->
    exists d1 d2 p1 p2 raw pmac tags emac adr0,
      comp_layout enc mac cs1 c cs2 off k d1 d2 p1 p2 raw pmac tags emac adr0 /\
      b = file_of (dir_of d1 (entry_body (adr0 + blen p1) (blen raw) (c_alen c) pmac tags ++ emac) d2 [x00])
                  (p1 ++ raw ++ p2).
  Proof. apply (to_binary_at enc mac ad_mac_len ad_enc_len). Qed.

  Lemma ad_entry_mac_field cs1 c cs2 off k d1 d2 p1 p2 raw pmac tags emac adr0 emac' :
    comp_layout enc mac cs1 c cs2 off k d1 d2 p1 p2 raw pmac tags emac adr0 ->
    blen emac' = 16 -> emac' <> emac ->
    from_binary dec mac (mkR (file_of (dir_of d1 (entry_body (adr0 + blen p1) (blen raw) (c_alen c) pmac tags ++ emac') d2 [x00])
                                      (p1 ++ raw ++ p2)) off) true k = Err EBf3.
  Proof. apply (entry_mac_field_rejected enc dec mac ad_mac_len ad_enc_len ad_dec_enc). Qed.

  Lemma ad_payload_mac_field cs1 c cs2 off k d1 d2 p1 p2 raw pmac tags emac adr0 pmac' :
    comp_layout enc mac cs1 c cs2 off k d1 d2 p1 p2 raw pmac tags emac adr0 ->
    blen pmac' = 16 -> pmac' <> pmac ->
    exists e,
    from_binary dec mac (mkR (file_of (dir_of d1 (entry_body (adr0 + blen p1) (blen raw) (c_alen c) pmac' tags ++ emac) d2 [x00])
                                      (p1 ++ raw ++ p2)) off) true k = Err e.
  Proof. apply (payload_mac_field_rejected enc dec mac ad_mac_len ad_enc_len ad_dec_enc). Qed.

  Lemma ad_address_field cs1 c cs2 off k d1 d2 p1 p2 raw pmac tags emac adr0 adr' :
    comp_layout enc mac cs1 c cs2 off k d1 d2 p1 p2 raw pmac tags emac adr0 ->
    adr' < 256 ^ N.of_nat 4 -> adr' <> adr0 + blen p1 ->
    exists e,
    from_binary dec mac (mkR (file_of (dir_of d1 (entry_body adr' (blen raw) (c_alen c) pmac tags ++ emac) d2 [x00])
                                      (p1 ++ raw ++ p2)) off) true k = Err e.
  Proof. apply (address_field_rejected enc dec mac ad_mac_len ad_enc_len ad_dec_enc). Qed.

  Lemma ad_sentinel cs off k b y check :
    Forall wf_comp cs -> to_binary enc mac cs off k = Ok b ->
    exists db pb, b = file_of (db ++ [x00]) pb /\ blen b = blen (file_of (db ++ [y]) pb) /\
      (y <> x00 -> from_binary dec mac (mkR (file_of (db ++ [y]) pb) off) check k = Err EValue).
  Proof.
    intros Hwf Hw.
    destruct (to_binary_layout enc mac ad_mac_len ad_enc_len cs off k b Hwf Hw) as [db [pb [Hd [_ [Hsz ->]]]]].
    exists db, pb.
    assert (Hb : forall z, blen (db ++ [z]) = blen db + 1) by (intro z; rewrite blen_app; reflexivity).
    split; [unfold file_of; rewrite Hb; reflexivity|].
    split; [unfold file_of; rewrite !blen_app, !blen_be; reflexivity|].
    intro Hy. exact (sentinel_rejected enc dec mac ad_mac_len ad_enc_len cs off k db pb y check Hwf Hd Hsz Hy).
  Qed.

  Lemma ad_emitted cs off k b :
    Forall wf_comp cs -> to_binary enc mac cs off k = Ok b -> exists E0, macs_emitted enc mac cs off k = Ok E0.
  Proof.
    intros Hwf Hw. destruct (macs_emitted_layout enc mac ad_mac_len ad_enc_len cs off k b Hwf Hw)
      as [db [pb [E0 [_ [_ [_ [_ [HE _]]]]]]]]. exists E0. exact HE.
  Qed.

  Lemma ad_forgery_reduction cs off k b E0 b' k' g :
    Forall wf_comp cs -> to_binary enc mac cs off k = Ok b -> macs_emitted enc mac cs off k = Ok E0 ->
    blen b' = blen b ->
    from_binary dec mac (mkR b' off) true k' = Ok g -> g <> map view cs ->
    (exists q, In q (mac_checks mac b' off k') /\ verified mac q /\ ~ In q E0)
    \/ payload_collision E0.
  Proof. apply (forgery_reduction enc dec mac ad_mac_len ad_enc_len ad_dec_enc). Qed.

  Lemma ad_forgery_reduction_general cs off k b E0 b' k' g :
    Forall wf_comp cs -> to_binary enc mac cs off k = Ok b -> macs_emitted enc mac cs off k = Ok E0 ->
    from_binary dec mac (mkR b' off) true k' = Ok g -> g <> map view cs ->
    (exists q, In q (mac_checks mac b' off k') /\ verified mac q /\ ~ In q E0)
    \/ payload_collision E0
    \/ (b' = empty_file /\ g = [] /\ cs <> []).
  Proof. apply (forgery_reduction_general enc dec mac ad_mac_len ad_enc_len ad_dec_enc). Qed.

  Lemma ad_signature t b cm check k :
    parse_bf3_file t = Ok (b, cm) -> (forall r, b <> BF3_FILE_SIG ++ r) ->
    read_file dec mac t check k = Err EBf3 \/ read_file dec mac t check k = Err EValue.
  Proof. apply signature_rejected. Qed.

  (* one replaced byte of a MAC'd message changes the tag (CBC over an invertible block function) *)
  Lemma ad_mac_byte : forall k iv u x y v t,
    mac k iv (u ++ x :: v) = Ok t -> mac k iv (u ++ y :: v) = Ok t -> x = y.
  Proof. exact (adapter_mac_byte E D E_len DE). Qed.

  Lemma ad_entry_body_byte cs1 c cs2 off k d1 d2 p1 p2 raw pmac tags emac adr0 u x v y :
    comp_layout enc mac cs1 c cs2 off k d1 d2 p1 p2 raw pmac tags emac adr0 ->
    entry_body (adr0 + blen p1) (blen raw) (c_alen c) pmac tags = u ++ x :: v -> y <> x ->
    exists e,
    from_binary dec mac (mkR (file_of (dir_of d1 ((u ++ y :: v) ++ emac) d2 [x00]) (p1 ++ raw ++ p2)) off) true k = Err e.
  Proof. apply (entry_body_byte_rejected enc dec mac ad_mac_len ad_enc_len ad_dec_enc ad_mac_byte). Qed.

  Lemma ad_payload_byte cs1 c cs2 off k d1 d2 p1 p2 raw pmac tags emac adr0 u x v y :
    comp_layout enc mac cs1 c cs2 off k d1 d2 p1 p2 raw pmac tags emac adr0 ->
    raw = u ++ x :: v -> y <> x ->
    exists e,
    from_binary dec mac (mkR (file_of (dir_of d1 (entry_body (adr0 + blen p1) (blen raw) (c_alen c) pmac tags ++ emac) d2 [x00])
                                      (p1 ++ (u ++ y :: v) ++ p2)) off) true k = Err e.
  Proof. apply (payload_byte_rejected enc dec mac ad_mac_len ad_enc_len ad_dec_enc ad_mac_byte). Qed.

  Lemma ad_text_prefix_full f k t p s :
    wf_file f -> write_file enc mac f k = Ok t -> t = p ++ s -> s <> [] ->
    (exists e, read_file dec mac p true k = Err e) \/ read_file dec mac p true k = Ok (file_view f).
  Proof. apply (text_prefix_full enc dec mac ad_mac_len ad_enc_len ad_dec_enc ad_mac_byte). Qed.

  Lemma ad_last_byte cs off k b b1 x y :
    Forall wf_comp cs -> to_binary enc mac cs off k = Ok b -> b = b1 ++ [x] -> x <> x00 -> y <> x ->
    exists e, from_binary dec mac (mkR (b1 ++ [y]) off) true k = Err e.
  Proof. apply (last_byte_rejected enc dec mac ad_mac_len ad_enc_len ad_dec_enc ad_mac_byte). Qed.

  Lemma ad_byte_replacement cs off k b u x v y :
    Forall wf_comp cs -> to_binary enc mac cs off k = Ok b -> b = u ++ x :: v -> y <> x ->
    exists e, from_binary dec mac (mkR (u ++ y :: v) off) true k = Err e /\ e <> EFuel.
  Proof.
    intros Hwf Hw Hb Hy.
    destruct (byte_replacement enc dec mac ad_mac_len ad_enc_len ad_mac_byte cs off k b u x v y Hwf Hw Hb Hy) as [e He].
    exists e. split; [exact He|]. intros ->. revert He. apply from_binary_no_fuel; [exact ad_mac_nf|exact ad_dec_nf].
  Qed.

  (* text level: the binary decoded from the text is the authentic one (signature included)
     with one byte replaced *)
  Lemma ad_text_byte_replacement f k b t' cm u x v y :
    Forall wf_comp (f_comps f) -> to_binary enc mac (f_comps f) (blen BF3_FILE_SIG) k = Ok b ->
    BF3_FILE_SIG ++ b = u ++ x :: v -> y <> x ->
    parse_bf3_file t' = Ok (u ++ y :: v, cm) ->
    exists e, read_file dec mac t' true k = Err e.
  Proof.
    intros Hwf Hb Hraw Hy Hp.
    apply app_eq_app in Hraw as [l [[Hsig Hrest]|[Hu Hbb]]].
    - destruct l as [|c0 l].
      + rewrite app_nil_r in Hsig. cbn [app] in Hrest. subst u.
        unfold read_file. rewrite Hp. cbn [bind]. unfold new_reader. rewrite rd_read_app. cbn [bind].
        rewrite bytes_eqb_refl. cbn [negb].
        destruct (ad_byte_replacement (f_comps f) _ k b [] x v y Hwf Hb (eq_sym Hrest) Hy) as [e [He _]].
        cbn [app] in He. change (0 + blen BF3_FILE_SIG) with (blen BF3_FILE_SIG). rewrite He. exists e. reflexivity.
      + cbn [app] in Hrest. injection Hrest as <- Hv.
        destruct (signature_rejected dec mac t' (u ++ y :: v) cm true k Hp) as [H|H]; [|eexists; exact H|eexists; exact H].
        intros r Hr. rewrite Hv in Hr.
        replace (u ++ y :: l ++ b) with ((u ++ y :: l) ++ b) in Hr by (rewrite <- app_assoc; reflexivity).
        apply app_inv_length in Hr as [Hr _].
        * rewrite Hsig in Hr. apply app_inv_head in Hr. inversion Hr. apply Hy. congruence.
        * rewrite Hsig, !app_length. reflexivity.
    - subst u. unfold read_file. rewrite Hp. cbn [bind]. unfold new_reader.
      rewrite <- app_assoc, rd_read_app. cbn [bind]. rewrite bytes_eqb_refl. cbn [negb].
      destruct (ad_byte_replacement (f_comps f) _ k b l x v y Hwf Hb Hbb Hy) as [e [He _]].
      change (0 + blen BF3_FILE_SIG) with (blen BF3_FILE_SIG). rewrite He. exists e. reflexivity.
  Qed.
End Adapter.
