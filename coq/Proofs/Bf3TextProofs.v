(* C01 text layer: parse_bf3_file inverts write_bf3_format; newline translation *)
From Coq Require Import List Bool NArith ZArith Lia.
From Coq Require Import Init.Byte.
From Bec2 Require Import Base.Result Base.Bytes Base.Reader Base.Sweep Gen.Consts Model.Bf3 Proofs.Bf3Proofs.
Import ListNotations.
Open Scope N_scope.

(* ---- hex ------------------------------------------------------------------- *)
Definition hex_ok (x : N) : bool :=
  let hi := hexdigit (x / 16) in let lo := hexdigit (x mod 16) in
  negb (hex_removed hi) && negb (hex_removed lo) &&
  match hex_val hi, hex_val lo with
  | Some a, Some b => 16 * a + b =? x
  | _, _ => false
  end.
Lemma hex_ok_sweep : forallb hex_ok (Nrange 256) = true.
Proof. vm_compute. reflexivity. Qed.
Lemma hex_ok_all x : x < 256 -> hex_ok x = true.
Proof. apply (sweep hex_ok 256 hex_ok_sweep). Qed.

Lemma filter_hex_of_bytes b :
  filter (fun c => negb (hex_removed c)) (hex_of_bytes b) = hex_of_bytes b.
Proof.
  induction b as [|x b IH]; [reflexivity|].
  unfold hex_of_bytes in *. cbn [flat_map app filter].
  pose proof (hex_ok_all (b2n x) (b2n_lt x)) as H. unfold hex_ok in H. cbv zeta in H.
  apply andb_true_iff in H as [H _]. apply andb_true_iff in H as [H1 H2].
  rewrite H1, H2, IH. reflexivity.
Qed.

Lemma unhexlify_hex_of_bytes b : unhexlify (hex_of_bytes b) = Ok b.
Proof.
  induction b as [|x b IH]; [reflexivity|].
  unfold hex_of_bytes in *. cbn [flat_map app unhexlify].
  pose proof (hex_ok_all (b2n x) (b2n_lt x)) as H. unfold hex_ok in H. cbv zeta in H.
  apply andb_true_iff in H as [_ H].
  destruct (hex_val (hexdigit (b2n x / 16))) as [a|]; [|discriminate].
  destruct (hex_val (hexdigit (b2n x mod 16))) as [c|]; [|discriminate].
  apply N.eqb_eq in H. rewrite IH. cbn [bind]. rewrite H, n2b_b2n. reflexivity.
Qed.

Lemma hex_of_bytes_app a b : hex_of_bytes (a ++ b) = hex_of_bytes a ++ hex_of_bytes b.
Proof. unfold hex_of_bytes. apply flat_map_app. Qed.

Lemma hex_of_bytes_len b : blen (hex_of_bytes b) = 2 * blen b.
Proof.
  induction b as [|x b IH]; [reflexivity|].
  unfold hex_of_bytes in *. cbn [flat_map app]. rewrite !blen_cons, IH. lia.
Qed.

Lemma firstn_plus {A} a : forall b (l : list A), firstn (a + b) l = firstn a l ++ firstn b (skipn a l).
Proof.
  induction a as [|a IH]; intros b l; [reflexivity|].
  destruct l as [|x l]; [simpl; rewrite firstn_nil; reflexivity|].
  simpl. rewrite IH. reflexivity.
Qed.

Lemma filter_hex_lines fuel : forall b,
  filter (fun c => negb (hex_removed c)) (hex_lines fuel b) = hex_of_bytes (firstn (40 * fuel) b).
Proof.
  induction fuel as [|f IH]; intro b.
  - simpl. reflexivity.
  - cbn [hex_lines]. rewrite !filter_app, filter_hex_of_bytes, IH.
    change (filter (fun c => negb (hex_removed c)) [NL]) with (@nil N). cbn [app].
    rewrite <- hex_of_bytes_app. f_equal.
    replace (40 * S f)%nat with (40 + 40 * f)%nat by lia.
    rewrite firstn_plus. reflexivity.
Qed.

Lemma n_hex_lines_enough len : (N.to_nat len <= 40 * N.to_nat (n_hex_lines len))%nat.
Proof.
  unfold n_hex_lines. change (END_OF_LINE / 2 - 1) with 39. change (END_OF_LINE / 2) with 40.
  pose proof (N.div_mod (len + 39 + 39) 40 ltac:(lia)) as E.
  pose proof (N.mod_upper_bound (len + 39 + 39) 40 ltac:(lia)) as U.
  set (q := (len + 39 + 39) / 40) in *. lia.
Qed.

Theorem hex2bin_hex_lines b :
  hex2bin (hex_lines (N.to_nat (n_hex_lines (blen b))) b) = Ok b.
Proof.
  unfold hex2bin. rewrite filter_hex_lines.
  rewrite firstn_all2.
  2:{ pose proof (n_hex_lines_enough (blen b)). unfold blen in *. lia. }
  rewrite hex_of_bytes_len.
  replace (N.odd (2 * blen b)) with false.
  2:{ symmetry. rewrite N.odd_mul. reflexivity. }
  apply unhexlify_hex_of_bytes.
Qed.

(* ---- comments ---------------------------------------------------------------- *)
Definition no_char (c : N) (s : str) : Prop := ~ In c s.

Definition wf_value (v : str) : Prop :=
  no_char NL v /\ lstrip v = v /\ lstrip (rev v) = rev v.
Definition wf_key (k : str) : Prop := no_char NL k /\ no_char COLON k.
Definition wf_comments (cm : comments) : Prop :=
  NoDup (map fst cm) /\ Forall (fun kv => wf_key (fst kv) /\ wf_value (snd kv)) cm.

Lemma readline_line body rest : no_char NL body -> readline (body ++ NL :: rest) = (body ++ [NL], rest).
Proof.
  induction body as [|c body IH]; intro H.
  - simpl. reflexivity.
  - cbn [app readline]. destruct (c =? NL) eqn:E.
    + apply N.eqb_eq in E. exfalso. apply H. left. exact E.
    + rewrite IH; [reflexivity|]. intro Hin. apply H. right. exact Hin.
Qed.

Lemma split_colon_key k rest : no_char COLON k -> split_colon (k ++ COLON :: rest) = Some (k, rest).
Proof.
  induction k as [|c k IH]; intro H.
  - reflexivity.
  - cbn [app split_colon]. destruct (c =? COLON) eqn:E.
    + apply N.eqb_eq in E. exfalso. apply H. left. exact E.
    + rewrite IH; [reflexivity|]. intro Hin. apply H. right. exact Hin.
Qed.

Lemma lstrip_nonspace v : lstrip v = v -> v <> [] -> exists c t, v = c :: t /\ is_space c = false.
Proof.
  destruct v as [|c t]; [contradiction|]. intros H _. exists c, t. split; [reflexivity|].
  cbn [lstrip] in H. destruct (is_space c) eqn:E; [|reflexivity].
  exfalso. clear E.
  assert (L : forall s, (length (lstrip s) <= length s)%nat).
  { induction s as [|x s IHs]; simpl; [lia|]. destruct (is_space x); simpl; lia. }
  specialize (L t). rewrite H in L. simpl in L. lia.
Qed.

Lemma lstrip_app_nonempty v w : lstrip v = v -> v <> [] -> lstrip (v ++ w) = v ++ w.
Proof.
  intros H Hne. destruct (lstrip_nonspace v H Hne) as [c [t [-> E]]].
  cbn [app lstrip]. rewrite E. reflexivity.
Qed.

Lemma strip_value v : wf_value v -> strip ([SPACE] ++ v ++ [NL]) = v.
Proof.
  intros [_ [H1 H2]]. unfold strip. cbn [app lstrip].
  change (is_space SPACE) with true. cbv iota.
  destruct v as [|c t] eqn:Ev.
  - reflexivity.
  - rewrite <- Ev in *.
    assert (Hne : v <> []) by (rewrite Ev; discriminate).
    rewrite (lstrip_app_nonempty v [NL] H1 Hne).
    rewrite rev_app_distr. cbn [rev app lstrip].
    change (is_space NL) with true. cbv iota.
    rewrite H2. apply rev_involutive.
Qed.

Definition print_comments (cm : comments) : str :=
  flat_map (fun '(k, v) => k ++ [COLON; SPACE] ++ v ++ [NL]) cm.

Lemma str_eqb_eq a b : str_eqb a b = true <-> a = b.
Proof. apply list_eqb_eq. intros x y. apply N.eqb_eq. Qed.

Lemma dict_mem_str_in (d : comments) k : dict_mem str_eqb d k = true <-> In k (map fst d).
Proof.
  induction d as [|[k' v] d IH]; simpl; [split; [discriminate|tauto]|].
  rewrite orb_true_iff, IH, str_eqb_eq. tauto.
Qed.

Lemma dict_set_str_fresh (d : comments) k v :
  ~ In k (map fst d) -> dict_set str_eqb d k v = d ++ [(k, v)].
Proof.
  induction d as [|[k' w] d IH]; simpl; [reflexivity|].
  intro H. destruct (str_eqb k' k) eqn:E.
  - apply str_eqb_eq in E. exfalso. apply H. left. exact E.
  - rewrite IH; [reflexivity|]. intro Hin. apply H. right. exact Hin.
Qed.

Lemma parse_comments_print cm : forall acc rest fuel,
  Forall (fun kv => wf_key (fst kv) /\ wf_value (snd kv)) cm ->
  NoDup (map fst (acc ++ cm)) ->
  (length cm < fuel)%nat ->
  parse_comments fuel (print_comments cm ++ [NL] ++ rest) acc = Ok (acc ++ cm, rest).
Proof.
  induction cm as [|[k v] cm IH]; intros acc rest fuel Hwf ND Hf.
  - destruct fuel; [simpl in Hf; lia|]. cbn. rewrite app_nil_r. reflexivity.
  - destruct fuel as [|fuel]; [simpl in Hf; lia|].
    inversion Hwf as [|? ? [[Hk1 Hk2] Hv] Hwf']; subst. cbn [fst snd] in *.
    assert (Hshape : print_comments ((k, v) :: cm) ++ [NL] ++ rest =
                     (k ++ [COLON; SPACE] ++ v) ++ NL :: (print_comments cm ++ [NL] ++ rest)).
    { unfold print_comments. cbn [flat_map]. rewrite <- !app_assoc. reflexivity. }
    rewrite Hshape. cbn [parse_comments].
    rewrite readline_line.
    2:{ intro Hin. apply in_app_or in Hin as [Hin|Hin]; [exact (Hk1 Hin)|].
        apply in_app_or in Hin as [Hin|Hin].
        - simpl in Hin. destruct Hin as [Hin|[Hin|[]]]; discriminate.
        - destruct Hv as [Hv _]. exact (Hv Hin). }
    destruct (str_eqb ((k ++ [COLON; SPACE] ++ v) ++ [NL]) [NL]) eqn:E.
    { apply str_eqb_eq in E. apply (f_equal (@length N)) in E. rewrite !app_length in E. simpl in E. lia. }
    replace ((k ++ [COLON; SPACE] ++ v) ++ [NL]) with (k ++ COLON :: ([SPACE] ++ v ++ [NL]))
      by (rewrite <- !app_assoc; reflexivity).
    rewrite (split_colon_key k _ Hk2). rewrite (strip_value v Hv).
    assert (Hfresh : ~ In k (map fst acc)).
    { rewrite map_app in ND. cbn [map fst] in ND. apply NoDup_remove_2 in ND.
      intro Hin. apply ND. apply in_or_app. left. exact Hin. }
    rewrite (dict_set_str_fresh acc k v Hfresh).
    rewrite (IH (acc ++ [(k, v)]) rest fuel Hwf').
    + rewrite <- app_assoc. reflexivity.
    + rewrite <- app_assoc. exact ND.
    + simpl in Hf. lia.
Qed.

Lemma print_comments_len cm : (length cm <= length (print_comments cm))%nat.
Proof.
  induction cm as [|[k v] cm IH]; [simpl; lia|].
  unfold print_comments in *. cbn [flat_map]. rewrite !app_length. cbn [length]. lia.
Qed.

Theorem parse_bf3_write cm raw :
  wf_comments cm -> parse_bf3_file (write_bf3_format cm raw) = Ok (raw, cm).
Proof.
  intros [ND Hwf]. unfold parse_bf3_file, write_bf3_format. fold (print_comments cm).
  rewrite (parse_comments_print cm [] _ _ Hwf ND).
  2:{ pose proof (print_comments_len cm). rewrite !app_length. simpl. lia. }
  cbn [bind app]. rewrite hex2bin_hex_lines. reflexivity.
Qed.

(* ---- newline translation of path I/O ----------------------------------------- *)
Lemma universal_crlf t : no_char CR t -> universal_in (crlf_out t) = t.
Proof.
  induction t as [|c t IH]; intro H; [reflexivity|].
  assert (Ht : no_char CR t) by (intro Hin; apply H; right; exact Hin).
  cbn [crlf_out]. destruct (c =? NL) eqn:E.
  - apply N.eqb_eq in E. subst c. cbn [universal_in].
    change (CR =? CR) with true. change (NL =? NL) with true. cbv iota. rewrite IH by exact Ht. reflexivity.
  - cbn [universal_in]. destruct (c =? CR) eqn:E2.
    + apply N.eqb_eq in E2. exfalso. apply H. left. exact E2.
    + rewrite IH by exact Ht. reflexivity.
Qed.

(* ---- whole-file theorems over an abstract cipher triple ------------------------ *)
Section File.
  Variable enc dec mac : bytes -> option bytes -> bytes -> result bytes.
  Hypothesis mac_len : forall k iv d m, d <> [] -> mac k iv d = Ok m -> blen m = 16.
  Hypothesis enc_len : forall k d c, blen d mod 16 = 0 -> enc k None d = Ok c -> blen c = blen d.
  Hypothesis dec_enc : forall k d c, blen d mod 16 = 0 -> enc k None d = Ok c -> dec k None c = Ok d.

  Definition wf_file (f : bf3) : Prop :=
    wf_comments (f_comments f) /\ Forall wf_comp (f_comps f).

  Definition file_view (f : bf3) : bf3 := mkBf3 (f_comments f) (map view (f_comps f)).

  Local Opaque BF3_FILE_SIG.
  Theorem read_write_file f k t check :
    wf_file f -> write_file enc mac f k = Ok t ->
    read_file dec mac t check k = Ok (file_view f).
  Proof.
    intros [Hc Hw] H. unfold write_file in H.
    destruct (to_binary enc mac (f_comps f) (blen BF3_FILE_SIG) k) as [b|] eqn:Eb; cbn [bind] in H; [|discriminate].
    injection H as <-.
    unfold read_file. rewrite (parse_bf3_write _ _ Hc). cbn [bind].
    unfold new_reader. rewrite rd_read_app. cbn [bind]. rewrite bytes_eqb_refl. cbn [negb].
    change (0 + blen BF3_FILE_SIG) with (blen BF3_FILE_SIG).
    rewrite (from_binary_to_binary enc dec mac mac_len enc_len dec_enc _ _ _ _ check Hw Eb).
    reflexivity.
  Qed.

  Local Transparent BF3_FILE_SIG.
  Lemma view_plain cs : Forall (fun c => c_enc c = false) cs -> map view cs = cs.
  Proof.
    induction cs as [|c cs IH]; intro H; [reflexivity|].
    inversion H; subst. cbn [map]. rewrite IH by assumption. unfold view.
    match goal with E : c_enc c = false |- _ => rewrite E end. reflexivity.
  Qed.
End File.

Lemma hexdigit_not_cr n : hexdigit n <> CR.
Proof. unfold hexdigit, CR. destruct (n <? 10); lia. Qed.

Lemma hex_lines_no_cr fuel : forall b, no_char CR (hex_lines fuel b).
Proof.
  induction fuel as [|f IH]; intros b Hin; [exact Hin|].
  cbn [hex_lines] in Hin. apply in_app_or in Hin as [Hin|Hin].
  - unfold hex_of_bytes in Hin. apply in_flat_map in Hin as [x [_ Hx]].
    simpl in Hx. destruct Hx as [Hx|[Hx|[]]]; exact (hexdigit_not_cr _ Hx).
  - apply in_app_or in Hin as [Hin|Hin].
    + simpl in Hin. destruct Hin as [Hin|[]]. discriminate.
    + exact (IH _ Hin).
Qed.

Definition comments_no_cr (cm : comments) : Prop :=
  Forall (fun kv => no_char CR (fst kv) /\ no_char CR (snd kv)) cm.

Lemma write_bf3_format_no_cr cm raw : comments_no_cr cm -> no_char CR (write_bf3_format cm raw).
Proof.
  intros H Hin. unfold write_bf3_format in Hin.
  apply in_app_or in Hin as [Hin|Hin].
  - apply in_flat_map in Hin as [[k v] [Hkv Hx]].
    unfold comments_no_cr in H. rewrite Forall_forall in H. destruct (H _ Hkv) as [H1 H2]. cbn [fst snd] in *.
    apply in_app_or in Hx as [Hx|Hx]; [exact (H1 Hx)|].
    apply in_app_or in Hx as [Hx|Hx].
    + simpl in Hx. destruct Hx as [Hx|[Hx|[]]]; discriminate.
    + apply in_app_or in Hx as [Hx|Hx]; [exact (H2 Hx)|].
      simpl in Hx. destruct Hx as [Hx|[]]. discriminate.
  - apply in_app_or in Hin as [Hin|Hin].
    + simpl in Hin. destruct Hin as [Hin|[]]. discriminate.
    + exact (hex_lines_no_cr _ _ Hin).
Qed.
