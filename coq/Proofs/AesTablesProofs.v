(* The fourteen lookup tables of pyaes (Gen/AesTables.v, regenerated from the source
   on every run) equal their GF(2^8) definitions entry by entry; rcon holds the
   powers of x; number_of_rounds is 10/12/14.  Exhaustive boolean sweeps over the 256
   indices, evaluated by vm_compute and lifted with Base/Sweep.v. *)
From Coq Require Import List Bool Arith NArith Lia.
From Bec2 Require Import Base.Sweep Gen.AesTables Model.AesSpec.
Import ListNotations.
Open Scope N_scope.

(* table[x] as Python reads it *)
Definition tbl (t : list N) (x : N) : N := nth (N.to_nat x) t 0.
(* the four bytes a b c d as one big-endian 32-bit word *)
Definition pack4 (a b c d : N) : N := a * 2 ^ 24 + b * 2 ^ 16 + c * 2 ^ 8 + d.

Definition table_lengths_ok : bool :=
  forallb (fun t => Nat.eqb (length t) 256)
    [S_tbl; Si_tbl; T1_tbl; T2_tbl; T3_tbl; T4_tbl; T5_tbl; T6_tbl; T7_tbl; T8_tbl; U1_tbl; U2_tbl; U3_tbl; U4_tbl].

Definition sbox_tables_ok (x : N) : bool :=
  (tbl S_tbl x =? sbox x) && (tbl Si_tbl (sbox x) =? x) && (tbl S_tbl (tbl Si_tbl x) =? x) &&
  (tbl Si_tbl x =? inv_sbox x) && (sbox x <? 256) && (inv_sbox x <? 256).

Definition enc_tables_ok (x : N) : bool :=
  let s := sbox x in
  (tbl T1_tbl x =? pack4 (gmul 2 s) s s (gmul 3 s)) &&
  (tbl T2_tbl x =? pack4 (gmul 3 s) (gmul 2 s) s s) &&
  (tbl T3_tbl x =? pack4 s (gmul 3 s) (gmul 2 s) s) &&
  (tbl T4_tbl x =? pack4 s s (gmul 3 s) (gmul 2 s)).

Definition dec_tables_ok (x : N) : bool :=
  let s := inv_sbox x in
  (tbl T5_tbl x =? pack4 (gmul 14 s) (gmul 9 s) (gmul 13 s) (gmul 11 s)) &&
  (tbl T6_tbl x =? pack4 (gmul 11 s) (gmul 14 s) (gmul 9 s) (gmul 13 s)) &&
  (tbl T7_tbl x =? pack4 (gmul 13 s) (gmul 11 s) (gmul 14 s) (gmul 9 s)) &&
  (tbl T8_tbl x =? pack4 (gmul 9 s) (gmul 13 s) (gmul 11 s) (gmul 14 s)).

Definition key_tables_ok (x : N) : bool :=
  (tbl U1_tbl x =? pack4 (gmul 14 x) (gmul 9 x) (gmul 13 x) (gmul 11 x)) &&
  (tbl U2_tbl x =? pack4 (gmul 11 x) (gmul 14 x) (gmul 9 x) (gmul 13 x)) &&
  (tbl U3_tbl x =? pack4 (gmul 13 x) (gmul 11 x) (gmul 14 x) (gmul 9 x)) &&
  (tbl U4_tbl x =? pack4 (gmul 9 x) (gmul 13 x) (gmul 11 x) (gmul 14 x)).

Ltac split_andb H :=
  repeat match type of H with
  | (_ && _) = true => let H1 := fresh H in apply andb_true_iff in H as [H H1]; split_andb H1
  end.

Lemma table_lengths :
  Forall (fun t => length t = 256%nat)
    [S_tbl; Si_tbl; T1_tbl; T2_tbl; T3_tbl; T4_tbl; T5_tbl; T6_tbl; T7_tbl; T8_tbl; U1_tbl; U2_tbl; U3_tbl; U4_tbl].
Proof.
  assert (H : table_lengths_ok = true) by (vm_compute; reflexivity).
  unfold table_lengths_ok in H. rewrite forallb_forall in H.
  apply Forall_forall. intros t Ht. apply Nat.eqb_eq, H, Ht.
Qed.

Lemma sbox_tables x : x < 256 ->
  tbl S_tbl x = sbox x /\ tbl Si_tbl (sbox x) = x /\ tbl S_tbl (tbl Si_tbl x) = x /\
  tbl Si_tbl x = inv_sbox x /\ sbox x < 256 /\ inv_sbox x < 256.
Proof.
  intro Hx.
  assert (H : forallb sbox_tables_ok (Nrange 256) = true) by (vm_compute; reflexivity).
  pose proof (sweep _ _ H x Hx) as H0. unfold sbox_tables_ok in H0.
  repeat (apply andb_true_iff in H0 as [H0 ?]).
  repeat split; first [apply N.eqb_eq; assumption | apply N.ltb_lt; assumption].
Qed.

Lemma enc_tables x : x < 256 ->
  let s := sbox x in
  tbl T1_tbl x = pack4 (gmul 2 s) s s (gmul 3 s) /\
  tbl T2_tbl x = pack4 (gmul 3 s) (gmul 2 s) s s /\
  tbl T3_tbl x = pack4 s (gmul 3 s) (gmul 2 s) s /\
  tbl T4_tbl x = pack4 s s (gmul 3 s) (gmul 2 s).
Proof.
  intro Hx.
  assert (H : forallb enc_tables_ok (Nrange 256) = true) by (vm_compute; reflexivity).
  pose proof (sweep _ _ H x Hx) as H0. unfold enc_tables_ok in H0. cbv zeta in H0.
  repeat (apply andb_true_iff in H0 as [H0 ?]).
  cbv zeta. repeat split; apply N.eqb_eq; assumption.
Qed.

Lemma dec_tables x : x < 256 ->
  let s := inv_sbox x in
  tbl T5_tbl x = pack4 (gmul 14 s) (gmul 9 s) (gmul 13 s) (gmul 11 s) /\
  tbl T6_tbl x = pack4 (gmul 11 s) (gmul 14 s) (gmul 9 s) (gmul 13 s) /\
  tbl T7_tbl x = pack4 (gmul 13 s) (gmul 11 s) (gmul 14 s) (gmul 9 s) /\
  tbl T8_tbl x = pack4 (gmul 9 s) (gmul 13 s) (gmul 11 s) (gmul 14 s).
Proof.
  intro Hx.
  assert (H : forallb dec_tables_ok (Nrange 256) = true) by (vm_compute; reflexivity).
  pose proof (sweep _ _ H x Hx) as H0. unfold dec_tables_ok in H0. cbv zeta in H0.
  repeat (apply andb_true_iff in H0 as [H0 ?]).
  cbv zeta. repeat split; apply N.eqb_eq; assumption.
Qed.

Lemma key_tables x : x < 256 ->
  tbl U1_tbl x = pack4 (gmul 14 x) (gmul 9 x) (gmul 13 x) (gmul 11 x) /\
  tbl U2_tbl x = pack4 (gmul 11 x) (gmul 14 x) (gmul 9 x) (gmul 13 x) /\
  tbl U3_tbl x = pack4 (gmul 13 x) (gmul 11 x) (gmul 14 x) (gmul 9 x) /\
  tbl U4_tbl x = pack4 (gmul 9 x) (gmul 13 x) (gmul 11 x) (gmul 14 x).
Proof.
  intro Hx.
  assert (H : forallb key_tables_ok (Nrange 256) = true) by (vm_compute; reflexivity).
  pose proof (sweep _ _ H x Hx) as H0. unfold key_tables_ok in H0.
  repeat (apply andb_true_iff in H0 as [H0 ?]).
  repeat split; apply N.eqb_eq; assumption.
Qed.

(* rcon[i] = x^i in GF(2^8) for every entry of the list; at least the ten entries the
   key schedule can reach are present *)
Lemma rcon_table :
  (10 <= length rcon_tbl)%nat /\
  forall i, (i < length rcon_tbl)%nat -> nth i rcon_tbl 0 = xpow i.
Proof.
  split; [vm_compute; lia|].
  assert (H : forallb (fun i => nth i rcon_tbl 0 =? xpow i) (seq 0 (length rcon_tbl)) = true)
    by (vm_compute; reflexivity).
  rewrite forallb_forall in H. intros i Hi. apply N.eqb_eq, H, in_seq. lia.
Qed.

Lemma number_of_rounds_table :
  forall n, In n [16; 24; 32] ->
  exists r, find (fun p => fst p =? n) number_of_rounds_tbl = Some (n, r) /\ r = n / 4 + 6.
Proof.
  intros n [<-|[<-|[<-|[]]]]; eexists; (split; [vm_compute; reflexivity|reflexivity]).
Qed.
