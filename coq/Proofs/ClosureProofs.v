(* C14: the BF3 / BEC2 reader models return only Ok, a format error or a
   ValueError, and never run out of fuel. *)
From Coq Require Import List Bool NArith ZArith Lia.
From Coq Require Import Init.Byte.
From Bec2 Require Import Base.Result Base.Bytes Base.Reader Gen.Consts Model.Cbc Model.Bf3 Model.AesContainer Model.Bec2
  Proofs.AesContainerProofs.
Import ListNotations.
Open Scope N_scope.

Definition okerr {A} (r : result A) : Prop :=
  match r with Ok _ => True | Err e => is_format_or_value e = true end.

Lemma okerr_bind {A B} (r : result A) (f : A -> result B) :
  okerr r -> (forall a, r = Ok a -> okerr (f a)) -> okerr (bind r f).
Proof. destruct r as [a|e]; cbn; intros H1 H2; [apply H2; reflexivity|exact H1]. Qed.

Lemma okerr_ok {A} (a : A) : okerr (Ok a). Proof. exact I. Qed.

Lemma rd_read_okerr n r : okerr (rd_read n r).
Proof. unfold rd_read. destruct (n <=? blen (rest r)); cbn; auto. Qed.
Lemma rd_read_int_okerr n r : okerr (rd_read_int n r).
Proof. unfold rd_read_int. apply okerr_bind; [apply rd_read_okerr|]. intros [b r'] _. exact I. Qed.
Lemma rd_ensure_eof_okerr r : okerr (rd_ensure_eof r).
Proof. unfold rd_ensure_eof. destruct (rd_eof r); cbn; auto. Qed.

Lemma rd_read_rest n r b r' : rd_read n r = Ok (b, r') ->
  (length (rest r') + N.to_nat n = length (rest r))%nat /\ length b = N.to_nat n.
Proof.
  intro H. destruct (rd_read_ok _ _ _ _ H) as [E [L _]]. rewrite E, app_length.
  unfold blen in L. lia.
Qed.
Lemma rd_read_int_rest n r v r' : rd_read_int n r = Ok (v, r') ->
  (length (rest r') + N.to_nat n = length (rest r))%nat.
Proof.
  unfold rd_read_int. destruct (rd_read n r) as [[b r1]|] eqn:E; cbn [bind]; [|discriminate].
  intro H. inversion H; subst. exact (proj1 (rd_read_rest _ _ _ _ E)).
Qed.

(* ---- text layer --------------------------------------------------------------- *)
Lemma unhexlify_okerr s : okerr (unhexlify s).
Proof.
  revert s. fix IH 1. intros [|a [|b t]]; cbn; auto.
  destruct (hex_val a); [|cbn; auto]. destruct (hex_val b); [|cbn; auto].
  apply okerr_bind; [apply IH|]. intros; exact I.
Qed.
Lemma hex2bin_okerr s : okerr (hex2bin s).
Proof. unfold hex2bin. apply unhexlify_okerr. Qed.

Lemma readline_len s l r : readline s = (l, r) -> (length l + length r = length s)%nat.
Proof.
  revert l r; induction s as [|c s IH]; intros l r H; cbn in H.
  - inversion H; reflexivity.
  - destruct (c =? NL).
    + inversion H; subst. simpl. lia.
    + destruct (readline s) as [l1 r1] eqn:E. inversion H; subst. specialize (IH _ _ eq_refl). simpl. lia.
Qed.
Lemma split_colon_nonempty s a b : split_colon s = Some (a, b) -> s <> [].
Proof. destruct s; [discriminate|discriminate]. Qed.

Lemma parse_comments_okerr fuel : forall s acc, (length s < fuel)%nat -> okerr (parse_comments fuel s acc).
Proof.
  induction fuel as [|f IH]; intros s acc Hf; [lia|].
  cbn [parse_comments]. destruct (readline s) as [line rst] eqn:Er.
  destruct (str_eqb line [NL]); [exact I|].
  destruct (split_colon line) as [[k v]|] eqn:Es; [|cbn; auto].
  apply IH. pose proof (readline_len _ _ _ Er). pose proof (split_colon_nonempty _ _ _ Es).
  destruct line; [contradiction|]. simpl in *. lia.
Qed.

Lemma parse_bf3_file_okerr t : okerr (parse_bf3_file t).
Proof.
  unfold parse_bf3_file. apply okerr_bind; [apply parse_comments_okerr; lia|].
  intros [cm rst] _. apply okerr_bind; [|intros; exact I].
  pose proof (hex2bin_okerr rst) as H. unfold catch. destruct (hex2bin rst) as [b|e]; [exact I|].
  destruct (is_value e) eqn:E; [reflexivity|exact H].
Qed.

(* ---- binary reader ---------------------------------------------------------------- *)
Section Reader.
  Variable dec mac : bytes -> option bytes -> bytes -> result bytes.
  Hypothesis mac_okerr : forall k iv d, okerr (mac k iv d).
  Hypothesis dec_okerr : forall k iv d, okerr (dec k iv d).

  Lemma parse_tags_okerr fuel : forall r acc, (length (rest r) < fuel)%nat -> okerr (parse_tags fuel r acc).
  Proof.
    induction fuel as [|f IH]; intros r acc Hf; [lia|].
    cbn [parse_tags]. destruct (rd_eof r); [exact I|].
    apply okerr_bind; [apply rd_read_int_okerr|]. intros [id r1] E1.
    apply okerr_bind; [apply rd_read_int_okerr|]. intros [tl r2] E2.
    apply okerr_bind; [apply rd_read_okerr|]. intros [tv r3] E3.
    destruct (dict_mem N.eqb acc id); [reflexivity|].
    apply IH. apply rd_read_int_rest in E1. apply rd_read_int_rest in E2. apply rd_read_rest in E3.
    change (N.to_nat 1) with 1%nat in *. lia.
  Qed.

  Lemma to_bytes16_ok ndx : ndx < 2 ^ 64 -> exists b, to_bytes 16 ndx = Ok b.
  Proof.
    intro H. unfold to_bytes.
    destruct (ndx <? 256 ^ N.of_nat 16) eqn:E; [eexists; reflexivity|].
    apply N.ltb_ge in E. change (256 ^ N.of_nat 16) with (2 ^ 128) in E.
    assert (2 ^ 64 < 2 ^ 128) by (apply N.pow_lt_mono_r; lia). lia.
  Qed.

  Lemma parse_entry_okerr entry ndx check k : ndx < 2 ^ 64 -> okerr (parse_entry mac entry ndx check k).
  Proof.
    intro Hn. unfold parse_entry.
    apply okerr_bind; [apply rd_read_int_okerr|]. intros [adr e1] _.
    apply okerr_bind; [apply rd_read_int_okerr|]. intros [total e2] _.
    apply okerr_bind; [apply rd_read_int_okerr|]. intros [alen e3] _.
    destruct (total <? alen); [reflexivity|].
    apply okerr_bind; [apply rd_read_okerr|]. intros [pmac e4] _.
    destruct (to_bytes16_ok ndx Hn) as [iv ->]. cbn [bind].
    apply okerr_bind; [apply rd_read_int_okerr|]. intros [dl e5] _.
    apply okerr_bind; [apply rd_read_okerr|]. intros [db e6] _.
    apply okerr_bind; [apply parse_tags_okerr; cbn; lia|]. intros d _.
    apply okerr_bind; [apply rd_read_okerr|]. intros [stored e7] _.
    apply okerr_bind; [|intros; exact I].
    destruct check; [|exact I].
    apply okerr_bind; [apply mac_okerr|]. intros actual _.
    destruct (bytes_eqb stored actual); [exact I|reflexivity].
  Qed.

  Lemma parse_dir_okerr fuel : forall dr len ndx check k acc,
    (length (rest dr) < fuel)%nat -> ndx + blen (rest dr) < 2 ^ 64 ->
    okerr (parse_dir mac fuel dr len ndx check k acc).
  Proof.
    induction fuel as [|f IH]; intros dr len ndx check k acc Hf Hb; [lia|].
    cbn [parse_dir]. destruct (len =? 0) eqn:El; [exact I|]. apply N.eqb_neq in El.
    apply okerr_bind; [apply rd_read_okerr|]. intros [entry dr1] E1.
    apply okerr_bind; [apply parse_entry_okerr; lia|]. intros [e er] _.
    apply okerr_bind; [apply rd_read_int_okerr|]. intros [len' dr2] E2.
    apply okerr_bind; [apply rd_ensure_eof_okerr|]. intros _ _.
    apply rd_read_rest in E1 as [E1 _]. apply rd_read_int_rest in E2. change (N.to_nat 1) with 1%nat in E2.
    apply IH; [lia|]. unfold blen in *. lia.
  Qed.

  Lemma dir_from_binary_okerr r check k : okerr (dir_from_binary mac r check k).
  Proof.
    unfold dir_from_binary.
    apply okerr_bind; [apply rd_read_int_okerr|]. intros [total r1] E1.
    apply okerr_bind; [apply rd_read_okerr|]. intros [db r2] E2.
    assert (Ht : total < 2 ^ 32).
    { unfold rd_read_int in E1. destruct (rd_read 4 r) as [[b4 rr]|] eqn:E; cbn [bind] in E1; [|discriminate].
      inversion E1; subst. apply rd_read_rest in E as [_ L].
      pose proof (from_be_lt b4) as Hlt. unfold blen in Hlt. rewrite L in Hlt.
      change (N.of_nat (N.to_nat 4)) with 4 in Hlt. change (256 ^ 4) with (2 ^ 32) in Hlt. exact Hlt. }
    apply rd_read_rest in E2 as [_ L2].
    apply okerr_bind; [apply rd_read_int_okerr|]. intros [len dr] E3.
    apply rd_read_int_rest in E3. cbn [new_reader rest] in E3. change (N.to_nat 1) with 1%nat in E3.
    apply okerr_bind.
    - apply parse_dir_okerr; [lia|].
      assert (blen (rest dr) < 2 ^ 32) by (unfold blen; lia).
      assert (2 ^ 32 + 2 ^ 32 < 2 ^ 64) by (vm_compute; reflexivity). lia.
    - intros [es dr'] _. apply okerr_bind; [apply rd_ensure_eof_okerr|]. intros; exact I.
  Qed.

  Lemma read_comps_okerr es : forall r check k, okerr (read_comps dec mac es r check k).
  Proof.
    induction es as [|e es IH]; intros r check k; [exact I|].
    cbn [read_comps]. destruct (negb (e_adr e =? pos r)); [reflexivity|].
    apply okerr_bind; [apply rd_read_okerr|]. intros [payload r1] _.
    apply okerr_bind.
    { destruct check; [|exact I]. apply okerr_bind; [apply mac_okerr|]. intros m _.
      destruct (bytes_eqb m (e_pmac e)); [exact I|reflexivity]. }
    intros _ _. apply okerr_bind.
    { destruct (dict_get N.eqb (e_desc e) BF3TAG_ENC) as [v|]; [|exact I].
      destruct (bytes_eqb v enc_tag_value); [|exact I].
      apply okerr_bind; [apply dec_okerr|]. intros; exact I. }
    intros c _. apply okerr_bind; [apply IH|]. intros [cs r2] _. exact I.
  Qed.

  Theorem from_binary_okerr r check k : okerr (from_binary dec mac r check k).
  Proof.
    unfold from_binary. apply okerr_bind; [apply dir_from_binary_okerr|]. intros [es r1] _.
    apply okerr_bind; [apply read_comps_okerr|]. intros [cs r2] _.
    apply okerr_bind; [apply rd_ensure_eof_okerr|]. intros; exact I.
  Qed.

  Theorem read_file_okerr text check k : okerr (read_file dec mac text check k).
  Proof.
    unfold read_file. apply okerr_bind; [apply parse_bf3_file_okerr|]. intros [b cm] _.
    apply okerr_bind; [apply rd_read_okerr|]. intros [hd r] _.
    destruct (negb (bytes_eqb hd BF3_FILE_SIG)); [reflexivity|].
    apply okerr_bind; [apply from_binary_okerr|]. intros; exact I.
  Qed.
End Reader.

(* the registered adapter only fails with ValueError *)
Lemma adapter_encrypt_okerr E k iv d : okerr (adapter_encrypt E k iv d).
Proof.
  unfold adapter_encrypt. destruct d; [exact I|].
  destruct (negb (key_ok k)); [reflexivity|]. destruct (negb (blen (the_iv iv) =? 16)); [reflexivity|exact I].
Qed.
Lemma adapter_decrypt_okerr D k iv d : okerr (adapter_decrypt D k iv d).
Proof.
  unfold adapter_decrypt. destruct (negb (blen d mod 16 =? 0)); [reflexivity|]. destruct d; [exact I|].
  destruct (negb (key_ok k)); [reflexivity|]. destruct (negb (blen (the_iv iv) =? 16)); [reflexivity|exact I].
Qed.
Lemma adapter_mac_okerr E k iv d : okerr (adapter_mac E k iv d).
Proof.
  unfold adapter_mac. apply okerr_bind; [apply adapter_encrypt_okerr|]. intros; exact I.
Qed.

(* ---- BEC2 reader --------------------------------------------------------------------- *)
Section Bec2Reader.
  Variable dec mac : bytes -> option bytes -> bytes -> result bytes.
  Variable sha256 : bytes -> bytes.
  Variable valid_pub : bytes -> bool.
  Variable ecdh : privkey -> bytes -> bytes.
  Variable rand16 : N -> bytes.
  Hypothesis mac_okerr : forall k iv d, okerr (mac k iv d).
  Hypothesis dec_okerr : forall k iv d, okerr (dec k iv d).

  (* errors an unpack may produce: swallowed ones (KeyError / NotImplementedError) or allowed ones *)
  Definition softerr {A} (r : result A) : Prop :=
    match r with Ok _ => True | Err e => e = EKey \/ e = ENotImpl \/ is_format_or_value e = true end.

  Lemma softerr_bind {A B} (r : result A) (f : A -> result B) :
    softerr r -> (forall a, r = Ok a -> softerr (f a)) -> softerr (bind r f).
  Proof. destruct r as [a|e]; cbn; intros H1 H2; [apply H2; reflexivity|exact H1]. Qed.
  Lemma okerr_soft {A} (r : result A) : okerr r -> softerr r.
  Proof. destruct r; cbn; auto. Qed.

  Lemma select_softerr k exts fb filt : softerr (select_encryptor k exts fb filt).
  Proof. unfold select_encryptor. destruct (find _ exts); [exact I|]. destruct fb; cbn; auto. Qed.

  Lemma unframe_okerr n fr : okerr (unframe n fr).
  Proof.
    destruct (unframe n fr) as [p|e] eqn:E; [exact I|].
    destruct (unframe_errors _ _ _ E) as [-> | ->]; reflexivity.
  Qed.

  Lemma unwrap_okerr k ct : okerr (unwrap (dec0 dec) k ct).
  Proof. unfold unwrap. apply okerr_bind; [apply dec_okerr|]. intros; apply unframe_okerr. Qed.

  Lemma e_decrypt_softerr e ct : softerr (e_decrypt dec sha256 valid_pub ecdh e ct).
  Proof.
    destruct e as [k ck|s pub [d|]|code]; cbn [e_decrypt].
    - apply okerr_soft. unfold ck_unwrap. apply okerr_bind; [apply unwrap_okerr|]. intros pt _.
      destruct (ck_active ck) as [[c p]|]; [|exact I].
      destruct (bytes_eqb _ c); [exact I|reflexivity].
    - apply okerr_soft. apply okerr_bind; [apply rd_read_okerr|]. intros [m r1] _.
      destruct (negb (bytes_eqb m [x04])); [reflexivity|].
      apply okerr_bind; [apply rd_read_okerr|]. intros [tp r2] _.
      destruct (negb (valid_pub tp)); [reflexivity|].
      apply okerr_bind; [apply rd_read_okerr|]. intros [c r3] _. apply dec_okerr.
    - cbn. auto.
    - apply okerr_soft. unfold csc_unwrap. apply unwrap_okerr.
  Qed.

  Lemma unpack_softerr t raw exts : softerr (unpack dec sha256 valid_pub ecdh t raw exts).
  Proof.
    unfold unpack. destruct (t =? TAG_CUSTKEY).
    - apply softerr_bind; [apply select_softerr|]. intros e _.
      apply softerr_bind; [apply e_decrypt_softerr|]. intros; exact I.
    - destruct (t =? TAG_ECC).
      + destruct raw as [|s rst]; [cbn; auto|].
        apply softerr_bind; [apply select_softerr|]. intros e _.
        apply softerr_bind; [apply e_decrypt_softerr|]. intros; exact I.
      + destruct (t =? TAG_UPDATE); [|cbn; auto].
        apply softerr_bind; [apply select_softerr|]. intros e _.
        apply softerr_bind; [apply e_decrypt_softerr|]. intros ab _.
        apply softerr_bind; [apply okerr_soft, rd_read_okerr|]. intros [key r1] _.
        apply softerr_bind; [apply okerr_soft, rd_read_int_okerr|]. intros [v r2] _.
        destruct e; cbn; auto.
  Qed.

  Lemma unpack_blocks_okerr fuel : forall r exts common acc,
    (length (rest r) < 2 * fuel)%nat -> okerr (unpack_blocks dec sha256 valid_pub ecdh fuel r exts common acc).
  Proof.
    induction fuel as [|f IH]; intros r exts common acc Hf; [lia|].
    cbn [unpack_blocks].
    apply okerr_bind; [apply rd_read_int_okerr|]. intros [t r1] E1.
    apply okerr_bind; [apply rd_read_int_okerr|]. intros [l r2] E2.
    apply okerr_bind; [apply rd_read_okerr|]. intros [v r3] E3.
    apply rd_read_int_rest in E1. apply rd_read_int_rest in E2. apply rd_read_rest in E3 as [E3 _].
    change (N.to_nat 1) with 1%nat in *.
    assert (Hf' : (length (rest r3) < 2 * f)%nat) by lia.
    destruct ((t =? 0) && (l =? 0)); [exact I|].
    pose proof (unpack_softerr t v exts) as Hs.
    destruct (unpack dec sha256 valid_pub ecdh t v exts) as [[a key]|e].
    - destruct common as [c|]; [destruct (bytes_eqb c key); [apply IH; exact Hf'|reflexivity]|apply IH; exact Hf'].
    - cbn in Hs. destruct e; try (apply IH; exact Hf'); destruct Hs as [Hs|[Hs|Hs]]; try discriminate; exact Hs.
  Qed.

  Theorem bec2_read_file_okerr text exts check nr :
    okerr (bec2_read_file dec mac sha256 valid_pub ecdh rand16 text exts check nr).
  Proof.
    unfold bec2_read_file. apply okerr_bind; [apply parse_bf3_file_okerr|]. intros [bin cm] _.
    apply okerr_bind; [apply rd_read_okerr|]. intros [sg r] E.
    destruct (negb (bytes_eqb sg BEC2_FILE_SIG)); [reflexivity|].
    apply rd_read_rest in E as [E _]. cbn [new_reader rest] in E.
    apply okerr_bind; [apply unpack_blocks_okerr; lia|]. intros [[bl common] r2] _.
    destruct common as [key|]; [|reflexivity].
    apply okerr_bind; [apply from_binary_okerr; assumption|]. intros; exact I.
  Qed.
End Bec2Reader.
