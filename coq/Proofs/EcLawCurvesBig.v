(* C17 - n * G = infinity for ALL 17 shipped curves, computed on Bignums' BigZ.

   Same algorithm and same run-time checks as Proofs/EcLawFast.v (double-and-add on
   reduced affine points, slopes checked), but the arithmetic runs on BigZ, i.e. on Coq's
   primitive 63-bit integers, which the kernel and coqchk reduce natively (no VM needed):
   NIST256p takes 0.4 s in the VM and about 14 s in lazy reduction, NIST521p 4 s / 2 min.
   The candidate inverse comes from Euclid's algorithm (BigZ.div_eucl); it needs no proof.

   PRICE: `BigZ.spec_*` (to_Z is a ring morphism) rest on the axioms of Coq's standard
   library that specify the primitive integers (Uint63.add_spec, mul_spec, ...), so
   `Print Assumptions` of the theorems below lists those axioms (and only those).
   The statements are the same as in EcLawCurves.v, over `curves` (all 17). *)
From Coq Require Import List Bool ZArith Lia Znumtheory PeanoNat.
From Bignums Require Import BigZ.
From Bec2 Require Import Base.Result Base.Modp Gen.Curves Model.Ec
  Proofs.EcSmall Proofs.EcFieldZp Proofs.EcMulProofs Proofs.EcLaw Proofs.EcLawFast.
Import ListNotations.
Open Scope Z_scope.

Definition ptB := option (bigZ * bigZ).

Local Open Scope bigZ_scope.

(* Euclid; the result is only a candidate (the caller checks the slope) *)
Fixpoint einv_loopB (fuel : nat) (r0 r1 s0 s1 : bigZ) : bigZ :=
  match fuel with
  | O => 0
  | S f =>
      if r1 =? 0 then s0
      else let (q, r2) := BigZ.div_eucl r0 r1 in einv_loopB f r1 r2 s1 (s0 - q * s1)
  end.

Definition einvB (fuel : nat) (p z : bigZ) : bigZ := einv_loopB fuel z p 1 0 mod p.

Definition chordB_with (p i x1 y1 x2 y2 : bigZ) : option ptB :=
  let l := ((y2 - y1) * i) mod p in
  if (l * (x2 - x1)) mod p =? (y2 - y1) mod p then
    let x3 := (l * l - x1 - x2) mod p in
    Some (Some (x3, (l * (x1 - x3) - y1) mod p))
  else None.

Definition tangentB_with (p a i x1 y1 : bigZ) : option ptB :=
  let m := 3 * x1 * x1 + a in
  let l := (m * i) mod p in
  if (2 * y1 * l) mod p =? m mod p then
    let x3 := (l * l - 2 * x1) mod p in
    Some (Some (x3, (l * (x1 - x3) - y1) mod p))
  else None.

Definition fast_addB (fuel : nat) (p a : bigZ) (P Q : ptB) : option ptB :=
  match P, Q with
  | None, _ => Some Q
  | _, None => Some P
  | Some (x1, y1), Some (x2, y2) =>
      if x1 =? x2 then
        if (y1 =? y2) && negb (y1 =? 0)
        then tangentB_with p a (einvB fuel p ((2 * y1) mod p)) x1 y1
        else Some None
      else chordB_with p (einvB fuel p ((x2 - x1) mod p)) x1 y1 x2 y2
  end.

Fixpoint fast_mulB (fuel : nat) (p a : bigZ) (q : positive) (P : ptB) : option ptB :=
  match q with
  | xH => Some P
  | xO q' => match fast_addB fuel p a P P with
             | Some D => fast_mulB fuel p a q' D
             | None => None
             end
  | xI q' => match fast_addB fuel p a P P with
             | Some D => match fast_mulB fuel p a q' D with
                         | Some R => fast_addB fuel p a P R
                         | None => None
                         end
             | None => None
             end
  end.

Local Close Scope bigZ_scope.

Notation tz := BigZ.to_Z.

Definition toP (P : ptB) : pt :=
  match P with None => None | Some (x, y) => Some (tz x, tz y) end.

Lemma tz_0 : tz 0%bigZ = 0. Proof. reflexivity. Qed.
Lemma tz_1 : tz 1%bigZ = 1. Proof. reflexivity. Qed.
Lemma tz_2 : tz 2%bigZ = 2. Proof. reflexivity. Qed.
Lemma tz_3 : tz 3%bigZ = 3. Proof. reflexivity. Qed.

Ltac tz_spec :=
  repeat first [ rewrite BigZ.spec_modulo | rewrite BigZ.spec_mul | rewrite BigZ.spec_sub
               | rewrite BigZ.spec_add | rewrite tz_0 | rewrite tz_1 | rewrite tz_2 | rewrite tz_3 ].

Lemma chordB_sim p i x1 y1 x2 y2 :
  option_map toP (chordB_with p i x1 y1 x2 y2)
  = chord_with (tz p) (tz i) (tz x1) (tz y1) (tz x2) (tz y2).
Proof.
  unfold chordB_with, chord_with. cbv zeta. rewrite BigZ.spec_eqb. tz_spec.
  destruct (_ =? _); [|reflexivity]. cbn [option_map toP]. tz_spec. reflexivity.
Qed.

Lemma tangentB_sim p a i x1 y1 :
  option_map toP (tangentB_with p a i x1 y1)
  = tangent_with (tz p) (tz a) (tz i) (tz x1) (tz y1).
Proof.
  unfold tangentB_with, tangent_with. cbv zeta. rewrite BigZ.spec_eqb. tz_spec.
  destruct (_ =? _); [|reflexivity]. cbn [option_map toP]. tz_spec. reflexivity.
Qed.

Lemma map_if {A B} (f : A -> B) (c : bool) (u v : option A) :
  option_map f (if c then u else v) = if c then option_map f u else option_map f v.
Proof. destruct c; reflexivity. Qed.

Section FastB.
Variable p : Z.
Hypothesis Hp : prime p.
Hypothesis Hp2 : 2 < p.
Variables a b : Z.
Hypothesis Hns : ~ eqm p (4 * a * a * a + 27 * b * b) 0.

Lemma fast_addB_ok fuel pB aB P Q R : tz pB = p -> tz aB = a ->
  ec_wf p a b (toP P) -> ec_wf p a b (toP Q) ->
  fast_addB fuel pB aB P Q = Some R -> toP R = ec_add p a (toP P) (toP Q).
Proof.
  intros EP EA.
  destruct P as [[x1 y1]|], Q as [[x2 y2]|]; cbn [fast_addB toP];
    try (intros _ _ E; injection E as <-; reflexivity).
  intros [[Rx1 Ry1] _] [[Rx2 Ry2] _] E. cbn [fst snd] in *.
  apply (f_equal (option_map toP)) in E. cbn [option_map] in E.
  rewrite !map_if, chordB_sim, tangentB_sim, !BigZ.spec_eqb, tz_0, EP, EA in E.
  cbn [option_map toP] in E.
  revert E. apply (add_dispatch_ok p Hp2 a); try assumption.
  - intros R' E Hy. exact (tangent_with_ok p Hp Hp2 a _ _ _ _ Hy E).
  - intros R' E Hx. exact (chord_with_ok p Hp Hp2 a _ _ _ _ _ _ Hx E).
Qed.

Lemma fast_mulB_ok fuel pB aB q : tz pB = p -> tz aB = a -> forall P R, ec_wf p a b (toP P) ->
  fast_mulB fuel pB aB q P = Some R -> toP R = nmul (ec_add p a) (Pos.to_nat q) (toP P).
Proof.
  intros EP EA. induction q as [q IH|q IH|]; intros P R W; cbn [fast_mulB].
  - destruct (fast_addB fuel pB aB P P) as [D|] eqn:ED; [|discriminate].
    apply (fast_addB_ok _ _ _ _ _ _ EP EA W W) in ED.
    assert (WD : ec_wf p a b (toP D)) by (rewrite ED; apply ec_add_wf; assumption).
    destruct (fast_mulB fuel pB aB q D) as [R'|] eqn:ER; [|discriminate].
    apply (IH _ _ WD) in ER. intro EA'.
    assert (WR : ec_wf p a b (toP R')) by (rewrite ER; apply emul_wf; assumption).
    apply (fast_addB_ok _ _ _ _ _ _ EP EA W WR) in EA'. rewrite EA', ER, ED.
    apply (dbl_add_step_xI p Hp Hp2 a b Hns), W.
  - destruct (fast_addB fuel pB aB P P) as [D|] eqn:ED; [|discriminate].
    apply (fast_addB_ok _ _ _ _ _ _ EP EA W W) in ED.
    assert (WD : ec_wf p a b (toP D)) by (rewrite ED; apply ec_add_wf; assumption).
    intro ER. apply (IH _ _ WD) in ER. rewrite ER, ED.
    apply (dbl_add_step_xO p Hp Hp2 a b Hns), W.
  - intro E. injection E as <-. reflexivity.
Qed.

End FastB.

(* ---- the closed check of one curve record ---- *)

Definition order_okB (c : curve) : bool :=
  basic_ok c &&
  match c_n c with
  | Zpos n =>
      match fast_mulB (Z.to_nat (2 * Z.log2 (c_p c) + 8)) (BigZ.of_Z (c_p c)) (BigZ.of_Z (c_a c)) n
                      (Some (BigZ.of_Z (c_Gx c), BigZ.of_Z (c_Gy c))) with
      | Some None => true
      | _ => false
      end
  | _ => false
  end.

Theorem order_okB_group c : order_okB c = true -> prime (c_p c) -> curve_group_facts c.
Proof.
  unfold order_okB. intros K Hp. apply andb_true_iff in K as [B K].
  destruct (basic_ok_spec c B) as (K1 & W & K7 & K8).
  destruct (c_n c) as [|n|n] eqn:EN; try discriminate K.
  destruct (fast_mulB _ _ _ n _) as [[q|]|] eqn:EF; try discriminate K.
  apply (fast_mulB_ok (c_p c) Hp K1 (c_a c) (c_b c) K7 _ _ _ n
           (BigZ.spec_of_Z _) (BigZ.spec_of_Z _)) in EF;
    [|cbn [toP]; rewrite !BigZ.spec_of_Z; exact W].
  cbn [toP] in EF. rewrite !BigZ.spec_of_Z in EF. symmetry in EF.
  exact (curve_group_of_order c n B EN EF Hp).
Qed.

(* ---- all 17 shipped curves ---- *)

Definition curves_checked_big : list curve := curves.

Lemma curves_checked_big_all : forallb order_okB curves_checked_big = true.
Proof. vm_cast_no_check (eq_refl true). Qed.

Theorem EcLawCurvesBig_group_full c : In c curves_checked_big -> prime (c_p c) ->
  let p := c_p c in let a := c_a c in let G := Some (c_Gx c, c_Gy c) in
  let inG := fun P : pt => exists k : nat, P = nmul (aff_add p a) k G in
  ec_group p a inG (aff_add p a) (aff_neg p) /\
  inG G /\
  zmul (aff_add p a) (aff_neg p) (c_n c) G = None /\
  (forall q, inG (Some q) -> on_curve p a (c_b c) q) /\
  (prime (c_n c) -> forall k, 0 < k < c_n c -> zmul (aff_add p a) (aff_neg p) k G <> None).
Proof.
  intros H Hp. pose proof curves_checked_big_all as K. rewrite forallb_forall in K.
  exact (order_okB_group c (K c H) Hp).
Qed.
Print Assumptions EcLawCurvesBig_group_full.

Theorem EcLawCurvesBig_group c : In c curves_checked_big -> prime (c_p c) ->
  ec_group (c_p c) (c_a c)
    (fun P => exists k : nat, P = nmul (aff_add (c_p c) (c_a c)) k (Some (c_Gx c, c_Gy c)))
    (aff_add (c_p c) (c_a c)) (aff_neg (c_p c)) /\
  (exists k : nat, Some (c_Gx c, c_Gy c) = nmul (aff_add (c_p c) (c_a c)) k (Some (c_Gx c, c_Gy c))).
Proof.
  intros H Hp. destruct (EcLawCurvesBig_group_full c H Hp) as (GH & GI & _). split; assumption.
Qed.
Print Assumptions EcLawCurvesBig_group.

(* fast_mulB computes the scalar multiple in (E(F_p), ec_add), for every q *)
Theorem EcLawCurvesBig_fast_mulB p a b fuel pB aB q P R :
  prime p -> 2 < p -> ~ eqm p (4 * a * a * a + 27 * b * b) 0 ->
  BigZ.to_Z pB = p -> BigZ.to_Z aB = a -> ec_wf p a b (toP P) ->
  fast_mulB fuel pB aB q P = Some R -> toP R = nmul (ec_add p a) (Pos.to_nat q) (toP P).
Proof. intros Hp Hp2 Hns EP EA W. exact (fast_mulB_ok p Hp Hp2 a b Hns fuel pB aB q EP EA P R W). Qed.
Print Assumptions EcLawCurvesBig_fast_mulB.
