(* Validation of the specification (Model/AesSpec.v) against the vectors of FIPS-197
   (appendix A key expansion, appendix B, appendix C.1-C.3) and NIST SP 800-38A
   appendix F (F.1 ECB, F.2 CBC, F.3 CFB8/CFB128, F.4 OFB, F.5 CTR; all key sizes,
   both directions).  Every example is closed by vm_compute. *)
From Coq Require Import List Bool NArith.
From Coq Require Import Init.Byte.
From Bec2 Require Import Base.Result Base.Bytes Model.Cbc Model.AesSpec.
Import ListNotations.
Open Scope N_scope.

Definition vec_P : bytes := (H 64 0x6bc1bee22e409f96e93d7e117393172aae2d8a571e03ac9c9eb76fac45af8e5130c81c46a35ce411e5fbc1191a0a52eff69f2445df4f9b17ad2b417be66c3710).
Definition vec_IV : bytes := (H 16 0x000102030405060708090a0b0c0d0e0f).
Definition vec_K128 : bytes := (H 16 0x2b7e151628aed2a6abf7158809cf4f3c).
Definition vec_K192 : bytes := (H 24 0x8e73b0f7da0e6452c810f32b809079e562f8ead2522c6b7b).
Definition vec_K256 : bytes := (H 32 0x603deb1015ca71be2b73aef0857d77811f352c073b6108d72d9810a30914dff4).
Definition word_eqb (c : col) (v : N) : bool := bytes_eqb (bytes_of_col c) (be 4 v).

Example fips_gf_57_83 : (gmul 0x57 0x83 =? 0xc1) && (gmul 0x57 0x13 =? 0xfe) && (xtime 0x57 =? 0xae) && (xtime 0xae =? 0x47) && (xtime 0x47 =? 0x8e) && (xtime 0x8e =? 0x07) = true.
Proof. vm_compute. reflexivity. Qed.

Example fips_sbox_53 : (sbox 0x53 =? 0xed) && (sbox 0 =? 0x63) && (inv_sbox 0xed =? 0x53) = true.
Proof. vm_compute. reflexivity. Qed.

Example fips_A1_key_expansion : let w := KeyExpansion vec_K128 in Nat.eqb (length w) 44 && word_eqb (nth 4 w zero_col) 0xa0fafe17 && word_eqb (nth 9 w zero_col) 0x7a96b943 && word_eqb (nth 43 w zero_col) 0xb6630ca6 = true.
Proof. vm_compute. reflexivity. Qed.

Example fips_A2_key_expansion : let w := KeyExpansion vec_K192 in Nat.eqb (length w) 52 && word_eqb (nth 6 w zero_col) 0xfe0c91f7 && word_eqb (nth 12 w zero_col) 0x4db7b4bd && word_eqb (nth 51 w zero_col) 0x01002202 = true.
Proof. vm_compute. reflexivity. Qed.

Example fips_A3_key_expansion : let w := KeyExpansion vec_K256 in Nat.eqb (length w) 60 && word_eqb (nth 8 w zero_col) 0x9ba35411 && word_eqb (nth 12 w zero_col) 0xa8b09c1a && word_eqb (nth 59 w zero_col) 0x706c631e = true.
Proof. vm_compute. reflexivity. Qed.

Example fips_B : bytes_eqb (Cipher vec_K128 (H 16 0x3243f6a8885a308d313198a2e0370734)) (H 16 0x3925841d02dc09fbdc118597196a0b32) = true.
Proof. vm_compute. reflexivity. Qed.

Example fips_C1 : bytes_eqb (Cipher (H 16 0x000102030405060708090a0b0c0d0e0f) (H 16 0x00112233445566778899aabbccddeeff)) (H 16 0x69c4e0d86a7b0430d8cdb78070b4c55a) && bytes_eqb (InvCipher (H 16 0x000102030405060708090a0b0c0d0e0f) (H 16 0x69c4e0d86a7b0430d8cdb78070b4c55a)) (H 16 0x00112233445566778899aabbccddeeff) && bytes_eqb (EqInvCipher (H 16 0x000102030405060708090a0b0c0d0e0f) (H 16 0x69c4e0d86a7b0430d8cdb78070b4c55a)) (H 16 0x00112233445566778899aabbccddeeff) = true.
Proof. vm_compute. reflexivity. Qed.

Example fips_C2 : bytes_eqb (Cipher (H 24 0x000102030405060708090a0b0c0d0e0f1011121314151617) (H 16 0x00112233445566778899aabbccddeeff)) (H 16 0xdda97ca4864cdfe06eaf70a0ec0d7191) && bytes_eqb (InvCipher (H 24 0x000102030405060708090a0b0c0d0e0f1011121314151617) (H 16 0xdda97ca4864cdfe06eaf70a0ec0d7191)) (H 16 0x00112233445566778899aabbccddeeff) && bytes_eqb (EqInvCipher (H 24 0x000102030405060708090a0b0c0d0e0f1011121314151617) (H 16 0xdda97ca4864cdfe06eaf70a0ec0d7191)) (H 16 0x00112233445566778899aabbccddeeff) = true.
Proof. vm_compute. reflexivity. Qed.

Example fips_C3 : bytes_eqb (Cipher (H 32 0x000102030405060708090a0b0c0d0e0f101112131415161718191a1b1c1d1e1f) (H 16 0x00112233445566778899aabbccddeeff)) (H 16 0x8ea2b7ca516745bfeafc49904b496089) && bytes_eqb (InvCipher (H 32 0x000102030405060708090a0b0c0d0e0f101112131415161718191a1b1c1d1e1f) (H 16 0x8ea2b7ca516745bfeafc49904b496089)) (H 16 0x00112233445566778899aabbccddeeff) && bytes_eqb (EqInvCipher (H 32 0x000102030405060708090a0b0c0d0e0f101112131415161718191a1b1c1d1e1f) (H 16 0x8ea2b7ca516745bfeafc49904b496089)) (H 16 0x00112233445566778899aabbccddeeff) = true.
Proof. vm_compute. reflexivity. Qed.

Example sp_F1_ecb_128 : bytes_eqb (sp_ecb_encrypt (Cipher vec_K128) vec_P) (H 64 0x3ad77bb40d7a3660a89ecaf32466ef97f5d3d58503b9699de785895a96fdbaaf43b1cd7f598ece23881b00e3ed0306887b0c785e27e8ad3f8223207104725dd4) && bytes_eqb (sp_ecb_decrypt (InvCipher vec_K128) (H 64 0x3ad77bb40d7a3660a89ecaf32466ef97f5d3d58503b9699de785895a96fdbaaf43b1cd7f598ece23881b00e3ed0306887b0c785e27e8ad3f8223207104725dd4)) vec_P = true.
Proof. vm_compute. reflexivity. Qed.

Example sp_F2_cbc_128 : bytes_eqb (sp_cbc_encrypt (Cipher vec_K128) vec_IV vec_P) (H 64 0x7649abac8119b246cee98e9b12e9197d5086cb9b507219ee95db113a917678b273bed6b8e3c1743b7116e69e222295163ff1caa1681fac09120eca307586e1a7) && bytes_eqb (sp_cbc_decrypt (InvCipher vec_K128) vec_IV (H 64 0x7649abac8119b246cee98e9b12e9197d5086cb9b507219ee95db113a917678b273bed6b8e3c1743b7116e69e222295163ff1caa1681fac09120eca307586e1a7)) vec_P = true.
Proof. vm_compute. reflexivity. Qed.

Example sp_F3_cfb8_128 : bytes_eqb (sp_cfb_encrypt (Cipher vec_K128) 1 vec_IV (H 18 0x6bc1bee22e409f96e93d7e117393172aae2d)) (H 18 0x3b79424c9c0dd436bace9e0ed4586a4f32b9) && bytes_eqb (sp_cfb_decrypt (Cipher vec_K128) 1 vec_IV (H 18 0x3b79424c9c0dd436bace9e0ed4586a4f32b9)) (H 18 0x6bc1bee22e409f96e93d7e117393172aae2d) = true.
Proof. vm_compute. reflexivity. Qed.

Example sp_F3_cfb128_128 : bytes_eqb (sp_cfb_encrypt (Cipher vec_K128) 16 vec_IV vec_P) (H 64 0x3b3fd92eb72dad20333449f8e83cfb4ac8a64537a0b3a93fcde3cdad9f1ce58b26751f67a3cbb140b1808cf187a4f4dfc04b05357c5d1c0eeac4c66f9ff7f2e6) && bytes_eqb (sp_cfb_decrypt (Cipher vec_K128) 16 vec_IV (H 64 0x3b3fd92eb72dad20333449f8e83cfb4ac8a64537a0b3a93fcde3cdad9f1ce58b26751f67a3cbb140b1808cf187a4f4dfc04b05357c5d1c0eeac4c66f9ff7f2e6)) vec_P = true.
Proof. vm_compute. reflexivity. Qed.

Example sp_F4_ofb_128 : bytes_eqb (sp_ofb_crypt (Cipher vec_K128) vec_IV vec_P) (H 64 0x3b3fd92eb72dad20333449f8e83cfb4a7789508d16918f03f53c52dac54ed8259740051e9c5fecf64344f7a82260edcc304c6528f659c77866a510d9c1d6ae5e) && bytes_eqb (sp_ofb_crypt (Cipher vec_K128) vec_IV (H 64 0x3b3fd92eb72dad20333449f8e83cfb4a7789508d16918f03f53c52dac54ed8259740051e9c5fecf64344f7a82260edcc304c6528f659c77866a510d9c1d6ae5e)) vec_P = true.
Proof. vm_compute. reflexivity. Qed.

Example sp_F5_ctr_128 : bytes_eqb (sp_ctr_crypt (Cipher vec_K128) 0xf0f1f2f3f4f5f6f7f8f9fafbfcfdfeff vec_P) (H 64 0x874d6191b620e3261bef6864990db6ce9806f66b7970fdff8617187bb9fffdff5ae4df3edbd5d35e5b4f09020db03eab1e031dda2fbe03d1792170a0f3009cee) && bytes_eqb (sp_ctr_crypt (Cipher vec_K128) 0xf0f1f2f3f4f5f6f7f8f9fafbfcfdfeff (H 64 0x874d6191b620e3261bef6864990db6ce9806f66b7970fdff8617187bb9fffdff5ae4df3edbd5d35e5b4f09020db03eab1e031dda2fbe03d1792170a0f3009cee)) vec_P = true.
Proof. vm_compute. reflexivity. Qed.

Example sp_F1_ecb_192 : bytes_eqb (sp_ecb_encrypt (Cipher vec_K192) vec_P) (H 64 0xbd334f1d6e45f25ff712a214571fa5cc974104846d0ad3ad7734ecb3ecee4eefef7afd2270e2e60adce0ba2face6444e9a4b41ba738d6c72fb16691603c18e0e) && bytes_eqb (sp_ecb_decrypt (InvCipher vec_K192) (H 64 0xbd334f1d6e45f25ff712a214571fa5cc974104846d0ad3ad7734ecb3ecee4eefef7afd2270e2e60adce0ba2face6444e9a4b41ba738d6c72fb16691603c18e0e)) vec_P = true.
Proof. vm_compute. reflexivity. Qed.

Example sp_F2_cbc_192 : bytes_eqb (sp_cbc_encrypt (Cipher vec_K192) vec_IV vec_P) (H 64 0x4f021db243bc633d7178183a9fa071e8b4d9ada9ad7dedf4e5e738763f69145a571b242012fb7ae07fa9baac3df102e008b0e27988598881d920a9e64f5615cd) && bytes_eqb (sp_cbc_decrypt (InvCipher vec_K192) vec_IV (H 64 0x4f021db243bc633d7178183a9fa071e8b4d9ada9ad7dedf4e5e738763f69145a571b242012fb7ae07fa9baac3df102e008b0e27988598881d920a9e64f5615cd)) vec_P = true.
Proof. vm_compute. reflexivity. Qed.

Example sp_F3_cfb8_192 : bytes_eqb (sp_cfb_encrypt (Cipher vec_K192) 1 vec_IV (H 18 0x6bc1bee22e409f96e93d7e117393172aae2d)) (H 18 0xcda2521ef0a905ca44cd057cbf0d47a0678a) && bytes_eqb (sp_cfb_decrypt (Cipher vec_K192) 1 vec_IV (H 18 0xcda2521ef0a905ca44cd057cbf0d47a0678a)) (H 18 0x6bc1bee22e409f96e93d7e117393172aae2d) = true.
Proof. vm_compute. reflexivity. Qed.

Example sp_F3_cfb128_192 : bytes_eqb (sp_cfb_encrypt (Cipher vec_K192) 16 vec_IV vec_P) (H 64 0xcdc80d6fddf18cab34c25909c99a417467ce7f7f81173621961a2b70171d3d7a2e1e8a1dd59b88b1c8e60fed1efac4c9c05f9f9ca9834fa042ae8fba584b09ff) && bytes_eqb (sp_cfb_decrypt (Cipher vec_K192) 16 vec_IV (H 64 0xcdc80d6fddf18cab34c25909c99a417467ce7f7f81173621961a2b70171d3d7a2e1e8a1dd59b88b1c8e60fed1efac4c9c05f9f9ca9834fa042ae8fba584b09ff)) vec_P = true.
Proof. vm_compute. reflexivity. Qed.

Example sp_F4_ofb_192 : bytes_eqb (sp_ofb_crypt (Cipher vec_K192) vec_IV vec_P) (H 64 0xcdc80d6fddf18cab34c25909c99a4174fcc28b8d4c63837c09e81700c11004018d9a9aeac0f6596f559c6d4daf59a5f26d9f200857ca6c3e9cac524bd9acc92a) && bytes_eqb (sp_ofb_crypt (Cipher vec_K192) vec_IV (H 64 0xcdc80d6fddf18cab34c25909c99a4174fcc28b8d4c63837c09e81700c11004018d9a9aeac0f6596f559c6d4daf59a5f26d9f200857ca6c3e9cac524bd9acc92a)) vec_P = true.
Proof. vm_compute. reflexivity. Qed.

Example sp_F5_ctr_192 : bytes_eqb (sp_ctr_crypt (Cipher vec_K192) 0xf0f1f2f3f4f5f6f7f8f9fafbfcfdfeff vec_P) (H 64 0x1abc932417521ca24f2b0459fe7e6e0b090339ec0aa6faefd5ccc2c6f4ce8e941e36b26bd1ebc670d1bd1d665620abf74f78a7f6d29809585a97daec58c6b050) && bytes_eqb (sp_ctr_crypt (Cipher vec_K192) 0xf0f1f2f3f4f5f6f7f8f9fafbfcfdfeff (H 64 0x1abc932417521ca24f2b0459fe7e6e0b090339ec0aa6faefd5ccc2c6f4ce8e941e36b26bd1ebc670d1bd1d665620abf74f78a7f6d29809585a97daec58c6b050)) vec_P = true.
Proof. vm_compute. reflexivity. Qed.

Example sp_F1_ecb_256 : bytes_eqb (sp_ecb_encrypt (Cipher vec_K256) vec_P) (H 64 0xf3eed1bdb5d2a03c064b5a7e3db181f8591ccb10d410ed26dc5ba74a31362870b6ed21b99ca6f4f9f153e7b1beafed1d23304b7a39f9f3ff067d8d8f9e24ecc7) && bytes_eqb (sp_ecb_decrypt (InvCipher vec_K256) (H 64 0xf3eed1bdb5d2a03c064b5a7e3db181f8591ccb10d410ed26dc5ba74a31362870b6ed21b99ca6f4f9f153e7b1beafed1d23304b7a39f9f3ff067d8d8f9e24ecc7)) vec_P = true.
Proof. vm_compute. reflexivity. Qed.

Example sp_F2_cbc_256 : bytes_eqb (sp_cbc_encrypt (Cipher vec_K256) vec_IV vec_P) (H 64 0xf58c4c04d6e5f1ba779eabfb5f7bfbd69cfc4e967edb808d679f777bc6702c7d39f23369a9d9bacfa530e26304231461b2eb05e2c39be9fcda6c19078c6a9d1b) && bytes_eqb (sp_cbc_decrypt (InvCipher vec_K256) vec_IV (H 64 0xf58c4c04d6e5f1ba779eabfb5f7bfbd69cfc4e967edb808d679f777bc6702c7d39f23369a9d9bacfa530e26304231461b2eb05e2c39be9fcda6c19078c6a9d1b)) vec_P = true.
Proof. vm_compute. reflexivity. Qed.

Example sp_F3_cfb8_256 : bytes_eqb (sp_cfb_encrypt (Cipher vec_K256) 1 vec_IV (H 18 0x6bc1bee22e409f96e93d7e117393172aae2d)) (H 18 0xdc1f1a8520a64db55fcc8ac554844e889700) && bytes_eqb (sp_cfb_decrypt (Cipher vec_K256) 1 vec_IV (H 18 0xdc1f1a8520a64db55fcc8ac554844e889700)) (H 18 0x6bc1bee22e409f96e93d7e117393172aae2d) = true.
Proof. vm_compute. reflexivity. Qed.

Example sp_F3_cfb128_256 : bytes_eqb (sp_cfb_encrypt (Cipher vec_K256) 16 vec_IV vec_P) (H 64 0xdc7e84bfda79164b7ecd8486985d386039ffed143b28b1c832113c6331e5407bdf10132415e54b92a13ed0a8267ae2f975a385741ab9cef82031623d55b1e471) && bytes_eqb (sp_cfb_decrypt (Cipher vec_K256) 16 vec_IV (H 64 0xdc7e84bfda79164b7ecd8486985d386039ffed143b28b1c832113c6331e5407bdf10132415e54b92a13ed0a8267ae2f975a385741ab9cef82031623d55b1e471)) vec_P = true.
Proof. vm_compute. reflexivity. Qed.

Example sp_F4_ofb_256 : bytes_eqb (sp_ofb_crypt (Cipher vec_K256) vec_IV vec_P) (H 64 0xdc7e84bfda79164b7ecd8486985d38604febdc6740d20b3ac88f6ad82a4fb08d71ab47a086e86eedf39d1c5bba97c4080126141d67f37be8538f5a8be740e484) && bytes_eqb (sp_ofb_crypt (Cipher vec_K256) vec_IV (H 64 0xdc7e84bfda79164b7ecd8486985d38604febdc6740d20b3ac88f6ad82a4fb08d71ab47a086e86eedf39d1c5bba97c4080126141d67f37be8538f5a8be740e484)) vec_P = true.
Proof. vm_compute. reflexivity. Qed.

Example sp_F5_ctr_256 : bytes_eqb (sp_ctr_crypt (Cipher vec_K256) 0xf0f1f2f3f4f5f6f7f8f9fafbfcfdfeff vec_P) (H 64 0x601ec313775789a5b7a7f504bbf3d228f443e3ca4d62b59aca84e990cacaf5c52b0930daa23de94ce87017ba2d84988ddfc9c58db67aada613c2dd08457941a6) && bytes_eqb (sp_ctr_crypt (Cipher vec_K256) 0xf0f1f2f3f4f5f6f7f8f9fafbfcfdfeff (H 64 0x601ec313775789a5b7a7f504bbf3d228f443e3ca4d62b59aca84e990cacaf5c52b0930daa23de94ce87017ba2d84988ddfc9c58db67aada613c2dd08457941a6)) vec_P = true.
Proof. vm_compute. reflexivity. Qed.
