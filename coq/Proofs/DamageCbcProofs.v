(* C04: for the adapter's MAC (last block of zero-padded CBC) over a block function with
   D k (E k b) = b, replacing ONE byte of the message always changes the tag - no
   cryptographic assumption: CBC with an injective block function is injective in any
   single block once the rest of the message is fixed. *)
From Coq Require Import List Bool NArith ZArith Lia.
From Coq Require Import Init.Byte.
From Bec2 Require Import Base.Result Base.Bytes Model.Cbc Proofs.CbcProofs.
Import ListNotations.
Open Scope N_scope.

Lemma xor_byte_comm x y : xor_byte x y = xor_byte y x.
Proof. unfold xor_byte. rewrite N.lxor_comm. reflexivity. Qed.

Lemma xor_bytes_comm a : forall b, length a = length b -> xor_bytes a b = xor_bytes b a.
Proof.
  induction a as [|x a IH]; intros [|y b] H; simpl in *; try lia; [reflexivity|].
  rewrite xor_byte_comm, IH by lia. reflexivity.
Qed.

Lemma xor_bytes_cancel_r a b p : length a = length p -> length b = length p ->
  xor_bytes a p = xor_bytes b p -> a = b.
Proof.
  intros Ha Hb H. rewrite <- (xor_bytes_invol a p Ha), <- (xor_bytes_invol b p Hb), H. reflexivity.
Qed.

Lemma xor_bytes_cancel_l a p q : length p = length a -> length q = length a ->
  xor_bytes a p = xor_bytes a q -> p = q.
Proof.
  intros Hp Hq H. rewrite (xor_bytes_comm a p), (xor_bytes_comm a q) in H by lia.
  exact (xor_bytes_cancel_r p q a Hp Hq H).
Qed.

Section Sens.
  Variable E D : bytes -> bytes -> bytes.
  Hypothesis E_len : forall k b, length b = 16%nat -> length (E k b) = 16%nat.
  Hypothesis DE : forall k b, length b = 16%nat -> D k (E k b) = b.

  Lemma E_inj k a b : length a = 16%nat -> length b = 16%nat -> E k a = E k b -> a = b.
  Proof. intros Ha Hb H. rewrite <- (DE k a Ha), <- (DE k b Hb), H. reflexivity. Qed.

  (* the chaining value after the whole message *)
  Fixpoint cbc_last (fuel : nat) (k prev d : bytes) : bytes :=
    match fuel with
    | O => prev
    | S f =>
      match d with
      | [] => prev
      | _ => cbc_last f k (E k (xor_bytes (firstn 16 d) prev)) (skipn 16 d)
      end
    end.

  Lemma cbc_last_nil f k prev : cbc_last f k prev [] = prev.
  Proof. destruct f; reflexivity. Qed.

  Lemma cbc_last_S f k prev d : d <> [] ->
    cbc_last (S f) k prev d = cbc_last f k (E k (xor_bytes (firstn 16 d) prev)) (skipn 16 d).
  Proof. destruct d; [contradiction|reflexivity]. Qed.

  (* for a fixed message the final chaining value determines the initial one *)
  Lemma cbc_last_inj_prev m : forall f k c c' T,
    length T = (16 * m)%nat -> length c = 16%nat -> length c' = 16%nat ->
    cbc_last f k c T = cbc_last f k c' T -> c = c'.
  Proof.
    induction m as [|m IH]; intros f k c c' T HT Hc Hc' H.
    - destruct T; [|simpl in HT; lia]. rewrite !cbc_last_nil in H. exact H.
    - destruct f as [|f]; [exact H|].
      assert (Hne : T <> []) by (intro Hn; subst T; simpl in HT; lia).
      rewrite !(cbc_last_S f k _ T Hne) in H.
      assert (Hb : length (firstn 16 T) = 16%nat) by (rewrite firstn_length; lia).
      assert (Hx : length (xor_bytes (firstn 16 T) c) = 16%nat) by (rewrite xor_bytes_length; lia).
      assert (Hx' : length (xor_bytes (firstn 16 T) c') = 16%nat) by (rewrite xor_bytes_length; lia).
      apply IH in H; [| rewrite skipn_length; lia | apply E_len, Hx | apply E_len, Hx'].
      apply E_inj in H; [|exact Hx|exact Hx'].
      apply (xor_bytes_cancel_l (firstn 16 T)); [lia|lia|exact H].
  Qed.

  Lemma firstn_16_app (u : bytes) x W : (length u < 16)%nat ->
    firstn 16 (u ++ x :: W) = u ++ x :: firstn (15 - length u) W.
  Proof.
    intro H. rewrite firstn_app. rewrite (firstn_all2 (n:=16) u) by lia.
    replace (16 - length u)%nat with (S (15 - length u)) by lia. reflexivity.
  Qed.
  Lemma skipn_16_app (u : bytes) x W : (length u < 16)%nat ->
    skipn 16 (u ++ x :: W) = skipn (15 - length u) W.
  Proof.
    intro H. rewrite skipn_app. rewrite (skipn_all2 (n:=16) u) by lia.
    replace (16 - length u)%nat with (S (15 - length u)) by lia. reflexivity.
  Qed.

  (* one replaced byte changes the final chaining value *)
  Lemma cbc_last_byte m : forall f k prev u x y W,
    length (u ++ x :: W) = (16 * m)%nat -> (m <= f)%nat -> length prev = 16%nat ->
    cbc_last f k prev (u ++ x :: W) = cbc_last f k prev (u ++ y :: W) -> x = y.
  Proof.
    induction m as [|m IH]; intros f k prev u x y W HL Hf Hp H.
    - rewrite app_length in HL. simpl in HL. lia.
    - destruct f as [|f]; [lia|].
      assert (HL' : length (u ++ y :: W) = (16 * S m)%nat) by (rewrite app_length in *; simpl in *; lia).
      rewrite (cbc_last_S f k prev (u ++ x :: W)) in H by (destruct u; discriminate).
      rewrite (cbc_last_S f k prev (u ++ y :: W)) in H by (destruct u; discriminate).
      destruct (Nat.lt_ge_cases (length u) 16) as [Hu|Hu].
      + (* the replaced byte is in the first block *)
        rewrite !skipn_16_app in H by exact Hu.
        assert (Hb : length (firstn 16 (u ++ x :: W)) = 16%nat) by (rewrite firstn_length; lia).
        assert (Hb' : length (firstn 16 (u ++ y :: W)) = 16%nat) by (rewrite firstn_length; lia).
        apply (cbc_last_inj_prev m) in H.
        * apply E_inj in H; [| rewrite xor_bytes_length; lia | rewrite xor_bytes_length; lia].
          apply xor_bytes_cancel_r in H; [|lia|lia].
          rewrite !firstn_16_app in H by exact Hu. apply app_inv_head in H. inversion H. reflexivity.
        * rewrite <- (skipn_16_app u x W Hu), skipn_length. lia.
        * apply E_len. rewrite xor_bytes_length; lia.
        * apply E_len. rewrite xor_bytes_length; lia.
      + (* it lies in a later block *)
        assert (Hsplit : u = firstn 16 u ++ skipn 16 u) by (symmetry; apply firstn_skipn).
        assert (Hf16 : length (firstn 16 u) = 16%nat) by (rewrite firstn_length; lia).
        assert (F : forall z, firstn 16 (u ++ z :: W) = firstn 16 u).
        { intro z. rewrite firstn_app. replace (16 - length u)%nat with 0%nat by lia. simpl. apply app_nil_r. }
        assert (S' : forall z, skipn 16 (u ++ z :: W) = skipn 16 u ++ z :: W).
        { intro z. rewrite skipn_app. replace (16 - length u)%nat with 0%nat by lia. reflexivity. }
        rewrite !F, !S' in H.
        apply (IH f k _ (skipn 16 u) x y W) in H; [exact H| | lia |].
        * rewrite <- S', skipn_length. lia.
        * apply E_len. rewrite xor_bytes_length; lia.
  Qed.

  Lemma lastN_app_ge {A} n (c X : list A) : n <= blen X -> lastN n (c ++ X) = lastN n X.
  Proof.
    intro H. unfold lastN. rewrite blen_app.
    replace (blen c + blen X - n) with (blen c + (blen X - n)) by lia.
    rewrite !dropN_skipn, skipn_app, N2Nat.inj_add.
    assert (Hc : N.to_nat (blen c) = length c) by (unfold blen; apply Nat2N.id).
    rewrite Hc, skipn_all2 by lia. cbn [app]. f_equal. lia.
  Qed.

  (* the last ciphertext block is the final chaining value *)
  Lemma cbc_enc_last m : forall f k prev d,
    length d = (16 * S m)%nat -> (16 * S m <= f)%nat -> length prev = 16%nat ->
    lastN 16 (cbc_enc E f k prev d) = cbc_last f k prev d.
  Proof.
    induction m as [|m IH]; intros f k prev d HL Hf Hp; (destruct f as [|f]; [lia|]);
      assert (Hne : d <> []) by (intro Hn; subst d; simpl in HL; lia);
      rewrite (cbc_enc_S E f k prev d Hne), (cbc_last_S f k prev d Hne);
      assert (Hb : length (firstn 16 d) = 16%nat) by (rewrite firstn_length; lia);
      assert (Hc : length (E k (xor_bytes (firstn 16 d) prev)) = 16%nat)
        by (apply E_len; rewrite xor_bytes_length; lia).
    - assert (Hs : skipn 16 d = []) by (apply length_zero_iff_nil; rewrite skipn_length; lia).
      rewrite Hs, cbc_last_nil. replace (cbc_enc E f k _ []) with (@nil byte) by (destruct f; reflexivity).
      rewrite app_nil_r. unfold lastN. replace (blen _ - 16) with 0 by (unfold blen; lia). apply dropN_0.
    - assert (Hs : length (skipn 16 d) = (16 * S m)%nat) by (rewrite skipn_length; lia).
      destruct (cbc_roundtrip E D E_len DE k (S m) f f (skipn 16 d) _ Hs ltac:(lia) ltac:(lia) Hc) as [Hl _].
      rewrite lastN_app_ge by (unfold blen; lia).
      apply IH; [exact Hs|lia|exact Hc].
  Qed.

  Lemma zero_pad_same_len (a b : bytes) : length a = length b ->
    exists z, zero_pad a = a ++ zeros z /\ zero_pad b = b ++ zeros z.
  Proof. intro H. unfold zero_pad, blen. rewrite H. eexists. split; reflexivity. Qed.

  (* the adapter's MAC: one replaced byte, same tag -> same byte *)
  Theorem adapter_mac_byte k iv u x y v t :
    adapter_mac E k iv (u ++ x :: v) = Ok t -> adapter_mac E k iv (u ++ y :: v) = Ok t -> x = y.
  Proof.
    unfold adapter_mac. intros H1 H2.
    destruct (adapter_encrypt E k iv (u ++ x :: v)) as [c1|] eqn:E1; cbn [bind] in H1; [|discriminate].
    destruct (adapter_encrypt E k iv (u ++ y :: v)) as [c2|] eqn:E2; cbn [bind] in H2; [|discriminate].
    inversion H1 as [Ht1]; inversion H2 as [Ht2]. rewrite <- Ht1 in Ht2. clear H1 H2 Ht1. rename Ht2 into Ht. clear t.
    rewrite (adapter_encrypt_ne E k iv (u ++ x :: v)) in E1 by (destruct u; discriminate).
    rewrite (adapter_encrypt_ne E k iv (u ++ y :: v)) in E2 by (destruct u; discriminate).
    destruct (negb (key_ok k)); [discriminate|].
    destruct (negb (blen (the_iv iv) =? 16)) eqn:Eiv; [discriminate|].
    inversion E1; inversion E2; subst c1 c2. clear E1 E2.
    apply negb_false_iff, N.eqb_eq in Eiv.
    assert (Hiv : length (the_iv iv) = 16%nat) by (unfold blen in Eiv; lia).
    destruct (zero_pad_same_len (u ++ x :: v) (u ++ y :: v)) as [z [Z1 Z2]].
    { rewrite !app_length. reflexivity. }
    destruct (zero_pad_len (u ++ x :: v)) as [Hm Hle].
    destruct (mod16_nat _ Hm) as [m Hl].
    assert (Hm1 : (1 <= m)%nat).
    { destruct m; [|lia]. rewrite Z1, !app_length in Hl. simpl in Hl. lia. }
    destruct m as [|m]; [lia|].
    rewrite Z1, Z2, <- !app_assoc in *. cbn [app] in *.
    assert (Hl2 : length (u ++ y :: v ++ zeros z) = (16 * S m)%nat) by (rewrite app_length in *; simpl in *; lia).
    rewrite Hl2, Hl in Ht.
    rewrite (cbc_enc_last m (16 * S m) k _ _ Hl (le_n _) Hiv) in Ht.
    rewrite (cbc_enc_last m (16 * S m) k _ _ Hl2 (le_n _) Hiv) in Ht.
    exact (cbc_last_byte (S m) (16 * S m) k _ u x y _ Hl ltac:(lia) Hiv (eq_sym Ht)).
  Qed.
End Sens.
