(* Finite sweeps: a boolean predicate checked on 0..n-1 by vm_compute, lifted
   to a universally quantified statement with the bound in the statement. *)
From Coq Require Import List Bool NArith Lia.
Import ListNotations.
Open Scope N_scope.

Fixpoint nrange_from (k : nat) (start : N) : list N :=
  match k with O => [] | S k' => start :: nrange_from k' (N.succ start) end.
Definition Nrange (n : N) : list N := nrange_from (N.to_nat n) 0.

Lemma nrange_from_In k : forall start x,
  start <= x -> x < start + N.of_nat k -> In x (nrange_from k start).
Proof.
  induction k as [|k IH]; intros start x H1 H2.
  - simpl in H2. lia.
  - cbn [nrange_from]. destruct (N.eq_dec start x) as [->|Hne]; [left; reflexivity|].
    right. apply IH; lia.
Qed.

Lemma Nrange_In n x : x < n -> In x (Nrange n).
Proof.
  intro H. unfold Nrange. apply nrange_from_In; [lia|]. rewrite N2Nat.id. lia.
Qed.

Lemma sweep (P : N -> bool) n :
  forallb P (Nrange n) = true -> forall x, x < n -> P x = true.
Proof.
  intros H x Hx. rewrite forallb_forall in H. apply H, Nrange_In, Hx.
Qed.

(* two-dimensional sweep *)
Lemma sweep2 (P : N -> N -> bool) n m :
  forallb (fun x => forallb (P x) (Nrange m)) (Nrange n) = true ->
  forall x y, x < n -> y < m -> P x y = true.
Proof.
  intros H x y Hx Hy.
  pose proof (sweep _ _ H x Hx) as H1. cbv beta in H1.
  exact (sweep _ _ H1 y Hy).
Qed.
