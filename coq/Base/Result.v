(* Error enum and result monad shared by all hand-written models.
   Every Python primitive is modelled with its exception behaviour; the enum
   below is the canonical image of a Python exception class (see
   tools/vlib.py: canon_exc, which maps implementation exceptions to it). *)
From Coq Require Import List Bool NArith.
Import ListNotations.

Inductive err : Set :=
| EBf3            (* Bf3FileFormatError (exact class) *)
| EBec2           (* Bec2FileFormatError *)
| EUnsupBf2Instr  (* UnsupportedBf2InstrError  (subclass of Bf3FileFormatError) *)
| EUnsupTagType   (* UnsupportedTagTypeError   (subclass of Bf3FileFormatError) *)
| EUnsupLegacy    (* UnsupportedLegacyFirmwareError (subclass of Bf3FileFormatError) *)
| ECfgId          (* ConfigIdFormatError *)
| EMissPrj        (* MissingProjectSettingsNameError (subclass of ConfigIdFormatError) *)
| EMissDev        (* MissingDeviceSettingsNameError  (subclass of ConfigIdFormatError) *)
| EValue          (* ValueError and subclasses other than the ones below *)
| EUnicode        (* UnicodeDecodeError (subclass of ValueError) *)
| EIndex
| EKey
| EType
| EOverflow
| EAssert         (* AssertionError incl. MalformedPointError *)
| EUnexpectedDER
| EBare           (* bare Exception *)
| ENotImpl
| EFuel.          (* model ran out of fuel: never a Python behaviour *)

Definition err_eqb (a b : err) : bool :=
  match a, b with
  | EBf3, EBf3 | EBec2, EBec2 | EUnsupBf2Instr, EUnsupBf2Instr
  | EUnsupTagType, EUnsupTagType | EUnsupLegacy, EUnsupLegacy | ECfgId, ECfgId
  | EMissPrj, EMissPrj | EMissDev, EMissDev | EValue, EValue | EUnicode, EUnicode
  | EIndex, EIndex | EKey, EKey | EType, EType | EOverflow, EOverflow
  | EAssert, EAssert | EUnexpectedDER, EUnexpectedDER | EBare, EBare
  | ENotImpl, ENotImpl | EFuel, EFuel => true
  | _, _ => false
  end.

Lemma err_eqb_eq a b : err_eqb a b = true <-> a = b.
Proof. destruct a, b; simpl; split; intro H; try reflexivity; try discriminate. Qed.

(* "format error or ValueError": what C14 allows a parser to raise. *)
Definition is_format_or_value (e : err) : bool :=
  match e with
  | EBf3 | EBec2 | EUnsupBf2Instr | EUnsupTagType | EUnsupLegacy
  | ECfgId | EMissPrj | EMissDev | EValue | EUnicode => true
  | _ => false
  end.

(* `except ValueError` *)
Definition is_value (e : err) : bool :=
  match e with EValue | EUnicode => true | _ => false end.

Inductive result (A : Type) : Type :=
| Ok (a : A)
| Err (e : err).
Arguments Ok {A} a.
Arguments Err {A} e.

Definition bind {A B} (r : result A) (f : A -> result B) : result B :=
  match r with Ok a => f a | Err e => Err e end.

Definition rmap {A B} (f : A -> B) (r : result A) : result B :=
  match r with Ok a => Ok (f a) | Err e => Err e end.

Declare Scope res_scope.
Delimit Scope res_scope with res.
Notation "'let*' x ':=' r 'in' k" := (bind r (fun x => k))
  (at level 200, x pattern, r at level 100, k at level 200, right associativity) : res_scope.
Open Scope res_scope.

Definition guard (b : bool) (e : err) : result unit :=
  if b then Ok tt else Err e.

Definition is_ok {A} (r : result A) : bool :=
  match r with Ok _ => true | Err _ => false end.

(* try: ... except <handled>: raise e'   (errors not handled propagate) *)
Definition catch {A} (r : result A) (handled : err -> bool) (e' : err) : result A :=
  match r with
  | Ok a => Ok a
  | Err e => if handled e then Err e' else Err e
  end.

Definition res_eqb {A} (eqb : A -> A -> bool) (x y : result A) : bool :=
  match x, y with
  | Ok a, Ok b => eqb a b
  | Err e, Err f => err_eqb e f
  | _, _ => false
  end.

Fixpoint list_eqb {A} (eqb : A -> A -> bool) (x y : list A) : bool :=
  match x, y with
  | [], [] => true
  | a :: x', b :: y' => eqb a b && list_eqb eqb x' y'
  | _, _ => false
  end.

Definition option_eqb {A} (eqb : A -> A -> bool) (x y : option A) : bool :=
  match x, y with
  | Some a, Some b => eqb a b
  | None, None => true
  | _, _ => false
  end.

Definition prod_eqb {A B} (ea : A -> A -> bool) (eb : B -> B -> bool)
  (x y : A * B) : bool := ea (fst x) (fst y) && eb (snd x) (snd y).

(* index of the cases (0-based) on which a list of booleans is false *)
Fixpoint falses_from (i : N) (l : list bool) : list N :=
  match l with
  | [] => []
  | b :: t => if b then falses_from (N.succ i) t else i :: falses_from (N.succ i) t
  end.
Definition falses (l : list bool) : list N := falses_from 0%N l.

Lemma list_eqb_eq {A} (eqb : A -> A -> bool)
  (H : forall a b, eqb a b = true <-> a = b) x y :
  list_eqb eqb x y = true <-> x = y.
Proof.
  revert y; induction x as [|a x IH]; intros [|b y]; simpl; split; intro E;
    try reflexivity; try discriminate.
  - apply andb_true_iff in E as [E1 E2]. apply H in E1. apply IH in E2. congruence.
  - inversion E; subst. apply andb_true_iff; split; [apply H | apply IH]; reflexivity.
Qed.
