(* BytesReader (bec2format/bytes_reader.py) as a stream: the unread rest and
   the number of bytes consumed (tell()).  read is strict: a request for more
   bytes than remain raises the reader's exception (ValueError by default). *)
From Coq Require Import List Bool NArith Lia.
From Coq Require Import Init.Byte.
From Bec2 Require Import Base.Result Base.Bytes.
Import ListNotations.
Open Scope N_scope.

Record reader := mkR { rest : bytes; pos : N }.

Definition new_reader (b : bytes) : reader := mkR b 0.

Definition rd_read (n : N) (r : reader) : result (bytes * reader) :=
  if n <=? blen (rest r)
  then Ok (takeN n (rest r), mkR (dropN n (rest r)) (pos r + n))
  else Err EValue.

(* read(-1): everything that is left *)
Definition rd_read_all (r : reader) : bytes * reader :=
  (rest r, mkR [] (pos r + blen (rest r))).

Definition rd_read_int (n : N) (r : reader) : result (N * reader) :=
  let* (b, r') := rd_read n r in Ok (from_be b, r').

Definition rd_eof (r : reader) : bool :=
  match rest r with [] => true | _ => false end.

Definition rd_ensure_eof (r : reader) : result unit :=
  if rd_eof r then Ok tt else Err EValue.

Lemma rd_read_app a b p :
  rd_read (blen a) (mkR (a ++ b) p) = Ok (a, mkR b (p + blen a)).
Proof.
  unfold rd_read. cbn [rest pos].
  rewrite blen_app.
  destruct (blen a <=? blen a + blen b) eqn:E; [|apply N.leb_gt in E; lia].
  rewrite takeN_app_exact, dropN_app_exact. reflexivity.
Qed.

Lemma rd_read_int_be n v b p :
  v < 256 ^ N.of_nat n ->
  rd_read_int (N.of_nat n) (mkR (be n v ++ b) p) = Ok (v, mkR b (p + N.of_nat n)).
Proof.
  intro H. unfold rd_read_int.
  rewrite <- (be_blen n v) at 1. rewrite rd_read_app. cbn [bind].
  rewrite from_be_be_small by exact H. rewrite be_blen. reflexivity.
Qed.

Lemma rd_read_ok n r b r' :
  rd_read n r = Ok (b, r') ->
  rest r = b ++ rest r' /\ blen b = n /\ pos r' = pos r + n.
Proof.
  unfold rd_read. destruct (n <=? blen (rest r)) eqn:E; intro H; inversion H; subst.
  apply N.leb_le in E. cbn [rest pos].
  split; [symmetry; apply takeN_dropN|]. split; [|reflexivity].
  rewrite takeN_blen. lia.
Qed.
