(* Congruence modulo p as a setoid ring on Z.

   `eqm p a b := a mod p = b mod p`.  It is an equivalence, +, *, -, opp are
   morphisms, `x mod p` is congruent to x, and (Z, eqm p) is a ring for the
   `ring` tactic.  `Add Ring` is local to a section, so every file that wants
   `ring` on congruences does, inside `Section ... Variable p : Z.`:

     Add Ring eqm_ring : (eqm_rt p)
       (setoid (eqm_equiv p) (eqm_ext p), morphism (eqm_morph p), constants [Zcst]).

   For prime p the ring is an integral domain (eqm_integral).            *)
From Coq Require Import ZArith Lia Ring Setoid Morphisms Zdiv Znumtheory List Bool.
Import ListNotations.
Open Scope Z_scope.

Definition eqm (p a b : Z) : Prop := a mod p = b mod p.

Lemma eqm_def p a b : eqm p a b <-> a mod p = b mod p.
Proof. reflexivity. Qed.

Global Instance eqm_equiv p : Equivalence (eqm p).
Proof.
  split; unfold eqm;
    [intros x; reflexivity | intros x y H; now symmetry | intros x y z H1 H2; now rewrite H1].
Qed.

Global Instance add_eqm p : Proper (eqm p ==> eqm p ==> eqm p) Z.add.
Proof. intros a b H c d H'. unfold eqm in *. rewrite (Zplus_mod a), (Zplus_mod b), H, H'. reflexivity. Qed.

Global Instance mul_eqm p : Proper (eqm p ==> eqm p ==> eqm p) Z.mul.
Proof. intros a b H c d H'. unfold eqm in *. rewrite (Zmult_mod a), (Zmult_mod b), H, H'. reflexivity. Qed.

Global Instance sub_eqm p : Proper (eqm p ==> eqm p ==> eqm p) Z.sub.
Proof. intros a b H c d H'. unfold eqm in *. rewrite (Zminus_mod a), (Zminus_mod b), H, H'. reflexivity. Qed.

Global Instance opp_eqm p : Proper (eqm p ==> eqm p) Z.opp.
Proof.
  intros a b H. unfold eqm in *.
  rewrite <- (Z.sub_0_l a), <- (Z.sub_0_l b), (Zminus_mod 0 a), (Zminus_mod 0 b), H. reflexivity.
Qed.

Lemma mod_eqm p a : eqm p (a mod p) a.
Proof. unfold eqm. apply Zmod_mod. Qed.

(* a reduced value congruent to 0 is the integer 0 *)
Lemma eqm_mod_0 p a : eqm p (a mod p) 0 <-> a mod p = 0.
Proof. unfold eqm. rewrite Zmod_mod, Zmod_0_l. reflexivity. Qed.

Lemma eqm_0_iff p a : eqm p a 0 <-> a mod p = 0.
Proof. unfold eqm. rewrite Zmod_0_l. reflexivity. Qed.

Lemma eqm_sub_0 p a b : eqm p a b <-> eqm p (a - b) 0.
Proof.
  split; intro H.
  - rewrite H. unfold eqm. f_equal. ring.
  - assert (E : eqm p a ((a - b) + b)) by (unfold eqm; f_equal; ring).
    rewrite E, H. unfold eqm. f_equal.
Qed.

Lemma eqm_eq p a b : a = b -> eqm p a b.
Proof. intros ->. reflexivity. Qed.

Lemma eqm_rt p : ring_theory 0 1 Z.add Z.mul Z.sub Z.opp (eqm p).
Proof. constructor; intros; apply eqm_eq; ring. Qed.

Lemma eqm_ext p : ring_eq_ext Z.add Z.mul Z.opp (eqm p).
Proof.
  constructor.
  - intros a b H c d H'. now apply add_eqm.
  - intros a b H c d H'. now apply mul_eqm.
  - intros a b H. now apply opp_eqm.
Qed.

Lemma eqm_morph p : ring_morph 0 1 Z.add Z.mul Z.sub Z.opp (eqm p)
                               0 1 Z.add Z.mul Z.sub Z.opp Z.eqb (fun x => x).
Proof.
  constructor; intros; try reflexivity.
  apply Z.eqb_eq in H. subst. reflexivity.
Qed.

(* decidability *)
Definition eqmb (p a b : Z) : bool := (a mod p =? b mod p).
Lemma eqmb_spec p a b : eqmb p a b = true <-> eqm p a b.
Proof. unfold eqmb, eqm. apply Z.eqb_eq. Qed.
Lemma eqmb_false p a b : eqmb p a b = false <-> ~ eqm p a b.
Proof. unfold eqmb, eqm. apply Z.eqb_neq. Qed.
Lemma eqm_dec p a b : {eqm p a b} + {~ eqm p a b}.
Proof. unfold eqm. apply Z.eq_dec. Qed.

(* integral domain for prime p *)
Lemma eqm_integral p a b : prime p -> eqm p (a * b) 0 -> eqm p a 0 \/ eqm p b 0.
Proof.
  intros Hp H. pose proof (prime_ge_2 _ Hp) as H2.
  apply eqm_0_iff in H. apply Zmod_divide in H; [|lia].
  destruct (prime_mult _ Hp _ _ H) as [D|D]; [left|right];
    apply eqm_0_iff, Zdivide_mod; exact D.
Qed.

Lemma eqm_mul_nz p a b : prime p -> ~ eqm p a 0 -> ~ eqm p b 0 -> ~ eqm p (a * b) 0.
Proof. intros Hp Ha Hb H. destruct (eqm_integral _ _ _ Hp H); tauto. Qed.

Lemma eqm_small_nz p a : 0 < a < p -> ~ eqm p a 0.
Proof. intros H E. unfold eqm in E. rewrite Zmod_0_l, Z.mod_small in E; lia. Qed.

Lemma eqm_cancel_l p c a b : prime p -> ~ eqm p c 0 -> eqm p (c * a) (c * b) -> eqm p a b.
Proof.
  intros Hp Hc H. apply eqm_sub_0. apply eqm_sub_0 in H.
  assert (E : eqm p (c * (a - b)) 0).
  { rewrite <- H. apply eqm_eq. ring. }
  destruct (eqm_integral _ _ _ Hp E); tauto.
Qed.

(* primality of a small number by trial gcd's (used for the small test curves) *)
Fixpoint zrange_from (k : nat) (start : Z) : list Z :=
  match k with O => [] | S k' => start :: zrange_from k' (start + 1) end.
Definition Zrange (lo hi : Z) : list Z := zrange_from (Z.to_nat (hi - lo)) lo.

Lemma zrange_from_In k : forall start x, start <= x < start + Z.of_nat k -> In x (zrange_from k start).
Proof.
  induction k as [|k IH]; intros start x H.
  - simpl in H. lia.
  - cbn [zrange_from]. destruct (Z.eq_dec start x) as [->|Hne]; [left; reflexivity|].
    right. apply IH. lia.
Qed.

Lemma Zrange_In lo hi x : lo <= x < hi -> In x (Zrange lo hi).
Proof. intro H. unfold Zrange. apply zrange_from_In. rewrite Z2Nat.id; lia. Qed.

Lemma zrange_from_bound k : forall start x, In x (zrange_from k start) -> start <= x < start + Z.of_nat k.
Proof.
  induction k as [|k IH]; intros start x H; [destruct H|].
  cbn [zrange_from] in H. destruct H as [<-|H]; [lia|]. apply IH in H. lia.
Qed.

Definition small_prime_check (p : Z) : bool :=
  (1 <? p) && forallb (fun n => Z.gcd n p =? 1) (Zrange 1 p).

Lemma small_prime_check_sound p : small_prime_check p = true -> prime p.
Proof.
  unfold small_prime_check. intro H. apply andb_true_iff in H as [H1 H2].
  apply Z.ltb_lt in H1. apply prime_intro; [exact H1|].
  intros n Hn. rewrite forallb_forall in H2.
  apply Zgcd_1_rel_prime. apply Z.eqb_eq. apply H2. apply Zrange_In. lia.
Qed.

(* keep `rewrite` from unfolding eqm into an equation on `mod`; use eqm_def to unfold *)
Global Opaque eqm.
