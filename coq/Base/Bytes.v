(* bytes = list byte; big-endian integers; Python slicing helpers. *)
From Coq Require Import List Bool NArith Lia ZArith.
From Coq Require Import Init.Byte Strings.Byte.
From Bec2 Require Import Base.Result.
Import ListNotations.
Open Scope N_scope.

Definition bytes := list byte.

Definition b2n (b : byte) : N := Byte.to_N b.
Definition n2b (n : N) : byte :=
  match Byte.of_N (n mod 256) with Some b => b | None => x00 end.

Lemma b2n_lt b : b2n b < 256.
Proof. unfold b2n. pose proof (Byte.to_N_bounded b). lia. Qed.

Lemma n2b_b2n b : n2b (b2n b) = b.
Proof.
  unfold n2b, b2n. rewrite N.mod_small by apply b2n_lt.
  rewrite Byte.of_to_N. reflexivity.
Qed.

Lemma b2n_n2b n : b2n (n2b n) = n mod 256.
Proof.
  unfold n2b, b2n.
  destruct (Byte.of_N (n mod 256)) as [b|] eqn:E.
  - apply Byte.to_of_N in E. exact E.
  - apply Byte.of_N_None_iff in E.
    pose proof (N.mod_upper_bound n 256). lia.
Qed.

Lemma b2n_inj a b : b2n a = b2n b -> a = b.
Proof. intro H. rewrite <- (n2b_b2n a), <- (n2b_b2n b), H. reflexivity. Qed.

Definition byte_eqb (a b : byte) : bool := Byte.eqb a b.
Lemma byte_eqb_eq a b : byte_eqb a b = true <-> a = b.
Proof.
  unfold byte_eqb; split; intro H.
  - apply Byte.byte_dec_bl; exact H.
  - apply Byte.byte_dec_lb; exact H.
Qed.

Definition bytes_eqb : bytes -> bytes -> bool := list_eqb byte_eqb.
Lemma bytes_eqb_eq a b : bytes_eqb a b = true <-> a = b.
Proof. apply list_eqb_eq, byte_eqb_eq. Qed.
Lemma bytes_eqb_refl a : bytes_eqb a a = true.
Proof. apply bytes_eqb_eq; reflexivity. Qed.

(* len as N *)
Definition blen {A} (l : list A) : N := N.of_nat (length l).

Lemma blen_app {A} (a b : list A) : blen (a ++ b) = blen a + blen b.
Proof. unfold blen. rewrite app_length. lia. Qed.
Lemma blen_nil {A} : blen (@nil A) = 0.
Proof. reflexivity. Qed.
Lemma blen_cons {A} (x : A) l : blen (x :: l) = 1 + blen l.
Proof. unfold blen. simpl length. lia. Qed.

(* --- big-endian fixed-width integers ------------------------------------ *)

Fixpoint be_acc (n : nat) (v : N) (acc : bytes) : bytes :=
  match n with
  | O => acc
  | S k => be_acc k (v / 256) (n2b v :: acc)
  end.
(* the low n bytes of v, most significant first (never fails; see to_bytes) *)
Definition be (n : nat) (v : N) : bytes := be_acc n v [].

Lemma be_acc_app n : forall v acc, be_acc n v acc = be_acc n v [] ++ acc.
Proof.
  induction n as [|k IH]; intros v acc; simpl; [reflexivity|].
  rewrite (IH (v / 256) (n2b v :: acc)), (IH (v / 256) [n2b v]).
  rewrite <- app_assoc. reflexivity.
Qed.

Lemma be_S k v : be (S k) v = be k (v / 256) ++ [n2b v].
Proof. unfold be. simpl. apply be_acc_app. Qed.

Lemma be_length n v : length (be n v) = n.
Proof.
  revert v; induction n as [|k IH]; intro v; [reflexivity|].
  rewrite be_S, app_length, IH. simpl. lia.
Qed.

Lemma be_blen n v : blen (be n v) = N.of_nat n.
Proof. unfold blen. rewrite be_length. reflexivity. Qed.

Definition from_be (b : bytes) : N :=
  fold_left (fun acc x => acc * 256 + b2n x) b 0.

Lemma from_be_fold b : forall s,
  fold_left (fun acc x => acc * 256 + b2n x) b s =
  s * 256 ^ blen b + fold_left (fun acc x => acc * 256 + b2n x) b 0.
Proof.
  induction b as [|x b IH]; intro s.
  - cbn [fold_left]. rewrite blen_nil. change (256 ^ 0) with 1. lia.
  - cbn [fold_left]. rewrite (IH (s * 256 + b2n x)), (IH (0 * 256 + b2n x)).
    rewrite blen_cons, N.pow_add_r. change (256 ^ 1) with 256. lia.
Qed.

Lemma from_be_app a b :
  from_be (a ++ b) = from_be a * 256 ^ blen b + from_be b.
Proof.
  unfold from_be. rewrite fold_left_app. apply from_be_fold.
Qed.

Lemma from_be_be n v : from_be (be n v) = v mod 256 ^ N.of_nat n.
Proof.
  revert v; induction n as [|k IH]; intro v.
  - change (256 ^ N.of_nat 0) with 1. rewrite N.mod_1_r. reflexivity.
  - rewrite be_S, from_be_app, IH. change (blen [n2b v]) with 1.
    change (256 ^ 1) with 256.
    unfold from_be at 1. simpl fold_left. rewrite b2n_n2b.
    rewrite Nat2N.inj_succ, N.pow_succ_r by lia.
    set (m := 256 ^ N.of_nat k).
    assert (Hm : m <> 0) by (apply N.pow_nonzero; lia).
    rewrite (N.mod_mul_r v 256 m) by lia. ring.
Qed.

Lemma from_be_be_small n v : v < 256 ^ N.of_nat n -> from_be (be n v) = v.
Proof. intro H. rewrite from_be_be. apply N.mod_small. exact H. Qed.

Lemma from_be_lt b : from_be b < 256 ^ blen b.
Proof.
  induction b as [|x b IH] using rev_ind.
  - reflexivity.
  - rewrite from_be_app, blen_app. change (blen [x]) with 1.
    rewrite N.pow_add_r. change (256 ^ 1) with 256.
    change (from_be [x]) with (0 * 256 + b2n x).
    pose proof (b2n_lt x). set (P := 256 ^ blen b) in *. lia.
Qed.

Lemma be_from_be b : be (length b) (from_be b) = b.
Proof.
  induction b as [|x b IH] using rev_ind; [reflexivity|].
  rewrite app_length. simpl length. replace (length b + 1)%nat with (S (length b)) by lia.
  rewrite be_S, from_be_app. change (blen [x]) with 1. change (256 ^ 1) with 256.
  unfold from_be at 2 4. simpl fold_left.
  pose proof (b2n_lt x) as Hx.
  replace ((from_be b * 256 + b2n x) / 256) with (from_be b)
    by (symmetry; rewrite N.div_add_l by lia; rewrite N.div_small by lia; lia).
  rewrite IH. f_equal. f_equal.
  unfold n2b.
  replace ((from_be b * 256 + b2n x) mod 256) with (b2n x).
  - unfold b2n. rewrite Byte.of_to_N. reflexivity.
  - rewrite N.add_comm, N.mod_add by lia. symmetry. apply N.mod_small. exact Hx.
Qed.

(* Python int.to_bytes(n, "big") : OverflowError when it does not fit *)
Definition to_bytes (n : nat) (v : N) : result bytes :=
  if v <? 256 ^ N.of_nat n then Ok (be n v) else Err EOverflow.

Lemma to_bytes_ok n v b : to_bytes n v = Ok b -> b = be n v /\ v < 256 ^ N.of_nat n.
Proof.
  unfold to_bytes. destruct (v <? 256 ^ N.of_nat n) eqn:E; intro H; inversion H.
  apply N.ltb_lt in E. auto.
Qed.

(* --- slices --------------------------------------------------------------- *)

(* firstn/skipn with an N count, safe under vm_compute for huge counts *)
Definition takeN {A} (n : N) (l : list A) : list A :=
  firstn (N.to_nat (N.min n (blen l))) l.
Definition dropN {A} (n : N) (l : list A) : list A :=
  skipn (N.to_nat (N.min n (blen l))) l.

Lemma takeN_firstn {A} n (l : list A) : takeN n l = firstn (N.to_nat n) l.
Proof.
  unfold takeN, blen. destruct (N.le_ge_cases n (N.of_nat (length l))) as [H|H].
  - rewrite N.min_l by exact H. reflexivity.
  - rewrite N.min_r by exact H. rewrite Nat2N.id.
    rewrite firstn_all. symmetry. apply firstn_all2. lia.
Qed.

Lemma dropN_skipn {A} n (l : list A) : dropN n l = skipn (N.to_nat n) l.
Proof.
  unfold dropN, blen. destruct (N.le_ge_cases n (N.of_nat (length l))) as [H|H].
  - rewrite N.min_l by exact H. reflexivity.
  - rewrite N.min_r by exact H. rewrite Nat2N.id.
    rewrite skipn_all. symmetry. apply skipn_all2. lia.
Qed.

Lemma takeN_dropN {A} n (l : list A) : takeN n l ++ dropN n l = l.
Proof. unfold takeN, dropN. apply firstn_skipn. Qed.

Lemma takeN_app_exact {A} (a b : list A) : takeN (blen a) (a ++ b) = a.
Proof.
  rewrite takeN_firstn. unfold blen. rewrite Nat2N.id.
  rewrite firstn_app, Nat.sub_diag, firstn_all. simpl. apply app_nil_r.
Qed.

Lemma dropN_app_exact {A} (a b : list A) : dropN (blen a) (a ++ b) = b.
Proof.
  rewrite dropN_skipn. unfold blen. rewrite Nat2N.id.
  rewrite skipn_app, Nat.sub_diag, skipn_all. reflexivity.
Qed.

Lemma takeN_blen {A} n (l : list A) : blen (takeN n l) = N.min n (blen l).
Proof.
  unfold takeN, blen. rewrite firstn_length. lia.
Qed.

Lemma dropN_blen {A} n (l : list A) : blen (dropN n l) = blen l - N.min n (blen l).
Proof.
  unfold dropN, blen. rewrite skipn_length. lia.
Qed.

Definition zeros (n : nat) : bytes := repeat x00 n.

Lemma zeros_length n : length (zeros n) = n.
Proof. apply repeat_length. Qed.

(* the case-file literal: [H len v] is the len-byte big-endian string of v.
   Linear-time implementation over the binary digits (equal to [be], but [be]
   divides a multi-thousand-bit number once per byte). *)
Fixpoint pos_bits (p : positive) : list bool :=
  match p with
  | xH => [true]
  | xO q => false :: pos_bits q
  | xI q => true :: pos_bits q
  end.
Definition N_bits (n : N) : list bool :=
  match n with N0 => [] | Npos p => pos_bits p end.
Definition bit_val (b : bool) (w : N) : N := if b then w else 0.
(* little-endian bits -> little-endian bytes; fuel = number of bytes wanted *)
Fixpoint bits_to_bytes_le (fuel : nat) (bits : list bool) : bytes :=
  match fuel with
  | O => []
  | S f =>
    match bits with
    | b0 :: b1 :: b2 :: b3 :: b4 :: b5 :: b6 :: b7 :: tl =>
        n2b (bit_val b0 1 + bit_val b1 2 + bit_val b2 4 + bit_val b3 8 +
             bit_val b4 16 + bit_val b5 32 + bit_val b6 64 + bit_val b7 128)
        :: bits_to_bytes_le f tl
    | _ => x00 :: bits_to_bytes_le f []     (* fewer than 8 bits left: only padding *)
    end
  end.
Definition H (len v : N) : bytes :=
  rev_append (bits_to_bytes_le (N.to_nat len) (N_bits v ++ repeat false 7)) [].

(* last n elements (Python b[-n:] for n > 0) *)
Definition lastN {A} (n : N) (l : list A) : list A := dropN (blen l - n) l.

Lemma lastN_app_exact {A} (a b : list A) : lastN (blen b) (a ++ b) = b.
Proof.
  unfold lastN. rewrite blen_app.
  replace (blen a + blen b - blen b) with (blen a) by lia.
  apply dropN_app_exact.
Qed.

Example H_example : H 5 0x4246330001 = be 5 0x4246330001 /\ H 3 0xFF = be 3 0xFF /\ H 1 0x1FF = be 1 0x1FF /\ H 2 0 = be 2 0.
Proof. vm_compute. repeat split. Qed.

Lemma takeN_app_exact' {A} n (a b : list A) : blen a = n -> takeN n (a ++ b) = a.
Proof. intros <-. apply takeN_app_exact. Qed.
Lemma dropN_app_exact' {A} n (a b : list A) : blen a = n -> dropN n (a ++ b) = b.
Proof. intros <-. apply dropN_app_exact. Qed.
Lemma blen_zeros n : blen (zeros n) = N.of_nat n.
Proof. unfold blen. rewrite zeros_length. reflexivity. Qed.
Lemma be_1 v : be 1 v = [n2b v].
Proof. reflexivity. Qed.
Lemma takeN_all {A} n (l : list A) : blen l <= n -> takeN n l = l.
Proof.
  intro H. rewrite takeN_firstn. apply firstn_all2. unfold blen in H. lia.
Qed.
Lemma dropN_0 {A} (l : list A) : dropN 0 l = l.
Proof. rewrite dropN_skipn. reflexivity. Qed.
Lemma b2n_n2b_small n : n < 256 -> b2n (n2b n) = n.
Proof. intro H. rewrite b2n_n2b. apply N.mod_small, H. Qed.
